(* C06, part 3: parse(str(s)) == s, normalize, and the invariant of parsed styles. *)
From RichModel Require Import Prelude Color Style SpecStyle.
From RichGen Require Import StyleTables ColorRegex.
From RichProofs Require Import StyleP StyleP2.
From Coq Require Import ZifyBool.
From Coq Require FinFun.

(* ------------------------------------------------------------------ words *)
Definition word_ok (w : str) : Prop := w <> [] /\ ws_free w = true.

Lemma sp_space : is_uni_space SP = true. Proof. vm_compute. reflexivity. Qed.

Lemma split_go_word w : ws_free w = true -> forall r cur,
  split_ws_go (w ++ r) cur = split_ws_go r (rev w ++ cur).
Proof.
  induction w as [|c w IH]; intros H r cur; [reflexivity|].
  unfold ws_free in *. cbn [forallb] in H. apply andb_true_iff in H as [Hc Hw]. cbn [app split_ws_go].
  destruct (is_uni_space c) eqn:E; [discriminate Hc|]. rewrite IH by assumption.
  cbn [rev]. rewrite <- app_assoc. reflexivity.
Qed.

(* str.split() of " ".join(words) gives the words back *)
Lemma split_join ws : Forall word_ok ws -> split_ws (str_join [SP] ws) = ws.
Proof.
  unfold split_ws. induction ws as [|w ws IH]; intros H; [reflexivity|].
  inversion H as [|? ? [Hne Hw] Hr]; subst.
  destruct ws as [|w2 ws].
  - cbn [str_join]. rewrite <- (app_nil_r w) at 1. rewrite split_go_word by assumption. cbn [split_ws_go].
    rewrite app_nil_r. destruct (rev w) eqn:E.
    + apply (f_equal (@rev Z)) in E. rewrite rev_involutive in E. contradiction.
    + rewrite <- E, rev_involutive. reflexivity.
  - change (str_join [SP] (w :: w2 :: ws)) with (w ++ [SP] ++ str_join [SP] (w2 :: ws)).
    rewrite split_go_word by assumption. cbn [app split_ws_go]. rewrite sp_space, app_nil_r.
    destruct (rev w) eqn:E.
    + apply (f_equal (@rev Z)) in E. rewrite rev_involutive in E. contradiction.
    + rewrite <- E, rev_involutive. f_equal. apply IH. exact Hr.
Qed.

(* no leading / trailing whitespace: strip is the identity *)
Definition hd_ok (s : str) : bool := match s with [] => true | c :: _ => negb (is_uni_space c) end.
Lemma drop_while_hd s : hd_ok s = true -> drop_while is_uni_space s = s.
Proof.
  destruct s as [|c s]; [reflexivity|]. cbn [hd_ok drop_while].
  destruct (is_uni_space c); [cbn; discriminate|reflexivity].
Qed.
Lemma strip_noop s : hd_ok s = true -> hd_ok (rev s) = true -> py_strip s = s.
Proof.
  intros H1 H2. unfold py_strip, strip_with. rewrite (drop_while_hd s H1), (drop_while_hd _ H2).
  apply rev_involutive.
Qed.

Lemma ws_free_rev w : ws_free w = true -> ws_free (rev w) = true.
Proof.
  unfold ws_free. intros H. apply forallb_forall. intros x Hx. apply in_rev in Hx.
  exact (proj1 (forallb_forall _ _) H x Hx).
Qed.
Lemma word_hd w : word_ok w -> hd_ok w = true /\ hd_ok (rev w) = true /\ rev w <> [].
Proof.
  intros [Hne Hw]. pose proof (ws_free_rev w Hw) as Hr.
  assert (rev w <> []) as Rne.
  { intros E. apply (f_equal (@rev Z)) in E. rewrite rev_involutive in E. contradiction. }
  repeat split; try assumption.
  - destruct w as [|c w]; [contradiction|]. unfold ws_free in Hw. cbn [forallb hd_ok] in *.
    apply andb_true_iff in Hw as [-> _]. reflexivity.
  - destruct (rev w) as [|c r]; [contradiction|]. unfold ws_free in Hr. cbn [forallb hd_ok] in *.
    apply andb_true_iff in Hr as [-> _]. reflexivity.
Qed.

Lemma hd_ok_app a b : a <> [] -> hd_ok a = true -> hd_ok (a ++ b) = true.
Proof. destruct a; [contradiction|]. intros _ H. exact H. Qed.

Lemma join_ends ws : Forall word_ok ws -> ws <> [] ->
  hd_ok (str_join [SP] ws) = true /\ hd_ok (rev (str_join [SP] ws)) = true /\ rev (str_join [SP] ws) <> [].
Proof.
  induction ws as [|w ws IH]; intros H Hne; [contradiction|].
  inversion H as [|? ? Hw Hr]; subst. destruct (word_hd w Hw) as (W1 & W2 & W3).
  destruct ws as [|w2 ws]; [cbn [str_join]; auto|].
  change (str_join [SP] (w :: w2 :: ws)) with (w ++ [SP] ++ str_join [SP] (w2 :: ws)).
  destruct (IH Hr ltac:(discriminate)) as (I1 & I2 & I3).
  split; [apply hd_ok_app; [exact (proj1 Hw)|exact W1]|].
  rewrite !rev_app_distr. split.
  - rewrite <- app_assoc. apply hd_ok_app; assumption.
  - intros E. apply app_eq_nil in E as [E _]. apply app_eq_nil in E as [E _]. contradiction.
Qed.

(* ------------------------------------------------------------------ facts about the generated tables *)
Definition ORD : list Z := filter (bit_between 0 3) STR_ORDER ++ filter (bit_between 4 8) STR_ORDER
                           ++ filter (bit_between 9 12) STR_ORDER.

Definition kw3 (w : str) : bool := str_eqb w (lit "on") || str_eqb w (lit "not") || str_eqb w (lit "link").
Definition optZ_is (o : option Z) (v : Z) : bool := match o with Some x => x =? v | None => false end.
Definition not_ok {A} (r : res A) : bool := match r with Ok _ => false | _ => true end.

Definition attr_fact (i : Z) : bool :=
  str_eqb (py_lower (attr_name i)) (attr_name i) && negb (kw3 (attr_name i))
  && optZ_is (assoc_str (attr_name i) STYLE_ATTRIBUTES) i
  && ws_free (attr_name i) && negb (str_eqb (attr_name i) []) && negb (str_eqb (attr_name i) (lit "none"))
  && (0 <=? i).
Lemma attr_facts : forallb attr_fact ORD = true. Proof. vm_compute. reflexivity. Qed.
Lemma ORD_is_bits : ORD = attr_bits. Proof. vm_compute. reflexivity. Qed.
Lemma group_masks :
  forallb (Z.testbit 15) (filter (bit_between 0 3) STR_ORDER)
  && forallb (Z.testbit 496) (filter (bit_between 4 8) STR_ORDER)
  && forallb (Z.testbit 7680) (filter (bit_between 9 12) STR_ORDER)
  && forallb (fun i => 0 <=? i) STR_ORDER = true.
Proof. vm_compute. reflexivity. Qed.

(* the keywords of Style.parse are not colours *)
Definition KEYWORDS : list str := [lit "on"; lit "not"; lit "link"; lit "none"; []] ++ map fst STYLE_ATTRIBUTES.
Lemma keywords_not_colours : forallb (fun k => not_ok (Color.parse true k)) KEYWORDS = true.
Proof. vm_compute. reflexivity. Qed.
Lemma kw_lower : py_lower (lit "on") = lit "on" /\ py_lower (lit "not") = lit "not" /\ py_lower (lit "link") = lit "link".
Proof. vm_compute. repeat split. Qed.

Lemma assoc_str_key {B} w (l : list (str * B)) v : assoc_str w l = Some v -> In w (map fst l).
Proof.
  induction l as [|[k x] l IH]; cbn; [discriminate|].
  destruct (str_eqb k w) eqn:E; [apply str_eqb_eq in E; subst; auto|auto].
Qed.

Lemma colour_not_keyword w c : Color.parse true w = Ok c ->
  kw3 w = false /\ assoc_str w STYLE_ATTRIBUTES = None /\ w <> [] /\ w <> lit "none".
Proof.
  intros P. pose proof (proj1 (forallb_forall _ _) keywords_not_colours) as K.
  assert (forall k, In k KEYWORDS -> w <> k) as NK.
  { intros k Hk ->. specialize (K k Hk). cbv beta in K. rewrite P in K. discriminate. }
  repeat split.
  - unfold kw3. destruct (str_eqb w (lit "on")) eqn:E1; [apply str_eqb_eq in E1; exfalso; apply (NK (lit "on")); [cbn; auto|exact E1]|].
    destruct (str_eqb w (lit "not")) eqn:E2; [apply str_eqb_eq in E2; exfalso; apply (NK (lit "not")); [cbn; auto|exact E2]|].
    destruct (str_eqb w (lit "link")) eqn:E3; [apply str_eqb_eq in E3; exfalso; apply (NK (lit "link")); [cbn; auto|exact E3]|].
    reflexivity.
  - destruct (assoc_str w STYLE_ATTRIBUTES) eqn:E; [|reflexivity].
    apply assoc_str_key in E. exfalso. apply (NK w); [|reflexivity].
    unfold KEYWORDS. apply in_or_app. right. exact E.
  - apply NK. cbn. auto 6.
  - apply NK. cbn. auto 6.
Qed.

(* ------------------------------------------------------------------ the words of str(s) *)
Definition ctoks (s : style) : list str := match s_color s with Some c => [c_name c] | None => [] end.
Definition btoks (s : style) : list str := match s_bgcolor s with Some c => [lit "on"; c_name c] | None => [] end.
Definition ltoks (s : style) : list str := match s_link s with Some ((_ :: _) as l) => [lit "link"; l] | _ => [] end.
Definition toks (s : style) : list str := flat_map (attr_word_str s) ORD ++ ctoks s ++ btoks s ++ ltoks s.

Lemma group_empty s mask bits : forallb (Z.testbit mask) bits = true -> forallb (fun i => 0 <=? i) bits = true ->
  str_group s mask bits = flat_map (attr_word_str s) bits.
Proof.
  intros M P. unfold str_group. destruct (Z.land (s_set_attributes s) mask =? 0) eqn:E; [|reflexivity].
  apply Z.eqb_eq in E. induction bits as [|i bits IH]; [reflexivity|].
  cbn in M, P. apply andb_true_iff in M as [Mi M]. apply andb_true_iff in P as [Pi P].
  cbn [flat_map]. rewrite <- IH by assumption.
  unfold attr_word_str. rewrite has_bit_spec by lia.
  assert (Z.testbit (s_set_attributes s) i = false) as ->; [|reflexivity].
  apply (f_equal (fun z => Z.testbit z i)) in E. rewrite Z.land_spec, Mi, andb_true_r, Z.bits_0 in E. exact E.
Qed.

Lemma forallb_filter_sub {A} (p q : A -> bool) l : forallb p l = true -> forallb p (filter q l) = true.
Proof.
  intros H. apply forallb_forall. intros x Hx. apply filter_In in Hx as [Hx _].
  exact (proj1 (forallb_forall _ _) H x Hx).
Qed.

Lemma str_words_toks s : style_str_words s = toks s.
Proof.
  pose proof group_masks as G.
  apply andb_true_iff in G as [G P]. apply andb_true_iff in G as [G G3]. apply andb_true_iff in G as [G1 G2].
  unfold style_str_words, toks, ORD, ctoks, btoks, ltoks.
  rewrite (group_empty s 15 _ G1 (forallb_filter_sub _ _ _ P)),
          (group_empty s 496 _ G2 (forallb_filter_sub _ _ _ P)),
          (group_empty s 7680 _ G3 (forallb_filter_sub _ _ _ P)).
  rewrite !flat_map_app, <- !app_assoc. reflexivity.
Qed.

(* ------------------------------------------------------------------ simulation of the parser loop *)
Definition apply_bit (s : style) (l : list (Z * bool)) (i : Z) : list (Z * bool) :=
  if has_bit (s_set_attributes s) i then attrs_set l i (has_bit (s_attributes s) i) else l.

Lemma not_kw3_tests w : kw3 w = false ->
  str_eqb w (lit "on") = false /\ str_eqb w (lit "not") = false /\ str_eqb w (lit "link") = false.
Proof.
  unfold kw3. intros H. apply orb_false_iff in H as [H H3]. apply orb_false_iff in H as [H1 H2]. auto.
Qed.

Lemma optZ_is_eq o v : optZ_is o v = true -> o = Some v.
Proof. destruct o; cbn; [intros H; apply Z.eqb_eq in H; subst; reflexivity|discriminate]. Qed.

Lemma attr_fact_parts i : attr_fact i = true ->
  py_lower (attr_name i) = attr_name i /\ kw3 (attr_name i) = false
  /\ assoc_str (attr_name i) STYLE_ATTRIBUTES = Some i /\ word_ok (attr_name i)
  /\ attr_name i <> lit "none" /\ 0 <= i.
Proof.
  unfold attr_fact. intros H.
  apply andb_true_iff in H as [H H7]. apply andb_true_iff in H as [H H6]. apply andb_true_iff in H as [H H5].
  apply andb_true_iff in H as [H H4]. apply andb_true_iff in H as [H H3]. apply andb_true_iff in H as [H1 H2].
  apply str_eqb_eq in H1. apply negb_true_iff in H2, H5, H6. apply optZ_is_eq in H3.
  repeat split; try assumption; try lia.
  - intros E. rewrite E in H5. discriminate.
  - intros E. rewrite E, str_eqb_refl in H6. discriminate.
Qed.

(* the attribute words *)
Lemma pw_attrs s bs : forallb attr_fact bs = true -> forall rest st fuel,
  (length (flat_map (attr_word_str s) bs ++ rest) < fuel)%nat ->
  exists fuel', (length rest < fuel')%nat /\
    parse_words fuel (flat_map (attr_word_str s) bs ++ rest) st
    = parse_words fuel' rest (mkPState (p_color st) (p_bgcolor st) (fold_left (apply_bit s) bs (p_attrs st)) (p_link st)).
Proof.
  induction bs as [|i bs IH]; intros F rest st fuel Hf.
  - exists fuel. split; [exact Hf|]. destruct st; reflexivity.
  - cbn [forallb] in F. apply andb_true_iff in F as [Fi F].
    destruct (attr_fact_parts i Fi) as (L & K & A & _ & _ & _).
    destruct (not_kw3_tests _ K) as (K1 & K2 & K3).
    cbn [flat_map fold_left] in Hf |- *. unfold attr_word_str at 1 in Hf. unfold attr_word_str at 1, apply_bit at 2.
    destruct (has_bit (s_set_attributes s) i) eqn:S; [|cbn [app] in Hf |- *; apply IH; assumption].
    destruct (has_bit (s_attributes s) i) eqn:V.
    + cbn [app] in *. destruct fuel as [|fuel]; [cbn in Hf; lia|].
      cbn [parse_words]. rewrite L, K1, K2, K3, A.
      destruct (IH F rest (mkPState (p_color st) (p_bgcolor st) (attrs_set (p_attrs st) i true) (p_link st)) fuel
                   ltac:(cbn in Hf; lia)) as (f' & Hf' & E).
      exists f'. split; [exact Hf'|]. exact E.
    + cbn [app] in *. destruct fuel as [|fuel]; [cbn in Hf; lia|].
      cbn [parse_words]. destruct kw_lower as (_ & -> & _).
      change (str_eqb (lit "not") (lit "on")) with false. change (str_eqb (lit "not") (lit "not")) with true.
      cbn iota. rewrite A.
      destruct (IH F rest (mkPState (p_color st) (p_bgcolor st) (attrs_set (p_attrs st) i false) (p_link st)) fuel
                   ltac:(cbn in Hf; lia)) as (f' & Hf' & E).
      exists f'. split; [exact Hf'|]. exact E.
Qed.

Lemma check_color_ok w c : Color.parse true w = Ok c -> check_color w = Ok tt.
Proof. unfold check_color. intros ->. reflexivity. Qed.

(* a colour word *)
Lemma pw_color w c rest st fuel : Color.parse true w = Ok c -> py_lower w = w ->
  (length (w :: rest) < fuel)%nat ->
  exists fuel', (length rest < fuel')%nat /\
    parse_words fuel (w :: rest) st = parse_words fuel' rest (mkPState (Some w) (p_bgcolor st) (p_attrs st) (p_link st)).
Proof.
  intros P L Hf. destruct (colour_not_keyword w c P) as (K & A & _ & _).
  destruct (not_kw3_tests _ K) as (K1 & K2 & K3).
  destruct fuel as [|fuel]; [cbn in Hf; lia|]. exists fuel. split; [cbn in Hf; lia|].
  cbn [parse_words]. rewrite L, K1, K2, K3, A, (check_color_ok w c P). reflexivity.
Qed.

Lemma pw_on w c rest st fuel : Color.parse true w = Ok c ->
  (length (lit "on" :: w :: rest) < fuel)%nat ->
  exists fuel', (length rest < fuel')%nat /\
    parse_words fuel (lit "on" :: w :: rest) st = parse_words fuel' rest (mkPState (p_color st) (Some w) (p_attrs st) (p_link st)).
Proof.
  intros P Hf. destruct fuel as [|fuel]; [cbn in Hf; lia|]. exists fuel. split; [cbn in Hf; lia|].
  cbn [parse_words]. destruct kw_lower as (-> & _ & _).
  change (str_eqb (lit "on") (lit "on")) with true. cbn iota.
  rewrite (check_color_ok w c P). reflexivity.
Qed.

Lemma pw_link w rest st fuel :
  (length (lit "link" :: w :: rest) < fuel)%nat ->
  exists fuel', (length rest < fuel')%nat /\
    parse_words fuel (lit "link" :: w :: rest) st = parse_words fuel' rest (mkPState (p_color st) (p_bgcolor st) (p_attrs st) (Some w)).
Proof.
  intros Hf. destruct fuel as [|fuel]; [cbn in Hf; lia|]. exists fuel. split; [cbn in Hf; lia|].
  cbn [parse_words]. destruct kw_lower as (_ & _ & ->).
  change (str_eqb (lit "link") (lit "on")) with false. change (str_eqb (lit "link") (lit "not")) with false.
  change (str_eqb (lit "link") (lit "link")) with true. reflexivity.
Qed.

Lemma pw_end st fuel : (0 < fuel)%nat -> parse_words fuel [] st = Ok st.
Proof. destruct fuel; [lia|reflexivity]. Qed.

(* ------------------------------------------------------------------ well-formedness, unpacked *)
Lemma name_ok_parts c : name_ok_b c = true ->
  Color.parse true (c_name c) = Ok c /\ ws_free (c_name c) = true /\ py_lower (c_name c) = c_name c.
Proof.
  unfold name_ok_b. intros H. apply andb_true_iff in H as [H H3]. apply andb_true_iff in H as [H1 H2].
  destruct (Color.parse true (c_name c)) as [c'| |] eqn:P; try discriminate.
  apply color_eqb_eq in H1. subst. apply str_eqb_eq in H3. auto.
Qed.

Lemma wf_parts s : wf_style_b s = true ->
  attr_range_b s = true /\ attr_sub_b s = true /\ opt_name_ok_b (s_color s) = true
  /\ opt_name_ok_b (s_bgcolor s) = true /\ link_word_ok_b (s_link s) = true.
Proof.
  unfold wf_style_b. intros H. apply andb_true_iff in H as [H H5]. apply andb_true_iff in H as [H H4].
  apply andb_true_iff in H as [H H3]. apply andb_true_iff in H as [H1 H2]. auto.
Qed.

Definition names (s : style) : pstate :=
  mkPState (option_map c_name (s_color s)) (option_map c_name (s_bgcolor s))
           (fold_left (apply_bit s) ORD []) (s_link s).

Lemma pw_toks s : wf_style_b s = true ->
  parse_words (S (length (toks s))) (toks s) (mkPState None None [] None) = Ok (names s).
Proof.
  intros W. destruct (wf_parts s W) as (_ & _ & C & B & Lk).
  unfold toks.
  destruct (pw_attrs s ORD attr_facts (ctoks s ++ btoks s ++ ltoks s) (mkPState None None [] None)
              (S (length (flat_map (attr_word_str s) ORD ++ ctoks s ++ btoks s ++ ltoks s))) ltac:(lia))
    as (f1 & H1 & ->). cbn [p_color p_bgcolor p_attrs p_link].
  unfold names. set (A := fold_left (apply_bit s) ORD []).
  (* colour *)
  assert (exists f2, (length (btoks s ++ ltoks s) < f2)%nat /\
            parse_words f1 (ctoks s ++ btoks s ++ ltoks s) (mkPState None None A None)
            = parse_words f2 (btoks s ++ ltoks s) (mkPState (option_map c_name (s_color s)) None A None)) as (f2 & H2 & ->).
  { unfold ctoks in *. destruct (s_color s) as [c|]; [|exists f1; split; [exact H1|reflexivity]].
    cbn [opt_name_ok_b] in C. destruct (name_ok_parts c C) as (P & _ & L).
    exact (pw_color (c_name c) c _ (mkPState None None A None) f1 P L H1). }
  assert (exists f3, (length (ltoks s) < f3)%nat /\
            parse_words f2 (btoks s ++ ltoks s) (mkPState (option_map c_name (s_color s)) None A None)
            = parse_words f3 (ltoks s)
                (mkPState (option_map c_name (s_color s)) (option_map c_name (s_bgcolor s)) A None)) as (f3 & H3 & ->).
  { unfold btoks in *. destruct (s_bgcolor s) as [c|]; [|exists f2; split; [exact H2|reflexivity]].
    cbn [opt_name_ok_b] in B. destruct (name_ok_parts c B) as (P & _ & _).
    exact (pw_on (c_name c) c _ (mkPState (option_map c_name (s_color s)) None A None) f2 P H2). }
  unfold ltoks in *. destruct (s_link s) as [[|x l]|]; cbn [link_word_ok_b] in Lk; try discriminate.
  - destruct (pw_link (x :: l) [] (mkPState (option_map c_name (s_color s)) (option_map c_name (s_bgcolor s)) A None) f3 H3)
      as (f4 & H4 & ->). apply pw_end. lia.
  - apply pw_end. lia.
Qed.

(* ------------------------------------------------------------------ the flags the loop collects *)
Lemma assoc_Z_filter_ne i j (l : list (Z * bool)) :
  assoc_Z i (filter (fun p => negb (fst p =? j)) l) = if i =? j then None else assoc_Z i l.
Proof.
  induction l as [|[k v] l IH]; cbn; [destruct (i =? j); reflexivity|].
  destruct (k =? j) eqn:E1; cbn.
  - rewrite IH. destruct (k =? i) eqn:E2; [|reflexivity].
    assert (i =? j = true) as -> by lia. reflexivity.
  - rewrite IH. destruct (k =? i) eqn:E2; [|reflexivity].
    assert (i =? j = false) as -> by lia. reflexivity.
Qed.

Lemma assoc_attrs_set l j v i : assoc_Z i (attrs_set l j v) = if j =? i then Some v else assoc_Z i l.
Proof.
  unfold attrs_set. cbn. destruct (j =? i) eqn:E; [reflexivity|].
  rewrite assoc_Z_filter_ne. assert (i =? j = false) as -> by lia. reflexivity.
Qed.

Definition tri (s : style) (i : Z) : option bool :=
  if has_bit (s_set_attributes s) i then Some (has_bit (s_attributes s) i) else None.

Lemma assoc_apply_bits s bs : NoDup bs -> forall l i,
  assoc_Z i (fold_left (apply_bit s) bs l)
  = if existsb (Z.eqb i) bs then (match tri s i with Some v => Some v | None => assoc_Z i l end) else assoc_Z i l.
Proof.
  induction bs as [|b bs IH]; intros ND l i; [reflexivity|].
  inversion ND as [|? ? Hnin ND']; subst. cbn [fold_left existsb]. rewrite IH by assumption.
  destruct (i =? b) eqn:E.
  - apply Z.eqb_eq in E. subst.
    assert (existsb (Z.eqb b) bs = false) as ->.
    { destruct (existsb (Z.eqb b) bs) eqn:X; [|reflexivity]. apply existsb_exists in X as (x & Hx & Ex).
      apply Z.eqb_eq in Ex. subst. contradiction. }
    cbn [orb]. unfold apply_bit, tri. destruct (has_bit (s_set_attributes s) b); [|reflexivity].
    rewrite assoc_attrs_set, Z.eqb_refl. reflexivity.
  - cbn [orb]. assert (assoc_Z i (apply_bit s l b) = assoc_Z i l) as ->; [|reflexivity].
    unfold apply_bit. destruct (has_bit (s_set_attributes s) b); [|reflexivity].
    rewrite assoc_attrs_set. assert (b =? i = false) as -> by lia. reflexivity.
Qed.

Lemma ORD_nodup : NoDup ORD.
Proof. rewrite ORD_is_bits. unfold attr_bits. apply FinFun.Injective_map_NoDup; [intros x y H; lia|apply seq_NoDup]. Qed.

Lemma flags_names s : flags_of (p_attrs (names s)) = map (tri s) attr_bits.
Proof.
  unfold flags_of, names, attr_bits. cbn [p_attrs]. rewrite map_map. apply map_ext_in. intros k Hk.
  rewrite (assoc_apply_bits s ORD ORD_nodup).
  assert (existsb (Z.eqb (Z.of_nat k)) ORD = true) as ->.
  { apply existsb_exists. exists (Z.of_nat k). split; [|apply Z.eqb_refl].
    rewrite ORD_is_bits. unfold attr_bits. apply in_map. exact Hk. }
  destruct (tri s (Z.of_nat k)); reflexivity.
Qed.

(* ------------------------------------------------------------------ a 13-bit word is the sum of its bits *)
Fixpoint bits_word (bs : list bool) (w : Z) : Z :=
  match bs with [] => 0 | b :: r => (if b then w else 0) + bits_word r (2 * w) end.
Definition is_some {A} (o : option A) : bool := match o with Some _ => true | None => false end.
Definition is_true (o : option bool) : bool := match o with Some true => true | _ => false end.
Lemma set_word_bits fl : forall w, set_word fl w = bits_word (map is_some fl) w.
Proof. induction fl as [|[b|] fl IH]; intros w; cbn; rewrite ?IH; reflexivity. Qed.
Lemma attr_word_bits fl : forall w, attr_word fl w = bits_word (map is_true fl) w.
Proof. induction fl as [|[[|]|] fl IH]; intros w; cbn; rewrite ?IH; reflexivity. Qed.

Definition word_bits (w : Z) : list bool := map (has_bit w) attr_bits.
Definition all_words : list Z := map Z.of_nat (seq 0 (Z.to_nat (Z.shiftl 1 N_ATTRS))).
Lemma word_sweep : forallb (fun w => bits_word (word_bits w) 1 =? w) all_words = true.
Proof. vm_compute. reflexivity. Qed.
Lemma word_is_sum w : 0 <= w < Z.shiftl 1 N_ATTRS -> bits_word (word_bits w) 1 = w.
Proof.
  intros H. apply Z.eqb_eq. apply (proj1 (forallb_forall _ _) word_sweep).
  unfold all_words. rewrite <- (Z2Nat.id w) by lia. apply in_map. apply in_seq. lia.
Qed.

Lemma firstn_attr_bits s : firstn n_attrs (map (tri s) attr_bits) = map (tri s) attr_bits.
Proof. apply firstn_all2. unfold attr_bits. rewrite !map_length, seq_length. lia. Qed.

Lemma sub_range a st : 0 <= st -> Z.land a st = a -> 0 <= a <= st.
Proof.
  intros Hs H. apply Z.ldiff_le; [exact Hs|].
  apply Z.bits_inj'. intros n Hn. apply (f_equal (fun z => Z.testbit z n)) in H.
  rewrite Z.land_spec in H. rewrite Z.ldiff_spec, Z.bits_0.
  destruct (Z.testbit a n), (Z.testbit st n); cbn in *; congruence.
Qed.

Lemma make_tri s c b l : attr_range_b s = true -> attr_sub_b s = true ->
  s_set_attributes (style_make c b (map (tri s) attr_bits) l) = s_set_attributes s
  /\ s_attributes (style_make c b (map (tri s) attr_bits) l) = s_attributes s.
Proof.
  unfold attr_range_b, attr_sub_b. intros R Sb.
  assert (0 <= s_set_attributes s < Z.shiftl 1 N_ATTRS) as R' by lia.
  assert (Z.land (s_attributes s) (s_set_attributes s) = s_attributes s) as Sb' by lia.
  pose proof (sub_range _ _ (proj1 R') Sb') as RA.
  unfold style_make. cbn [s_set_attributes s_attributes]. rewrite firstn_attr_bits.
  rewrite set_word_bits, attr_word_bits, !map_map.
  assert (map (fun x => is_some (tri s x)) attr_bits = word_bits (s_set_attributes s)) as ->.
  { unfold word_bits. apply map_ext. intros i. unfold tri. destruct (has_bit (s_set_attributes s) i); reflexivity. }
  assert (map (fun x => is_true (tri s x)) attr_bits = word_bits (s_attributes s)) as ->.
  { unfold word_bits. apply map_ext_in. intros i Hi. unfold tri.
    pose proof (attr_bits_nonneg i Hi) as Pi.
    rewrite <- Sb' at 2. rewrite has_bit_land by assumption.
    destruct (has_bit (s_set_attributes s) i), (has_bit (s_attributes s) i); reflexivity. }
  rewrite (word_is_sum _ R'), (word_is_sum (s_attributes s)) by lia.
  split; [reflexivity|].
  destruct (s_set_attributes s =? 0) eqn:E; [|reflexivity]. lia.
Qed.

(* ------------------------------------------------------------------ the round trip *)
Lemma attr_toks_ok s bs : forallb attr_fact bs = true -> Forall word_ok (flat_map (attr_word_str s) bs).
Proof.
  assert (word_ok (lit "not")) as Wn by (split; [discriminate|reflexivity]).
  induction bs as [|i bs IH]; intros F; [constructor|].
  cbn [forallb] in F. apply andb_true_iff in F as [Fi F]. cbn [flat_map]. apply Forall_app. split; [|apply IH; exact F].
  destruct (attr_fact_parts i Fi) as (_ & _ & _ & Wi & _ & _).
  unfold attr_word_str. destruct (has_bit (s_set_attributes s) i); [|constructor].
  destruct (has_bit (s_attributes s) i);
    [constructor; [exact Wi|constructor]|constructor; [exact Wn|constructor; [exact Wi|constructor]]].
Qed.

Lemma attr_toks_not_none s bs tail : forallb attr_fact bs = true -> tail <> [lit "none"] ->
  flat_map (attr_word_str s) bs ++ tail <> [lit "none"].
Proof.
  induction bs as [|i bs IH]; intros F T; [exact T|].
  cbn [forallb] in F. apply andb_true_iff in F as [Fi F]. destruct (attr_fact_parts i Fi) as (_ & _ & _ & _ & Nn & _).
  cbn [flat_map]. unfold attr_word_str at 1.
  destruct (has_bit (s_set_attributes s) i); [|exact (IH F T)].
  destruct (has_bit (s_attributes s) i); cbn [app]; intros E.
  - injection E as E1 _. contradiction.
  - injection E as _ E2. discriminate E2.
Qed.

Lemma attr_toks_nil s bs : flat_map (attr_word_str s) bs = [] ->
  forall i, In i bs -> has_bit (s_set_attributes s) i = false.
Proof.
  induction bs as [|j bs IH]; intros E i Hi; [contradiction|].
  cbn [flat_map] in E. apply app_eq_nil in E as [E1 E2]. destruct Hi as [->|Hi]; [|exact (IH E2 i Hi)].
  unfold attr_word_str in E1. destruct (has_bit (s_set_attributes s) i); [|reflexivity].
  destruct (has_bit (s_attributes s) i); discriminate.
Qed.

Lemma toks_words_ok s : wf_style_b s = true -> Forall word_ok (toks s).
Proof.
  intros W. destruct (wf_parts s W) as (_ & _ & C & B & Lk).
  assert (word_ok (lit "not") /\ word_ok (lit "on") /\ word_ok (lit "link")) as (Wn & Wo & Wl).
  { repeat split; try discriminate; reflexivity. }
  unfold toks. apply Forall_app; split; [exact (attr_toks_ok s ORD attr_facts)|].
  apply Forall_app; split; [|apply Forall_app; split].
  - unfold ctoks. destruct (s_color s) as [c|]; [|constructor]. cbn [opt_name_ok_b] in C.
    destruct (name_ok_parts c C) as (P & Wf & _). destruct (colour_not_keyword _ _ P) as (_ & _ & Ne & _).
    constructor; [split; assumption|constructor].
  - unfold btoks. destruct (s_bgcolor s) as [c|]; [|constructor]. cbn [opt_name_ok_b] in B.
    destruct (name_ok_parts c B) as (P & Wf & _). destruct (colour_not_keyword _ _ P) as (_ & _ & Ne & _).
    constructor; [exact Wo|constructor; [split; assumption|constructor]].
  - unfold ltoks. destruct (s_link s) as [[|x l]|]; try constructor; cbn [link_word_ok_b] in Lk; try discriminate.
    + exact Wl.
    + constructor; [|constructor]. split; [discriminate|exact Lk].
Qed.

(* a one-word definition is never "none" *)
Lemma toks_not_none s : wf_style_b s = true -> toks s <> [lit "none"].
Proof.
  intros W. destruct (wf_parts s W) as (_ & _ & C & B & Lk).
  unfold toks. apply attr_toks_not_none; [exact attr_facts|].
  unfold ctoks, btoks, ltoks. intros E.
  destruct (s_color s) as [c|].
  - cbn [opt_name_ok_b] in C. destruct (name_ok_parts c C) as (P & _ & _).
    destruct (colour_not_keyword _ _ P) as (_ & _ & _ & Nn).
    cbn [app] in E. injection E as E _. contradiction.
  - destruct (s_bgcolor s) as [c|]; [cbn [app] in E; discriminate E|].
    destruct (s_link s) as [[|x l]|]; cbn [app] in E; discriminate E.
Qed.

Lemma join_nil_inv ws : Forall word_ok ws -> str_join [SP] ws = [] -> ws = [].
Proof.
  intros H E. destruct ws as [|w ws]; [reflexivity|].
  inversion H as [|? ? [Hne _] _]; subst. destruct ws; cbn in E; [contradiction|].
  apply app_eq_nil in E as [E _]. contradiction.
Qed.

Lemma wf_empty_null s : wf_style_b s = true -> toks s = [] -> style_eqb style_null s = true.
Proof.
  intros W E. destruct (wf_parts s W) as (R & Sb & _ & _ & Lk).
  unfold toks in E. apply app_eq_nil in E as [EA E]. apply app_eq_nil in E as [EC E]. apply app_eq_nil in E as [EB EL].
  unfold ctoks in EC. unfold btoks in EB. unfold ltoks in EL.
  destruct (s_color s) eqn:C; [discriminate|]. destruct (s_bgcolor s) eqn:B; [discriminate|].
  destruct (s_link s) as [[|x l]|] eqn:L; cbn [link_word_ok_b] in Lk; try discriminate.
  (* no attribute word: every set bit is clear *)
  assert (forall i, In i attr_bits -> has_bit (s_set_attributes s) i = false) as Z0.
  { rewrite <- ORD_is_bits. exact (attr_toks_nil s ORD EA). }
  unfold attr_range_b in R. assert (0 <= s_set_attributes s < Z.shiftl 1 N_ATTRS) as R' by lia.
  pose proof (word_is_sum _ R') as WS.
  assert (word_bits (s_set_attributes s) = word_bits 0) as EW.
  { unfold word_bits. apply map_ext_in. intros i Hi. rewrite (Z0 i Hi), has_bit_0. reflexivity. }
  rewrite EW in WS. assert (s_set_attributes s = 0) as S0 by (rewrite <- WS; vm_compute; reflexivity).
  unfold attr_sub_b in Sb. rewrite S0, Z.land_0_r in Sb.
  apply Z.eqb_eq in Sb. unfold style_eqb. rewrite C, B, L, S0, <- Sb. reflexivity.
Qed.

Lemma is_nil_false (l : str) : l <> [] -> match l with [] => true | _ => false end = false.
Proof. destruct l; [contradiction|reflexivity]. Qed.

Theorem parse_str_roundtrip s : wf_style_b s = true ->
  exists s', style_parse (style_str_fresh s) = Ok s' /\ style_eqb s' s = true.
Proof.
  intros W. pose proof (toks_words_ok s W) as WO.
  unfold style_str_fresh. rewrite str_words_toks.
  destruct (str_join [SP] (toks s)) as [|ch d] eqn:J.
  - (* no words: "none" *)
    exists style_null. split; [reflexivity|]. apply (wf_empty_null s W). exact (join_nil_inv _ WO J).
  - rewrite <- J. assert (toks s <> []) as Ne by (intros E; rewrite E in J; discriminate).
    assert (str_join [SP] (toks s) <> []) as JN by (rewrite J; discriminate).
    clear J ch d.
    destruct (join_ends (toks s) WO Ne) as (E1 & E2 & _).
    unfold style_parse. rewrite (strip_noop _ E1 E2).
    assert (str_eqb (str_join [SP] (toks s)) (lit "none") = false) as ->.
    { destruct (str_eqb _ _) eqn:X; [|reflexivity]. apply str_eqb_eq in X. exfalso.
      apply (toks_not_none s W). rewrite <- (split_join _ WO), X. reflexivity. }
    rewrite (is_nil_false _ JN). cbn [orb]. rewrite (split_join _ WO), (pw_toks s W). cbn [bind].
    destruct (wf_parts s W) as (R & Sb & C & B & Lk).
    unfold style_kw, names. cbn [p_color p_bgcolor p_link].
    change (p_attrs _) with (p_attrs (names s)). rewrite flags_names.
    assert (forall o, opt_name_ok_b o = true -> resolve_color (option_map CA_str (option_map c_name o)) = Ok o) as RC.
    { intros [c|] H; [|reflexivity]. cbn [opt_name_ok_b option_map resolve_color] in *. destruct (name_ok_parts c H) as (-> & _ & _). reflexivity. }
    rewrite (RC _ C), (RC _ B). cbn [bind].
    eexists. split; [reflexivity|].
    destruct (make_tri s (s_color s) (s_bgcolor s) (s_link s) R Sb) as (M1 & M2).
    unfold style_eqb. rewrite M1, M2. cbn [style_make s_color s_bgcolor s_link].
    rewrite !opt_color_eqb_refl, !Z.eqb_refl, opt_str_eqb_refl. reflexivity.
Qed.

Theorem roundtrip_ok s : roundtrip_ok_b s (style_parse (style_str_fresh s)) = true.
Proof.
  unfold roundtrip_ok_b. destruct (wf_style_b s) eqn:W; [|reflexivity]. cbn.
  destruct (parse_str_roundtrip s W) as (s' & -> & E). exact E.
Qed.

(* ------------------------------------------------------------------ normalize *)
Theorem parse_normalize d s : style_parse d = Ok s -> wf_style_b s = true ->
  exists n s', style_normalize d = Ok n /\ style_parse n = Ok s' /\ style_eqb s' s = true
               /\ style_normalize n = Ok n.
Proof.
  intros P W. destruct (parse_str_roundtrip s W) as (s' & P' & E).
  exists (style_str_fresh s), s'. unfold style_normalize. rewrite P, P'.
  repeat split; try assumption.
  f_equal. apply style_eqb_fields in E as (E1 & E2 & E3 & E4 & E5). apply str_fresh_fields; assumption.
Qed.

(* ------------------------------------------------------------------ parsed styles satisfy the invariant *)
Lemma split_go_nonempty s : forall cur, Forall (fun w => w <> []) (split_ws_go s cur).
Proof.
  induction s as [|c s IH]; intros cur; cbn [split_ws_go].
  - destruct cur; constructor; [|constructor]. intros E. apply (f_equal (@rev Z)) in E.
    rewrite rev_involutive in E. discriminate.
  - destruct (is_uni_space c); [|apply IH]. destruct cur; [apply IH|]. constructor; [|apply IH].
    intros E. apply (f_equal (@rev Z)) in E. rewrite rev_involutive in E. discriminate.
Qed.

Lemma pw_link_ok fuel : forall ws st st', Forall (fun w => w <> []) ws -> p_link st <> Some [] ->
  parse_words fuel ws st = Ok st' -> p_link st' <> Some [].
Proof.
  induction fuel as [|fuel IH]; intros ws st st' F L P; [discriminate|].
  cbn [parse_words] in P. destruct ws as [|w rest]; [injection P as <-; exact L|].
  inversion F as [|? ? Hw Fr]; subst.
  destruct (str_eqb (py_lower w) (lit "on")).
  { destruct rest as [|w2 rest']; [discriminate|]. destruct (check_color w2); cbn in P; try discriminate.
    inversion Fr; subst. eapply IH; [| |exact P]; assumption. }
  destruct (str_eqb (py_lower w) (lit "not")).
  { destruct rest as [|w2 rest'].
    - destruct (assoc_str [] STYLE_ATTRIBUTES); [|discriminate]. eapply IH; [| |exact P]; [constructor|assumption].
    - destruct (assoc_str w2 STYLE_ATTRIBUTES); [|discriminate]. inversion Fr; subst.
      eapply IH; [| |exact P]; assumption. }
  destruct (str_eqb (py_lower w) (lit "link")).
  { destruct rest as [|w2 rest']; [discriminate|]. inversion Fr as [|? ? Hw2 Fr']; subst.
    eapply IH; [exact Fr'| |exact P]. cbn. intros [= E]. contradiction. }
  destruct (assoc_str (py_lower w) STYLE_ATTRIBUTES).
  { eapply IH; [exact Fr| |exact P]. exact L. }
  destruct (check_color (py_lower w)); cbn in P; try discriminate.
  eapply IH; [exact Fr| |exact P]. exact L.
Qed.

Theorem inv_parse d s : style_parse d = Ok s -> inv_b s = true.
Proof.
  unfold style_parse. destruct (_ || _); [intros [= <-]; reflexivity|].
  destruct (parse_words _ _ _) as [st| |] eqn:P; cbn; try discriminate.
  unfold style_kw. destruct (resolve_color _) as [c| |]; cbn; try discriminate.
  destruct (resolve_color _) as [b| |]; cbn; try discriminate. intros [= <-].
  apply inv_make. eapply pw_link_ok; [apply split_go_nonempty| |exact P]. cbn. discriminate.
Qed.
