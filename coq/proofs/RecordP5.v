(* C15 proofs, part 5: the exported HTML document.  pre_code (the independent extraction of the body of
   the first <pre ...> element) applied to export_html's document returns exactly the code, for every
   record -- the skeleton is the template regenerated from /repo. *)
From RichModel Require Import Prelude Cells Segments Wire Record SpecRecord.
From RichGen Require Import RecordFacts.
From RichProofs Require Import RecordP RecordP2.
From Coq Require Import ZifyBool.

Arguments html_escape : simpl never.
Arguments attr_escape : simpl never.
Arguments print_Z : simpl never.

Definition nolt_b (a : str) : bool := forallb (fun c => negb (c =? 60)) a.

Lemma nolt_app a b : nolt_b (a ++ b) = nolt_b a && nolt_b b.
Proof. apply forallb_app. Qed.

Lemma starts_with_lt p c r : (c =? 60) = false -> starts_with (60 :: p) (c :: r) = false.
Proof. intros H. cbn [starts_with]. rewrite Z.eqb_sym, H. reflexivity. Qed.

Lemma after_sub_nolt p a X : nolt_b a = true -> after_sub (60 :: p) (a ++ X) = after_sub (60 :: p) X.
Proof.
  induction a as [|c a IH]; intros H; [reflexivity|]. cbn [nolt_b forallb] in H.
  apply andb_true_iff in H. destruct H as [H1 H2]. apply negb_true_iff in H1.
  cbn [app after_sub]. rewrite (starts_with_lt p c (a ++ X) H1). exact (IH H2).
Qed.

Lemma before_sub_nolt p a X : nolt_b a = true ->
  before_sub (60 :: p) (a ++ X) = option_map (app a) (before_sub (60 :: p) X).
Proof.
  induction a as [|c a IH]; intros H.
  - cbn [app]. destruct (before_sub (60 :: p) X); reflexivity.
  - cbn [nolt_b forallb] in H. apply andb_true_iff in H. destruct H as [H1 H2]. apply negb_true_iff in H1.
    cbn [app before_sub]. rewrite (starts_with_lt p c (a ++ X) H1), (IH H2).
    destruct (before_sub (60 :: p) X); reflexivity.
Qed.

(* ------------------------------------------------------------------ pieces transparent for "</pre>" *)
Definition CLOSE : str := lit "</pre>".
Definition OPEN : str := lit "<pre ".
Definition Tc (a : str) : Prop :=
  forall X, before_sub CLOSE (a ++ X) = option_map (app a) (before_sub CLOSE X).

Lemma Tc_nil : Tc [].
Proof. intros X. cbn [app]. destruct (before_sub CLOSE X); reflexivity. Qed.

Lemma Tc_app a b : Tc a -> Tc b -> Tc (a ++ b).
Proof.
  intros Ha Hb X. rewrite <- app_assoc, Ha, Hb. destruct (before_sub CLOSE X); cbn [option_map]; [|reflexivity].
  rewrite app_assoc. reflexivity.
Qed.

Lemma Tc_nolt a : nolt_b a = true -> Tc a.
Proof. intros H X. exact (before_sub_nolt (lit "/pre>") a X H). Qed.

Ltac tc_lit := intros X; cbn; destruct (before_sub _ X); reflexivity.
Lemma Tc_a_open : Tc (lit "<a href="""). Proof. tc_lit. Qed.
Lemma Tc_a_close : Tc (lit "</a>"). Proof. tc_lit. Qed.
Lemma Tc_span_style : Tc (lit "<span style="""). Proof. tc_lit. Qed.
Lemma Tc_span_class : Tc (lit "<span class=""r"). Proof. tc_lit. Qed.
Lemma Tc_span_close : Tc (lit "</span>"). Proof. tc_lit. Qed.
Lemma Tc_qgt : Tc (lit """>"). Proof. apply Tc_nolt. reflexivity. Qed.

Lemma nolt_esc1 c : nolt_b (esc1 c) = true.
Proof.
  unfold esc1. destruct (c =? 38); [reflexivity|]. destruct (c =? 60) eqn:E; [reflexivity|].
  destruct (c =? 62); [reflexivity|]. cbn. rewrite E. reflexivity.
Qed.

Lemma nolt_html_escape t : nolt_b (html_escape t) = true.
Proof.
  induction t as [|c t IH]; [reflexivity|]. rewrite html_escape_cons, nolt_app, nolt_esc1, IH. reflexivity.
Qed.

Lemma nolt_replace1 o n t : nolt_b n = true -> nolt_b t = true -> nolt_b (replace1 o n t) = true.
Proof.
  intros Hn. induction t as [|c t IH]; intros H; [reflexivity|]. rewrite replace1_cons, nolt_app.
  cbn [nolt_b forallb] in H. apply andb_true_iff in H. destruct H as [H1 H2]. rewrite (IH H2), andb_true_r.
  destruct (c =? o); [exact Hn|]. cbn. rewrite H1. reflexivity.
Qed.

Lemma nolt_attr_escape l : nolt_b (attr_escape l) = true.
Proof. apply nolt_replace1; [reflexivity|apply nolt_html_escape]. Qed.

Lemma nolt_uint u : nolt_b (uint_digits u) = true.
Proof. induction u; cbn [uint_digits nolt_b forallb]; try exact IHu. reflexivity. Qed.

Lemma nolt_print_Z z : nolt_b (print_Z z) = true.
Proof. destruct z; unfold print_Z; [reflexivity|apply nolt_uint|]. cbn [nolt_b forallb]. exact (nolt_uint _). Qed.

(* ------------------------------------------------------------------ the document skeleton *)
Fixpoint split_at (m : Z) (s : str) : str * str :=
  match s with
  | [] => ([], [])
  | c :: r => if c =? m then ([], r) else let '(a, b) := split_at m r in (c :: a, b)
  end.

(* the template instantiated with one-character markers 0 / 1 for stylesheet / code *)
Definition doc_marked : str :=
  py_format CONSOLE_HTML_FORMAT_src
    [(lit "code", [1]); (lit "stylesheet", [0]); (lit "foreground", HTML_FG_HEX); (lit "background", HTML_BG_HEX)].
Definition docA : str := Eval vm_compute in fst (split_at 0 doc_marked).
Definition docB : str := Eval vm_compute in fst (split_at 1 (snd (split_at 0 doc_marked))).
Definition docC : str := Eval vm_compute in snd (split_at 1 (snd (split_at 0 doc_marked))).

Lemma doc_shape code sheet :
  py_format CONSOLE_HTML_FORMAT_src
    [(lit "code", code); (lit "stylesheet", sheet); (lit "foreground", HTML_FG_HEX); (lit "background", HTML_BG_HEX)]
  = docA ++ sheet ++ docB ++ code ++ docC.
Proof. vm_compute. reflexivity. Qed.

Lemma docA_open X : after_sub OPEN (docA ++ X) = after_sub OPEN X.
Proof. vm_compute. reflexivity. Qed.

Lemma docB_open Y :
  match after_sub OPEN (docB ++ Y) with Some a => after_sub [62] a | None => None end = Some Y.
Proof. vm_compute. reflexivity. Qed.

Lemma docC_close : before_sub CLOSE docC = Some [].
Proof. vm_compute. reflexivity. Qed.

Lemma pre_code_doc code sheet : nolt_b sheet = true -> Tc code ->
  pre_code (docA ++ sheet ++ docB ++ code ++ docC) = Some code.
Proof.
  intros Hs Hc. unfold pre_code. change (lit "<pre ") with OPEN. rewrite docA_open.
  change OPEN with (60 :: lit "pre ") at 1. rewrite (after_sub_nolt (lit "pre ") sheet _ Hs).
  change (60 :: lit "pre ") with OPEN.
  pose proof (docB_open (code ++ docC)) as H.
  destruct (after_sub OPEN (docB ++ code ++ docC)) as [a|]; [|discriminate]. rewrite H.
  change (lit "</pre>") with CLOSE. rewrite Hc, docC_close. cbn [option_map]. rewrite app_nil_r. reflexivity.
Qed.

(* ------------------------------------------------------------------ code and stylesheet of export_html *)
Section Doc.
Variable truthy : Z -> bool.
Variable html_rule : Z -> str.
Variable html_link : Z -> option str.
Hypothesis rule_nolt : forall s, nolt_b (html_rule s) = true.

Notation html_seg_inline := (html_seg_inline truthy html_rule html_link).
Notation html_code_inline := (html_code_inline truthy html_rule html_link).
Notation html_seg_class := (html_seg_class truthy html_rule html_link).
Notation html_code_class := (html_code_class truthy html_rule html_link).

Lemma Tc_escape t : Tc (html_escape t).
Proof. apply Tc_nolt, nolt_html_escape. Qed.

Lemma Tc_wrap_link s t : Tc t -> Tc (wrap_link html_link true s t).
Proof.
  intros H. unfold wrap_link. destruct (html_link s) as [l|]; [|exact H]. unfold href_text.
  apply Tc_app; [exact Tc_a_open|]. apply Tc_app; [apply Tc_nolt, nolt_attr_escape|].
  apply Tc_app; [exact Tc_qgt|]. apply Tc_app; [exact H|exact Tc_a_close].
Qed.

Lemma Tc_seg_inline g : Tc (html_seg_inline true g).
Proof.
  unfold Record.html_seg_inline. destruct (sty g) as [s|]; [|apply Tc_escape].
  destruct (truthy s); [|apply Tc_escape]. apply Tc_wrap_link.
  destruct (is_nil (html_rule s)); [apply Tc_escape|].
  apply Tc_app; [exact Tc_span_style|]. apply Tc_app; [apply Tc_nolt, rule_nolt|].
  apply Tc_app; [exact Tc_qgt|]. apply Tc_app; [apply Tc_escape|exact Tc_span_close].
Qed.

Lemma Tc_code_inline segs : Tc (html_code_inline true segs).
Proof.
  unfold Record.html_code_inline. induction segs as [|g segs IH]; [exact Tc_nil|].
  cbn [map concat]. apply Tc_app; [apply Tc_seg_inline|exact IH].
Qed.

Definition dict_ok (styles : list (str * Z)) : bool := forallb (fun p => nolt_b (fst p)) styles.

Lemma seg_class_ok styles g : dict_ok styles = true ->
  Tc (fst (html_seg_class true styles g)) /\ dict_ok (snd (html_seg_class true styles g)) = true.
Proof.
  intros Hd. unfold Record.html_seg_class. destruct (sty g) as [s|]; [|split; [apply Tc_escape|exact Hd]].
  destruct (truthy s); [|split; [apply Tc_escape|exact Hd]].
  destruct (is_nil (html_rule s)).
  - cbn [fst snd]. split; [apply Tc_wrap_link, Tc_escape|exact Hd].
  - unfold class_of. destruct (assoc_str (html_rule s) styles) as [n|]; cbn [fst snd].
    + split; [|exact Hd]. apply Tc_wrap_link.
      apply Tc_app; [exact Tc_span_class|]. apply Tc_app; [apply Tc_nolt, nolt_print_Z|].
      apply Tc_app; [exact Tc_qgt|]. apply Tc_app; [apply Tc_escape|exact Tc_span_close].
    + split.
      * apply Tc_wrap_link.
        apply Tc_app; [exact Tc_span_class|]. apply Tc_app; [apply Tc_nolt, nolt_print_Z|].
        apply Tc_app; [exact Tc_qgt|]. apply Tc_app; [apply Tc_escape|exact Tc_span_close].
      * unfold dict_ok in *. rewrite forallb_app, Hd. cbn [forallb fst]. rewrite rule_nolt. reflexivity.
Qed.

Lemma code_class_ok segs : forall styles, dict_ok styles = true ->
  Tc (fst (html_code_class true styles segs)) /\ dict_ok (snd (html_code_class true styles segs)) = true.
Proof.
  induction segs as [|g segs IH]; intros styles Hd; [split; [exact Tc_nil|exact Hd]|].
  cbn [Record.html_code_class]. pose proof (seg_class_ok styles g Hd) as P.
  destruct (html_seg_class true styles g) as [t st']. cbn [fst snd] in P. destruct P as [P1 P2].
  pose proof (IH st' P2) as Q. destruct (html_code_class true st' segs) as [t' st'']. cbn [fst snd] in *.
  destruct Q as [Q1 Q2]. split; [apply Tc_app; assumption|exact Q2].
Qed.

Lemma nolt_join_nl l : forallb nolt_b l = true -> nolt_b (join_nl l) = true.
Proof.
  induction l as [|x l IH]; [reflexivity|]. cbn [forallb]. intros H. apply andb_true_iff in H. destruct H as [H1 H2].
  destruct l as [|y l']; [exact H1|].
  change (join_nl (x :: y :: l')) with (x ++ NL :: join_nl (y :: l')).
  rewrite nolt_app, H1. cbn [nolt_b forallb]. exact (IH H2).
Qed.

Lemma nolt_stylesheet styles : dict_ok styles = true -> nolt_b (stylesheet styles) = true.
Proof.
  intros H. unfold stylesheet. apply nolt_join_nl. unfold dict_ok in H.
  induction styles as [|[rule n] styles IH]; [reflexivity|]. cbn [forallb map fst] in *.
  apply andb_true_iff in H. destruct H as [H1 H2]. rewrite (IH H2), andb_true_r.
  rewrite !nolt_app, nolt_print_Z, H1. reflexivity.
Qed.

(* the document: pre_code recovers exactly the code, for every record (repaired href escaping) *)
Theorem html_document keep inline (r : list sg) :
  pre_code (export_html truthy html_rule html_link keep true inline r)
  = Some (html_code truthy html_rule html_link keep true inline r).
Proof.
  unfold export_html, html_code, html_parts. destruct inline.
  - cbn [fst]. rewrite doc_shape. apply pre_code_doc; [reflexivity|apply Tc_code_inline].
  - pose proof (code_class_ok (filter_control (simplify keep r)) [] eq_refl) as P.
    destruct (html_code_class true [] (filter_control (simplify keep r))) as [code styles].
    cbn [fst snd] in *. destruct P as [P1 P2]. rewrite doc_shape.
    apply pre_code_doc; [apply nolt_stylesheet; exact P2|exact P1].
Qed.
End Doc.
