(* C10 proofs (terminal level): "the cursor never moves above the live region", per CHARACTER.
   interp_min (SpecLive) tracks the lowest cursor row over every intermediate state of a replay;
   here: the shapes rich emits never take it above the first row of the live region. *)
From RichModel Require Import Prelude Cells TermGrid Live SpecLive.
From RichGen Require Import LiveCodes.
From RichProofs Require Import TermGridP LiveP.
From Coq Require Import ZifyBool.

(* while x is replayed from t the cursor row stays >= k (m = lowest row seen before) *)
Definition stays (H : nat) (t : term) (x : str) (k : nat) : Prop :=
  forall m, (Nat.min m k <= snd (interp_min H t x m))%nat.

Lemma interp_min_fst : forall H x t m, fst (interp_min H t x m) = interp H t x.
Proof. intros H x. induction x as [|c r IH]; intros t m; [reflexivity|]. cbn [interp_min]. rewrite IH. reflexivity. Qed.

Lemma interp_min_app : forall H a b t m,
  interp_min H t (a ++ b) m = interp_min H (fst (interp_min H t a m)) b (snd (interp_min H t a m)).
Proof. intros H a. induction a as [|c r IH]; intros b t m; [reflexivity|]. cbn [app interp_min]. apply IH. Qed.

Lemma stays_nil : forall H t k, stays H t [] k.
Proof. intros H t k m. cbn. lia. Qed.

Lemma stays_le : forall H t x k k', (k' <= k)%nat -> stays H t x k -> stays H t x k'.
Proof. intros H t x k k' Hk Hs m. specialize (Hs m). lia. Qed.

Lemma stays_app : forall H t a b k, stays H t a k -> stays H (interp H t a) b k -> stays H t (a ++ b) k.
Proof.
  intros H t a b k Ha Hb m. rewrite interp_min_app, interp_min_fst.
  specialize (Ha m). specialize (Hb (snd (interp_min H t a m))). lia.
Qed.

Lemma stays_cons : forall H t c r k, (k <= cursor_row (TermGrid.step H t c))%nat -> stays H (TermGrid.step H t c) r k ->
  stays H t (c :: r) k.
Proof. intros H t c r k Hk Hr m. cbn [interp_min]. specialize (Hr (Nat.min m (cursor_row (TermGrid.step H t c)))). lia. Qed.

(* the concrete control sequences, every intermediate parser state included *)
Lemma min_el2 : forall H ab cr be co v vi m,
  interp_min H (mkTerm ab cr be co v vi PGround) [27; 91; 50; 75] m
  = (mkTerm ab [] be co v vi PGround,
     Nat.min (Nat.min (Nat.min (Nat.min m (length ab)) (length ab)) (length ab)) (length ab)).
Proof. intros. reflexivity. Qed.

Lemma min_cuu1 : forall H ab cr be co v vi m,
  interp_min H (mkTerm ab cr be co v vi PGround) [27; 91; 49; 65] m
  = (up1 (mkTerm ab cr be co v vi PGround),
     Nat.min (Nat.min (Nat.min (Nat.min m (length ab)) (length ab)) (length ab))
             (cursor_row (up1 (mkTerm ab cr be co v vi PGround)))).
Proof. intros. rewrite <- do_cuu_1. reflexivity. Qed.

Lemma min_vis : forall H ab cr be co v vi m (b : bool),
  interp_min H (mkTerm ab cr be co v vi PGround) (if b then cursor_on else cursor_off) m
  = (mkTerm ab cr be co v b PGround,
     Nat.min (Nat.min (Nat.min (Nat.min (Nat.min (Nat.min m (length ab)) (length ab)) (length ab)) (length ab)) (length ab)) (length ab)).
Proof. intros. destruct b; [rewrite cursor_on_is|rewrite cursor_off_is]; reflexivity. Qed.

(* ---------- chunks that never move the cursor up ---------- *)
Definition NoUp (x : str) : Prop := forall H t, ps t = PGround ->
  ps (interp H t x) = PGround /\ (cursor_row t <= cursor_row (interp H t x))%nat /\ stays H t x (cursor_row t).

Lemma NoUp_nil : NoUp [].
Proof. intros H t Hp. split; [assumption|]. split; [apply Nat.le_refl|apply stays_nil]. Qed.

Lemma NoUp_app : forall a b, NoUp a -> NoUp b -> NoUp (a ++ b).
Proof.
  intros a b Ha Hb H t Hp. destruct (Ha H t Hp) as (A1 & A2 & A3). destruct (Hb H _ A1) as (B1 & B2 & B3).
  rewrite interp_app. split; [assumption|]. split; [lia|].
  apply stays_app; [assumption|]. now apply (stays_le _ _ _ (cursor_row (interp H t a))).
Qed.

Lemma NoUp_one : forall c, (forall H t, ps t = PGround ->
    ps (TermGrid.step H t c) = PGround /\ (cursor_row t <= cursor_row (TermGrid.step H t c))%nat) -> NoUp [c].
Proof.
  intros c Hc H t Hp. destruct (Hc H t Hp) as [A B]. rewrite (interp_cons _ _ c []), interp_nil.
  split; [assumption|]. split; [assumption|]. apply stays_cons; [assumption|apply stays_nil].
Qed.

Lemma NoUp_lf : NoUp [10].
Proof.
  apply NoUp_one. intros H t Hp. rewrite step_lf by assumption. unfold do_lf, down1, cursor_row. cbn.
  split; [assumption|lia].
Qed.

Lemma NoUp_cr : NoUp [13].
Proof.
  apply NoUp_one. intros H t Hp. rewrite step_cr by assumption. unfold do_cr, cursor_row. cbn.
  split; [assumption|lia].
Qed.

Lemma NoUp_text : forall l, text_ok l = true -> NoUp l.
Proof.
  induction l as [|c l IH]; intros Hl; [apply NoUp_nil|].
  unfold text_ok in Hl. cbn [forallb] in Hl. apply andb_prop in Hl. destruct Hl as [Hc Hl].
  apply (NoUp_app [c] l); [|now apply IH].
  apply NoUp_one. intros H t Hp. rewrite step_text by assumption. unfold put, cursor_row.
  destruct (cells_of c); cbn; split; try assumption; lia.
Qed.

Lemma NoUp_el2 : NoUp [27; 91; 50; 75].
Proof.
  intros H [ab cr be co v vi p] Hp. cbn in Hp. subst p. rewrite interp_el2. split; [reflexivity|].
  split; [apply Nat.le_refl|]. intros m. rewrite min_el2. unfold cursor_row. cbn [snd above]. lia.
Qed.

Lemma NoUp_vis : forall b : bool, NoUp (if b then cursor_on else cursor_off).
Proof.
  intros b H [ab cr be co v vi p] Hp. cbn in Hp. subst p.
  pose proof (min_vis H ab cr be co v vi 0 b) as E. apply (f_equal fst) in E. rewrite interp_min_fst in E.
  cbn [fst] in E. rewrite E. split; [reflexivity|]. split; [apply Nat.le_refl|].
  intros m. rewrite min_vis. unfold cursor_row. cbn [snd above]. lia.
Qed.

Lemma NoUp_lines : forall ls, lines_ok ls = true -> NoUp (lines_str ls).
Proof.
  induction ls as [|l r IH]; intros Hl; [apply NoUp_nil|]. apply lines_ok_cons in Hl. destruct Hl as [Hl Hr].
  unfold lines_str. cbn [map concat]. apply NoUp_app; [apply NoUp_app; [now apply NoUp_text|apply NoUp_lf]|now apply IH].
Qed.

Lemma NoUp_join : forall fl, lines_ok fl = true -> NoUp (join_nl fl).
Proof.
  induction fl as [|l r IH]; intros Hl; [apply NoUp_nil|]. apply lines_ok_cons in Hl. destruct Hl as [Hl Hr].
  destruct r as [|l2 r]; [cbn [join_nl]; now apply NoUp_text|].
  rewrite join_nl_cons2. apply NoUp_app; [apply NoUp_app; [now apply NoUp_text|apply NoUp_lf]|now apply IH].
Qed.

Lemma NoUp_stays : forall x H t k, NoUp x -> ps t = PGround -> (k <= cursor_row t)%nat -> stays H t x k.
Proof. intros x H t k Hx Hp Hk. destruct (Hx H t Hp) as (_ & _ & S). now apply (stays_le _ _ _ (cursor_row t)). Qed.

(* ---------- the erase string goes up exactly to the first row of the region ---------- *)
Lemma stays_unit : forall H a ab cr be co v vi k, (k <= length ab)%nat ->
  stays H (mkTerm (a :: ab) cr be co (S v) vi PGround) [27; 91; 49; 65; 27; 91; 50; 75] k.
Proof.
  intros. change [27; 91; 49; 65; 27; 91; 50; 75] with ([27; 91; 49; 65] ++ [27; 91; 50; 75]).
  apply stays_app.
  - intros m. rewrite min_cuu1. unfold up1, cursor_row. cbn [above vr snd length]. lia.
  - rewrite interp_cuu1. unfold up1. cbn [above vr crow below col vis ps].
    intros m. rewrite min_el2. cbn [snd]. lia.
Qed.

Lemma stays_units : forall H n pre ab be co v vi k, length pre = n -> (k <= length ab)%nat ->
  stays H (mkTerm (pre ++ ab) [] be co (n + v) vi PGround)
        (concat (repeat [27; 91; 49; 65; 27; 91; 50; 75] n)) k.
Proof.
  intros H n. induction n as [|n IH]; intros pre ab be co v vi k Hl Hk.
  - cbn. apply stays_nil.
  - destruct pre as [|a pre]; [discriminate|]. cbn [repeat concat Nat.add].
    change ((a :: pre) ++ ab) with (a :: (pre ++ ab)). apply stays_app.
    + apply stays_unit. rewrite app_length. lia.
    + rewrite interp_unit. apply IH; [cbn in Hl; lia|assumption].
Qed.

Lemma stays_erase : forall H n pre ab cr be co v vi k, length pre = n -> (k <= length ab)%nat ->
  stays H (mkTerm (pre ++ ab) cr be co (n + v) vi PGround) (erase_str n) k.
Proof.
  intros H n pre ab cr be co v vi k Hl Hk. unfold erase_str.
  assert (Hrow : (k <= cursor_row (mkTerm (pre ++ ab) cr be co (n + v) vi PGround))%nat).
  { unfold cursor_row. cbn [above]. rewrite app_length. lia. }
  apply stays_app.
  - apply NoUp_stays; [|reflexivity|assumption].
    apply (NoUp_app [13] [27; 91; 50; 75]); [apply NoUp_cr|apply NoUp_el2].
  - change [13; 27; 91; 50; 75] with ([13] ++ [27; 91; 50; 75]). rewrite interp_app.
    rewrite (interp_cons _ _ 13 []), interp_nil, step_cr by reflexivity. unfold do_cr.
    cbn [above crow below vr vis ps]. rewrite interp_el2. now apply stays_units.
Qed.

(* [erase old region; user lines; new frame]: never above the first row of the region *)
Lemma draw_stays : forall H t P R pc ls fl,
  live_at t P R ->
  (pc = erase_str (length R - 1) \/ (pc = [] /\ R = [[]])) ->
  lines_ok ls = true -> lines_ok fl = true ->
  stays H t (pc ++ lines_str ls ++ join_nl fl) (length P).
Proof.
  intros H t P R pc ls fl ((Hps & Hbl & Hg & Hne & Hcol) & Hvr) Hpc Hls Hfl.
  destruct (split_last R Hne) as (R' & x & ER & LR).
  destruct t as [ab cr be co v vi p]. cbn [ps below above crow vr col vis] in *. subst p.
  rewrite ER, app_assoc in Hg. apply app_inj_tail in Hg. destruct Hg as [Hab Hcr].
  assert (Eab : ab = rev R' ++ rev P).
  { rewrite <- (rev_involutive ab), Hab, rev_app_distr. reflexivity. }
  assert (exists t1, interp H (mkTerm ab cr be co v vi PGround) pc = t1 /\ ps t1 = PGround
            /\ cursor_row t1 = length P /\ stays H (mkTerm ab cr be co v vi PGround) pc (length P))
    as (t1 & E1 & Hp1 & Hr1 & S1).
  { destruct Hpc as [Hpc|[Hpc HR]].
    - subst pc ab. replace v with ((length R - 1) + (v - (length R - 1)))%nat by lia.
      eexists. split; [apply interp_erase; rewrite rev_length; assumption|].
      split; [reflexivity|]. split; [unfold cursor_row; cbn [above]; apply rev_length|].
      apply stays_erase; [rewrite rev_length; assumption|rewrite rev_length; lia].
    - subst pc. exists (mkTerm ab cr be co v vi PGround). split; [reflexivity|]. split; [reflexivity|].
      split; [|apply stays_nil]. rewrite HR in ER. destruct R' as [|y R'']; [|destruct R''; discriminate].
      subst ab. unfold cursor_row. cbn [above rev app]. apply rev_length. }
  apply stays_app; [assumption|]. rewrite E1. apply NoUp_stays; [|assumption|lia].
  apply NoUp_app; [now apply NoUp_lines|now apply NoUp_join].
Qed.

(* restore_cursor after the final new line: up to the first row of the frame, not further *)
Lemma restore_stays : forall H t P R, live_at t (P ++ R) [[]] -> (length R <= vr t)%nat ->
  stays H t ([13] ++ concat (repeat [27; 91; 49; 65; 27; 91; 50; 75] (length R))) (length P).
Proof.
  intros H t P R ((Hps & Hbl & Hg & Hne & Hcol) & _) Hv. destruct t as [ab cr be co v vi p].
  cbn [ps below above crow col vr] in *. subst p.
  apply app_inj_tail in Hg. destruct Hg as [Hab Hcr]. subst cr.
  assert (Eab : ab = rev R ++ rev P).
  { rewrite <- (rev_involutive ab), Hab, rev_app_distr. reflexivity. }
  subst ab. apply stays_app.
  - apply NoUp_stays; [apply NoUp_cr|reflexivity|]. unfold cursor_row. cbn [above].
    rewrite app_length, !rev_length. lia.
  - rewrite (interp_cons _ _ 13 []), interp_nil, step_cr by reflexivity. unfold do_cr.
    cbn [above crow below vr vis ps]. replace v with (length R + (v - length R))%nat by lia.
    apply stays_units; [apply rev_length|rewrite rev_length; lia].
Qed.
