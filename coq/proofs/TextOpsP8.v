(* C05 proofs, part 8: Text.divide (repaired span precedence).  The stack of (original index, span)
   pairs keeps, for every position not yet handed out, exactly the covering spans of the original text
   (as a multiset of (index, style)); a line sorts its clipped spans by index, and a list sorted by
   index that is a permutation of the strictly index-sorted original covering list IS that list. *)
From RichModel Require Import Prelude Cells TextOps SpecTextOps.
From RichProofs Require Import TextOpsP TextOpsP2 TextOpsP3 TextOpsP4 TextOpsP5 TextOpsSortP.
From Coq Require Import Permutation Sorted ZifyBool Lia.

Arguments zlen : simpl never.
Arguments strip : simpl never.
Arguments ctl_free : simpl never.
Arguments span_split : simpl never.

Definition ent := (Z * span)%type.
Definition estart (x : ent) : Z := sp_start (snd x).
Definition eend (x : ent) : Z := sp_end (snd x).
Definition scov (stk : list ent) (p : Z) : list (Z * Z) :=
  map (fun x => (fst x, sp_style (snd x))) (filter (fun x => covers p (snd x)) stk).

Lemma scov_cons x stk p :
  scov (x :: stk) p = if covers p (snd x) then (fst x, sp_style (snd x)) :: scov stk p else scov stk p.
Proof. unfold scov. simpl. destruct (covers p (snd x)); reflexivity. Qed.
Lemma scov_app a b p : scov (a ++ b) p = scov a p ++ scov b p.
Proof. unfold scov. now rewrite filter_app, map_app. Qed.
Lemma scov_nil_lt stk p : Forall (fun x => p < estart x) stk -> scov stk p = [].
Proof.
  induction 1 as [|x stk Hx _ IH]; [reflexivity|]. rewrite scov_cons, IH.
  unfold covers, estart in *. replace ((sp_start (snd x) <=? p) && (p <? sp_end (snd x))) with false by lia. reflexivity.
Qed.
Lemma scov_perm a b p : Permutation a b -> Permutation (scov a p) (scov b p).
Proof. intros H. unfold scov. apply Permutation_map. now apply perm_filter. Qed.
Lemma cover_scov (l : list ent) p : cover (map snd l) p = map snd (scov l p).
Proof.
  induction l as [|x l IH]; [reflexivity|]. simpl map. rewrite cover_cons, scov_cons, IH.
  destruct (covers p (snd x)); reflexivity.
Qed.
Lemma cover_index_from sps p : forall i, cover sps p = map snd (scov (index_from i sps) p).
Proof.
  induction sps as [|sp sps IH]; intros i; [reflexivity|]. simpl index_from. rewrite cover_cons, scov_cons. simpl snd.
  rewrite (IH (i + 1)). destruct (covers p sp); reflexivity.
Qed.
Lemma index_from_ge sps : forall i, Forall (fun x : ent => i <= fst x) (index_from i sps).
Proof.
  induction sps as [|sp sps IH]; intros i; simpl; constructor; [simpl; lia|].
  eapply Forall_impl; [|apply (IH (i + 1))]. simpl. intros; lia.
Qed.
Lemma index_from_sorted sps : forall i, StronglySorted (fun x y : ent => fst x < fst y) (index_from i sps).
Proof.
  induction sps as [|sp sps IH]; intros i; simpl; constructor; [apply IH|].
  eapply Forall_impl; [|apply (index_from_ge sps (i + 1))]. simpl. intros; lia.
Qed.
Lemma index_from_snd (sps : list span) : forall i, map snd (index_from i sps) = sps.
Proof. induction sps as [|sp sps IH]; intros i; simpl; [reflexivity|]. now rewrite IH. Qed.
Lemma icov_sorted sps p : StronglySorted (fun x y : Z * Z => fst x < fst y) (scov (index_from 0 sps) p).
Proof.
  unfold scov. apply (map_sorted (fun x y : ent => fst x < fst y)); [intros x y H; exact H|].
  apply filter_sorted. apply index_from_sorted.
Qed.

(* ---------- Span.split partitions what a span covers ---------- *)
Lemma split_lt sp endo a rem : span_split sp endo = (a, rem) -> sp_start sp < endo ->
  sp_style a = sp_style sp /\ sp_start a = sp_start sp /\ sp_end a = Z.min (sp_end sp) endo /\
  match rem with
  | None => sp_end sp <= endo
  | Some x => endo < sp_end sp /\ x = (endo, sp_end sp, sp_style sp)
  end.
Proof.
  destruct sp as [[s e] st]. unfold span_split, sp_start, sp_end, sp_style. simpl. intros H Hs.
  destruct (endo <? s) eqn:E1; [lia|]. destruct (e <=? endo) eqn:E2; inversion H; subst; simpl.
  - repeat split; lia.
  - repeat split; try lia. f_equal. f_equal. lia.
Qed.

(* ---------- the stack invariant ---------- *)
Definition StkOK (n lo : Z) (stk : list ent) : Prop :=
  StronglySorted (fun x y => estart x <= estart y) stk /\
  Forall (fun x => lo <= estart x /\ estart x <= eend x /\ eend x <= n) stk.

Lemma const_sorted (l : list ent) c : Forall (fun x => estart x = c) l ->
  StronglySorted (fun x y => estart x <= estart y) l.
Proof.
  induction 1 as [|x l Hx Hl IH]; constructor; [exact IH|].
  eapply Forall_impl; [|exact Hl]. simpl. intros; lia.
Qed.

Lemma div_take_none stk endo : Forall (fun x => endo <= estart x) stk -> div_take stk endo = ([], [], stk).
Proof.
  intros H. destruct stk as [|[i sp] r]; [reflexivity|]. simpl. inversion H; subst. unfold estart in *. simpl in *.
  destruct (sp_start sp <? endo) eqn:E; [lia|reflexivity].
Qed.

Ltac norm_sp := cbn [estart eend sp_start sp_end sp_style fst snd] in *.

Lemma div_take_spec n lo endo : lo <= endo -> forall stk, StkOK n lo stk ->
  let '(adds, rems, rest) := div_take stk endo in
  (forall p, p < endo -> scov adds p = scov stk p) /\
  (forall p, endo <= p -> Permutation (scov rems p ++ scov rest p) (scov stk p)) /\
  Forall (fun x => estart x = endo /\ endo <= eend x /\ eend x <= n) rems /\
  StkOK n endo rest /\
  Forall (fun x => lo <= estart x /\ estart x <= eend x /\ eend x <= Z.min n endo) adds.
Proof.
  intros Hlo. induction stk as [|[i [[s e] st]] r IH]; intros [Hs Hf].
  - simpl. repeat split; auto; constructor.
  - inversion Hs as [|? ? Hs' Hhd]; subst. inversion Hf as [|? ? Hx Hf']; subst.
    simpl div_take. change (sp_start (s, e, st)) with s. destruct (s <? endo) eqn:E.
    + destruct (span_split (s, e, st) endo) as [a rem] eqn:Es.
      specialize (IH (conj Hs' Hf')). destruct (div_take r endo) as [[adds rems] rest].
      destruct IH as (I1 & I2 & I3 & I4 & I5).
      destruct (split_lt (s, e, st) endo a rem Es) as (A1 & A2 & A3 & A4); [cbn; lia|].
      destruct a as [[sa ea] sta]. norm_sp. subst sa ea sta. cbv beta iota.
      repeat split.
      * intros p Hp. rewrite !scov_cons. norm_sp. rewrite (I1 p Hp).
        replace (covers p (s, Z.min e endo, st)) with (covers p (s, e, st)); [reflexivity|].
        unfold covers. norm_sp. lia.
      * intros p Hp. rewrite (scov_cons (i, (s, e, st))). norm_sp.
        destruct rem as [x|].
        -- destruct A4 as [A4 Ax]. subst x. unfold span_bool. norm_sp.
           replace (endo <? e) with true by lia.
           rewrite scov_cons. norm_sp.
           replace (covers p (endo, e, st)) with (covers p (s, e, st)) by (unfold covers; norm_sp; lia).
           destruct (covers p (s, e, st)); simpl; [apply perm_skip|]; apply I2; exact Hp.
        -- replace (covers p (s, e, st)) with false by (unfold covers; norm_sp; lia). apply I2; exact Hp.
      * destruct rem as [x|]; [|exact I3]. destruct A4 as [A4 Ax]. subst x.
        unfold span_bool. norm_sp. replace (endo <? e) with true by lia.
        constructor; [|exact I3]. norm_sp. lia.
      * exact (proj1 I4).
      * exact (proj2 I4).
      * constructor; [|exact I5]. norm_sp. lia.
    + assert (Forall (fun x => endo <= estart x) ((i, (s, e, st)) :: r)) as Hge.
      { constructor; [norm_sp; lia|]. eapply Forall_impl; [|exact Hhd]. norm_sp. intros; lia. }
      cbv beta iota. repeat split.
      * intros p Hp. symmetry. apply scov_nil_lt. eapply Forall_impl; [|exact Hge]. simpl. intros; lia.
      * intros p Hp. simpl. apply Permutation_refl.
      * constructor.
      * exact Hs.
      * eapply Forall_impl; [|exact (Forall_and Hge Hf)]. simpl. intros x [H1 H2]. lia.
      * constructor.
Qed.

(* ---------- all lines ---------- *)
Fixpoint chain (lo : Z) (ranges : list (Z * Z)) : Prop :=
  match ranges with
  | [] => True
  | (a, b) :: rs => a = lo /\ (a <= b \/ rs = []) /\ chain b rs
  end.

Definition line_ok (sps : list span) (n : Z) (r : Z * Z) (ls : list span) : Prop :=
  (forall i, 0 <= i < snd r - fst r -> cover ls i = cover sps (fst r + i)) /\
  Within (Z.max 0 (Z.min (snd r) n - fst r)) ls.

Lemma perm_Forall {A} (P : A -> Prop) l l' : Permutation l l' -> Forall P l -> Forall P l'.
Proof. intros Hp H. rewrite Forall_forall in *. intros x Hx. apply H. eapply Permutation_in; [symmetry; exact Hp|exact Hx]. Qed.

Lemma map_move (l : list ent) d : map (fun x : Z * span => span_move (snd x) d) l = shift_spans (map snd l) d.
Proof. unfold shift_spans. now rewrite map_map. Qed.

Lemma div_lines_spec sps n : forall ranges lo stk,
  chain lo ranges -> StkOK n lo stk ->
  (forall p, lo <= p -> Permutation (scov stk p) (scov (index_from 0 sps) p)) ->
  Forall2 (line_ok sps n) ranges (div_lines stk ranges).
Proof.
  induction ranges as [|[a b] rs IH]; intros lo stk Hch Hok Hinv; [constructor|].
  destruct Hch as (Ha & Hab & Hch). subst a. simpl div_lines.
  destruct Hab as [Hab|Hlast].
  - pose proof (div_take_spec n lo b Hab stk Hok) as S.
    destruct (div_take stk b) as [[adds rems] rest]. destruct S as (S1 & S2 & S3 & S4 & S5).
    constructor.
    + split.
      * simpl fst. simpl snd. intros i Hi.
        rewrite map_move.
        replace i with (lo + i + - lo) at 1 by lia. rewrite cover_shift, cover_scov, (cover_index_from sps (lo + i) 0).
        f_equal. apply sorted_perm_eq.
        -- unfold scov. apply (map_sorted (fun x y : ent => fst x <= fst y)); [intros x y H; exact H|].
           apply filter_sorted. apply sort_by_sorted.
        -- apply icov_sorted.
        -- eapply Permutation_trans; [apply scov_perm; apply sort_by_perm|].
           rewrite S1 by lia. apply Hinv. lia.
      * simpl fst. simpl snd. unfold Within. rewrite Forall_map.
        apply (perm_Forall _ adds); [symmetry; apply sort_by_perm|].
        eapply Forall_impl; [|exact S5]. intros [i [[s e] st]]. unfold estart, eend, span_move, sp_start, sp_end. simpl. lia.
    + apply (IH b).
      * exact Hch.
      * destruct S4 as [S4a S4b]. split.
        -- apply app_sorted; [|exact S4a|].
           ++ apply (const_sorted _ b). apply (perm_Forall _ rems); [apply Permutation_rev|].
              eapply Forall_impl; [|exact S3]. simpl. tauto.
           ++ intros x y Hx Hy. apply in_rev in Hx. rewrite Forall_forall in S3, S4b.
              specialize (S3 x Hx). specialize (S4b y Hy). lia.
        -- apply Forall_app. split; [|exact S4b]. apply (perm_Forall _ rems); [apply Permutation_rev|].
           eapply Forall_impl; [|exact S3]. simpl. intros; lia.
      * intros p Hp. rewrite scov_app. eapply Permutation_trans; [|apply Hinv; lia].
        eapply Permutation_trans; [|apply S2; exact Hp]. apply Permutation_app_tail. apply scov_perm.
        symmetry. apply Permutation_rev.
  - subst rs. destruct (Z.le_gt_cases lo b) as [Hle|Hgt].
    + (* an ordinary last range *)
      pose proof (div_take_spec n lo b Hle stk Hok) as S.
      destruct (div_take stk b) as [[adds rems] rest]. destruct S as (S1 & S2 & S3 & S4 & S5).
      constructor; [|constructor]. split.
      * simpl fst. simpl snd. intros i Hi.
        rewrite map_move.
        replace i with (lo + i + - lo) at 1 by lia. rewrite cover_shift, cover_scov, (cover_index_from sps (lo + i) 0).
        f_equal. apply sorted_perm_eq.
        -- unfold scov. apply (map_sorted (fun x y : ent => fst x <= fst y)); [intros x y H; exact H|].
           apply filter_sorted. apply sort_by_sorted.
        -- apply icov_sorted.
        -- eapply Permutation_trans; [apply scov_perm; apply sort_by_perm|].
           rewrite S1 by lia. apply Hinv. lia.
      * simpl fst. simpl snd. unfold Within. rewrite Forall_map.
        apply (perm_Forall _ adds); [symmetry; apply sort_by_perm|].
        eapply Forall_impl; [|exact S5]. intros [i [[s e] st]]. unfold estart, eend, span_move, sp_start, sp_end. simpl. lia.
    + (* the closing range starts beyond the end of the text: nothing is left below it *)
      rewrite div_take_none.
      * constructor; [|constructor]. split; simpl; [intros i Hi; lia|constructor].
      * eapply Forall_impl; [|exact (proj2 Hok)]. simpl. intros; lia.
Qed.

(* ---------- Python slices of the abstraction ---------- *)
Lemma zlen_skipn {A} k (l : list A) : zlen (skipn k l) = Z.max 0 (zlen l - Z.of_nat k).
Proof. unfold zlen. rewrite skipn_length. lia. Qed.

Lemma py_slice_nonneg {A} (l : list A) a b : 0 <= a -> 0 <= b ->
  py_slice l a b = firstn (Z.to_nat (Z.min b (zlen l) - Z.min a (zlen l))) (skipn (Z.to_nat (Z.min a (zlen l))) l).
Proof.
  intros Ha Hb. unfold py_slice, norm_idx.
  replace (a <? 0) with false by lia. replace (b <? 0) with false by lia. reflexivity.
Qed.
Lemma zlen_py_slice {A} (l : list A) a b : 0 <= a -> 0 <= b ->
  zlen (py_slice l a b) = Z.max 0 (Z.min b (zlen l) - Z.min a (zlen l)).
Proof.
  intros Ha Hb. rewrite py_slice_nonneg by assumption. rewrite zlen_firstn, zlen_skipn.
  pose proof (zlen_nonneg l). lia.
Qed.

Lemma abs_from_ext2 q s1 s2 : forall i j,
  (forall d, 0 <= d < zlen q -> cover s1 (i + d) = cover s2 (j + d)) -> abs_from i q s1 = abs_from j q s2.
Proof.
  induction q as [|c q IH]; intros i j H; [reflexivity|]. simpl. rewrite zlen_cons in H. pose proof (zlen_nonneg q).
  specialize (H 0) as Hz0. rewrite !Z.add_0_r in Hz0. rewrite Hz0 by lia. f_equal.
  apply IH. intros d Hd. replace (i + 1 + d) with (i + (d + 1)) by lia. replace (j + 1 + d) with (j + (d + 1)) by lia.
  apply H. lia.
Qed.

Lemma py_slice_abs p sps ls a b : 0 <= a -> 0 <= b ->
  (forall i, 0 <= i < zlen (py_slice p a b) -> cover ls i = cover sps (Z.min a (zlen p) + i)) ->
  abs_from 0 (py_slice p a b) ls = py_slice (abs_from 0 p sps) a b.
Proof.
  intros Ha Hb H. rewrite (py_slice_nonneg (abs_from 0 p sps)) by assumption. rewrite zlen_abs_from.
  rewrite py_slice_nonneg in * by assumption.
  set (j := Z.to_nat (Z.min a (zlen p))) in *. set (k := Z.to_nat (Z.min b (zlen p) - Z.min a (zlen p))) in *.
  rewrite <- (abs_from_skipn j 0 p sps), <- abs_from_firstn.
  apply abs_from_ext2. intros d Hd. simpl. rewrite (H d Hd). f_equal. pose proof (zlen_nonneg p). lia.
Qed.

Lemma ctl_free_py_slice p a b : ctl_free p = true -> ctl_free (py_slice p a b) = true.
Proof. intros H. unfold py_slice. apply ctl_free_firstn. now apply ctl_free_skipn. Qed.

(* ---------- from the per-line facts to the lines ---------- *)
Lemma lines_of_F2 p sps lm : ctl_free p = true -> forall ranges sls,
  Forall2 (line_ok sps (zlen p)) ranges sls -> Forall (fun r => 0 <= fst r /\ 0 <= snd r) ranges ->
  map abs (map (fun '((a, b), ls) => ctor FIXED (py_slice p a b) lm ls) (combine ranges sls))
  = map (fun '(a, b) => mkRef (py_slice (abs_from 0 p sps) a b) lm) ranges /\
  Forall Consistent (map (fun '((a, b), ls) => ctor FIXED (py_slice p a b) lm ls) (combine ranges sls)).
Proof.
  intros Hc. induction 1 as [|[a b] ls ranges sls [H1 H2] _ IH]; intros Hnn; [split; [reflexivity|constructor]|].
  inversion Hnn as [|? ? [Ha Hb] Hnn']; subst. simpl in Ha, Hb, H1, H2. destruct (IH Hnn') as [IH1 IH2].
  simpl combine. simpl map. rewrite ctor_fixed, (strip_ctl_free _ (ctl_free_py_slice p a b Hc)).
  pose proof (zlen_nonneg p). pose proof (zlen_py_slice p a b Ha Hb) as Hz.
  split.
  - rewrite IH1. f_equal. unfold abs, abs_chars. simpl. f_equal. apply py_slice_abs; [assumption|assumption|].
    intros i Hi. rewrite Hz in Hi. replace (Z.min a (zlen p)) with a by lia. apply H1. lia.
  - constructor; [|exact IH2]. apply mk_consistent; [reflexivity|now apply ctl_free_py_slice|].
    rewrite Hz. eapply within_mono; [exact H2|]. lia.
Qed.

Lemma sorted_from_ge l : forall lo, sorted_from lo l = true -> Forall (fun x => lo <= x) l.
Proof.
  induction l as [|x l IH]; intros lo H; [constructor|]. simpl in H. apply andb_prop in H. destruct H as [H1 H2].
  constructor; [lia|]. eapply Forall_impl; [|apply (IH x H2)]. simpl. intros; lia.
Qed.
Lemma pairs_nonneg l : Forall (fun x => 0 <= x) l -> Forall (fun r : Z * Z => 0 <= fst r /\ 0 <= snd r) (pairs_of l).
Proof.
  induction l as [|a l IH]; intros H; [constructor|]. destruct l as [|b l]; [constructor|].
  inversion H as [|? ? Ha H']; subst. inversion H' as [|? ? Hb _]; subst.
  change (pairs_of (a :: b :: l)) with ((a, b) :: pairs_of (b :: l)). constructor; [simpl; lia|]. apply IH. exact H'.
Qed.
Lemma chain_pairs n : forall offs lo, sorted_from lo offs = true -> chain lo (pairs_of (lo :: offs ++ [n])).
Proof.
  induction offs as [|x offs IH]; intros lo H.
  - simpl. auto.
  - simpl in H. apply andb_prop in H. destruct H as [H1 H2].
    change (pairs_of (lo :: (x :: offs) ++ [n])) with ((lo, x) :: pairs_of (x :: offs ++ [n])).
    simpl. split; [reflexivity|]. split; [left; lia|]. apply IH. exact H2.
Qed.

Lemma Forall_index_from (P : span -> Prop) sps : Forall P sps -> forall i, Forall (fun x : ent => P (snd x)) (index_from i sps).
Proof. induction 1; intros i; simpl; constructor; auto. Qed.

Lemma stack0_ok n sps : Within n sps ->
  let stk := rev (sort_desc (fun x : ent => sp_start (snd x)) (index_from 0 sps)) in
  StkOK n 0 stk /\ forall p, Permutation (scov stk p) (scov (index_from 0 sps) p).
Proof.
  intros Hw. simpl.
  assert (Permutation (rev (sort_desc (fun x : ent => sp_start (snd x)) (index_from 0 sps))) (index_from 0 sps)) as Hp.
  { eapply Permutation_trans; [symmetry; apply Permutation_rev|]. apply sort_desc_perm. }
  split; [split|].
  - apply (rev_sorted (fun x y : ent => sp_start (snd y) <= sp_start (snd x))). apply sort_desc_sorted.
  - apply (perm_Forall _ (index_from 0 sps)); [symmetry; exact Hp|].
    apply (Forall_index_from (fun sp => 0 <= sp_start sp /\ sp_start sp <= sp_end sp /\ sp_end sp <= n)). exact Hw.
  - intros p. now apply scov_perm.
Qed.

Theorem sim_divide t offs : Consistent t -> sorted_from 0 offs = true ->
  map abs (divide FIXED t offs) = r_divide (abs t) offs /\ Forall Consistent (divide FIXED t offs).
Proof.
  intros H Hs. destruct (cons_parts t H) as (H1 & H2 & H3). unfold divide, r_divide.
  destruct offs as [|o offs].
  - destruct (sim_copy t H) as [A C]. simpl. rewrite A. split; [reflexivity|constructor; [exact C|constructor]].
  - remember (o :: offs) as os. change (fx_divide FIXED) with true. cbv iota.
    change (rchars (abs t)) with (abs_from 0 (plain t) (spans t)). change (rmeta (abs t)) with (tmeta t).
    rewrite zlen_abs_from.
    destruct (stack0_ok (zlen (plain t)) (spans t) H3) as [Hok Hinv].
    pose proof (div_lines_spec (spans t) (zlen (plain t)) (pairs_of (0 :: os ++ [zlen (plain t)])) 0 _
                  (chain_pairs _ os 0 Hs) Hok (fun p _ => Hinv p)) as F2.
    apply (lines_of_F2 (plain t) (spans t) (line_meta (tmeta t)) H2 _ _ F2).
    apply pairs_nonneg. constructor; [lia|]. apply Forall_app. split.
    + apply (sorted_from_ge os 0 Hs).
    + constructor; [apply zlen_nonneg|constructor].
Qed.
