(* Table width solving (C01/C07/C09/C14): _calculate_column_widths split into the ratio-column
   stage (the only place the variants calc_widths / calc_widths_x differ) and the rest; the
   fits / small / bound / totality results for calc_widths_x with ARBITRARY flexmin. *)
From RichModel Require Import Prelude Cells Segments Ratio Table SpecTable.
From RichProofs Require Import CellsP RatioP TableP LayoutP2 TableP2 LayoutP8 LayoutP9.
From Coq Require Import ZifyBool.

(* ------------------------------------------------------------------ the three stages *)
(* stage 1: the initial widths and the `if self.expand: ratios = ...` block *)
Definition stage1_x (fm : bool) (o : topts) (cols : list tcol) (M : Z) : res (list Z) :=
  let icols := indexed 0 cols in
  let ranges := map (fun '(i, c) => measure_column o i c M) icols in
  let widths := map (fun r => or1 (snd r)) ranges in
  if t_expand o then
    let ratios := map (fun c => opt_or (c_ratio c) 0) (filter flexible cols) in
    if any_nonzero ratios then
      let fixed := map (fun '(r, c) => if flexible c then 0 else snd r) (combine ranges cols) in
      let flex_min := map (fun '(r, (i, c)) =>
                             let base := opt_or (c_width c) 1 + padding_width o i in
                             if fm then Z.max base (fst r) else base)
                          (filter (fun ric : (Z * Z) * (nat * tcol) => flexible (snd (snd ric)))
                                  (combine ranges icols)) in
      let flexible_width := M - sumZ fixed in
      do fw <- ratio_distribute flexible_width ratios (Some flex_min);
      assign_flex cols widths fixed fw
    else Ok widths
  else Ok widths.

(* stage 2: collapse, last-resort reduce, re-measure (stale = false) *)
Definition stage2 (o : topts) (cols : list tcol) (M : Z) (widths : list Z) : res (list Z * Z) :=
  let icols := indexed 0 cols in
  let table_width := sumZ widths in
  if M <? table_width then
    do w1 <- collapse_widths widths (map wrapable cols) M;
    let tw1 := sumZ w1 in
    let '(w2, tw2) :=
      if M <? tw1 then
        let w := ratio_reduce (tw1 - M) (repeat 1 (length w1)) w1 w1 in (w, sumZ w)
      else (w1, tw1) in
    let w3 := map (fun '(w, (i, c)) => or1 (snd (measure_column o i c w))) (combine w2 icols) in
    Ok (w3, if false then tw2 else sumZ w3)
  else Ok (widths, table_width).

(* stage 3: the expand / min_width padding (capmin = false) *)
Definition stage3 (o : topts) (cols : list tcol) (M : Z) (wt : list Z * Z) : res (list Z) :=
  let extra := extra_width o (length cols) in
  let '(widths, table_width) := wt in
  if ((table_width <? M) && t_expand o)
     || match o_minw o with Some m => table_width <? m - extra | None => false end
  then
    let mw := match o_minw o with
              | None => M
              | Some m => if negb false && t_expand o then M else Z.min (m - extra) M
              end in
    do pad <- ratio_distribute (mw - table_width) widths None;
    Ok (zip_add widths pad)
  else Ok widths.

(* everything after stage 1 *)
Definition calc_rest (o : topts) (cols : list tcol) (M : Z) (widths : list Z) : res (list Z) :=
  do wt <- stage2 o cols M widths; stage3 o cols M wt.

Lemma calc_widths_x_split fm o cols M :
  calc_widths_x fm false false o cols M = (do wd <- stage1_x fm o cols M; calc_rest o cols M wd).
Proof. reflexivity. Qed.

Lemma calc_widths_split o cols M :
  calc_widths false false o cols M = (do wd <- stage1_x false o cols M; calc_rest o cols M wd).
Proof. rewrite <- calc_widths_x_false. reflexivity. Qed.

(* ------------------------------------------------------------------ stage 1 *)
Lemma stage1_x_spec fm o cols M : Forall col_free cols -> pad_ok o ->
  exists wd, stage1_x fm o cols M = Ok wd /\ Forall (fun w => 1 <= w) wd /\ length wd = length cols.
Proof.
  intros Hfree Hp. unfold stage1_x. cbv zeta. rewrite (flex_min_shape fm).
  pose proof (indexed_forall col_free cols 0%nat Hfree) as Hifree.
  destruct (initial_widths_pos o M Hp _ Hifree) as [Hr0 Hw0]. cbv zeta in Hr0, Hw0.
  set (icols := indexed 0 cols) in *.
  set (ranges := map (fun '(i, c) => measure_column o i c M) icols) in *.
  set (ws0 := map (fun r => or1 (snd r)) ranges) in *.
  assert (Hlr : length ranges = length cols) by (unfold ranges, icols; rewrite map_length; apply indexed_length).
  assert (Hl0 : length ws0 = length cols) by (unfold ws0; rewrite map_length; exact Hlr).
  destruct (t_expand o); [|exists ws0; repeat split; assumption].
  match goal with |- context [any_nonzero ?r] => set (ratios := r) end.
  destruct (any_nonzero ratios) eqn:Ean; [|exists ws0; repeat split; assumption].
  match goal with |- context [ratio_distribute _ ratios (Some ?m)] => set (flex_min := m) end.
  assert (Hrat : Forall (fun r => 1 <= r) ratios).
  { unfold ratios. apply Forall_forall. intros x Hx. apply in_map_iff in Hx as [c [<- Hc]].
    apply filter_In in Hc as [Hc Hfl]. rewrite Forall_forall in Hfree.
    destruct (Hfree c Hc) as [_ [_ [_ [_ [Hr _]]]]]. unfold flexible in Hfl. unfold opt_or.
    destruct (c_ratio c) as [x|]; [|discriminate]. destruct (x =? 0) eqn:Ex; lia. }
  assert (Hmin : Forall (fun m => 1 <= m) flex_min).
  { unfold flex_min. apply Forall_forall. intros x Hx. apply in_map_iff in Hx as [[i c] [<- Hc]].
    apply filter_In in Hc as [Hc _]. apply indexed_in in Hc. rewrite Forall_forall in Hfree.
    destruct (Hfree c Hc) as [Hcw _]. rewrite Hcw. cbn [opt_or]. cbv zeta.
    pose proof (padding_width_nonneg o i Hp). destruct fm; lia. }
  assert (Hlm : length flex_min = length ratios).
  { unfold flex_min, ratios. rewrite !map_length. apply filter_indexed_length. }
  assert (Hzm : zip_mask ratios flex_min = ratios).
  { apply zip_mask_id; [exact Hlm|]. eapply Forall_impl; [|exact Hmin]. cbv beta. lia. }
  assert (Hrne : ratios <> []) by (intros E; rewrite E in Ean; discriminate).
  assert (Hmne : flex_min <> []) by (intros E; rewrite E in Hlm; destruct ratios; [congruence|discriminate]).
  match goal with |- context [ratio_distribute ?t ratios (Some flex_min)] =>
    destruct (ratio_distribute_some_ok t ratios flex_min Hmne
                ltac:(rewrite Hzm; apply sumZ_pos_of_ones; assumption)) as [fw Ed] end.
  rewrite Ed. cbn [bind].
  pose proof (ratio_distribute_min _ ratios flex_min fw
                ltac:(rewrite Hzm; eapply Forall_impl; [|exact Hrat]; cbv beta; lia) Hlm Ed) as Hdm.
  pose proof (distribute_min_pos _ _ Hdm Hmin) as Hfw.
  pose proof (forall2b_length _ _ _ Hdm) as Hlfw.
  match goal with |- context [assign_flex cols ws0 ?fx fw] => set (fixed := fx) end.
  assert (Hlfix : length fixed = length cols).
  { unfold fixed. rewrite map_length, combine_length. lia. }
  assert (Hfix : Forall (fun z => 0 <= z) fixed).
  { apply Forall_forall. intros x Hx. apply in_map_iff in Hx as [[r c] [<- Hrc]].
    destruct (flexible c); [lia|]. apply in_combine_l in Hrc. rewrite Forall_forall in Hr0. apply Hr0. exact Hrc. }
  destruct (assign_flex_ok cols ws0 fixed fw Hl0 Hlfix) as [wd Ea].
  { rewrite <- Hlfw, Hlm. unfold ratios. rewrite map_length. reflexivity. }
  destruct (assign_flex_pos _ _ _ _ _ Ea Hw0 Hfix Hfw) as [A1 A2].
  exists wd. split; [exact Ea|]. split; [exact A1|lia].
Qed.

Lemma stage1_x_pos fm o cols M wd : Forall col_free cols -> pad_ok o ->
  stage1_x fm o cols M = Ok wd -> Forall (fun w => 1 <= w) wd /\ length wd = length cols.
Proof.
  intros Hfree Hp E. destruct (stage1_x_spec fm o cols M Hfree Hp) as [wd' [E' H]].
  rewrite E in E'. injection E' as <-. exact H.
Qed.

(* ------------------------------------------------------------------ stage 2 *)
Lemma list_ne_of_length {A B} (l : list A) (l' : list B) : length l = length l' -> l' <> [] -> l <> [].
Proof. intros H Hne. destruct l; [destruct l'; [congruence|discriminate]|discriminate]. Qed.

Lemma stage2_total o cols M wd : Forall (fun w => 1 <= w) wd -> length wd = length cols ->
  exists wt, stage2 o cols M wd = Ok wt.
Proof.
  intros Hwd Hld. unfold stage2. cbv zeta. destruct (M <? sumZ wd); [|eexists; reflexivity].
  assert (Hwd0 : Forall (fun w => 0 <= w) wd) by (eapply Forall_impl; [|exact Hwd]; cbv beta; lia).
  destruct (collapse_widths_spec wd (map wrapable cols) M ltac:(rewrite map_length; lia) Hwd0) as [w1 [Ec _]].
  rewrite Ec. cbn [bind]. destruct (M <? sumZ w1); cbv beta iota; eexists; reflexivity.
Qed.

Lemma stage2_spec o cols M wd wf twf : cols <> [] -> Forall col_free cols -> pad_ok o ->
  Forall (fun w => 1 <= w) wd -> length wd = length cols ->
  stage2 o cols M wd = Ok (wf, twf) ->
  Forall (fun w => 1 <= w) wf /\ length wf = length cols /\ twf = sumZ wf /\
  (zlen cols <= M -> sumZ wf <= M) /\ (M < zlen cols -> wf = repeat 1 (length cols)).
Proof.
  intros Hne Hfree Hp Hwd Hld E2. unfold stage2 in E2. cbv zeta in E2.
  pose proof (indexed_forall col_free cols 0%nat Hfree) as Hifree.
  assert (Hwne : wd <> []) by (eapply list_ne_of_length; eassumption).
  pose proof (sumZ_ge_len wd Hwd) as Hsum.
  destruct (M <? sumZ wd) eqn:Elt.
  - match type of E2 with bind ?e _ = _ => destruct e as [w1| |] eqn:Ec end; cbn [bind] in E2; try discriminate.
    destruct (Z_le_gt_dec (zlen cols) M) as [HM|HM].
    + apply collapse_keeps_pos in Ec; [|rewrite map_length; lia|apply all_wrapable; exact Hfree|exact Hwd|unfold zlen in *; lia].
      destruct Ec as [C1 [C2 [C3 C4]]]. specialize (C4 ltac:(lia)).
      replace (M <? sumZ w1) with false in E2 by lia. cbv beta iota in E2.
      injection E2 as <- <-.
      destruct (remeasure_pos o Hp w1 (indexed 0 cols) C1 ltac:(rewrite indexed_length; lia) Hifree) as [R1 [R2 R3]].
      cbv zeta in R1, R2, R3. repeat split; [exact R1|lia|lia|lia].
    + apply collapse_small in Ec; [|rewrite map_length; lia|apply all_wrapable; exact Hfree|exact Hwd|exact Hwne|unfold zlen in *; lia].
      destruct Ec as [C1 C2].
      assert (Hones : forall w2, Forall (fun w => 0 <= w <= 1) w2 -> length w2 = length cols ->
        map (fun '(w, (i, c)) => or1 (snd (measure_column o i c w))) (combine w2 (indexed 0 cols)) = repeat 1 (length cols)).
      { intros w2 Ha Hb. rewrite (remeasure_ones o Hp w2 (indexed 0 cols) Ha ltac:(rewrite indexed_length; exact Hb) Hifree).
        rewrite indexed_length. reflexivity. }
      assert (Hfin : wf = repeat 1 (length cols) /\ twf = sumZ wf).
      { destruct (M <? sumZ w1) eqn:Elt1; cbv beta iota in E2.
        - destruct (ratio_reduce_01 (sumZ w1 - M) (repeat 1 (length w1)) w1 ltac:(apply repeat_length)
                      ltac:(apply Forall_repeat; lia) ltac:(lia) C1) as [Q1 Q2].
          rewrite (Hones _ Q1 ltac:(lia)) in E2. injection E2 as <- <-. split; reflexivity.
        - rewrite (Hones _ C1 ltac:(lia)) in E2. injection E2 as <- <-. split; reflexivity. }
      destruct Hfin as [-> ->]. rewrite repeat_length.
      repeat split; [apply Forall_repeat; lia|lia].
  - injection E2 as <- <-. repeat split; [exact Hwd|exact Hld|lia|unfold zlen in *; lia].
Qed.

(* ------------------------------------------------------------------ stage 3 *)
Lemma stage3_total o cols M wf tw : wf <> [] -> Forall (fun w => 1 <= w) wf ->
  exists ws, stage3 o cols M (wf, tw) = Ok ws.
Proof.
  intros Hne Hpos. pose proof (sumZ_pos_of_ones wf Hne Hpos) as Hs.
  unfold stage3. cbv zeta beta iota.
  match goal with |- context [if ?c then _ else _] => destruct c end; [|eexists; reflexivity].
  unfold ratio_distribute. replace (sumZ wf <=? 0) with false by lia. cbn [bind]. eexists. reflexivity.
Qed.

Lemma stage3_spec o cols M wf ws : wf <> [] -> Forall (fun w => 1 <= w) wf ->
  stage3 o cols M (wf, sumZ wf) = Ok ws ->
  length ws = length wf /\ Forall (fun w => 1 <= w) ws /\
  sumZ wf <= sumZ ws <= Z.max M (sumZ wf) /\
  (sumZ wf <= M -> t_expand o = true -> sumZ ws = M) /\
  (o_minw o = None -> M <= sumZ wf -> ws = wf).
Proof.
  intros Hne Hpos. unfold stage3. cbv zeta beta iota.
  match goal with |- (if ?c then _ else _) = _ -> _ => destruct c eqn:Ec end.
  - match goal with |- context [ratio_distribute (?m - sumZ wf)] => set (mw := m) end.
    assert (Hmw : mw <= M /\ (t_expand o = true -> mw = M)).
    { unfold mw. destruct (o_minw o) as [m|]; [|split; [lia|reflexivity]].
      destruct (t_expand o); cbn [negb andb]; split; try lia; discriminate. }
    destruct Hmw as [Hmw1 Hmw2].
    intros Hfin. apply pad_step in Hfin; [|exact Hne|exact Hpos].
    destruct Hfin as [F1 [F2 F3]].
    split; [exact F1|]. split; [exact F2|]. split; [lia|]. split.
    + intros Hfit Hex. rewrite (Hmw2 Hex) in F3. lia.
    + intros Hn Hge. exfalso. rewrite Hn in Ec. lia.
  - intros H. injection H as <-.
    split; [reflexivity|]. split; [exact Hpos|]. split; [lia|]. split; [|reflexivity].
    intros Hfit Hex. rewrite Hex in Ec. apply orb_false_iff in Ec as [Ec _]. lia.
Qed.

(* ------------------------------------------------------------------ the rest, from any widths >= 1 *)
Theorem calc_rest_total o cols M wd : cols <> [] -> Forall col_free cols -> pad_ok o ->
  Forall (fun w => 1 <= w) wd -> length wd = length cols ->
  exists ws, calc_rest o cols M wd = Ok ws.
Proof.
  intros Hne Hfree Hp Hwd Hld. unfold calc_rest.
  destruct (stage2_total o cols M wd Hwd Hld) as [[wf twf] E2]. rewrite E2. cbn [bind].
  destruct (stage2_spec o cols M wd wf twf Hne Hfree Hp Hwd Hld E2) as [S1 [S2 _]].
  apply stage3_total; [eapply list_ne_of_length; eassumption|exact S1].
Qed.

Theorem calc_rest_fits o cols M wd ws : cols <> [] -> Forall col_free cols -> pad_ok o ->
  Forall (fun w => 1 <= w) wd -> length wd = length cols -> zlen cols <= M ->
  calc_rest o cols M wd = Ok ws ->
  length ws = length cols /\ Forall (fun w => 1 <= w) ws /\ sumZ ws <= M /\ (t_expand o = true -> sumZ ws = M).
Proof.
  intros Hne Hfree Hp Hwd Hld HM. unfold calc_rest.
  destruct (stage2 o cols M wd) as [[wf twf]| |] eqn:E2; cbn [bind]; try discriminate.
  destruct (stage2_spec o cols M wd wf twf Hne Hfree Hp Hwd Hld E2) as [S1 [S2 [-> [S4 _]]]].
  specialize (S4 HM). intros E3.
  destruct (stage3_spec o cols M wf ws ltac:(eapply list_ne_of_length; eassumption) S1 E3) as [T1 [T2 [T3 [T4 _]]]].
  repeat split; [lia|exact T2|lia|intros Hex; apply T4; assumption].
Qed.

Theorem calc_rest_small o cols M wd ws : o_minw o = None -> cols <> [] -> Forall col_free cols -> pad_ok o ->
  Forall (fun w => 1 <= w) wd -> length wd = length cols -> M < zlen cols ->
  calc_rest o cols M wd = Ok ws -> ws = repeat 1 (length cols).
Proof.
  intros Hmw Hne Hfree Hp Hwd Hld HM. unfold calc_rest.
  destruct (stage2 o cols M wd) as [[wf twf]| |] eqn:E2; cbn [bind]; try discriminate.
  destruct (stage2_spec o cols M wd wf twf Hne Hfree Hp Hwd Hld E2) as [S1 [S2 [-> [_ S5]]]].
  specialize (S5 HM). intros E3.
  destruct (stage3_spec o cols M wf ws ltac:(eapply list_ne_of_length; eassumption) S1 E3) as [_ [_ [_ [_ T5]]]].
  rewrite (T5 Hmw); [exact S5|]. rewrite S5, sumZ_repeat1. unfold zlen in *. lia.
Qed.

Theorem calc_rest_bound o cols M wd ws : cols <> [] -> Forall col_free cols -> pad_ok o ->
  Forall (fun w => 1 <= w) wd -> length wd = length cols ->
  calc_rest o cols M wd = Ok ws ->
  length ws = length cols /\ Forall (fun w => 1 <= w) ws /\ sumZ ws <= Z.max M (zlen cols).
Proof.
  intros Hne Hfree Hp Hwd Hld. unfold calc_rest.
  destruct (stage2 o cols M wd) as [[wf twf]| |] eqn:E2; cbn [bind]; try discriminate.
  destruct (stage2_spec o cols M wd wf twf Hne Hfree Hp Hwd Hld E2) as [S1 [S2 [-> [S4 S5]]]].
  intros E3.
  destruct (stage3_spec o cols M wf ws ltac:(eapply list_ne_of_length; eassumption) S1 E3) as [T1 [T2 [T3 _]]].
  assert (sumZ wf <= Z.max M (zlen cols)).
  { destruct (Z_le_gt_dec (zlen cols) M) as [HM|HM]; [specialize (S4 HM); lia|].
    rewrite (S5 ltac:(lia)), sumZ_repeat1. unfold zlen. lia. }
  repeat split; [lia|exact T2|lia].
Qed.

(* ------------------------------------------------------------------ calc_widths_x, any flexmin *)
Theorem calc_widths_x_total : forall fm o cols M, cols <> [] -> Forall col_free cols -> pad_ok o ->
  exists ws, calc_widths_x fm false false o cols M = Ok ws.
Proof.
  intros fm o cols M Hne Hfree Hp. rewrite calc_widths_x_split.
  destruct (stage1_x_spec fm o cols M Hfree Hp) as [wd [E1 [Hwd Hld]]]. rewrite E1. cbn [bind].
  apply calc_rest_total; assumption.
Qed.

Theorem calc_widths_x_fits : forall fm o cols M ws, cols <> [] -> Forall col_free cols -> pad_ok o -> zlen cols <= M ->
  calc_widths_x fm false false o cols M = Ok ws ->
  length ws = length cols /\ Forall (fun w => 1 <= w) ws /\ sumZ ws <= M /\ (t_expand o = true -> sumZ ws = M).
Proof.
  intros fm o cols M ws Hne Hfree Hp HM. rewrite calc_widths_x_split.
  destruct (stage1_x_spec fm o cols M Hfree Hp) as [wd [E1 [Hwd Hld]]]. rewrite E1. cbn [bind].
  apply calc_rest_fits; assumption.
Qed.

Theorem calc_widths_x_small : forall fm o cols M ws, o_minw o = None -> cols <> [] -> Forall col_free cols -> pad_ok o ->
  M < zlen cols -> calc_widths_x fm false false o cols M = Ok ws -> ws = repeat 1 (length cols).
Proof.
  intros fm o cols M ws Hmw Hne Hfree Hp HM. rewrite calc_widths_x_split.
  destruct (stage1_x_spec fm o cols M Hfree Hp) as [wd [E1 [Hwd Hld]]]. rewrite E1. cbn [bind].
  apply calc_rest_small; assumption.
Qed.

Theorem calc_widths_x_bound : forall fm o cols M ws, cols <> [] -> Forall col_free cols -> pad_ok o ->
  calc_widths_x fm false false o cols M = Ok ws ->
  length ws = length cols /\ Forall (fun w => 1 <= w) ws /\ sumZ ws <= Z.max M (zlen cols).
Proof.
  intros fm o cols M ws Hne Hfree Hp. rewrite calc_widths_x_split.
  destruct (stage1_x_spec fm o cols M Hfree Hp) as [wd [E1 [Hwd Hld]]]. rewrite E1. cbn [bind].
  apply calc_rest_bound; assumption.
Qed.

(* the same for calc_widths (= calc_widths_x false), without any o_minw hypothesis *)
Corollary calc_widths_total_minw : forall o cols M, cols <> [] -> Forall col_free cols -> pad_ok o ->
  exists ws, calc_widths false false o cols M = Ok ws.
Proof. intros o cols M. rewrite <- calc_widths_x_false. apply calc_widths_x_total. Qed.

Corollary calc_widths_fits_minw : forall o cols M ws, cols <> [] -> Forall col_free cols -> pad_ok o -> zlen cols <= M ->
  calc_widths false false o cols M = Ok ws ->
  length ws = length cols /\ Forall (fun w => 1 <= w) ws /\ sumZ ws <= M /\ (t_expand o = true -> sumZ ws = M).
Proof. intros o cols M ws. rewrite <- calc_widths_x_false. apply calc_widths_x_fits. Qed.
