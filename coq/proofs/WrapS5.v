(* C02 (c): Text.split, Text.expand_tabs and Lines.justify("full") keep every non-whitespace character
   with its styles (repaired Text.divide). *)
From RichModel Require Import Prelude Cells SpecCells Wrap SpecWrap.
From RichGen Require Import UnicodeSpace WrapFacts.
From RichProofs Require Import CellsP WrapP2 WrapP5 WrapS0 WrapS1 WrapS4.
From Coq Require Import ZifyBool.

(* ------------------------------------------------------------------ list helpers *)
Lemma last_map' {A B} (g : A -> B) : forall l d, last (map g l) (g d) = g (last l d).
Proof.
  induction l as [|x l IH]; intros d; [reflexivity|]. destruct l as [|y l]; [reflexivity|].
  change (last (map g (x :: y :: l)) (g d)) with (last (map g (y :: l)) (g d)).
  change (last (x :: y :: l) d) with (last (y :: l) d). apply IH.
Qed.

Lemma Forall_removelast {A} (P : A -> Prop) : forall l, Forall P l -> Forall P (removelast l).
Proof.
  induction l as [|x l IH]; intros H; [constructor|]. destruct l as [|y l]; [constructor|].
  inversion H; subst. change (removelast (x :: y :: l)) with (x :: removelast (y :: l)).
  constructor; [assumption|apply IH; assumption].
Qed.

Lemma Forall_filter {A} (P : A -> Prop) (Q : A -> bool) l : Forall P l -> Forall P (filter Q l).
Proof.
  intros H. rewrite Forall_forall in *. intros x Hx. apply filter_In in Hx as [Hx _]. apply H. exact Hx.
Qed.

Lemma tl_filter_in {A} (Q : A -> bool) : forall l x, In x (tl (filter Q l)) -> In x (tl l).
Proof.
  induction l as [|y l IH]; intros x H; [contradiction|]. cbn [filter] in H. destruct (Q y).
  - cbn [tl] in *. apply filter_In in H as [H _]. exact H.
  - cbn [tl]. specialize (IH x H). destruct l; [contradiction|]. right. exact IH.
Qed.

Lemma tl_removelast_in {A} : forall (l : list A) x, In x (tl (removelast l)) -> In x (tl l).
Proof.
  intros [|y l] x H; [contradiction|]. destruct l as [|z l]; [contradiction|].
  change (removelast (y :: z :: l)) with (y :: removelast (z :: l)) in H. cbn [tl] in *.
  clear y. revert z H. induction l as [|u l IH]; intros z H; [contradiction|].
  change (removelast (z :: u :: l)) with (z :: removelast (u :: l)) in H.
  destruct H as [H|H]; [left; exact H|right; apply IH; exact H].
Qed.

Lemma Forall_tl_sub {A} (P : A -> Prop) (l l' : list A) :
  (forall x, In x (tl l') -> In x (tl l)) -> Forall P (tl l) -> Forall P (tl l').
Proof. intros Hs H. rewrite Forall_forall in *. intros x Hx. apply H, Hs, Hx. Qed.

Lemma sep_positions_none sep : forall s i, ~ In sep s -> sep_positions sep s i = [].
Proof.
  induction s as [|c s IH]; intros i H; [reflexivity|]. cbn [sep_positions].
  destruct (c =? sep) eqn:E; [exfalso; apply H; left; lia|]. apply IH. intros Hin. apply H. right. exact Hin.
Qed.

Lemma sep_positions_some sep : forall s i, existsb (fun c => c =? sep) s = true -> sep_positions sep s i <> [].
Proof.
  induction s as [|c s IH]; intros i H; [discriminate|]. cbn [existsb sep_positions] in *.
  destruct (c =? sep); [discriminate|]. apply IH. exact H.
Qed.

Lemma pcs_nosep sep : forall s p, In p (pcs sep s) -> p = [sep] \/ ~ In sep p.
Proof.
  induction s as [|c s IH]; intros p H.
  - cbn in H. destruct H as [<-|[]]. right. intros [].
  - cbn [pcs] in H. destruct (c =? sep) eqn:E.
    + destruct H as [<-|[<-|H]]; [right; intros []|left; assert (Hc : c = sep) by lia; rewrite Hc; reflexivity|apply IH; exact H].
    + destruct (pcs sep s) as [|hd tl] eqn:Ep; [contradiction|].
      destruct H as [<-|H].
      * destruct (pcs_struct sep s) as [hd' [tl' [Hp' [Hh _]]]]. rewrite Ep in Hp'. inversion Hp'; subst hd' tl'.
        right. intros [Hc|Hc]; [lia|exact (Hh Hc)].
      * apply IH. right. exact H.
Qed.

Section S5.
Variable S : Type.
Variable seqb : S -> S -> bool.
Variable null : S.
Variable add : S -> S -> S.
Variable fx : fixes.
Hypothesis Hfx : fix_order fx = true.
Hypothesis seqb_eq : forall a b, seqb a b = true <-> a = b.
Arguments plain {S}.
Arguments spans {S}.
Arguments base {S}.
Notation styled := (styled S seqb null).
Notation sns := (sns S seqb null).

(* ------------------------------------------------------------------ divide, at the level of sns *)
Lemma divide_sns (t : text S) offs : mono2 0 (offs ++ [tlen S t]) ->
  concat (map sns (divide S seqb fx t offs)) = sns t.
Proof.
  intros Hm. unfold WrapS0.sns.
  rewrite <- (map_map styled (sc_ns S)). rewrite (divide_styled S seqb null fx Hfx t offs Hm).
  rewrite <- sc_ns_concat. f_equal.
  assert (El : tlen S t = zlen (styled t)) by (unfold tlen, zlen; rewrite styled_length; reflexivity).
  rewrite El. apply gpieces_concat. rewrite <- El. exact Hm.
Qed.

Lemma divide_last_plain (t : text S) offs d :
  offs <> [] -> last offs 0 = tlen S t -> plain (last (divide S seqb fx t offs) d) = [].
Proof.
  intros Hne Hl. rewrite <- (last_map' plain). rewrite divide_plain. unfold pieces_of.
  rewrite zip_ranges_last, map_app. cbn [map fst snd]. rewrite last_last.
  unfold tlen in Hl. rewrite Hl. apply zslice_empty'.
Qed.

Lemma sns_removelast (L : list (text S)) d :
  plain (last L d) = [] -> concat (map sns (removelast L)) = concat (map sns L).
Proof.
  intros H. destruct L as [|x L]; [reflexivity|].
  destruct (@exists_last _ (x :: L) ltac:(discriminate)) as [L0 [y E]]. rewrite E in *.
  rewrite removelast_last, last_last in *. rewrite map_app, concat_app. cbn [map concat].
  rewrite (sns_nil_plain S seqb null y H). rewrite !app_nil_r. reflexivity.
Qed.

Lemma filter_sep_sns sep (L : list (text S)) : is_space sep = true ->
  concat (map sns (filter (fun l => negb (str_eqb (plain l) [sep])) L)) = concat (map sns L).
Proof.
  intros Hs. induction L as [|l L IH]; [reflexivity|]. cbn [filter].
  destruct (str_eqb (plain l) [sep]) eqn:E; cbn [negb map concat].
  - rewrite IH. apply str_eqb_eq in E. rewrite (sns_ws_plain S seqb null l); [reflexivity|].
    rewrite E. cbn [forallb]. rewrite Hs. reflexivity.
  - rewrite IH. reflexivity.
Qed.

(* offsets of a split *)
Lemma offs_incl_facts sep (s : str) p ps : sep_positions sep s 0 = p :: ps ->
  let offs := map (fun p => p + 1) (p :: ps) in
  offs <> [] /\ mono2 0 (offs ++ [zlen s]) /\ (ends_with s sep = true -> last offs 0 = zlen s).
Proof.
  intros E offs. split; [discriminate|]. split.
  - pose proof (sep_positions_mono sep (fun p => [p + 1]) (fun p => or_intror eq_refl) s 0) as Hm.
    rewrite <- map_as_concat in Hm. rewrite E in Hm. exact Hm.
  - intros He. pose proof (sep_positions_last sep s 0 0 He) as Hp. rewrite E in Hp.
    unfold offs. rewrite (last_map_ne (fun p => p + 1) ps p 0 0). rewrite Hp. lia.
Qed.

Lemma offs_excl_facts sep (s : str) p ps : sep_positions sep s 0 = p :: ps ->
  let offs := concat (map (fun p => [p; p + 1]) (p :: ps)) in
  offs <> [] /\ mono2 0 (offs ++ [zlen s]) /\ (ends_with s sep = true -> last offs 0 = zlen s).
Proof.
  intros E offs. subst offs. split; [discriminate|]. split.
  - pose proof (sep_positions_mono sep (fun p => [p; p + 1]) (fun p => or_introl eq_refl) s 0) as Hm.
    rewrite E in Hm. exact Hm.
  - intros He. pose proof (sep_positions_last sep s 0 0 He) as Hp. rewrite E in Hp.
    clear E He. revert p Hp. induction ps as [|q ps IH]; intros p Hp.
    + cbn in *. lia.
    + change (last (p :: q :: ps) 0) with (last (q :: ps) 0) in Hp.
      cbn [map concat app]. specialize (IH q Hp). cbn [map concat app] in IH.
      change (last (p :: p + 1 :: q :: q + 1 :: concat (map (fun p0 => [p0; p0 + 1]) ps)) 0)
        with (last (q :: q + 1 :: concat (map (fun p0 => [p0; p0 + 1]) ps)) 0). exact IH.
Qed.

(* ------------------------------------------------------------------ Text.split *)
Theorem split_sns (t : text S) sep inc ab : (inc = true \/ is_space sep = true) ->
  concat (map sns (split S seqb fx t sep inc ab)) = sns t.
Proof.
  intros Hsep. unfold split.
  destruct (sep_positions sep (plain t) 0) as [|p ps] eqn:E; [cbn [map concat]; apply app_nil_r|].
  destruct inc.
  - destruct (offs_incl_facts sep (plain t) p ps E) as [Hne [Hm Hl]].
    destruct (negb ab && ends_with (plain t) sep) eqn:Eb.
    + rewrite (sns_removelast _ t); [apply divide_sns; exact Hm|].
      apply divide_last_plain; [exact Hne|]. apply Hl. destruct ab; [discriminate|exact Eb].
    + apply divide_sns. exact Hm.
  - destruct Hsep as [Hc|Hs]; [discriminate|].
    destruct (offs_excl_facts sep (plain t) p ps E) as [Hne [Hm Hl]].
    set (offs := concat (map (fun p => [p; p + 1]) (p :: ps))) in *.
    set (P := fun l : text S => negb (str_eqb (plain l) [sep])).
    destruct (negb ab && ends_with (plain t) sep) eqn:Eb.
    + assert (He : ends_with (plain t) sep = true) by (destruct ab; [discriminate|exact Eb]).
      pose proof (divide_last_plain t offs t Hne (Hl He)) as Hlast.
      destruct (divide S seqb fx t offs) as [|x L] eqn:Ed.
      { cbn. pose proof (divide_sns t offs Hm) as Hd. rewrite Ed in Hd. exact Hd. }
      destruct (@exists_last _ (x :: L) ltac:(discriminate)) as [L0 [y Ey]].
      rewrite Ey in *. rewrite last_last in Hlast.
      assert (HP : P y = true) by (unfold P; rewrite Hlast; reflexivity).
      rewrite (filter_app_one P L0 y HP), removelast_last.
      unfold P. rewrite (filter_sep_sns sep L0 Hs).
      pose proof (divide_sns t offs Hm) as Hd. rewrite Ed in Hd.
      rewrite map_app, concat_app in Hd. cbn [map concat] in Hd.
      rewrite (sns_nil_plain S seqb null y Hlast), !app_nil_r in Hd. exact Hd.
    + unfold P. rewrite (filter_sep_sns sep _ Hs). apply divide_sns. exact Hm.
Qed.

(* clipping and base style of the pieces, when the separator occurs *)
Theorem split_within (t : text S) sep inc ab : sep_positions sep (plain t) 0 <> [] ->
  let L := split S seqb fx t sep inc ab in
  Forall (rwithin S) L /\ Forall (lwithin S) (tl L) /\ Forall (fun l => base l = base t) L.
Proof.
  intros Hne. unfold split. destruct (sep_positions sep (plain t) 0) as [|p ps] eqn:E; [congruence|].
  assert (Hgen : forall offs, offs <> [] -> mono2 0 (offs ++ [tlen S t]) ->
            forall L', (forall x, In x L' -> In x (divide S seqb fx t offs)) ->
                       (forall x, In x (tl L') -> In x (tl (divide S seqb fx t offs))) ->
            Forall (rwithin S) L' /\ Forall (lwithin S) (tl L') /\ Forall (fun l => base l = base t) L').
  { intros offs Ho Hm L' Hsub Htl.
    destruct (divide_within S seqb fx Hfx t offs Ho Hm) as [Hr [Hl _]].
    rewrite Forall_forall in Hr, Hl. repeat split; apply Forall_forall; intros x Hx.
    - apply Hr, Hsub, Hx.
    - apply Hl, Htl, Hx.
    - apply (divide_base S seqb fx t offs x Hm). apply Hsub, Hx. }
  assert (Hrl : forall (L : list (text S)) x, In x (removelast L) -> In x L).
  { induction L as [|y L IH]; intros x Hx; [contradiction|]. cbn [removelast] in Hx.
    destruct L as [|z L]; [contradiction|]. destruct Hx as [<-|Hx]; [left; reflexivity|right; apply IH; exact Hx]. }
  destruct inc.
  - destruct (offs_incl_facts sep (plain t) p ps E) as [Ho [Hm _]].
    destruct (negb ab && ends_with (plain t) sep).
    + apply (Hgen _ Ho Hm); [apply Hrl|apply tl_removelast_in].
    + apply (Hgen _ Ho Hm); auto.
  - destruct (offs_excl_facts sep (plain t) p ps E) as [Ho [Hm _]].
    destruct (negb ab && ends_with (plain t) sep).
    + apply (Hgen _ Ho Hm).
      * intros x Hx. apply Hrl in Hx. apply filter_In in Hx as [Hx _]. exact Hx.
      * intros x Hx. apply tl_removelast_in in Hx. apply tl_filter_in in Hx. exact Hx.
    + apply (Hgen _ Ho Hm).
      * intros x Hx. apply filter_In in Hx as [Hx _]. exact Hx.
      * intros x Hx. apply tl_filter_in in Hx. exact Hx.
Qed.

(* a line of split(sep) (separator not included) does not contain the separator *)
Lemma split_lines_nosep (t : text S) sep ab l :
  In l (split S seqb fx t sep false ab) -> ~ In sep (plain l).
Proof.
  unfold split. destruct (sep_positions sep (plain t) 0) as [|p ps] eqn:E.
  - intros [<-|[]]. intros Hin.
    assert (Hex : existsb (fun c => c =? sep) (plain t) = true) by (apply existsb_exists; exists sep; split; [exact Hin|lia]).
    apply (sep_positions_some sep _ 0) in Hex. congruence.
  - intros Hl.
    assert (Hf : In l (filter (fun l => negb (str_eqb (plain l) [sep]))
                        (divide S seqb fx t (concat (map (fun p => [p; p + 1]) (p :: ps)))))).
    { destruct (negb ab && ends_with (plain t) sep); [|exact Hl].
      clear -Hl. revert Hl. generalize (filter (fun l0 : text S => negb (str_eqb (plain l0) [sep]))
         (divide S seqb fx t (concat (map (fun p0 : Z => [p0; p0 + 1]) (p :: ps))))).
      induction l0 as [|y L IH]; intros Hx; [contradiction|]. cbn [removelast] in Hx.
      destruct L as [|z L]; [contradiction|]. destruct Hx as [<-|Hx]; [left; reflexivity|right; apply IH; exact Hx]. }
    apply filter_In in Hf as [Hd Hp].
    assert (Hin : In (plain l) (pcs sep (plain t))).
    { rewrite <- pieces_pcs. unfold offs2. rewrite E. rewrite <- (divide_plain S seqb fx). apply in_map. exact Hd. }
    destruct (pcs_nosep sep _ _ Hin) as [Hs|Hs]; [|exact Hs].
    rewrite Hs in Hp. rewrite str_eqb_refl in Hp. discriminate.
Qed.

(* ------------------------------------------------------------------ Text.expand_tabs on one line *)
Theorem expand_tabs_sns (t : text S) ts : ~ In NL (plain t) ->
  sns (expand_tabs S seqb fx t ts) = sns t.
Proof.
  intros Hnl. unfold expand_tabs.
  destruct (existsb (fun c => c =? TAB) (plain t)) eqn:Et; [|reflexivity].
  assert (Hlines : split S seqb fx t NL true false = [t]).
  { unfold split. rewrite (sep_positions_none NL (plain t) 0 Hnl). reflexivity. }
  rewrite Hlines. cbn [map concat]. rewrite app_nil_r.
  pose proof (sep_positions_some TAB (plain t) 0 Et) as Hne.
  destruct (split_within t TAB true false Hne) as [Hr [Hl Hb]].
  pose proof (split_sns t TAB true false (or_introl eq_refl)) as Hs.
  set (parts := split S seqb fx t TAB true false) in *.
  pose proof (expand_fold_sns S seqb null seqb_eq ts parts (mkText [] [] (base t)) 0) as Hf.
  destruct (fold_left (expand_part S ts) parts (mkText [] [] (base t), 0)) as [r pos] eqn:Er.
  cbn [fst] in Hf. destruct Hf as [H1 H2].
  - intros j _. reflexivity.
  - exact Hr.
  - exact Hb.
  - destruct parts as [|q rest]; [exact Logic.I|]. split; [|exact Hl]. unfold tlen, zlen. cbn. lia.
  - cbn [base] in H2. destruct r as [rp rs rb]. cbn [plain spans base] in *. subst rb.
    rewrite H1, Hs. reflexivity.
Qed.

(* ------------------------------------------------------------------ justify = "full" on one line *)
Lemma full_tokens_rwithin (line : text S) : forall ws spaces,
  Forall (rwithin S) ws -> Forall (rwithin S) (full_tokens S seqb add line ws spaces).
Proof.
  induction ws as [|w rest IH]; intros spaces H; [constructor|].
  inversion H; subst. cbn [full_tokens].
  destruct spaces as [|n sp']; [constructor; [assumption|apply IH; assumption]|].
  destruct rest as [|nxt rest']; [constructor; [assumption|apply IH; assumption]|].
  constructor; [assumption|]. constructor; [apply nospans_within|apply IH; assumption].
Qed.

Lemma full_tokens_lwithin (line : text S) : forall ws spaces,
  Forall (lwithin S) ws -> Forall (lwithin S) (full_tokens S seqb add line ws spaces).
Proof.
  induction ws as [|w rest IH]; intros spaces H; [constructor|].
  inversion H; subst. cbn [full_tokens].
  destruct spaces as [|n sp']; [constructor; [assumption|apply IH; assumption]|].
  destruct rest as [|nxt rest']; [constructor; [assumption|apply IH; assumption]|].
  constructor; [assumption|]. constructor; [apply nospans_within|apply IH; assumption].
Qed.

Lemma full_tokens_tl_lwithin (line : text S) ws spaces :
  Forall (lwithin S) (tl ws) -> Forall (lwithin S) (tl (full_tokens S seqb add line ws spaces)).
Proof.
  destruct ws as [|w rest]; intros H; [constructor|]. cbn [tl] in H. cbn [full_tokens].
  destruct spaces as [|n sp']; [cbn [tl]; apply full_tokens_lwithin; exact H|].
  destruct rest as [|nxt rest']; [cbn [tl]; apply full_tokens_lwithin; exact H|].
  cbn [tl]. constructor; [apply nospans_within|apply full_tokens_lwithin; exact H].
Qed.

Lemma full_tokens_sns (line : text S) : forall ws spaces,
  concat (map sns (full_tokens S seqb add line ws spaces)) = concat (map sns ws).
Proof.
  induction ws as [|w rest IH]; intros spaces; [reflexivity|]. cbn [full_tokens].
  destruct spaces as [|n sp']; [cbn [map concat]; rewrite IH; reflexivity|].
  destruct rest as [|nxt rest']; [cbn [map concat]; rewrite IH; reflexivity|].
  cbn [map concat]. rewrite IH. rewrite (spaces_sns S seqb null). reflexivity.
Qed.

Theorem justify_full_sns w (line : text S) :
  sns (justify_full_line S seqb null add fx w line) = sns line.
Proof.
  unfold justify_full_line.
  set (ws := split S seqb fx line SP false false).
  match goal with |- sns (join_empty S null (full_tokens S seqb add line ws ?sp)) = _ => set (spaces := sp) end.
  assert (Hw : Forall (rwithin S) (removelast (full_tokens S seqb add line ws spaces)) /\
               Forall (lwithin S) (tl (full_tokens S seqb add line ws spaces))).
  { destruct (sep_positions SP (plain line) 0) as [|p ps] eqn:E.
    - assert (Ews : ws = [line]) by (unfold ws, split; rewrite E; reflexivity).
      rewrite Ews. cbn [full_tokens]. destruct spaces; cbn; split; constructor.
    - destruct (split_within line SP false false) as [Hr [Hl _]]; [rewrite E; discriminate|]. fold ws in Hr, Hl.
      split; [apply Forall_removelast, full_tokens_rwithin; exact Hr|apply full_tokens_tl_lwithin; exact Hl]. }
  destruct Hw as [Hr Hl].
  unfold WrapS0.sns at 1. rewrite (join_styled S seqb null seqb_eq _ Hr Hl).
  rewrite sc_ns_concat, map_map.
  change (concat (map sns (full_tokens S seqb add line ws spaces)) = sns line).
  rewrite full_tokens_sns. apply split_sns. right. apply is_space_SP.
Qed.
End S5.
