(* C14: Console.print(s, markup=False).  Text("\n").join keeps spans within the text, Text.render is
   total on such a text (TotalP4), hence printing never fails provided the lines Text.wrap produced
   keep their spans within themselves (hypothesis `wrapped_ok`; evaluated by the harness on the lines of
   the real Text.wrap for every generated string -- C02 proved content and fit of those lines, not
   their span ranges). *)
From RichModel Require Import Prelude Total SpecTotal.
From RichModel Require TextOps Wrap.
From RichProofs Require Import TotalP4.
From Coq Require Import ZifyBool.

Import TextOps.

Definition wf (x : text) : Prop := len x = zlen (plain x) /\ Good x.

Lemma good_span_mono n m sp : good_span n sp -> n <= m -> good_span m sp.
Proof. unfold good_span. intros [A [B C]] H. repeat split; lia. Qed.

Lemma join_go_good : forall pieces p sps offset,
  Forall wf pieces -> offset = zlen p -> Forall (good_span offset) sps ->
  exists p' sps', join_go pieces p sps offset = Ok (p', sps', zlen p') /\ Forall (good_span (zlen p')) sps'.
Proof.
  induction pieces as [|x r IH]; intros p sps offset Hw Ho Hs; cbn [join_go].
  - subst offset. exists p, sps. split; [reflexivity|exact Hs].
  - inversion Hw as [|x' r' [Hl Hg] Hr]; subst x' r'.
    unfold pylen. assert (E : len x <? 0 = false) by (rewrite Hl; unfold zlen; lia). rewrite E. cbn [bind].
    assert (Hn : 0 <= len x) by (rewrite Hl; unfold zlen; lia).
    destruct (IH (p ++ plain x) (sps ++ (offset, offset + len x, base (tmeta x)) :: shift_spans (spans x) offset)
                 (offset + len x) Hr) as [p' [sps' [H1 H2]]].
    + rewrite zlen_app, Hl. lia.
    + assert (Hoff : 0 <= offset) by (subst offset; unfold zlen; lia).
      apply Forall_app. split.
      * eapply Forall_impl; [|exact Hs]. intros sp Hsp. eapply good_span_mono; [exact Hsp|lia].
      * constructor.
        { unfold good_span, sp_start, sp_end. cbn [fst snd]. lia. }
        unfold shift_spans. apply Forall_forall. intros sp Hsp. apply in_map_iff in Hsp as [sp0 [Hm Hin]]. subst sp.
        unfold Good in Hg. rewrite Forall_forall in Hg. specialize (Hg sp0 Hin).
        destruct sp0 as [[s e] st]. unfold good_span, span_move, sp_start, sp_end in *. cbn [fst snd] in *. lia.
    + exists p', sps'. split; [exact H1|exact H2].
Qed.

Lemma intersperse_forall {A} (P : A -> Prop) sep : P sep -> forall l, Forall P l -> Forall P (intersperse sep l).
Proof.
  intros Hs. induction l as [|x r IH]; intros Hl; [constructor|].
  destruct r as [|y r']; [exact Hl|].
  change (intersperse sep (x :: y :: r')) with (x :: sep :: intersperse sep (y :: r')).
  inversion Hl; subst. constructor; [assumption|]. constructor; [exact Hs|]. apply IH. assumption.
Qed.

Lemma NLT_wf : wf NLT.
Proof. split; [vm_compute; reflexivity|]. unfold Good. vm_compute. constructor. Qed.

Lemma NLT_plain : plain NLT = [NL].
Proof. vm_compute. reflexivity. Qed.

Lemma join_nl_good lines : Forall wf lines -> exists t, join FIXED NLT lines = Ok t /\ Good t.
Proof.
  intros Hw. unfold join. rewrite NLT_plain.
  destruct (join_go_good (intersperse NLT lines) (plain (blank_copy FIXED NLT)) (spans (blank_copy FIXED NLT)) 0
              (intersperse_forall wf NLT NLT_wf lines Hw)) as [p' [sps' [H1 H2]]].
  - vm_compute. reflexivity.
  - vm_compute. constructor.
  - rewrite H1. cbn [bind]. eexists. split; [reflexivity|]. unfold Good. cbn [plain spans]. exact H2.
Qed.

(* the lines of Text.wrap keep their spans inside themselves *)
Definition line_ok (l : Wrap.text Z) : Prop :=
  Forall (good_span (zlen (Wrap.plain l))) (Wrap.spans l).
Definition line_ok_b (l : Wrap.text Z) : bool := in_range_b (zlen (Wrap.plain l)) (Wrap.spans l).

Lemma line_ok_b_spec l : line_ok_b l = true -> line_ok l.
Proof.
  unfold line_ok_b, in_range_b, line_ok. intros H. rewrite forallb_forall in H. apply Forall_forall.
  intros sp Hsp. specialize (H sp Hsp). destruct sp as [[s e] st]. unfold span_in_b in H.
  unfold good_span, sp_start, sp_end. cbn [fst snd]. lia.
Qed.

Lemma to_ops_wf l : line_ok l -> wf (to_ops l).
Proof. intros H. split; [reflexivity|exact H]. Qed.

Definition wrapped (p : str) (sps : list (Z * Z * Z)) (W : Z) : list (Wrap.text Z) :=
  Wrap.wrap Z Z.eqb 0 (fun _ b => b) Wrap.repaired (Wrap.mkText p sps 0) W Wrap.J_DEFAULT Wrap.OV_FOLD 8 false.

Theorem render_text_total p sps W :
  Forall line_ok (wrapped p sps W) -> exists r, render_text p sps W = Ok r.
Proof.
  intros H. unfold render_text. destruct (W <? 1); [eexists; reflexivity|].
  fold (wrapped p sps W).
  destruct (join_nl_good (map to_ops (wrapped p sps W))) as [t [Hj Hg]].
  - apply Forall_forall. intros x Hx. apply in_map_iff in Hx as [l [Hl Hin]]. subst x.
    apply to_ops_wf. rewrite Forall_forall in H. apply H. exact Hin.
  - rewrite Hj. cbn [bind]. apply render_good_total. exact Hg.
Qed.

(* Console.print(s, markup=False): every string, every width, every highlighter and emoji oracle *)
Theorem print_no_markup_total_partial hl E s W :
  (let p := plain (ctor FIXED (E s) (default_meta 0) []) in Forall line_ok (wrapped p (hl p) W)) ->
  exists r, print_no_markup hl E s W = Ok r.
Proof. intros H. unfold print_no_markup. apply render_text_total. exact H. Qed.

(* a text without newlines, tabs or spaces that fits is one line with the highlighter's own spans: there the
   hypothesis follows from InRange alone *)
Example print_no_markup_nonvacuous :
  code_of (print_no_markup (fun p => [(0, 2, 7); (1, 3, 8)]) (fun s => s) (lit "abc def") 3) = 0
  /\ code_of (render_text (lit "ab") [(1, 5, 7)] 10) = 0
  /\ code_of (render_text (lit "ab") [(3, 5, 7)] 10) = 100 + K_Other
  /\ code_of (render_text (lit "ab") [(2, 1, 7)] 10) = 100 + K_ValueError.
Proof. vm_compute. repeat split. Qed.
