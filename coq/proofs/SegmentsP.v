(* Proofs for L1 (rich/segment.py): adjust_line_length and the shapers built on it. *)
From RichModel Require Import Prelude Cells Segments SpecCells.
From RichProofs Require Import CellsP.
From Coq Require Import ZifyBool.

Notation segZ := (seg Z).

Lemma line_len_app (a b : list segZ) : line_len (a ++ b) = line_len a + line_len b.
Proof. unfold line_len. rewrite map_app. apply sumZ_app. Qed.

Lemma line_len_cons (g : segZ) l : line_len (g :: l) = seg_len g + line_len l.
Proof. reflexivity. Qed.

Lemma seg_len_nonneg (g : segZ) : 0 <= seg_len g.
Proof. unfold seg_len. destruct (ctl g); [lia|apply cell_len_nonneg]. Qed.

Lemma line_len_nonneg (l : list segZ) : 0 <= line_len l.
Proof.
  induction l as [|g l IH]; [unfold line_len, sumZ; simpl; lia|].
  rewrite line_len_cons. pose proof (seg_len_nonneg g). lia.
Qed.

(* shape of set_cell_size when cropping: a prefix plus at most one space *)
Lemma set_cell_size_crop_shape s n :
  0 <= n -> n <= cell_len s ->
  exists k p, set_cell_size s n = firstn k s ++ repeat SP p /\ (p <= 1)%nat /\ cell_len (set_cell_size s n) = n.
Proof.
  intros Hn Hle.
  assert (Hlen : cell_len (set_cell_size s n) = n).
  { pose proof (set_cell_size_spec s n Hn) as H. unfold resize_ok_b in H.
    apply andb_true_iff in H as [H _]. lia. }
  unfold set_cell_size in *.
  destruct (cell_len s =? n) eqn:E1.
  - exists (length s), 0%nat. rewrite firstn_all. simpl. rewrite app_nil_r. repeat split; [lia|exact Hlen].
  - replace (cell_len s <? n) with false in * by lia.
    destruct (pop_loop (rev (map char_size s)) (cell_len s - n)) as [kept ex].
    destruct (ex =? -1).
    + exists (length kept), 1%nat. repeat split; [lia|exact Hlen].
    + exists (length kept), 0%nat. simpl. rewrite app_nil_r. repeat split; [lia|exact Hlen].
Qed.

Lemma firstn_min_length {A} k (l : list A) : firstn (Nat.min k (length l)) l = firstn k l.
Proof.
  destruct (Nat.le_gt_cases k (length l)) as [H|H].
  - rewrite Nat.min_l by lia. reflexivity.
  - rewrite Nat.min_r by lia. rewrite firstn_all, firstn_all2 by lia. reflexivity.
Qed.

(* ------------------------------------------------------------------ crop_go *)
Lemma crop_go_len : forall (line : list segZ) n cur,
  0 <= cur <= n -> n <= cur + line_len line -> cur + line_len (crop_go line n cur) = n.
Proof.
  induction line as [|g line IH]; intros n cur Hc Hn.
  - unfold line_len, sumZ in *. simpl in *. lia.
  - cbn [crop_go]. rewrite line_len_cons in Hn. pose proof (seg_len_nonneg g) as Hg.
    destruct ((cur + seg_len g <? n) || ctl g) eqn:E.
    + rewrite line_len_cons.
      assert (Hc' : 0 <= cur + seg_len g <= n).
      { destruct (ctl g) eqn:Ec; [unfold seg_len; rewrite Ec; lia|]. rewrite orb_false_r in E. lia. }
      specialize (IH n (cur + seg_len g) Hc' ltac:(lia)). lia.
    + apply orb_false_iff in E as [E1 E2].
      unfold line_len, sumZ. simpl. unfold seg_len at 1. simpl.
      unfold seg_len in E1, Hn. rewrite E2 in E1, Hn.
      destruct (set_cell_size_crop_shape (txt g) (n - cur) ltac:(lia) ltac:(lia)) as [k [p [_ [_ Hl]]]].
      rewrite Hl. lia.
Qed.

Lemma cs_eqb_refl a : cs_eqb a a = true.
Proof.
  unfold cs_eqb. rewrite Z.eqb_refl. destruct (snd a); simpl; [apply Z.eqb_refl|reflexivity].
Qed.

Lemma strip_prefix_app a t : strip_prefix a (a ++ t) = strip_prefix [] t.
Proof.
  induction a as [|x a IH]; [reflexivity|]. simpl. rewrite cs_eqb_refl. exact IH.
Qed.

Lemma strip_prefix_nil t : strip_prefix [] t = t.
Proof. destruct t; reflexivity. Qed.

(* matching a prefix of inp followed by t leaves a suffix of t *)
Lemma strip_prefix_firstn : forall inp k t,
  exists j, strip_prefix inp (firstn k inp ++ t) = skipn j t.
Proof.
  induction inp as [|x inp IH]; intros k t.
  - exists 0%nat. rewrite firstn_nil. cbn [app skipn]. apply strip_prefix_nil.
  - destruct k as [|k].
    + simpl. destruct t as [|y t]; [exists 0%nat; reflexivity|].
      simpl. destruct (cs_eqb x y).
      * destruct (IH 0%nat t) as [j Hj]. simpl in Hj. exists (S j). exact Hj.
      * exists 0%nat. reflexivity.
    + simpl. rewrite cs_eqb_refl. apply IH.
Qed.

Lemma flat_app (a b : list segZ) : flat (a ++ b) = flat a ++ flat b.
Proof. unfold flat. rewrite map_app, concat_app. reflexivity. Qed.

Lemma flat_cons (g : segZ) l :
  flat (g :: l) = (if ctl g then [] else map (fun c => (c, sty g)) (txt g)) ++ flat l.
Proof. reflexivity. Qed.

(* the characters-with-styles of a cropped line: a prefix of the input's, then <= 1 space *)
Lemma crop_go_flat : forall (line : list segZ) n cur,
  0 <= cur <= n -> n <= cur + line_len line ->
  exists k t, flat (crop_go line n cur) = firstn k (flat line) ++ t /\
              (length t <= 1)%nat /\ forallb (fun cs => fst cs =? SP) t = true.
Proof.
  induction line as [|g line IH]; intros n cur Hc Hn.
  - exists 0%nat, []. simpl. repeat split; lia.
  - cbn [crop_go]. rewrite line_len_cons in Hn. pose proof (seg_len_nonneg g) as Hg.
    destruct ((cur + seg_len g <? n) || ctl g) eqn:E.
    + assert (Hc' : 0 <= cur + seg_len g <= n).
      { destruct (ctl g) eqn:Ec; [unfold seg_len; rewrite Ec; lia|]. rewrite orb_false_r in E. lia. }
      destruct (IH n (cur + seg_len g) Hc' ltac:(lia)) as [k [t [H1 [H2 H3]]]].
      rewrite !flat_cons, H1.
      set (hd := if ctl g then [] else map (fun c => (c, sty g)) (txt g)).
      exists (length hd + k)%nat, t. split; [|split; assumption].
      rewrite firstn_app_2, app_assoc. reflexivity.
    + apply orb_false_iff in E as [E1 E2].
      unfold seg_len in E1, Hn. rewrite E2 in E1, Hn.
      destruct (set_cell_size_crop_shape (txt g) (n - cur) ltac:(lia) ltac:(lia)) as [k [p [Hs [Hp _]]]].
      rewrite Hs. rewrite !flat_cons. cbn [ctl txt sty]. rewrite E2.
      change (flat []) with (@nil (Z * option Z)). rewrite app_nil_r, map_app.
      exists (Nat.min k (length (txt g))), (map (fun c => (c, sty g)) (repeat SP p)). split; [|split].
      * f_equal. rewrite <- (firstn_min_length k (txt g)), map_firstn.
        set (m := map (fun c => (c, sty g)) (txt g)).
        assert (Hk : (Nat.min k (length (txt g)) <= length m)%nat) by (unfold m; rewrite map_length; lia).
        rewrite firstn_app. replace (Nat.min k (length (txt g)) - length m)%nat with 0%nat by lia.
        cbn [firstn]. rewrite app_nil_r. reflexivity.
      * rewrite map_length, repeat_length. exact Hp.
      * apply forallb_forall. intros x Hx. apply in_map_iff in Hx as [c [<- Hc2]].
        apply repeat_spec in Hc2. subst. reflexivity.
Qed.

Lemma opt_eqb_refl o : opt_eqb o o = true.
Proof. destruct o; simpl; [apply Z.eqb_refl|reflexivity]. Qed.

Lemma strip_prefix_self a : strip_prefix a a = [].
Proof. rewrite <- (app_nil_r a) at 2. rewrite strip_prefix_app. reflexivity. Qed.

Lemma forallb_skipn {A} (f : A -> bool) j l : forallb f l = true -> forallb f (skipn j l) = true.
Proof.
  revert l. induction j as [|j IH]; intros l H; [exact H|].
  destruct l as [|x l]; [reflexivity|]. simpl in *. apply andb_true_iff in H as [_ H]. apply IH. exact H.
Qed.

Lemma skipn_length_le {A} j (l : list A) : (length (skipn j l) <= length l)%nat.
Proof. rewrite skipn_length. lia. Qed.

Lemma line_len_single (g : segZ) : line_len [g] = seg_len g.
Proof. unfold line_len, sumZ. simpl. lia. Qed.

Lemma flat_single (g : segZ) : flat [g] = if ctl g then [] else map (fun c => (c, sty g)) (txt g).
Proof. unfold flat. simpl. apply app_nil_r. Qed.

(* Segment.adjust_line_length: exactly the requested cell length (when padding, or when the line
   was at least that long), characters and styles a prefix of the input's, padding in the
   requested style. *)
Theorem adjust_line_length_spec (line : list segZ) n style pad :
  0 <= n -> adjust_ok_b line n style pad (adjust_line_length line n style pad) = true.
Proof.
  intros Hn. unfold adjust_ok_b, adjust_line_length.
  pose proof (line_len_nonneg line) as Hll.
  destruct (line_len line <? n) eqn:E1.
  - destruct pad.
    + (* padded *)
      rewrite line_len_app, flat_app, strip_prefix_app, strip_prefix_nil.
      rewrite line_len_single, flat_single. unfold seg_len. cbn [ctl txt sty].
      unfold py_repeat. rewrite cell_len_spaces.
      cbn [orb]. apply andb_true_iff. split; [apply andb_true_iff; split|].
      * lia.
      * apply forallb_forall. intros x Hx. apply in_map_iff in Hx as [c [<- Hc]].
        apply repeat_spec in Hc. subst. reflexivity.
      * apply forallb_forall. intros x Hx. apply in_map_iff in Hx as [c [<- Hc]].
        simpl. apply opt_eqb_refl.
    + rewrite strip_prefix_self. cbn [orb forallb]. replace (n <=? line_len line) with false by lia.
      rewrite Z.eqb_refl. reflexivity.
  - destruct (n <? line_len line) eqn:E2.
    + pose proof (crop_go_len line n 0 ltac:(lia) ltac:(lia)) as Hlen.
      destruct (crop_go_flat line n 0 ltac:(lia) ltac:(lia)) as [k [t [Hf [Ht1 Ht2]]]].
      rewrite Hf. destruct (strip_prefix_firstn (flat line) k t) as [j Hj]. rewrite Hj.
      replace (pad || (n <=? line_len line)) with true by (destruct pad; simpl; lia).
      apply andb_true_iff. split; [apply andb_true_iff; split|].
      * lia.
      * apply forallb_skipn. exact Ht2.
      * pose proof (skipn_length_le j t). apply Nat.leb_le. lia.
    + rewrite strip_prefix_self. replace (pad || (n <=? line_len line)) with true by (destruct pad; simpl; lia).
      cbn [forallb length]. replace (line_len line =? n) with true by lia. reflexivity.
Qed.
