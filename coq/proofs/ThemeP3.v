(* C20 proofs, part 3: Theme.__init__ produces dicts; Theme.config -> Theme.from_file round trip
   relative to the oracles (Style.parse / str(style) / configparser) under explicit hypotheses. *)
From RichModel Require Import Prelude Theme SpecTheme.
From RichProofs Require Import ThemeP.
From Coq Require Import Permutation.

Lemma insert_item_perm : forall {A} (kv : str * A) l, Permutation (insert_item kv l) (kv :: l).
Proof.
  induction l as [|kv' l IH]; simpl; [reflexivity|].
  destruct (str_ltb (fst kv') (fst kv)); [|reflexivity].
  eapply Permutation_trans; [apply perm_skip; exact IH|apply perm_swap].
Qed.

Lemma sort_items_perm : forall {A} (l : list (str * A)), Permutation (sort_items l) l.
Proof.
  induction l as [|kv l IH]; simpl; [constructor|].
  eapply Permutation_trans; [apply insert_item_perm|apply perm_skip; exact IH].
Qed.

Lemma forallb_perm : forall {A} (f : A -> bool) a b, Permutation a b -> forallb f a = true -> forallb f b = true.
Proof.
  intros A f a b P H. rewrite forallb_forall in *. intros x Hx. apply H.
  eapply Permutation_in; [apply Permutation_sym; exact P|exact Hx].
Qed.

Lemma uniq_perm : forall {A} (a b : list (str * A)), Permutation a b -> uniq_keys a = true -> uniq_keys b = true.
Proof.
  intros A a b P H. apply uniq_NoDup. apply uniq_NoDup in H.
  eapply Permutation_NoDup; [apply Permutation_map; exact P|exact H].
Qed.

Lemma esc_pct_id : forall v, no_pct v = true -> esc_pct v = v.
Proof.
  induction v as [|c v IH]; intros H; [reflexivity|]. simpl in H. apply andb_true_iff in H. destruct H as [H1 H2].
  unfold esc_pct in *. simpl. apply negb_true_iff in H1. rewrite H1. simpl. f_equal. apply IH. exact H2.
Qed.

Lemma config_rt_b_ext : forall d d', (forall n, dget d n = dget d' n) -> config_rt_b d d' = true.
Proof.
  intros d d' H. unfold config_rt_b. apply forallb_forall. intros kv _. rewrite H.
  destruct (dget d' (fst kv)); simpl; [apply Z.eqb_refl|reflexivity].
Qed.

Section Init.
Variable parse : str -> option Z.

Lemma parse_styles_inl : forall L : dict,
  parse_styles parse (map (fun kv => (fst kv, inl (snd kv))) L) = Ok L.
Proof. induction L as [|[k v] L IH]; simpl; [reflexivity|]. rewrite IH. reflexivity. Qed.

(* every theme that Theme.__init__ can build is a dict *)
Theorem theme_init_uniq : forall defaults styles inherit d,
  uniq_keys defaults = true -> theme_init parse defaults styles inherit = Ok d -> uniq_keys d = true.
Proof.
  intros defaults styles inherit d U H. unfold theme_init in H.
  destruct (parse_styles parse styles) as [p|e|k]; simpl in H; inversion H.
  apply uniq_dupdate. destruct inherit; [exact U|reflexivity].
Qed.

Theorem theme_init_lookup : forall defaults styles inherit d n,
  theme_init parse defaults styles inherit = Ok d ->
  exists p, parse_styles parse styles = Ok p /\
    dget d n = match dget (dupdate [] p) n with
               | Some v => Some v
               | None => if inherit then dget defaults n else None
               end.
Proof.
  intros defaults styles inherit d n H. unfold theme_init in H.
  destruct (parse_styles parse styles) as [p|e|k]; simpl in H; inversion H.
  exists p. split; [reflexivity|]. rewrite dget_dupdate by (apply uniq_dupdate; reflexivity).
  destruct (dget (dupdate [] p) n); [reflexivity|]. destruct inherit; reflexivity.
Qed.
End Init.

Section Config.
Variable parse : str -> option Z.                 (* Style.parse *)
Variable show : Z -> str.                         (* str(style) *)
Variable cp : str -> option (list (str * str)).   (* configparser *)
Variable style_ok : Z -> bool.                    (* the styles the hypotheses speak about *)

(* C06's round trip, plus: a style definition is one line of printable ASCII *)
Hypothesis show_ok : forall v, style_ok v = true -> value_ok (show v) = true /\ parse (show v) = Some v.
(* configparser reads back "name = value" lines written with '%' doubled *)
Hypothesis cp_ok : forall items, forallb item_ok items = true -> uniq_keys items = true ->
  cp (cfg_text (map (fun kv => (fst kv, esc_pct (snd kv))) items)) = Some items.

Definition theme_ok (d : dict) : bool := forallb (fun kv => name_ok (fst kv) && style_ok (snd kv)) d.

Lemma parse_styles_show : forall L : dict, forallb (fun kv => style_ok (snd kv)) L = true ->
  parse_styles parse (map (fun kv => (fst kv, inr (snd kv))) (map (fun kv => (fst kv, show (snd kv))) L)) = Ok L.
Proof.
  induction L as [|[k v] L IH]; intros H; simpl; [reflexivity|].
  simpl in H. apply andb_true_iff in H. destruct H as [H1 H2].
  destruct (show_ok v H1) as [_ P]. rewrite P. simpl. rewrite IH by exact H2. reflexivity.
Qed.

(* esc = the generated fact config_escapes_percent; without escaping, '%' must not occur *)
Theorem config_roundtrip_gen : forall esc defaults d inherit,
  uniq_keys d = true -> theme_ok d = true ->
  (esc = false -> forallb (fun kv => no_pct (show (snd kv))) d = true) ->
  from_file parse cp defaults (config show esc d) inherit
  = Ok (dupdate (if inherit then defaults else []) (sort_items d)).
Proof.
  intros esc defaults d inherit U T NP.
  pose proof (sort_items_perm d) as P. apply Permutation_sym in P.
  set (L := sort_items d) in *.
  assert (UL : uniq_keys L = true) by (eapply uniq_perm; eassumption).
  assert (TL : theme_ok L = true) by (eapply forallb_perm; eassumption).
  set (items := map (fun kv => (fst kv, show (snd kv))) L).
  assert (E : config show esc d = cfg_text (map (fun kv => (fst kv, esc_pct (snd kv))) items)).
  { unfold config, config_items. fold L. unfold items. rewrite map_map. f_equal.
    apply map_ext_in. intros kv Hin. simpl. destruct esc; [reflexivity|].
    rewrite esc_pct_id; [reflexivity|].
    assert (NL : forallb (fun kv => no_pct (show (snd kv))) L = true)
      by (eapply forallb_perm; [exact P|apply NP; reflexivity]).
    rewrite forallb_forall in NL. apply NL. exact Hin. }
  assert (IO : forallb item_ok items = true).
  { unfold items. rewrite forallb_forall. intros x Hx. apply in_map_iff in Hx. destruct Hx as [kv [Hx Hin]]. subst x.
    unfold theme_ok in TL. rewrite forallb_forall in TL. specialize (TL kv Hin).
    apply andb_true_iff in TL. destruct TL as [T1 T2]. unfold item_ok. simpl. rewrite T1.
    destruct (show_ok _ T2) as [V _]. rewrite V. reflexivity. }
  assert (UI : uniq_keys items = true).
  { apply uniq_NoDup. unfold items. rewrite map_map. simpl. apply uniq_NoDup in UL. rewrite <- map_map with (f := fun kv : str * Z => kv) (g := fst) in UL.
    rewrite map_id in UL. exact UL. }
  unfold from_file. rewrite E, (cp_ok items IO UI). unfold items.
  rewrite parse_styles_show.
  2:{ unfold theme_ok in TL. rewrite forallb_forall in *. intros x Hx. specialize (TL x Hx).
      apply andb_true_iff in TL. tauto. }
  simpl. rewrite (dupdate_nil_uniq L UL). unfold theme_init. rewrite parse_styles_inl. simpl.
  rewrite (dupdate_nil_uniq L UL). reflexivity.
Qed.

Lemma dget_sort : forall (d : dict) n, uniq_keys d = true -> dget (sort_items d) n = dget d n.
Proof. intros d n U. symmetry. apply dget_perm; [exact U|]. apply Permutation_sym. apply sort_items_perm. Qed.

(* read back without inheriting the defaults: exactly the theme's styles *)
Theorem config_roundtrip : forall esc defaults d,
  uniq_keys d = true -> theme_ok d = true ->
  (esc = false -> forallb (fun kv => no_pct (show (snd kv))) d = true) ->
  exists d', from_file parse cp defaults (config show esc d) false = Ok d' /\
             (forall n, dget d' n = dget d n) /\ config_rt_b d d' = true.
Proof.
  intros esc defaults d U T NP. exists (sort_items d).
  assert (UL : uniq_keys (sort_items d) = true)
    by (eapply uniq_perm; [apply Permutation_sym; apply sort_items_perm|exact U]).
  rewrite (config_roundtrip_gen esc defaults d false U T NP). simpl.
  rewrite (dupdate_nil_uniq _ UL). split; [reflexivity|].
  split; [intros n; apply dget_sort; exact U|].
  apply config_rt_b_ext. intros n. symmetry. apply dget_sort. exact U.
Qed.

(* a theme built by Theme(styles, inherit=i) and read back with the same flag has equal styles *)
Theorem config_roundtrip_same_flag : forall esc defaults styles i d,
  uniq_keys defaults = true ->
  theme_init parse defaults styles i = Ok d -> theme_ok d = true ->
  (esc = false -> forallb (fun kv => no_pct (show (snd kv))) d = true) ->
  exists d', from_file parse cp defaults (config show esc d) i = Ok d' /\
             (forall n, dget d' n = dget d n) /\ config_rt_b d d' = true.
Proof.
  intros esc defaults styles i d UD HI T NP.
  assert (U : uniq_keys d = true) by (eapply theme_init_uniq; eassumption).
  assert (UL : uniq_keys (sort_items d) = true)
    by (eapply uniq_perm; [apply Permutation_sym; apply sort_items_perm|exact U]).
  eexists. rewrite (config_roundtrip_gen esc defaults d i U T NP). split; [reflexivity|].
  assert (X : forall n, dget (dupdate (if i then defaults else []) (sort_items d)) n = dget d n).
  { intros n. rewrite dget_dupdate by exact UL. rewrite dget_sort by exact U.
    destruct (dget d n) as [v|] eqn:E; [reflexivity|].
    destruct i; [|reflexivity].
    destruct (theme_init_lookup parse defaults styles true d n HI) as [p [_ L]].
    rewrite E in L. destruct (dget (dupdate [] p) n); [discriminate|]. symmetry. exact L. }
  split; [exact X|]. apply config_rt_b_ext. intros n. symmetry. apply X.
Qed.
End Config.
