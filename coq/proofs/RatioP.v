(* Proofs about the arithmetic kernels of model/Ratio.v (rich/_ratio.py, Table._collapse_widths). *)
From RichModel Require Import Prelude Ratio SpecTable.
From Coq Require Import ZifyBool.
Ltac Zify.zify_post_hook ::= Z.to_euclidean_division_equations.

(* ------------------------------------------------------------------ sums *)
Lemma sumZ_cons x l : sumZ (x :: l) = x + sumZ l.
Proof. reflexivity. Qed.

Lemma sumZ_nonneg l : Forall (fun x => 0 <= x) l -> 0 <= sumZ l.
Proof. induction 1 as [|x l Hx _ IH]; [unfold sumZ; simpl; lia|rewrite sumZ_cons; lia]. Qed.

Lemma sumZ_repeat0 n : sumZ (repeat 0 n) = 0.
Proof. induction n as [|n IH]; [reflexivity|simpl repeat; rewrite sumZ_cons; lia]. Qed.

(* ------------------------------------------------------------------ exact rational rounding *)
Lemma ceil_div_bounds n d : 0 < d -> d * (ceil_div n d - 1) < n <= d * ceil_div n d.
Proof. intros Hd. unfold ceil_div. lia. Qed.

Lemma ceil_div_mul d x : 0 < d -> ceil_div (d * x) d = x.
Proof. intros Hd. unfold ceil_div. nia. Qed.

Lemma round_div_bounds n d : 0 < d -> 2 * d * round_div n d - d <= 2 * n <= 2 * d * round_div n d + d.
Proof.
  intros Hd. unfold round_div.
  destruct (2 * (n mod d) <? d) eqn:E1; [lia|].
  destruct (d <? 2 * (n mod d)) eqn:E2; [lia|].
  destruct (Z.even (n / d)); lia.
Qed.

Lemma round_div_mul d x : 0 < d -> round_div (d * x) d = x.
Proof.
  intros Hd. pose proof (round_div_bounds (d * x) d Hd) as H.
  assert (H1 : d * (2 * round_div (d * x) d - 1) <= d * (2 * x)) by lia.
  assert (H2 : d * (2 * x) <= d * (2 * round_div (d * x) d + 1)) by lia.
  apply Z.mul_le_mono_pos_l in H1; [|exact Hd]. apply Z.mul_le_mono_pos_l in H2; [|exact Hd]. lia.
Qed.

(* the rounded share of a part never exceeds the whole, and is not negative *)
Lemma round_div_share r rem tr : 0 <= r <= tr -> 0 < tr -> 0 <= rem -> 0 <= round_div (r * rem) tr <= rem.
Proof.
  intros Hr Ht Hrem. pose proof (round_div_bounds (r * rem) tr Ht) as H.
  assert (Hp : 0 <= r * rem <= tr * rem) by nia.
  set (q := round_div (r * rem) tr) in *. split.
  - destruct (Z_lt_le_dec q 0) as [Hq|Hq]; [|exact Hq]. exfalso.
    assert (tr * (2 * q + 1) <= tr * (-1)) by (apply Z.mul_le_mono_nonneg_l; lia). lia.
  - destruct (Z_lt_le_dec rem q) as [Hq|Hq]; [|exact Hq]. exfalso.
    assert (tr * (2 * rem + 1) <= tr * (2 * q - 1)) by (apply Z.mul_le_mono_nonneg_l; lia). lia.
Qed.

Lemma ceil_div_share r rem tr : 0 <= r <= tr -> 0 < tr -> 0 <= rem -> 0 <= ceil_div (r * rem) tr <= rem.
Proof.
  intros Hr Ht Hrem. pose proof (ceil_div_bounds (r * rem) tr Ht) as H.
  assert (Hp : 0 <= r * rem <= tr * rem) by nia.
  set (q := ceil_div (r * rem) tr) in *. split.
  - destruct (Z_lt_le_dec q 0) as [Hq|Hq]; [|exact Hq]. exfalso.
    assert (tr * q <= tr * (-1)) by (apply Z.mul_le_mono_nonneg_l; lia). lia.
  - destruct (Z_lt_le_dec rem q) as [Hq|Hq]; [|exact Hq]. exfalso.
    assert (tr * rem <= tr * (q - 1)) by (apply Z.mul_le_mono_nonneg_l; lia). lia.
Qed.

(* ------------------------------------------------------------------ ratio_distribute *)
(* with the default minimums: the parts are non-negative and sum to the total *)
Lemma distribute_loop_default : forall ratios rem tr,
  tr = sumZ ratios -> Forall (fun r => 0 <= r) ratios -> 0 <= rem ->
  let out := distribute_loop ratios (repeat 0 (length ratios)) rem tr in
  (ratios = [] \/ sumZ out = rem) /\ Forall (fun d => 0 <= d) out /\ length out = length ratios.
Proof.
  induction ratios as [|r rs IH]; intros rem tr Htr Hpos Hrem.
  - simpl. repeat split; auto.
  - inversion Hpos as [|? ? Hr Hrs]; subst. rewrite sumZ_cons.
    pose proof (sumZ_nonneg rs Hrs) as Hs.
    cbn [length repeat distribute_loop].
    set (d := if 0 <? r + sumZ rs then Z.max 0 (ceil_div (r * rem) (r + sumZ rs)) else rem).
    assert (Hd : 0 <= d <= rem).
    { unfold d. destruct (0 <? r + sumZ rs) eqn:E; [|lia].
      pose proof (ceil_div_share r rem (r + sumZ rs) ltac:(lia) ltac:(lia) Hrem). lia. }
    specialize (IH (rem - d) (r + sumZ rs - r) ltac:(lia) Hrs ltac:(lia)).
    cbv zeta in IH. destruct IH as [IH1 [IH2 IH3]].
    repeat split.
    + right. rewrite sumZ_cons. destruct IH1 as [->|IH1].
      * cbn [length repeat distribute_loop]. unfold sumZ at 1. simpl.
        unfold d. unfold sumZ in *. simpl in *.
        destruct (0 <? r + 0) eqn:E; [|lia].
        replace (r + 0) with r by lia. rewrite ceil_div_mul by lia. lia.
      * lia.
    + constructor; [lia|exact IH2].
    + simpl. f_equal. exact IH3.
Qed.

Theorem ratio_distribute_sum total ratios :
  0 <= total -> Forall (fun r => 0 <= r) ratios -> 0 < sumZ ratios ->
  exists out, ratio_distribute total ratios None = Ok out /\
              distribute_sum_b total out = true /\ Forall (fun d => 0 <= d) out /\
              length out = length ratios.
Proof.
  intros Ht Hr Hs. unfold ratio_distribute.
  replace (sumZ ratios <=? 0) with false by lia.
  destruct (distribute_loop_default ratios total (sumZ ratios) eq_refl Hr Ht) as [H1 [H2 H3]].
  eexists. split; [reflexivity|]. unfold distribute_sum_b. repeat split; try assumption.
  destruct H1 as [->|H1]; [unfold sumZ in Hs; simpl in Hs; lia|lia].
Qed.

(* with any minimums of the right length the parts never sum to less than the total *)
Lemma distribute_loop_ge : forall ratios mins rem tr,
  tr = sumZ ratios -> Forall (fun r => 0 <= r) ratios -> length mins = length ratios ->
  ratios = [] \/ rem <= sumZ (distribute_loop ratios mins rem tr).
Proof.
  induction ratios as [|r rs IH]; intros mins rem tr Htr Hpos Hlen; [left; reflexivity|right].
  destruct mins as [|m ms]; [discriminate|].
  inversion Hpos as [|? ? Hr Hrs]; subst. rewrite sumZ_cons.
  pose proof (sumZ_nonneg rs Hrs) as Hs.
  cbn [distribute_loop]. rewrite sumZ_cons.
  set (d := if 0 <? r + sumZ rs then Z.max m (ceil_div (r * rem) (r + sumZ rs)) else rem).
  destruct (IH ms (rem - d) (r + sumZ rs - r) ltac:(lia) Hrs ltac:(simpl in Hlen; lia)) as [->|IH1].
  - cbn [distribute_loop]. unfold sumZ at 1. simpl. unfold d, sumZ. simpl.
    destruct (0 <? r + 0) eqn:E; [|lia].
    replace (r + 0) with r by lia. rewrite ceil_div_mul by lia. lia.
  - lia.
Qed.

Theorem ratio_distribute_ge total ratios mins out :
  Forall (fun r => 0 <= r) (zip_mask ratios mins) -> length mins = length ratios -> mins <> [] ->
  ratio_distribute total ratios (Some mins) = Ok out -> total <= sumZ out.
Proof.
  intros Hr Hlen Hne. unfold ratio_distribute.
  destruct mins as [|m ms]; [congruence|].
  destruct (sumZ (zip_mask ratios (m :: ms)) <=? 0) eqn:E; [discriminate|].
  intros H. injection H as <-.
  assert (Hl : length (m :: ms) = length (zip_mask ratios (m :: ms))).
  { clear -Hlen. revert ratios Hlen. generalize (m :: ms). induction l as [|x l IH]; intros [|r rs] H; try discriminate; [reflexivity|].
    simpl. f_equal. apply IH. simpl in H. lia. }
  destruct (distribute_loop_ge _ (m :: ms) total _ eq_refl Hr Hl) as [H0|H0]; [|exact H0].
  rewrite H0 in E. unfold sumZ in E. simpl in E. lia.
Qed.

(* the full "parts sum to the total" is FALSE once minimums are given: a minimum that exceeds
   the remainder is honoured and nothing is taken back *)
Theorem ratio_distribute_sum_min_refuted :
  exists total ratios mins out,
    0 <= total /\ Forall (fun r => 0 < r) ratios /\ sumZ mins <= total /\
    ratio_distribute total ratios (Some mins) = Ok out /\ distribute_sum_b total out = false.
Proof.
  exists 10, [1; 1], [1; 9], [5; 9]. vm_compute. repeat split; try discriminate.
  - repeat constructor.
Qed.

(* every part is at least its minimum -- when every (masked) ratio is positive *)
Lemma distribute_loop_min : forall ratios mins rem tr,
  tr = sumZ ratios -> Forall (fun r => 0 < r) ratios -> length mins = length ratios ->
  distribute_min_b mins (distribute_loop ratios mins rem tr) = true.
Proof.
  induction ratios as [|r rs IH]; intros mins rem tr Htr Hpos Hlen.
  - destruct mins; [reflexivity|discriminate].
  - destruct mins as [|m ms]; [discriminate|].
    inversion Hpos as [|? ? Hr Hrs]; subst. rewrite sumZ_cons.
    assert (Hs : 0 <= sumZ rs) by (apply sumZ_nonneg; eapply Forall_impl; [|exact Hrs]; simpl; lia).
    cbn [distribute_loop]. unfold distribute_min_b in *. cbn [forall2b].
    replace (0 <? r + sumZ rs) with true by lia.
    apply andb_true_iff. split; [lia|].
    apply IH; [lia|exact Hrs|simpl in Hlen; lia].
Qed.

Theorem ratio_distribute_min total ratios mins out :
  Forall (fun r => 0 < r) (zip_mask ratios mins) -> length mins = length ratios ->
  ratio_distribute total ratios (Some mins) = Ok out -> distribute_min_b mins out = true.
Proof.
  intros Hr Hlen. unfold ratio_distribute.
  destruct mins as [|m ms].
  - destruct ratios; [|discriminate]. destruct (sumZ [] <=? 0); [discriminate|].
    intros H. injection H as <-. reflexivity.
  - destruct (sumZ (zip_mask ratios (m :: ms)) <=? 0); [discriminate|].
    intros H. injection H as <-.
    apply distribute_loop_min; [reflexivity|exact Hr|].
    clear -Hlen. revert ratios Hlen. generalize (m :: ms). induction l as [|x l IH]; intros [|r rs] H; try discriminate; [reflexivity|].
    simpl. f_equal. apply IH. simpl in H. lia.
Qed.

(* ... and FALSE when a zero ratio follows the last positive one: that slot receives the
   (possibly negative) remainder whatever its minimum *)
Theorem ratio_distribute_min_refuted :
  exists total ratios mins out,
    Forall (fun r => 0 <= r) ratios /\ length mins = length ratios /\
    ratio_distribute total ratios (Some mins) = Ok out /\ distribute_min_b mins out = false.
Proof.
  exists 2, [1; 0], [3; 3], [3; -1]. vm_compute. repeat split. repeat constructor; discriminate.
Qed.

(* ------------------------------------------------------------------ ratio_reduce *)
(* the amounts taken off each value *)
Fixpoint amounts (ratios maxs : list Z) (rem tr : Z) : list Z :=
  match ratios, maxs with
  | r :: rs, m :: ms =>
      if negb (r =? 0) && (0 <? tr) then
        let d := Z.min m (round_div (r * rem) tr) in
        d :: amounts rs ms (rem - d) (tr - r)
      else 0 :: amounts rs ms rem tr
  | _, _ => []
  end.

Fixpoint zsub (a b : list Z) : list Z :=
  match a, b with
  | x :: a', y :: b' => (x - y) :: zsub a' b'
  | _, _ => []
  end.

Lemma reduce_loop_amounts : forall ratios maxs vals rem tr,
  reduce_loop ratios maxs vals rem tr = zsub vals (amounts ratios maxs rem tr).
Proof.
  induction ratios as [|r rs IH]; intros maxs vals rem tr.
  - simpl. destruct vals; reflexivity.
  - destruct maxs as [|m ms]; [simpl; destruct vals; reflexivity|].
    destruct vals as [|v vs]; [reflexivity|].
    cbn [reduce_loop amounts]. destruct (negb (r =? 0) && (0 <? tr)); cbn [zsub]; rewrite IH; f_equal; lia.
Qed.

Lemma reduce_amounts_zsub : forall vals a, length a = length vals -> reduce_amounts vals (zsub vals a) = a.
Proof.
  induction vals as [|v vs IH]; intros [|x a] H; try discriminate; [reflexivity|].
  cbn [zsub reduce_amounts]. f_equal; [lia|]. apply IH. simpl in H. lia.
Qed.

Lemma zsub_length : forall vals a, length a = length vals -> length (zsub vals a) = length vals.
Proof.
  induction vals as [|v vs IH]; intros [|x a] H; try discriminate; [reflexivity|].
  simpl. f_equal. apply IH. simpl in H. lia.
Qed.

Lemma amounts_length : forall ratios maxs rem tr,
  length maxs = length ratios -> length (amounts ratios maxs rem tr) = length ratios.
Proof.
  induction ratios as [|r rs IH]; intros [|m ms] rem tr H; try discriminate; [reflexivity|].
  cbn [amounts]. destruct (negb (r =? 0) && (0 <? tr)); simpl; f_equal; apply IH; simpl in H; lia.
Qed.

(* per-slot facts as a relation over (ratio, maximum, amount) *)
Inductive amt_ok : list Z -> list Z -> list Z -> Prop :=
| amt_nil : amt_ok [] [] []
| amt_cons r m a rs ms al : 0 <= a <= m -> (r = 0 -> a = 0) -> amt_ok rs ms al -> amt_ok (r :: rs) (m :: ms) (a :: al).

Lemma amounts_bound : forall ratios maxs rem tr,
  length maxs = length ratios -> tr = sumZ ratios ->
  Forall (fun r => 0 <= r) ratios -> Forall (fun m => 0 <= m) maxs -> 0 <= rem ->
  let al := amounts ratios maxs rem tr in
  amt_ok ratios maxs al /\ 0 <= sumZ al <= rem.
Proof.
  induction ratios as [|r rs IH]; intros [|m ms] rem tr Hlen Htr Hr Hm Hrem; try discriminate.
  - simpl. split; [constructor|unfold sumZ; simpl; lia].
  - inversion Hr as [|? ? Hr0 Hrs]; inversion Hm as [|? ? Hm0 Hms]; subst. rewrite sumZ_cons.
    pose proof (sumZ_nonneg rs Hrs) as Hs.
    cbn [amounts]. destruct (negb (r =? 0) && (0 <? r + sumZ rs)) eqn:E.
    + pose proof (round_div_share r rem (r + sumZ rs) ltac:(lia) ltac:(lia) Hrem) as Hq.
      set (d := Z.min m (round_div (r * rem) (r + sumZ rs))) in *.
      assert (Hd : 0 <= d <= rem /\ d <= m) by (unfold d; lia).
      destruct (IH ms (rem - d) (r + sumZ rs - r) ltac:(simpl in Hlen; lia) ltac:(lia) Hrs Hms ltac:(lia)) as [I1 I2].
      cbv zeta. split; [constructor; [lia|lia|exact I1]|rewrite sumZ_cons; lia].
    + destruct (IH ms rem (r + sumZ rs) ltac:(simpl in Hlen; lia)) as [I1 I2]; try assumption.
      * (* the guard failed: r = 0, or nothing left *)
        destruct (r =? 0) eqn:E0; [lia|]. simpl in E. lia.
      * cbv zeta. split; [constructor; [lia|lia|exact I1]|rewrite sumZ_cons; lia].
Qed.

(* no maximum clips (every participating slot could take the whole total): exact *)
Lemma amounts_sum : forall ratios maxs rem tr,
  length maxs = length ratios -> tr = sumZ ratios ->
  Forall (fun r => 0 <= r) ratios -> 0 <= rem ->
  Forall (fun m => rem <= m) maxs ->
  sumZ (amounts ratios maxs rem tr) = if 0 <? tr then rem else 0.
Proof.
  induction ratios as [|r rs IH]; intros [|m ms] rem tr Hlen Htr Hr Hrem Hm; try discriminate.
  - subst. reflexivity.
  - inversion Hr as [|? ? Hr0 Hrs]; inversion Hm as [|? ? Hm0 Hms]; subst. rewrite sumZ_cons.
    pose proof (sumZ_nonneg rs Hrs) as Hs.
    cbn [amounts]. destruct (negb (r =? 0) && (0 <? r + sumZ rs)) eqn:E.
    + pose proof (round_div_share r rem (r + sumZ rs) ltac:(lia) ltac:(lia) Hrem) as Hq.
      rewrite Z.min_r by lia. rewrite sumZ_cons.
      set (d := round_div (r * rem) (r + sumZ rs)) in *.
      rewrite (IH ms (rem - d) (r + sumZ rs - r)); try assumption; try lia.
      * replace (r + sumZ rs - r) with (sumZ rs) by lia.
        replace (0 <? r + sumZ rs) with true by lia.
        destruct (0 <? sumZ rs) eqn:E2; [lia|].
        assert (sumZ rs = 0) by lia. unfold d. replace (r + sumZ rs) with r by lia.
        rewrite round_div_mul by lia. lia.
      * simpl in Hlen; lia.
      * eapply Forall_impl; [|exact Hms]. simpl. lia.
    + assert (Hr00 : r = 0) by (destruct (r =? 0) eqn:E0; [lia|simpl in E; lia]).
      assert (Hlen' : length ms = length rs) by (simpl in Hlen; lia).
      pose proof (IH ms rem (r + sumZ rs) Hlen' ltac:(lia) Hrs Hrem Hms) as IH'.
      rewrite sumZ_cons, IH'. lia.
Qed.

(* progress: a positive total takes at least one unit off when every participating slot may
   give at least one *)
Lemma amounts_progress : forall ratios maxs rem tr,
  length maxs = length ratios -> tr = sumZ ratios -> 0 < tr ->
  Forall (fun r => 0 <= r) ratios -> Forall (fun m => 1 <= m) maxs -> 1 <= rem ->
  1 <= sumZ (amounts ratios maxs rem tr).
Proof.
  induction ratios as [|r rs IH]; intros [|m ms] rem tr Hlen Htr Hpos Hr Hm Hrem; try discriminate.
  - subst. unfold sumZ in Hpos. simpl in Hpos. lia.
  - inversion Hr as [|? ? Hr0 Hrs]; inversion Hm as [|? ? Hm0 Hms]; subst. rewrite sumZ_cons in *.
    pose proof (sumZ_nonneg rs Hrs) as Hs.
    cbn [amounts]. destruct (negb (r =? 0) && (0 <? r + sumZ rs)) eqn:E.
    + pose proof (round_div_share r rem (r + sumZ rs) ltac:(lia) ltac:(lia) ltac:(lia)) as Hq.
      set (d := Z.min m (round_div (r * rem) (r + sumZ rs))).
      rewrite sumZ_cons.
      assert (Hms0 : Forall (fun m => 0 <= m) ms) by (eapply Forall_impl; [|exact Hms]; simpl; lia).
      assert (Hlen' : length ms = length rs) by (simpl in Hlen; lia).
      assert (Hd1 : 0 <= rem - d) by (unfold d; lia).
      destruct (amounts_bound rs ms (rem - d) (r + sumZ rs - r) Hlen' ltac:(lia) Hrs Hms0 Hd1) as [_ Hb].
      cbv zeta in Hb.
      destruct (Z_lt_le_dec 0 d) as [Hd|Hd]; [lia|].
      assert (Hd0 : d = 0) by (unfold d in *; lia).
      destruct (Z.eq_dec (sumZ rs) 0) as [Hz|Hz].
      * exfalso. unfold d in Hd0. replace (r + sumZ rs) with r in Hd0 by lia.
        rewrite round_div_mul in Hd0 by lia. lia.
      * specialize (IH ms (rem - d) (r + sumZ rs - r) ltac:(simpl in Hlen; lia) ltac:(lia) ltac:(lia) Hrs Hms ltac:(lia)).
        fold d. lia.
    + rewrite sumZ_cons. assert (r = 0) by (destruct (r =? 0) eqn:E0; [lia|simpl in E; lia]).
      specialize (IH ms rem (r + sumZ rs) ltac:(simpl in Hlen; lia) ltac:(lia) ltac:(lia) Hrs Hms Hrem). lia.
Qed.

Lemma zip_mask_id : forall ratios maxs, length maxs = length ratios ->
  Forall (fun m => m <> 0) maxs -> zip_mask ratios maxs = ratios.
Proof.
  induction ratios as [|r rs IH]; intros [|m ms] Hlen Hm; try discriminate; [reflexivity|].
  inversion Hm; subst. simpl. replace (m =? 0) with false by lia. f_equal. apply IH; [simpl in Hlen; lia|assumption].
Qed.

Lemma zip_mask_nonneg : forall ratios maxs, Forall (fun r => 0 <= r) ratios ->
  Forall (fun r => 0 <= r) (zip_mask ratios maxs).
Proof.
  induction ratios as [|r rs IH]; intros [|m ms] H; simpl; try constructor.
  - inversion H; subst. destruct (m =? 0); lia.
  - apply IH. inversion H; assumption.
Qed.

Lemma zip_mask_length : forall ratios maxs, length maxs = length ratios ->
  length (zip_mask ratios maxs) = length ratios.
Proof.
  induction ratios as [|r rs IH]; intros [|m ms] H; try discriminate; [reflexivity|].
  simpl. f_equal. apply IH. simpl in H. lia.
Qed.

Lemma amt_ok_forall2b : forall rs ms al, amt_ok rs ms al ->
  forall2b (fun m d => (0 <=? d) && (d <=? m)) ms al = true.
Proof. induction 1; [reflexivity|]. cbn [forall2b]. apply andb_true_iff. split; [lia|assumption]. Qed.

(* ratio_reduce: each value goes down by between 0 and its maximum, by at most `total` overall *)
Theorem ratio_reduce_bound total ratios maxs vals :
  length maxs = length ratios -> length vals = length ratios ->
  Forall (fun r => 0 <= r) ratios -> Forall (fun m => 0 <= m) maxs -> 0 <= total ->
  sumZ (zip_mask ratios maxs) <> 0 ->
  reduce_bound_b total maxs vals (ratio_reduce total ratios maxs vals) = true.
Proof.
  intros Hl1 Hl2 Hr Hm Ht Hs. unfold ratio_reduce.
  replace (sumZ (zip_mask ratios maxs) =? 0) with false by lia.
  rewrite reduce_loop_amounts.
  pose proof (zip_mask_length ratios maxs Hl1) as Hzl.
  destruct (amounts_bound (zip_mask ratios maxs) maxs total _ ltac:(lia) eq_refl (zip_mask_nonneg _ _ Hr) Hm Ht) as [A1 A2].
  cbv zeta in A1, A2.
  assert (Hal : length (amounts (zip_mask ratios maxs) maxs total (sumZ (zip_mask ratios maxs))) = length vals).
  { rewrite amounts_length; lia. }
  unfold reduce_bound_b. rewrite reduce_amounts_zsub by exact Hal. rewrite zsub_length by exact Hal.
  rewrite Nat.eqb_refl. rewrite (amt_ok_forall2b _ _ _ A1). simpl. lia.
Qed.

(* ... and by exactly `total` when no maximum can clip *)
Theorem ratio_reduce_sum total ratios maxs vals :
  length maxs = length ratios -> length vals = length ratios ->
  Forall (fun r => 0 <= r) ratios -> 0 <= total -> Forall (fun m => total <= m /\ m <> 0) maxs ->
  0 < sumZ ratios ->
  reduce_sum_b total vals (ratio_reduce total ratios maxs vals) = true.
Proof.
  intros Hl1 Hl2 Hr Ht Hm Hs. unfold ratio_reduce.
  rewrite zip_mask_id; [|exact Hl1|eapply Forall_impl; [|exact Hm]; simpl; tauto].
  replace (sumZ ratios =? 0) with false by lia.
  rewrite reduce_loop_amounts. unfold reduce_sum_b.
  rewrite reduce_amounts_zsub by (rewrite amounts_length; lia).
  rewrite amounts_sum; try assumption; try reflexivity.
  - replace (0 <? sumZ ratios) with true by lia. lia.
  - eapply Forall_impl; [|exact Hm]. simpl. tauto.
Qed.

(* the docstring's "guaranteed to sum to total" is false as soon as a maximum clips *)
Theorem ratio_reduce_sum_clipped_refuted :
  exists total ratios maxs vals,
    0 <= total /\ Forall (fun r => 0 < r) ratios /\ Forall (fun m => 0 < m) maxs /\
    reduce_sum_b total vals (ratio_reduce total ratios maxs vals) = false.
Proof.
  exists 5, [1; 1], [1; 1], [4; 4].
  split; [lia|]. split; [repeat constructor; lia|]. split; [repeat constructor; lia|].
  vm_compute. reflexivity.
Qed.

(* ------------------------------------------------------------------ Table._collapse_widths *)
Lemma fold_left_max_spec : forall r x,
  let m := fold_left Z.max r x in (m = x \/ In m r) /\ x <= m /\ Forall (fun y => y <= m) r.
Proof.
  induction r as [|y r IH]; intros x; simpl.
  - repeat split; [left; reflexivity|lia|constructor].
  - destruct (IH (Z.max x y)) as [H1 [H2 H3]]. repeat split.
    + destruct H1 as [H1|H1]; [|right; right; exact H1].
      destruct (Z.max_spec x y) as [[_ E]|[_ E]]; rewrite E in *; [right; left; symmetry; exact H1|left; exact H1].
    + lia.
    + constructor; [lia|exact H3].
Qed.

Lemma max_list_spec l m : max_list l = Some m -> In m l /\ Forall (fun y => y <= m) l.
Proof.
  destruct l as [|x r]; [discriminate|]. simpl. intros H. injection H as <-.
  destruct (fold_left_max_spec r x) as [H1 [H2 H3]]. cbv zeta in *. split.
  - destruct H1 as [H1|H1]; [left; symmetry; exact H1|right; exact H1].
  - constructor; assumption.
Qed.

Lemma max_list_some l : l <> [] -> exists m, max_list l = Some m.
Proof. destruct l; [congruence|]. intros _. eexists. reflexivity. Qed.

(* relation between the widths before and after (a step of) the collapse *)
Inductive step_ok : list Z -> list bool -> list Z -> Prop :=
| so_nil : step_ok [] [] []
| so_cons w a o ws al os : 0 <= o <= w -> (a = false -> o = w) -> step_ok ws al os ->
                           step_ok (w :: ws) (a :: al) (o :: os).

Lemma step_ok_refl : forall ws al, length al = length ws -> Forall (fun w => 0 <= w) ws -> step_ok ws al ws.
Proof.
  induction ws as [|w ws IH]; intros [|a al] Hl Hw; try discriminate; [constructor|].
  inversion Hw; subst. constructor; [lia|reflexivity|]. apply IH; [simpl in Hl; lia|assumption].
Qed.

Lemma step_ok_trans : forall ws al os, step_ok ws al os -> forall ps, step_ok os al ps -> step_ok ws al ps.
Proof.
  induction 1 as [|w a o ws al os H1 H2 _ IH]; intros ps Hp; inversion Hp; subst; constructor.
  - lia.
  - intros Ha. specialize (H2 Ha). match goal with H : a = false -> _ |- _ => specialize (H Ha) end. lia.
  - apply IH. assumption.
Qed.

Lemma step_ok_facts : forall ws al os, step_ok ws al os ->
  length os = length ws /\ length al = length ws /\ Forall (fun o => 0 <= o) os /\
  forall2b (fun w r => (0 <=? r) && (r <=? w)) ws os = true /\
  forall2b (fun '(w, a) r => a || (r =? w)) (combine ws al) os = true /\
  sumZ os <= sumZ ws.
Proof.
  induction 1 as [|w a o ws al os H1 H2 _ IH].
  - repeat split; try constructor; try reflexivity.
  - destruct IH as [I1 [I2 [I3 [I4 [I5 I6]]]]]. rewrite !sumZ_cons. cbn [length combine forall2b].
    repeat split; try lia.
    + constructor; [lia|exact I3].
    + rewrite I4. lia.
    + rewrite I5. destruct a; [reflexivity|]. rewrite H2 by reflexivity. rewrite Z.eqb_refl. reflexivity.
Qed.

Lemma sumZ_zsub : forall ws al, length al = length ws -> sumZ (zsub ws al) = sumZ ws - sumZ al.
Proof.
  induction ws as [|w ws IH]; intros [|a al] H; try discriminate; [reflexivity|].
  cbn [zsub]. rewrite !sumZ_cons, IH by (simpl in H; lia). lia.
Qed.

Lemma step_ok_of_amounts : forall ws wr ms al M,
  length wr = length ws -> amt_ok (max_ratios ws wr M) ms al ->
  Forall (fun m => m <= M) ms -> Forall (fun w => 0 <= w) ws -> step_ok ws wr (zsub ws al).
Proof.
  induction ws as [|w ws IH]; intros [|a wr] ms al M Hl Ha Hm Hw; try discriminate.
  - inversion Ha; subst. constructor.
  - unfold max_ratios, zipw in Ha. cbn [combine map] in Ha. inversion Ha as [|r m x rs ms' al' Hx Hr0 Hrest]; subst.
    inversion Hm; subst. inversion Hw; subst. cbn [zsub]. constructor.
    + destruct ((w =? M) && a) eqn:E; [lia|]. rewrite Hr0 by reflexivity. lia.
    + intros ->. rewrite andb_false_r in Hr0. rewrite Hr0 by reflexivity. lia.
    + apply (IH wr ms' al' M); [simpl in Hl; lia|exact Hrest|assumption|assumption].
Qed.

Lemma sel_wrapable_cons w a ws al :
  sel_wrapable (w :: ws) (a :: al) = if a then w :: sel_wrapable ws al else sel_wrapable ws al.
Proof. unfold sel_wrapable, zipw. simpl. destruct a; reflexivity. Qed.

Lemma sel_nonempty : forall ws al, length al = length ws -> existsb (fun b => b) al = true ->
  sel_wrapable ws al <> [].
Proof.
  induction ws as [|w ws IH]; intros [|a al] Hl He; try discriminate.
  rewrite sel_wrapable_cons. destruct a; [discriminate|]. apply IH; [simpl in Hl; lia|exact He].
Qed.

Lemma sel_in_widths : forall ws al x, In x (sel_wrapable ws al) -> In x ws.
Proof.
  induction ws as [|w ws IH]; intros [|a al] x H; try (unfold sel_wrapable, zipw in H; simpl in H; contradiction).
  - rewrite sel_wrapable_cons in H. destruct a; [destruct H as [->|H]; [left; reflexivity|right; eauto]|right; eauto].
Qed.

(* ratios of the maximal columns: 0/1, and at least one 1 *)
Lemma max_ratios_facts : forall ws al M, length al = length ws ->
  Forall (fun r => 0 <= r) (max_ratios ws al M) /\ length (max_ratios ws al M) = length ws /\
  (In M (sel_wrapable ws al) -> 0 < sumZ (max_ratios ws al M)).
Proof.
  induction ws as [|w ws IH]; intros [|a al] M Hl; try discriminate.
  - repeat split; [constructor|]. intros [].
  - destruct (IH al M ltac:(simpl in Hl; lia)) as [I1 [I2 I3]].
    unfold max_ratios, zipw in *. cbn [combine map]. rewrite sumZ_cons. repeat split.
    + constructor; [destruct ((w =? M) && a); lia|exact I1].
    + simpl. f_equal. exact I2.
    + rewrite sel_wrapable_cons. pose proof (sumZ_nonneg _ I1) as Hs. intros Hin.
      destruct a.
      * destruct Hin as [->|Hin]; [rewrite Z.eqb_refl; cbn [andb]; lia|].
        specialize (I3 Hin). destruct ((w =? M) && true); lia.
      * rewrite andb_false_r. specialize (I3 Hin). lia.
Qed.

Lemma any_nonzero_of_pos l : 0 < sumZ l -> any_nonzero l = true.
Proof.
  induction l as [|x l IH]; [unfold sumZ; simpl; lia|].
  rewrite sumZ_cons. unfold any_nonzero in *. simpl. intros H.
  destruct (x =? 0) eqn:E; [simpl; apply IH; lia|reflexivity].
Qed.

(* the second maximum lies in [0, M), or is 0 = M *)
Lemma second_cands_facts : forall ws al M, length al = length ws ->
  Forall (fun w => 0 <= w) ws -> Forall (fun y => y <= M) (sel_wrapable ws al) -> 0 <= M ->
  Forall (fun c => 0 <= c /\ (c < M \/ c = 0)) (second_cands ws al M) /\
  length (second_cands ws al M) = length ws.
Proof.
  induction ws as [|w ws IH]; intros [|a al] M Hl Hw Hs HM; try discriminate.
  - split; [constructor|reflexivity].
  - inversion Hw; subst. rewrite sel_wrapable_cons in Hs.
    assert (Hs' : Forall (fun y => y <= M) (sel_wrapable ws al)) by (destruct a; [inversion Hs; assumption|exact Hs]).
    destruct (IH al M ltac:(simpl in Hl; lia) ltac:(assumption) Hs' HM) as [I1 I2].
    unfold second_cands, zipw in *. cbn [combine map]. split; [|simpl; f_equal; exact I2].
    constructor; [|exact I1].
    destruct a; simpl; [|lia]. inversion Hs; subst. destruct (w =? M) eqn:E; simpl; lia.
Qed.

Lemma collapse_step_spec ws al excess :
  length al = length ws -> Forall (fun w => 0 <= w) ws -> existsb (fun b => b) al = true -> 0 < excess ->
  (collapse_step ws al excess = Ok None /\ Forall (fun x => x <= 0) (sel_wrapable ws al))
  \/ (exists ws', collapse_step ws al excess = Ok (Some ws') /\ step_ok ws al ws' /\
                  sumZ ws - excess <= sumZ ws' <= sumZ ws - 1).
Proof.
  intros Hl Hw He Hex. unfold collapse_step.
  destruct (max_list_some _ (sel_nonempty ws al Hl He)) as [M HM]. rewrite HM.
  destruct (max_list_spec _ _ HM) as [HMin HMle].
  assert (HM0 : 0 <= M).
  { pose proof (sel_in_widths _ _ _ HMin) as Hin. rewrite Forall_forall in Hw. apply Hw. exact Hin. }
  destruct (second_cands_facts ws al M Hl Hw HMle HM0) as [Hc Hcl].
  assert (Hne : second_cands ws al M <> []).
  { intros E. rewrite E in Hcl. destruct ws; [destruct al; discriminate|discriminate]. }
  destruct (max_list_some _ Hne) as [S HS]. rewrite HS.
  destruct (max_list_spec _ _ HS) as [HSin _].
  rewrite Forall_forall in Hc. destruct (Hc S HSin) as [HS0 HS1].
  destruct (max_ratios_facts ws al M Hl) as [R1 [R2 R3]]. specialize (R3 HMin).
  rewrite (any_nonzero_of_pos _ R3). cbn [negb orb].
  destruct (M - S =? 0) eqn:Ed.
  - left. split; [reflexivity|]. eapply Forall_impl; [|exact HMle]. simpl. lia.
  - right. eexists. split; [reflexivity|].
    set (mr := Z.min excess (M - S)).
    assert (Hmr : 1 <= mr <= M) by (unfold mr; lia).
    set (maxs := repeat mr (length ws)).
    assert (Hml : length maxs = length (max_ratios ws al M)) by (unfold maxs; rewrite repeat_length; lia).
    assert (Hmall : forall P : Z -> Prop, P mr -> Forall P maxs).
    { intros P HP. apply Forall_forall. intros x Hx. apply repeat_spec in Hx. subst. exact HP. }
    assert (Hm0 : Forall (fun m => 0 <= m) maxs) by (apply Hmall; lia).
    assert (Hm1 : Forall (fun m => 1 <= m) maxs) by (apply Hmall; lia).
    assert (HmM : Forall (fun m => m <= M) maxs) by (apply Hmall; lia).
    assert (Hmz : Forall (fun m => m <> 0) maxs) by (apply Hmall; lia).
    unfold ratio_reduce. rewrite zip_mask_id; [|exact Hml|exact Hmz].
    replace (sumZ (max_ratios ws al M) =? 0) with false by lia.
    rewrite reduce_loop_amounts.
    destruct (amounts_bound (max_ratios ws al M) maxs excess _ Hml eq_refl R1 Hm0 ltac:(lia)) as [A1 A2].
    cbv zeta in A1, A2.
    pose proof (amounts_progress (max_ratios ws al M) maxs excess _ Hml eq_refl R3 R1 Hm1 ltac:(lia)) as A3.
    split.
    + apply (step_ok_of_amounts ws al maxs _ M Hl A1); [exact HmM|exact Hw].
    + rewrite sumZ_zsub by (rewrite amounts_length; lia). lia.
Qed.

(* the loop: never out of fuel once fuel exceeds the excess; the result is related to the input
   by step_ok, is not reduced below max_width, and the loop only stops when the widths fit or
   every wrapable column is down to nothing *)
Lemma collapse_loop_spec max_width al : forall fuel ws,
  length al = length ws -> Forall (fun w => 0 <= w) ws -> existsb (fun b => b) al = true ->
  (Z.to_nat (sumZ ws - max_width) < fuel)%nat ->
  exists out, collapse_loop fuel ws al max_width = Ok out /\ step_ok ws al out /\
              Z.min max_width (sumZ ws) <= sumZ out /\
              (sumZ out <= max_width \/ sumZ out = 0 \/ Forall (fun x => x <= 0) (sel_wrapable out al)).
Proof.
  induction fuel as [|f IH]; intros ws Hl Hw He Hf; [lia|].
  cbn [collapse_loop].
  destruct (negb (sumZ ws =? 0) && (0 <? sumZ ws - max_width)) eqn:E.
  - destruct (collapse_step_spec ws al (sumZ ws - max_width) Hl Hw He ltac:(lia)) as [[H1 H2]|[ws' [H1 [H2 H3]]]].
    + rewrite H1. exists ws. repeat split; [apply step_ok_refl; assumption|lia|right; right; exact H2].
    + rewrite H1. destruct (step_ok_facts _ _ _ H2) as [F1 [F2 [F3 _]]].
      destruct (IH ws' ltac:(lia) F3 He ltac:(lia)) as [out [O1 [O2 [O3 O4]]]].
      exists out. repeat split; [exact O1|eapply step_ok_trans; eassumption|lia|exact O4].
  - exists ws. repeat split; [apply step_ok_refl; assumption|lia|].
    destruct (sumZ ws =? 0) eqn:E0; [right; left; lia|left; simpl in E; lia].
Qed.

Lemma sel_all_wrapable : forall ws al, length al = length ws -> forallb (fun a => a) al = true ->
  sel_wrapable ws al = ws.
Proof.
  induction ws as [|w ws IH]; intros [|a al] Hl Ha; try discriminate; [reflexivity|].
  simpl in Ha. apply andb_true_iff in Ha as [-> Ha]. rewrite sel_wrapable_cons. f_equal.
  apply IH; [simpl in Hl; lia|exact Ha].
Qed.

Lemma sumZ_zero_of_bounds l : Forall (fun x => 0 <= x) l -> Forall (fun x => x <= 0) l -> sumZ l = 0.
Proof.
  induction 1 as [|x l Hx _ IH]; intros H2; [reflexivity|]. inversion H2; subst.
  rewrite sumZ_cons, IH by assumption. lia.
Qed.

(* Table._collapse_widths terminates (the model's own fuel, initial excess + 1, is enough) and
   meets its specification, for every width vector, wrapable mask and max_width *)
Theorem collapse_widths_spec ws al max_width :
  length al = length ws -> Forall (fun w => 0 <= w) ws ->
  exists out, collapse_widths ws al max_width = Ok out /\ collapse_ok_b ws al max_width out = true /\
              step_ok ws al out.
Proof.
  intros Hl Hw. unfold collapse_widths, collapse_widths_fuel, collapse_fuel.
  destruct (existsb (fun b => b) al) eqn:He.
  - destruct (collapse_loop_spec max_width al (S (Z.to_nat (sumZ ws - max_width))) ws Hl Hw He ltac:(lia))
      as [out [O1 [O2 [O3 O4]]]].
    exists out. split; [exact O1|]. split; [|exact O2].
    destruct (step_ok_facts _ _ _ O2) as [F1 [F2 [F3 [F4 [F5 F6]]]]].
    unfold collapse_ok_b. rewrite F1, Nat.eqb_refl, F4, F5. cbn [andb].
    apply andb_true_iff. split; [lia|].
    destruct (forallb (fun a => a) al && (0 <=? max_width) && (max_width <? sumZ ws)) eqn:Ec; [|reflexivity].
    apply andb_true_iff in Ec as [Ec Ec3]. apply andb_true_iff in Ec as [Ec1 Ec2].
    destruct O4 as [O4|[O4|O4]]; [lia|lia|].
    rewrite sel_all_wrapable in O4 by (try lia; assumption).
    rewrite (sumZ_zero_of_bounds out F3 O4) in *. lia.
  - exists ws. split; [reflexivity|]. split; [|apply step_ok_refl; assumption].
    destruct (step_ok_facts _ _ _ (step_ok_refl ws al Hl Hw)) as [F1 [F2 [F3 [F4 [F5 F6]]]]].
    unfold collapse_ok_b. rewrite Nat.eqb_refl, F4, F5. cbn [andb].
    apply andb_true_iff. split; [lia|].
    destruct al as [|a al].
    { destruct ws; [|discriminate]. change (sumZ []) with 0. cbn [forallb andb].
      destruct (0 <=? max_width) eqn:A, (max_width <? 0) eqn:B; simpl; try reflexivity; lia. }
    simpl in He. apply orb_false_iff in He as [-> _]. reflexivity.
Qed.

Corollary collapse_fuel_enough ws al max_width :
  length al = length ws -> Forall (fun w => 0 <= w) ws ->
  collapse_widths ws al max_width <> Crash K_OutOfFuel.
Proof.
  intros Hl Hw. destruct (collapse_widths_spec ws al max_width Hl Hw) as [out [H _]]. rewrite H. discriminate.
Qed.
