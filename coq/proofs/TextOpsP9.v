(* C05 proofs, part 9: slicing, split and Lines on top of the divide simulation. *)
From RichModel Require Import Prelude Cells TextOps SpecTextOps.
From RichProofs Require Import TextOpsP TextOpsP2 TextOpsP3 TextOpsP4 TextOpsP5 TextOpsSortP TextOpsP8.
From Coq Require Import Permutation Sorted ZifyBool Lia.

Arguments zlen : simpl never.
Arguments strip : simpl never.
Arguments ctl_free : simpl never.
Arguments span_split : simpl never.
Arguments divide : simpl never.

(* ---------- t[a:b] ---------- *)
Lemma slice_bounds_range n a b : 0 <= n ->
  let '(s, e) := slice_bounds n a b in 0 <= s <= n /\ 0 <= e <= n.
Proof.
  intros Hn. unfold slice_bounds, norm_idx. destruct a as [a|]; destruct b as [b|];
    repeat match goal with |- context [if ?c then _ else _] => destruct c eqn:? end; lia.
Qed.

Lemma stk_after n endo rems rest :
  Forall (fun x => estart x = endo /\ endo <= eend x /\ eend x <= n) rems -> StkOK n endo rest ->
  StkOK n endo (rev rems ++ rest).
Proof.
  intros S3 [S4a S4b]. split.
  - apply app_sorted; [|exact S4a|].
    + apply (const_sorted _ endo). apply (perm_Forall _ rems); [apply Permutation_rev|].
      eapply Forall_impl; [|exact S3]. simpl. tauto.
    + intros x y Hx Hy. apply in_rev in Hx. rewrite Forall_forall in S3, S4b.
      specialize (S3 x Hx). specialize (S4b y Hy). lia.
  - apply Forall_app. split; [|exact S4b]. apply (perm_Forall _ rems); [apply Permutation_rev|].
    eapply Forall_impl; [|exact S3]. simpl. intros; lia.
Qed.

Lemma py_slice_empty {A} (l : list A) s e : 0 <= s -> 0 <= e -> e <= s -> py_slice l s e = [].
Proof.
  intros Hs He Hes. apply zlen_zero. rewrite zlen_py_slice by assumption. pose proof (zlen_nonneg l). lia.
Qed.

Lemma sim_slice t a b : Consistent t -> sim (getitem_slice FIXED t a b) (Ok (r_slice (abs t) a b)).
Proof.
  intros H. destruct (cons_parts t H) as (H1 & H2 & H3). unfold getitem_slice, r_slice.
  rewrite zlen_rchars_abs. pose proof (slice_bounds_range (zlen (plain t)) a b (zlen_nonneg _)) as B.
  destruct (slice_bounds (zlen (plain t)) a b) as [s e]. destruct B as [Bs Be].
  destruct (Z.le_gt_cases s e) as [Hle|Hgt].
  - assert (sorted_from 0 [s; e] = true) as Hs by (simpl; lia).
    destruct (sim_divide t [s; e] H Hs) as [D1 D2].
    unfold r_divide in D1. change (rchars (abs t)) with (abs_from 0 (plain t) (spans t)) in *.
    change (pairs_of (0 :: [s; e] ++ [zlen (abs_from 0 (plain t) (spans t))]))
      with [(0, s); (s, e); (e, zlen (abs_from 0 (plain t) (spans t)))] in D1. simpl map in D1.
    destruct (divide FIXED t [s; e]) as [|l0 [|l1 [|l2 rest]]]; simpl in D1; try discriminate D1.
    injection D1 as E0 E1 E2 E3. unfold sim. split; [unfold abs; now rewrite E2, E3|]. inversion D2 as [|? ? _ D2']; subst. now inversion D2'.
  - (* start beyond stop: the middle line is cut from an emptied range *)
    unfold divide. change (fx_divide FIXED) with true. cbv iota.
    change (pairs_of (0 :: [s; e] ++ [zlen (plain t)])) with [(0, s); (s, e); (e, zlen (plain t))].
    destruct (stack0_ok (zlen (plain t)) (spans t) H3) as [Hok _].
    set (stk := rev (sort_desc (fun x : Z * span => sp_start (snd x)) (index_from 0 (spans t)))) in *.
    simpl div_lines.
    pose proof (div_take_spec (zlen (plain t)) 0 s (proj1 Bs) stk Hok) as S.
    destruct (div_take stk s) as [[adds rems] rest]. destruct S as (_ & _ & S3 & S4 & _).
    pose proof (stk_after _ _ _ _ S3 S4) as Hok'.
    rewrite (div_take_none (rev rems ++ rest) e).
    2:{ eapply Forall_impl; [|exact (proj2 Hok')]. simpl. intros; lia. }
    cbn [combine map]. unfold sim. rewrite ctor_fixed. rewrite !py_slice_empty by lia. split.
    + reflexivity.
    + apply mk_consistent; [reflexivity|reflexivity|constructor].
Qed.

(* ---------- split ---------- *)
Fixpoint gaps (n lo : Z) (ms : list Z) : Prop :=
  match ms with [] => True | m :: r => lo <= m /\ gaps n (m + n) r end.
Lemma gaps_mono n ms : forall lo lo', gaps n lo ms -> lo' <= lo -> gaps n lo' ms.
Proof. destruct ms; simpl; intros; [auto|]. destruct H. split; [lia|auto]. Qed.

Lemma find_from_gaps sep s : sep <> [] -> forall pos skip,
  gaps (zlen sep) (pos + Z.of_nat skip) (find_from sep s pos skip).
Proof.
  intros Hne. assert (1 <= zlen sep) as Hn.
  { destruct sep; [contradiction|]. rewrite zlen_cons. pose proof (zlen_nonneg sep). lia. }
  induction s as [|c s IH]; intros pos skip; simpl; [exact Logic.I|].
  destruct skip as [|k].
  - destruct (is_prefix sep (c :: s)).
    + simpl. split; [lia|]. eapply gaps_mono; [apply IH|]. unfold zlen in *. lia.
    + eapply gaps_mono; [apply IH|]. lia.
  - eapply gaps_mono; [apply IH|]. lia.
Qed.

Lemma gaps_sorted_incl n ms : 0 <= n -> forall lo, gaps n lo ms -> sorted_from lo (map (fun m => m + n) ms) = true.
Proof.
  intros Hn. induction ms as [|m ms IH]; intros lo H; [reflexivity|]. destruct H as [H1 H2]. simpl.
  rewrite (IH _ H2). lia.
Qed.
Lemma gaps_sorted_flat n ms : 0 <= n -> forall lo, gaps n lo ms ->
  sorted_from lo (flat_map (fun m => [m; m + n]) ms) = true.
Proof.
  intros Hn. induction ms as [|m ms IH]; intros lo H; [reflexivity|]. destruct H as [H1 H2]. simpl.
  rewrite (IH _ H2). lia.
Qed.

Lemma map_filter_abs (f : text -> bool) (g : ref -> bool) l : (forall x, f x = g (abs x)) ->
  map abs (filter f l) = filter g (map abs l).
Proof.
  intros E. induction l as [|x l IH]; [reflexivity|]. simpl. rewrite <- E. destruct (f x); simpl; now rewrite IH.
Qed.
Lemma map_removelast {A B} (f : A -> B) l : map f (removelast l) = removelast (map f l).
Proof.
  induction l as [|x l IH]; [reflexivity|]. destruct l as [|y l]; [reflexivity|].
  change (removelast (x :: y :: l)) with (x :: removelast (y :: l)).
  change (map f (x :: y :: l)) with (f x :: f y :: map f l).
  change (removelast (f x :: f y :: map f l)) with (f x :: removelast (f y :: map f l)).
  simpl map at 1. f_equal. exact IH.
Qed.
Lemma Forall_removelast {A} (P : A -> Prop) l : Forall P l -> Forall P (removelast l).
Proof.
  induction 1 as [|x l Hx Hl IH]; [constructor|]. destruct l; [constructor|].
  change (removelast (x :: a :: l)) with (x :: removelast (a :: l)). constructor; auto.
Qed.
Lemma Forall_filter {A} (P : A -> Prop) f l : Forall P l -> Forall P (filter f l).
Proof. induction 1; simpl; [constructor|]. destruct (f x); [constructor|]; auto. Qed.

Lemma blank_abs l : (match rchars (abs l) with [] => true | _ => false end) = (match plain l with [] => true | _ => false end).
Proof. unfold abs, abs_chars. simpl. destruct (plain l); reflexivity. Qed.

Lemma sim_split t sep incl allow : Consistent t -> sep <> [] ->
  exists ls, split FIXED t sep incl allow = Ok ls /\
             map abs ls = r_split (abs t) sep incl allow /\ Forall Consistent ls.
Proof.
  intros H Hne. destruct (cons_parts t H) as (H1 & H2 & H3). unfold split, r_split.
  destruct sep as [|c sep']; [contradiction|]. remember (c :: sep') as sep.
  change (rchars (abs t)) with (abs_from 0 (plain t) (spans t)). rewrite rplain_abs_from.
  pose proof (find_from_gaps sep (plain t) Hne 0 0%nat) as G. change (0 + Z.of_nat 0) with 0 in G.
  fold (find_all sep (plain t)) in G.
  destruct (find_all sep (plain t)) as [|m ms] eqn:Ef.
  - subst sep. destruct (sim_copy t H) as [A C]. eexists. split; [reflexivity|]. simpl. rewrite A.
    split; [reflexivity|constructor; [exact C|constructor]].
  - subst sep. remember (c :: sep') as sep. remember (m :: ms) as mss.
    assert (0 <= zlen sep) as Hn by apply zlen_nonneg.
    change (fx_split FIXED) with true. cbv iota.
    set (lines := if incl then divide FIXED t (map (fun m0 => m0 + zlen sep) mss)
                  else filter (fun l => negb (str_eqb (plain l) sep))
                              (divide FIXED t (flat_map (fun m0 => [m0; m0 + zlen sep]) mss))).
    set (rlines := if incl then r_divide (abs t) (map (fun m0 => m0 + zlen sep) mss)
                   else filter (fun l => negb (str_eqb (rplain (rchars l)) sep))
                               (r_divide (abs t) (flat_map (fun m0 => [m0; m0 + zlen sep]) mss))).
    assert (map abs lines = rlines /\ Forall Consistent lines) as [L1 L2].
    { unfold lines, rlines. destruct incl.
      - apply sim_divide; [exact H|]. now apply gaps_sorted_incl.
      - destruct (sim_divide t (flat_map (fun m0 => [m0; m0 + zlen sep]) mss) H) as [D1 D2];
          [now apply gaps_sorted_flat|].
        split; [|now apply Forall_filter]. rewrite <- D1. apply map_filter_abs.
        intros x. unfold abs, abs_chars. simpl. now rewrite rplain_abs_from. }
    destruct mss as [|m' ms']; [discriminate|].
    eexists. split; [reflexivity|].
    assert ((match rev rlines with l :: _ => match rchars l with [] => true | _ => false end | [] => false end)
            = (match rev lines with l :: _ => match plain l with [] => true | _ => false end | [] => false end)) as Ep.
    { rewrite <- L1, <- map_rev. destruct (rev lines) as [|l ?]; [reflexivity|]. simpl map. apply blank_abs. }
    fold rlines. rewrite Ep.
    destruct (negb allow && match rev lines with l :: _ => match plain l with [] => true | _ => false end | [] => false end).
    + split; [now rewrite map_removelast, L1|now apply Forall_removelast].
    + split; assumption.
Qed.

(* ---------- picking one line ---------- *)
Lemma pick_map (ls : list text) k :
  match pick ls k, pick (map abs ls) k with
  | Ok l, Ok r => abs l = r /\ In l ls
  | Crash a, Crash b => a = b
  | _, _ => False
  end.
Proof.
  unfold pick. destruct (k <? 0); [reflexivity|]. rewrite nth_error_map.
  destruct (nth_error ls (Z.to_nat k)) eqn:E; simpl; [|reflexivity]. split; [reflexivity|]. eapply nth_error_In. exact E.
Qed.

Lemma sim_divide_pick t offs k : Consistent t -> sorted_from 0 offs = true ->
  sim (pick (divide FIXED t offs) k) (pick (r_divide (abs t) offs) k).
Proof.
  intros H Hs. destruct (sim_divide t offs H Hs) as [D1 D2]. rewrite <- D1.
  pose proof (pick_map (divide FIXED t offs) k) as P.
  destruct (pick (divide FIXED t offs) k); destruct (pick (map abs (divide FIXED t offs)) k); simpl; try contradiction; auto.
  destruct P as [P1 P2]. split; [exact P1|]. rewrite Forall_forall in D2. auto.
Qed.

Lemma sim_split_pick t sep incl allow k : Consistent t ->
  sim (do ls <- split FIXED t sep incl allow; pick ls k)
      (match sep with [] => Crash K_AssertionError | _ => pick (r_split (abs t) sep incl allow) k end).
Proof.
  intros H. destruct sep as [|c sep']; [reflexivity|].
  destruct (sim_split t (c :: sep') incl allow H) as (ls & E & S1 & S2); [discriminate|].
  rewrite E. simpl bind. rewrite <- S1. pose proof (pick_map ls k) as P.
  destruct (pick ls k); destruct (pick (map abs ls) k); simpl; try contradiction; auto.
  destruct P as [P1 P2]. split; [exact P1|]. rewrite Forall_forall in S2. auto.
Qed.
