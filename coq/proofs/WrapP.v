(* Proofs for L2 (C02), part 1: rich/_wrap.py.
   words tiles the string; divide_line offsets are sorted; with fold every line, right-stripped,
   fits; a break that is not a word start lies inside an over-long word; pieces of a monotone
   offset list concatenate back. *)
From RichModel Require Import Prelude Cells Wrap.
From RichGen Require Import UnicodeSpace WrapFacts.
From RichProofs Require Import CellsP.
From Coq Require Import ZifyBool.

(* the lines a string is cut into by a list of offsets *)
Definition line_pieces (s : str) (offs : list Z) : list str :=
  map (fun r => zslice s (fst r) (snd r)) (zip_ranges (0 :: offs ++ [zlen s])).

Fixpoint mono_from (a : Z) (l : list Z) : Prop :=
  match l with [] => True | b :: r => a <= b /\ mono_from b r end.

(* ------------------------------------------------------------------ 0. pins of the source facts *)
Example re_word_src_ok : re_word_src = lit "\s*\S+\s*".
Proof. vm_compute. reflexivity. Qed.
Example re_whitespace_src_ok : re_whitespace_src = lit "\s+$".
Proof. vm_compute. reflexivity. Qed.
Example strip_codes_ok : STRIP_CONTROL_CODES = [8; 11; 12; 13].
Proof. reflexivity. Qed.
Example wrap_split_allow_blank_ok : wrap_split_allow_blank = true.
Proof. reflexivity. Qed.
Example wrap_fold_iff_overflow_fold_ok : wrap_fold_iff_overflow_fold = true.
Proof. reflexivity. Qed.
Example wrap_truncate_pads_ok : wrap_truncate_pads = false.
Proof. reflexivity. Qed.
Example justify_truncate_pads_ok : justify_truncate_pads = [true; false; false].
Proof. reflexivity. Qed.
Example chop_position_is_line_position_ok : chop_position_is_line_position = true.
Proof. reflexivity. Qed.
Example ELLIPSIS_ok : ELLIPSIS = 8230.
Proof. reflexivity. Qed.
Example DEFAULT_JUSTIFY_src_ok : DEFAULT_JUSTIFY_src = lit "default".
Proof. vm_compute. reflexivity. Qed.
Example DEFAULT_OVERFLOW_src_ok : DEFAULT_OVERFLOW_src = lit "fold".
Proof. vm_compute. reflexivity. Qed.
Example wrap_pass_order_ok :
  wrap_pass_order = map lit ["expand_tabs"; "divide"; "rstrip_end"; "justify"; "truncate"].
Proof. vm_compute. reflexivity. Qed.

(* ------------------------------------------------------------------ whitespace scanners *)
Definition has_ns (s : str) : Prop := exists c, In c s /\ is_space c = false.
Definition all_sp (s : str) : Prop := forall c, In c s -> is_space c = true.

Lemma all_sp_forallb s : all_sp s <-> forallb is_space s = true.
Proof. unfold all_sp. rewrite forallb_forall. reflexivity. Qed.

Lemma all_sp_nil : all_sp [].
Proof. intros c []. Qed.

Lemma all_sp_app a b : all_sp a -> all_sp b -> all_sp (a ++ b).
Proof. intros Ha Hb c Hc. apply in_app_or in Hc as [Hc|Hc]; [apply Ha|apply Hb]; exact Hc. Qed.

Lemma all_sp_rev a : all_sp a -> all_sp (rev a).
Proof. intros Ha c Hc. apply Ha. apply in_rev. exact Hc. Qed.

Lemma has_ns_rev a : has_ns a -> has_ns (rev a).
Proof. intros [c [Hi Hs]]. exists c. split; [rewrite <- in_rev; exact Hi|exact Hs]. Qed.

Lemma has_ns_nonnil a : has_ns a -> a <> [].
Proof. intros [c [Hi _]] ->. exact Hi. Qed.

Lemma take_drop_space s : s = take_space s ++ drop_space s.
Proof.
  induction s as [|c s IH]; [reflexivity|].
  cbn [take_space drop_space]. destruct (is_space c); [cbn [app]; f_equal; exact IH|reflexivity].
Qed.

Lemma take_drop_word s : s = take_word s ++ drop_word s.
Proof.
  induction s as [|c s IH]; [reflexivity|].
  cbn [take_word drop_word]. destruct (is_space c); [reflexivity|cbn [app]; f_equal; exact IH].
Qed.

Lemma take_space_all s : all_sp (take_space s).
Proof.
  induction s as [|c s IH]; [apply all_sp_nil|].
  cbn [take_space]. destruct (is_space c) eqn:E; [|apply all_sp_nil].
  intros x [<-|Hx]; [exact E|apply IH; exact Hx].
Qed.

Lemma drop_space_head s :
  drop_space s = [] \/ exists c r, drop_space s = c :: r /\ is_space c = false.
Proof.
  induction s as [|c s IH]; [left; reflexivity|].
  cbn [drop_space]. destruct (is_space c) eqn:E; [exact IH|].
  right. exists c, s. split; [reflexivity|exact E].
Qed.

Lemma drop_space_nil s : drop_space s = [] -> all_sp s.
Proof.
  induction s as [|c s IH]; intros H; [apply all_sp_nil|].
  cbn [drop_space] in H. destruct (is_space c) eqn:E; [|discriminate].
  intros x [<-|Hx]; [exact E|apply IH; assumption].
Qed.

Lemma drop_space_app_all x y : all_sp x -> drop_space (x ++ y) = drop_space y.
Proof.
  induction x as [|c x IH]; intros H; [reflexivity|].
  cbn [app drop_space]. rewrite (H c (or_introl eq_refl)).
  apply IH. intros z Hz. apply H. right. exact Hz.
Qed.

Lemma drop_space_app_ns x y : has_ns x -> drop_space (x ++ y) = drop_space x ++ y.
Proof.
  induction x as [|c x IH]; intros H; [destruct H as [z [[] _]]|].
  cbn [app drop_space]. destruct (is_space c) eqn:E; [|reflexivity].
  apply IH. destruct H as [z [[<-|Hz] Hs]]; [congruence|]. exists z. split; assumption.
Qed.

Lemma take_word_head s c b : take_word s = c :: b -> is_space c = false.
Proof.
  destruct s as [|x s]; cbn [take_word]; [discriminate|].
  destruct (is_space x) eqn:E; [discriminate|]. intros H. inversion H; subst. exact E.
Qed.

(* ------------------------------------------------------------------ str.rstrip *)
Lemma rstrip_app_ns a b : has_ns b -> rstrip (a ++ b) = a ++ rstrip b.
Proof.
  intros H. unfold rstrip. rewrite rev_app_distr.
  rewrite drop_space_app_ns by (apply has_ns_rev; exact H).
  rewrite rev_app_distr, rev_involutive. reflexivity.
Qed.

Lemma rstrip_app_all a t : all_sp t -> rstrip (a ++ t) = rstrip a.
Proof.
  intros H. unfold rstrip. rewrite rev_app_distr.
  rewrite drop_space_app_all by (apply all_sp_rev; exact H). reflexivity.
Qed.

(* rstrip s is a prefix of s and what is cut off is whitespace *)
Lemma rstrip_split s : exists tail, s = rstrip s ++ tail /\ all_sp tail.
Proof.
  exists (rev (take_space (rev s))). split.
  - pose proof (take_drop_space (rev s)) as H. apply (f_equal (@rev Z)) in H.
    rewrite rev_involutive, rev_app_distr in H. exact H.
  - apply all_sp_rev. apply take_space_all.
Qed.

Lemma rstrip_le s : cell_len (rstrip s) <= cell_len s.
Proof.
  destruct (rstrip_split s) as [t [H _]]. rewrite H at 2. rewrite cell_len_app.
  pose proof (cell_len_nonneg t). lia.
Qed.

Lemma rstrip_all s : all_sp s -> rstrip s = [].
Proof. intros H. rewrite <- (app_nil_l s). rewrite rstrip_app_all by exact H. reflexivity. Qed.

(* ------------------------------------------------------------------ 1. _wrap.words *)
Lemma match_word_some rest w rest' : match_word rest = Some (w, rest') ->
  rest = w ++ rest' /\ has_ns w /\
  (rest' = [] \/ exists c r, rest' = c :: r /\ is_space c = false).
Proof.
  unfold match_word.
  destruct (take_word (drop_space rest)) as [|b0 b] eqn:Eb; [discriminate|].
  intros H. inversion H as [[Hw Hr]]. clear H. split; [|split].
  - rewrite <- app_assoc. cbn [app]. rewrite <- app_assoc.
    rewrite <- (take_drop_space (drop_word (drop_space rest))).
    change (b0 :: b ++ drop_word (drop_space rest)) with ((b0 :: b) ++ drop_word (drop_space rest)).
    rewrite <- Eb. rewrite <- (take_drop_word (drop_space rest)).
    apply take_drop_space.
  - exists b0. split; [|apply (take_word_head _ _ _ Eb)].
    apply in_or_app. right. left. reflexivity.
  - apply drop_space_head.
Qed.

Lemma match_word_none rest : match_word rest = None -> all_sp rest.
Proof.
  unfold match_word.
  destruct (take_word (drop_space rest)) as [|b0 b] eqn:Eb; [|discriminate].
  intros _. destruct (drop_space_head rest) as [H|[c [r [H Hs]]]].
  - apply drop_space_nil. exact H.
  - rewrite H in Eb. cbn [take_word] in Eb. rewrite Hs in Eb. discriminate.
Qed.

(* consecutive (start, end, word) triples starting at pos; every word has a non-space character *)
Fixpoint words_chain (pos : Z) (l : list (Z * Z * str)) : Prop :=
  match l with
  | [] => True
  | (st, e, wd) :: r => st = pos /\ e = pos + zlen wd /\ has_ns wd /\ words_chain e r
  end.

(* only the first word can start with whitespace *)
Definition no_lead (x : Z * Z * str) : Prop :=
  match snd x with [] => False | c :: _ => is_space c = false end.

Lemma words_go_spec : forall fuel rest pos, (length rest < fuel)%nat ->
  exists tail, rest = concat (map snd (words_go fuel rest pos)) ++ tail /\ all_sp tail /\
               words_chain pos (words_go fuel rest pos) /\
               Forall no_lead (tl (words_go fuel rest pos)).
Proof.
  induction fuel as [|f IH]; intros rest pos Hf; [lia|].
  cbn [words_go]. destruct (match_word rest) as [[w rest']|] eqn:Em.
  - destruct (match_word_some _ _ _ Em) as [Hr [Hns Hhd]].
    assert (Hw : w <> []) by (apply has_ns_nonnil; exact Hns).
    assert (Hl : (length rest' < f)%nat).
    { rewrite Hr, app_length in Hf. destruct w; [congruence|]. simpl in Hf. lia. }
    destruct (IH rest' (pos + zlen w) Hl) as [tail [H1 [H2 [H3 H4]]]].
    exists tail. cbn [map concat snd tl]. split; [|split; [|split]].
    + rewrite <- app_assoc, <- H1. exact Hr.
    + exact H2.
    + cbn [words_chain]. repeat split; try assumption.
    + (* the next word starts where drop_space stopped *)
      destruct f as [|f']; [constructor|]. cbn [words_go] in *.
      destruct (match_word rest') as [[w2 rest2]|] eqn:Em2; [|constructor].
      constructor; [|exact H4].
      destruct (match_word_some _ _ _ Em2) as [Hr2 [Hns2 _]].
      unfold no_lead. cbn [snd].
      destruct Hhd as [->|[c [r [-> Hc]]]].
      * destruct w2; [apply (has_ns_nonnil _ Hns2); reflexivity|discriminate].
      * destruct w2 as [|c2 w2]; [apply (has_ns_nonnil _ Hns2); reflexivity|].
        cbn [app] in Hr2. inversion Hr2; subst. exact Hc.
  - exists rest. cbn [map concat app tl]. split; [reflexivity|]. split; [|split; [exact Logic.I|constructor]].
    apply match_word_none. exact Em.
Qed.

Lemma words_spec s :
  exists tail, s = concat (map snd (words s)) ++ tail /\ all_sp tail /\
               words_chain 0 (words s) /\ Forall no_lead (tl (words s)).
Proof. unfold words. apply words_go_spec. lia. Qed.

(* the fuel is sufficient and the words tile the string up to trailing whitespace *)
Lemma words_concat : forall s,
  exists tail, s = concat (map snd (words s)) ++ tail /\ forallb is_space tail = true.
Proof.
  intros s. destruct (words_spec s) as [tail [H1 [H2 _]]].
  exists tail. split; [exact H1|]. apply all_sp_forallb. exact H2.
Qed.

Lemma words_chain_0 s : words_chain 0 (words s).
Proof. destruct (words_spec s) as [tail [_ [_ [H _]]]]. exact H. Qed.

Lemma words_no_lead s : Forall no_lead (tl (words s)).
Proof. destruct (words_spec s) as [tail [_ [_ [_ H]]]]. exact H. Qed.

Lemma words_chain_ends : forall l pos x, words_chain pos l -> In x l ->
  snd (fst x) = fst (fst x) + zlen (snd x) /\ has_ns (snd x) /\ pos <= fst (fst x).
Proof.
  induction l as [|[[st e] wd] l IH]; intros pos x Hc Hi; [destruct Hi|].
  cbn [words_chain] in Hc. destruct Hc as [-> [-> [Hns Hc]]].
  destruct Hi as [<-|Hi].
  - cbn [fst snd]. repeat split; [assumption|lia].
  - destruct (IH _ x Hc Hi) as [A [B C]]. repeat split; try assumption.
    unfold zlen in *. lia.
Qed.

(* ------------------------------------------------------------------ 5. slices of a monotone offset list *)
Lemma zlen_app {A} (a b : list A) : zlen (a ++ b) = zlen a + zlen b.
Proof. unfold zlen. rewrite app_length. lia. Qed.

Lemma zlen_nonneg {A} (a : list A) : 0 <= zlen a.
Proof. unfold zlen. lia. Qed.

Lemma zlen_cons {A} (x : A) (a : list A) : zlen (x :: a) = 1 + zlen a.
Proof. unfold zlen. cbn [length]. lia. Qed.

Lemma firstn_skipn_add {A} : forall n m (t : list A),
  firstn n t ++ firstn m (skipn n t) = firstn (n + m) t.
Proof.
  induction n as [|n IH]; intros m t; [reflexivity|].
  destruct t as [|x t]; [cbn; rewrite firstn_nil; reflexivity|].
  cbn [firstn skipn Nat.add app]. f_equal. apply IH.
Qed.

Lemma skipn_skipn {A} : forall n m (t : list A), skipn m (skipn n t) = skipn (n + m) t.
Proof.
  induction n as [|n IH]; intros m t; [reflexivity|].
  destruct t as [|x t]; [cbn; rewrite skipn_nil; reflexivity|].
  cbn [skipn Nat.add]. apply IH.
Qed.

Lemma zslice_join s a b c : 0 <= a -> a <= b -> b <= c ->
  zslice s a b ++ zslice s b c = zslice s a c.
Proof.
  intros Ha Hab Hbc. unfold zslice.
  replace (Z.to_nat b) with (Z.to_nat a + Z.to_nat (b - a))%nat by lia.
  rewrite <- skipn_skipn. rewrite firstn_skipn_add. f_equal. lia.
Qed.

Lemma zslice_full s : zslice s 0 (zlen s) = s.
Proof.
  unfold zslice, zlen. cbn [Z.to_nat skipn]. rewrite Z.sub_0_r, Nat2Z.id. apply firstn_all.
Qed.

Lemma zslice_empty s a : zslice s a a = [].
Proof. unfold zslice. rewrite Z.sub_diag. reflexivity. Qed.

Lemma mono_from_last : forall l a z, mono_from a (l ++ [z]) -> a <= z.
Proof.
  induction l as [|b l IH]; intros a z Hm; cbn [app mono_from] in Hm; destruct Hm as [Hab Hm]; [exact Hab|].
  specialize (IH _ _ Hm). lia.
Qed.

Lemma zip_ranges_concat s z : forall l a, 0 <= a -> mono_from a (l ++ [z]) ->
  concat (map (fun r => zslice s (fst r) (snd r)) (zip_ranges (a :: l ++ [z]))) = zslice s a z.
Proof.
  induction l as [|b l IH]; intros a Ha Hm.
  - cbn. apply app_nil_r.
  - cbn [app mono_from] in Hm. destruct Hm as [Hab Hm].
    pose proof (mono_from_last _ _ _ Hm) as Hbz.
    change (zip_ranges (a :: (b :: l) ++ [z])) with ((a, b) :: zip_ranges (b :: l ++ [z])).
    cbn [map concat fst snd]. rewrite IH by (try assumption; lia).
    apply zslice_join; lia.
Qed.

Lemma line_pieces_concat : forall s offs,
  mono_from 0 (offs ++ [zlen s]) -> concat (line_pieces s offs) = s.
Proof.
  intros s offs Hm. unfold line_pieces. rewrite zip_ranges_concat by (try assumption; lia).
  apply zslice_full.
Qed.

(* ------------------------------------------------------------------ offsets as cumulative lengths *)
(* end offsets of consecutive lines, the first one starting at a *)
Fixpoint cums (a : Z) (ls : list str) : list Z :=
  match ls with [] => [] | l :: r => (a + zlen l) :: cums (a + zlen l) r end.

Lemma cums_app : forall x a y, cums a (x ++ y) = cums a x ++ cums (a + zlen (concat x)) y.
Proof.
  induction x as [|l x IH]; intros a y.
  - cbn [app cums concat]. change (zlen (@nil Z)) with 0. rewrite Z.add_0_r. reflexivity.
  - cbn [app cums concat]. rewrite IH, zlen_app. cbn [app]. do 3 f_equal. lia.
Qed.

Lemma cums_bounds : forall X a o, In o (cums a X) -> a <= o <= a + zlen (concat X).
Proof.
  induction X as [|l X IH]; intros a o Hi; [destruct Hi|].
  cbn [cums concat] in *. rewrite zlen_app.
  pose proof (zlen_nonneg l). pose proof (zlen_nonneg (concat X)).
  destruct Hi as [<-|Hi]; [lia|]. specialize (IH _ _ Hi). lia.
Qed.

Lemma cums_mono : forall X a k, 0 <= k -> mono_from a (cums a X ++ [a + zlen (concat X) + k]).
Proof.
  induction X as [|l X IH]; intros a k Hk.
  - cbn. change (zlen (@nil Z)) with 0. lia.
  - cbn [cums concat app mono_from]. pose proof (zlen_nonneg l). split; [lia|].
    rewrite zlen_app. replace (a + (zlen l + zlen (concat X)) + k) with (a + zlen l + zlen (concat X) + k) by lia.
    apply IH. exact Hk.
Qed.

Lemma zslice_mid pre d rest : zslice (pre ++ d ++ rest) (zlen pre) (zlen pre + zlen d) = d.
Proof.
  unfold zslice, zlen. replace (Z.of_nat (length pre) + Z.of_nat (length d) - Z.of_nat (length pre))
    with (Z.of_nat (length d)) by lia.
  rewrite !Nat2Z.id. rewrite skipn_app, skipn_all, Nat.sub_diag. cbn [skipn app].
  rewrite firstn_app, firstn_all, Nat.sub_diag. cbn [firstn]. apply app_nil_r.
Qed.

Lemma pieces_cums s : forall done pre last, s = pre ++ concat done ++ last ->
  map (fun r => zslice s (fst r) (snd r)) (zip_ranges (zlen pre :: cums (zlen pre) done ++ [zlen s]))
  = done ++ [last].
Proof.
  induction done as [|d done IH]; intros pre last Hs.
  - cbn [cums app zip_ranges map fst snd concat] in *. f_equal.
    rewrite Hs at 1. rewrite <- (app_nil_r last) at 1.
    replace (zlen s) with (zlen pre + zlen last) by (rewrite Hs, zlen_app; reflexivity).
    apply zslice_mid.
  - cbn [cums concat] in *.
    change (zip_ranges (zlen pre :: (zlen pre + zlen d :: cums (zlen pre + zlen d) done) ++ [zlen s]))
      with ((zlen pre, zlen pre + zlen d) :: zip_ranges (zlen pre + zlen d :: cums (zlen pre + zlen d) done ++ [zlen s])).
    cbn [map fst snd app]. f_equal.
    + rewrite Hs, <- app_assoc. apply zslice_mid.
    + rewrite <- zlen_app. apply IH. rewrite Hs, <- !app_assoc. reflexivity.
Qed.

Lemma line_pieces_cums done last :
  line_pieces (concat done ++ last) (cums 0 done) = done ++ [last].
Proof.
  unfold line_pieces. change 0 with (zlen (@nil Z)). apply (pieces_cums _ done [] last). reflexivity.
Qed.

(* ------------------------------------------------------------------ chop_cells with a start position *)
(* first piece q: empty or fits in what is left of the line; later pieces: non-empty and fit;
   there is a later piece as soon as position + width of the text overflows *)
Lemma chop_go_shape : forall chars m t cur done,
  exists q qs,
    chop_go chars m t cur done = rev done ++ (rev cur ++ q) :: qs /\
    concat (q :: qs) = chars /\
    Forall (fun p => p <> [] /\ (2 <= m -> cell_len p <= m)) qs /\
    (q = [] \/ t + cell_len q <= m) /\
    (chars <> [] -> m < t + cell_len chars -> qs <> []).
Proof.
  induction chars as [|c chars IH]; intros m t cur done.
  - exists [], []. cbn [chop_go rev]. rewrite app_nil_r.
    repeat split; [constructor|left; reflexivity|congruence].
  - cbn [chop_go]. pose proof (char_size_range c) as Hc.
    destruct (m <? t + char_size c) eqn:E.
    + destruct (IH m (char_size c) [c] (rev cur :: done)) as [q [qs [H1 [H2 [H3 [H4 H5]]]]]].
      exists [], ((c :: q) :: qs). rewrite H1. cbn [rev app]. rewrite app_nil_r, <- app_assoc.
      cbn [app concat] in *. repeat split.
      * rewrite H2. reflexivity.
      * constructor; [|exact H3]. split; [discriminate|]. intros Hm.
        rewrite cell_len_cons. destruct H4 as [->|H4]; [change (cell_len []) with 0|]; lia.
      * left; reflexivity.
      * discriminate.
    + destruct (IH m (t + char_size c) (c :: cur) done) as [q [qs [H1 [H2 [H3 [H4 H5]]]]]].
      exists (c :: q), qs. rewrite H1. cbn [rev app]. rewrite <- app_assoc.
      cbn [app concat] in *. repeat split.
      * rewrite H2. reflexivity.
      * exact H3.
      * right. rewrite cell_len_cons. destruct H4 as [->|H4]; [change (cell_len []) with 0|]; lia.
      * intros _ Hov. rewrite cell_len_cons in Hov. apply H5; [|lia].
        intros ->. change (cell_len []) with 0 in Hov. lia.
Qed.

Lemma chop_cells_shape s m t :
  exists q qs,
    chop_cells s m t = q :: qs /\ q ++ concat qs = s /\
    Forall (fun p => p <> [] /\ (2 <= m -> cell_len p <= m)) qs /\
    (q = [] \/ t + cell_len q <= m) /\
    (s <> [] -> m < t + cell_len s -> qs <> []).
Proof.
  unfold chop_cells.
  destruct (chop_go_shape s m t [] []) as [q [qs H]]. exists q, qs. exact H.
Qed.

(* the loop_last loop: every piece but the last emits its end offset *)
Lemma chop_offsets_snoc : forall ps last start divs lp,
  chop_offsets (ps ++ [last]) start divs lp = (cell_len last, rev (cums start ps) ++ divs).
Proof.
  induction ps as [|p ps IH]; intros last start divs lp; [reflexivity|].
  cbn [cums rev]. rewrite <- app_assoc. cbn [app]. rewrite <- (IH last (start + zlen p) (start + zlen p :: divs) lp).
  destruct ps; reflexivity.
Qed.

Lemma list_snoc {A} (l : list A) : l = [] \/ exists l0 x, l = l0 ++ [x].
Proof.
  destruct l as [|a l]; [left; reflexivity|right].
  assert (H : a :: l <> []) by discriminate.
  destruct (exists_last H) as [l0 [x Hx]]. exists l0, x. exact Hx.
Qed.

(* ------------------------------------------------------------------ the divide_line loop *)
Definition fits (w : Z) (p : str) : Prop := cell_len (rstrip p) <= w.

(* pre = the text consumed so far = completed lines ++ current line; the emitted offsets are the
   ends of the completed lines; with fold (and width >= 2) line_position is the cell width of
   the current line and every line, right-stripped, fits *)
Definition Inv (w : Z) (fold : bool) (pre : str) (st : Z * list Z) : Prop :=
  exists done cur,
    pre = concat done ++ cur /\ snd st = rev (cums 0 done) /\
    (fold = true -> 2 <= w -> fst st = cell_len cur /\ fits w cur /\ Forall (fits w) done).

Lemma concat_snoc {A} (l : list (list A)) x : concat (l ++ [x]) = concat l ++ x.
Proof. rewrite concat_app. cbn [concat]. rewrite app_nil_r. reflexivity. Qed.

Lemma cums_snoc done cur : cums 0 (done ++ [cur]) = cums 0 done ++ [zlen (concat done ++ cur)].
Proof. rewrite cums_app. cbn [cums]. rewrite zlen_app. do 2 f_equal. Qed.

Lemma zlen_0_nil {A} (l : list A) : zlen l = 0 -> l = [].
Proof. destruct l; [reflexivity|rewrite zlen_cons; pose proof (zlen_nonneg l); lia]. Qed.

Lemma dl_step_inv w fold pre lp divs e word :
  Inv w fold pre (lp, divs) -> has_ns word ->
  Inv w fold (pre ++ word) (dl_step w fold (lp, divs) (zlen pre, e, word)).
Proof.
  intros [done [cur [Hpre [Hdivs Hfit]]]] Hns. cbn [fst snd] in Hdivs, Hfit.
  assert (Happ : pre ++ word = concat done ++ cur ++ word) by (rewrite Hpre, app_assoc; reflexivity).
  assert (Hbrk : pre ++ word = concat (done ++ [cur]) ++ word) by (rewrite concat_snoc, Hpre; reflexivity).
  assert (Hbrk2 : zlen pre :: divs = rev (cums 0 (done ++ [cur]))).
  { rewrite cums_snoc, rev_app_distr, <- Hdivs, <- Hpre. reflexivity. }
  pose proof (rstrip_le word) as Hwl. pose proof (cell_len_nonneg cur) as Hcur0.
  unfold dl_step. cbv beta iota zeta.
  set (wl := cell_len (rstrip word)) in *.
  destruct (w <? lp + wl) eqn:E1.
  - destruct (w <? wl) eqn:E2.
    + destruct fold.
      * (* the word is folded *)
        destruct (chop_cells_shape word w lp) as [q [qs [H1 [H2 [H3 [H4 H5]]]]]].
        rewrite H1. destruct (list_snoc qs) as [->|[qs0 [last ->]]].
        -- cbn [chop_offsets]. cbn [concat] in H2. rewrite app_nil_r in H2. subst q.
           exists done, (cur ++ word). split; [exact Happ|]. split; [exact Hdivs|].
           intros Hf Hw. destruct (Hfit Hf Hw) as [Hlp _]. exfalso.
           apply H5; [apply has_ns_nonnil; exact Hns|lia|reflexivity].
        -- change (q :: qs0 ++ [last]) with ((q :: qs0) ++ [last]). rewrite chop_offsets_snoc.
           unfold str in H2. rewrite concat_snoc in H2.
           exists (done ++ (cur ++ q) :: qs0), last. cbn [fst snd]. split; [|split].
           ++ rewrite concat_app. cbn [concat]. rewrite Hpre, <- H2, <- !app_assoc. reflexivity.
           ++ rewrite cums_app, rev_app_distr, <- Hdivs. do 2 f_equal. cbn [cums].
              replace (0 + zlen (concat done) + zlen (cur ++ q)) with (zlen pre + zlen q)
                by (rewrite Hpre, !zlen_app; lia).
              reflexivity.
           ++ intros Hf Hw. destruct (Hfit Hf Hw) as [Hlp [Hc Hd]].
              apply Forall_app in H3 as [H3a H3b]. inversion H3b as [|? ? [_ Hlast] _]; subst.
              split; [reflexivity|]. split.
              ** unfold fits. pose proof (rstrip_le last). specialize (Hlast Hw). lia.
              ** apply Forall_app. split; [exact Hd|]. constructor.
                 --- destruct H4 as [->|H4]; [rewrite app_nil_r; exact Hc|].
                     unfold fits. pose proof (rstrip_le (cur ++ q)) as Hr.
                     rewrite cell_len_app in Hr. lia.
                 --- eapply Forall_impl; [|exact H3a]. intros p [_ Hp]. unfold fits.
                     pose proof (rstrip_le p). specialize (Hp Hw). lia.
      * destruct (zlen pre =? 0).
        -- exists done, (cur ++ word). split; [exact Happ|]. split; [exact Hdivs|discriminate].
        -- exists (done ++ [cur]), word. split; [exact Hbrk|]. split; [exact Hbrk2|discriminate].
    + destruct (negb (lp =? 0) && negb (zlen pre =? 0)) eqn:E3.
      * exists (done ++ [cur]), word. split; [exact Hbrk|]. split; [exact Hbrk2|].
        intros Hf Hw. destruct (Hfit Hf Hw) as [Hlp [Hc Hd]]. cbn [fst]. split; [reflexivity|].
        split; [unfold fits; fold wl; lia|].
        apply Forall_app. split; [exact Hd|]. constructor; [exact Hc|constructor].
      * exists done, (cur ++ word). split; [exact Happ|]. split; [exact Hdivs|].
        intros Hf Hw. destruct (Hfit Hf Hw) as [Hlp _]. exfalso.
        assert (Hz : zlen pre = 0) by lia.
        rewrite Hpre, zlen_app in Hz.
        pose proof (zlen_nonneg (concat done)). pose proof (zlen_nonneg cur).
        assert (Hc0 : cur = []) by (apply zlen_0_nil; lia).
        rewrite Hc0 in Hlp. change (cell_len []) with 0 in Hlp. lia.
  - exists done, (cur ++ word). split; [exact Happ|]. split; [exact Hdivs|].
    intros Hf Hw. destruct (Hfit Hf Hw) as [Hlp [Hc Hd]]. cbn [fst]. split; [|split; [|exact Hd]].
    + rewrite cell_len_app. lia.
    + unfold fits in *. rewrite rstrip_app_ns by exact Hns. rewrite cell_len_app. fold wl. lia.
Qed.

Lemma dl_fold_inv w fold : forall l pre st, words_chain (zlen pre) l -> Inv w fold pre st ->
  Inv w fold (pre ++ concat (map snd l)) (fold_left (dl_step w fold) l st).
Proof.
  induction l as [|[[st0 e] wd] l IH]; intros pre [lp divs] Hc Hi.
  - cbn [map concat fold_left]. rewrite app_nil_r. exact Hi.
  - cbn [words_chain] in Hc. destruct Hc as [-> [-> [Hns Hc]]].
    cbn [fold_left map concat snd]. rewrite app_assoc. apply IH.
    + rewrite zlen_app. exact Hc.
    + apply dl_step_inv; assumption.
Qed.

(* the result of divide_line, structurally: completed lines, the last line, trailing whitespace *)
Lemma divide_line_shape s w fold : exists done cur tail,
  s = concat done ++ cur ++ tail /\ all_sp tail /\ divide_line s w fold = cums 0 done /\
  (fold = true -> 2 <= w -> fits w cur /\ Forall (fits w) done).
Proof.
  destruct (words_spec s) as [tail [Hs [Ht [Hc _]]]].
  assert (Hi0 : Inv w fold [] (0, [])).
  { exists [], []. split; [reflexivity|]. split; [reflexivity|]. intros _ Hw. cbn [fst].
    split; [reflexivity|]. split; [|constructor]. unfold fits. change (cell_len (rstrip [])) with 0. lia. }
  destruct (dl_fold_inv w fold (words s) [] (0, []) Hc Hi0) as [done [cur [H1 [H2 H3]]]].
  cbn [app] in H1. exists done, cur, tail. split; [|split; [exact Ht|split]].
  - rewrite app_assoc, <- H1. exact Hs.
  - unfold divide_line. rewrite H2, rev_involutive. reflexivity.
  - intros Hf Hw. destruct (H3 Hf Hw) as [_ H4]. exact H4.
Qed.

(* ------------------------------------------------------------------ 2. offsets sorted, inside the string *)
Theorem divide_line_sorted : forall s w fold, 1 <= w ->
  mono_from 0 (divide_line s w fold ++ [zlen s]).
Proof.
  intros s w fold _.
  destruct (divide_line_shape s w fold) as [done [cur [tail [Hs [_ [Hd _]]]]]].
  rewrite Hd.
  assert (Hz : zlen s = 0 + zlen (concat done) + zlen (cur ++ tail)).
  { rewrite Hs, zlen_app. lia. }
  rewrite Hz. apply cums_mono. apply zlen_nonneg.
Qed.

(* ------------------------------------------------------------------ 3. with fold every line, right-stripped, fits *)
Theorem divide_line_lines_fit : forall s w, 2 <= w ->
  Forall (fun p => cell_len (rstrip p) <= w) (line_pieces s (divide_line s w true)).
Proof.
  intros s w Hw.
  destruct (divide_line_shape s w true) as [done [cur [tail [Hs [Ht [Hd Hf]]]]]].
  destruct (Hf eq_refl Hw) as [Hc Hdone].
  rewrite Hd, Hs, line_pieces_cums.
  apply Forall_app. split; [exact Hdone|]. constructor; [|constructor].
  rewrite rstrip_app_all by exact Ht. exact Hc.
Qed.

(* ------------------------------------------------------------------ 4. breaks inside a word only when it is too long *)
Lemma dl_step_breaks w lp divs st e wd o :
  In o (snd (dl_step w true (lp, divs) (st, e, wd))) ->
  In o divs \/ o = st \/ (st < o < st + zlen wd /\ w < cell_len (rstrip wd)).
Proof.
  unfold dl_step. cbv beta iota zeta. set (wl := cell_len (rstrip wd)).
  destruct (w <? lp + wl) eqn:E1; [|cbn [snd]; tauto].
  destruct (w <? wl) eqn:E2.
  - destruct (chop_cells_shape wd w lp) as [q [qs [H1 [H2 [H3 _]]]]].
    rewrite H1. destruct (list_snoc qs) as [->|[qs0 [last ->]]]; [cbn [chop_offsets snd]; tauto|].
    change (q :: qs0 ++ [last]) with ((q :: qs0) ++ [last]). rewrite chop_offsets_snoc. cbn [snd].
    intros Hi. apply in_app_or in Hi as [Hi|Hi]; [|left; exact Hi]. right.
    rewrite <- in_rev in Hi. apply cums_bounds in Hi.
    apply Forall_app in H3 as [_ H3]. apply Forall_inv in H3. destruct H3 as [Hne _].
    unfold str in H2. rewrite concat_snoc in H2.
    assert (Hz : zlen wd = zlen (concat (q :: qs0)) + zlen last).
    { rewrite <- H2. cbn [concat]. rewrite !zlen_app. lia. }
    assert (0 < zlen last).
    { destruct last; [congruence|]. rewrite zlen_cons. pose proof (zlen_nonneg last). lia. }
    destruct (Z.eq_dec o st); [left; assumption|right; lia].
  - destruct (negb (lp =? 0) && negb (st =? 0)); cbn [snd]; intros Hi; [|left; exact Hi].
    destruct Hi as [<-|Hi]; [right; left; reflexivity|left; exact Hi].
Qed.

Lemma dl_fold_breaks w o : forall l st,
  In o (snd (fold_left (dl_step w true) l st)) ->
  In o (snd st) \/
  exists x, In x l /\
    (o = fst (fst x) \/
     (fst (fst x) < o < fst (fst x) + zlen (snd x) /\ w < cell_len (rstrip (snd x)))).
Proof.
  induction l as [|[[s0 e] wd] l IH]; intros [lp divs] Hi; [left; exact Hi|].
  cbn [fold_left] in Hi. apply IH in Hi. destruct Hi as [Hi|[x [Hx Hp]]].
  - apply dl_step_breaks in Hi. destruct Hi as [Hi|Hi]; [left; exact Hi|].
    right. exists (s0, e, wd). split; [left; reflexivity|exact Hi].
  - right. exists x. split; [right; exact Hx|exact Hp].
Qed.

Theorem divide_line_breaks_only_long : forall s w o, 2 <= w -> In o (divide_line s w true) ->
  exists st e wd, In (st, e, wd) (words s) /\
     (o = st \/ (st < o < e /\ w < cell_len (rstrip wd))).
Proof.
  intros s w o _ Hi. unfold divide_line in Hi. rewrite <- in_rev in Hi.
  apply dl_fold_breaks in Hi. destruct Hi as [[]|[[[st e] wd] [Hx Hp]]].
  exists st, e, wd. split; [exact Hx|].
  destruct (words_chain_ends _ _ _ (words_chain_0 s) Hx) as [He _]. cbn [fst snd] in *.
  rewrite He. exact Hp.
Qed.

(* corollary of the shape: every offset lies inside the string *)
Lemma divide_line_bounds s w fold o : In o (divide_line s w fold) -> 0 <= o <= zlen s.
Proof.
  destruct (divide_line_shape s w fold) as [done [cur [tail [Hs [_ [Hd _]]]]]].
  rewrite Hd. intros Hi. apply cums_bounds in Hi.
  assert (Hz : zlen s = zlen (concat done) + zlen (cur ++ tail)) by (rewrite Hs, zlen_app; reflexivity).
  pose proof (zlen_nonneg (cur ++ tail)). lia.
Qed.

(* the fuel of `words` is enough: any larger fuel gives the same list (the comment in model/Wrap.v) *)
Lemma words_go_fuel : forall f1 f2 rest pos,
  (length rest < f1)%nat -> (length rest < f2)%nat -> words_go f1 rest pos = words_go f2 rest pos.
Proof.
  induction f1 as [|f1 IH]; intros f2 rest pos H1 H2; [lia|].
  destruct f2 as [|f2]; [lia|]. cbn [words_go].
  destruct (match_word rest) as [[w rest']|] eqn:Em; [|reflexivity].
  destruct (match_word_some _ _ _ Em) as [Hr [Hns _]].
  assert (Hl : (length rest' < length rest)%nat).
  { rewrite Hr, app_length. pose proof (has_ns_nonnil _ Hns). destruct w; [congruence|]. simpl. lia. }
  f_equal. apply IH; lia.
Qed.
