(* C19 round trip, part 2: folding the encoder's parameters into a clean decoder state. *)
From RichModel Require Import Prelude Color Style AnsiDecode FileProxy SpecDecode.
From RichGen Require Import AnsiRegex SgrMap StyleTables.
From RichProofs Require Import AnsiDecodeP FileProxyP AnsiDecodeP2.

(* ------------------------------------------------------------------ Style.__add__ with a simple right operand *)
Definition lnk (s : style) : option str := if str_truthy (s_link s) then s_link s else None.
Definition null_ok (a : style) : Prop :=
  s_null a = true ->
  s_color a = None /\ s_bgcolor a = None /\ s_attributes a = 0 /\ s_set_attributes a = 0
  /\ str_truthy (s_link a) = false.
Record simple (b : style) : Prop := mkSimple {
  sm_null : s_null b = false;
  sm_link : s_link b = None;
  sm_att : Z.land (s_attributes b) (s_set_attributes b) = s_attributes b }.

Lemma add_simple a b : null_ok a -> simple b ->
  s_color (style_add a b) = color_or (s_color b) (s_color a) /\
  s_bgcolor (style_add a b) = color_or (s_bgcolor b) (s_bgcolor a) /\
  s_attributes (style_add a b) = Z.lor (Z.land (s_attributes a) (Z.lnot (s_set_attributes b))) (s_attributes b) /\
  s_set_attributes (style_add a b) = Z.lor (s_set_attributes a) (s_set_attributes b) /\
  lnk (style_add a b) = lnk a /\ s_null (style_add a b) = false.
Proof.
  intros Ha [Hn Hl Hat]. unfold style_add. rewrite Hn. destruct (s_null a) eqn:E.
  - destruct (Ha E) as [A1 [A2 [A3 [A4 A5]]]]. rewrite A1, A2, A3, A4.
    rewrite Z.land_0_l, !Z.lor_0_l. unfold lnk. rewrite Hl, A5. cbn [str_truthy].
    repeat split; try reflexivity; try exact Hn.
    + destruct (s_color b); reflexivity.
    + destruct (s_bgcolor b); reflexivity.
  - unfold style_merge. cbn [s_color s_bgcolor s_attributes s_set_attributes s_link s_null].
    rewrite Hat, E, Hn. unfold lnk. cbn [s_link]. unfold link_or. rewrite Hl. cbn [str_truthy].
    repeat split; reflexivity.
Qed.

Record view : Type := mkView { w_fg : option ckey; w_bg : option ckey; w_att : Z; w_set : Z; w_lnk : option str }.
Definition view_of (s : style) : view :=
  mkView (option_map ckey_of (s_color s)) (option_map ckey_of (s_bgcolor s))
         (s_attributes s) (s_set_attributes s) (lnk s).

Lemma lor_land_lnot a m : Z.lor (Z.land a (Z.lnot m)) m = Z.lor a m.
Proof.
  apply Z.bits_inj'. intros n Hn. rewrite !Z.lor_spec, Z.land_spec, Z.lnot_spec by exact Hn.
  destruct (Z.testbit a n), (Z.testbit m n); reflexivity.
Qed.

(* ------------------------------------------------------------------ one attribute code *)
Definition is_none {A} (o : option A) : bool := match o with None => true | Some _ => false end.
Definition bit_ok (i : Z) : bool :=
  let code := code_of_bit i in
  negb (code =? 0) &&
  match assoc_Z code SGR_STYLE_MAP with
  | Some def =>
      match style_parse def with
      | Ok p => negb (s_null p) && is_none (s_link p) && is_none (s_color p) && is_none (s_bgcolor p)
                && (s_attributes p =? bit_mask i) && (s_set_attributes p =? bit_mask i)
      | _ => false
      end
  | None => false
  end.
Lemma bit_sweep : forallb bit_ok BITS = true.
Proof. vm_compute. reflexivity. Qed.

Lemma is_none_eq {A} (o : option A) : is_none o = true -> o = None.
Proof. destruct o; [discriminate|reflexivity]. Qed.

Lemma apply_bit i st : In i BITS -> null_ok st ->
  exists st',
    (forall rest, apply_codes (code_of_bit i :: rest) st = apply_codes rest st')
    /\ s_null st' = false
    /\ view_of st' = mkView (w_fg (view_of st)) (w_bg (view_of st))
                            (Z.lor (s_attributes st) (bit_mask i)) (Z.lor (s_set_attributes st) (bit_mask i))
                            (lnk st).
Proof.
  intros Hi Hst. pose proof (proj1 (forallb_forall _ _) bit_sweep i Hi) as B. unfold bit_ok in B.
  apply andb_true_iff in B. destruct B as [B0 B].
  destruct (assoc_Z (code_of_bit i) SGR_STYLE_MAP) as [def|] eqn:EA; [|discriminate].
  destruct (style_parse def) as [p| |] eqn:EP; try discriminate.
  apply andb_true_iff in B; destruct B as [B Bset]. apply andb_true_iff in B; destruct B as [B Batt].
  apply andb_true_iff in B; destruct B as [B Bbg]. apply andb_true_iff in B; destruct B as [B Bcol].
  apply andb_true_iff in B; destruct B as [Bnull Blink].
  apply negb_true_iff in Bnull. apply negb_true_iff in B0.
  apply is_none_eq in Blink, Bcol, Bbg. apply Z.eqb_eq in Batt, Bset.
  assert (SP : simple p).
  { constructor; [exact Bnull|exact Blink|]. rewrite Batt, Bset. apply Z.land_diag. }
  destruct (add_simple st p Hst SP) as [C1 [C2 [C3 [C4 [C5 C6]]]]].
  exists (style_add st p). split; [|split; [exact C6|]].
  - intros rest. cbn [apply_codes]. rewrite B0, EA, EP. reflexivity.
  - unfold view_of. cbn [w_fg w_bg]. rewrite C1, C2, C3, C4, C5, Bcol, Bbg, Batt, Bset. cbn [color_or].
    rewrite lor_land_lnot. reflexivity.
Qed.

Lemma fold_lor_init l : forall a, fold_left (fun a i => Z.lor a (bit_mask i)) l a
                                  = Z.lor a (fold_left (fun a i => Z.lor a (bit_mask i)) l 0).
Proof.
  induction l as [|i l IH]; intros a; cbn [fold_left]; [rewrite Z.lor_0_r; reflexivity|].
  rewrite IH. rewrite (IH (Z.lor 0 (bit_mask i))). rewrite Z.lor_0_l, Z.lor_assoc. reflexivity.
Qed.

Lemma non_null_ok st : s_null st = false -> null_ok st.
Proof. intros H E. rewrite H in E. discriminate. Qed.

Lemma apply_bits : forall bs st, incl bs BITS -> null_ok st ->
  exists st',
    (forall rest, apply_codes (map code_of_bit bs ++ rest) st = apply_codes rest st')
    /\ null_ok st'
    /\ view_of st' = mkView (w_fg (view_of st)) (w_bg (view_of st))
                            (Z.lor (s_attributes st) (fold_left (fun a i => Z.lor a (bit_mask i)) bs 0))
                            (Z.lor (s_set_attributes st) (fold_left (fun a i => Z.lor a (bit_mask i)) bs 0))
                            (lnk st).
Proof.
  induction bs as [|i bs IH]; intros st Hin Hst.
  - exists st. split; [reflexivity|]. split; [exact Hst|]. cbn [fold_left]. rewrite !Z.lor_0_r. reflexivity.
  - destruct (apply_bit i st (Hin i (or_introl eq_refl)) Hst) as [st1 [E1 [N1 V1]]].
    destruct (IH st1 (fun x Hx => Hin x (or_intror Hx)) (non_null_ok _ N1)) as [st2 [E2 [N2 V2]]].
    exists st2. split; [|split; [exact N2|]].
    + intros rest. cbn [map app]. rewrite E1. apply E2.
    + rewrite V2. rewrite V1. cbn [w_fg w_bg]. cbn [fold_left]. rewrite (fold_lor_init bs (Z.lor 0 (bit_mask i))).
      rewrite Z.lor_0_l, !Z.lor_assoc.
      assert (A : s_attributes st1 = Z.lor (s_attributes st) (bit_mask i)) by (inversion V1; reflexivity).
      assert (S : s_set_attributes st1 = Z.lor (s_set_attributes st) (bit_mask i)) by (inversion V1; reflexivity).
      assert (L : lnk st1 = lnk st) by (inversion V1; reflexivity).
      rewrite A, S, L. reflexivity.
Qed.

(* ------------------------------------------------------------------ one colour *)
Lemma ckey_eqb_eq a b : ckey_eqb a b = true -> a = b.
Proof.
  destruct a as [[ta na] pa], b as [[tb nb] pb]. unfold ckey_eqb. intros H.
  apply andb_true_iff in H. destruct H as [H H3]. apply andb_true_iff in H. destruct H as [H1 H2].
  apply Z.eqb_eq in H1. apply optZ_eqb_eq in H2. subst.
  destruct pa as [[[r g] b]|], pb as [[[r' g'] b']|]; try discriminate; [|reflexivity].
  repeat (apply andb_true_iff in H3; destruct H3 as [H3 ?]).
  repeat match goal with H : (_ =? _) = true |- _ => apply Z.eqb_eq in H end. subst. reflexivity.
Qed.
Lemma opt_ckey_eqb_eq a b : opt_ckey_eqb a b = true -> a = b.
Proof. destruct a, b; cbn; intros H; try discriminate; [apply ckey_eqb_eq in H; subst|]; reflexivity. Qed.

(* a code of SGR_STYLE_MAP that only sets a colour *)
Definition named_ok (code : Z) (fg : bool) (k : ckey) : bool :=
  negb (code =? 0) &&
  match assoc_Z code SGR_STYLE_MAP with
  | Some def =>
      match style_parse def with
      | Ok p => negb (s_null p) && is_none (s_link p) && (s_attributes p =? 0) && (s_set_attributes p =? 0)
                && opt_ckey_eqb (option_map ckey_of (s_color p)) (if fg then Some k else None)
                && opt_ckey_eqb (option_map ckey_of (s_bgcolor p)) (if fg then None else Some k)
      | _ => false
      end
  | None => false
  end.
Definition std_code (n : Z) (fg : bool) : Z :=
  (if n <? 8 then (if fg then 30 else 40) else (if fg then 82 else 92)) + n.
Lemma named_sweep :
  named_ok 39 true (0, None, None) && named_ok 49 false (0, None, None)
  && forallb (fun n => named_ok (std_code n true) true (1, Some n, None)
                       && named_ok (std_code n false) false (1, Some n, None))
             (map Z.of_nat (seq 0 16)) = true.
Proof. vm_compute. reflexivity. Qed.

Definition set_col (fg : bool) (k : ckey) (v : view) : view :=
  if fg then mkView (Some k) (w_bg v) (w_att v) (w_set v) (w_lnk v)
  else mkView (w_fg v) (Some k) (w_att v) (w_set v) (w_lnk v).

(* adding a style that carries just one colour *)
Lemma add_color_view st p (fg : bool) (k : ckey) : null_ok st -> simple p ->
  s_attributes p = 0 -> s_set_attributes p = 0 ->
  option_map ckey_of (s_color p) = (if fg then Some k else None) ->
  option_map ckey_of (s_bgcolor p) = (if fg then None else Some k) ->
  s_null (style_add st p) = false /\ view_of (style_add st p) = set_col fg k (view_of st).
Proof.
  intros Hst SP A0 S0 KC KB. destruct (add_simple st p Hst SP) as [C1 [C2 [C3 [C4 [C5 C6]]]]].
  split; [exact C6|]. unfold view_of, set_col. rewrite C1, C2, C3, C4, C5, A0, S0.
  change (Z.lnot 0) with (-1). rewrite Z.land_m1_r, !Z.lor_0_r. cbn [w_fg w_bg w_att w_set w_lnk].
  destruct fg.
  - destruct (s_color p) as [c|]; [|discriminate]. destruct (s_bgcolor p); [discriminate|].
    cbn [color_or option_map] in *. rewrite KC. reflexivity.
  - destruct (s_bgcolor p) as [c|]; [|discriminate]. destruct (s_color p); [discriminate|].
    cbn [color_or option_map] in *. rewrite KB. reflexivity.
Qed.

Lemma apply_named code fg k st : named_ok code fg k = true -> null_ok st ->
  exists st', (forall rest, apply_codes (code :: rest) st = apply_codes rest st')
              /\ s_null st' = false /\ view_of st' = set_col fg k (view_of st).
Proof.
  intros B Hst. unfold named_ok in B. apply andb_true_iff in B. destruct B as [B0 B].
  destruct (assoc_Z code SGR_STYLE_MAP) as [def|] eqn:EA; [|discriminate].
  destruct (style_parse def) as [p| |] eqn:EP; try discriminate.
  apply andb_true_iff in B; destruct B as [B Bbg]. apply andb_true_iff in B; destruct B as [B Bcol].
  apply andb_true_iff in B; destruct B as [B Bset]. apply andb_true_iff in B; destruct B as [B Batt].
  apply andb_true_iff in B; destruct B as [Bnull Blink].
  apply negb_true_iff in Bnull. apply negb_true_iff in B0.
  apply is_none_eq in Blink. apply Z.eqb_eq in Batt, Bset. apply opt_ckey_eqb_eq in Bcol, Bbg.
  assert (SP : simple p) by (constructor; [exact Bnull|exact Blink|rewrite Batt, Bset; reflexivity]).
  destruct (add_color_view st p fg k Hst SP Batt Bset Bcol Bbg) as [N V].
  exists (style_add st p). split; [|split; assumption].
  intros rest. cbn [apply_codes]. rewrite B0, EA, EP. reflexivity.
Qed.

Lemma assoc38 : assoc_Z 38 SGR_STYLE_MAP = None. Proof. vm_compute. reflexivity. Qed.
Lemma assoc48 : assoc_Z 48 SGR_STYLE_MAP = None. Proof. vm_compute. reflexivity. Qed.

Lemma from_color_simple (c : color) (fg : bool) :
  simple (if fg then dec_from_color (Some c) None else dec_from_color None (Some c)).
Proof. destruct fg; constructor; reflexivity. Qed.

Lemma apply_color c fg st : wf_color_b c = true -> null_ok st ->
  exists st', (forall rest, apply_codes (color_nums c fg ++ rest) st = apply_codes rest st')
              /\ s_null st' = false /\ view_of st' = set_col fg (ckey_of c) (view_of st).
Proof.
  intros W Hst. unfold wf_color_b in W. unfold color_nums, ckey_of.
  destruct c as [nm ty num tr]. cbn [c_type c_number c_triplet] in *.
  destruct ty, num as [n|], tr as [t|]; try discriminate W; cbn [option_map ColorType_int app];
  pose proof named_sweep as NS; apply andb_true_iff in NS; destruct NS as [NS NS3];
  apply andb_true_iff in NS; destruct NS as [NS1 NS2].
  - (* default *)
    destruct fg; [apply (apply_named 39 true _ st NS1 Hst)|apply (apply_named 49 false _ st NS2 Hst)].
  - (* standard *)
    apply andb_true_iff in W. destruct W as [W1 W2]. apply Z.leb_le in W1. apply Z.ltb_lt in W2.
    pose proof (forall_range _ 16 NS3 n (conj W1 W2)) as Hn. cbn beta in Hn.
    apply andb_true_iff in Hn. destruct Hn as [Hf Hb]. fold (std_code n fg).
    destruct fg; [apply (apply_named _ true _ st Hf Hst)|apply (apply_named _ false _ st Hb Hst)].
  - (* 16..255 *)
    apply andb_true_iff in W. destruct W as [W1 W2]. apply Z.leb_le in W1. apply Z.ltb_lt in W2.
    set (p := if fg then dec_from_color (Some (from_ansi n)) None else dec_from_color None (Some (from_ansi n))).
    assert (K : ckey_of (from_ansi n) = (2, Some n, None)).
    { unfold ckey_of, from_ansi. cbn [c_type c_number c_triplet option_map].
      replace (n <? 16) with false by (symmetry; apply Z.ltb_ge; lia). reflexivity. }
    destruct (add_color_view st p fg (2, Some n, None) Hst (from_color_simple _ fg)) as [N V];
      try (subst p; destruct fg; cbn; try rewrite K; reflexivity).
    exists (style_add st p). split; [|split; assumption].
    intros rest. subst p. destruct fg; cbn [apply_codes].
    + change (38 =? 0) with false. cbv iota. rewrite assoc38. reflexivity.
    + change (48 =? 0) with false. cbv iota. rewrite assoc48. reflexivity.
  - (* 24-bit *)
    set (p := if fg then dec_from_color (Some (from_rgb (t_red t) (t_green t) (t_blue t))) None
              else dec_from_color None (Some (from_rgb (t_red t) (t_green t) (t_blue t)))).
    assert (K : ckey_of (from_rgb (t_red t) (t_green t) (t_blue t)) = (3, None, Some (triplet_tuple t))).
    { destruct t. reflexivity. }
    destruct (add_color_view st p fg (3, None, Some (triplet_tuple t)) Hst (from_color_simple _ fg)) as [N V];
      try (subst p; destruct fg; cbn [s_attributes s_set_attributes s_color s_bgcolor dec_from_color option_map];
           try rewrite K; reflexivity).
    exists (style_add st p). split; [|split; assumption].
    intros rest. subst p. destruct fg; cbn [apply_codes].
    + change (38 =? 0) with false. cbv iota. rewrite assoc38. reflexivity.
    + change (48 =? 0) with false. cbv iota. rewrite assoc48. reflexivity.
Qed.

Lemma apply_opt_color o fg st : opt_wf o = true -> null_ok st ->
  exists st', (forall rest, apply_codes (opt_color_nums o fg ++ rest) st = apply_codes rest st')
              /\ null_ok st'
              /\ view_of st' = match o with Some c => set_col fg (ckey_of c) (view_of st) | None => view_of st end.
Proof.
  intros W Hst. destruct o as [c|].
  - destruct (apply_color c fg st W Hst) as [st' [E [N V]]]. exists st'. split; [exact E|].
    split; [apply non_null_ok; exact N|exact V].
  - exists st. split; [reflexivity|]. split; [exact Hst|reflexivity].
Qed.

(* ------------------------------------------------------------------ the whole parameter list *)
Lemma filter_incl {A} (f : A -> bool) l : incl (filter f l) l.
Proof. intros x H. apply filter_In in H. exact (proj1 H). Qed.

(* folding the parameters of a well-formed style into a clean state (nothing but, perhaps, a link) *)
Theorem apply_style_nums s st lk : wf_style s -> null_ok st ->
  view_of st = mkView None None 0 0 lk ->
  exists st', apply_codes (style_nums s) st = Ok st' /\ null_ok st'
    /\ view_of st' = mkView (option_map ckey_of (s_color s)) (option_map ckey_of (s_bgcolor s))
                            (Z.land (s_attributes s) (s_set_attributes s))
                            (Z.land (s_attributes s) (s_set_attributes s)) lk.
Proof.
  intros [Hw [Hc Hb]] Hst V0. unfold style_nums, attr_nums.
  set (w := Z.land (s_attributes s) (s_set_attributes s)) in *.
  destruct (attr_ok_facts w Hw) as [_ [_ HF]].
  destruct (apply_bits (filter (has_bit w) BITS) st (filter_incl _ _) Hst) as [st1 [E1 [N1 V1]]].
  destruct (apply_opt_color (s_color s) true st1 Hc N1) as [st2 [E2 [N2 V2]]].
  destruct (apply_opt_color (s_bgcolor s) false st2 Hb N2) as [st3 [E3 [N3 V3]]].
  exists st3. split; [|split; [exact N3|]].
  - rewrite E1, E2. rewrite <- (app_nil_r (opt_color_nums (s_bgcolor s) false)). rewrite E3. reflexivity.
  - rewrite V3, V2, V1. rewrite HF.
    assert (A : s_attributes st = 0) by (inversion V0; reflexivity).
    assert (S : s_set_attributes st = 0) by (inversion V0; reflexivity).
    assert (L : lnk st = lk) by (inversion V0; reflexivity).
    rewrite V0, A, S, L, !Z.lor_0_l. cbn [w_fg w_bg].
    destruct (s_color s), (s_bgcolor s); reflexivity.
Qed.
