(* C04 part 4: the repaired render() computes the meaning of the document:
   every character is covered by exactly the tags open at that point, in opening order. *)
From RichModel Require Import Prelude Markup SpecMarkup.
From RichProofs Require Import MarkupP MarkupP2 MarkupP3.
Local Open Scope nat_scope.

Definition sl_start (x : slot) : nat := fst (fst x).
Definition sl_end (x : slot) : option nat := snd (fst x).
Definition sl_tok (x : slot) : str := snd x.

Definition covers_slot (i : nat) (x : slot) : bool :=
  (sl_start x <=? i) && match sl_end x with Some e => i <? e | None => true end.
Definition cov (slots : list slot) (i : nat) : list str := map sl_tok (filter (covers_slot i) slots).

(* (index, token) of the slots that are still open *)
Fixpoint opens_from (k : nat) (slots : list slot) : list (nat * str) :=
  match slots with
  | [] => []
  | x :: r => (match sl_end x with None => [(k, sl_tok x)] | Some _ => [] end) ++ opens_from (S k) r
  end.

Definition ent (e : entryF) : str * str := (snd (fst e), tag_str (snd (fst e)) (snd e)).
Definition ient (e : entryF) : nat * str := (fst (fst e), tag_str (snd (fst e)) (snd e)).

Lemma opens_ge : forall slots k p, In p (opens_from k slots) -> k <= fst p.
Proof.
  induction slots as [|x r IH]; intros k p H; [contradiction|].
  cbn [opens_from] in H. apply in_app_or in H. destruct H as [H|H].
  - destruct (sl_end x); [contradiction|]. destruct H as [H|[]]. subst. cbn. lia.
  - apply IH in H. lia.
Qed.

Lemma opens_app : forall a b k, opens_from k (a ++ b) = opens_from k a ++ opens_from (k + length a) b.
Proof.
  induction a as [|x a IH]; intros b k; cbn [app opens_from length].
  - rewrite Nat.add_0_r. reflexivity.
  - rewrite IH, <- app_assoc. replace (S k + length a) with (k + S (length a)) by lia. reflexivity.
Qed.

Lemma opens_nodup : forall slots k, NoDup (map fst (opens_from k slots)).
Proof.
  induction slots as [|x r IH]; intros k; cbn [opens_from]; [constructor|].
  destruct (sl_end x); cbn [app map]; [apply IH|].
  constructor; [|apply IH]. intros H. apply in_map_iff in H. destruct H as [p [Hp H]].
  apply opens_ge in H. cbn [fst] in Hp. lia.
Qed.

Lemma filter_all : forall {A} (f : A -> bool) l, (forall x, In x l -> f x = true) -> filter f l = l.
Proof.
  induction l as [|x l IH]; intros H; [reflexivity|]. cbn [filter].
  rewrite (H x (or_introl eq_refl)). f_equal. apply IH. intros y Hy. apply H. right. exact Hy.
Qed.

Lemma opens_set_end : forall slots k j e,
  opens_from k (set_end j e slots) = filter (fun p => negb (fst p =? k + j)) (opens_from k slots).
Proof.
  induction slots as [|x r IH]; intros k j e; [destruct j; reflexivity|].
  destruct j as [|j]; cbn [set_end opens_from].
  - unfold sl_end at 1. cbn [fst snd app]. rewrite filter_app.
    rewrite (filter_all _ (opens_from (S k) r)).
    + destruct (sl_end x); cbn [filter]; [reflexivity|].
      cbn [fst]. rewrite Nat.add_0_r, Nat.eqb_refl. reflexivity.
    + intros p Hp. apply opens_ge in Hp. apply negb_true_iff. apply Nat.eqb_neq. lia.
  - rewrite filter_app, IH. replace (S k + j) with (k + S j) by lia. f_equal.
    destruct (sl_end x); cbn [filter]; [reflexivity|]. cbn [fst].
    replace (k =? k + S j) with false by (symmetry; apply Nat.eqb_neq; lia). reflexivity.
Qed.

Lemma opens_open : forall slots k j t, In (k + j, t) (opens_from k slots) ->
  forall x, nth_error slots j = Some x -> sl_end x = None.
Proof.
  induction slots as [|y r IH]; intros k j t H x Hx; [destruct j; discriminate|].
  cbn [opens_from] in H. apply in_app_or in H. destruct j as [|j]; cbn [nth_error] in Hx.
  - inversion Hx; subst. destruct (sl_end x) eqn:E; [|reflexivity]. destruct H as [[]|H].
    apply opens_ge in H. cbn [fst] in H. lia.
  - destruct H as [H|H].
    + destruct (sl_end y); [contradiction|]. destruct H as [H|[]]. inversion H. lia.
    + replace (k + S j) with (S k + j) in H by lia. apply (IH _ _ _ H x Hx).
Qed.

Lemma cov_set_end : forall slots j len i, i < len ->
  (forall x, nth_error slots j = Some x -> sl_end x = None) ->
  cov (set_end j len slots) i = cov slots i.
Proof.
  induction slots as [|y r IH]; intros j len i Hi Hopen; [destruct j; reflexivity|].
  unfold cov in *. destruct j as [|j]; cbn [set_end filter].
  - pose proof (Hopen y eq_refl) as Hy.
    assert (Hc : covers_slot i (fst (fst y), Some len, snd y) = covers_slot i y).
    { unfold covers_slot, sl_start, sl_end in *. cbn [fst snd]. rewrite Hy.
      replace (i <? len) with true by (symmetry; apply Nat.ltb_lt; exact Hi). reflexivity. }
    rewrite Hc. destruct (covers_slot i y); reflexivity.
  - destruct (covers_slot i y); cbn [map]; [f_equal|]; apply IH; auto.
Qed.

Lemma cov_beyond : forall slots L i k,
  (forall x, In x slots -> sl_start x <= L /\ (forall e, sl_end x = Some e -> e <= L)) -> L <= i ->
  cov slots i = map snd (opens_from k slots).
Proof.
  induction slots as [|y r IH]; intros L i k Hb Hi; [reflexivity|].
  unfold cov in *. cbn [filter opens_from]. rewrite map_app.
  destruct (Hb y (or_introl eq_refl)) as [H1 H2].
  unfold covers_slot. replace (sl_start y <=? i) with true by (symmetry; apply Nat.leb_le; lia).
  cbn [andb]. destruct (sl_end y) as [e|] eqn:E.
  - replace (i <? e) with false by (symmetry; apply Nat.ltb_ge; specialize (H2 e eq_refl); lia).
    cbn [map app]. apply (IH L i (S k)); auto. intros x Hx. apply Hb. right. exact Hx.
  - cbn [map app snd]. f_equal. apply (IH L i (S k)); auto. intros x Hx. apply Hb. right. exact Hx.
Qed.

Lemma cov_app_new : forall slots i L t, i < L -> cov (slots ++ [(L, None, t)]) i = cov slots i.
Proof.
  intros slots i L t Hi. unfold cov. rewrite filter_app, map_app. cbn [filter].
  unfold covers_slot at 2. unfold sl_start. cbn [fst].
  replace (L <=? i) with false by (symmetry; apply Nat.leb_gt; exact Hi). cbn [andb map]. apply app_nil_r.
Qed.

(* pop_style vs. the spec's remove_named *)
Lemma pop_named_split : forall {X} (nameof : X -> str) nm stk e stk',
  pop_named nameof nm stk = Some (e, stk') -> exists a b, stk = a ++ e :: b /\ stk' = a ++ b.
Proof.
  induction stk as [|y r IH]; intros e stk' H; [discriminate|]. cbn [pop_named] in H.
  destruct (str_eqb (nameof y) nm).
  - inversion H; subst. exists [], stk'. split; reflexivity.
  - destruct (pop_named nameof nm r) as [[x r']|] eqn:E; [|discriminate].
    injection H as He Hs. subst x stk'. destruct (IH e r' eq_refl) as [a [b [H1 H2]]].
    exists (y :: a), b. subst. split; reflexivity.
Qed.

Lemma remove_named_pop : forall nm (stk : list entryF),
  remove_named nm (map ent stk)
  = match pop_named (fun e : entryF => snd (fst e)) nm stk with
    | Some (_, stk') => Some (map ent stk') | None => None end.
Proof.
  induction stk as [|y r IH]; [reflexivity|]. cbn [map remove_named pop_named].
  change (fst (ent y)) with (snd (fst y)). destruct (str_eqb (snd (fst y)) nm); [reflexivity|].
  rewrite IH. destruct (pop_named _ nm r) as [[x r']|]; reflexivity.
Qed.

Lemma filter_remove_one : forall (l1 l2 : list (nat * str)) x, NoDup (map fst (l1 ++ x :: l2)) ->
  filter (fun p => negb (fst p =? fst x)) (l1 ++ x :: l2) = l1 ++ l2.
Proof.
  intros l1 l2 x H. rewrite map_app in H. cbn [map] in H.
  pose proof (NoDup_remove_2 _ _ _ H) as Hn. rewrite filter_app. cbn [filter].
  rewrite Nat.eqb_refl. cbn [negb]. f_equal; apply filter_all; intros p Hp;
    apply negb_true_iff; apply Nat.eqb_neq; intros Heq; apply Hn; apply in_or_app;
    [left|right]; apply in_map_iff; exists p; auto.
Qed.

Lemma set_end_bounds : forall slots j L,
  (forall x, In x slots -> sl_start x <= L /\ (forall e, sl_end x = Some e -> e <= L)) ->
  forall x, In x (set_end j L slots) -> sl_start x <= L /\ (forall e, sl_end x = Some e -> e <= L).
Proof.
  induction slots as [|y r IH]; intros j L H5 x Hx; [destruct j; contradiction|].
  destruct j as [|j]; cbn [set_end] in Hx.
  - destruct Hx as [Hx|Hx].
    + subst x. unfold sl_start, sl_end. cbn [fst snd]. split.
      * destruct (H5 y (or_introl eq_refl)) as [Ha _]. exact Ha.
      * intros e' He. inversion He. lia.
    + apply H5. right. exact Hx.
  - destruct Hx as [Hx|Hx].
    + subst. apply H5. left. reflexivity.
    + apply (IH j L); auto. intros z Hz. apply H5. right. exact Hz.
Qed.

Section Sim.
  Variable cc : list Z.
  Variable norm : str -> str.

  Definition Inv (st : stateF) (ss : sstate) : Prop :=
    let '(plain, stk, slots) := st in
    let '(out, opn) := ss in
    plain = map fst out
    /\ map ent stk = opn
    /\ map (cov slots) (seq 0 (length plain)) = map snd out
    /\ opens_from 0 slots = rev (map ient stk)
    /\ (forall x, In x slots -> sl_start x <= length plain /\ (forall e, sl_end x = Some e -> e <= length plain)).

  Lemma inv_init : Inv ([], [], []) ([], []).
  Proof. cbn. repeat split; auto; contradiction. Qed.

  Lemma map_const_seq : forall {A} (f : nat -> A) (v : A) n k,
    (forall i, k <= i -> f i = v) -> map f (seq k n) = repeat v n.
  Proof.
    induction n as [|n IH]; intros k H; [reflexivity|]. cbn [seq map repeat].
    rewrite (H k (le_n k)). f_equal. apply IH. intros i Hi. apply H. lia.
  Qed.
  Lemma map_const_list : forall {A B} (v : B) (l : list A), map (fun _ => v) l = repeat v (length l).
  Proof. induction l as [|x l IH]; [reflexivity|]. cbn. f_equal. exact IH. Qed.

  (* closing the entry e somewhere in the stack: common part of [/name] and [/] *)
  Lemma inv_close : forall plain a e b slots out,
    Inv (plain, a ++ e :: b, slots) (out, map ent (a ++ e :: b)) ->
    Inv (plain, a ++ b, set_end (fst (fst e)) (length plain) slots) (out, map ent (a ++ b)).
  Proof.
    intros plain a e b slots out [H1 [H2 [H3 [H4 H5]]]]. cbn [Inv].
    assert (Hin : In (ient e) (opens_from 0 slots)).
    { rewrite H4, <- in_rev. apply in_map. apply in_or_app. right. left. reflexivity. }
    split; [exact H1|]. split; [reflexivity|]. split; [|split].
    - rewrite <- H3. apply map_ext_in. intros i Hi. apply in_seq in Hi. apply cov_set_end; [lia|].
      intros x Hx. apply (opens_open slots 0 (fst (fst e)) (snd (ient e))); auto.
    - rewrite opens_set_end. cbn [Nat.add]. rewrite H4.
      rewrite map_app. cbn [map]. rewrite rev_app_distr. cbn [rev]. rewrite <- app_assoc. cbn [app].
      change (fst (fst e)) with (fst (ient e)).
      rewrite filter_remove_one.
      + rewrite map_app, rev_app_distr. reflexivity.
      + pose proof (opens_nodup slots 0) as Hnd. rewrite H4 in Hnd.
        rewrite map_app in Hnd. cbn [map] in Hnd. rewrite rev_app_distr in Hnd. cbn [rev] in Hnd.
        rewrite <- app_assoc in Hnd. exact Hnd.
    - apply set_end_bounds. exact H5.
  Qed.

  Definition sim_res (r : res stateF) (o : option sstate) : Prop :=
    match r, o with
    | Ok st, Some ss => Inv st ss
    | Doc e, None => e = E_MarkupError
    | _, _ => False
    end.

  Lemma strip_nonempty : forall n, negb (match strip n with [] => true | _ => false end) = true ->
    exists c r, strip n = c :: r.
  Proof. intros n H. destruct (strip n) as [|c r]; [discriminate|]. eauto. Qed.

  Lemma inv_step : forall st ss x, Inv st ss -> item_ok x = true ->
    sim_res (stepF cc norm id_str st (item_tok x)) (sem_step cc norm ss x).
  Proof.
    intros [[plain stk] slots] [out opn] x HI Hx.
    destruct x as [n p|n| |s]; cbn [item_tok].
    - (* Open *)
      destruct n as [|c t]; [discriminate|]. cbn [item_ok] in Hx.
      repeat (apply andb_true_iff in Hx; destruct Hx as [Hx ?]).
      apply negb_true_iff in H2.
      cbn [stepF closing_name]. rewrite H2. cbn [sem_step sim_res].
      destruct HI as [H1' [H2' [H3' [H4' H5']]]]. cbn [Inv]. repeat split; auto.
      + cbn [map]. rewrite H2'. reflexivity.
      + rewrite <- H3'. apply map_ext_in. intros i Hi. apply in_seq in Hi. apply cov_app_new. lia.
      + rewrite opens_app. cbn [opens_from]. unfold sl_end, sl_tok. cbn [fst snd app Nat.add].
        cbn [map rev]. rewrite H4'. reflexivity.
      + apply in_app_or in H3. destruct H3 as [H3|[H3|[]]]; [apply H5'; exact H3|].
        subst x. unfold sl_start. cbn. lia.
      + apply in_app_or in H3. destruct H3 as [H3|[H3|[]]]; [apply H5'; exact H3|].
        subst x. unfold sl_end. cbn. discriminate.
    - (* Close n *)
      cbn [item_ok] in Hx. apply andb_true_iff in Hx. destruct Hx as [Hx ?].
      cbn [stepF closing_name]. change (SLASH =? SLASH)%Z with true. cbn iota.
      cbn [sem_step]. destruct HI as [H1' [H2' HI']].
      destruct (strip n) as [|c r] eqn:Hs.
      + (* blank name: implicit close *)
        cbn [pop_for]. destruct stk as [|e b].
        * cbn [map] in H2'. subst opn. cbn [sim_res]. reflexivity.
        * cbn [map] in H2'. subst opn. destruct e as [[idx nm] ps]. cbn [sim_res].
          apply (inv_close plain [] (idx, nm, ps) b slots out). cbn [Inv app map]. auto.
      + unfold pop_for. rewrite <- H2'. rewrite remove_named_pop.
        destruct (pop_named (fun e : entryF => snd (fst e)) (norm (c :: r)) stk) as [[e stk']|] eqn:E.
        * destruct (pop_named_split _ _ _ _ _ E) as [a [b [Hstk Hstk']]]. subst stk stk'.
          destruct e as [[idx nm] ps]. cbn [sim_res].
          apply (inv_close plain a (idx, nm, ps) b slots out). cbn [Inv]. auto.
        * cbn [sim_res]. reflexivity.
    - (* CloseTop *)
      cbn [stepF closing_name]. change (SLASH =? SLASH)%Z with true. cbn iota.
      change (strip []) with (@nil Z). cbn [pop_for sem_step].
      destruct HI as [H1' [H2' HI']]. destruct stk as [|e b].
      + cbn [map] in H2'. subst opn. cbn [sim_res]. reflexivity.
      + cbn [map] in H2'. subst opn. destruct e as [[idx nm] ps]. cbn [sim_res].
        apply (inv_close plain [] (idx, nm, ps) b slots out). cbn [Inv app map]. auto.
    - (* Lit *)
      cbn [stepF sem_step sim_res]. unfold id_str.
      destruct HI as [H1' [H2' [H3' [H4' H5']]]]. cbn [Inv].
      set (cs := strip_cc cc s). change (strip_cc_with cc s) with cs.
      repeat split; auto.
      + rewrite map_app, map_map. cbn [fst]. rewrite map_id. rewrite H1'. reflexivity.
      + rewrite app_length, seq_app, map_app, map_app, H3'. f_equal.
        rewrite map_map. cbn [snd Nat.add]. rewrite map_const_list.
        apply map_const_seq. intros i Hi.
        rewrite (cov_beyond slots (length plain) i 0 H5' Hi), H4', <- H2'.
        rewrite map_rev, !map_map. reflexivity.
      + rewrite app_length. destruct (H5' x H). lia.
      + rewrite app_length. intros e He. destruct (H5' x H) as [_ Hb]. specialize (Hb e He). lia.
  Qed.

  Lemma inv_run : forall d st ss, Inv st ss -> doc_ok d = true ->
    sim_res (run (stepF cc norm id_str) st (doc_toks d)) (sem_from cc norm ss d).
  Proof.
    induction d as [|x d IH]; intros st ss HI Hd; [exact HI|].
    cbn [doc_ok forallb] in Hd. apply andb_true_iff in Hd. destruct Hd as [Hx Hd].
    cbn [doc_toks map run sem_from]. pose proof (inv_step st ss x HI Hx) as Hs.
    destruct (stepF cc norm id_str st (item_tok x)) as [st'|e|k];
      destruct (sem_step cc norm ss x) as [ss'|]; cbn [sim_res] in Hs; try contradiction.
    - apply IH; auto.
    - exact Hs.
  Qed.

  (* reading the final state *)
  Lemma covering_finish : forall slots n i, i < n ->
    covering (map (fun x : slot => let '(s, e, t) := x in
                                   (s, match e with Some e' => e' | None => n end, t)) slots) i
    = cov slots i.
  Proof.
    induction slots as [|[[s e] t] r IH]; intros n i Hi; [reflexivity|].
    unfold covering, cov in *. cbn [map filter]. unfold covers at 1. unfold covers_slot at 1.
    unfold sl_start, sl_end. cbn [fst snd].
    assert (Heq : (match e with Some e' => i <? e' | None => true end)
                  = (i <? match e with Some e' => e' | None => n end)).
    { destruct e; [reflexivity|]. symmetry. apply Nat.ltb_lt. exact Hi. }
    rewrite Heq. destruct ((s <=? i) && (i <? match e with Some e' => e' | None => n end)).
    - cbn [map]. unfold sl_tok at 1. cbn [snd]. f_equal. apply IH. exact Hi.
    - apply IH. exact Hi.
  Qed.

  Lemma styled_rebuild : forall (out : list (Z * list str)) (f : nat -> list str) k,
    map f (seq k (length out)) = map snd out ->
    map (fun ic : nat * Z => (snd ic, f (fst ic))) (combine (seq k (length out)) (map fst out)) = out.
  Proof.
    induction out as [|[c l] out IH]; intros f k H; [reflexivity|].
    cbn [length seq map combine fst snd] in *. inversion H. f_equal. apply IH. assumption.
  Qed.

  Lemma list_eqb_refl : forall {A} (eqb : A -> A -> bool), (forall x, eqb x x = true) ->
    forall l, list_eqb eqb l l = true.
  Proof. intros A eqb H. induction l as [|x l IH]; [reflexivity|]. cbn. rewrite H, IH. reflexivity. Qed.
  Lemma str_eqb_refl : forall s, str_eqb s s = true.
  Proof. induction s as [|c s IH]; [reflexivity|]. cbn. rewrite Z.eqb_refl, IH. reflexivity. Qed.
  Lemma styled_eqb_refl : forall l, styled_eqb l l = true.
  Proof.
    apply list_eqb_refl. intros [c l]. cbn [fst snd]. rewrite Z.eqb_refl.
    cbn [andb]. apply list_eqb_refl. apply str_eqb_refl.
  Qed.

  Lemma styled_finish : forall st out opn, Inv st (out, opn) -> styled (finishF st) = out.
  Proof.
    intros [[plain stk] slots] out opn [H1 [_ [H3 _]]]. cbn [finishF styled].
    assert (Hl : length plain = length out) by (rewrite H1; apply map_length).
    rewrite H1 at 2. rewrite Hl. apply styled_rebuild.
    rewrite <- H3, <- Hl. apply map_ext_in. intros i Hi. apply in_seq in Hi.
    apply covering_finish. lia.
  Qed.

  (* ---------------------------------------------------------------- the property theorems *)
  Theorem render_doc_sim : forall d, doc_ok d = true ->
    match render cc norm id_str false (flatten d), sem cc norm d with
    | Ok t, Some out => styled t = out
    | Doc e, None => e = E_MarkupError
    | _, _ => False
    end.
  Proof.
    intros d Hd. rewrite render_doc_toks by exact Hd. unfold render_toks, sem.
    pose proof (inv_run d ([], [], []) ([], []) inv_init Hd) as H.
    destruct (run (stepF cc norm id_str) ([], [], []) (doc_toks d)) as [st|e|k];
      destruct (sem_from cc norm ([], []) d) as [[out opn]|]; cbn [sim_res finish_res] in *; try contradiction.
    - apply (styled_finish st out opn H).
    - exact H.
  Qed.

  Theorem render_styles : forall d t, doc_ok d = true ->
    render cc norm id_str false (flatten d) = Ok t -> markup_ok_b cc norm d t = true.
  Proof.
    intros d t Hd Hr. pose proof (render_doc_sim d Hd) as H. rewrite Hr in H. unfold markup_ok_b.
    destruct (sem cc norm d) as [out|]; [|contradiction]. rewrite H. apply styled_eqb_refl.
  Qed.

  Theorem render_plain : forall d t out, doc_ok d = true ->
    render cc norm id_str false (flatten d) = Ok t -> sem cc norm d = Some out -> fst t = map fst out.
  Proof.
    intros d t out Hd Hr Hs. pose proof (render_doc_sim d Hd) as H. rewrite Hr, Hs in H.
    destruct t as [plain spans]. cbn [fst]. rewrite <- H. unfold styled.
    rewrite map_map. cbn [fst]. clear. generalize 0 as k.
    induction plain as [|c p IH]; intros k; [reflexivity|]. cbn [length seq combine map snd]. f_equal. apply IH.
  Qed.

  Theorem markup_error_iff : forall d, doc_ok d = true ->
    (render cc norm id_str false (flatten d) = Doc E_MarkupError <-> sem cc norm d = None).
  Proof.
    intros d Hd. pose proof (render_doc_sim d Hd) as H.
    destruct (render cc norm id_str false (flatten d)) as [t|e|k]; destruct (sem cc norm d) as [out|];
      try contradiction; split; intro H'; try discriminate; try reflexivity.
    subst e. reflexivity.
  Qed.

  Theorem error_iff_checker : forall d, doc_ok d = true ->
    error_iff_b cc norm d (render cc norm id_str false (flatten d)) = true.
  Proof.
    intros d Hd. pose proof (render_doc_sim d Hd) as H. unfold error_iff_b.
    destruct (render cc norm id_str false (flatten d)) as [t|e|k]; destruct (sem cc norm d) as [out|];
      try contradiction; try reflexivity. subst e. reflexivity.
  Qed.
End Sim.

Lemma escape_verbatim_checker : forall cc norm asis s,
  escape_verbatim_b cc s (render cc norm id_str asis (escape s)) = true.
Proof.
  intros. rewrite escape_verbatim. unfold escape_verbatim_b, text_eqb. cbn [fst snd list_eqb].
  rewrite str_eqb_refl. reflexivity.
Qed.
