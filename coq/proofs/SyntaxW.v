(* C17 x C02: the Text.wrap contract used by C17 (SpecSyntax.wrap_ok_b), discharged for the adapter
   SyntaxWrap.wrapf_text from C02's theorems about the model of Text.wrap (RichModel.Wrap):
   wrap_keeps_nonspace_all (C02_wrap_keeps_nonspace) and wrap_fits_all (C02_wrap_fits). *)
From RichModel Require Import Prelude Cells Segments Syntax SpecSyntax SyntaxWrap.
From RichModel Require Wrap SpecWrap.
From RichProofs Require Import CellsP SegmentsP SyntaxP SyntaxP2.
From RichProofs Require WrapP WrapP2 WrapP4.
From Coq Require Import ZifyBool Lia.

Definition nlfree (s : str) : Prop := nls s = 0%nat.

(* the contract: for a line without "\n" and a width >= 2 the produced lines are not none, keep the
   non-whitespace characters in order, and each fits *)
Definition WrapOk (wrapf : str -> Z -> bool -> list str) : Prop :=
  forall line w pad, 2 <= w -> nlfree line -> wrap_ok_b line w (wrapf line w pad) = true.

(* ---------------------------------------------------------------- small facts *)
Lemma drop_sp_shape y : exists k, y = repeat SP k ++ drop_sp y.
Proof.
  induction y as [|c r [k IH]]; [exists 0%nat; reflexivity|]. cbn [drop_sp]. unfold is_sp.
  destruct (c =? SP) eqn:E; [|exists 0%nat; reflexivity].
  assert (c = SP) by lia. subst. exists (S k). cbn [repeat app]. f_equal. exact IH.
Qed.

Lemma rev_repeat {A} (x : A) n : rev (repeat x n) = repeat x n.
Proof.
  induction n; [reflexivity|]. cbn [repeat rev]. rewrite IHn. clear.
  induction n; [reflexivity|]. cbn [repeat app]. f_equal. exact IHn.
Qed.

Lemma rstrip_sp_shape x : exists k, x = rstrip_sp x ++ repeat SP k.
Proof.
  unfold rstrip_sp. destruct (drop_sp_shape (rev x)) as [k Hk]. exists k.
  rewrite <- (rev_involutive x) at 1. rewrite Hk at 1. rewrite rev_app_distr, rev_repeat. reflexivity.
Qed.

Lemma cell_len_rstrip_sp_le x : cell_len (rstrip_sp x) <= cell_len x.
Proof.
  destruct (rstrip_sp_shape x) as [k Hk]. rewrite Hk at 2. rewrite cell_len_app.
  pose proof (cell_len_nonneg (repeat SP k)). lia.
Qed.

Lemma is_space_SP : Wrap.is_space SP = true.
Proof. vm_compute. reflexivity. Qed.

Lemma uns_app a b : uns (a ++ b) = uns a ++ uns b.
Proof. unfold uns, Wrap.nonspace. apply filter_app. Qed.
Lemma uns_spaces n : uns (repeat SP n) = [].
Proof. unfold uns, Wrap.nonspace. induction n; [reflexivity|]. cbn [repeat filter]. rewrite is_space_SP. exact IHn. Qed.

(* a line that fits is left alone by adjust_line_length, up to padding *)
Lemma crop_line_fits p w pad : cell_len p <= w -> exists k, crop_line p w pad = p ++ repeat SP k.
Proof.
  intros H. rewrite crop_line_eq. destruct (cell_len p <? w) eqn:E.
  - destruct pad; [exists (Z.to_nat (w - cell_len p)); reflexivity|exists 0%nat; rewrite app_nil_r; reflexivity].
  - replace (w <? cell_len p) with false by lia. exists 0%nat. rewrite app_nil_r. reflexivity.
Qed.

(* ---------------------------------------------------------------- Text.wrap produces at least one line *)
Lemma sep_positions_nlfree s : forall i, nlfree s -> Wrap.sep_positions NL s i = [].
Proof.
  unfold nlfree. induction s as [|c r IH]; intros i H; [reflexivity|]. cbn [nls Wrap.sep_positions] in *.
  destruct (c =? NL); [discriminate|]. apply IH. exact H.
Qed.

Lemma zip_ranges_length a b l : (1 <= length (Wrap.zip_ranges (a :: b :: l)))%nat.
Proof. cbn [Wrap.zip_ranges length]. lia. Qed.

Section Nonempty.
Variable S : Type.
Variable seqb : S -> S -> bool.
Variable null : S.
Variable add : S -> S -> S.
Variable fx : Wrap.fixes.

Lemma divide_nonempty (t : Wrap.text S) offs : Wrap.divide S seqb fx t offs <> [].
Proof.
  unfold Wrap.divide. destruct offs as [|o offs]; [discriminate|].
  set (ranges := Wrap.zip_ranges (0 :: (o :: offs) ++ [Wrap.tlen S t])).
  assert (Hr : (1 <= length ranges)%nat) by (unfold ranges; cbn [app]; apply zip_ranges_length).
  intros E. apply (f_equal (@length _)) in E. rewrite map_length, combine_length, map_length in E.
  cbn [length] in E.
  destruct (Wrap.spans t) as [|sp sps].
  - rewrite map_length in E. lia.
  - rewrite WrapP2.divide_spans_length in E. lia.
Qed.

Lemma wrap_line_nonempty w j ts (line : Wrap.text S) :
  j = Wrap.J_LEFT \/ j = Wrap.J_DEFAULT ->
  Wrap.wrap_line S seqb null add fx w j Wrap.OV_FOLD ts false line <> [].
Proof.
  intros Hj. unfold Wrap.wrap_line. cbv zeta.
  set (line' := if existsb (fun c => c =? Wrap.TAB) (Wrap.plain line) then Wrap.expand_tabs S seqb fx line ts else line).
  intros E. apply (f_equal (@length _)) in E. rewrite map_length in E.
  assert (Hjl : length (Wrap.justify_lines S seqb null add fx w j Wrap.OV_FOLD
                          (map (Wrap.rstrip_end S w) (Wrap.divide S seqb fx line' (Wrap.divide_line (Wrap.plain line') w (Wrap.OV_FOLD =? Wrap.OV_FOLD)))))
                = length (Wrap.divide S seqb fx line' (Wrap.divide_line (Wrap.plain line') w (Wrap.OV_FOLD =? Wrap.OV_FOLD)))).
  { destruct Hj as [-> | ->]; unfold Wrap.justify_lines.
    - rewrite Z.eqb_refl, !map_length. reflexivity.
    - change (Wrap.J_DEFAULT =? Wrap.J_LEFT) with false. change (Wrap.J_DEFAULT =? Wrap.J_CENTER) with false.
      change (Wrap.J_DEFAULT =? Wrap.J_RIGHT) with false. change (Wrap.J_DEFAULT =? Wrap.J_FULL) with false.
      cbv iota. rewrite map_length. reflexivity. }
  rewrite Hjl in E. cbn [length] in E.
  apply length_zero_iff_nil in E. exact (divide_nonempty _ _ E).
Qed.
End Nonempty.

Lemma wrap_texts_nonempty line w pad : nlfree line -> wrap_texts line w pad <> [].
Proof.
  intros Hn. unfold wrap_texts, Wrap.wrap, Wrap.split, line_text. cbn [Wrap.plain].
  rewrite (sep_positions_nlfree line 0 Hn). cbn [map concat]. rewrite app_nil_r.
  apply wrap_line_nonempty. destruct pad; [left|right]; reflexivity.
Qed.

(* ---------------------------------------------------------------- the contract holds of Text.wrap *)
Theorem wrapf_text_ok : WrapOk wrapf_text.
Proof.
  intros line w pad Hw Hn. unfold wrap_ok_b, wrapf_text.
  pose proof (WrapP2.wrap_fits_all unit (fun _ _ => true) tt (fun a _ => a) Wrap.repaired (line_text line) w
                (if pad then Wrap.J_LEFT else Wrap.J_DEFAULT) Wrap.OV_FOLD 8 false ltac:(lia) ltac:(discriminate)) as Hfit.
  pose proof (WrapP4.wrap_keeps_nonspace_all unit (fun _ _ => true) tt (fun a _ => a) Wrap.repaired (line_text line) w
                (if pad then Wrap.J_LEFT else Wrap.J_DEFAULT) 8 Hw) as Hkeep.
  pose proof (wrap_texts_nonempty line w pad Hn) as Hne.
  fold (wrap_texts line w pad) in Hfit, Hkeep.
  unfold SpecWrap.same_nonspace_b in Hkeep. apply str_eqb_eq in Hkeep. cbn [Wrap.plain line_text] in Hkeep.
  unfold SpecWrap.all_fit_b in Hfit.
  set (T := wrap_texts line w pad) in *.
  assert (Hcat : uns (concat (map (fun t => crop_line (Wrap.plain t) w pad) T)) = uns (concat (map (@Wrap.plain unit) T))).
  { clear Hkeep Hne. induction T as [|t T IH]; [reflexivity|]. cbn [map concat forallb] in *.
    apply andb_true_iff in Hfit as [H1 H2]. rewrite !uns_app, (IH H2). f_equal.
    destruct (crop_line_fits (Wrap.plain t) w pad ltac:(lia)) as [k ->]. rewrite uns_app, uns_spaces, app_nil_r. reflexivity. }
  rewrite Hcat. unfold uns at 1 2. rewrite Hkeep, str_eqb_refl. cbn [andb].
  apply andb_true_iff. split.
  - clear Hkeep Hne Hcat. induction T as [|t T IH]; [reflexivity|]. cbn [map forallb] in *.
    apply andb_true_iff in Hfit as [H1 H2]. rewrite (IH H2), andb_true_r.
    destruct (crop_line_fits (Wrap.plain t) w pad ltac:(lia)) as [k ->]. rewrite rstrip_sp_app_spaces.
    pose proof (cell_len_rstrip_sp_le (Wrap.plain t)). lia.
  - destruct T; [congruence|reflexivity].
Qed.
