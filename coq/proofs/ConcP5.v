(* C11, part 5: the record buffer and the file are appended inside the same critical section of
   Console._lock, so their orders agree under every schedule. *)
From RichModel Require Import Prelude Conc SpecConc.
From RichProofs Require Import ConcP4.
From Coq Require Import ZifyBool.
Open Scope list_scope.

Fixpoint nowrite (p : list instr) : bool :=
  match p with [] => true | IWrite :: _ | IRecord :: _ => false | _ :: r => nowrite r end.
Lemma nowrite_app a b : nowrite (a ++ b) = nowrite a && nowrite b.
Proof. induction a as [|x a IH]; cbn; auto. destruct x; auto. Qed.

(* reachable programs contain IRecord/IWrite only as a (suffix of a) flush sequence at the front *)
Definition shape_ok (p : list instr) : Prop :=
  exists w p', p = w ++ p' /\ nowrite p' = true
    /\ In w [[]; [IWrite]; [IRel LRecord; IWrite]; [IRecord; IRel LRecord; IWrite]; flush_seq].

Definition in_window (p : list instr) : bool :=
  match p with
  | IWrite :: _ => true
  | IRel LRecord :: IWrite :: _ => true
  | _ => false
  end.

Lemma nowrite_not_window p : nowrite p = true -> in_window p = false.
Proof.
  destruct p as [|x p]; auto. destruct x; cbn; auto; try discriminate.
  destruct l; auto. destruct p as [|y p]; auto. destruct y; cbn; auto; discriminate.
Qed.

Lemma nowrite_tail i r : nowrite (i :: r) = true -> nowrite r = true.
Proof. destruct i; cbn; auto; discriminate. Qed.

(* consequences of the shape for the instruction at the head *)
Definition is_macro (i : instr) : bool :=
  match i with ITest | IRdHooks _ | IStart | IStop | ILoop | ICheckDone | IStopA _ => true | _ => false end.

Lemma shape_step i r : shape_ok (i :: r) ->
  shape_ok r
  /\ (i = IRecord -> in_window r = true)
  /\ (in_window r = true -> i = IRecord \/ (i = IRel LRecord /\ exists r', r = IWrite :: r'))
  /\ (is_macro i = true -> nowrite r = true).
Proof.
  intros [w [p' [E [N Hin]]]].
  cbn [In] in Hin. destruct Hin as [H|[H|[H|[H|[H|[]]]]]]; subst w; cbn [app flush_seq] in E.
  - subst p'. pose proof (nowrite_tail _ _ N) as Nr. split; [exists [], r; cbn; auto 10|].
    split; [intro; subst; discriminate N|]. split; [intro W; rewrite (nowrite_not_window _ Nr) in W; discriminate | auto].
  - inversion E; subst. split; [exists [], p'; cbn; auto 10|].
    split; [discriminate|]. split; [intro W; rewrite (nowrite_not_window _ N) in W; discriminate | intro X; cbn in X; discriminate X].
  - inversion E; subst. split; [exists [IWrite], p'; cbn; auto 10|].
    split; [discriminate|]. split; [intros _; right; split; eauto | intro X; cbn in X; discriminate X].
  - inversion E; subst. split; [exists [IRel LRecord; IWrite], p'; cbn; auto 10|].
    split; [reflexivity|]. split; [auto | intro X; cbn in X; discriminate X].
  - inversion E; subst. split; [exists [IRecord; IRel LRecord; IWrite], p'; cbn; auto 10|].
    split; [discriminate|]. split; [intro W; discriminate W | intro X; cbn in X; discriminate X].
Qed.

Lemma nowrite_print_rest rep h c : nowrite (print_rest rep h c) = true.
Proof. destruct rep, h, c; reflexivity. Qed.

Lemma shape_nowrite p : nowrite p = true -> shape_ok p.
Proof. intros. exists [], p. cbn. auto. Qed.

Lemma shape_compile ops : nowrite (compile ops) = true.
Proof.
  induction ops as [|o r IH]; cbn [compile flat_map]; auto.
  change (flat_map compile_op r) with (compile r). rewrite nowrite_app, IH.
  destruct o; try reflexivity. destruct refresh; reflexivity.
Qed.

Lemma exec_shape rep t s ts r i s' ts' :
  shape_ok (i :: r) -> exec rep t s (set_prog ts r) i = Some (s', ts') -> shape_ok (prog ts').
Proof.
  intros Sh He. destruct (shape_step _ _ Sh) as [Sr [_ [_ Sn]]].
  destruct (exec_prog_cases _ _ _ _ _ _ _ _ He)
    as [[H _]|[[Hi H]|[[c [h [Hi H]]]|[[Hi H]|[[Hi H]|[[Hi H]|[[Hi H]|[[rt [Hi H]]|[rt [Hi H]]]]]]]]]]; rewrite H; subst; auto.
  - exists flush_seq, r. split; auto. split; [apply Sn; reflexivity | cbn; auto 6].
  - apply shape_nowrite. rewrite nowrite_app, nowrite_print_rest. apply Sn; reflexivity.
  - apply shape_nowrite. rewrite nowrite_app. cbn. apply Sn; reflexivity.
  - apply shape_nowrite. rewrite nowrite_app. cbn. apply Sn; reflexivity.
  - apply shape_nowrite. rewrite nowrite_app. cbn. apply Sn; reflexivity.
  - apply shape_nowrite. rewrite nowrite_app. cbn. apply Sn; reflexivity.
  - apply shape_nowrite. rewrite nowrite_app. cbn. apply Sn; reflexivity.
  - apply shape_nowrite. cbn. apply Sn; reflexivity.
Qed.

(* ---- the window between _record_buffer.extend and file.write *)
Definition window (st : state) : list (tid * list item) :=
  match lkC (sh st) with
  | Some (u, _) =>
      if in_window (prog (th st u)) && negb (is_nil (buf (th st u))) then [(u, buf (th st u))] else []
  | None => []
  end.

Record RInv (st : state) : Prop := {
  r_inv : Inv st;
  r_shape : forall t, shape_ok (prog (th st t));
  r_rec : written_part (record (sh st)) = file (sh st) ++ window st
}.

Lemma written_part_app a b : written_part (a ++ b) = written_part a ++ written_part b.
Proof. unfold written_part. rewrite filter_app, map_app. reflexivity. Qed.

Lemma in_window_holds st u :
  Inv st -> in_window (prog (th st u)) = true -> exists n, lkC (sh st) = Some (u, n).
Proof.
  intros [Ip Ic Ig] W. specialize (Ig u). specialize (Ic u LConsole).
  apply (held_owner (sh st) LConsole u Ip). rewrite Ic.
  destruct (prog (th st u)) as [|x p]; [discriminate|]. destruct x; try discriminate W.
  - destruct l; try discriminate W. destruct p as [|y p]; [discriminate|]. destruct y; try discriminate W.
    pose proof (good_head _ (good_tail _ _ Ig)) as [_ [_ H]]. cbn [rma lock_eqb] in *. lia.
  - pose proof (good_head _ Ig) as [_ [_ H]]. exact H.
Qed.

Lemma head_holds_console st t i r :
  Inv st -> prog (th st t) = i :: r -> (i = IRecord \/ i = IWrite) -> exists n, lkC (sh st) = Some (t, n).
Proof.
  intros [Ip Ic Ig] Hp Hi. specialize (Ig t). specialize (Ic t LConsole). rewrite Hp in *.
  apply (held_owner (sh st) LConsole t Ip). rewrite Ic.
  pose proof (good_head _ Ig) as [_ [_ H]]. destruct Hi; subst; exact H.
Qed.

(* what instructions other than IRecord / IWrite / lock operations do to file, record, console lock *)
Lemma exec_other rep t s ts i s' ts' :
  is_lock_op i = false -> i <> IRecord -> i <> IWrite ->
  exec rep t s ts i = Some (s', ts') ->
  file s' = file s /\ written_part (record s') = written_part (record s) /\ lkC s' = lkC s.
Proof.
  intros Hl H1 H2 He. destruct i; cbn [is_lock_op] in Hl; try discriminate Hl; try congruence; cbn [exec] in He;
    try (inversion He; subst; clear He; repeat split; reflexivity).
  - inversion He; subst; clear He. destruct (is_nil (buf ts)); [repeat split; reflexivity|].
    cbn [file record set_record lkC]. rewrite written_part_app. cbn. rewrite app_nil_r. auto.
  - destruct (hooks s); inversion He; subst; repeat split; reflexivity.
  - destruct (existsb (Nat.eqb t0) (fin s)); inversion He; subst; repeat split; reflexivity.
  - destruct (done s); inversion He; subst; repeat split; reflexivity.
Qed.

Lemma in_window_expansions rep h c r :
  in_window (flush_seq ++ r) = false /\ in_window (print_rest rep h c ++ r) = in_window (match c with Some _ => [IExtend] | None => [IExtend] end ++ r) /\
  in_window (start_rest ++ r) = false /\ in_window (stop_rest ++ r) = false.
Proof. destruct rep, h, c; cbn; auto. Qed.

Ltac other :=
  match goal with
  | Ee : exec ?rep ?t ?s ?ts ?i = Some (?s', ?ts') |- _ =>
      destruct (exec_other rep t s ts i s' ts' eq_refl ltac:(discriminate) ltac:(discriminate) Ee) as [F [W L]]
  end.

Lemma step_rinv rep st t st' : RInv st -> step rep st t = Some st' -> RInv st'.
Proof.
  intros [I Sh R] Hs. pose proof (step_inv _ _ _ _ I Hs) as I'.
  unfold step in Hs.
  destruct (prog (th st t)) as [|i r] eqn:Ep; [discriminate|].
  destruct (exec rep t (sh st) (set_prog (th st t) r) i) as [[s' ts']|] eqn:Ee; [|discriminate].
  inversion Hs; subst; clear Hs.
  pose proof (Sh t) as Sht. rewrite Ep in Sht.
  destruct (shape_step _ _ Sht) as [Sr [S2 [S1 Sn]]].
  assert (Sh' : forall u, shape_ok (prog (th (mkSt s' (upd (th st) t ts')) u))).
  { intros u. cbn [th]. unfold upd. destruct (Nat.eqb u t); [|apply Sh]. eapply exec_shape; eauto. }
  split; auto. cbn [sh th].
  (* the window of the new state *)
  assert (Wother : forall u, u <> t -> upd (th st) t ts' u = th st u).
  { intros u Hu. unfold upd. destruct (Nat.eqb u t) eqn:E; auto. apply Nat.eqb_eq in E. congruence. }
  assert (Wself : upd (th st) t ts' t = ts') by (unfold upd; rewrite Nat.eqb_refl; reflexivity).
  unfold window in *. cbn [sh th] in *.
  destruct i.
  - (* IAcq *) cbn [exec] in Ee. destruct (acquire (getl (sh st) l) t) as [v|] eqn:Ea; inversion Ee; subst; clear Ee.
    assert (Wr : in_window r = false).
    { destruct (in_window r) eqn:W; auto. destruct (S1 eq_refl) as [X|[X _]]; discriminate X. }
    destruct l; cbn [file record setl lkC getl] in *.
    + rewrite R. destruct (lkC (sh st)) as [[u n]|]; auto. unfold upd. destruct (Nat.eqb u t) eqn:E; auto.
      apply Nat.eqb_eq in E. subst u. cbn [prog set_prog]. rewrite Ep, Wr. reflexivity.
    + rewrite R. unfold acquire in Ea. destruct (lkC (sh st)) as [[u n]|].
      * destruct (Nat.eqb u t) eqn:E; [|discriminate]. apply Nat.eqb_eq in E. subst u. inversion Ea; subst.
        rewrite Wself. cbn [prog set_prog]. rewrite Ep, Wr. reflexivity.
      * inversion Ea; subst. rewrite Wself. cbn [prog set_prog]. rewrite Wr. reflexivity.
    + rewrite R. destruct (lkC (sh st)) as [[u n]|]; auto. unfold upd. destruct (Nat.eqb u t) eqn:E; auto.
      apply Nat.eqb_eq in E. subst u. cbn [prog set_prog]. rewrite Ep, Wr. reflexivity.
  - (* IRel *) cbn [exec] in Ee. destruct (release (getl (sh st) l) t) as [v|] eqn:Ea; inversion Ee; subst; clear Ee.
    destruct l; cbn [file record setl lkC getl] in *.
    + assert (Wr : in_window r = false).
      { destruct (in_window r) eqn:W; auto. destruct (S1 eq_refl) as [X|[X _]]; discriminate X. }
      rewrite R. destruct (lkC (sh st)) as [[u n]|]; auto. unfold upd. destruct (Nat.eqb u t) eqn:E; auto.
      apply Nat.eqb_eq in E. subst u. cbn [prog set_prog]. rewrite Ep, Wr. reflexivity.
    + assert (Wr : in_window r = false).
      { destruct (in_window r) eqn:W; auto. destruct (S1 eq_refl) as [X|[X _]]; discriminate X. }
      rewrite R. unfold release in Ea. destruct (lkC (sh st)) as [[u n]|]; [|discriminate].
      destruct n; [discriminate|]. destruct (Nat.eqb u t) eqn:E; [|discriminate]. apply Nat.eqb_eq in E. subst u.
      rewrite Ep. cbn [in_window andb]. inversion Ea; subst. destruct n; auto.
      rewrite Wself. cbn [prog set_prog]. rewrite Wr. reflexivity.
    + rewrite R. destruct (lkC (sh st)) as [[u n]|]; auto. unfold upd. destruct (Nat.eqb u t) eqn:E; auto.
      apply Nat.eqb_eq in E. subst u. cbn [prog set_prog buf]. rewrite Ep.
      destruct (in_window r) eqn:W.
      * destruct (S1 eq_refl) as [X|[_ [r' X]]]; [discriminate X|]. subst r. reflexivity.
      * destruct r as [|y r']; auto. destruct y; auto. discriminate W.
  - (* IEnter *) other.
    rewrite F, W, L, R. destruct (lkC (sh st)) as [[u n]|]; auto. unfold upd. destruct (Nat.eqb u t) eqn:E; auto.
    apply Nat.eqb_eq in E. subst u. rewrite Ep. cbn [in_window andb]. inversion Ee; subst. cbn [prog set_prog set_depth].
    destruct (in_window r) eqn:Wd; auto; destruct (S1 eq_refl) as [X|[X _]]; discriminate X.
  - (* IExitDec *) other.
    rewrite F, W, L, R. destruct (lkC (sh st)) as [[u n]|]; auto. unfold upd. destruct (Nat.eqb u t) eqn:E; auto.
    apply Nat.eqb_eq in E. subst u. rewrite Ep. cbn [in_window andb]. inversion Ee; subst. cbn [prog set_prog set_depth].
    destruct (in_window r) eqn:Wd; auto; destruct (S1 eq_refl) as [X|[X _]]; discriminate X.
  - (* ITest *) other.
    rewrite F, W, L, R. destruct (lkC (sh st)) as [[u n]|]; auto. unfold upd. destruct (Nat.eqb u t) eqn:E; auto.
    apply Nat.eqb_eq in E. subst u. rewrite Ep. cbn [in_window andb]. inversion Ee; subst.
    cbn [depth set_prog]. destruct (depth (th st t) =? 0); cbn [prog set_prog flush_seq app in_window andb]; auto.
    destruct (in_window r) eqn:Wd; auto; destruct (S1 eq_refl) as [X|[X _]]; discriminate X.
  - (* IRecord *) destruct (head_holds_console st t _ _ I Ep (or_introl eq_refl)) as [n Hn].
    cbn [exec] in Ee. pose proof (S2 eq_refl) as Wr.
    destruct (is_nil (buf (set_prog (th st t) r))) eqn:Eb; inversion Ee; subst; clear Ee;
      cbn [file record set_record lkC] in *; rewrite Hn in *; rewrite Wself; rewrite Ep in R;
      cbn [in_window andb prog set_prog buf] in *; rewrite Wr.
    + cbn [buf set_prog] in Eb. rewrite Eb. cbn. exact R.
    + cbn [buf set_prog] in Eb. rewrite Eb. cbn [negb andb]. rewrite written_part_app, R. cbn.
      rewrite !app_nil_r. reflexivity.
  - (* IWrite *) destruct (head_holds_console st t _ _ I Ep (or_intror eq_refl)) as [n Hn].
    cbn [exec] in Ee.
    assert (Wr : in_window r = false).
    { destruct (in_window r) eqn:W; auto. destruct (S1 eq_refl) as [X|[X _]]; discriminate X. }
    destruct (is_nil (buf (set_prog (th st t) r))) eqn:Eb; inversion Ee; subst; clear Ee;
      cbn [file record set_file lkC] in *; rewrite Hn in *; rewrite Wself; rewrite Ep in R;
      cbn [in_window andb prog set_prog set_olog set_buf buf] in *; cbn [buf set_prog] in Eb; rewrite Eb in R.
    + rewrite Wr. cbn in *. exact R.
    + cbn [negb] in R. rewrite R. cbn [is_nil negb andb]. rewrite Bool.andb_false_r, app_nil_r. reflexivity.
  - (* IRdHooks *) other.
    rewrite F, W, L, R. destruct (lkC (sh st)) as [[u n]|]; auto. unfold upd. destruct (Nat.eqb u t) eqn:E; auto.
    apply Nat.eqb_eq in E. subst u. rewrite Ep. cbn [in_window andb]. inversion Ee; subst. cbn [prog set_prog].
    match goal with |- context [print_rest ?a ?b ?c ++ r] => destruct a, b, c end; reflexivity.
  - (* IRdShape *) other.
    rewrite F, W, L, R. destruct (lkC (sh st)) as [[u n]|]; auto. unfold upd. destruct (Nat.eqb u t) eqn:E; auto.
    apply Nat.eqb_eq in E. subst u. rewrite Ep. cbn [in_window andb]. inversion Ee; subst. cbn [prog set_prog set_pend].
    destruct (in_window r) eqn:Wd; auto; destruct (S1 eq_refl) as [X|[X _]]; discriminate X.
  - (* IRenderTxt *) other.
    rewrite F, W, L, R. destruct (lkC (sh st)) as [[u n]|]; auto. unfold upd. destruct (Nat.eqb u t) eqn:E; auto.
    apply Nat.eqb_eq in E. subst u. rewrite Ep. cbn [in_window andb]. inversion Ee; subst. cbn [prog set_prog set_pend].
    destruct (in_window r) eqn:Wd; auto; destruct (S1 eq_refl) as [X|[X _]]; discriminate X.
  - (* IRenderLive *) other.
    rewrite F, W, L, R. destruct (lkC (sh st)) as [[u n]|]; auto. unfold upd. destruct (Nat.eqb u t) eqn:E; auto.
    apply Nat.eqb_eq in E. subst u. rewrite Ep. cbn [in_window andb]. inversion Ee; subst. cbn [prog set_prog set_pend].
    destruct (in_window r) eqn:Wd; auto; destruct (S1 eq_refl) as [X|[X _]]; discriminate X.
  - (* IExtend *) other.
    rewrite F, W, L, R. destruct (lkC (sh st)) as [[u n]|]; auto. unfold upd. destruct (Nat.eqb u t) eqn:E; auto.
    apply Nat.eqb_eq in E. subst u. rewrite Ep. cbn [in_window andb]. inversion Ee; subst. cbn [prog set_prog set_pend set_buf].
    destruct (in_window r) eqn:Wd; auto; destruct (S1 eq_refl) as [X|[X _]]; discriminate X.
  - (* IEndCap *) other.
    rewrite F, W, L, R. destruct (lkC (sh st)) as [[u n]|]; auto. unfold upd. destruct (Nat.eqb u t) eqn:E; auto.
    apply Nat.eqb_eq in E. subst u. rewrite Ep. cbn [in_window andb]. inversion Ee; subst. cbn [prog set_prog set_olog set_buf].
    destruct (in_window r) eqn:Wd; auto; destruct (S1 eq_refl) as [X|[X _]]; discriminate X.
  - (* ICtl *) other.
    rewrite F, W, L, R. destruct (lkC (sh st)) as [[u n]|]; auto. unfold upd. destruct (Nat.eqb u t) eqn:E; auto.
    apply Nat.eqb_eq in E. subst u. rewrite Ep. cbn [in_window andb]. inversion Ee; subst. cbn [prog set_prog set_buf].
    destruct (in_window r) eqn:Wd; auto; destruct (S1 eq_refl) as [X|[X _]]; discriminate X.
  - (* ISetRend *) other.
    rewrite F, W, L, R. destruct (lkC (sh st)) as [[u n]|]; auto. unfold upd. destruct (Nat.eqb u t) eqn:E; auto.
    apply Nat.eqb_eq in E. subst u. rewrite Ep. cbn [in_window andb]. inversion Ee; subst. cbn [prog set_prog].
    destruct (in_window r) eqn:Wd; auto; destruct (S1 eq_refl) as [X|[X _]]; discriminate X.
  - (* IStart *) other.
    rewrite F, W, L, R. destruct (lkC (sh st)) as [[u n]|]; auto. unfold upd. destruct (Nat.eqb u t) eqn:E; auto.
    apply Nat.eqb_eq in E. subst u. rewrite Ep. cbn [in_window andb]. inversion Ee; subst.
    match goal with |- context [started ?x] => destruct (started x) end; cbn [prog set_prog start_rest check_seq app in_window andb]; auto.
    destruct (in_window r) eqn:Wd; auto; destruct (S1 eq_refl) as [X|[X _]]; discriminate X.
  - (* IStop *) other.
    rewrite F, W, L, R. destruct (lkC (sh st)) as [[u n]|]; auto. unfold upd. destruct (Nat.eqb u t) eqn:E; auto.
    apply Nat.eqb_eq in E. subst u. rewrite Ep. cbn [in_window andb]. inversion Ee; subst.
    match goal with |- context [started ?x] => destruct (started x) end; cbn [prog set_prog stop_rest app in_window andb]; auto.
    destruct (in_window r) eqn:Wd; auto; destruct (S1 eq_refl) as [X|[X _]]; discriminate X.
  - (* ISetStarted *) other.
    rewrite F, W, L, R. destruct (lkC (sh st)) as [[u n]|]; auto. unfold upd. destruct (Nat.eqb u t) eqn:E; auto.
    apply Nat.eqb_eq in E. subst u. rewrite Ep. cbn [in_window andb]. inversion Ee; subst. cbn [prog set_prog].
    destruct (in_window r) eqn:Wd; auto; destruct (S1 eq_refl) as [X|[X _]]; discriminate X.
  - (* IPushHook *) other.
    rewrite F, W, L, R. destruct (lkC (sh st)) as [[u n]|]; auto. unfold upd. destruct (Nat.eqb u t) eqn:E; auto.
    apply Nat.eqb_eq in E. subst u. rewrite Ep. cbn [in_window andb]. inversion Ee; subst. cbn [prog set_prog].
    destruct (in_window r) eqn:Wd; auto; destruct (S1 eq_refl) as [X|[X _]]; discriminate X.
  - (* IPopHook *) other.
    rewrite F, W, L, R. destruct (lkC (sh st)) as [[u n]|]; auto. unfold upd. destruct (Nat.eqb u t) eqn:E; auto.
    apply Nat.eqb_eq in E. subst u. rewrite Ep. cbn [in_window andb]. cbn [exec] in Ee.
    destruct (hooks (sh st)); inversion Ee; subst. cbn [prog set_prog].
    destruct (in_window r) eqn:Wd; auto; destruct (S1 eq_refl) as [X|[X _]]; discriminate X.
  - (* IResetShape *) other.
    rewrite F, W, L, R. destruct (lkC (sh st)) as [[u n]|]; auto. unfold upd. destruct (Nat.eqb u t) eqn:E; auto.
    apply Nat.eqb_eq in E. subst u. rewrite Ep. cbn [in_window andb]. inversion Ee; subst. cbn [prog set_prog].
    destruct (in_window r) eqn:Wd; auto; destruct (S1 eq_refl) as [X|[X _]]; discriminate X.
  - (* ISetDone *) other.
    rewrite F, W, L, R. destruct (lkC (sh st)) as [[u n]|]; auto. unfold upd. destruct (Nat.eqb u t) eqn:E; auto.
    apply Nat.eqb_eq in E. subst u. rewrite Ep. cbn [in_window andb]. inversion Ee; subst. cbn [prog set_prog].
    all: destruct (in_window r) eqn:Wd; auto; destruct (S1 eq_refl) as [X|[X _]]; discriminate X.
  - (* IJoin *) other.
    rewrite F, W, L, R. destruct (lkC (sh st)) as [[u n]|]; auto. unfold upd. destruct (Nat.eqb u t) eqn:E; auto.
    apply Nat.eqb_eq in E. subst u. rewrite Ep. cbn [in_window andb]. cbn [exec] in Ee. destruct (existsb (Nat.eqb t0) (fin (sh st))); inversion Ee; subst. cbn [prog set_prog].
    all: destruct (in_window r) eqn:Wd; auto; destruct (S1 eq_refl) as [X|[X _]]; discriminate X.
  - (* ILoop *) other.
    rewrite F, W, L, R. destruct (lkC (sh st)) as [[u n]|]; auto. unfold upd. destruct (Nat.eqb u t) eqn:E; auto.
    apply Nat.eqb_eq in E. subst u. rewrite Ep. cbn [in_window andb]. cbn [exec] in Ee. destruct (done (sh st)); inversion Ee; subst; cbn [prog set_prog tick_seq app in_window andb]; auto.
    all: destruct (in_window r) eqn:Wd; auto; destruct (S1 eq_refl) as [X|[X _]]; discriminate X.
  - (* ICheckDone *) other.
    rewrite F, W, L, R. destruct (lkC (sh st)) as [[u n]|]; auto. unfold upd. destruct (Nat.eqb u t) eqn:E; auto.
    apply Nat.eqb_eq in E. subst u. rewrite Ep. cbn [in_window andb]. inversion Ee; subst. match goal with |- context [done ?x] => destruct (done x) end; cbn [prog set_prog refresh_seq app in_window andb]; auto.
    all: destruct (in_window r) eqn:Wd; auto; destruct (S1 eq_refl) as [X|[X _]]; discriminate X.
  - (* IStopA *) other.
    rewrite F, W, L, R. destruct (lkC (sh st)) as [[u n]|]; auto. unfold upd. destruct (Nat.eqb u t) eqn:E; auto.
    apply Nat.eqb_eq in E. subst u. rewrite Ep. cbn [in_window andb]. inversion Ee; subst. match goal with |- context [started ?x] => destruct (started x) end; cbn [prog set_prog stopa_rest app in_window andb]; auto.
    all: destruct (in_window r) eqn:Wd; auto; destruct (S1 eq_refl) as [X|[X _]]; discriminate X.
Qed.

Lemma init_rinv live sh0 r0 progs : RInv (init_state live sh0 r0 progs).
Proof.
  split.
  - apply init_inv.
  - intros t. cbn. apply shape_nowrite, shape_compile.
  - reflexivity.
Qed.

Lemma run_rinv rep sched : forall st, RInv st -> RInv (run rep sched st).
Proof.
  induction sched as [|t r IH]; intros st I; cbn [run]; auto.
  destruct (step rep st t) eqn:E; auto. apply IH. eapply step_rinv; eauto.
Qed.

Lemma list_eqb_pid_refl l : list_eqb pid_eqb l l = true.
Proof.
  induction l as [|[t i] l IH]; cbn [list_eqb]; auto. unfold pid_eqb at 1. cbn [fst snd].
  rewrite Nat.eqb_refl, Z.eqb_refl. cbn [andb]. exact IH.
Qed.

(* under every schedule: whenever the console lock is free (e.g. all threads finished), the
   recorded copy minus captured text IS the file *)
Theorem record_order_quiescent rep live sh0 r0 progs sched :
  let st := run rep sched (init_state live sh0 r0 progs) in
  lkC (sh st) = None ->
  written_part (record (sh st)) = file (sh st) /\ record_order_b (file (sh st)) (record (sh st)) = true.
Proof.
  intros st Hl. destruct (run_rinv rep sched _ (init_rinv live sh0 r0 progs)) as [_ _ R].
  fold st in R. unfold window in R. rewrite Hl, app_nil_r in R.
  split; auto. unfold record_order_b. rewrite R. apply list_eqb_pid_refl.
Qed.

(* ... and in every reachable state at most one payload is ahead in the record *)
Theorem record_order_always rep live sh0 r0 progs sched :
  let st := run rep sched (init_state live sh0 r0 progs) in
  written_part (record (sh st)) = file (sh st) ++ window st.
Proof. intros st. exact (r_rec _ (run_rinv rep sched _ (init_rinv live sh0 r0 progs))). Qed.
