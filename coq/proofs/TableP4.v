(* C07 deepening (2b): text cells (Text, or Padding(Text) as Table._get_cells builds them) with
   overflow "fold" meet the cell contract of TableP3 -- their lines fit the column and carry
   exactly the non-whitespace characters of the text, in order (C02: wrap_keeps_nonspace_all,
   wrap_fits_all; C01: text_stream_fits, padding_sfits) -- hence every character of every cell
   appears inside its own column's span and nowhere else. *)
From RichModel Require Import Prelude Cells Segments Ratio Table SpecTable Frames Layout.
From RichModel Require Wrap SpecWrap.
From RichProofs Require Import CellsP SegmentsP SegmentsP2 RatioP TableP TableP3 WrapP WrapP2 WrapP3 WrapP4 WrapP5
                               FramesP2 LayoutP LayoutP3 LayoutP4.
From Coq Require Import ZifyBool.

(* the whitespace of SpecTable.is_ws is str.isspace of the running interpreter (regenerated) *)
Lemma is_ws_is_space c : SpecTable.is_ws c = Wrap.is_space c.
Proof. unfold SpecTable.is_ws, Wrap.is_space. cbn [existsb RichGen.UnicodeSpace.SPACE_RANGES fst snd]. lia. Qed.

Section Split.
Variable f : Z -> bool.
Hypothesis fNL : f NL = false.

Definition ft (l : list (seg Z)) : str := filter f (line_text l).
Definition Fl (ls : list (list (seg Z))) : str := concat (map ft ls).

Lemma ft_app a b : ft (a ++ b) = ft a ++ ft b.
Proof. unfold ft. rewrite line_text_app. apply filter_app. Qed.
Lemma Fl_app a b : Fl (a ++ b) = Fl a ++ Fl b.
Proof. unfold Fl. rewrite map_app, concat_app. reflexivity. Qed.
Lemma ft_seg (t : str) (st : option Z) : ft [mkSeg t st false] = filter f t.
Proof. unfold ft. rewrite line_text_seg1. reflexivity. Qed.

Lemma partition_nl_spec : forall s a nl b, partition_nl s = (a, nl, b) ->
  s = a ++ (if nl then NL :: b else []) /\ (nl = false -> b = []) /\ (length b <= length s)%nat.
Proof.
  induction s as [|c s IH]; intros a nl b H.
  - cbn in H. injection H as <- <- <-. repeat split; auto.
  - cbn [partition_nl] in H. destruct (c =? NL) eqn:E.
    + injection H as <- <- <-. assert (c = NL) by lia. subst. repeat split; [discriminate|simpl; lia].
    + destruct (partition_nl s) as [[a' nl'] b'] eqn:E2. injection H as <- <- <-.
      destruct (IH a' nl' b' eq_refl) as [I1 [I2 I3]]. repeat split; [cbn [app]; f_equal; exact I1|exact I2|simpl; lia].
Qed.

Lemma split_text_content : forall fuel text st (line : list (seg Z)) done, (length text < fuel)%nat ->
  let '(line', done') := split_text Z fuel text st line done in
  Fl (rev done') ++ ft (rev line') = Fl (rev done) ++ ft (rev line) ++ filter f text.
Proof.
  induction fuel as [|fu IH]; intros text st line done Hf; [lia|].
  cbn [split_text]. destruct text as [|c text]; [cbn [filter]; rewrite app_nil_r; reflexivity|].
  destruct (partition_nl (c :: text)) as [[a nl] b] eqn:E.
  destruct (partition_nl_spec _ _ _ _ E) as [P1 [P2 P3]].
  set (line1 := match a with [] => line | _ => mkSeg a st false :: line end).
  assert (H1 : ft (rev line1) = ft (rev line) ++ filter f a).
  { unfold line1. destruct a as [|x a]; [cbn [filter]; rewrite app_nil_r; reflexivity|].
    cbn [rev]. rewrite ft_app, ft_seg. reflexivity. }
  destruct nl.
  - assert (Hlt : (length b < fu)%nat).
    { assert (length (c :: text) = length (a ++ NL :: b)) by (rewrite <- P1; reflexivity).
      rewrite app_length in H. simpl in H, Hf. simpl. lia. }
    specialize (IH b st [] (rev line1 :: done) Hlt).
    destruct (split_text Z fu b st [] (rev line1 :: done)) as [l' d'].
    rewrite IH. cbn [rev]. rewrite Fl_app. unfold Fl at 2. cbn [map concat]. rewrite app_nil_r, H1.
    change (ft []) with (@nil Z). rewrite P1, filter_app. cbn [filter]. rewrite fNL. cbn [app].
    rewrite <- ?app_assoc. reflexivity.
  - rewrite (P2 eq_refl) in *. destruct fu as [|fu']; [simpl in Hf; lia|]. cbn [split_text].
    rewrite H1, P1, app_nil_r. rewrite <- ?app_assoc. reflexivity.
Qed.

Lemma split_lines_go_content : forall (segs line : list (seg Z)) done,
  Fl (split_lines_go Z segs line done) = Fl (rev done) ++ ft (rev line) ++ ft segs.
Proof.
  induction segs as [|g segs IH]; intros line done.
  - cbn [split_lines_go]. change (ft []) with (@nil Z). rewrite app_nil_r. destruct line as [|x line].
    + change (ft (rev [])) with (@nil Z). rewrite app_nil_r. reflexivity.
    + cbn [rev]. rewrite Fl_app. unfold Fl at 2. cbn [map concat]. rewrite app_nil_r. reflexivity.
  - cbn [split_lines_go]. rewrite (ft_app [g] segs : ft (g :: segs) = ft [g] ++ ft segs).
    destruct (has_nl (txt g) && negb (ctl g)) eqn:E.
    + apply andb_true_iff in E as [_ Ec]. destruct (ctl g) eqn:Eg; [discriminate|].
      pose proof (split_text_content (S (length (txt g))) (txt g) (sty g) line done ltac:(lia)) as Hs.
      destruct (split_text Z (S (length (txt g))) (txt g) (sty g) line done) as [l' d'].
      rewrite IH. rewrite app_assoc, Hs. unfold ft at 4, line_text. cbn [map concat]. rewrite Eg, app_nil_r.
      rewrite <- ?app_assoc. reflexivity.
    + rewrite IH. cbn [rev]. rewrite ft_app. rewrite <- ?app_assoc. reflexivity.
Qed.

(* splitting a stream into lines neither loses nor reorders characters other than the newlines *)
Lemma split_lines_content (segs : list (seg Z)) : Fl (split_lines segs) = ft segs.
Proof. unfold split_lines. rewrite split_lines_go_content. reflexivity. Qed.
End Split.

(* ------------------------------------------------------------------ children that keep their content *)
Section Good.
Variable skip : list Z.

Lemma keepc_NL : keepc skip NL = false.
Proof. reflexivity. Qed.

Definition scontent (segs : list (seg Z)) : str := content skip (Table.line_text segs).

Lemma scontent_split segs : cell_content skip (split_lines segs) = scontent segs.
Proof. exact (split_lines_content (keepc skip) keepc_NL segs). Qed.

(* a child rendered at width w: its stream fits w and carries the content characters X *)
Definition good (c : child) (w : Z) (X : str) : Prop :=
  sfits w (render_at c w) /\ scontent (render_at c w) = X.

Lemma lcontent_adjust_fits (l : list (seg Z)) w st pad : line_len l <= w ->
  lcontent skip (adjust_line_length l w st pad) = lcontent skip l.
Proof.
  intros Hl. unfold adjust_line_length. destruct (line_len l <? w).
  - destruct pad; [|reflexivity]. rewrite lcontent_app. unfold lcontent at 2.
    rewrite line_text_seg1, content_spaces. apply app_nil_r.
  - destruct (w <? line_len l) eqn:E; [lia|reflexivity].
Qed.

Lemma cell_content_map_adjust w st pad : forall ls : list (list (seg Z)),
  Forall (fun l => line_len l <= w) ls ->
  cell_content skip (map (fun l => adjust_line_length l w st pad) ls) = cell_content skip ls.
Proof.
  induction 1 as [|l ls Hl _ IH]; [reflexivity|]. unfold cell_content in *. cbn [map concat].
  rewrite (lcontent_adjust_fits l w st pad Hl). f_equal. exact IH.
Qed.

(* wide_ok in terms of the content *)
Lemma wide_ok_content s : Forall (fun c => 1 <= char_size c) (content skip s) -> wide_ok skip s.
Proof.
  induction s as [|c s IH]; intros H; [constructor|]. cbn [content filter] in H.
  destruct (keepc skip c) eqn:E.
  - inversion H; subst. constructor; [intros _; assumption|apply IH; assumption].
  - constructor; [intros HH; rewrite E in HH; discriminate|apply IH; exact H].
Qed.

Lemma Forall_concat_in {A} (P : A -> Prop) (ls : list (list A)) l : Forall P (concat ls) -> In l ls -> Forall P l.
Proof.
  induction ls as [|x ls IH]; intros H Hin; [contradiction|]. cbn [concat] in H. apply Forall_app in H as [H1 H2].
  destruct Hin as [->|Hin]; [exact H1|apply IH; assumption].
Qed.

(* what Table._render gets from console.render_lines(cell, width=w): lines that fit the column and
   carry exactly X *)
Lemma good_cell c w X : good c w X -> 0 <= w -> Forall (fun ch => 1 <= char_size ch) X ->
  Forall (raw_ok skip w) (Frames.render_lines c w None true) /\
  cell_content skip (Frames.render_lines c w None true) = X.
Proof.
  intros [Hf Hc] Hw HX. rewrite render_lines_eq. unfold sfits in Hf.
  set (Ls := split_lines (render_at c w)) in *.
  assert (HLs : cell_content skip Ls = X) by (unfold Ls; rewrite scontent_split; exact Hc).
  split; [|rewrite cell_content_map_adjust by exact Hf; exact HLs].
  apply Forall_forall. intros l Hl. apply in_map_iff in Hl as [l0 [<- Hl0]].
  rewrite Forall_forall in Hf. specialize (Hf l0 Hl0).
  assert (Hw0 : wide_ok skip (Table.line_text l0)).
  { apply wide_ok_content. rewrite <- HLs in HX. unfold cell_content in HX.
    apply (Forall_concat_in _ _ _ HX). apply in_map_iff. exists l0. split; [reflexivity|exact Hl0]. }
  destruct (adjust_raw_ok skip l0 w None Hw (conj Hf Hw0)) as [[A1 A2] _]. split; [lia|exact A2].
Qed.

(* Padding(child, (t, r, b, l)) -- expand=True as Table._get_cells builds it *)
Lemma scontent_app a b : scontent (a ++ b) = scontent a ++ scontent b.
Proof. unfold scontent. rewrite line_text_app. apply content_app. Qed.

Lemma scontent_stream_of : forall ls : list (list (seg Z)), scontent (stream_of ls) = cell_content skip ls.
Proof.
  induction ls as [|l ls IH]; [reflexivity|]. rewrite stream_of_cons, !scontent_app, IH.
  match goal with |- context [scontent [?x]] => change (scontent [x]) with (@nil Z) end.
  rewrite app_nil_r. reflexivity.
Qed.

Lemma lcontent_spaces_seg k (st : option Z) : lcontent skip [mkSeg (spaces k) st false] = [].
Proof. unfold lcontent. rewrite line_text_seg1. apply content_spaces. Qed.

Lemma cell_content_repeat_blank k n (st : option Z) : cell_content skip (repeat [mkSeg (spaces k) st false] n) = [].
Proof. unfold cell_content. induction n as [|n IH]; [reflexivity|]. cbn [repeat map concat]. rewrite lcontent_spaces_seg. exact IH. Qed.

Lemma cell_content_app a b : cell_content skip (a ++ b) = cell_content skip a ++ cell_content skip b.
Proof. unfold cell_content. rewrite map_app, concat_app. reflexivity. Qed.

Lemma line_text_apply_style st (l : list (seg Z)) : Table.line_text (apply_style st l) = Table.line_text l.
Proof.
  induction l as [|g l IH]; [reflexivity|]. unfold Table.line_text in *. cbn [apply_style map concat ctl txt].
  f_equal. exact IH.
Qed.

Lemma good_padding c t r b l w X : 0 <= l -> 0 <= r -> 1 <= w - l - r ->
  good c (w - l - r) X -> good (padding_child c t r b l None true) w X.
Proof.
  intros Hl Hr Hcw [Hf Hc]. unfold good, render_at. replace (w <? 1) with false by lia.
  cbn [padding_child crender]. split; [apply padding_sfits; lia|].
  rewrite scontent_stream_of. unfold padding_lines, Frames.padding_width. cbv zeta.
  rewrite !cell_content_app, !cell_content_repeat_blank. cbn [app]. rewrite app_nil_r.
  rewrite set_shape_none.
  assert (Hin : cell_content skip (map (fun l0 => adjust_line_length l0 (w - l - r) None true)
                                       (Frames.render_lines c (w - l - r) (Some None) false)) = X).
  { rewrite cell_content_map_adjust.
    - rewrite render_lines_eq. rewrite cell_content_map_adjust.
      + rewrite scontent_split. unfold scontent. rewrite line_text_apply_style. exact Hc.
      + unfold sfits in Hf. rewrite split_lines_apply_style. apply Forall_forall. intros x Hx.
        apply in_map_iff in Hx as [y [<- Hy]]. rewrite line_len_apply_style.
        rewrite Forall_forall in Hf. apply Hf. exact Hy.
    - apply Forall_forall. intros x Hx. apply (render_lines_false_len c (w - l - r) (Some None)); [lia|exact Hx]. }
  rewrite <- Hin. unfold cell_content. rewrite !map_map. f_equal. apply map_ext. intros ln.
  rewrite !lcontent_app.
  assert (E : forall k, lcontent skip (if k =? 0 then [] else [mkSeg (spaces k) (@None Z) false]) = []).
  { intros k. destruct (k =? 0); [reflexivity|apply lcontent_spaces_seg]. }
  rewrite !E. cbn [app]. apply app_nil_r.
Qed.
End Good.

(* ------------------------------------------------------------------ Text cells *)
Section TextCells.
Variable skip : list Z.

Lemma content_join_nl : forall ls, content skip (join_nl ls) = content skip (concat ls).
Proof.
  induction ls as [|l ls IH]; [reflexivity|]. destruct ls as [|l2 ls].
  - cbn [join_nl concat]. rewrite app_nil_r. reflexivity.
  - change (join_nl (l :: l2 :: ls)) with (l ++ NL :: join_nl (l2 :: ls)).
    change (concat (l :: l2 :: ls)) with (l ++ concat (l2 :: ls)). rewrite !content_app. f_equal.
    change (NL :: join_nl (l2 :: ls)) with ([NL] ++ join_nl (l2 :: ls)). rewrite content_app.
    change (content skip [NL]) with (@nil Z). exact IH.
Qed.

Lemma keepc_eq c : keepc skip c = negb (Wrap.is_space c) && negb (memZ c skip).
Proof. unfold keepc. rewrite is_ws_is_space. destruct (Wrap.is_space c), (memZ c skip); reflexivity. Qed.

Lemma content_nonspace s : content skip s = filter (fun c => negb (memZ c skip)) (Wrap.nonspace s).
Proof.
  unfold content, Wrap.nonspace. induction s as [|c s IH]; [reflexivity|]. cbn [filter]. rewrite keepc_eq.
  destruct (Wrap.is_space c); cbn [negb andb filter]; [exact IH|].
  destruct (memZ c skip); cbn [negb]; [exact IH|f_equal; exact IH].
Qed.

Lemma wrap_plain_content s w j : 2 <= w ->
  content skip (concat (wrap_plain s w j Wrap.OV_FOLD false)) = content skip s.
Proof.
  intros Hw. rewrite !content_nonspace. f_equal. unfold wrap_plain.
  pose proof (wrap_keeps_nonspace_all unit (fun _ _ => true) tt (fun _ _ => tt) Wrap.repaired
                (Wrap.mkText s [] tt) w j 8 Hw) as H.
  unfold SpecWrap.same_nonspace_b in H. apply str_eqb_eq in H. exact H.
Qed.

Definition fold_ro (ro : ropts) : Prop :=
  ro_nowrap ro = false /\ (ro_overflow ro = None \/ ro_overflow ro = Some Wrap.OV_FOLD).

Lemma good_text cf s ro w : fold_ro ro -> 2 <= w ->
  good skip (text_child cf s None None None ro) w (content skip s).
Proof.
  intros [Hnw Hov] Hw. unfold good, render_at. replace (w <? 1) with false by lia. cbn [text_child crender].
  assert (Eov : or_else None (ro_overflow ro) Wrap.OV_FOLD = Wrap.OV_FOLD).
  { unfold or_else. destruct Hov as [-> | ->]; reflexivity. }
  split.
  - apply text_stream_fits; [lia|]. rewrite Eov. discriminate.
  - unfold text_stream. cbv zeta. rewrite Eov, Hnw.
    set (ls := wrap_plain s w _ Wrap.OV_FOLD false).
    assert (E : scontent skip ((match join_nl ls with [] => [] | _ => [mkSeg (join_nl ls) None false] end) ++ [Frames.nlseg])
                = content skip (join_nl ls)).
    { rewrite scontent_app. change (scontent skip [Frames.nlseg]) with (@nil Z). rewrite app_nil_r.
      destruct (join_nl ls) as [|c T]; [reflexivity|]. unfold scontent. rewrite line_text_seg1. reflexivity. }
    rewrite E, content_join_nl. apply wrap_plain_content. exact Hw.
Qed.

(* a cell as Table._get_cells / _render make it: the text, wrapped in Padding when the table pads *)
Definition text_cell (cf : cfg) (pad : option (Z * Z * Z * Z)) (ro : ropts) (s : str) : Table.cell :=
  fun w => Frames.render_lines
             (match pad with
              | Some (pt, pr, pb, pl) => padding_child (text_child cf s None None None ro) pt pr pb pl None true
              | None => text_child cf s None None None ro
              end) w None true.

(* room for the content: two cells (a double-width character must fit) inside the padding *)
Definition cell_room (pad : option (Z * Z * Z * Z)) (w : Z) : Prop :=
  match pad with
  | Some (_, pr, _, pl) => 0 <= pl /\ 0 <= pr /\ 2 <= w - pl - pr
  | None => 2 <= w
  end.

Lemma wide_ok_forall s : wide_ok skip s -> Forall (fun ch => 1 <= char_size ch) (content skip s).
Proof.
  induction 1 as [|c s Hc _ IH]; [constructor|]. cbn [content filter].
  destruct (keepc skip c) eqn:E; [constructor; [apply Hc; reflexivity|exact IH]|exact IH].
Qed.

Theorem text_cell_contract cf pad ro s w : fold_ro ro -> cell_room pad w -> wide_ok skip s ->
  Forall (raw_ok skip w) (text_cell cf pad ro s w) /\ cell_content skip (text_cell cf pad ro s w) = content skip s.
Proof.
  intros Hro Hroom Hs. unfold text_cell. apply good_cell; [| |apply wide_ok_forall; exact Hs].
  - destruct pad as [[[[pt pr] pb] pl]|]; cbn [cell_room] in Hroom.
    + destruct Hroom as [H1 [H2 H3]]. apply good_padding; [lia..|]. apply good_text; [exact Hro|lia].
    + apply good_text; assumption.
  - destruct pad as [[[[pt pr] pb] pl]|]; cbn [cell_room] in Hroom; lia.
Qed.
End TextCells.

(* ------------------------------------------------------------------ the table of text cells *)
Definition tcell := (option (Z * Z * Z * Z) * ropts * str)%type.
Definition text_row (cf : cfg) (r : list tcell * bool) : trow :=
  mkRow (map (fun '(pad, ro, s) => text_cell cf pad ro s) (fst r)) (snd r) None.

Definition tcell_ok (skip : list Z) (wc : Z * tcell) : Prop :=
  let '(w, (pad, ro, s)) := wc in fold_ro ro /\ cell_room pad w /\ wide_ok skip s.
Definition trow_ok (skip : list Z) (widths : list Z) (r : list tcell * bool) : Prop :=
  length (fst r) = length widths /\ Forall (tcell_ok skip) (combine widths (fst r)).

(* what column j is expected to show: the content characters of its cells, row after row *)
Definition col_texts (skip : list Z) (n : nat) (rows : list (list tcell * bool)) : list str :=
  fold_right (fun r acc => zip_app (map (fun c : tcell => content skip (snd c)) (fst r)) acc) (repeat [] n) rows.

Lemma text_row_fit cf skip widths r : trow_ok skip widths r ->
  row_fit skip widths (text_row cf r) /\
  row_vals skip widths (text_row cf r) = map (fun c : tcell => content skip (snd c)) (fst r).
Proof.
  intros [Hl Hc]. unfold row_fit, row_vals, text_row. cbn [r_cells]. rewrite map_length.
  revert Hl Hc. generalize (fst r). clear r. induction widths as [|w ws IH]; intros [|[[pad ro] s] cs] Hl Hc; try discriminate.
  - repeat split. constructor.
  - cbn [combine map] in *. inversion Hc as [|? ? Hc0 Hcs]; subst. unfold tcell_ok in Hc0. destruct Hc0 as [H1 [H2 H3]].
    destruct (IH cs ltac:(simpl in Hl; lia) Hcs) as [[I0 I1] I2].
    destruct (text_cell_contract skip cf pad ro s w H1 H2 H3) as [C1 C2].
    split; [split; [exact Hl|constructor; [exact C1|exact I1]]|]. cbn [snd fst]. f_equal; [exact C2|exact I2].
Qed.

Theorem table_text_cells_in_columns cf o b widths rows lines :
  box_agrees o b -> widths <> [] -> Forall (fun w => 0 <= w) widths ->
  Forall (trow_ok (skip_of b) widths) rows ->
  render_table false o b widths (map (text_row cf) rows) = Ok lines ->
  cells_in_columns_b widths (o_box o) (o_edge o) (skip_of b)
    (map (fun e => (true, e)) (col_texts (skip_of b) (length widths) rows)) (map Table.line_text lines) = true.
Proof.
  intros Hb Hne Hw Hr H.
  assert (Hfit : Forall (row_fit (skip_of b) widths) (map (text_row cf) rows)).
  { apply Forall_forall. intros x Hx. apply in_map_iff in Hx as [r [<- Hin]].
    rewrite Forall_forall in Hr. exact (proj1 (text_row_fit cf _ widths r (Hr r Hin))). }
  pose proof (render_table_cells_in_columns o b widths Hb Hw _ lines Hfit H) as T.
  replace (col_texts (skip_of b) (length widths) rows) with (table_vals b widths (map (text_row cf) rows)); [exact T|].
  unfold table_vals, col_texts. clear -Hr. induction Hr as [|r rows Hr0 _ IH]; [reflexivity|].
  cbn [map fold_right]. rewrite IH. f_equal. exact (proj2 (text_row_fit cf _ widths r Hr0)).
Qed.
