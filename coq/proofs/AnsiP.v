(* C03, part 1: what rich's SGR parameter string is, as a list of numbers, and what the independent
   interpreter makes of those numbers.  (Per-style lemma of DESIGN section 9 C03: case analysis on
   the colour kinds with the C18 theorems, 13-bit attribute lemma.) *)
From RichModel Require Import Prelude Color Style SpecColor TermSgr Ansi SpecAnsi.
From RichGen Require Import StyleTables AnsiFacts.
From RichProofs Require Import ColorP ColorP2 TermSgrP.
From Coq Require Import ZifyBool.

Arguments has_bit : simpl never.

(* ------------------------------------------------------------------ source pins (tie 1) *)
(* Style.render's f-strings are the ones sgr_wrap / link_wrap were written for *)
Example RENDER_SGR_PARTS_ok : RENDER_SGR_PARTS = [[ESC; 91]; [109]; [ESC; 91; 48; 109]].
Proof. reflexivity. Qed.
Example RENDER_LINK_PARTS_ok :
  RENDER_LINK_PARTS = [[ESC; 93; 56; 59; 105; 100; 61]; [59]; [ESC; 92]; [ESC; 93; 56; 59; 59; ESC; 92]].
Proof. reflexivity. Qed.
Lemma sgr_wrap_is_fstring a attrs text :
  sgr_wrap (a :: attrs) text
  = nth 0 RENDER_SGR_PARTS [] ++ (a :: attrs) ++ nth 1 RENDER_SGR_PARTS [] ++ text ++ nth 2 RENDER_SGR_PARTS [].
Proof. reflexivity. Qed.
Lemma link_wrap_is_fstring lid link rendered :
  link_wrap lid link rendered
  = nth 0 RENDER_LINK_PARTS [] ++ lid ++ nth 1 RENDER_LINK_PARTS [] ++ link ++ nth 2 RENDER_LINK_PARTS []
    ++ rendered ++ nth 3 RENDER_LINK_PARTS [].
Proof. reflexivity. Qed.
(* Style._style_map is the ECMA-48 numbering, attribute bit i -> i-th entry of ATTR_SGR *)
Example STYLE_MAP_ok :
  STYLE_MAP = combine [0; 1; 2; 3; 4; 5; 6; 7; 8; 9; 10; 11; 12] (map str_of_Z ATTR_SGR).
Proof. reflexivity. Qed.

(* ------------------------------------------------------------------ decimal numbers 0..255 *)
Definition dec_point_ok (k : Z) : bool :=
  (dec (str_of_Z k) 0 =? k) && forallb is_digit (str_of_Z k)
  && match str_of_Z k with [] => false | _ => true end.
Lemma dec_sweep256 : forallb dec_point_ok range256 = true.
Proof. vm_compute. reflexivity. Qed.
Lemma dec_ok k : 0 <= k <= 255 ->
  dec (str_of_Z k) 0 = k /\ forallb is_digit (str_of_Z k) = true /\ str_of_Z k <> [].
Proof.
  intros H. pose proof (sweep1 dec_point_ok dec_sweep256 k H) as P. unfold dec_point_ok in P.
  apply andb_true_iff in P as [P P3]. apply andb_true_iff in P as [P1 P2].
  split; [lia|]. split; [exact P2|]. destruct (str_of_Z k); [discriminate|discriminate].
Qed.

Lemma str_join_join59 l : str_join [59] l = join59 l.
Proof.
  induction l as [|x l IH]; [reflexivity|]. destruct l as [|y l]; [reflexivity|].
  change (str_join [59] (x :: y :: l)) with (x ++ [59] ++ str_join [59] (y :: l)).
  change (join59 (x :: y :: l)) with (x ++ [59] ++ join59 (y :: l)). now rewrite IH.
Qed.

Definition nums_ok (ks : list Z) : Prop := Forall (fun k => 0 <= k <= 255) ks.

Lemma nums_digits ks : nums_ok ks -> Forall (fun d => forallb is_digit d = true) (map str_of_Z ks).
Proof.
  induction 1 as [|k ks Hk _ IH]; cbn; constructor; [exact (proj1 (proj2 (dec_ok k Hk)))|exact IH].
Qed.

(* the parameter string of a non-empty number list parses back to the numbers *)
Lemma parse_nums ks : ks <> [] -> nums_ok ks ->
  parse_params (str_join [59] (map str_of_Z ks)) = ks
  /\ forallb pchar (str_join [59] (map str_of_Z ks)) = true
  /\ str_join [59] (map str_of_Z ks) <> [].
Proof.
  intros Hne Hok. rewrite str_join_join59. split; [|split].
  - rewrite parse_join; [|destruct ks; [congruence|discriminate]|exact (nums_digits ks Hok)].
    rewrite map_map. induction Hok as [|k ks Hk _ IH]; [reflexivity|]. cbn [map].
    rewrite (proj1 (dec_ok k Hk)). f_equal. destruct ks as [|k' ks']; [reflexivity|]. apply IH. discriminate.
  - exact (pchar_join _ (nums_digits ks Hok)).
  - destruct ks as [|k ks]; [congruence|]. inversion Hok as [|? ? Hk _]; subst.
    pose proof (proj2 (proj2 (dec_ok k Hk))) as N. cbn [map].
    destruct ks as [|k' ks]; cbn [join59 map]; [exact N|].
    destruct (str_of_Z k); [congruence|discriminate].
Qed.

Lemma str_join_nil_nums : str_join [59] (map str_of_Z []) = [].
Proof. reflexivity. Qed.

(* ------------------------------------------------------------------ the attribute part *)
Definition code_of (b : Z) : Z := nth (Z.to_nat b) ATTR_SGR 0.
Definition bit_nums (w : Z) (bits : list Z) : list Z :=
  flat_map (fun b => if has_bit w b then [code_of b] else []) bits.
Definition map_entry_ok (b : Z) : bool :=
  match style_map_get b with Ok s => str_eqb s (str_of_Z (code_of b)) | _ => false end.

Lemma codes_for_spec w bits : forallb map_entry_ok bits = true ->
  codes_for w bits = Ok (map str_of_Z (bit_nums w bits)).
Proof.
  induction bits as [|b bits IH]; intros H; [reflexivity|].
  cbn [forallb] in H. apply andb_true_iff in H as [Hb Hr]. specialize (IH Hr).
  unfold map_entry_ok in Hb. cbn [codes_for]. unfold bit_nums. cbn [flat_map]. fold (bit_nums w bits).
  destruct (has_bit w b).
  - destruct (style_map_get b) as [s| |]; try discriminate. apply str_eqb_eq in Hb. subst s.
    rewrite IH. reflexivity.
  - exact IH.
Qed.

Lemma has_bit_mask0 w m i :
  Z.land w m = 0 -> Z.land m (bit_mask i) = bit_mask i -> has_bit w i = false.
Proof.
  intros H1 H2. unfold has_bit. rewrite <- H2, Z.land_assoc, H1, Z.land_0_l. reflexivity.
Qed.

Definition ALL_BITS : list Z := [0; 1; 2; 3; 4; 5; 6; 7; 8; 9; 10; 11; 12].

Lemma bit_nums_app w a b : bit_nums w (a ++ b) = bit_nums w a ++ bit_nums w b.
Proof. unfold bit_nums. apply flat_map_app. Qed.

Lemma attr_codes_spec w : attr_codes w = Ok (map str_of_Z (bit_nums w ALL_BITS)).
Proof.
  unfold attr_codes. destruct (w =? 0) eqn:E0.
  - apply Z.eqb_eq in E0. subst w. reflexivity.
  - assert (G0 : codes_for w [0; 1; 2; 3] = Ok (map str_of_Z (bit_nums w [0; 1; 2; 3])))
      by (apply codes_for_spec; reflexivity).
    assert (G1 : (if Z.land w 496 =? 0 then Ok [] else codes_for w [4; 5; 6; 7; 8])
                 = Ok (map str_of_Z (bit_nums w [4; 5; 6; 7; 8]))).
    { destruct (Z.land w 496 =? 0) eqn:E1.
      - apply Z.eqb_eq in E1. unfold bit_nums. cbn [flat_map].
        rewrite (has_bit_mask0 w 496 4 E1), (has_bit_mask0 w 496 5 E1), (has_bit_mask0 w 496 6 E1),
                (has_bit_mask0 w 496 7 E1), (has_bit_mask0 w 496 8 E1) by reflexivity. reflexivity.
      - apply codes_for_spec. reflexivity. }
    assert (G2 : (if Z.land w 7680 =? 0 then Ok [] else codes_for w [9; 10; 11; 12])
                 = Ok (map str_of_Z (bit_nums w [9; 10; 11; 12]))).
    { destruct (Z.land w 7680 =? 0) eqn:E2.
      - apply Z.eqb_eq in E2. unfold bit_nums. cbn [flat_map].
        rewrite (has_bit_mask0 w 7680 9 E2), (has_bit_mask0 w 7680 10 E2), (has_bit_mask0 w 7680 11 E2),
                (has_bit_mask0 w 7680 12 E2) by reflexivity. reflexivity.
      - apply codes_for_spec. reflexivity. }
    rewrite G0, G1, G2. cbn [bind].
    change ALL_BITS with ([0; 1; 2; 3] ++ [4; 5; 6; 7; 8] ++ [9; 10; 11; 12]).
    now rewrite !bit_nums_app, !map_app.
Qed.

Definition bits13 (w : Z) : list bool := map (has_bit w) ALL_BITS.

Lemma bit_nums_attr_nums w : bit_nums w ALL_BITS = attr_nums (bits13 w).
Proof. reflexivity. Qed.

Lemma want_flags_bits13 s : want_flags s = bits13 (Z.land (s_attributes s) (s_set_attributes s)).
Proof. reflexivity. Qed.
Lemma bits13_length w : length (bits13 w) = 13%nat.
Proof. reflexivity. Qed.

(* ------------------------------------------------------------------ the colour part *)
Definition color_nums (c : color) (fg : bool) : list Z :=
  match c_type c, c_number c, c_triplet c with
  | CT_DEFAULT, _, _ => [if fg then 39 else 49]
  | CT_TRUECOLOR, _, Some t => [if fg then 38 else 48; 2; t_red t; t_green t; t_blue t]
  | CT_TRUECOLOR, _, None => []
  | CT_EIGHT_BIT, Some n, _ => [if fg then 38 else 48; 5; n]
  | _, Some n, _ => [idx_param fg n]
  | _, None, _ => []
  end.

Ltac wf_cases c W :=
  destruct c as [name ty num trip]; unfold wf_color_b in W; cbn [c_type c_number c_triplet] in W;
  destruct ty; destruct num as [n|]; destruct trip as [t|]; try discriminate W.

Lemma in_range_iff lo hi z : in_range lo hi z = true <-> lo <= z <= hi.
Proof. unfold in_range. lia. Qed.

Lemma get_ansi_codes_spec c fg : wf_color_b c = true ->
  get_ansi_codes c fg = Ok (map str_of_Z (color_nums c fg)).
Proof.
  intros W. wf_cases c W; unfold get_ansi_codes, color_nums, idx_param;
    cbn [c_type c_number c_triplet assert_some bind map].
  - destruct fg; reflexivity.
  - destruct (n <? 8), fg; reflexivity.
  - destruct fg; reflexivity.
  - destruct fg; reflexivity.
  - destruct (n <? 8), fg; reflexivity.
Qed.

Ltac fin_nums := repeat (apply Forall_cons; [lia|]); apply Forall_nil.

Lemma color_nums_ok c fg : wf_color_b c = true -> nums_ok (color_nums c fg).
Proof.
  intros W. wf_cases c W; unfold color_nums, nums_ok, idx_param; cbn [c_type c_number c_triplet].
  - destruct fg; fin_nums.
  - apply in_range_iff in W. destruct (n <? 8) eqn:E, fg; fin_nums.
  - apply in_range_iff in W. destruct fg; fin_nums.
  - unfold triplet_ok_b, channel_b in W. apply andb_true_iff in W as [W W3]. apply andb_true_iff in W as [W1 W2].
    apply in_range_iff in W1, W2, W3. destruct fg; fin_nums.
  - apply in_range_iff in W. destruct (n <? 8) eqn:E, fg; fin_nums.
Qed.

(* what the terminal does with the parameters of one colour *)
Lemma apply_color st c fg rest : wf_color_b c = true ->
  apply_sgr st (color_nums c fg ++ rest) = apply_sgr (set_ground fg (tcolor_of c) st) rest.
Proof.
  intros W. wf_cases c W; unfold color_nums, tcolor_of; cbn [c_type c_number c_triplet app].
  - rewrite apply_sgr_cons. assert (E : ((if fg then 39 else 49) =? 38) || ((if fg then 39 else 49) =? 48) = false)
      by (destruct fg; reflexivity). rewrite E. now rewrite sgr1_default.
  - apply in_range_iff in W. rewrite apply_sgr_cons.
    pose proof (idx_param_simple fg n W) as S. unfold simple in S.
    destruct ((idx_param fg n =? 38) || (idx_param fg n =? 48)); [discriminate|].
    now rewrite (sgr1_idx st fg n W).
  - apply in_range_iff in W. exact (apply_sgr_256 st fg n rest W).
  - unfold triplet_ok_b, channel_b in W. apply andb_true_iff in W as [W W3]. apply andb_true_iff in W as [W1 W2].
    apply in_range_iff in W1, W2, W3. exact (apply_sgr_rgb st fg _ _ _ rest W1 W2 W3).
  - apply in_range_iff in W. rewrite apply_sgr_cons.
    pose proof (idx_param_simple fg n W) as S. unfold simple in S.
    destruct ((idx_param fg n =? 38) || (idx_param fg n =? 48)); [discriminate|].
    now rewrite (sgr1_idx st fg n W).
Qed.

(* optional colours, after the documented down-conversion *)
Definition dg (c : option color) (sys : ColorSystem) : option color :=
  match c with
  | None => None
  | Some c => match downgrade c sys with Ok d => Some d | _ => None end
  end.
Definition ocolor_nums (o : option color) (fg : bool) : list Z :=
  match o with None => [] | Some d => color_nums d fg end.
Definition otcolor (o : option color) : tcolor :=
  match o with None => TDefault | Some d => tcolor_of d end.

Lemma color_codes_spec c sys fg : opt_color_wf c = true ->
  color_codes c sys fg = Ok (map str_of_Z (ocolor_nums (dg c sys) fg)) /\ opt_color_wf (dg c sys) = true.
Proof.
  destruct c as [c|]; intros W; [|split; reflexivity]. cbn [opt_color_wf] in W.
  destruct (downgrade_in_gamut c sys W) as [d [Hd G]]. pose proof (in_gamut_wf sys d G) as Wd.
  unfold color_codes, dg. rewrite Hd. cbn [bind ocolor_nums opt_color_wf]. split; [|exact Wd].
  exact (get_ansi_codes_spec d fg Wd).
Qed.

Lemma want_color_dg sys c : want_color sys false c = otcolor (dg c sys).
Proof. destruct c as [c|]; [|reflexivity]. cbn. destruct (downgrade c sys); reflexivity. Qed.

Lemma apply_ocolor st o fg rest : opt_color_wf o = true ->
  apply_sgr st (ocolor_nums o fg ++ rest)
  = apply_sgr (match o with None => st | Some d => set_ground fg (tcolor_of d) st end) rest.
Proof. destruct o as [d|]; intros W; [exact (apply_color st d fg rest W)|reflexivity]. Qed.

(* ------------------------------------------------------------------ the whole parameter list *)
Definition style_nums (s : style) (sys : ColorSystem) : list Z :=
  attr_nums (want_flags s) ++ ocolor_nums (dg (s_color s) sys) true
  ++ ocolor_nums (dg (s_bgcolor s) sys) false.

Lemma style_wf_parts s : style_wf s = true ->
  opt_color_wf (s_color s) = true /\ opt_color_wf (s_bgcolor s) = true
  /\ match s_link s with Some l => link_ok l = true | None => True end.
Proof.
  unfold style_wf. intros H. apply andb_true_iff in H as [H H3]. apply andb_true_iff in H as [H1 H2].
  split; [exact H1|]. split; [exact H2|]. destruct (s_link s); [exact H3|exact Logic.I].
Qed.

Lemma make_ansi_codes_spec s sys : style_wf s = true ->
  make_ansi_codes s sys = Ok (str_join [59] (map str_of_Z (style_nums s sys))).
Proof.
  intros W. destruct (style_wf_parts s W) as [W1 [W2 _]].
  unfold make_ansi_codes, sgr_list. rewrite attr_codes_spec, bit_nums_attr_nums.
  rewrite (proj1 (color_codes_spec _ sys true W1)), (proj1 (color_codes_spec _ sys false W2)).
  cbn [bind]. unfold style_nums. now rewrite !map_app, want_flags_bits13.
Qed.

Lemma nums_ok_app a b : nums_ok a -> nums_ok b -> nums_ok (a ++ b).
Proof. unfold nums_ok. intros. apply Forall_app. split; assumption. Qed.

Lemma attr_nums_facts bs : length bs = 13%nat ->
  nums_ok (attr_nums bs) /\ Forall (fun p => color_param p = false) (attr_nums bs).
Proof.
  intros H. pose proof (attr_vec bs H) as V. unfold attr_vec_ok in V. apply andb_true_iff in V as [_ V].
  rewrite forallb_forall in V. split; apply Forall_forall; intros p Hp; specialize (V p Hp);
    unfold color_param; unfold between in *; lia.
Qed.

Lemma ocolor_nums_ok o fg : opt_color_wf o = true -> nums_ok (ocolor_nums o fg).
Proof. destruct o as [d|]; intros W; [exact (color_nums_ok d fg W)|constructor]. Qed.

Lemma style_nums_ok s sys : style_wf s = true -> nums_ok (style_nums s sys).
Proof.
  intros W. destruct (style_wf_parts s W) as [W1 [W2 _]]. unfold style_nums.
  apply nums_ok_app; [exact (proj1 (attr_nums_facts _ (bits13_length _)))|].
  apply nums_ok_app; apply ocolor_nums_ok; [exact (proj2 (color_codes_spec _ sys true W1))
                                            |exact (proj2 (color_codes_spec _ sys false W2))].
Qed.

(* THE per-style lemma: from the reset rendition (any hyperlink l), the parameters rich emits for
   style s on colour system sys put the terminal in exactly the state "attributes that are on,
   down-converted foreground and background, same hyperlink" *)
Definition vis_state (s : style) (sys : ColorSystem) (l : option str) : tstate :=
  mkT (want_flags s) (otcolor (dg (s_color s) sys)) (otcolor (dg (s_bgcolor s) sys)) l.

Lemma apply_style_nums s sys l : style_wf s = true ->
  apply_sgr (mkT no_flags TDefault TDefault l) (style_nums s sys) = vis_state s sys l.
Proof.
  intros W. destruct (style_wf_parts s W) as [W1 [W2 _]].
  pose proof (proj2 (color_codes_spec _ sys true W1)) as D1.
  pose proof (proj2 (color_codes_spec _ sys false W2)) as D2.
  unfold style_nums. rewrite (apply_attrs (want_flags s) _ _ _ _ eq_refl).
  rewrite (apply_ocolor _ _ true _ D1).
  rewrite <- (app_nil_r (ocolor_nums (dg (s_bgcolor s) sys) false)). rewrite (apply_ocolor _ _ false _ D2).
  rewrite apply_sgr_nil. unfold vis_state.
  destruct (dg (s_color s) sys), (dg (s_bgcolor s) sys); reflexivity.
Qed.
