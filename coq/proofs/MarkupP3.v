(* C04 part 3: documents -- flatten(d) tokenises to the items of d; the slot/stack machine of the
   repaired render() computes the meaning of the document (opening order, later wins). *)
From RichModel Require Import Prelude Markup SpecMarkup.
From RichProofs Require Import MarkupP MarkupP2.
Local Open Scope nat_scope.

Definition item_tok (x : item) : token :=
  match x with
  | Open n p => TTag n p
  | Close n => TTag (SLASH :: n) None
  | CloseTop => TTag [SLASH] None
  | Lit s => TText s
  end.
Definition doc_toks (d : doc) : list token := map item_tok d.

(* ------------------------------------------------------------------ tags tokenise to themselves *)
Lemma partition_eq_noeq : forall n, no_eq n = true -> partition_eq n = (n, None).
Proof.
  induction n as [|c n IH]; intros H; [reflexivity|].
  cbn [no_eq forallb] in H. apply andb_true_iff in H. destruct H as [H1 H2].
  apply negb_true_iff in H1. cbn [partition_eq]. rewrite H1. fold (no_eq n) in H2. rewrite (IH H2). reflexivity.
Qed.

Lemma partition_eq_params : forall n p, no_eq n = true -> partition_eq (n ++ EQS :: p) = (n, Some p).
Proof.
  induction n as [|c n IH]; intros p H.
  - cbn. reflexivity.
  - cbn [no_eq forallb] in H. apply andb_true_iff in H. destruct H as [H1 H2].
    apply negb_true_iff in H1. cbn [app partition_eq]. rewrite H1. fold (no_eq n) in H2.
    rewrite (IH p H2). reflexivity.
Qed.

Lemma tag_body_ok_app : forall a b, tag_body_ok (a ++ b) = tag_body_ok a && tag_body_ok b.
Proof. intros. unfold tag_body_ok. apply forallb_app. Qed.

Lemma parse_tag0 : forall c t, tag_start c = true -> tag_body_ok t = true ->
  parse (LB :: c :: t ++ [RB]) = (let '(n, p) := partition_eq (c :: t) in [TTag n p]).
Proof.
  intros c t Hc Ht. unfold parse. change (LB :: c :: t ++ [RB]) with (tagform 0 c t []).
  rewrite parse_match by auto. cbn [flush app parse_aux emit Nat.div2 Nat.eqb Nat.odd Nat.even negb].
  rewrite app_nil_r. reflexivity.
Qed.

Lemma lit_ok_tag : forall body, lit_ok (LB :: body ++ [RB]) = true.
Proof.
  intros body. unfold lit_ok. apply andb_true_iff. split.
  - apply negb_true_iff. change (LB :: body ++ [RB]) with ((LB :: body) ++ [RB]).
    rewrite ends_bs_app by discriminate. reflexivity.
  - change (LB :: body ++ [RB]) with ((LB :: body) ++ RB :: []). rewrite closed_b_app_rb. reflexivity.
Qed.

Lemma flatten_item_lit_ok : forall x, item_ok x = true -> lit_ok (flatten_item x) = true.
Proof.
  intros [n [p|]|n| |s] H; cbn [flatten_item].
  - replace (LB :: n ++ EQS :: p ++ [RB]) with (LB :: (n ++ EQS :: p) ++ [RB])
      by (rewrite <- app_assoc; reflexivity). apply lit_ok_tag.
  - apply lit_ok_tag.
  - change (LB :: SLASH :: n ++ [RB]) with (LB :: (SLASH :: n) ++ [RB]). apply lit_ok_tag.
  - reflexivity.
  - apply lit_ok_escape. exact H.
Qed.

Lemma parse_item_tag : forall x, item_ok x = true -> (forall s, x <> Lit s) ->
  parse (flatten_item x) = [item_tok x].
Proof.
  intros [n [p|]|n| |s] H Hn; cbn [flatten_item item_tok].
  - destruct n as [|c t]; [discriminate|]. cbn [item_ok] in H.
    repeat (apply andb_true_iff in H; destruct H as [H ?]).
    cbn [tag_body_ok forallb] in H2. apply andb_true_iff in H2. destruct H2 as [_ H2]. fold (tag_body_ok t) in H2.
    replace (LB :: (c :: t) ++ EQS :: p ++ [RB]) with (LB :: c :: (t ++ EQS :: p) ++ [RB])
      by (cbn [app]; rewrite <- app_assoc; reflexivity).
    rewrite parse_tag0; auto.
    + change (c :: t ++ EQS :: p) with ((c :: t) ++ EQS :: p). rewrite partition_eq_params by auto. reflexivity.
    + rewrite tag_body_ok_app. rewrite H2. cbn [tag_body_ok forallb andb]. exact H0.
  - destruct n as [|c t]; [discriminate|]. cbn [item_ok] in H.
    repeat (apply andb_true_iff in H; destruct H as [H ?]).
    cbn [tag_body_ok forallb] in H2. apply andb_true_iff in H2. destruct H2 as [_ H2]. fold (tag_body_ok t) in H2.
    cbn [app]. rewrite parse_tag0; auto. rewrite partition_eq_noeq by auto. reflexivity.
  - cbn [item_ok] in H. repeat (apply andb_true_iff in H; destruct H as [H ?]).
    rewrite parse_tag0; auto. replace (partition_eq (SLASH :: n)) with (SLASH :: n, @None str); [reflexivity|].
    cbn [partition_eq]. change (SLASH =? EQS)%Z with false. cbn. rewrite partition_eq_noeq by auto. reflexivity.
  - reflexivity.
  - exfalso. exact (Hn s eq_refl).
Qed.

Section Generic3.
  Variable St : Type.
  Variable step : St -> token -> res St.
  Variable addtext : St -> str -> St.
  Hypothesis step_text : forall st t, step st (TText t) = Ok (addtext st t).
  Hypothesis addtext_app : forall st a b, addtext (addtext st a) b = addtext st (a ++ b).
  Hypothesis addtext_nil : forall st, addtext st [] = st.

  (* rendering flatten(d) = running the items of d, each literal being ONE text token *)
  Lemma run_doc : forall d st, doc_ok d = true ->
    run step st (parse (flatten d)) = run step st (doc_toks d).
  Proof.
    induction d as [|x d IH]; intros st Hd; [reflexivity|].
    cbn [doc_ok forallb] in Hd. apply andb_true_iff in Hd. destruct Hd as [Hx Hd].
    change (flatten (x :: d)) with (flatten_item x ++ flatten d).
    rewrite (run_prefix0 St step addtext step_text addtext_app addtext_nil)
      by (apply flatten_item_lit_ok; exact Hx).
    cbn [doc_toks map run].
    assert (Hone : run step st (parse (flatten_item x)) = step st (item_tok x)).
    { destruct x as [n p|n| |s].
      - rewrite parse_item_tag by (auto; discriminate). cbn [run]. destruct (step st _); reflexivity.
      - rewrite parse_item_tag by (auto; discriminate). cbn [run]. destruct (step st _); reflexivity.
      - rewrite parse_item_tag by (auto; discriminate). cbn [run]. destruct (step st _); reflexivity.
      - cbn [flatten_item item_tok]. rewrite step_text.
        apply (run_escape St step addtext step_text addtext_app addtext_nil). }
    rewrite Hone. destruct (step st (item_tok x)) as [st'| |]; cbn [bind]; try reflexivity.
    apply IH. exact Hd.
  Qed.

  (* no '[' : the whole markup is one literal *)
  Lemma parse_no_lb : forall m pend, has_lb m = false -> parse_aux m 0 pend = flush (pend ++ m).
  Proof.
    induction m as [|c m IH]; intros pend H.
    - cbn. rewrite app_nil_r. reflexivity.
    - assert (Hm : match_tag (c :: m) = None).
      { destruct (match_tag (c :: m)) as [[k tag]|] eqn:E; [|reflexivity].
        destruct (match_tag_spec _ _ _ E) as [c' [t [rest [_ [_ [_ Hs]]]]]].
        exfalso. unfold has_lb in H. rewrite Hs in H. unfold tagform in H.
        rewrite existsb_app in H. cbn [existsb] in H. rewrite Z.eqb_refl in H.
        rewrite orb_true_r in H. discriminate. }
      rewrite parse_nomatch by exact Hm. unfold has_lb in H. cbn [existsb] in H.
      apply orb_false_iff in H. destruct H as [_ H]. rewrite IH by exact H.
      rewrite <- app_assoc. reflexivity.
  Qed.

  Lemma run_no_lb : forall m st, has_lb m = false -> run step st (parse m) = Ok (addtext st m).
  Proof.
    intros m st H. unfold parse. rewrite parse_no_lb by exact H. cbn [app].
    rewrite <- (app_nil_r (flush m)), (run_flush St step addtext step_text addtext_nil). reflexivity.
  Qed.
End Generic3.

(* ------------------------------------------------------------------ instances: emoji off *)
Section Inst.
  Variable cc : list Z.
  Variable norm : str -> str.

  Definition addA (st : stateA) (t : str) : stateA :=
    let '(p, stk, sp) := st in (p ++ strip_cc cc t, stk, sp).
  Definition addF (st : stateF) (t : str) : stateF :=
    let '(p, stk, sl) := st in (p ++ strip_cc cc t, stk, sl).

  Lemma strip_cc_app : forall a b, strip_cc cc (a ++ b) = strip_cc cc a ++ strip_cc cc b.
  Proof. intros. unfold strip_cc, strip_cc_with. apply filter_app. Qed.

  Lemma stepA_text : forall st t, stepA cc norm id_str st (TText t) = Ok (addA st t).
  Proof. intros [[p stk] sp] t. reflexivity. Qed.
  Lemma addA_app : forall st a b, addA (addA st a) b = addA st (a ++ b).
  Proof. intros [[p stk] sp] a b. cbn [addA]. rewrite strip_cc_app, app_assoc. reflexivity. Qed.
  Lemma addA_nil : forall st, addA st [] = st.
  Proof. intros [[p stk] sp]. cbn [addA]. unfold strip_cc, strip_cc_with. cbn [filter]. rewrite app_nil_r. reflexivity. Qed.

  Lemma stepF_text : forall st t, stepF cc norm id_str st (TText t) = Ok (addF st t).
  Proof. intros [[p stk] sp] t. reflexivity. Qed.
  Lemma addF_app : forall st a b, addF (addF st a) b = addF st (a ++ b).
  Proof. intros [[p stk] sp] a b. cbn [addF]. rewrite strip_cc_app, app_assoc. reflexivity. Qed.
  Lemma addF_nil : forall st, addF st [] = st.
  Proof. intros [[p stk] sp]. cbn [addF]. unfold strip_cc, strip_cc_with. cbn [filter]. rewrite app_nil_r. reflexivity. Qed.

  (* the `"[" not in markup` shortcut of render() is redundant *)
  Lemma render_is_main : forall asis m, render cc norm id_str asis m = render_main cc norm id_str asis m.
  Proof.
    intros asis m. unfold render. destruct (has_lb m) eqn:H; [reflexivity|].
    unfold render_main. destruct asis.
    - rewrite (run_no_lb _ _ addA stepA_text addA_nil) by exact H. reflexivity.
    - rewrite (run_no_lb _ _ addF stepF_text addF_nil) by exact H. reflexivity.
  Qed.

  (* escape_verbatim, all strings, both span orders *)
  Theorem escape_verbatim : forall asis s,
    render cc norm id_str asis (escape s) = Ok (strip_cc cc s, []).
  Proof.
    intros asis s. rewrite render_is_main. unfold render_main. destruct asis.
    - rewrite (run_escape _ _ addA stepA_text addA_app addA_nil). reflexivity.
    - rewrite (run_escape _ _ addF stepF_text addF_app addF_nil). reflexivity.
  Qed.

  Definition finish_res {X} (fin : X -> text) (r : res X) : res text :=
    match r with Ok st => Ok (fin st) | Doc e => Doc e | Crash k => Crash k end.

  (* rendering a token list directly (what the embedded statement compares with) *)
  Definition render_toks (asis : bool) (ts : list token) : res text :=
    if asis then finish_res finishA (run (stepA cc norm id_str) ([], [], []) ts)
    else finish_res finishF (run (stepF cc norm id_str) ([], [], []) ts).

  Lemma render_main_toks : forall asis m, render_main cc norm id_str asis m = render_toks asis (parse m).
  Proof. intros [|] m; reflexivity. Qed.

  (* escape_embedded: between markup pre (no trailing backslash, brackets closed) and ANY post,
     escape(s) -- s with the same two side conditions -- behaves as the one literal text s *)
  Theorem escape_embedded : forall asis pre s post, lit_ok pre = true -> lit_ok s = true ->
    render cc norm id_str asis (pre ++ escape s ++ post)
    = render_toks asis (parse pre ++ TText s :: parse post).
  Proof.
    intros asis pre s post Hp Hs. rewrite render_is_main, render_main_toks. unfold render_toks.
    destruct asis.
    - rewrite (run_embedded _ _ addA stepA_text addA_app addA_nil) by auto.
      rewrite run_app. destruct (run _ _ (parse pre)) as [st| |]; cbn [bind]; try reflexivity.
      cbn [run]. rewrite stepA_text. reflexivity.
    - rewrite (run_embedded _ _ addF stepF_text addF_app addF_nil) by auto.
      rewrite run_app. destruct (run _ _ (parse pre)) as [st| |]; cbn [bind]; try reflexivity.
      cbn [run]. rewrite stepF_text. reflexivity.
  Qed.

  Lemma render_doc_toks : forall asis d, doc_ok d = true ->
    render cc norm id_str asis (flatten d) = render_toks asis (doc_toks d).
  Proof.
    intros asis d Hd. rewrite render_is_main, render_main_toks. unfold render_toks. destruct asis.
    - rewrite (run_doc _ _ addA stepA_text addA_app addA_nil) by exact Hd. reflexivity.
    - rewrite (run_doc _ _ addF stepF_text addF_app addF_nil) by exact Hd. reflexivity.
  Qed.
End Inst.
