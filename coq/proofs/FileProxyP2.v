(* C19: restart histories -- start / writes / stop repeated on ONE Live / Status / Progress object. *)
From RichModel Require Import Prelude Color Style AnsiDecode FileProxy SpecDecode.
From RichProofs Require Import AnsiDecodeP FileProxyP.

(* the combination that breaks restarts: enabling only when `_restore_X is None` while disabling
   never resets it *)
Definition rf_ok (rf : rfacts) : Prop := rf_guard rf && negb (rf_reset rf) = false.

Definition between_runs (rf : rfacts) (st : rstate) : Prop :=
  r_cur st = SRaw /\ (rf_guard rf = true -> r_restore st = None).

Lemma between_init rf : between_runs rf r_init.
Proof. split; reflexivity. Qed.

Lemma enable_installs rf st : rf_ok rf -> between_runs rf st ->
  r_enable rf st = mkRS (SProxy (r_made st)) (Some SRaw) (S (r_made st)).
Proof.
  intros _ [Hc Hr]. unfold r_enable. destruct (rf_guard rf) eqn:G.
  - rewrite (Hr eq_refl). cbn. rewrite Hc. reflexivity.
  - cbn. rewrite Hc. reflexivity.
Qed.

Definition run_ok_obs (h : list op) (ro : run_obs) : Prop :=
  ro_proxy ro = true /\ ro_restored ro = true
  /\ proxy_ok_b h (ro_outs ro) (ro_pending ro) = true
  /\ concat (map out_raw (ro_outs ro)) ++ ro_pending ro = writes h.

(* every run of a restarted display redirects the stream to a fresh proxy, prints every line of that
   run exactly once (proxy_ok_b, conservation) and hands the original stream back at stop() *)
Theorem restart_ok rf : rf_ok rf -> forall hs st, between_runs rf st ->
  Forall2 run_ok_obs hs (restart_runs true facts_fixed rf st hs).
Proof.
  intros Hok hs. induction hs as [|h hs IH]; intros st Hb; [constructor|].
  cbn [restart_runs]. rewrite (enable_installs rf st Hok Hb).
  unfold fresh_proxy. cbn [r_cur]. rewrite Nat.eqb_refl.
  pose proof (proxy_ok h) as P. pose proof (proxy_conservation h) as C.
  destruct (proxy_run true facts_fixed p_init h) as [p outs].
  constructor.
  - unfold run_ok_obs. cbn [ro_proxy ro_restored ro_outs ro_pending r_disable r_restore r_cur is_raw]. auto.
  - apply IH. unfold r_disable. cbn [r_restore r_cur r_made]. split; [reflexivity|].
    intros G. cbn [r_restore]. unfold rf_ok in Hok. rewrite G in Hok. cbn in Hok.
    apply negb_false_iff in Hok. rewrite Hok. reflexivity.
Qed.

(* with the None-guard in enable and no reset in disable, the second run is not redirected: its lines
   never reach the console *)
Theorem restart_guard_without_reset_refuted :
  let hs := [[Write [97; 10]]; [Write [98; 10]]] in
  match restart_runs true facts_fixed (mkRF true false) r_init hs with
  | [r1; r2] => ro_proxy r1 = true /\ ro_proxy r2 = false
                /\ proxy_ok_b [Write [98; 10]] (ro_outs r2) (ro_pending r2) = false
  | _ => False
  end.
Proof. vm_compute. repeat split; reflexivity. Qed.
