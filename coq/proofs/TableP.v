(* Proofs for the table core (model/Table.v): rendered tables are rectangles built from one
   width vector; width solving under expand. *)
From RichModel Require Import Prelude Cells Segments SpecCells Ratio Table SpecTable.
From RichGen Require Import BoxChars.
From RichProofs Require Import CellsP SegmentsP RatioP.
From Coq Require Import ZifyBool.

Notation line := (list (seg Z)).

(* ------------------------------------------------------------------ strings of box characters *)
Lemma cell_len_repeat c n : cell_len (repeat c n) = Z.of_nat n * char_size c.
Proof.
  induction n as [|n IH]; [reflexivity|]. cbn [repeat]. rewrite cell_len_cons, IH. lia.
Qed.

Lemma cell_len_py_repeat1 c w : char_size c = 1 -> 0 <= w -> cell_len (py_repeat c w) = w.
Proof. intros Hc Hw. unfold py_repeat. rewrite cell_len_repeat, Hc. lia. Qed.

Lemma cell_len_single c : cell_len [c] = char_size c.
Proof. rewrite cell_len_cons. change (cell_len []) with 0. lia. Qed.

Lemma box_run_len h cross : char_size h = 1 -> char_size cross = 1 -> forall widths,
  widths <> [] -> Forall (fun w => 0 <= w) widths ->
  cell_len (box_run h cross widths) = sumZ widths + Z.of_nat (length widths) - 1.
Proof.
  intros Hh Hc. induction widths as [|w ws IH]; intros Hne Hw; [congruence|].
  inversion Hw; subst. destruct ws as [|w2 ws].
  - cbn [box_run]. rewrite cell_len_py_repeat1 by assumption. unfold sumZ. simpl. lia.
  - change (box_run h cross (w :: w2 :: ws)) with (py_repeat h w ++ cross :: box_run h cross (w2 :: ws)).
    rewrite cell_len_app, cell_len_cons, cell_len_py_repeat1, Hc, IH by (assumption || discriminate).
    rewrite !sumZ_cons. cbn [length]. lia.
Qed.

Lemma box_w1_in b c : box_w1 b = true -> In c (box_chars b) -> char_size c = 1.
Proof. unfold box_w1. rewrite forallb_forall. intros H Hin. specialize (H c Hin). lia. Qed.

Ltac box_char H := apply (box_w1_in _ _ H); unfold box_chars; simpl; tauto.

Definition box_extra (edge : bool) (n : nat) : Z := (if edge then 2 else 0) + Z.of_nat n - 1.

Lemma get_row_len b widths lv edge : box_w1 b = true -> widths <> [] -> Forall (fun w => 0 <= w) widths ->
  cell_len (get_row b widths lv edge) = box_extra edge (length widths) + sumZ widths.
Proof.
  intros Hb Hne Hw. unfold get_row, box_extra.
  assert (HSP : char_size SP = 1) by (vm_compute; reflexivity).
  destruct lv; cbv iota beta; rewrite !cell_len_app, box_run_len; try assumption; try (box_char Hb);
    destruct edge; rewrite ?cell_len_single; change (cell_len []) with 0;
    repeat match goal with |- context [char_size ?c] => replace (char_size c) with 1 by (symmetry; box_char Hb) end; lia.
Qed.

Lemma get_top_len b widths : box_w1 b = true -> widths <> [] -> Forall (fun w => 0 <= w) widths ->
  cell_len (get_top b widths) = box_extra true (length widths) + sumZ widths.
Proof.
  intros Hb Hne Hw. unfold get_top, box_extra.
  rewrite cell_len_cons, cell_len_app, box_run_len, cell_len_single; try assumption; try (box_char Hb).
  replace (char_size (top_left b)) with 1 by (symmetry; box_char Hb).
  replace (char_size (top_right b)) with 1 by (symmetry; box_char Hb). lia.
Qed.

Lemma get_bottom_len b widths : box_w1 b = true -> widths <> [] -> Forall (fun w => 0 <= w) widths ->
  cell_len (get_bottom b widths) = box_extra true (length widths) + sumZ widths.
Proof.
  intros Hb Hne Hw. unfold get_bottom, box_extra.
  rewrite cell_len_cons, cell_len_app, box_run_len, cell_len_single; try assumption; try (box_char Hb).
  replace (char_size (bottom_left b)) with 1 by (symmetry; box_char Hb).
  replace (char_size (bottom_right b)) with 1 by (symmetry; box_char Hb). lia.
Qed.

(* every Box literal of rich/box.py (regenerated) parses and has one-cell characters *)
Lemma all_boxes_w1 :
  forallb (fun '(_, _, ls) => match box_of_lines ls with Some b => box_w1 b | None => false end) BOXES = true.
Proof. vm_compute. reflexivity. Qed.

Lemma nth_box_w1 i b : nth_box i = Some b -> box_w1 b = true.
Proof.
  unfold nth_box. destruct (nth_error BOXES i) as [[[nm asc] ls]|] eqn:E; [|discriminate].
  intros H. pose proof all_boxes_w1 as A. rewrite forallb_forall in A.
  specialize (A _ (nth_error_In _ _ E)). cbv beta iota in A. rewrite H in A. exact A.
Qed.

(* ------------------------------------------------------------------ cell rectangles *)
Lemma adjust_pad_len (l : line) w st : 0 <= w -> line_len (adjust_line_length l w st true) = w.
Proof.
  intros Hw. pose proof (adjust_line_length_spec l w st true Hw) as H. unfold adjust_ok_b in H.
  cbn [orb] in H. apply andb_true_iff in H as [H _]. apply andb_true_iff in H as [H _]. lia.
Qed.

Lemma blank_line_len w (st : option Z) : 0 <= w -> line_len [mkSeg (py_repeat SP w) st false] = w.
Proof.
  intros Hw. rewrite line_len_single. unfold seg_len. cbn [ctl txt]. unfold py_repeat.
  rewrite cell_len_spaces. lia.
Qed.

Lemma set_shape_go_spec w st : 0 <= w -> forall (ls : list line) rem,
  length (set_shape_go Z ls w rem st) = Nat.max (length ls) rem /\
  Forall (fun l => line_len l = w) (set_shape_go Z ls w rem st).
Proof.
  intros Hw. induction ls as [|l ls IH]; intros rem.
  - cbn [set_shape_go]. split; [rewrite repeat_length; reflexivity|].
    apply Forall_forall. intros x Hx. apply repeat_spec in Hx. subst. apply blank_line_len. exact Hw.
  - cbn [set_shape_go]. destruct (IH (pred rem)) as [I1 I2]. split.
    + cbn [length]. rewrite I1. lia.
    + constructor; [apply adjust_pad_len; exact Hw|exact I2].
Qed.

(* a rendered row: every cell is a rectangle of its column width and the common height *)
Definition rect_cell (h : nat) (w : Z) (c : list line) : Prop :=
  length c = h /\ Forall (fun l => line_len l = w) c.

Lemma fold_max_ge : forall l (x : nat), (x <= fold_left Nat.max l x)%nat /\ Forall (fun y => (y <= fold_left Nat.max l x)%nat) l.
Proof.
  induction l as [|y l IH]; intros x; simpl; [split; [lia|constructor]|].
  destruct (IH (Nat.max x y)) as [H1 H2]. split; [lia|constructor; [lia|exact H2]].
Qed.

Lemma shape_row_spec widths r : Forall (fun w => 0 <= w) widths -> length (r_cells r) = length widths ->
  let '(cells, h) := shape_row widths r in Forall2 (rect_cell h) widths cells.
Proof.
  intros Hw. unfold shape_row. generalize (r_cells r) (r_style r). clear r. intros cs st Hl.
  set (raw := map (fun '(w, c) => (w, c w)) (combine widths cs)).
  set (h := fold_left Nat.max (map (fun wc => length (snd wc)) raw) 1%nat).
  assert (Hh : Forall (fun wc : Z * list line => (length (snd wc) <= h)%nat) raw).
  { destruct (fold_max_ge (map (fun wc : Z * list line => length (snd wc)) raw) 1%nat) as [_ H].
    fold h in H. rewrite Forall_map in H. exact H. }
  clearbody h. subst raw. revert cs Hl Hh.
  induction Hw as [|w ws Hw0 Hws IH]; intros [|c cs] Hl Hh; try discriminate; [constructor|].
  cbn [combine map] in *. inversion Hh as [|? ? Hc Hcs]; subst. cbn [snd] in Hc.
  constructor; [|apply IH; [simpl in Hl; lia|exact Hcs]].
  unfold set_shape. rewrite Nat2Z.id. destruct (set_shape_go_spec w st Hw0 (c w) h) as [S1 S2].
  split; [rewrite S1; lia|exact S2].
Qed.

(* ------------------------------------------------------------------ assembling rows *)
Lemma heads_tails_spec h : forall widths (cells : list (list line)),
  Forall2 (rect_cell (S h)) widths cells ->
  exists hs ts, heads_tails cells = Some (hs, ts) /\
                Forall2 (fun w l => line_len l = w) widths hs /\ Forall2 (rect_cell h) widths ts.
Proof.
  induction 1 as [|w c ws cs [Hc1 Hc2] _ IH].
  - exists [], []. repeat split; constructor.
  - destruct IH as [hs [ts [I1 [I2 I3]]]]. destruct c as [|l ls]; [discriminate|].
    inversion Hc2; subst. exists (l :: hs), (ls :: ts). cbn [heads_tails]. rewrite I1.
    split; [reflexivity|]. split; [constructor; [reflexivity|exact I2]|].
    constructor; [|exact I3]. split; [simpl in Hc1; lia|assumption].
Qed.

Lemma join_cells_len (d : option (seg Z)) : forall widths (hs : list line),
  Forall2 (fun w l => line_len l = w) widths hs -> widths <> [] ->
  line_len (join_cells d hs) =
  sumZ widths + (Z.of_nat (length widths) - 1) * match d with Some g => seg_len g | None => 0 end.
Proof.
  induction 1 as [|w l ws ls Hl Hrest IH]; intros Hne; [congruence|].
  destruct Hrest as [|w2 l2 ws2 ls2 Hl2 Hrest2].
  - cbn [join_cells]. unfold sumZ. simpl. lia.
  - change (join_cells d (l :: l2 :: ls2)) with
      (l ++ (match d with Some g => [g] | None => [] end) ++ join_cells d (l2 :: ls2)).
    rewrite !line_len_app, IH by discriminate. rewrite !sumZ_cons. cbn [length].
    destruct d; [rewrite line_len_single|change (line_len []) with 0]; lia.
Qed.

Lemma hcat_spec (mk : list line -> line) (W : Z) widths :
  (forall hs, Forall2 (fun w l => line_len l = w) widths hs -> line_len (mk hs) = W) ->
  forall h cells, Forall2 (rect_cell h) widths cells ->
  exists ls, hcat h cells mk = Ok ls /\ length ls = h /\ Forall (fun l => line_len l = W) ls.
Proof.
  intros Hmk. induction h as [|h IH]; intros cells Hc.
  - exists []. repeat split; constructor.
  - destruct (heads_tails_spec h widths cells Hc) as [hs [ts [H1 [H2 H3]]]].
    destruct (IH ts H3) as [ls [L1 [L2 L3]]].
    exists (mk hs :: ls). cbn [hcat]. rewrite H1, L1. cbn [bind]. repeat split; [simpl; lia|].
    constructor; [apply Hmk; exact H2|exact L3].
Qed.

Lemma bseg_len s : seg_len (bseg s) = cell_len s.
Proof. reflexivity. Qed.

Lemma bseg_line_len s : line_len [bseg s] = cell_len s.
Proof. rewrite line_len_single. apply bseg_len. Qed.

(* the box the options announce is the box that is drawn with *)
Definition box_agrees (o : topts) (b : option boxc) : Prop :=
  o_box o = match b with Some _ => true | None => false end /\
  match b with Some bx => box_w1 bx = true | None => True end.

Lemma extra_width_box o bx n : box_agrees o (Some bx) -> (0 < n)%nat -> extra_width o n = box_extra (o_edge o) n.
Proof. intros [H _] Hn. unfold extra_width, box_extra. rewrite H. cbn [andb]. destruct (o_edge o); lia. Qed.

Lemma extra_width_nobox o n : box_agrees o None -> extra_width o n = 0.
Proof. intros [H _]. unfold extra_width. rewrite H. reflexivity. Qed.

Section Render.
Variables (o : topts) (b : option boxc) (widths : list Z).
Hypothesis Hbox : box_agrees o b.
Hypothesis Hne : widths <> [].
Hypothesis Hw : Forall (fun w => 0 <= w) widths.

Let W := extra_width o (length widths) + sumZ widths.

Lemma widths_len_pos : (0 < length widths)%nat.
Proof. destruct widths; [congruence|simpl; lia]. Qed.

Lemma row_body_spec first last r : length (r_cells r) = length widths ->
  exists ls, row_body o b widths first last r = Ok ls /\ ls <> [] /\ Forall (fun l => line_len l = W) ls.
Proof.
  intros Hl. unfold row_body. pose proof (shape_row_spec widths r Hw Hl) as Hs.
  assert (Hh : (1 <= snd (shape_row widths r))%nat).
  { unfold shape_row. cbn [snd]. destruct (fold_max_ge (map (fun wc : Z * list line => length (snd wc))
      (map (fun '(w, c) => (w, c w)) (combine widths (r_cells r)))) 1%nat) as [H _]. exact H. }
  destruct (shape_row widths r) as [cells h]. cbn [snd] in Hh.
  assert (Hnonempty : forall mk ls, hcat h cells mk = Ok ls -> length ls = h -> ls <> []).
  { intros mk ls _ Hlen ->. simpl in Hlen. lia. }
  destruct b as [bx|].
  - destruct Hbox as [Hb1 Hb2].
    set (tri := if first then (head_left bx, head_right bx, head_vertical bx)
                else if last then (mid_left bx, mid_right bx, mid_vertical bx)
                else (foot_left bx, foot_right bx, foot_vertical bx)).
    assert (Htri : char_size (fst (fst tri)) = 1 /\ char_size (snd (fst tri)) = 1 /\ char_size (snd tri) = 1).
    { unfold tri. destruct first; [|destruct last]; cbn [fst snd]; repeat split; box_char Hb2. }
    destruct tri as [[l rt] d]. cbn [fst snd] in Htri. destruct Htri as [T1 [T2 T3]].
    edestruct (hcat_spec (fun hs => (if o_edge o then [bseg [l]] else []) ++ join_cells (Some (bseg [d])) hs
                                    ++ (if o_edge o then [bseg [rt]] else [])) W widths) as [ls [L1 [L2 L3]]];
      [|exact Hs|exists ls; split; [exact L1|split; [eapply Hnonempty; eassumption|exact L3]]].
    intros hs Hhs. rewrite !line_len_app, (join_cells_len _ widths hs Hhs Hne).
    unfold W. rewrite (extra_width_box o bx _ (conj Hb1 Hb2) widths_len_pos). unfold box_extra.
    rewrite bseg_len, cell_len_single, T3.
    destruct (o_edge o); rewrite ?bseg_line_len, ?cell_len_single, ?T1, ?T2; change (line_len []) with 0; lia.
  - edestruct (hcat_spec (fun hs => join_cells None hs) W widths) as [ls [L1 [L2 L3]]];
      [|exact Hs|exists ls; split; [exact L1|split; [eapply Hnonempty; eassumption|exact L3]]].
    intros hs Hhs. rewrite (join_cells_len _ widths hs Hhs Hne).
    unfold W. rewrite (extra_width_nobox o _ Hbox). lia.
Qed.

Lemma box_line_W bx lv : b = Some bx -> line_len [bseg (get_row bx widths lv (o_edge o))] = W.
Proof.
  intros ->. destruct Hbox as [Hb1 Hb2]. rewrite bseg_line_len, get_row_len by assumption.
  unfold W. rewrite (extra_width_box o bx _ (conj Hb1 Hb2) widths_len_pos). reflexivity.
Qed.

Lemma row_pre_spec last : Forall (fun l => line_len l = W) (row_pre o b widths last).
Proof.
  unfold row_pre. destruct b as [bx|] eqn:Eb; [|constructor].
  destruct (last && o_footer o); [|constructor]. constructor; [|constructor].
  rewrite <- Eb in *. apply box_line_W. exact Eb.
Qed.

(* with the blank `leading` rows on lines of their own (lead_mul = false) *)
Lemma row_post_spec index nrows first last r :
  Forall (fun l => line_len l = W) (row_post false o b widths index nrows first last r).
Proof.
  unfold row_post. destruct b as [bx|] eqn:Eb; [|constructor].
  assert (HL : forall lv, line_len [bseg (get_row bx widths lv (o_edge o))] = W).
  { intros lv. rewrite <- Eb in *. apply box_line_W. exact Eb. }
  apply Forall_app. split.
  - destruct (first && o_header o); [|constructor]. constructor; [apply HL|constructor].
  - match goal with |- Forall _ (if ?c then _ else _) => destruct c end; [|constructor].
    destruct (negb (o_leading o =? 0)).
    + apply Forall_forall. intros x Hx. apply repeat_spec in Hx. subst. apply HL.
    + constructor; [apply HL|constructor].
Qed.

Lemma row_blocks_spec nrows : forall rows index,
  Forall (fun r => length (r_cells r) = length widths) rows ->
  exists blks, row_blocks false o b widths index nrows rows = Ok blks /\ length blks = length rows /\
               Forall (fun l => line_len l = W) (concat blks).
Proof.
  induction rows as [|r rows IH]; intros index Hr.
  - exists []. repeat split; constructor.
  - inversion Hr as [|? ? Hr0 Hrs]; subst. cbn [row_blocks]. unfold row_block.
    destruct (row_body_spec (index =? 0)%nat (S index =? nrows)%nat r Hr0) as [body [B1 [_ B2]]].
    rewrite B1. cbn [bind]. destruct (IH (S index) Hrs) as [blks [K1 [K2 K3]]]. rewrite K1. cbn [bind].
    eexists. split; [reflexivity|]. split; [simpl; lia|].
    cbn [concat]. rewrite !Forall_app. repeat split; try assumption; [apply row_pre_spec|apply row_post_spec].
Qed.

(* Every line of a rendered table body has cell width  extra + sum of the column widths. *)
Theorem render_table_rect rows :
  Forall (fun r => length (r_cells r) = length widths) rows ->
  exists lines, render_table false o b widths rows = Ok lines /\ Forall (fun l => line_len l = W) lines.
Proof.
  intros Hr. unfold render_table.
  destruct (row_blocks_spec (length rows) rows 0%nat Hr) as [blks [K1 [_ K3]]]. rewrite K1. cbn [bind].
  eexists. split; [reflexivity|]. rewrite !Forall_app. repeat split; [|exact K3|].
  - unfold table_top. destruct b as [bx|] eqn:Eb; [|constructor]. destruct (o_edge o) eqn:Ee; [|constructor].
    constructor; [|constructor]. destruct Hbox as [Hb1 Hb2]. rewrite bseg_line_len, get_top_len by assumption.
    unfold W. rewrite (extra_width_box o bx _ (conj Hb1 Hb2) widths_len_pos), Ee. reflexivity.
  - unfold table_bottom. destruct b as [bx|] eqn:Eb; [|constructor]. destruct (o_edge o) eqn:Ee; [|constructor].
    constructor; [|constructor]. destruct Hbox as [Hb1 Hb2]. rewrite bseg_line_len, get_bottom_len by assumption.
    unfold W. rewrite (extra_width_box o bx _ (conj Hb1 Hb2) widths_len_pos), Ee. reflexivity.
Qed.
End Render.

(* ------------------------------------------------------------------ the checkers on the model's lines *)
Lemma cell_len_line_text (l : line) : cell_len (line_text l) = line_len l.
Proof.
  induction l as [|g l IH]; [reflexivity|].
  unfold line_text in *. cbn [map concat]. rewrite cell_len_app, IH, line_len_cons.
  unfold seg_len. destruct (ctl g); reflexivity.
Qed.

Lemma expand_exact_of_forall W (lines : list line) :
  Forall (fun l => line_len l = W) lines -> expand_exact_b W (map line_text lines) = true.
Proof.
  intros H. unfold expand_exact_b. rewrite forallb_forall. intros s Hs.
  apply in_map_iff in Hs as [l [<- Hl]]. rewrite Forall_forall in H. rewrite cell_len_line_text, (H l Hl). lia.
Qed.

Lemma rect_of_expand_exact W lines : expand_exact_b W lines = true -> rect_b lines = true.
Proof.
  unfold expand_exact_b, rect_b. intros H. destruct lines as [|s rest]; [reflexivity|].
  cbn [map]. simpl in H. apply andb_true_iff in H as [H1 H2].
  rewrite forallb_forall. intros x Hx. apply in_map_iff in Hx as [y [<- Hy]].
  rewrite forallb_forall in H2. specialize (H2 y Hy). lia.
Qed.

Theorem table_rows_equal_width o b widths rows :
  box_agrees o b -> widths <> [] -> Forall (fun w => 0 <= w) widths ->
  Forall (fun r => length (r_cells r) = length widths) rows ->
  exists lines, render_table false o b widths rows = Ok lines /\
                expand_exact_b (extra_width o (length widths) + sumZ widths) (map line_text lines) = true /\
                rect_b (map line_text lines) = true.
Proof.
  intros Hb Hne Hw Hr. destruct (render_table_rect o b widths Hb Hne Hw rows Hr) as [lines [L1 L2]].
  exists lines. split; [exact L1|]. pose proof (expand_exact_of_forall _ _ L2) as E.
  split; [exact E|eapply rect_of_expand_exact; exact E].
Qed.

(* D11: as found in 9.10.0 the `leading` blank row is multiplied inside ONE line *)
Definition d11_cell (s : string) : cell := fun _ => [[mkSeg (lit s) None false]].
Definition d11_opts : topts :=
  mkOpts true true false false false 2 (0, 0, 0, 0) false true false None None.
Definition d11_rows : list trow :=
  [mkRow [d11_cell "a"; d11_cell "b"] false None; mkRow [d11_cell "c"; d11_cell "d"] false None].

Definition d11_box : option boxc := nth_box 15.   (* HEAVY_HEAD, the default *)
Definition d11_lines : list line :=
  match render_table true d11_opts d11_box [1; 1] d11_rows with Ok ls => ls | _ => [] end.

Theorem table_leading_asis_refuted :
  exists o b widths rows lines,
    box_agrees o b /\ widths <> [] /\ Forall (fun w => 0 <= w) widths /\
    Forall (fun r => length (r_cells r) = length widths) rows /\
    render_table true o b widths rows = Ok lines /\ rect_b (map line_text lines) = false.
Proof.
  exists d11_opts, d11_box, [1; 1], d11_rows, d11_lines.
  split; [split; vm_compute; reflexivity|]. split; [discriminate|].
  split; [repeat constructor; lia|]. split; [repeat constructor|].
  split; vm_compute; reflexivity.
Qed.

(* ------------------------------------------------------------------ rows in order *)
Lemma indexed_row_blocks lm o b widths nrows : forall rows index blks,
  row_blocks lm o b widths index nrows rows = Ok blks ->
  Forall2 (fun ir blk => row_block lm o b widths (fst ir) nrows (snd ir) = Ok blk) (indexed index rows) blks.
Proof.
  induction rows as [|r rows IH]; intros index blks H.
  - simpl in H. injection H as <-. constructor.
  - cbn [row_blocks] in H. destruct (row_block lm o b widths index nrows r) as [blk| |] eqn:E1; try discriminate.
    cbn [bind] in H. destruct (row_blocks lm o b widths (S index) nrows rows) as [rest| |] eqn:E2; try discriminate.
    cbn [bind] in H. injection H as <-. cbn [indexed]. constructor; [exact E1|apply IH; exact E2].
Qed.

Lemma Forall2_imp {A B} (P Q : A -> B -> Prop) l1 l2 :
  (forall a b, P a b -> Q a b) -> Forall2 P l1 l2 -> Forall2 Q l1 l2.
Proof. intros H. induction 1; constructor; auto. Qed.

(* The body is: top border, then one block per row IN INSERTION ORDER, then the bottom border; a
   block is the row's own content lines, preceded / followed only by separator lines built from
   the same width vector. *)
Theorem rows_in_order lm o b widths rows lines :
  render_table lm o b widths rows = Ok lines ->
  exists blks,
    lines = table_top o b widths ++ concat blks ++ table_bottom o b widths /\
    Forall2 (fun ir blk =>
               let '(i, r) := ir in
               let first := (i =? 0)%nat in
               let last := (S i =? length rows)%nat in
               exists body, row_body o b widths first last r = Ok body /\
                 blk = row_pre o b widths last ++ body ++ row_post lm o b widths i (length rows) first last r)
            (indexed 0 rows) blks.
Proof.
  unfold render_table. intros H.
  destruct (row_blocks lm o b widths 0 (length rows) rows) as [blks| |] eqn:E; try discriminate.
  cbn [bind] in H. injection H as <-. exists blks. split; [reflexivity|].
  pose proof (indexed_row_blocks _ _ _ _ _ _ _ _ E) as F.
  eapply Forall2_imp; [|exact F]. intros [i r] blk Hb. cbn [fst snd] in Hb. unfold row_block in Hb.
  destruct (row_body o b widths (i =? 0)%nat (S i =? length rows)%nat r) as [body| |] eqn:E1; try discriminate.
  cbn [bind] in Hb. injection Hb as <-. exists body. split; reflexivity.
Qed.

(* ------------------------------------------------------------------ width solving under expand *)
Lemma zip_add_sum : forall a b, length b = length a -> sumZ (zip_add a b) = sumZ a + sumZ b.
Proof.
  induction a as [|x a IH]; intros [|y b] H; try discriminate; [reflexivity|].
  unfold zip_add in *. cbn [combine map]. rewrite !sumZ_cons, IH by (simpl in H; lia). lia.
Qed.

Lemma zip_add_ge : forall a b, length b = length a -> Forall (fun d => 0 <= d) b ->
  Forall (fun w => 1 <= w) a -> Forall (fun w => 1 <= w) (zip_add a b).
Proof.
  induction a as [|x a IH]; intros [|y b] H Hb Ha; try discriminate; [constructor|].
  inversion Hb; inversion Ha; subst. unfold zip_add in *. cbn [combine map].
  constructor; [lia|apply IH; [simpl in H; lia|assumption|assumption]].
Qed.

(* the widths _calculate_column_widths starts from: the measured maxima *)
Definition initial_widths (o : topts) (cols : list tcol) (max_width : Z) : list Z :=
  map (fun r => or1 (snd r)) (map (fun '(i, c) => measure_column o i c max_width) (indexed 0 cols)).

(* Expand, no ratio columns, and the table fits at its measured maxima: the solved widths sum to
   exactly max_width (= available width - borders).  For the code as found this needs min_width to
   be unset (capmin); for the repaired code it holds with any min_width. *)
Theorem calc_widths_expand_fits stale capmin o cols max_width :
  t_expand o = true -> (capmin = false \/ o_minw o = None) ->
  filter flexible cols = [] -> cols <> [] ->
  Forall (fun w => 1 <= w) (initial_widths o cols max_width) ->
  sumZ (initial_widths o cols max_width) <= max_width ->
  exists ws, calc_widths stale capmin o cols max_width = Ok ws /\ sumZ ws = max_width /\
             Forall (fun w => 1 <= w) ws /\ length ws = length cols.
Proof.
  intros Hex Hcap Hflex Hne Hpos Hfit. unfold calc_widths. rewrite Hex, Hflex. cbn [map any_nonzero existsb].
  fold (initial_widths o cols max_width). set (ws0 := initial_widths o cols max_width) in *.
  cbn [bind]. replace (max_width <? sumZ ws0) with false by lia. cbn [bind andb].
  assert (Hlen0 : length ws0 = length cols).
  { unfold ws0, initial_widths. rewrite !map_length. clear. generalize 0%nat. induction cols; intros n; simpl; [reflexivity|f_equal; apply IHcols]. }
  assert (Hs0 : 0 < sumZ ws0).
  { destruct ws0 as [|w ws]; [destruct cols; [congruence|discriminate]|]. inversion Hpos; subst.
    rewrite sumZ_cons. assert (0 <= sumZ ws) by (apply sumZ_nonneg; eapply Forall_impl; [|eassumption]; simpl; lia). lia. }
  assert (Hnn : Forall (fun r => 0 <= r) ws0) by (eapply Forall_impl; [|exact Hpos]; simpl; lia).
  match goal with |- context [if ?c then _ else _] => destruct c eqn:Ec end.
  - match goal with |- context [ratio_distribute (?m - sumZ ws0)] => set (mw := m) end.
    assert (Hmw : mw = max_width).
    { unfold mw. destruct (o_minw o) as [m|]; [|reflexivity]. destruct Hcap as [->|Hc]; [reflexivity|discriminate]. }
    rewrite Hmw.
    destruct (ratio_distribute_sum (max_width - sumZ ws0) ws0 ltac:(lia) Hnn Hs0) as [pad [P1 [P2 [P3 P4]]]].
    rewrite P1. cbn [bind]. unfold distribute_sum_b in P2.
    eexists. split; [reflexivity|]. split; [rewrite zip_add_sum by lia; lia|].
    split; [apply zip_add_ge; [lia|assumption|assumption]|].
    unfold zip_add. rewrite map_length, combine_length. lia.
  - exists ws0. split; [reflexivity|]. split; [|split; assumption].
    apply orb_false_iff in Ec as [Ec _]. rewrite andb_true_r in Ec. lia.
Qed.

(* D21 and its sibling, on the code as found: an expanding table that is NOT as wide as asked.
   (a) ratio columns + collapse: table_width is stale after the re-measure, the slack is never
       handed out; (b) expand together with min_width: padded to min_width only. *)
Definition d21_opts : topts :=
  mkOpts true true false false false 0 (0, 0, 0, 3) false false true None None.
Definition d21_cols : list tcol :=
  [mkCol None None None (Some 5) false (text_cells d21_opts 3 0 [(5, 5)]);
   mkCol None None None (Some 1) false (text_cells d21_opts 3 1 [(2, 2)]);
   mkCol None None None None false (text_cells d21_opts 3 2 [(8, 8)])].

Theorem table_expand_exact_stale_refuted :
  exists o cols avail ws,
    t_expand o = true /\ o_minw o = None /\
    Forall (fun c => c_width c = None /\ c_maxw c = None /\ c_minw c = None /\ c_nowrap c = false) cols /\
    table_widths true true o cols avail = Ok ws /\
    extra_width o (length cols) + sumZ ws <> target_width o avail /\
    (exists ws', table_widths false false o cols avail = Ok ws' /\
                 extra_width o (length cols) + sumZ ws' = target_width o avail).
Proof.
  exists d21_opts, d21_cols, 28, [5; 4; 10].
  split; [reflexivity|]. split; [reflexivity|]. split; [repeat constructor|].
  split; [vm_compute; reflexivity|]. split; [vm_compute; discriminate|].
  exists [7; 5; 12]. split; vm_compute; reflexivity.
Qed.

Definition capmin_opts : topts :=
  mkOpts true true true false false 0 (0, 1, 0, 1) false true true None (Some 20).
Definition capmin_cols : list tcol :=
  [mkCol None None None None false (text_cells capmin_opts 2 0 [(1, 1); (1, 1)]);
   mkCol None None None None false (text_cells capmin_opts 2 1 [(1, 1); (1, 1)])].

Theorem table_expand_exact_capmin_refuted :
  exists o cols avail ws,
    t_expand o = true /\ filter flexible cols = [] /\
    Forall (fun c => c_width c = None /\ c_maxw c = None) cols /\
    table_widths false true o cols avail = Ok ws /\
    extra_width o (length cols) + sumZ ws <> target_width o avail /\
    (exists ws', table_widths false false o cols avail = Ok ws' /\
                 extra_width o (length cols) + sumZ ws' = target_width o avail).
Proof.
  exists capmin_opts, capmin_cols, 40, [9; 8].
  split; [reflexivity|]. split; [reflexivity|]. split; [repeat constructor|].
  split; [vm_compute; reflexivity|]. split; [vm_compute; discriminate|].
  exists [19; 18]. split; vm_compute; reflexivity.
Qed.
