(* C11, part 8 (sequential): a consistent write sequence (ConcP7.cons_file) leaves the terminal
   showing the printed lines in file order followed by the rows of the frame written last --
   C10's screen statement at the granularity of rows, for the order in which the writes reached
   the file.  Pure list reasoning about model/Conc.v's terminal; no concurrency here. *)
From RichModel Require Import Prelude Conc SpecConc.
From RichProofs Require Import ConcP7.
From Coq Require Import ZifyBool.
Open Scope list_scope.

Definition allblank (l : list row) : Prop := forall r, In r l -> r = RBlank.

Lemma allblank_tl l : allblank l -> allblank (tl l).
Proof. intros H r Hr. apply H. destruct l; cbn in *; auto. Qed.
Lemma allblank_repeat n : allblank (repeat RBlank n).
Proof. intros r Hr. apply repeat_spec in Hr. exact Hr. Qed.
Lemma allblank_app a b : allblank a -> allblank b -> allblank (a ++ b).
Proof. intros Ha Hb r Hr. apply in_app_or in Hr. destruct Hr; auto. Qed.

Lemma set_row_at A Bl r : set_row (A ++ Bl) (length A) r = A ++ r :: tl Bl.
Proof.
  unfold set_row, pad. rewrite app_length.
  destruct Bl as [|b Bl]; cbn [length tl].
  - replace (S (length A) - (length A + 0))%nat with 1%nat by lia. cbn [repeat].
    rewrite app_nil_r. rewrite firstn_app, firstn_all, Nat.sub_diag. cbn [firstn]. rewrite app_nil_r.
    rewrite skipn_app, skipn_all2 by lia. replace (S (length A) - length A)%nat with 1%nat by lia. reflexivity.
  - replace (S (length A) - (length A + S (length Bl)))%nat with 0%nat by lia. cbn [repeat]. rewrite app_nil_r.
    rewrite firstn_app, firstn_all, Nat.sub_diag. cbn [firstn]. rewrite app_nil_r.
    rewrite skipn_app, skipn_all2 by lia. replace (S (length A) - length A)%nat with 1%nat by lia. reflexivity.
Qed.

Lemma pad_after A r Bl : exists Bl', pad (A ++ r :: Bl) (S (length A)) = A ++ r :: Bl' /\ (allblank Bl -> allblank Bl').
Proof.
  unfold pad. rewrite app_length. cbn [length]. destruct Bl as [|b Bl]; cbn [length].
  - replace (S (S (length A)) - (length A + 1))%nat with 1%nat by lia. cbn [repeat].
    exists [RBlank]. split; [rewrite <- app_assoc; reflexivity|]. intros _ x [<-|[]]; reflexivity.
  - replace (S (S (length A)) - (length A + S (S (length Bl))))%nat with 0%nat by lia. cbn [repeat].
    exists (b :: Bl). rewrite app_nil_r. auto.
Qed.

(* cursor at the start of row |A|, nothing but blank rows from there on *)
Definition at_row (A : list row) (s : scr) : Prop :=
  exists Bl, s = mkScr (A ++ Bl) (length A) false /\ allblank Bl.
(* cursor at the end of the last row of the frame F drawn below A *)
Definition on_frame (A F : list row) (s : scr) : Prop :=
  exists Bl, s = mkScr (A ++ F ++ Bl) (length A + length F - 1) true /\ F <> [] /\ allblank Bl.

Lemma put_newline A s r : at_row A s -> at_row (A ++ [r]) (newline (put s r)).
Proof.
  intros [Bl [-> Hb]]. unfold put, newline. cbn [rows cur mid].
  rewrite set_row_at. destruct (pad_after A r (tl Bl)) as [Bl' [E Hb']]. rewrite E.
  exists Bl'. split; [|apply Hb', allblank_tl, Hb].
  rewrite <- app_assoc, app_length. cbn [app length]. f_equal. lia.
Qed.

Lemma txt_step A s t id : at_row A s -> at_row (A ++ [RTxt t id]) (apply_item s (Txt t id)).
Proof. intros H. cbn [apply_item]. apply put_newline. exact H. Qed.

Lemma frame_step fid : forall h k A s, at_row A s -> (1 <= h)%nat ->
  on_frame A (map (RFrame fid) (seq k h)) (put_frame fid k h s).
Proof.
  induction h as [|h IH]; intros k A s Hs Hh; [lia|].
  destruct h as [|h'].
  - cbn [put_frame seq map]. destruct Hs as [Bl [-> Hb]]. unfold put. cbn [rows cur mid].
    rewrite set_row_at. exists (tl Bl). cbn [length app]. split; [f_equal; lia|]. split; [discriminate|apply allblank_tl, Hb].
  - change (put_frame fid k (S (S h')) s) with (put_frame fid (S k) (S h') (newline (put s (RFrame fid k)))).
    pose proof (put_newline A s (RFrame fid k) Hs) as H1.
    destruct (IH (S k) (A ++ [RFrame fid k]) _ H1 ltac:(lia)) as [Bl [E [_ Hb]]].
    exists Bl. rewrite E. split; [|split; [discriminate|exact Hb]].
    f_equal.
    + cbn [seq map]. rewrite <- app_assoc. reflexivity.
    + rewrite app_length, !map_length, !seq_length. cbn [length]. lia.
Qed.

Lemma repeat_shift {A} (x : A) n l : repeat x n ++ x :: l = x :: repeat x n ++ l.
Proof. induction n as [|n IH]; cbn; auto. rewrite IH. reflexivity. Qed.

Lemma erase_up_rows : forall F1 A Bl,
  erase_up (length F1) (mkScr ((A ++ F1) ++ Bl) (length A + length F1) false)
  = mkScr (A ++ repeat RBlank (length F1) ++ Bl) (length A) false.
Proof.
  induction F1 as [|y F0 IH] using rev_ind; intros A Bl.
  - cbn. rewrite app_nil_r, Nat.add_0_r. reflexivity.
  - rewrite app_length. cbn [length]. replace (length F0 + 1)%nat with (S (length F0)) by lia.
    cbn [erase_up]. unfold clear_row. cbn [rows cur mid].
    replace (pred (length A + S (length F0))) with (length (A ++ F0)) by (rewrite app_length; lia).
    replace ((A ++ F0 ++ [y]) ++ Bl) with ((A ++ F0) ++ y :: Bl) by (rewrite <- !app_assoc; reflexivity).
    rewrite set_row_at. cbn [tl]. rewrite app_length.
    rewrite (IH A (RBlank :: Bl)). f_equal.
    cbn [repeat app]. rewrite repeat_shift. reflexivity.
Qed.

Lemma erase_step A F s : on_frame A F s -> at_row A (apply_item s (Erase (length F))).
Proof.
  intros [Bl [-> [Hn Hb]]].
  destruct F as [|x F'] using rev_ind; [congruence|]. clear IHF'.
  rewrite app_length. cbn [length]. replace (length F' + 1)%nat with (S (length F')) by lia.
  cbn [apply_item]. unfold clear_row. cbn [rows cur mid].
  replace (length A + S (length F') - 1)%nat with (length (A ++ F')) by (rewrite app_length; lia).
  replace (A ++ (F' ++ [x]) ++ Bl) with ((A ++ F') ++ x :: Bl) by (rewrite <- !app_assoc; reflexivity).
  rewrite set_row_at. cbn [tl]. rewrite app_length, erase_up_rows.
  exists (repeat RBlank (length F') ++ RBlank :: Bl). split; [reflexivity|].
  apply allblank_app; [apply allblank_repeat|]. intros r [<-|Hr]; auto.
Qed.

Lemma texts_app a b : texts (a ++ b) = texts a ++ texts b.
Proof. unfold texts. apply flat_map_app. Qed.

Lemma txts_step : forall txts A s, forallb is_txt txts = true -> at_row A s ->
  at_row (A ++ texts txts) (fold_left apply_item txts s).
Proof.
  induction txts as [|it txts IH]; intros A s Ht Hs; cbn [fold_left].
  - unfold texts. cbn. rewrite app_nil_r. exact Hs.
  - cbn [forallb] in Ht. apply andb_prop in Ht. destruct Ht as [H1 H2].
    destruct it; try discriminate H1.
    change (texts (Txt t id :: txts)) with ([RTxt t id] ++ texts txts). rewrite app_assoc.
    apply IH; auto. apply txt_step. exact Hs.
Qed.

Lemma last_frame_app a b acc : last_frame (a ++ b) acc = last_frame b (last_frame a acc).
Proof. revert acc. induction a as [|x a IH]; intros acc; cbn; auto. destruct x; auto. Qed.

Lemma texts_erase shp : texts (erase_of shp) = [].
Proof. destruct shp; reflexivity. Qed.

Definition flat (f : list (tid * list item)) : list item := flat_map snd f.
Definition final (f : list (tid * list item)) : scr :=
  fold_left (fun s w => apply_write s (snd w)) f (mkScr [] 0 false).

(* the state of the terminal after a consistent write sequence *)
Lemma cons_file_screen f shp : cons_file f shp ->
  match shp with
  | None => f = []
  | Some h => exists fid, last_frame (flat f) None = Some (fid, h) /\ (1 <= h)%nat
              /\ on_frame (texts (flat f)) (map (RFrame fid) (seq 0 h)) (final f)
  end.
Proof.
  induction 1 as [|f shp t txts fid h Hc IH Ht Hh]; [reflexivity|].
  exists fid. unfold flat, final in *. rewrite flat_map_app, fold_left_app. cbn [flat_map fold_left snd].
  rewrite app_nil_r. split; [|split; auto].
  - rewrite last_frame_app, app_assoc, last_frame_app. reflexivity.
  - rewrite texts_app, !texts_app, texts_erase. cbn [app].
    change (texts [Frame fid h]) with (@nil row). rewrite app_nil_r.
    unfold apply_write. rewrite !fold_left_app. cbn [fold_left apply_item].
    apply frame_step; auto. apply txts_step; auto.
    destruct shp as [h0|].
    + destruct IH as [fid0 [_ [_ Hon]]]. cbn [erase_of fold_left].
      pose proof (erase_step _ _ _ Hon) as E. rewrite map_length, seq_length in E. exact E.
    + subst f. cbn. exists []. split; auto. intros r [].
Qed.

Fixpoint last_row (l : list row) : row := match l with [] => RBlank | [x] => x | _ :: r => last_row r end.

Lemma trim_blank Bl : allblank Bl -> trim Bl = [].
Proof.
  induction Bl as [|b Bl IH]; intros H; cbn; auto.
  rewrite IH by (intros r Hr; apply H; right; exact Hr). rewrite (H b (or_introl eq_refl)). reflexivity.
Qed.

Lemma trim_app_frame X fid k Bl : allblank Bl -> trim (X ++ RFrame fid k :: Bl) = X ++ [RFrame fid k].
Proof.
  intros Hb. induction X as [|x X IH]; cbn [app trim].
  - rewrite (trim_blank _ Hb). reflexivity.
  - rewrite IH. destruct (X ++ [RFrame fid k]) eqn:E; [destruct X; discriminate E|]. destruct x; reflexivity.
Qed.

Lemma rows_eqb_refl l : rows_eqb l l = true.
Proof.
  unfold rows_eqb. induction l as [|r l IH]; cbn; auto. rewrite IH.
  destruct r; cbn; rewrite ?Nat.eqb_refl, ?Z.eqb_refl; reflexivity.
Qed.

Theorem cons_file_screen_ok f shp : cons_file f shp -> screen_ok_b f = true.
Proof.
  intros H. pose proof (cons_file_screen f shp H) as S.
  unfold screen_ok_b, screen_rows_b.
  assert (E : screen_of f = expected_screen f); [|rewrite E; apply rows_eqb_refl].
  destruct shp as [h|].
  - destruct S as [fid [Hl [Hh [Bl [Hf [_ Hb]]]]]].
    unfold screen_of, expected_screen. fold (final f). fold (flat f). rewrite Hf, Hl. cbn [rows].
    destruct h as [|h']; [lia|].
    replace (seq 0 (S h')) with (seq 0 h' ++ [h'])%list by (rewrite seq_S; reflexivity).
    rewrite map_app. cbn [map]. rewrite <- !app_assoc. cbn [app].
    rewrite !app_assoc. rewrite trim_app_frame by exact Hb. reflexivity.
  - subst f. reflexivity.
Qed.

(* ---- C11_live_screen_repaired, GENERAL: every schedule, any number of threads *)
Theorem live_screen_repaired r0 progs sched :
  (1 <= snd r0)%nat -> (forall t, live_ops (progs t)) ->
  let st := run true sched (init_state true None r0 progs) in
  lkL (sh st) = None -> screen_ok_b (file (sh st)) = true.
Proof.
  intros Hr Hp st HL. eapply cons_file_screen_ok. apply (repaired_file_consistent r0 progs sched Hr Hp HL).
Qed.
