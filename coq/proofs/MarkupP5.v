(* C04 part 5: emoji=True.  _emoji_replace is an oracle E; the only fact used is that it is the
   identity on text without ':' (its regex needs two colons).  On colon-free markup rendering
   with emoji on equals rendering with emoji off, so every theorem of props/C04.v carries over. *)
From RichModel Require Import Prelude Markup SpecMarkup.
From RichProofs Require Import MarkupP MarkupP2 MarkupP3.
Local Open Scope nat_scope.

Definition COLON : Z := 58%Z.
Definition text_free (tk : token) : Prop := match tk with TText t => ~ In COLON t | TTag _ _ => True end.

Lemma flush_free : forall p, ~ In COLON p -> Forall text_free (flush p).
Proof. intros [|c p] H; cbn [flush]; constructor; [exact H|constructor]. Qed.

Lemma emit_free : forall k tag, ~ In COLON tag -> Forall text_free (emit k tag).
Proof.
  intros k tag H. unfold emit. apply Forall_app. split.
  - destruct (Nat.div2 k =? 0); constructor; [|constructor].
    cbn [text_free]. intros Hin. apply repeat_spec in Hin. discriminate.
  - destruct (Nat.odd k).
    + constructor; [|constructor]. cbn [text_free]. intros [Hin|Hin]; [discriminate|].
      apply in_app_or in Hin. destruct Hin as [Hin|[Hin|[]]]; [exact (H Hin)|discriminate].
    + destruct (partition_eq tag). constructor; [exact Logic.I|constructor].
Qed.

Lemma parse_free : forall s skip pend, ~ In COLON s -> ~ In COLON pend ->
  Forall text_free (parse_aux s skip pend).
Proof.
  induction s as [|c s IH]; intros skip pend Hs Hp; cbn [parse_aux]; [apply flush_free; exact Hp|].
  assert (Hs' : ~ In COLON s) by (intros H; apply Hs; right; exact H).
  destruct skip as [|n]; [|apply IH; auto].
  unfold re_tags_match. destruct (match_tag (c :: s)) as [[k tag]|] eqn:E.
  - apply Forall_app. split; [apply flush_free; exact Hp|]. apply Forall_app. split.
    + apply emit_free. destruct (match_tag_spec _ _ _ E) as [c' [t [rest [Htag [_ [_ Heq]]]]]].
      cbn [snd]. intros Hin. apply Hs. rewrite Heq. unfold tagform. apply in_or_app. right. right.
      rewrite Htag in Hin. destruct Hin as [Hin|Hin]; [left; exact Hin|right; apply in_or_app; left; exact Hin].
    + apply IH; auto.
  - apply IH; auto. intros Hin. apply in_app_or in Hin. destruct Hin as [Hin|[Hin|[]]]; [exact (Hp Hin)|].
    apply Hs. left. exact Hin.
Qed.

Section Emoji.
  Variable cc : list Z.
  Variable norm : str -> str.
  Variable E : str -> str.
  Hypothesis E_colon_free : forall t, ~ In COLON t -> E t = t.

  Lemma run_emoji_A : forall ts st, Forall text_free ts ->
    run (stepA cc norm E) st ts = run (stepA cc norm id_str) st ts.
  Proof.
    induction ts as [|tk ts IH]; intros st H; [reflexivity|]. inversion H; subst. cbn [run].
    assert (Hs : stepA cc norm E st tk = stepA cc norm id_str st tk).
    { destruct tk as [t|n p]; [|reflexivity]. destruct st as [[p stk] sp]. cbn [stepA].
      rewrite (E_colon_free t H2). reflexivity. }
    rewrite Hs. destruct (stepA cc norm id_str st tk); try reflexivity. apply IH. exact H3.
  Qed.

  Lemma run_emoji_F : forall ts st, Forall text_free ts ->
    run (stepF cc norm E) st ts = run (stepF cc norm id_str) st ts.
  Proof.
    induction ts as [|tk ts IH]; intros st H; [reflexivity|]. inversion H; subst. cbn [run].
    assert (Hs : stepF cc norm E st tk = stepF cc norm id_str st tk).
    { destruct tk as [t|n p]; [|reflexivity]. destruct st as [[p stk] sp]. cbn [stepF].
      rewrite (E_colon_free t H2). reflexivity. }
    rewrite Hs. destruct (stepF cc norm id_str st tk); try reflexivity. apply IH. exact H3.
  Qed.

  Theorem render_emoji_colon_free : forall asis m, ~ In COLON m ->
    render cc norm E asis m = render cc norm id_str asis m.
  Proof.
    intros asis m Hm. unfold render. destruct (has_lb m).
    - unfold render_main. pose proof (parse_free m 0 [] Hm (fun H => H)) as Hf. fold (parse m) in Hf.
      destruct asis; [rewrite run_emoji_A by exact Hf|rewrite run_emoji_F by exact Hf]; reflexivity.
    - rewrite (E_colon_free m Hm). reflexivity.
  Qed.
End Emoji.
