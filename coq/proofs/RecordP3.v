(* C15 proofs, part 3: the styled export decodes to the record's characters and styles (relative to
   an abstract decoder), a concrete wrapper satisfying the scanner hypothesis (non-vacuity), and the
   refutations of the as-is export_html helpers. *)
From RichModel Require Import Prelude Cells Segments Wire Record SpecRecord.
From RichGen Require Import RecordFacts.
From RichProofs Require Import RecordP RecordP2.
From Coq Require Import ZifyBool.

(* ================================================================== styled export *)
Section Decode.
Variable truthy : Z -> bool.
Variable esc : Z -> bool -> Z -> str -> str.
(* an ANSI decoder: stream -> characters with the style in force (None = unstyled) *)
Variable dec : str -> list (Z * option Z).
(* control strings the decoder skips without changing its state *)
Variable neutral : str -> bool.

Hypothesis dec_nil : dec [] = [].
Hypothesis dec_plain : forall ch rest, plain_b [ch] = true -> dec (ch :: rest) = (ch, None) :: dec rest.
Hypothesis dec_esc : forall s t rest, truthy s = true -> plain_b t = true ->
  dec (esc CS_TRUECOLOR false s t ++ rest) = map (fun ch => (ch, Some s)) t ++ dec rest.
Hypothesis dec_ctl : forall k rest, neutral k = true -> dec (k ++ rest) = dec rest.

Definition dwf_seg_b (g : sg) : bool :=
  if ctl g then negb (truthy_o truthy (sty g)) && neutral (txt g) else plain_b (txt g).

(* what the record says: visible characters with their effective style *)
Definition styled_chars (r : list sg) : list (Z * option Z) :=
  concat (map (fun g => if ctl g then []
                        else map (fun ch => (ch, if truthy_o truthy (sty g) then sty g else None)) (txt g)) r).

Lemma dec_plain_str t : forall rest, plain_b t = true ->
  dec (t ++ rest) = map (fun ch => (ch, None)) t ++ dec rest.
Proof.
  induction t as [|ch t IH]; intros rest H; [reflexivity|].
  cbn [plain_b forallb] in H. apply andb_true_iff in H. destruct H as [H1 H2].
  cbn [app map]. rewrite dec_plain; [|cbn [plain_b forallb]; rewrite H1; reflexivity].
  rewrite (IH rest H2). reflexivity.
Qed.

Theorem styled_export_decodes_rec (r : list sg) :
  forallb dwf_seg_b r = true ->
  dec (export_styled truthy esc r) = styled_chars r.
Proof.
  induction r as [|g r IH]; [intros _; exact dec_nil|]. cbn [forallb]. intros H.
  apply andb_true_iff in H. destruct H as [Hg Hr].
  change (export_styled truthy esc (g :: r)) with (styled_seg truthy esc g ++ export_styled truthy esc r).
  change (styled_chars (g :: r)) with
    ((if ctl g then [] else map (fun ch => (ch, if truthy_o truthy (sty g) then sty g else None)) (txt g))
     ++ styled_chars r).
  rewrite <- (IH Hr). unfold dwf_seg_b in Hg. unfold styled_seg. destruct (ctl g).
  - apply andb_true_iff in Hg. destruct Hg as [H1 H2]. apply negb_true_iff in H1.
    destruct (sty g) as [s|]; cbn [truthy_o] in H1; [rewrite H1|]; apply dec_ctl; exact H2.
  - destruct (sty g) as [s|]; cbn [truthy_o]; [|apply dec_plain_str; exact Hg].
    destruct (truthy s) eqn:E; [apply dec_esc; assumption|apply dec_plain_str; exact Hg].
Qed.
End Decode.

(* the record of a history contains only segments its calls appended *)
Section RecAll.
Variable truthy : Z -> bool.
Variable esc : Z -> bool -> Z -> str -> str.
Variable html_rule : Z -> str.
Variable html_link : Z -> option str.
Variable P : sg -> bool.

Definition ops_all (c : cfg) (h : list op) : bool :=
  forallb (fun o => match op_out c o with Some l => forallb P l | None => true end) h.

Lemma step_all kc he c s o :
  forallb P (buf s) = true -> forallb P (rec_ s) = true ->
  match op_out c o with Some l => forallb P l | None => true end = true ->
  let '(s1, _) := step truthy esc html_rule html_link kc he c s o in
  forallb P (buf s1) = true /\ forallb P (rec_ s1) = true.
Proof.
  intros Hb Hr Ho. destruct (is_output o) eqn:Eo.
  - rewrite (step_output truthy esc html_rule html_link kc he c s o Eo).
    destruct (op_out c o) as [l|]; [|split; assumption].
    unfold check_buffer. cbn [bidx buf rec_]. destruct (bidx s =? 0); cbn [buf rec_].
    + split; [reflexivity|]. rewrite !forallb_app, Hr, Hb, Ho. reflexivity.
    + split; [|assumption]. rewrite forallb_app, Hb, Ho. reflexivity.
  - destruct o; try discriminate; cbn [step].
    + split; assumption.
    + unfold check_buffer. cbn [bidx buf rec_].
      destruct (bidx s - 1 =? 0); cbn [buf rec_]; (split; [reflexivity|]);
        rewrite ?forallb_app, Hr, Hb; reflexivity.
    + destruct clear; cbn [buf rec_]; split; try assumption; reflexivity.
    + destruct clear; cbn [buf rec_]; split; try assumption; reflexivity.
Qed.

Lemma run_all kc he c : forall h s,
  forallb P (buf s) = true -> forallb P (rec_ s) = true -> ops_all c h = true ->
  let '(s', _) := run truthy esc html_rule html_link kc he c s h in forallb P (rec_ s') = true.
Proof.
  induction h as [|o h IH]; intros s Hb Hr Hh; [exact Hr|]. cbn [run].
  cbn [ops_all forallb] in Hh. apply andb_true_iff in Hh. destruct Hh as [Ho Hh].
  pose proof (step_all kc he c s o Hb Hr Ho) as Q.
  destruct (step truthy esc html_rule html_link kc he c s o) as [s1 e]. destruct Q as [Q1 Q2].
  pose proof (IH s1 Q1 Q2 Hh) as R. destruct (run truthy esc html_rule html_link kc he c s1 h). exact R.
Qed.
End RecAll.

(* ================================================================== a concrete wrapper (non-vacuity) *)
(* ESC [ <decimal of the token> m  text  ESC [ 0 m ; the empty text is left alone (as Style.render) *)
Definition toy_esc (cs : Z) (lw : bool) (s : Z) (t : str) : str :=
  if is_nil t then [] else [27; 91] ++ print_Z s ++ [109] ++ t ++ [27; 91; 48; 109].

Lemma vrun_cons_silent s ch s1 t : vstep s ch = (s1, []) -> vrun s (ch :: t) = vrun s1 t.
Proof. intros H. cbn [vrun]. rewrite H. destruct (vrun s1 t). reflexivity. Qed.

Lemma vrun_csi_digits u rest : vrun VCsi (uint_digits u ++ 109 :: rest) = vrun VGround rest.
Proof.
  induction u; cbn [uint_digits app];
    try (erewrite vrun_cons_silent by reflexivity; exact IHu).
  erewrite vrun_cons_silent by reflexivity. reflexivity.
Qed.

Lemma vrun_csi_printZ z rest : vrun VCsi (print_Z z ++ 109 :: rest) = vrun VGround rest.
Proof.
  destruct z; unfold print_Z.
  - cbn [app uint_digits]. erewrite !vrun_cons_silent by reflexivity. reflexivity.
  - apply vrun_csi_digits.
  - cbn [app]. erewrite vrun_cons_silent by reflexivity. apply vrun_csi_digits.
Qed.

Lemma toy_esc_transparent cs lw s t o :
  vrun VGround t = (VGround, o) -> vrun VGround (toy_esc cs lw s t) = (VGround, o).
Proof.
  intros H. unfold toy_esc. destruct t as [|ch t]; [exact H|]. cbn [is_nil].
  change ([27; 91] ++ print_Z s ++ [109] ++ (ch :: t) ++ [27; 91; 48; 109])
    with (27 :: 91 :: (print_Z s ++ 109 :: ((ch :: t) ++ [27; 91; 48; 109]))).
  erewrite !vrun_cons_silent by reflexivity. rewrite vrun_csi_printZ.
  rewrite (vrun_ground_app (ch :: t) [27; 91; 48; 109] o [] VGround H eq_refl).
  rewrite app_nil_r. reflexivity.
Qed.

(* ================================================================== refutations (rich 9.10.0 as found) *)
Definition nolink (_ : Z) : option str := None.
Definition norule (_ : Z) : str := [].
Definition all_truthy (_ : Z) : bool := true.

(* D12: clear() then an unstyled newline: the control text is part of the HTML text *)
Lemma html_text_asis_simplify_witness :
  let r := [mkSeg CLEAR_HOME None true; mkSeg [NL] None false] in
  html_text (html_code all_truthy norule nolink false true true r) = CLEAR_HOME ++ [NL] /\
  export_plain r = [NL].
Proof. split; reflexivity. Qed.

(* a link containing a double quote: the unescaped href ends early, its tail shows up as text *)
Definition quote_link (_ : Z) : option str := Some (lit "a"">b").
Lemma html_text_asis_href_witness :
  let r := [mkSeg (lit "hi") (Some 1) false] in
  html_text (html_code all_truthy norule quote_link true false true r) = lit "b"">hi" /\
  export_plain r = lit "hi".
Proof. split; reflexivity. Qed.

(* nested captures: the inner end_capture also returns (and removes) what the outer block had
   printed so far, so the outer capture does not return everything printed inside it *)
Lemma nested_capture_witness :
  let h := [BeginCapture; Print false [mkSeg (lit "a") None false]; BeginCapture;
            Print false [mkSeg (lit "b") None false]; EndCapture;
            Print false [mkSeg (lit "c") None false]; EndCapture] in
  map (@ret) (snd (run all_truthy toy_esc norule nolink true true (mkCfg 80 false 0 false false) st0 h))
  = [None; None; None; None; Some (lit "ab"); None; Some (lit "c")].
Proof. reflexivity. Qed.

(* ================================================================== histories without capture / clearing export *)
Definition quiet (h : list op) : bool :=
  forallb (fun o => negb (is_clearing o) && negb (is_capture_op o)) h.

Lemma rsc_quiet : forall h es acc, quiet h = true -> length es = length h ->
  rendered_since_clear acc h es = acc ++ file_of es.
Proof.
  induction h as [|o h IH]; intros [|e es] acc Hq Hl; try discriminate.
  - cbn. rewrite app_nil_r. reflexivity.
  - cbn [quiet forallb] in Hq. apply andb_true_iff in Hq. destruct Hq as [Ho Hq].
    apply andb_true_iff in Ho. destruct Ho as [H1 H2]. apply negb_true_iff in H1, H2.
    cbn [rendered_since_clear]. rewrite H1.
    assert (Ht : (match o with EndCapture => ret_or_nil e | _ => [] end) = [])
      by (destruct o; try reflexivity; discriminate).
    rewrite Ht, app_nil_r. rewrite (IH es _ Hq); [|cbn in Hl; lia].
    unfold file_of. cbn [map concat]. rewrite app_assoc. reflexivity.
Qed.

Lemma run_length truthy esc html_rule html_link kc he c : forall h s,
  length (snd (run truthy esc html_rule html_link kc he c s h)) = length h.
Proof.
  induction h as [|o h IH]; intros s; [reflexivity|]. cbn [run].
  destruct (step truthy esc html_rule html_link kc he c s o) as [s1 e]. specialize (IH s1).
  destruct (run truthy esc html_rule html_link kc he c s1 h) as [s2 es]. cbn [snd length] in *. lia.
Qed.
