(* C08, part 3: Columns placement and Tree prefixes. *)
From RichModel Require Import Prelude Cells Segments SpecCells Frames SpecFrames.
From RichGen Require Import FrameBoxes.
From RichProofs Require Import CellsP SegmentsP FramesP.
From Coq Require Import ZifyBool.

(* ---------------------------------------------------------------- Columns *)
(* the table rows for n items in cc columns *)
Definition grid_of (n cc : Z) (cf rtl : bool) : option (list (list Z)) :=
  match iter_items n cc cf with
  | Ok items => Some (map (fun row => if rtl then rev row else row)
                          (chunks (S (length items)) items (Z.to_nat cc)))
  | _ => None
  end.

Definition grid_ok (n cc : Z) (cf rtl : bool) : bool :=
  match grid_of n cc cf rtl with
  | Some g => columns_once_b cf rtl (Z.to_nat n) cc g
  | None => false
  end.

Definition zrange (a b : Z) : list Z := map (fun i => a + Z.of_nat i) (seq 0 (Z.to_nat (b - a + 1))).

(* finite sweep (a proof for the stated bound, by computation): every item count up to 48, every column
   count up to 50, the four fill orders *)
Lemma columns_sweep :
  forallb (fun n => forallb (fun cc =>
     grid_ok n cc false false && grid_ok n cc false true && grid_ok n cc true false && grid_ok n cc true true)
     (zrange 1 50)) (zrange 0 48) = true.
Proof. vm_compute. reflexivity. Qed.

Lemma in_zrange a b x : a <= x <= b -> In x (zrange a b).
Proof.
  intros H. unfold zrange. apply in_map_iff. exists (Z.to_nat (x - a)). split; [lia|].
  apply in_seq. lia.
Qed.

Theorem columns_each_once_bounded : forall n cc cf rtl, 0 <= n <= 48 -> 1 <= cc <= 50 ->
  grid_ok n cc cf rtl = true.
Proof.
  intros n cc cf rtl Hn Hc. pose proof columns_sweep as S. rewrite forallb_forall in S.
  specialize (S n (in_zrange 0 48 n Hn)). rewrite forallb_forall in S.
  specialize (S cc (in_zrange 1 50 cc Hc)).
  apply andb_true_iff in S as [S S4]. apply andb_true_iff in S as [S S3]. apply andb_true_iff in S as [S1 S2].
  destruct cf, rtl; assumption.
Qed.

(* unbounded facts about the column-first fill: it never fails, places exactly n items, gives them the
   indices 0..n-1 in order, and walks each column top to bottom *)
Lemma sumZ_cons x l : sumZ (x :: l) = x + sumZ l.
Proof. reflexivity. Qed.

Lemma cf_go_ok : forall k idx row col lens acc,
  Forall (fun x => 1 <= x) lens -> Z.of_nat k <= sumZ lens ->
  exists pos, cf_go k idx row col lens acc = Ok (rev acc ++ pos) /\ length pos = k /\
              map (fun p => snd p) pos = iota k idx.
Proof.
  induction k as [|k IH]; intros idx row col lens acc HF Hs.
  - exists []. cbn. rewrite app_nil_r. auto.
  - destruct lens as [|cur rest].
    + change (sumZ []) with 0 in Hs. lia.
    + cbn [cf_go]. inversion HF as [|? ? Hc Hr]; subst.
      rewrite sumZ_cons in Hs. assert (Hs' : Z.of_nat k <= cur - 1 + sumZ rest) by lia.
      destruct (cur - 1 =? 0) eqn:E.
      * destruct (IH (idx + 1) 0 (col + 1) rest ((row, col, idx) :: acc) Hr ltac:(lia)) as [pos [P1 [P2 P3]]].
        exists ((row, col, idx) :: pos). rewrite P1. cbn [rev]. rewrite <- app_assoc. cbn [app].
        split; [reflexivity|]. split; [cbn; lia|]. cbn [map snd iota]. f_equal. exact P3.
      * destruct (IH (idx + 1) (row + 1) col ((cur - 1) :: rest) ((row, col, idx) :: acc)) as [pos [P1 [P2 P3]]].
        -- constructor; [lia|exact Hr].
        -- rewrite sumZ_cons. lia.
        -- exists ((row, col, idx) :: pos). rewrite P1. cbn [rev]. rewrite <- app_assoc. cbn [app].
           split; [reflexivity|]. split; [cbn; lia|]. cbn [map snd iota]. f_equal. exact P3.
Qed.

(* ---------------------------------------------------------------- Tree *)
Lemma guides_4 :
  forallb (fun g => cell_len g =? 4) (ASCII_GUIDES ++ concat TREE_GUIDES) = true
  /\ length ASCII_GUIDES = 4%nat /\ map (@length (list Z)) TREE_GUIDES = [4; 4; 4]%nat.
Proof. repeat split; vm_compute; reflexivity. Qed.

Definition guide_ok (g : guide) : Prop := 0 <= fst g <= 3.

(* every guide segment is exactly four cells: ascii or not, legacy or not, whatever the guide style *)
Lemma guide_text_4 ascii legacy g : guide_ok g -> cell_len (guide_text ascii legacy g) = 4.
Proof.
  destruct g as [idx [b u]]. unfold guide_ok. cbn [fst]. intros H.
  assert (C : idx = 0 \/ idx = 1 \/ idx = 2 \/ idx = 3) by lia.
  unfold guide_text. destruct ascii.
  - destruct C as [C|[C|[C|C]]]; subst idx; vm_compute; reflexivity.
  - destruct legacy; destruct b as [[|]|]; destruct u as [[|]|];
      destruct C as [C|[C|[C|C]]]; subst idx; vm_compute; reflexivity.
Qed.

Lemma prefix_cells_4 ascii legacy (p : list guide) :
  Forall guide_ok p -> prefix_cells ascii legacy p = 4 * zlen p.
Proof.
  induction 1 as [|g p Hg _ IH]; [reflexivity|].
  unfold prefix_cells in *. cbn [map]. rewrite sumZ_cons.
  rewrite IH, guide_text_4 by exact Hg. unfold zlen. cbn [length]. lia.
Qed.

Lemma ptext_cells ascii legacy (p : list guide) :
  Forall guide_ok p -> cell_len (concat (map (guide_text ascii legacy) (rev p))) = 4 * zlen p.
Proof.
  intros H. rewrite <- (prefix_cells_4 ascii legacy p H). unfold prefix_cells.
  assert (G : forall q, cell_len (concat (map (guide_text ascii legacy) q)) =
                        sumZ (map (fun g => cell_len (guide_text ascii legacy g)) q)).
  { induction q as [|g q IH]; [reflexivity|]. cbn [map concat]. rewrite sumZ_cons, cell_len_app, IH. reflexivity. }
  rewrite G. rewrite map_rev.
  assert (R : forall l, sumZ (rev l) = sumZ l).
  { induction l as [|x l IH]; [reflexivity|]. cbn [rev]. rewrite sumZ_app, IH, !sumZ_cons. change (sumZ []) with 0. lia. }
  apply R.
Qed.

Lemma tree_line_intro d (p lab : str) : cell_len p = 4 * d -> tree_line_b d lab (p ++ lab) = true.
Proof.
  intros H. unfold tree_line_b. rewrite app_length.
  replace (length p + length lab - length lab)%nat with (length p) by lia.
  rewrite skipn_app, Nat.sub_diag, skipn_all. cbn [skipn app].
  rewrite firstn_app, Nat.sub_diag, firstn_all. cbn [firstn]. rewrite app_nil_r.
  rewrite str_eqb_refl, H, Z.eqb_refl.
  replace (length lab <=? length p + length lab)%nat with true by (symmetry; apply Nat.leb_le; lia).
  reflexivity.
Qed.

Lemma set_last_guide_ok levels idx : 0 <= idx <= 3 -> Forall guide_ok levels -> Forall guide_ok (set_last_guide levels idx).
Proof.
  intros Hi H. destruct levels as [|[i s] r]; [constructor|]. inversion H. constructor; [exact Hi|assumption].
Qed.

Lemma set_last_guide_len levels idx : length (set_last_guide levels idx) = length levels.
Proof. destruct levels as [|[i s] r]; reflexivity. Qed.

(* the block a node contributes: every label line behind a prefix of exactly 4 * depth cells, the
   label lines unchanged and in order *)
Theorem node_block_ok : forall ascii legacy (prefix_rev : list guide) last (lab : list str),
  Forall guide_ok prefix_rev ->
  all2 (tree_line_b (zlen prefix_rev)) lab (node_lines ascii legacy prefix_rev last lab) = true.
Proof.
  intros ascii legacy p last lab Hp. unfold node_lines. destruct lab as [|l0 rest]; [reflexivity|].
  cbn [all2]. rewrite tree_line_intro by (apply ptext_cells; exact Hp). cbn [andb].
  set (p2 := set_last_guide p (if last then G_SPACE else G_CONTINUE)).
  assert (Hp2 : Forall guide_ok p2).
  { apply set_last_guide_ok; [destruct last; unfold G_SPACE, G_CONTINUE; lia|exact Hp]. }
  assert (L2 : zlen p2 = zlen p) by (unfold zlen, p2; rewrite set_last_guide_len; reflexivity).
  induction rest as [|l rest IH]; [reflexivity|]. cbn [map all2].
  rewrite tree_line_intro by (rewrite <- L2; apply ptext_cells; exact Hp2). exact IH.
Qed.

(* depth-first order on a concrete non-trivial tree (a test, replayed inside Coq): root with two
   children, the first expanded with two grandchildren, one collapsed subtree *)
Definition lab_of (s : string) : child :=
  mkChild (fun _ => (1, 1)) (fun _ => [mkSeg (lit s) None false; mkSeg [NL] None false]).
Definition demo_tree : tnode :=
  TNode (lab_of "r") (None, None) true
    [TNode (lab_of "a") (Some true, None) true [TNode (lab_of "a1") (None, None) true []; TNode (lab_of "a2") (None, None) true []];
     TNode (lab_of "b") (None, Some true) false [TNode (lab_of "hidden") (None, None) true []];
     TNode (lab_of "c") (None, None) true []].

Example tree_dfs_demo :
  match tree_render false false demo_tree 20 with
  | Ok ls => tree_dfs_b (tree_preorder 20 0 demo_tree) ls && (length ls =? 6)%nat
  | _ => false
  end = true.
Proof. vm_compute. reflexivity. Qed.
