(* C03, part 3: histories of one style instance -- renders on consoles of any configuration
   interleaved with copy / update_link / without_color / + .  For the repaired code the `_ansi` memo
   is invisible (every write equals the write of a never-rendered object), and every write means
   the style the object has at that moment. *)
From RichModel Require Import Prelude Color Style SpecColor TermSgr Ansi SpecAnsi.
From RichGen Require Import AnsiFacts.
From RichProofs Require Import ColorP ColorP2 TermSgrP AnsiP AnsiP2.
From Coq Require Import ZifyBool.

(* the model's derivations carry / reset the memo exactly as the code does today (tie 1) *)
Example memo_carrying_today :
  (COPY_CARRIES_MEMO, UPDATE_LINK_CARRIES_MEMO, WITHOUT_COLOR_CARRIES_MEMO, ADD_CARRIES_MEMO)
  = (true, true, false, false).
Proof. reflexivity. Qed.

(* ------------------------------------------------------------------ what the SGR string depends on *)
Lemma make_codes_ext a b sys :
  s_attributes a = s_attributes b -> s_set_attributes a = s_set_attributes b ->
  s_color a = s_color b -> s_bgcolor a = s_bgcolor b ->
  make_ansi_codes a sys = make_ansi_codes b sys.
Proof. intros H1 H2 H3 H4. unfold make_ansi_codes, sgr_list. now rewrite H1, H2, H3, H4. Qed.

Lemma memo_honest_ext a b m :
  s_attributes a = s_attributes b -> s_set_attributes a = s_set_attributes b ->
  s_color a = s_color b -> s_bgcolor a = s_bgcolor b ->
  memo_honest a m = true -> memo_honest b m = true.
Proof.
  intros H1 H2 H3 H4. destruct m as [[sys0 x]|]; [|reflexivity]. cbn [memo_honest].
  now rewrite (make_codes_ext a b sys0 H1 H2 H3 H4).
Qed.

(* ------------------------------------------------------------------ one write *)
Lemma render_styled_memo_any s m text system lw lid :
  memo_honest s m = true ->
  render_styled true s m text system lw lid = render_styled true s None text system lw lid.
Proof.
  intros H. unfold render_styled. destruct text; [reflexivity|]. destruct system as [sys|]; [|reflexivity].
  now rewrite (ansi_codes_fresh true s m sys H eq_refl).
Qed.

Lemma write_memo_irrelevant k s m text lid :
  k_fix_d16 k = true -> memo_honest s m = true ->
  render_buffer k [hist_seg (s, m) text lid] = render_buffer k [hist_seg (s, None) text lid].
Proof.
  intros F H. unfold render_buffer. rewrite !strip_color_map. cbn [map render_segs].
  assert (E : render_seg k (strip k (hist_seg (s, m) text lid)) = render_seg k (strip k (hist_seg (s, None) text lid))).
  { unfold strip, hist_seg. cbn [fst snd]. destruct (strips k).
    - unfold remove_color_seg. cbn [a_style a_text a_lid a_ctl]. destruct (style_bool s); reflexivity.
    - unfold render_seg. cbn [a_style a_text a_lid a_ctl a_memo]. rewrite !andb_false_r.
      unfold style_truthy. destruct (style_bool s); [|reflexivity]. rewrite F.
      exact (render_styled_memo_any s m text (k_system k) (k_legacy k) lid H). }
  now rewrite E.
Qed.

(* ------------------------------------------------------------------ the memo stays honest *)
Lemma memo_after_honest_fx fx s m sys m' :
  memo_honest s m = true -> memo_after fx s m sys = Ok m' -> memo_honest s m' = true.
Proof.
  intros H. unfold memo_after. destruct m as [[sys0 a]|].
  - destruct (fx && negb (ColorSystem_eqb sys0 sys)).
    + destruct (make_ansi_codes s sys) as [a'| |] eqn:E; cbn; intros Q; inversion Q; subst.
      cbn. rewrite E. apply str_eqb_refl.
    + intros Q; inversion Q; subst. exact H.
  - destruct (make_ansi_codes s sys) as [a'| |] eqn:E; cbn; intros Q; inversion Q; subst.
    cbn. rewrite E. apply str_eqb_refl.
Qed.

Definition honest (o : obj) : Prop := memo_honest (fst o) (snd o) = true.

Lemma memo_next_honest k o text : honest o -> honest (memo_next k o text) /\ fst (memo_next k o text) = fst o.
Proof.
  intros H. unfold memo_next. destruct (k_system k) as [sys|]; [|split; [exact H|reflexivity]].
  destruct text; [split; [exact H|reflexivity]|].
  destruct (style_bool (fst o) && negb (k_no_color k)); [|split; [exact H|reflexivity]].
  destruct (memo_after (k_fix_d16 k) (fst o) (snd o) sys) as [m'| |] eqn:E; try (split; [exact H|reflexivity]).
  split; [|reflexivity]. unfold honest. cbn [fst snd]. exact (memo_after_honest_fx _ _ _ _ _ H E).
Qed.

Lemma without_color_honest o : honest (obj_without_color o).
Proof. reflexivity. Qed.

Lemma copy_honest o : honest o -> honest (obj_copy o).
Proof.
  intros H. unfold obj_copy. destruct (s_null (fst o)) eqn:N; [reflexivity|].
  unfold honest in *. cbn [fst snd]. apply (memo_honest_ext (fst o)); try exact H;
    unfold style_copy; rewrite N; reflexivity.
Qed.

Lemma update_link_honest l o : honest o -> honest (obj_update_link l o).
Proof.
  intros H. unfold obj_update_link, honest in *. cbn [fst snd].
  apply (memo_honest_ext (fst o)); try exact H; reflexivity.
Qed.

Lemma add_honest a b : honest a -> honest b -> honest (obj_add a b).
Proof.
  intros Ha Hb. unfold obj_add. destruct (s_null (fst b)); [exact Ha|].
  destruct (s_null (fst a)); [exact Hb|reflexivity].
Qed.

Lemma fresh_honest b : honest (b, None).
Proof. reflexivity. Qed.

(* ------------------------------------------------------------------ transparency over histories *)
Definition hop_repaired (op : hop) : Prop :=
  match op with HRender k _ => k_fix_d16 k = true | _ => True end.

Lemma forget_false o : forget false o = (fst o, None).
Proof. reflexivity. Qed.

Lemma obj_copy_fst o m : fst (obj_copy o) = fst (obj_copy (fst o, m)).
Proof. unfold obj_copy. cbn [fst]. destruct (s_null (fst o)); reflexivity. Qed.
Lemma obj_add_fst a b ma mb : fst (obj_add a b) = fst (obj_add (fst a, ma) (fst b, mb)).
Proof. unfold obj_add. cbn [fst]. destruct (s_null (fst b)); [reflexivity|]. destruct (s_null (fst a)); reflexivity. Qed.

Theorem hist_transparent lid ops : forall o1 o2,
  honest o1 -> fst o1 = fst o2 -> snd o2 = None -> Forall hop_repaired ops ->
  run_hist true lid o1 ops = run_hist false lid o2 ops.
Proof.
  induction ops as [|op ops IH]; intros o1 o2 H1 Es En R; [reflexivity|].
  inversion R as [|? ? Rop Rops]; subst.
  destruct o1 as [s m], o2 as [s2 m2]. cbn [fst snd] in Es, En. subst s2 m2.
  destruct op as [k text| | |l|b|b]; cbn [run_hist forget].
  - cbn [hop_repaired] in Rop. rewrite (write_memo_irrelevant k s m text lid Rop H1).
    destruct (render_buffer k [hist_seg (s, None) text lid]) as [out| |]; cbn [bind]; try reflexivity.
    destruct (memo_next_honest k (s, m) text H1) as [Hn Fn].
    destruct (memo_next_honest k (s, None) text (fresh_honest s)) as [_ Fn2].
    rewrite (IH (memo_next k (s, m) text) (fst (memo_next k (s, None) text), None) Hn
               (eq_trans Fn (eq_sym Fn2)) eq_refl Rops). reflexivity.
  - exact (IH _ _ (without_color_honest (s, m)) eq_refl eq_refl Rops).
  - apply IH; [exact (copy_honest (s, m) H1)|exact (obj_copy_fst (s, m) None)|reflexivity|exact Rops].
  - apply IH; [exact (update_link_honest l (s, m) H1)|reflexivity|reflexivity|exact Rops].
  - apply IH; [exact (add_honest (s, m) (b, None) H1 (fresh_honest b))
              |exact (obj_add_fst (s, m) (b, None) None None)|reflexivity|exact Rops].
  - apply IH; [exact (add_honest (b, None) (s, m) (fresh_honest b) H1)
              |exact (obj_add_fst (b, None) (s, m) None None)|reflexivity|exact Rops].
Qed.

(* ------------------------------------------------------------------ every write means the current style *)
Lemma merge_wf a b : style_wf a = true -> style_wf b = true -> style_wf (style_merge a b) = true.
Proof.
  intros Wa Wb. destruct (style_wf_parts a Wa) as [A1 [A2 A3]]. destruct (style_wf_parts b Wb) as [B1 [B2 B3]].
  unfold style_wf, style_merge. cbn [s_color s_bgcolor s_link].
  assert (C : forall x y, opt_color_wf x = true -> opt_color_wf y = true -> opt_color_wf (color_or x y) = true)
    by (intros [x|] y Hx Hy; [exact Hx|exact Hy]).
  rewrite (C _ _ B1 A1), (C _ _ B2 A2). cbn [andb]. unfold link_or.
  destruct (str_truthy (s_link b)); [destruct (s_link b); [exact B3|reflexivity]
                                    |destruct (s_link a); [exact A3|reflexivity]].
Qed.

Lemma hop_style_wf s op : style_wf s = true -> hop_ok op = true -> style_wf (hop_style s op) = true.
Proof.
  intros W Hop. destruct (style_wf_parts s W) as [W1 [W2 W3]].
  destruct op as [k text| | |l|b|b]; cbn [hop_style hop_ok] in *.
  - exact W.
  - unfold style_without_color. destruct (s_null s); [reflexivity|].
    unfold style_wf. cbn. destruct (s_link s); [exact W3|reflexivity].
  - unfold obj_copy. cbn [fst]. destruct (s_null s); [reflexivity|]. unfold style_copy.
    destruct (s_null s); [reflexivity|]. unfold style_wf. cbn. rewrite W1, W2. destruct (s_link s); [exact W3|reflexivity].
  - unfold style_wf, style_update_link. cbn. rewrite W1, W2. destruct l; [exact Hop|reflexivity].
  - unfold obj_add. cbn [fst]. destruct (s_null b); [exact W|]. destruct (s_null s); [exact Hop|]. exact (merge_wf s b W Hop).
  - unfold obj_add. cbn [fst]. destruct (s_null s); [exact Hop|]. destruct (s_null b); [exact W|]. exact (merge_wf b s Hop W).
Qed.

(* one write of the repaired code satisfies every clause of the property *)
Lemma write_ok k s text lid :
  k_fix_d16 k = true -> k_fix_ctl k = true ->
  style_wf s = true -> plain_text text = true -> lid_ok lid = true ->
  exists out, render_buffer k [hist_seg (s, None) text lid] = Ok out /\ render_ok_b k s text lid out = true.
Proof.
  intros F1 F2 W P L.
  assert (OK : segs_ok k [hist_seg (s, None) text lid] = true).
  { unfold segs_ok, seg_ok, hist_seg. cbn [forallb a_lid a_style a_memo a_text a_ctl fst snd]. rewrite L, andb_true_r. cbn [andb].
    unfold style_truthy. destruct (style_bool s); [|exact P].
    rewrite W, F1, F2. unfold dropped. cbn [a_ctl memo_honest]. rewrite andb_false_r. cbn [andb orb].
    rewrite andb_true_r. exact P. }
  destruct (buffer_run k _ OK) as [out [R [ev [Rr [C [O Pp]]]]]].
  exists out. split; [exact R|]. unfold render_ok_b.
  assert (S : stream_means_b k [hist_seg (s, None) text lid] out = true).
  { unfold stream_means_b. rewrite Rr, C, cells_eqb_refl. reflexivity. }
  unfold hist_seg in S. cbn [fst snd] in S. rewrite S. cbn [andb].
  assert (N : negb (k_no_color k) || no_color_params_b out = true).
  { destruct (k_no_color k) eqn:NC; [|reflexivity]. cbn [negb orb].
    unfold no_color_params_b, events. rewrite Rr. cbn [snd]. apply forallb_forall. intros p Hp.
    rewrite Forall_forall in Pp.
    assert (CL : forallb ctl_colorless [hist_seg (s, None) text lid] = true).
    { cbn [forallb]. unfold ctl_colorless, hist_seg. cbn [a_style a_ctl fst]. destruct (style_truthy (Some s)); reflexivity. }
    specialize (Pp p Hp eq_refl CL). unfold no_color_param in Pp. now rewrite Pp. }
  rewrite N. cbn [andb].
  assert (T : k_terminal k || no_controls_b out = true).
  { destruct (k_terminal k) eqn:TM; [reflexivity|]. cbn [orb]. unfold no_controls_b, events. rewrite Rr. cbn [snd].
    now rewrite (O eq_refl). }
  rewrite T, andb_true_r.
  destruct (k_system k) eqn:KS; [reflexivity|].
  assert (A : all_plain_noncontrol [hist_seg (s, None) text lid] = true)
    by (unfold all_plain_noncontrol, hist_seg; cbn [forallb a_ctl a_text negb andb]; now rewrite P).
  destruct (no_escape_when_colorless k _ KS A) as [out' [R' E']]. rewrite R in R'. inversion R'; subst. exact E'.
Qed.

Definition hop_full (op : hop) : bool :=
  hop_ok op && match op with HRender k _ => k_fix_ctl k | _ => true end.

Theorem hist_means lid ops : forall s,
  lid_ok lid = true -> style_wf s = true -> forallb hop_full ops = true ->
  exists outs, run_hist false lid (s, None) ops = Ok outs /\ hist_ok_b lid s ops outs = true.
Proof.
  induction ops as [|op ops IH]; intros s L W H; [exists []; split; reflexivity|].
  cbn [forallb] in H. apply andb_true_iff in H as [Hop Hops]. unfold hop_full in Hop.
  apply andb_true_iff in Hop as [Hok Hfx].
  pose proof (hop_style_wf s op W Hok) as W'.
  destruct op as [k text| | |l|b|b]; cbn [run_hist forget hist_ok_b];
    try (destruct (IH _ L W' Hops) as [outs [R Ok']]; exists outs; split; [exact R|exact Ok']).
  cbn [hop_ok] in Hok. apply andb_true_iff in Hok as [P F1].
  destruct (write_ok k s text lid F1 Hfx W P L) as [out [R Rk]]. rewrite R. cbn [bind].
  destruct (memo_next_honest k (s, None) text (fresh_honest s)) as [_ Fn]. rewrite Fn. cbn [fst].
  destruct (IH s L W Hops) as [outs [Rh Ok']]. rewrite Rh. cbn [bind].
  exists (out :: outs). split; [reflexivity|]. now rewrite Rk, Ok'.
Qed.

(* both together: the as-coded history (memos and all) of the repaired code *)
Theorem hist_repaired_ok lid ops s m :
  lid_ok lid = true -> style_wf s = true -> memo_honest s m = true -> forallb hop_full ops = true ->
  exists outs, run_hist true lid (s, m) ops = Ok outs
    /\ run_hist false lid (s, None) ops = Ok outs
    /\ hist_ok_b lid s ops outs = true.
Proof.
  intros L W H F. destruct (hist_means lid ops s L W F) as [outs [R Ok']]. exists outs.
  split; [|split; [exact R|exact Ok']]. rewrite <- R.
  apply (hist_transparent lid ops (s, m) (s, None) H eq_refl eq_refl).
  apply Forall_forall. intros op Hin. rewrite forallb_forall in F. specialize (F op Hin).
  unfold hop_full in F. apply andb_true_iff in F as [F _]. destruct op; cbn in *; try exact Logic.I.
  now apply andb_true_iff in F as [_ F].
Qed.
