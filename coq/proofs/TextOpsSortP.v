From RichModel Require Import Prelude TextOps.
From Coq Require Import Permutation Sorted ZifyBool Lia.

(* generic facts about the insertion sorts of TextOps and about StronglySorted *)

Lemma ins_by_perm {A} (key : A -> Z) x l : Permutation (ins_by key x l) (x :: l).
Proof.
  induction l as [|y r IH]; simpl.
  - apply Permutation_refl.
  - destruct (key y <? key x).
    + apply Permutation_trans with (y :: x :: r).
      * apply perm_skip. exact IH.
      * apply perm_swap.
    + apply Permutation_refl.
Qed.

Lemma sort_by_perm {A} (key : A -> Z) l : Permutation (sort_by key l) l.
Proof.
  induction l as [|x r IH]; simpl.
  - apply perm_nil.
  - apply Permutation_trans with (x :: sort_by key r).
    + apply ins_by_perm.
    + apply perm_skip. exact IH.
Qed.

Lemma ins_by_sorted {A} (key : A -> Z) x l :
  StronglySorted (fun a b => key a <= key b) l ->
  StronglySorted (fun a b => key a <= key b) (ins_by key x l).
Proof.
  induction l as [|y r IH]; simpl; intros H.
  - constructor; constructor.
  - inversion H as [|y' r' Hr Hy]; subst.
    destruct (key y <? key x) eqn:E.
    + constructor.
      * apply IH. exact Hr.
      * apply Forall_forall. intros z Hz.
        apply (Permutation_in z (ins_by_perm key x r)) in Hz.
        destruct Hz as [Hz|Hz].
        -- subst z. apply Z.ltb_lt in E. lia.
        -- rewrite Forall_forall in Hy. apply Hy. exact Hz.
    + constructor.
      * exact H.
      * apply Z.ltb_ge in E.
        constructor.
        -- exact E.
        -- rewrite Forall_forall in Hy. apply Forall_forall. intros z Hz.
           specialize (Hy z Hz). simpl in Hy. lia.
Qed.

Lemma sort_by_sorted {A} (key : A -> Z) l :
  StronglySorted (fun x y => key x <= key y) (sort_by key l).
Proof.
  induction l as [|x r IH]; simpl.
  - constructor.
  - apply ins_by_sorted. exact IH.
Qed.

Lemma ins_desc_perm {A} (key : A -> Z) x l : Permutation (ins_desc key x l) (x :: l).
Proof.
  induction l as [|y r IH]; simpl.
  - apply Permutation_refl.
  - destruct (key x <? key y).
    + apply Permutation_trans with (y :: x :: r).
      * apply perm_skip. exact IH.
      * apply perm_swap.
    + apply Permutation_refl.
Qed.

Lemma sort_desc_perm {A} (key : A -> Z) l : Permutation (sort_desc key l) l.
Proof.
  induction l as [|x r IH]; simpl.
  - apply perm_nil.
  - apply Permutation_trans with (x :: sort_desc key r).
    + apply ins_desc_perm.
    + apply perm_skip. exact IH.
Qed.

Lemma ins_desc_sorted {A} (key : A -> Z) x l :
  StronglySorted (fun a b => key b <= key a) l ->
  StronglySorted (fun a b => key b <= key a) (ins_desc key x l).
Proof.
  induction l as [|y r IH]; simpl; intros H.
  - constructor; constructor.
  - inversion H as [|y' r' Hr Hy]; subst.
    destruct (key x <? key y) eqn:E.
    + constructor.
      * apply IH. exact Hr.
      * apply Forall_forall. intros z Hz.
        apply (Permutation_in z (ins_desc_perm key x r)) in Hz.
        destruct Hz as [Hz|Hz].
        -- subst z. apply Z.ltb_lt in E. lia.
        -- rewrite Forall_forall in Hy. apply Hy. exact Hz.
    + constructor.
      * exact H.
      * apply Z.ltb_ge in E.
        constructor.
        -- exact E.
        -- rewrite Forall_forall in Hy. apply Forall_forall. intros z Hz.
           specialize (Hy z Hz). simpl in Hy. lia.
Qed.

Lemma sort_desc_sorted {A} (key : A -> Z) l :
  StronglySorted (fun x y => key y <= key x) (sort_desc key l).
Proof.
  induction l as [|x r IH]; simpl.
  - constructor.
  - apply ins_desc_sorted. exact IH.
Qed.

Lemma app_sorted {A} (R : A -> A -> Prop) l1 l2 :
  StronglySorted R l1 -> StronglySorted R l2 ->
  (forall x y, In x l1 -> In y l2 -> R x y) -> StronglySorted R (l1 ++ l2).
Proof.
  induction l1 as [|a r IH]; simpl; intros H1 H2 H.
  - exact H2.
  - inversion H1 as [|a' r' Hr Ha]; subst.
    constructor.
    + apply IH.
      * exact Hr.
      * exact H2.
      * intros x y Hx Hy. apply H; [right; exact Hx | exact Hy].
    + apply Forall_forall. intros z Hz.
      apply in_app_or in Hz. destruct Hz as [Hz|Hz].
      * rewrite Forall_forall in Ha. apply Ha. exact Hz.
      * apply H; [left; reflexivity | exact Hz].
Qed.

Lemma rev_sorted {A} (R : A -> A -> Prop) l :
  StronglySorted R l -> StronglySorted (fun x y => R y x) (rev l).
Proof.
  induction l as [|a r IH]; simpl; intros H.
  - constructor.
  - inversion H as [|a' r' Hr Ha]; subst.
    apply app_sorted.
    + apply IH. exact Hr.
    + constructor; constructor.
    + intros x y Hx Hy. simpl in Hy. destruct Hy as [Hy|[]]. subst y.
      apply in_rev in Hx. rewrite Forall_forall in Ha. apply Ha. exact Hx.
Qed.

Lemma filter_sorted {A} (R : A -> A -> Prop) (f : A -> bool) l :
  StronglySorted R l -> StronglySorted R (filter f l).
Proof.
  induction l as [|a r IH]; simpl; intros H.
  - constructor.
  - inversion H as [|a' r' Hr Ha]; subst.
    destruct (f a).
    + constructor.
      * apply IH. exact Hr.
      * apply Forall_forall. intros z Hz.
        apply filter_In in Hz. destruct Hz as [Hz _].
        rewrite Forall_forall in Ha. apply Ha. exact Hz.
    + apply IH. exact Hr.
Qed.

Lemma map_sorted {A B} (R : A -> A -> Prop) (R' : B -> B -> Prop) (g : A -> B) l :
  (forall x y, R x y -> R' (g x) (g y)) -> StronglySorted R l -> StronglySorted R' (map g l).
Proof.
  intros Hg.
  induction l as [|a r IH]; simpl; intros H.
  - constructor.
  - inversion H as [|a' r' Hr Ha]; subst.
    constructor.
    + apply IH. exact Hr.
    + apply Forall_forall. intros z Hz.
      apply in_map_iff in Hz. destruct Hz as [w [Hw Hin]]. subst z.
      apply Hg. rewrite Forall_forall in Ha. apply Ha. exact Hin.
Qed.

Lemma perm_filter {A} (f : A -> bool) l l' :
  Permutation l l' -> Permutation (filter f l) (filter f l').
Proof.
  intros H. induction H as [|x l l' H IH|x y l|l l' l'' H1 IH1 H2 IH2]; simpl.
  - apply perm_nil.
  - destruct (f x).
    + apply perm_skip. exact IH.
    + exact IH.
  - destruct (f x); destruct (f y).
    + apply perm_swap.
    + apply Permutation_refl.
    + apply Permutation_refl.
    + apply Permutation_refl.
  - apply Permutation_trans with (filter f l'); assumption.
Qed.

(* a weakly sorted list that is a permutation of a strictly sorted list
   (by the Z first component) is that list *)
Lemma sorted_perm_eq {B} (l1 l2 : list (Z * B)) :
  StronglySorted (fun x y => fst x <= fst y) l1 ->
  StronglySorted (fun x y => fst x < fst y) l2 ->
  Permutation l1 l2 -> l1 = l2.
Proof.
  revert l2.
  induction l1 as [|a r1 IH]; intros l2 H1 H2 HP.
  - apply Permutation_nil in HP. subst l2. reflexivity.
  - destruct l2 as [|b r2].
    + apply Permutation_sym in HP. apply Permutation_nil in HP. discriminate HP.
    + inversion H1 as [|a' r1' Hr1 Ha]; subst.
      inversion H2 as [|b' r2' Hr2 Hb]; subst.
      rewrite Forall_forall in Ha. rewrite Forall_forall in Hb.
      assert (Hab : a = b).
      { assert (Hina : In a (b :: r2)).
        { apply (Permutation_in a HP). left. reflexivity. }
        assert (Hinb : In b (a :: r1)).
        { apply (Permutation_in b (Permutation_sym HP)). left. reflexivity. }
        destruct Hina as [Hina|Hina].
        - symmetry. exact Hina.
        - destruct Hinb as [Hinb|Hinb].
          + exact Hinb.
          + specialize (Ha b Hinb). specialize (Hb a Hina). simpl in Ha, Hb. lia. }
      subst b.
      apply Permutation_cons_inv in HP.
      f_equal. apply IH; assumption.
Qed.
