(* C16 proofs, part 6: the string-level layout checker holds of every output of pretty_repr.
   Physical lines of the printed string <-> _Lines of the worklist (rr), then a walk over rr. *)
From Coq Require Import ZifyBool.
From RichModel Require Import Prelude Wire Cells Pretty SpecPretty.
From RichGen Require Import PrettyBraces.
From RichProofs Require Import CellsP PrettyP PrettyP2 PrettyP3 PrettyP4.

(* ---------- splitting the printed string at newlines gives back the lines ---------- *)
Lemma no_nl_app a b : no_nl (a ++ b) = no_nl a && no_nl b.
Proof. unfold no_nl. apply forallb_app. Qed.

Lemma split_go_no_nl x : no_nl x = true -> forall s cur,
  split_nl_go (x ++ s) cur = split_nl_go s (rev x ++ cur).
Proof.
  induction x as [|c x IH]; intros Hx s cur; [reflexivity|].
  cbn [no_nl forallb] in Hx. apply andb_true_iff in Hx. destruct Hx as [Hc Hx].
  cbn [app split_nl_go]. apply negb_true_iff in Hc. rewrite Hc. rewrite (IH Hx).
  cbn [rev]. now rewrite <- app_assoc.
Qed.

Lemma split_join ls : ls <> [] -> Forall (fun x => no_nl x = true) ls -> split_nl (join_nl ls) = ls.
Proof.
  unfold split_nl. induction ls as [|x r IH]; intros Hne H; [congruence|].
  inversion H as [|? ? Hx Hr]; subst.
  destruct r as [|y r'].
  - cbn [join_nl]. rewrite <- (app_nil_r x) at 1. rewrite split_go_no_nl by exact Hx.
    cbn [split_nl_go]. now rewrite app_nil_r, rev_involutive.
  - change (join_nl (x :: y :: r')) with (x ++ NL :: join_nl (y :: r')).
    rewrite split_go_no_nl by exact Hx. cbn [split_nl_go]. change (NL =? NL) with true. cbn iota.
    rewrite app_nil_r, rev_involutive. f_equal. apply IH; [discriminate|exact Hr].
Qed.

(* ---------- nodes whose strings contain no newline ---------- *)
Fixpoint nlf (n : node) : bool :=
  match n with
  | Node k v o c e _ _ ch =>
      no_nl k && no_nl v && no_nl o && no_nl c && no_nl e
      && match ch with None => true | Some cs => forallb nlf cs end
  end.

Lemma nlf_fields k v o c e la t ch : nlf (Node k v o c e la t ch) = true ->
  no_nl k = true /\ no_nl v = true /\ no_nl o = true /\ no_nl c = true /\ no_nl e = true /\
  match ch with None => True | Some cs => forallb nlf cs = true end.
Proof.
  cbn [nlf]. intros H. repeat (apply andb_true_iff in H; destruct H as [H ?]).
  repeat split; try assumption. destruct ch; [assumption|exact Logic.I].
Qed.

Lemma no_nl_concat ls : forallb no_nl ls = true -> no_nl (concat ls) = true.
Proof.
  induction ls as [|x r IH]; [reflexivity|]. cbn [forallb concat]. intros H.
  apply andb_true_iff in H. destruct H as [Hx Hr]. now rewrite no_nl_app, Hx, IH.
Qed.

Lemma tokens_no_nl n : nlf n = true -> forallb no_nl (tokens n) = true.
Proof.
  induction n as [k v o c e la t|k v o c e la t cs IH] using node_ind'; intros H;
    apply nlf_fields in H; destruct H as (Hk & Hv & Ho & Hc & He & Hch); rewrite tokens_eq, forallb_app.
  - apply andb_true_iff. split; [destruct (nonempty k); cbn; rewrite ?Hk; reflexivity|].
    destruct (nonempty v); cbn; rewrite ?Hv; reflexivity.
  - apply andb_true_iff. split; [destruct (nonempty k); cbn; rewrite ?Hk; reflexivity|].
    destruct (nonempty v); [cbn; now rewrite Hv|].
    destruct cs as [|c0 cs]; [cbn; now rewrite He|].
    rewrite !forallb_app. cbn [forallb]. rewrite Ho, Hc. cbn [andb]. rewrite andb_true_r.
    assert (Hgo : forall l, Forall (fun n => nlf n = true -> forallb no_nl (tokens n) = true) l ->
                            forallb nlf l = true -> forallb no_nl (tokens_go l) = true).
    { induction l as [|x r IHl]; intros HF Hn; [reflexivity|].
      inversion HF; subst. cbn [forallb] in Hn. apply andb_true_iff in Hn. destruct Hn as [Hx Hr].
      cbn [tokens_go]. fold tokens_go. rewrite !forallb_app, (H1 Hx), (IHl H2 Hr).
      destruct (n_last x); reflexivity. }
    destruct (t && single (c0 :: cs)).
    + rewrite forallb_app. inversion IH; subst. cbn [forallb] in Hch. apply andb_true_iff in Hch.
      rewrite (H1 (proj1 Hch)). reflexivity.
    + apply Hgo; assumption.
Qed.

Lemma node_str_no_nl n : nlf n = true -> no_nl (node_str n) = true.
Proof. intros H. apply no_nl_concat. now apply tokens_no_nl. Qed.

Lemma all_sp_no_nl ws : all_sp ws = true -> no_nl ws = true.
Proof.
  unfold all_sp, no_nl. induction ws as [|c r IH]; [reflexivity|]. cbn [forallb]. intros H.
  apply andb_true_iff in H. destruct H as [Hc Hr]. rewrite (IH Hr). apply Z.eqb_eq in Hc. subst c. reflexivity.
Qed.

Lemma key_open_no_nl n : nlf n = true -> no_nl (key_open n) = true.
Proof.
  destruct n as [k v o c e la t ch]. intros H. apply nlf_fields in H. destruct H as (Hk & _ & Ho & _).
  unfold key_open. cbn [n_key n_open]. destruct (nonempty k); [|exact Ho].
  now rewrite !no_nl_app, Hk, Ho.
Qed.

Lemma child_suffix_no_nl t1 c : no_nl (child_suffix t1 c) = true.
Proof. unfold child_suffix, separator. destruct t1; [reflexivity|]. destruct (n_last c); reflexivity. Qed.

Section Lines.
  Variable W ind : Z.
  Variable ea : bool.

  (* no line of the printer contains a newline *)
  Lemma rr_no_nl n : nlf n = true -> forall l, l_node l = Some n -> l_text l = [] ->
    all_sp (l_ws l) = true -> no_nl (l_suffix l) = true ->
    Forall (fun l' => no_nl (line_str l') = true) (rr true W ind ea n l).
  Proof.
    induction n as [k v o c e la t|k v o c e la t cs IH] using node_ind'; intros Hn l Hl Ht Hw Hs.
    - cbn [rr]. constructor; [|constructor]. unfold line_str. rewrite Hl, Ht.
      now rewrite !no_nl_app, (all_sp_no_nl _ Hw), (node_str_no_nl _ Hn), Hs.
    - assert (Hone : no_nl (line_str l) = true).
      { unfold line_str. rewrite Hl, Ht. now rewrite !no_nl_app, (all_sp_no_nl _ Hw), (node_str_no_nl _ Hn), Hs. }
      destruct cs as [|c0 cs]; [cbn [rr]; constructor; [exact Hone|constructor]|].
      rewrite rr_cont. destruct (ea || negb (line_check_length l _ W)); [|constructor; [exact Hone|constructor]].
      pose proof (key_open_no_nl _ Hn) as Hko.
      apply nlf_fields in Hn. destruct Hn as (_ & _ & _ & Hc & _ & Hch).
      constructor.
      + unfold line_str. cbn [open_line l_ws l_text l_node l_suffix].
        now rewrite !no_nl_app, (all_sp_no_nl _ Hw), Hko.
      + apply Forall_app. split.
        * rewrite Forall_forall in IH |- *. intros l' Hin. apply in_flat_map in Hin. destruct Hin as (x & Hx & Hin).
          rewrite forallb_forall in Hch.
          specialize (IH x Hx (Hch x Hx) (child_line ind l (t && single (c0 :: cs)) x) eq_refl eq_refl).
          rewrite Forall_forall in IH. apply IH; [| |exact Hin].
          -- cbn [child_line l_ws]. apply all_sp_app; [exact Hw|apply all_sp_repeat].
          -- cbn [child_line l_suffix]. apply child_suffix_no_nl.
        * constructor; [|constructor]. unfold line_str. cbn [close_line l_ws l_text l_node l_suffix n_close].
          now rewrite !no_nl_app, (all_sp_no_nl _ Hw), Hc, Hs.
  Qed.

  (* ---------- the fit test of the walker is the fit test of the printer ---------- *)
  Lemma check_toks_iff toks start max : toks <> [] -> 0 <= start ->
    check_toks toks start max = (start + cell_len (concat toks) <=? max).
  Proof.
    intros Hne Hs. destruct (start + cell_len (concat toks) <=? max) eqn:E.
    - apply check_toks_fits. lia.
    - destruct (check_toks toks start max) eqn:C; [|reflexivity].
      apply check_toks_sound in C; [lia|exact Hs|exact Hne].
  Qed.

  Lemma py_repeat_len ws : 0 <= ws -> zlen (py_repeat SP ws) = ws.
  Proof. intros H. unfold zlen, py_repeat. rewrite repeat_length. lia. Qed.

  Lemma cell_len_py_repeat ws : 0 <= ws -> cell_len (py_repeat SP ws) = ws.
  Proof. intros H. unfold py_repeat. rewrite cell_len_spaces. lia. Qed.

  Lemma py_repeat_add ws : 0 <= ws -> py_repeat SP ws ++ py_repeat SP ind = py_repeat SP (ws + Z.max ind 0).
  Proof.
    intros H. unfold py_repeat. rewrite <- repeat_app. f_equal. lia.
  Qed.

  Lemma tokens_nonempty_cont k v o c e la t c0 cs : tokens (Node k v o c e la t (Some (c0 :: cs))) <> [].
  Proof. rewrite tokens_eq. destruct (nonempty k), (nonempty v); discriminate. Qed.

  Lemma fits_is_kept k v o c e la t c0 cs l ws :
    let n := Node k v o c e la t (Some (c0 :: cs)) in
    l_text l = [] -> l_ws l = py_repeat SP ws -> 0 <= ws ->
    negb ea && (cell_len (py_repeat SP ws ++ node_str n ++ l_suffix l) <=? W)
    = negb (ea || negb (line_check_length l n W)).
  Proof.
    intros n Ht Hw Hws. unfold line_check_length, node_check_length.
    rewrite check_toks_iff.
    - rewrite Ht, Hw, py_repeat_len by exact Hws. change (cell_len []) with 0.
      rewrite !cell_len_app, cell_len_py_repeat by exact Hws. fold (node_str n).
      replace (ws + 0 + cell_len (l_suffix l) + cell_len (node_str n))
        with (ws + (cell_len (node_str n) + cell_len (l_suffix l))) by lia.
      destruct ea, (ws + (cell_len (node_str n) + cell_len (l_suffix l)) <=? W); reflexivity.
    - apply tokens_nonempty_cont.
    - pose proof (cell_len_nonneg (l_text l)). pose proof (cell_len_nonneg (l_suffix l)). unfold zlen. lia.
  Qed.

  (* ---------- the walk ---------- *)
  Definition walk_go (ws : Z) (t1 : bool) : list node -> list str -> option (list str) :=
    fix go (children : list node) (lines : list str) : option (list str) :=
      match children with
      | [] => Some lines
      | c :: r =>
          match walk W ind ea c (ws + Z.max ind 0) (child_suffix t1 c) lines with
          | Some lines' => go r lines'
          | None => None
          end
      end.

  Lemma walk_leaf n ws suffix l rest :
    match n_children n with Some (_ :: _) => False | _ => True end ->
    walk W ind ea n ws suffix (l :: rest)
    = if str_eqb l (py_repeat SP ws ++ node_str n ++ suffix) then Some rest else None.
  Proof. destruct n as [k v o c e la t [[|c0 cs]|]]; cbn [n_children]; intros H; [reflexivity|contradiction|reflexivity]. Qed.

  Lemma walk_cont k v o c e la t c0 cs ws suffix l rest :
    let n := Node k v o c e la t (Some (c0 :: cs)) in
    walk W ind ea n ws suffix (l :: rest)
    = if negb ea && (cell_len (py_repeat SP ws ++ node_str n ++ suffix) <=? W)
      then (if str_eqb l (py_repeat SP ws ++ node_str n ++ suffix) then Some rest else None)
      else if str_eqb l (py_repeat SP ws ++ key_open n) then
        match walk_go ws (t && single (c0 :: cs)) (c0 :: cs) rest with
        | Some (cl :: rest') =>
            if str_eqb cl ((py_repeat SP ws ++ c) ++ suffix) || str_eqb cl ((py_repeat SP ws ++ c) ++ lit ",")
               || str_eqb cl (py_repeat SP ws ++ c)
            then Some rest' else None
        | _ => None
        end
      else None.
  Proof. reflexivity. Qed.

  Theorem walk_rr n : forall l ws rest, l_node l = Some n -> l_text l = [] ->
    l_ws l = py_repeat SP ws -> 0 <= ws ->
    walk W ind ea n ws (l_suffix l) (map line_str (rr true W ind ea n l) ++ rest) = Some rest.
  Proof.
    induction n as [k v o c e la t|k v o c e la t cs IH] using node_ind'; intros l ws rest Hn Ht Hw Hws.
    - cbn [rr map app]. rewrite walk_leaf by exact Logic.I.
      unfold line_str. rewrite Hn, Ht, Hw. cbn [app]. now rewrite str_eqb_refl.
    - assert (Hone : line_str l = py_repeat SP ws ++ node_str (Node k v o c e la t (Some cs)) ++ l_suffix l)
        by (unfold line_str; rewrite Hn, Ht, Hw; reflexivity).
      destruct cs as [|c0 cs].
      + cbn [rr map app]. rewrite walk_leaf by exact Logic.I. now rewrite Hone, str_eqb_refl.
      + rewrite rr_cont.
        destruct (ea || negb (line_check_length l _ W)) eqn:Ex; cbn [map app]; rewrite walk_cont;
          rewrite (fits_is_kept k v o c e la t c0 cs l ws Ht Hw Hws), Ex; cbn [negb].
        * replace (line_str (open_line l (Node k v o c e la t (Some (c0 :: cs)))))
            with (py_repeat SP ws ++ key_open (Node k v o c e la t (Some (c0 :: cs))))
            by (unfold line_str; cbn [open_line l_ws l_text l_node l_suffix]; rewrite Hw, !app_nil_r; reflexivity).
          rewrite str_eqb_refl.
          rewrite map_app, <- app_assoc.
          set (t1 := t && single (c0 :: cs)).
          assert (Hgo : forall cs' R, Forall (fun n => forall l ws rest, l_node l = Some n -> l_text l = [] ->
                            l_ws l = py_repeat SP ws -> 0 <= ws ->
                            walk W ind ea n ws (l_suffix l) (map line_str (rr true W ind ea n l) ++ rest) = Some rest) cs' ->
                    walk_go ws t1 cs' (map line_str (flat_map (fun x => rr true W ind ea x (child_line ind l t1 x)) cs') ++ R) = Some R).
          { induction cs' as [|x r IHr]; intros R HF; [reflexivity|].
            inversion HF as [|? ? Hx Hr]; subst. cbn [flat_map walk_go]. fold (walk_go ws t1).
            rewrite map_app, <- app_assoc.
            change (child_suffix t1 x) with (l_suffix (child_line ind l t1 x)).
            rewrite (Hx (child_line ind l t1 x) (ws + Z.max ind 0)
                        (map line_str (flat_map (fun x0 => rr true W ind ea x0 (child_line ind l t1 x0)) r) ++ R)
                        eq_refl eq_refl); [apply IHr; exact Hr| |lia].
            cbn [child_line l_ws]. rewrite Hw. apply py_repeat_add. exact Hws. }
          rewrite (Hgo (c0 :: cs) _ IH). cbn [map app].
          replace (line_str (close_line true l (Node k v o c e la t (Some (c0 :: cs))) t1))
            with ((py_repeat SP ws ++ c) ++ l_suffix l)
            by (unfold line_str; cbn [close_line l_ws l_text l_node l_suffix n_close]; rewrite Hw, <- !app_assoc; reflexivity).
          now rewrite str_eqb_refl.
        * now rewrite Hone, str_eqb_refl.
  Qed.
End Lines.

(* ---------- traverse depends on the brace function only through the ten type names ---------- *)
Lemma gomap_ext {A B} ml (f g : A -> Z -> B) l : Forall (fun x => forall i, f x i = g x i) l ->
  forall i, gomap ml f l i = gomap ml g l i.
Proof.
  induction 1 as [|x r Hx _ IH]; intros i; [reflexivity|]. cbn [gomap].
  destruct (limit_reached ml i); [reflexivity|]. now rewrite Hx, IH.
Qed.

Lemma trav_ext bf1 bf2 ml ms :
  (forall k a, bf1 (sname k) a = bf2 (sname k) a) -> (forall k a, bf1 (mname k) a = bf2 (mname k) a) ->
  forall v key last, trav bf1 ml ms v key last = trav bf2 ml ms v key last.
Proof.
  intros Hs Hm. induction v as [d| |k a xs IH|k a kvs IH] using V_ind'; intros key last; try reflexivity.
  - destruct xs as [|x r]; cbn [trav]; rewrite Hs; [reflexivity|].
    f_equal. f_equal. f_equal. apply gomap_ext. rewrite Forall_forall in IH |- *. intros y Hy i. apply IH; exact Hy.
  - destruct kvs as [|x r]; cbn [trav]; rewrite Hm; [reflexivity|].
    f_equal. f_equal. f_equal. apply gomap_ext. rewrite Forall_forall in IH |- *. intros y Hy i. apply IH; exact Hy.
Qed.

Lemma bf_spec_s k a : bf_spec (sname k) a = braces_spec_s k a.
Proof. destruct k; reflexivity. Qed.
Lemma bf_spec_m k a : bf_spec (mname k) a = braces_spec_m k a.
Proof. destruct k; reflexivity. Qed.

Lemma the_node_spec ml ms v : traverse bf_spec ml ms v = the_node ml ms v.
Proof.
  unfold the_node, traverse. apply trav_ext; intros; [now rewrite bf_spec_s, braces_gen_s|now rewrite bf_spec_m, braces_gen_m].
Qed.

(* ---------- traverse of a newline-free value is a newline-free node ---------- *)
Lemma uint_digits_no_nl u : no_nl (uint_digits u) = true.
Proof. induction u; cbn [uint_digits no_nl forallb]; try reflexivity; exact IHu. Qed.

Lemma print_Z_no_nl z : no_nl (print_Z z) = true.
Proof. destruct z; cbn [print_Z]; [reflexivity|apply uint_digits_no_nl|]. cbn [no_nl forallb]. apply uint_digits_no_nl. Qed.

Lemma to_repr_no_nl ms d : leafd_nl_free d = true -> no_nl (to_repr ms d) = true.
Proof.
  unfold leafd_nl_free, to_repr. intros H. apply andb_true_iff in H. destruct H as [H1 H2].
  destruct ms as [m|]; [|exact H1]. destruct (snd d) as [[n rt]|]; [|exact H1].
  destruct (n >? m); [|exact H1]. now rewrite !no_nl_app, H2, print_Z_no_nl.
Qed.

Lemma braces_s_no_nl k a : no_nl a = true ->
  no_nl (fst (fst (braces_spec_s k a))) = true /\ no_nl (snd (fst (braces_spec_s k a))) = true
  /\ no_nl (snd (braces_spec_s k a)) = true.
Proof. intros H. destruct k; cbn [braces_spec_s fst snd]; rewrite ?no_nl_app, ?H; repeat split; reflexivity. Qed.
Lemma braces_m_no_nl k a : no_nl a = true ->
  no_nl (fst (fst (braces_spec_m k a))) = true /\ no_nl (snd (fst (braces_spec_m k a))) = true
  /\ no_nl (snd (braces_spec_m k a)) = true.
Proof. intros H. destruct k; cbn [braces_spec_m fst snd]; rewrite ?no_nl_app, ?H; repeat split; reflexivity. Qed.

Lemma nlf_children {A} ml (f : A -> Z -> node) n l :
  Forall (fun x => forall i, nlf (f x i) = true) l ->
  forall i, forallb nlf (gomap ml f l i ++ abbrev_node ml n) = true.
Proof.
  intros H.
  assert (Ha : forallb nlf (abbrev_node ml n) = true).
  { unfold abbrev_node. destruct ml as [m|]; [|reflexivity]. destruct (n >? m); [|reflexivity].
    cbn [forallb nlf]. rewrite no_nl_app, print_Z_no_nl. reflexivity. }
  induction H as [|x r Hx _ IH]; intros i; cbn [gomap app]; [exact Ha|].
  destruct (limit_reached ml i); [exact Ha|]. cbn [app forallb]. rewrite Hx. cbn [andb]. apply IH.
Qed.

Lemma trav_nlf ml ms v : nl_free v = true -> forall key last, no_nl key = true ->
  nlf (trav bf_spec ml ms v key last) = true.
Proof.
  induction v as [d| |k a xs IH|k a kvs IH] using V_ind'; intros Hv key last Hk.
  - cbn [trav nlf nl_free] in *. now rewrite Hk, (to_repr_no_nl ms d Hv).
  - cbn [trav nlf]. now rewrite Hk.
  - cbn [nl_free] in Hv. apply andb_true_iff in Hv. destruct Hv as [Ha Hxs].
    destruct (braces_s_no_nl k a Ha) as (Ho & Hc & He).
    destruct xs as [|x r]; cbn [trav nlf]; rewrite bf_spec_s, Hk; [now rewrite He|].
    rewrite Ho, Hc. cbn [andb no_nl forallb].
    apply nlf_children. rewrite Forall_forall in IH |- *. rewrite forallb_forall in Hxs.
    intros y Hy i. apply IH; [exact Hy|apply Hxs; exact Hy|reflexivity].
  - cbn [nl_free] in Hv. apply andb_true_iff in Hv. destruct Hv as [Ha Hxs].
    destruct (braces_m_no_nl k a Ha) as (Ho & Hc & He).
    destruct kvs as [|x r]; cbn [trav nlf]; rewrite bf_spec_m, Hk; [now rewrite He|].
    rewrite Ho, Hc. cbn [andb no_nl forallb].
    apply nlf_children. rewrite Forall_forall in IH |- *. rewrite forallb_forall in Hxs.
    intros y Hy i. specialize (Hxs y Hy). apply andb_true_iff in Hxs. destruct Hxs as [H1 H2].
    apply IH; [exact Hy|exact H2|apply to_repr_no_nl; exact H1].
Qed.

(* ---------- the theorem ---------- *)
Lemma pretty_repr_lines v W ind ml ms ea s : pretty_repr v W ind ml ms ea = Ok s ->
  s = join_nl (map line_str (rr true W ind ea (the_node ml ms v) (root_line (the_node ml ms v)))).
Proof.
  unfold pretty_repr, pretty_repr_T. rewrite braces_complete. cbn [negb].
  destruct (_ && has_nonempty_container v); [discriminate|].
  unfold render. rewrite render_lines_rec. cbn [bind]. fold (the_node ml ms v). congruence.
Qed.

Theorem expanded_layout v W ind ml ms ea s : nl_free v = true ->
  pretty_repr v W ind ml ms ea = Ok s -> layout_b W ind ea ml ms v s = true.
Proof.
  intros Hv H. apply pretty_repr_lines in H. subst s.
  unfold layout_b, layout_node_b. rewrite the_node_spec.
  set (n := the_node ml ms v).
  assert (Hn : nlf n = true).
  { subst n. rewrite <- the_node_spec. unfold traverse. apply trav_nlf; [exact Hv|reflexivity]. }
  rewrite split_join.
  - pose proof (walk_rr W ind ea n (root_line n) 0 [] eq_refl eq_refl eq_refl ltac:(lia)) as Hw.
    rewrite app_nil_r in Hw. cbn [root_line l_suffix] in Hw. now rewrite Hw.
  - intros E. apply map_eq_nil in E. revert E. apply rr_nonempty.
  - apply Forall_forall. intros x Hx. apply in_map_iff in Hx. destruct Hx as (l' & <- & Hl').
    pose proof (rr_no_nl W ind ea n Hn (root_line n) eq_refl eq_refl eq_refl eq_refl) as HF.
    rewrite Forall_forall in HF. apply HF. exact Hl'.
Qed.

(* the side condition the harness evaluates on every case implies both hypotheses used by the theorems *)
Lemma leafd_ok_nl_free d : leafd_ok d = true -> leafd_nl_free d = true.
Proof.
  unfold leafd_ok, leafd_nl_free, str_ok, no_nl. intros H.
  apply andb_true_iff in H. destruct H as [H1 H2]. apply andb_true_iff in H1. destruct H1 as [_ H1].
  rewrite H1. destruct (snd d) as [[n rt]|]; [exact H2|reflexivity].
Qed.

Lemma leaves_ok_nl_free v : leaves_ok v = true -> nl_free v = true.
Proof.
  induction v as [d| |k a xs IH|k a kvs IH] using V_ind'; intros H.
  - apply leafd_ok_nl_free. exact H.
  - reflexivity.
  - cbn [leaves_ok nl_free] in *. apply andb_true_iff in H. destruct H as [Ha Hx].
    unfold no_nl. rewrite Ha. cbn [andb]. rewrite forallb_forall in Hx |- *.
    rewrite Forall_forall in IH. intros x Hin. apply IH; auto.
  - cbn [leaves_ok nl_free] in *. apply andb_true_iff in H. destruct H as [Ha Hx].
    unfold no_nl at 1. rewrite Ha. cbn [andb]. rewrite forallb_forall in Hx |- *.
    rewrite Forall_forall in IH. intros x Hin. specialize (Hx x Hin).
    apply andb_true_iff in Hx. destruct Hx as [H1 H2].
    rewrite (leafd_ok_nl_free _ H1). cbn [andb]. apply IH; auto.
Qed.

Lemma leaves_ok_keys_nonempty v : leaves_ok v = true -> keys_nonempty v = true.
Proof.
  induction v as [d| |k a xs IH|k a kvs IH] using V_ind'; intros H; try reflexivity.
  - cbn [leaves_ok keys_nonempty] in *. apply andb_true_iff in H. destruct H as [_ Hx].
    rewrite forallb_forall in Hx |- *. rewrite Forall_forall in IH. intros x Hin. apply IH; auto.
  - cbn [leaves_ok keys_nonempty] in *. apply andb_true_iff in H. destruct H as [_ Hx].
    rewrite forallb_forall in Hx |- *. rewrite Forall_forall in IH. intros x Hin. specialize (Hx x Hin).
    apply andb_true_iff in Hx. destruct Hx as [H1 H2].
    unfold leafd_ok, str_ok in H1. apply andb_true_iff in H1. destruct H1 as [H1 _].
    apply andb_true_iff in H1. destruct H1 as [H1 _]. apply andb_true_iff. split; [exact H1|apply IH; auto].
Qed.
