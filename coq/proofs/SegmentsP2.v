(* split_and_crop_lines and set_shape as compositions of split_lines and adjust_line_length. *)
From RichModel Require Import Prelude Cells Segments SpecCells.
From RichProofs Require Import CellsP SegmentsP.
From Coq Require Import ZifyBool.

Section SAC.
Variables (n : Z) (ps : option Z) (pad incl : bool).
Hypothesis Hn : 0 <= n.

Definition nlseg : seg Z := mkSeg [NL] None false.
Definition A (l : list (seg Z)) := adjust_line_length l n ps pad.
Definition G (l : list (seg Z)) := if incl then A l ++ [nlseg] else A l.

Lemma sac_text_rel : forall fuel text st line D,
  sac_text Z fuel false text st n ps pad incl line (map G D) =
  (fst (split_text Z fuel text st line D), map G (snd (split_text Z fuel text st line D))).
Proof.
  induction fuel as [|f IH]; intros text st line D; [reflexivity|].
  cbn [sac_text split_text]. destruct text as [|c text]; [reflexivity|].
  destruct (partition_nl (c :: text)) as [[a nl] b].
  destruct nl.
  - rewrite <- IH. reflexivity.
  - apply IH.
Qed.

Definition opt_cons {X} (o : option X) (l : list X) : list X :=
  match o with None => l | Some x => x :: l end.

Lemma sac_go_rel : forall segs line D,
  exists Dfin last,
    split_lines_go Z segs line D = rev (opt_cons last Dfin) /\
    sac_go Z false segs n ps pad incl line (map G D) = rev (opt_cons (option_map A last) (map G Dfin)).
Proof.
  induction segs as [|g segs IH]; intros line D.
  - cbn [split_lines_go sac_go]. destruct line as [|x line].
    + exists D, None. split; reflexivity.
    + exists D, (Some (rev (x :: line))). split; reflexivity.
  - cbn [split_lines_go sac_go]. destruct (has_nl (txt g) && negb (ctl g)).
    + rewrite sac_text_rel.
      destruct (split_text Z (S (length (txt g))) (txt g) (sty g) line D) as [l1 D1]. cbn [fst snd].
      apply IH.
    + apply IH.
Qed.

Lemma all2_app {X Y} (f : X -> Y -> bool) : forall la lb la' lb',
  all2 f la lb = true -> all2 f la' lb' = true -> all2 f (la ++ la') (lb ++ lb') = true.
Proof.
  induction la as [|a la IH]; intros [|b lb] la' lb' H1 H2; simpl in *; try discriminate; [exact H2|].
  apply andb_true_iff in H1 as [Ha Hr]. rewrite Ha. simpl. apply IH; assumption.
Qed.

Lemma all2_rev {X Y} (f : X -> Y -> bool) : forall la lb,
  all2 f la lb = true -> all2 f (rev la) (rev lb) = true.
Proof.
  induction la as [|a la IH]; intros [|b lb] H; simpl in *; try discriminate; [reflexivity|].
  apply andb_true_iff in H as [Ha Hr]. apply all2_app; [apply IH; exact Hr|]. simpl. rewrite Ha. reflexivity.
Qed.

Lemma A_ok l : line_ok_b n ps pad incl l (A l) = true.
Proof. unfold line_ok_b, A. rewrite (adjust_line_length_spec l n ps pad Hn). reflexivity. Qed.

Lemma drop_nl_snoc l : drop_nl (l ++ [nlseg]) = l.
Proof. unfold drop_nl. rewrite rev_app_distr. cbn [rev app]. cbn. apply rev_involutive. Qed.

Lemma G_ok l : line_ok_b n ps pad incl l (G l) = true.
Proof.
  unfold G. destruct incl eqn:E; [|rewrite <- E; apply A_ok].
  unfold line_ok_b. rewrite drop_nl_snoc. unfold A.
  rewrite (adjust_line_length_spec l n ps pad Hn). cbn. apply orb_true_r.
Qed.

Lemma all2_map_G D : all2 (line_ok_b n ps pad incl) D (map G D) = true.
Proof. induction D as [|l D IH]; simpl; [reflexivity|]. rewrite G_ok, IH. reflexivity. Qed.

Theorem split_and_crop_lines_ok segs :
  shape_ok_b n ps pad incl (split_lines segs) (split_and_crop_lines false segs n ps pad incl) = true.
Proof.
  unfold shape_ok_b, split_lines, split_and_crop_lines.
  destruct (sac_go_rel segs [] []) as [Dfin [last [H1 H2]]]. cbn [map] in H2.
  rewrite H1, H2. apply all2_rev.
  destruct last as [l|]; cbn [opt_cons option_map all2]; [rewrite A_ok|]; apply all2_map_G.
Qed.
End SAC.

(* Segment.split_and_crop_lines (repaired variant: the padding style parameter is respected):
   every line of split_lines is shaped by adjust_line_length to the requested length/style. *)
Theorem split_and_crop_lines_spec : forall segs n style pad incl, 0 <= n ->
  shape_ok_b n style pad incl (split_lines segs) (split_and_crop_lines false segs n style pad incl) = true.
Proof. intros segs n style pad incl Hn. apply split_and_crop_lines_ok. exact Hn. Qed.

(* Segment.set_shape: the given lines shaped to `width`, then blank lines of `width` up to `height` *)
Lemma set_shape_go_ok : forall lines width remaining style, 0 <= width ->
  let out := set_shape_go Z lines width remaining style in
  shape_ok_b width style true false lines (firstn (length lines) out) = true /\
  forallb (fun l => adjust_ok_b [] width style true l) (skipn (length lines) out) = true /\
  length out = (length lines + (remaining - length lines))%nat.
Proof.
  induction lines as [|l lines IH]; intros width remaining style Hw; cbn zeta.
  - cbn [set_shape_go length firstn skipn]. split; [reflexivity|]. split.
    + apply forallb_forall. intros x Hx. apply repeat_spec in Hx. subst x.
      pose proof (adjust_line_length_spec [] width style true Hw) as H.
      unfold adjust_line_length in H.
      change (line_len (@nil (seg Z))) with 0 in H.
      destruct (0 <? width) eqn:E.
      * cbn [app] in H. replace (width - 0) with width in H by lia. exact H.
      * assert (width = 0) by lia. subst width. vm_compute. reflexivity.
    + rewrite repeat_length. lia.
  - cbn [set_shape_go length firstn skipn].
    destruct (IH width (pred remaining) style Hw) as [H1 [H2 H3]].
    split; [|split].
    + unfold shape_ok_b in *. cbn [all2]. rewrite H1. unfold line_ok_b.
      rewrite (adjust_line_length_spec l width style true Hw). reflexivity.
    + exact H2.
    + cbn [length]. rewrite H3. lia.
Qed.

Theorem set_shape_spec : forall lines width height style, 0 <= width ->
  let out := set_shape lines width height style in
  let h := match height with None => length lines | Some h => Z.to_nat h end in
  shape_ok_b width style true false lines (firstn (length lines) out) = true /\
  forallb (fun l => adjust_ok_b [] width style true l) (skipn (length lines) out) = true /\
  length out = Nat.max (length lines) h.
Proof.
  intros lines width height style Hw. cbn zeta. unfold set_shape.
  set (h := match height with None => length lines | Some h => Z.to_nat h end).
  destruct (set_shape_go_ok lines width h style Hw) as [H1 [H2 H3]].
  split; [exact H1|split; [exact H2|]]. rewrite H3. lia.
Qed.
