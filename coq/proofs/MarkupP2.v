(* C04 part 2: tokenisation of escape(s) (backslash-run parity), context independence,
   documents tokenise to their items. *)
From RichModel Require Import Prelude Markup SpecMarkup.
From RichProofs Require Import MarkupP.
Local Open Scope nat_scope.

(* ------------------------------------------------------------------ find_close and escape *)
Lemma tagform_body : forall k c t, tag_start c = true -> tag_body_ok t = true ->
  tag_body_ok (repeat BS k ++ LB :: c :: t) = true.
Proof.
  intros k c t Hc Ht. unfold tag_body_ok. rewrite forallb_app. apply andb_true_iff. split.
  - apply forallb_forall. intros x Hx. apply repeat_spec in Hx. subst. reflexivity.
  - cbn [forallb]. rewrite (tag_start_body c Hc). exact Ht.
Qed.

Lemma tagform_close : forall k c t rest, tag_start c = true -> tag_body_ok t = true ->
  find_close (tagform k c t rest) = Some (repeat BS k ++ LB :: c :: t).
Proof.
  intros. unfold tagform.
  replace (repeat BS k ++ LB :: c :: t ++ RB :: rest) with ((repeat BS k ++ LB :: c :: t) ++ RB :: rest)
    by (rewrite <- app_assoc; reflexivity).
  apply find_close_app. apply tagform_body; auto.
Qed.

(* escape only inserts backslashes: whether a ']' is reachable before a newline is unchanged *)
Lemma find_close_escape : forall s, find_close s = None -> find_close (escape s) = None.
Proof.
  apply (escape_ind (fun s e => find_close s = None -> find_close e = None)).
  - auto.
  - intros c s _ IH H. cbn [find_close] in *.
    destruct (c =? RB)%Z; [discriminate|]. destruct (c =? NL)%Z; [reflexivity|].
    destruct (find_close s); [discriminate|]. rewrite (IH eq_refl). reflexivity.
  - intros k c t rest Hc Ht _ H. rewrite tagform_close in H by auto. discriminate.
Qed.

Lemma escape_head_bs : forall s, escape (BS :: s) = BS :: tl (escape (BS :: s)).
Proof.
  intros s. destruct (match_tag (BS :: s)) as [[k tag]|] eqn:E.
  - destruct (match_tag_spec _ _ _ E) as [c [t [rest [_ [Hc [Ht Hs]]]]]].
    rewrite Hs, escape_match by auto. unfold tagform.
    replace (k + k + 1) with (S (k + k)) by lia. reflexivity.
  - rewrite escape_nomatch by auto. reflexivity.
Qed.

(* the key step of the tokenisation lemma: a position where RE_TAGS does not match in s still
   does not match after the rest has been escaped *)
Lemma nomatch_escape : forall s, match_tag s = None -> match_tag (escape s) = None.
Proof.
  induction s as [|c s IH]; intros H; [reflexivity|].
  rewrite (escape_nomatch c s H).
  destruct (c =? BS)%Z eqn:Ec.
  - apply Z.eqb_eq in Ec. subst c. apply match_tag_bs. apply IH. apply match_tag_bs. exact H.
  - (* c is not a backslash: k = 0 *)
    unfold match_tag in *. cbn [span_bs] in *. rewrite Ec in *.
    destruct (c =? LB)%Z eqn:El; [|destruct (escape s) as [|? ?]; reflexivity].
    destruct s as [|y s']; [reflexivity|]. cbn [andb] in H.
    destruct (match_tag (y :: s')) as [[k tag]|] eqn:Ey.
    + (* the rest starts with a match: its escaped form starts with a backslash or ... *)
      destruct (match_tag_spec _ _ _ Ey) as [c' [t [rest [_ [Hc [Ht Hs]]]]]].
      rewrite Hs, escape_match by auto. unfold tagform.
      replace (k + k + 1) with (S (k + k)) by lia. cbn [repeat app]. reflexivity.
    + rewrite (escape_nomatch y s' Ey). cbn [andb].
      destruct (tag_start y) eqn:Hy; [|reflexivity].
      destruct (find_close s') eqn:Ef; [discriminate|].
      rewrite (find_close_escape s' Ef). reflexivity.
Qed.

Lemma nomatch_escape_cons : forall c s, match_tag (c :: s) = None -> match_tag (c :: escape s) = None.
Proof. intros c s H. rewrite <- (escape_nomatch c s H). apply nomatch_escape. exact H. Qed.

(* ------------------------------------------------------------------ running tokens *)
Lemma bind_assoc : forall A B C (r : res A) (f : A -> res B) (g : B -> res C),
  bind (bind r f) g = bind r (fun a => bind (f a) g).
Proof. intros. destruct r; reflexivity. Qed.

Section Generic.
  Variable St : Type.
  Variable step : St -> token -> res St.
  Variable addtext : St -> str -> St.
  Hypothesis step_text : forall st t, step st (TText t) = Ok (addtext st t).
  Hypothesis addtext_app : forall st a b, addtext (addtext st a) b = addtext st (a ++ b).
  Hypothesis addtext_nil : forall st, addtext st [] = st.

  Lemma run_app : forall a b st,
    run step st (a ++ b) = bind (run step st a) (fun st' => run step st' b).
  Proof.
    induction a as [|tk a IH]; intros b st; [reflexivity|].
    cbn [app run]. destruct (step st tk); try reflexivity. apply IH.
  Qed.

  Lemma run_flush : forall p ts st, run step st (flush p ++ ts) = run step (addtext st p) ts.
  Proof.
    intros [|c p] ts st; cbn [flush app run].
    - rewrite addtext_nil. reflexivity.
    - rewrite step_text. reflexivity.
  Qed.

  Lemma pend_shift : forall s skip pend st,
    run step st (parse_aux s skip pend) = run step (addtext st pend) (parse_aux s skip []).
  Proof.
    induction s as [|c s IH]; intros skip pend st; cbn [parse_aux].
    - rewrite <- (app_nil_r (flush pend)), run_flush. reflexivity.
    - destruct skip as [|n]; [|apply IH].
      destruct (re_tags_match (c :: s)) as [m|].
      + rewrite run_flush. reflexivity.
      + rewrite IH. rewrite (IH 0 ([] ++ [c])). rewrite addtext_app. reflexivity.
  Qed.

  Lemma run_emit_odd : forall k tag ts st,
    run step st (emit (k + k + 1) tag ++ ts) = run step (addtext st (repeat BS k ++ LB :: tag ++ [RB])) ts.
  Proof.
    intros k tag ts st. unfold emit.
    replace (k + k + 1) with (S (2 * k)) by lia.
    rewrite Nat.div2_succ_double, Nat.odd_succ, Nat.even_mul. cbn [Nat.even orb].
    destruct k as [|k].
    - cbn [Nat.eqb app run repeat]. rewrite step_text. reflexivity.
    - cbn [Nat.eqb app run]. rewrite !step_text, addtext_app. reflexivity.
  Qed.

  (* tokenisation lemma: scanning escape(s) yields only literal text, and it adds up to s *)
  Lemma run_escape : forall s st, run step st (parse (escape s)) = Ok (addtext st s).
  Proof.
    apply (escape_ind (fun s e => forall st, run step st (parse e) = Ok (addtext st s))).
    - intros st. cbn. rewrite addtext_nil. reflexivity.
    - intros c s H IH st. unfold parse.
      rewrite parse_nomatch by (apply nomatch_escape_cons; exact H).
      rewrite pend_shift. fold (parse (escape s)). rewrite IH, addtext_app. reflexivity.
    - intros k c t rest Hc Ht IH st. unfold parse.
      rewrite parse_match by auto. cbn [flush app].
      rewrite run_emit_odd. fold (parse (escape rest)). rewrite IH, addtext_app.
      f_equal. f_equal. unfold tagform. rewrite <- !app_assoc. cbn [app]. rewrite <- app_assoc. reflexivity.
  Qed.
End Generic.

(* ------------------------------------------------------------------ the side conditions *)
Definition isRB (c : Z) : bool := (c =? RB)%Z.
Lemma closed_b_cons : forall c s, closed_b (c :: s) = true -> closed_b s = true.
Proof. intros c s H. cbn [closed_b] in H. apply andb_true_iff in H. tauto. Qed.

Lemma ends_bs_cons : forall c s, ends_bs (c :: s) = false -> ends_bs s = false.
Proof. intros c [|d s] H; [reflexivity|exact H]. Qed.

Lemma lit_ok_cons : forall c s, lit_ok (c :: s) = true -> lit_ok s = true.
Proof.
  intros c s H. unfold lit_ok in *. apply andb_true_iff in H. destruct H as [H1 H2].
  apply negb_true_iff in H1. rewrite (ends_bs_cons _ _ H1), (closed_b_cons _ _ H2). reflexivity.
Qed.

Lemma ends_bs_app : forall a b, b <> [] -> ends_bs (a ++ b) = ends_bs b.
Proof.
  induction a as [|c a IH]; intros b Hb; [reflexivity|].
  cbn [app ends_bs]. destruct (a ++ b) eqn:E.
  - destruct a; [cbn in E; contradiction|discriminate].
  - rewrite <- E. apply IH. exact Hb.
Qed.

Lemma existsb_app_rb : forall a r, existsb (fun x => (x =? RB)%Z) (a ++ RB :: r) = true.
Proof. intros. rewrite existsb_app. cbn [existsb]. rewrite Z.eqb_refl. apply orb_true_r. Qed.

Lemma closed_b_app_rb : forall a r, closed_b (a ++ RB :: r) = closed_b r.
Proof.
  induction a as [|c a IH]; intros r; cbn [app closed_b].
  - reflexivity.
  - rewrite IH. rewrite existsb_app_rb. destruct (c =? LB)%Z; reflexivity.
Qed.

Lemma tagform_as_app : forall k c t rest, tagform k c t rest = (repeat BS k ++ LB :: c :: t) ++ RB :: rest.
Proof. intros. unfold tagform. rewrite <- app_assoc. reflexivity. Qed.

Lemma lit_ok_escape : forall s, lit_ok s = true -> lit_ok (escape s) = true.
Proof.
  assert (H : forall s, ends_bs (escape s) = ends_bs s
                        /\ existsb (fun x => (x =? RB)%Z) (escape s) = existsb (fun x => (x =? RB)%Z) s
                        /\ closed_b (escape s) = closed_b s
                        /\ (escape s = [] <-> s = [])).
  { apply (escape_ind (fun s e => ends_bs e = ends_bs s
                        /\ existsb (fun x => (x =? RB)%Z) e = existsb (fun x => (x =? RB)%Z) s
                        /\ closed_b e = closed_b s /\ (e = [] <-> s = []))).
    - repeat split; auto.
    - intros c s _ [H1 [H2 [H3 H4]]]. repeat split; try discriminate.
      + cbn [ends_bs]. destruct (escape s) eqn:E; destruct s eqn:E'; try reflexivity.
        * destruct H4 as [H4 _]. discriminate (H4 eq_refl).
        * destruct H4 as [_ H4]. discriminate (H4 eq_refl).
        * exact H1.
      + cbn [existsb]. rewrite H2. reflexivity.
      + cbn [closed_b]. rewrite H2, H3. reflexivity.
    - intros k c t rest Hc Ht [H1 [H2 [H3 H4]]]. rewrite !tagform_as_app. repeat split.
      + rewrite !ends_bs_app by discriminate. cbn [ends_bs].
        destruct (escape rest) eqn:E; destruct rest eqn:E'; try reflexivity.
        * destruct H4 as [H4 _]. discriminate (H4 eq_refl).
        * destruct H4 as [_ H4]. discriminate (H4 eq_refl).
        * exact H1.
      + rewrite !existsb_app_rb. reflexivity.
      + rewrite !closed_b_app_rb. exact H3.
      + intros E. destruct (repeat BS (k + k + 1) ++ LB :: c :: t); discriminate.
      + intros E. destruct (repeat BS k ++ LB :: c :: t); discriminate. }
  intros s Hs. unfold lit_ok in *. destruct (H s) as [H1 [_ [H3 _]]]. rewrite H1, H3. exact Hs.
Qed.

(* ------------------------------------------------------------------ context independence *)
Lemma find_close_indep : forall r rest, existsb (fun x => (x =? RB)%Z) r = true ->
  find_close (r ++ rest) = find_close r.
Proof.
  induction r as [|c r IH]; intros rest H; [discriminate|].
  cbn [app find_close existsb] in *. destruct (c =? RB)%Z; [reflexivity|].
  destruct (c =? NL)%Z; [reflexivity|]. cbn [orb] in H. rewrite (IH rest H). reflexivity.
Qed.

Lemma span_bs_app : forall s k r rest, span_bs s = (k, r) -> r <> [] -> span_bs (s ++ rest) = (k, r ++ rest).
Proof.
  intros s k r rest H Hr. destruct (span_bs_spec _ _ _ H) as [Hs Hnb]. rewrite Hs, <- app_assoc.
  apply span_bs_repeat. intros r' E. destruct r as [|x r]; [contradiction|].
  cbn [app] in E. inversion E; subst. exact (Hnb r eq_refl).
Qed.

Lemma ends_bs_repeat : forall k, ends_bs (repeat BS (S k)) = true.
Proof. induction k as [|k IH]; [reflexivity|]. cbn [repeat ends_bs] in *. exact IH. Qed.

(* whether RE_TAGS matches at a position inside a self-contained piece does not depend on what follows *)
Lemma match_tag_indep : forall s rest, s <> [] -> lit_ok s = true -> match_tag (s ++ rest) = match_tag s.
Proof.
  intros s rest Hne Hok. unfold lit_ok in Hok. apply andb_true_iff in Hok. destruct Hok as [Hb Hc].
  apply negb_true_iff in Hb. unfold match_tag.
  destruct (span_bs s) as [k r] eqn:E. destruct (span_bs_spec _ _ _ E) as [Hs Hnb].
  destruct r as [|lb r1].
  - (* s is a non-empty run of backslashes: excluded *)
    rewrite app_nil_r in Hs. subst s. destruct k; [contradiction|]. rewrite ends_bs_repeat in Hb. discriminate.
  - rewrite (span_bs_app s k (lb :: r1) rest E) by discriminate. cbn [app].
    destruct (lb =? LB)%Z eqn:El.
    + (* '[' : closed within s *)
      assert (Hcl : closed_b (lb :: r1) = true).
      { subst s. clear - Hc. induction k; [exact Hc|]. apply IHk. cbn [repeat app] in Hc. apply (closed_b_cons _ _ Hc). }
      cbn [closed_b] in Hcl. rewrite El in Hcl. apply andb_true_iff in Hcl. destruct Hcl as [Hex _].
      destruct r1 as [|c r2]; [discriminate|]. cbn [app andb].
      destruct (tag_start c) eqn:Hc'; [|reflexivity].
      cbn [existsb] in Hex. pose proof (tag_start_body c Hc') as Hb'.
      apply orb_false_iff in Hb'. destruct Hb' as [Hb1 _]. rewrite Hb1 in Hex. cbn [orb] in Hex. rewrite (find_close_indep r2 rest Hex). reflexivity.
    + destruct r1 as [|c r2]; cbn [app]; [destruct rest|]; reflexivity.
Qed.

Lemma match_len_le : forall s m, match_tag s = Some m -> match_len m <= length s.
Proof.
  intros s [k tag] H. destruct (match_tag_spec _ _ _ H) as [c [t [rest [Htag [_ [_ Hs]]]]]].
  subst. rewrite tagform_split, app_length, tagform_len. apply Nat.le_add_r.
Qed.

Section Generic2.
  Variable St : Type.
  Variable step : St -> token -> res St.
  Variable addtext : St -> str -> St.
  Hypothesis step_text : forall st t, step st (TText t) = Ok (addtext st t).
  Hypothesis addtext_app : forall st a b, addtext (addtext st a) b = addtext st (a ++ b).
  Hypothesis addtext_nil : forall st, addtext st [] = st.

  (* a self-contained prefix is scanned on its own *)
  Lemma run_prefix : forall pre rest skip pend st, skip <= length pre -> lit_ok pre = true ->
    run step st (parse_aux (pre ++ rest) skip pend)
    = bind (run step st (parse_aux pre skip pend)) (fun st' => run step st' (parse rest)).
  Proof.
    induction pre as [|c pre IH]; intros rest skip pend st Hk Hok.
    - assert (skip = 0) by (cbn in Hk; lia). subst skip. cbn [app parse_aux].
      rewrite (pend_shift St step addtext step_text addtext_app addtext_nil).
      rewrite <- (app_nil_r (flush pend)), (run_flush St step addtext step_text addtext_nil). reflexivity.
    - pose proof (lit_ok_cons _ _ Hok) as Hok'.
      destruct skip as [|n]; cbn [app parse_aux].
      + unfold re_tags_match. change (c :: pre ++ rest) with ((c :: pre) ++ rest).
        rewrite (match_tag_indep (c :: pre) rest) by (auto; discriminate).
        destruct (match_tag (c :: pre)) as [m|] eqn:Em.
        * pose proof (match_len_le _ _ Em) as Hl. cbn [length] in Hl.
          rewrite !app_assoc. set (X := flush pend ++ emit (fst m) (snd m)).
          rewrite (run_app St step X (parse_aux (pre ++ rest) (match_len m - 1) [])).
          rewrite (run_app St step X (parse_aux pre (match_len m - 1) [])).
          rewrite bind_assoc. destruct (run step st X) as [st1| |]; cbn [bind]; try reflexivity.
          apply IH; auto. lia.
        * apply IH; auto. lia.
      + apply IH; auto. cbn [length] in Hk. lia.
  Qed.

  Lemma run_prefix0 : forall pre rest st, lit_ok pre = true ->
    run step st (parse (pre ++ rest)) = bind (run step st (parse pre)) (fun st' => run step st' (parse rest)).
  Proof. intros. unfold parse at 1 2. apply run_prefix; auto. lia. Qed.

  (* escape(s) embedded between other markup behaves as the single literal text s *)
  Lemma run_embedded : forall pre s post st, lit_ok pre = true -> lit_ok s = true ->
    run step st (parse (pre ++ escape s ++ post))
    = bind (run step st (parse pre)) (fun st' => run step (addtext st' s) (parse post)).
  Proof.
    intros pre s post st Hp Hs. rewrite run_prefix0 by auto.
    destruct (run step st (parse pre)) as [st'| |]; cbn [bind]; try reflexivity.
    rewrite run_prefix0 by (apply lit_ok_escape; exact Hs).
    rewrite (run_escape St step addtext step_text addtext_app addtext_nil). reflexivity.
  Qed.
End Generic2.
