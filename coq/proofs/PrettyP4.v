(* C16 proofs, part 4: the regenerated _BRACES table is what evaluates back; main theorems about
   pretty_repr (repaired code); one-line rule; abbreviation counts. *)
From Coq Require Import ZifyBool.
From RichModel Require Import Prelude Wire Cells Pretty SpecPretty.
From RichGen Require Import PrettyBraces.
From RichProofs Require Import CellsP PrettyP PrettyP2 PrettyP3.

(* ---------- tie to the table regenerated from /repo ---------- *)
Lemma braces_gen_s k a : bf_of BRACES (sname k) a = braces_spec_s k a.
Proof. destruct k; reflexivity. Qed.
Lemma braces_gen_m k a : bf_of BRACES (mname k) a = braces_spec_m k a.
Proof. destruct k; reflexivity. Qed.
Lemma braces_complete : table_complete BRACES = true.
Proof. vm_compute. reflexivity. Qed.
Lemma mapping_containers_fact : existsb (str_eqb (lit "dict")) MAPPING_CONTAINERS = true.
Proof. vm_compute. reflexivity. Qed.

Definition ml_ok (ml : option Z) (v : V) : bool :=
  negb ((match ml with Some m => m <? 0 | None => false end) && has_nonempty_container v).

Definition the_node (ml ms : option Z) (v : V) : node := traverse (bf_of BRACES) ml ms v.

(* pretty_repr never runs out of fuel and is the text of the recursive printer *)
Theorem pretty_repr_rec v W ind ml ms ea : ml_ok ml v = true ->
  pretty_repr v W ind ml ms ea
  = Ok (rs W ind ea (the_node ml ms v) (root_line (the_node ml ms v))).
Proof.
  intros Hml. unfold pretty_repr, pretty_repr_T. rewrite braces_complete. cbn [negb].
  unfold ml_ok in Hml. apply negb_true_iff in Hml. rewrite Hml.
  unfold render. rewrite render_lines_rec. cbn [bind].
  fold (the_node ml ms v). rewrite join_rr by reflexivity. cbn [root_line l_ws l_suffix app].
  now rewrite app_nil_r.
Qed.

Lemma match_stream_mt2 toks out : match_stream toks out = mt2 toks out.
Proof. destruct toks; reflexivity. Qed.

Theorem pretty_tokens_canonical v W ind ml ms ea s :
  pretty_repr v W ind ml ms ea = Ok s -> canonical_b ml ms v s = true.
Proof.
  intros H. destruct (ml_ok ml v) eqn:Hml.
  - rewrite pretty_repr_rec in H by exact Hml. inversion H; subst s. clear H.
    unfold canonical_b. rewrite match_stream_mt2.
    rewrite <- (traverse_canon (bf_of BRACES) braces_gen_s braces_gen_m ml ms v). fold (the_node ml ms v).
    pose proof (mt2_rs W ind ea (the_node ml ms v)
                  (traverse_wf (bf_of BRACES) braces_gen_s braces_gen_m ml ms v)
                  (root_line (the_node ml ms v)) [] [] eq_refl (fun _ => eq_refl)) as M.
    now rewrite !app_nil_r in M.
  - exfalso. unfold pretty_repr, pretty_repr_T in H. rewrite braces_complete in H. cbn [negb] in H.
    unfold ml_ok in Hml. apply negb_false_iff in Hml. rewrite Hml in H. discriminate.
Qed.

(* ---------- the one-line rule ---------- *)
Lemma check_toks_fits toks : forall start max,
  start + cell_len (concat toks) <= max -> check_toks toks start max = true.
Proof.
  induction toks as [|t r IH]; intros start max H; [reflexivity|].
  cbn [check_toks concat] in *. rewrite cell_len_app in H.
  pose proof (cell_len_nonneg t). pose proof (cell_len_nonneg (concat r)).
  destruct (start + cell_len t >? max) eqn:E; [lia|]. apply IH. lia.
Qed.

Lemma rs_root_fits W ind n : cell_len (node_str n) <= W ->
  rs W ind false n (root_line n) = node_str n.
Proof.
  intros H. destruct n as [k v o c e la t [[|c0 cs]|]]; try reflexivity.
  rewrite rs_cont. cbn [orb].
  unfold line_check_length, node_check_length. cbn [root_line l_ws l_text l_suffix zlen length].
  change (cell_len []) with 0.
  rewrite check_toks_fits; [reflexivity|]. unfold node_str in H. unfold zlen. cbn [length Z.of_nat]. lia.
Qed.

Theorem one_line_when_fits v W ind ml ms : ml_ok ml v = true ->
  cell_len (canon_str ml ms v) <= W ->
  pretty_repr v W ind ml ms false = Ok (canon_str ml ms v).
Proof.
  intros Hml H. rewrite pretty_repr_rec by exact Hml.
  rewrite (canon_str_node (bf_of BRACES) braces_gen_s braces_gen_m) in *. fold (the_node ml ms v) in *.
  now rewrite rs_root_fits.
Qed.

Theorem one_line_spec v W ind ml ms ea s :
  pretty_repr v W ind ml ms ea = Ok s -> one_line_b W ea ml ms v s = true.
Proof.
  intros H. unfold one_line_b. destruct ea; [reflexivity|]. cbn [negb andb].
  destruct (cell_len (canon_str ml ms v) <=? W) eqn:E; [|reflexivity].
  destruct (ml_ok ml v) eqn:Hml.
  - rewrite one_line_when_fits in H by (try exact Hml; lia). inversion H. apply str_eqb_refl.
  - exfalso. unfold pretty_repr, pretty_repr_T in H. rewrite braces_complete in H. cbn [negb] in H.
    unfold ml_ok in Hml. apply negb_false_iff in Hml. rewrite Hml in H. discriminate.
Qed.

(* ---------- abbreviation counts ---------- *)
Lemma gomap_firstn {A B} (f : A -> Z -> B) m : (forall x i j, f x i = f x j) ->
  forall l i, 0 <= i -> gomap (Some m) f l i = map (fun x => f x 0) (firstn (Z.to_nat (m - i)) l).
Proof.
  intros Hf. induction l as [|x r IH]; intros i Hi; [now rewrite firstn_nil|].
  cbn [gomap]. unfold limit_reached. destruct (i >=? m) eqn:E.
  - replace (Z.to_nat (m - i)) with O by lia. reflexivity.
  - replace (Z.to_nat (m - i)) with (S (Z.to_nat (m - (i + 1)))) by lia.
    cbn [firstn map]. rewrite (Hf x i 0). f_equal. apply IH. lia.
Qed.

(* max_length = m < number of items: exactly the first m items are shown and the marker reports
   the number of items that are not *)
Theorem abbreviation_counts_seq k a xs m ms : 0 <= m < zlen xs ->
  canon (Some m) ms (Seq k a xs)
  = TOpen (fst (fst (braces_spec_s k a)))
      :: body (is_tup k)
              (map (canon (Some m) ms) (firstn (Z.to_nat m) xs)
                 ++ [[TAtom (lit "... +" ++ print_Z (zlen xs - Z.of_nat (length (firstn (Z.to_nat m) xs))))]])
      ++ [TClose (snd (fst (braces_spec_s k a)))].
Proof.
  intros Hm. destruct xs as [|x r]; [unfold zlen in Hm; cbn in Hm; lia|].
  set (xs := x :: r) in *.
  change (canon (Some m) ms (Seq k a xs))
    with (TOpen (fst (fst (braces_spec_s k a)))
            :: body (is_tup k) (gomap (Some m) (fun y _ => canon (Some m) ms y) xs 0 ++ marker (Some m) (zlen xs))
            ++ [TClose (snd (fst (braces_spec_s k a)))]).
  rewrite gomap_firstn by (auto; lia). rewrite Z.sub_0_r.
  unfold marker. replace (zlen xs >? m) with true by lia.
  rewrite firstn_length_le by (unfold zlen in Hm; lia). rewrite Z2Nat.id by lia. reflexivity.
Qed.

Theorem abbreviation_counts_map k a kvs m ms : 0 <= m < zlen kvs ->
  canon (Some m) ms (Map k a kvs)
  = TOpen (fst (fst (braces_spec_m k a)))
      :: body false
              (map (fun kv => keytoks (to_repr ms (fst kv)) ++ canon (Some m) ms (snd kv)) (firstn (Z.to_nat m) kvs)
                 ++ [[TAtom (lit "... +" ++ print_Z (zlen kvs - Z.of_nat (length (firstn (Z.to_nat m) kvs))))]])
      ++ [TClose (snd (fst (braces_spec_m k a)))].
Proof.
  intros Hm. destruct kvs as [|x r]; [unfold zlen in Hm; cbn in Hm; lia|].
  set (kvs := x :: r) in *.
  change (canon (Some m) ms (Map k a kvs))
    with (TOpen (fst (fst (braces_spec_m k a)))
            :: body false (gomap (Some m) (fun y _ => keytoks (to_repr ms (fst y)) ++ canon (Some m) ms (snd y)) kvs 0
                             ++ marker (Some m) (zlen kvs))
            ++ [TClose (snd (fst (braces_spec_m k a)))]).
  rewrite gomap_firstn by (auto; lia). rewrite Z.sub_0_r.
  unfold marker. replace (zlen kvs >? m) with true by lia.
  rewrite firstn_length_le by (unfold zlen in Hm; lia). rewrite Z2Nat.id by lia. reflexivity.
Qed.

(* max_string = m < len(s): the repr of the first m characters, then "+" and the number cut *)
Theorem abbreviation_counts_str r n rt m : n > m ->
  to_repr (Some m) (r, Some (n, rt)) = rt ++ lit "+" ++ print_Z (n - m).
Proof. intros H. unfold to_repr. cbn [snd fst]. replace (n >? m) with true by lia. reflexivity. Qed.

Theorem no_abbreviation_when_short {A} (xs : list A) m : zlen xs <= m ->
  marker (Some m) (zlen xs) = [].
Proof. intros H. unfold marker. replace (zlen xs >? m) with false by lia. reflexivity. Qed.

(* ---------- kept on one line only if the line fits ---------- *)
Lemma check_toks_sound toks : forall start max, 0 <= start ->
  check_toks toks start max = true -> toks <> [] -> start + cell_len (concat toks) <= max.
Proof.
  induction toks as [|t r IH]; intros start max Hs H Hne; [congruence|].
  cbn [check_toks concat] in *. rewrite cell_len_app.
  pose proof (cell_len_nonneg t).
  destruct (start + cell_len t >? max) eqn:E; [discriminate|].
  destruct r as [|t' r'].
  - cbn [concat]. change (cell_len []) with 0. lia.
  - specialize (IH (start + cell_len t) max ltac:(lia) H ltac:(discriminate)). lia.
Qed.

Definition line_fits (W : Z) (l : line) : Prop :=
  match expandable_node l with
  | Some _ => cell_len (line_str l) <= W
  | None => True
  end.

Lemma cell_len_all_sp ws : all_sp ws = true -> cell_len ws = zlen ws.
Proof.
  unfold all_sp, zlen. induction ws as [|c r IH]; [reflexivity|].
  cbn [forallb length]. intros H. apply andb_true_iff in H. destruct H as [Hc Hr].
  rewrite cell_len_cons, (IH Hr). apply Z.eqb_eq in Hc. subst c. change (char_size SP) with 1. lia.
Qed.

(* every output line that still carries a non-empty container fits the width, and was not forced open *)
Theorem kept_lines_fit W ind ea n : forall l, l_node l = Some n -> l_text l = [] -> all_sp (l_ws l) = true ->
  Forall (fun l' => line_fits W l' /\ (expandable_node l' <> None -> ea = false))
         (rr true W ind ea n l).
Proof.
  induction n as [k v o c e la t|k v o c e la t cs IH] using node_ind'; intros l Hn Ht Hl.
  - cbn [rr]. constructor; [|constructor]. unfold line_fits, expandable_node. rewrite Hn. cbn [n_children].
    split; [exact Logic.I|congruence].
  - destruct cs as [|c0 cs].
    + cbn [rr]. constructor; [|constructor]. unfold line_fits, expandable_node. rewrite Hn. cbn [n_children].
      split; [exact Logic.I|congruence].
    + rewrite rr_cont. destruct (ea || negb (line_check_length l _ W)) eqn:Ex.
      * constructor; [unfold line_fits, expandable_node; cbn [open_line l_node]; split; [exact Logic.I|congruence]|].
        apply Forall_app. split.
        -- clear Ex. rewrite Forall_forall in IH. apply Forall_forall. intros l' Hin.
           apply in_flat_map in Hin. destruct Hin as (x & Hx & Hin).
           specialize (IH x Hx (child_line ind l (t && single (c0 :: cs)) x) eq_refl eq_refl).
           rewrite Forall_forall in IH. apply IH; [|exact Hin].
           cbn [child_line l_ws]. apply all_sp_app; [exact Hl|apply all_sp_repeat].
        -- constructor; [|constructor]. unfold line_fits, expandable_node. cbn [close_line l_node].
           split; [exact Logic.I|congruence].
      * apply orb_false_iff in Ex. destruct Ex as [Hea Hck]. apply negb_false_iff in Hck.
        constructor; [|constructor]. split; [|intros _; exact Hea].
        unfold line_fits, expandable_node. rewrite Hn. cbn [n_children].
        unfold line_check_length, node_check_length in Hck.
        apply check_toks_sound in Hck.
        -- unfold line_str. rewrite Hn, Ht. rewrite !cell_len_app. change (cell_len []) with 0.
           rewrite (cell_len_all_sp _ Hl). unfold node_str. rewrite Ht in Hck. change (cell_len []) with 0 in Hck. lia.
        -- pose proof (cell_len_nonneg (l_text l)). pose proof (cell_len_nonneg (l_suffix l)). unfold zlen. lia.
        -- rewrite tokens_eq. destruct (nonempty k), (nonempty v); discriminate.
Qed.

(* indentation: every line produced below a line indented by ws is indented by ws plus a multiple of
   the indent; stated as: the whitespace of each line is all spaces and extends the parent's *)
Theorem lines_indent W ind ea n : forall l, l_node l = Some n -> all_sp (l_ws l) = true ->
  Forall (fun l' => all_sp (l_ws l') = true /\ exists k : nat, l_ws l' = l_ws l ++ concat (repeat (py_repeat SP ind) k))
         (rr true W ind ea n l).
Proof.
  induction n as [k v o c e la t|k v o c e la t cs IH] using node_ind'; intros l Hn Hl.
  - cbn [rr]. constructor; [|constructor]. split; [exact Hl|]. exists O. cbn. now rewrite app_nil_r.
  - destruct cs as [|c0 cs].
    + cbn [rr]. constructor; [|constructor]. split; [exact Hl|]. exists O. cbn. now rewrite app_nil_r.
    + rewrite rr_cont. destruct (ea || negb (line_check_length l _ W)).
      * constructor; [split; [exact Hl|exists O; cbn; now rewrite app_nil_r]|].
        apply Forall_app. split.
        -- rewrite Forall_forall in IH. apply Forall_forall. intros l' Hin.
           apply in_flat_map in Hin. destruct Hin as (x & Hx & Hin).
           assert (Hc : all_sp (l_ws (child_line ind l (t && single (c0 :: cs)) x)) = true)
             by (cbn [child_line l_ws]; apply all_sp_app; [exact Hl|apply all_sp_repeat]).
           specialize (IH x Hx (child_line ind l (t && single (c0 :: cs)) x) eq_refl Hc).
           rewrite Forall_forall in IH. destruct (IH l' Hin) as [H1 [j Hj]]. split; [exact H1|].
           exists (S j). rewrite Hj. cbn [child_line l_ws repeat concat]. now rewrite <- app_assoc.
        -- constructor; [|constructor]. split; [exact Hl|]. exists O. cbn. now rewrite app_nil_r.
      * constructor; [|constructor]. split; [exact Hl|]. exists O. cbn. now rewrite app_nil_r.
Qed.
