(* C16 proofs, part 1: the line-expansion worklist of Node.render equals a structurally recursive
   printer (and never runs out of fuel). *)
From RichModel Require Import Prelude Wire Cells Pretty SpecPretty.
From RichProofs Require Import CellsP.

(* ---------- induction principle for the nested type node ---------- *)
Section NodeInd.
  Variable P : node -> Prop.
  Hypothesis Hleaf : forall k v o c e l t, P (Node k v o c e l t None).
  Hypothesis Hcont : forall k v o c e l t cs, Forall P cs -> P (Node k v o c e l t (Some cs)).
  Fixpoint node_ind' (n : node) : P n :=
    match n with
    | Node k v o c e l t None => Hleaf k v o c e l t
    | Node k v o c e l t (Some cs) =>
        Hcont k v o c e l t cs
              ((fix go (cs : list node) : Forall P cs :=
                  match cs with
                  | [] => Forall_nil P
                  | x :: r => Forall_cons x (node_ind' x) (go r)
                  end) cs)
    end.
End NodeInd.

(* ---------- the structurally recursive printer ---------- *)
Section Rec.
  Variable keep_suffix : bool.
  Variable max_width indent_size : Z.
  Variable expand_all : bool.

  Fixpoint rr (n : node) (l : line) : list line :=
    match n with
    | Node _ _ _ _ _ _ _ (Some (c0 :: cs)) =>
        if expand_all || negb (line_check_length l n max_width) then
          let t1 := n_tuple n && single (c0 :: cs) in
          open_line l n
            :: (fix go (cs : list node) : list line :=
                  match cs with
                  | [] => []
                  | c :: r => rr c (child_line indent_size l t1 c) ++ go r
                  end) (c0 :: cs)
            ++ [close_line keep_suffix l n t1]
        else [l]
    | _ => [l]
    end.

  Definition rline (l : line) : list line :=
    match l_node l with Some n => rr n l | None => [l] end.

  Definition cost (l : line) : nat :=
    match l_node l with Some n => (2 * node_size n)%nat | None => 1%nat end.
  Definition costs (ls : list line) : nat := fold_right (fun l a => (cost l + a)%nat) 0%nat ls.

  Fixpoint sizes (cs : list node) : nat :=
    match cs with [] => 0%nat | c :: r => (node_size c + sizes r)%nat end.

  Lemma node_size_cont k v o c e l t cs :
    node_size (Node k v o c e l t (Some cs)) = S (sizes cs).
  Proof.
    reflexivity.
  Qed.

  Lemma node_size_pos n : (1 <= node_size n)%nat.
  Proof. destruct n as [k v o c e l t [cs|]]; [rewrite node_size_cont|cbn]; lia. Qed.

  Lemma costs_app a b : costs (a ++ b) = (costs a + costs b)%nat.
  Proof. unfold costs. induction a as [|x a IH]; cbn [app fold_right]; [reflexivity|]. rewrite IH. lia. Qed.

  Lemma costs_children l t1 cs :
    costs (map (child_line indent_size l t1) cs) = (2 * sizes cs)%nat.
  Proof.
    induction cs as [|c r IH]; [reflexivity|].
    unfold costs in *. cbn [map fold_right sizes]. rewrite IH. unfold cost. cbn [child_line l_node]. lia.
  Qed.

  Lemma rr_go_flat_map l t1 cs :
    (fix go (cs : list node) : list line :=
       match cs with
       | [] => []
       | c :: r => rr c (child_line indent_size l t1 c) ++ go r
       end) cs
    = flat_map rline (map (child_line indent_size l t1) cs).
  Proof.
    induction cs as [|c r IH]; [reflexivity|].
    cbn [map flat_map]. rewrite <- IH. reflexivity.
  Qed.

  Lemma rr_go_flat_map' l t1 cs :
    (fix go (cs : list node) : list line :=
       match cs with
       | [] => []
       | c :: r => rr c (child_line indent_size l t1 c) ++ go r
       end) cs
    = flat_map (fun c => rr c (child_line indent_size l t1 c)) cs.
  Proof. induction cs as [|c r IH]; [reflexivity|]. cbn [flat_map]. rewrite <- IH. reflexivity. Qed.

  Lemma rr_cont k v o c e la t c0 cs l :
    rr (Node k v o c e la t (Some (c0 :: cs))) l
    = if expand_all || negb (line_check_length l (Node k v o c e la t (Some (c0 :: cs))) max_width)
      then open_line l (Node k v o c e la t (Some (c0 :: cs)))
             :: flat_map (fun x => rr x (child_line indent_size l (t && single (c0 :: cs)) x)) (c0 :: cs)
             ++ [close_line keep_suffix l (Node k v o c e la t (Some (c0 :: cs))) (t && single (c0 :: cs))]
      else [l].
  Proof. rewrite <- rr_go_flat_map'. reflexivity. Qed.

  Lemma must_expand_some l n cs :
    must_expand max_width expand_all l = Some (n, cs) ->
    l_node l = Some n /\ exists c0 cs', cs = c0 :: cs' /\ n_children n = Some cs /\
    (expand_all || negb (line_check_length l n max_width)) = true.
  Proof.
    unfold must_expand, expandable_node. destruct (l_node l) as [m|]; [|discriminate].
    destruct (n_children m) as [[|c0 cs']|] eqn:E; try discriminate.
    destruct (expand_all || negb (line_check_length l m max_width)) eqn:Ex; [|discriminate].
    intros H; inversion H; subst. split; [reflexivity|]. exists c0, cs'. auto.
  Qed.

  Lemma must_expand_none l :
    must_expand max_width expand_all l = None -> rline l = [l].
  Proof.
    unfold must_expand, expandable_node, rline. destruct (l_node l) as [m|]; [|reflexivity].
    destruct m as [k v o c e la t [[|c0 cs]|]]; cbn [n_children]; try reflexivity.
    destruct (expand_all || negb (line_check_length l _ max_width)) eqn:Ex; [discriminate|].
    intros _. cbn [rr]. rewrite Ex. reflexivity.
  Qed.

  Lemma rline_expand l n c0 cs :
    l_node l = Some n -> n_children n = Some (c0 :: cs) ->
    (expand_all || negb (line_check_length l n max_width)) = true ->
    rline l = open_line l n
                :: flat_map rline (map (child_line indent_size l (n_tuple n && single (c0 :: cs))) (c0 :: cs))
                ++ [close_line keep_suffix l n (n_tuple n && single (c0 :: cs))].
  Proof.
    intros Hn Hc Hx. unfold rline at 1. rewrite Hn.
    destruct n as [k v o c e la t ch]. cbn [n_children] in Hc. subst ch.
    cbn [rr]. rewrite Hx. rewrite rr_go_flat_map. reflexivity.
  Qed.

  (* the while loop of Node.render computes rline of every pending line; fuel = total cost suffices *)
  Theorem render_loop_rec : forall fuel todo done,
    (costs todo <= fuel)%nat ->
    render_loop keep_suffix max_width indent_size expand_all fuel done todo
    = Ok (rev done ++ flat_map rline todo).
  Proof.
    induction fuel as [|f IH]; intros todo done Hc.
    - destruct todo as [|l rest]; [cbn; now rewrite app_nil_r|].
      exfalso. cbn [costs fold_right] in Hc. unfold cost in Hc.
      destruct (l_node l) as [n|]; [pose proof (node_size_pos n)|]; lia.
    - destruct todo as [|l rest]; [cbn; now rewrite app_nil_r|].
      cbn [render_loop]. destruct (must_expand max_width expand_all l) as [[n cs]|] eqn:E.
      + apply must_expand_some in E. destruct E as (Hn & c0 & cs' & -> & Hch & Hx).
        rewrite IH.
        * cbn [rev flat_map]. rewrite (rline_expand l n c0 cs' Hn Hch Hx).
          rewrite flat_map_app. cbn [flat_map]. unfold rline at 3. cbn [close_line l_node].
          rewrite <- !app_assoc. cbn [app]. rewrite <- app_assoc. reflexivity.
        * rewrite costs_app, costs_children. cbn [costs fold_right] in Hc |- *.
          unfold cost at 1 in Hc. rewrite Hn in Hc.
          destruct n as [k v o c e la t ch]. cbn [n_children] in Hch. subst ch.
          rewrite node_size_cont in Hc. unfold cost at 1. cbn [close_line l_node]. unfold costs. lia.
      + rewrite IH.
        * cbn [rev flat_map]. rewrite (must_expand_none l E). rewrite <- app_assoc. reflexivity.
        * cbn [costs fold_right] in Hc. unfold cost at 1 in Hc.
          destruct (l_node l) as [n|]; [pose proof (node_size_pos n)|]; unfold costs; lia.
  Qed.

  Definition root_line (n : node) : line := mkLine true (Some n) [] [] [].

  Theorem render_lines_rec n :
    render_lines keep_suffix n max_width indent_size expand_all = Ok (rr n (root_line n)).
  Proof.
    unfold render_lines. rewrite render_loop_rec.
    - cbn [rev app flat_map]. unfold rline. cbn [root_line l_node]. now rewrite app_nil_r.
    - cbn. lia.
  Qed.
End Rec.
