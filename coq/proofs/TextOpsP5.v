(* C05 proofs, part 5: join, and the composition of the per-operation simulations over histories. *)
From RichModel Require Import Prelude Cells TextOps SpecTextOps.
From RichProofs Require Import TextOpsP TextOpsP2 TextOpsP3 TextOpsP4.
From Coq Require Import ZifyBool Lia.

Arguments zlen : simpl never.
Arguments py_repeat : simpl never.
Arguments strip : simpl never.
Arguments ctl_free : simpl never.
Arguments cell_len : simpl never.
Arguments set_cell_size : simpl never.

Definition piece_chars (x : text) : list rchar := under (base (tmeta x)) (abs_chars (plain x) (spans x)).

Lemma join_go_spec pieces : forall p sps,
  ctl_free p = true -> Within (zlen p) sps -> Forall Consistent pieces ->
  exists p' sps', join_go pieces p sps (zlen p) = Ok (p', sps', zlen p') /\ ctl_free p' = true /\
    Within (zlen p') sps' /\ abs_from 0 p' sps' = abs_from 0 p sps ++ flat_map piece_chars pieces.
Proof.
  induction pieces as [|x pieces IH]; intros p sps Hc Hw Hp; simpl.
  - exists p, sps. repeat split; auto. now rewrite app_nil_r.
  - inversion Hp as [|? ? Hx Hrest]; subst. destruct (cons_parts x Hx) as (X1 & X2 & X3).
    rewrite (pylen_ok x Hx). simpl. rewrite X1. pose proof (zlen_nonneg p). pose proof (zlen_nonneg (plain x)).
    destruct (IH (p ++ plain x) (sps ++ (zlen p, zlen p + zlen (plain x), base (tmeta x)) :: shift_spans (spans x) (zlen p)))
      as (p' & sps' & G1 & G2 & G3 & G4).
    + rewrite ctl_free_app, Hc, X2. reflexivity.
    + rewrite zlen_app. apply within_app. split; [eapply within_mono; [exact Hw|lia]|].
      constructor; [unfold sp_start, sp_end; simpl; lia|].
      rewrite Z.add_comm. apply within_shift; [exact X3|lia].
    + exact Hrest.
    + exists p', sps'. rewrite zlen_app in G1. rewrite G1. repeat split; auto.
      rewrite G4, abs_append; [|exact Hw|].
      * rewrite abs_under_shift, <- app_assoc. reflexivity.
      * constructor; [unfold sp_start; simpl; lia|]. apply (shift_ge _ _ _ X3).
Qed.

Lemma flat_map_abs (l : list text) :
  flat_map (fun x => under (base (rmeta x)) (rchars x)) (map abs l) = flat_map piece_chars l.
Proof. induction l as [|x l IH]; simpl; [reflexivity|]. now rewrite IH. Qed.
Lemma map_intersperse {A B} (f : A -> B) sep l : map f (intersperse sep l) = intersperse (f sep) (map f l).
Proof.
  induction l as [|x l IH]; [reflexivity|]. destruct l as [|y l]; [reflexivity|].
  change (intersperse sep (x :: y :: l)) with (x :: sep :: intersperse sep (y :: l)).
  change (map f (x :: y :: l)) with (f x :: f y :: map f l).
  change (intersperse (f sep) (f x :: f y :: map f l)) with (f x :: f sep :: intersperse (f sep) (f y :: map f l)).
  simpl map at 1. f_equal. f_equal. exact IH.
Qed.
Lemma forall_intersperse {A} (P : A -> Prop) sep l : P sep -> Forall P l -> Forall P (intersperse sep l).
Proof.
  intros Hs. induction l as [|x l IH]; intros H; [constructor|]. inversion H; subst.
  destruct l as [|y l]; [constructor; auto|]. simpl. constructor; [auto|]. constructor; [auto|]. apply IH. auto.
Qed.

Lemma sim_join sep lines : Consistent sep -> Forall Consistent lines ->
  sim (join FIXED sep lines) (Ok (r_join (abs sep) (map abs lines))).
Proof.
  intros Hs Hl. unfold join, r_join. destruct (sim_blank_copy sep) as [_ _].
  unfold blank_copy. rewrite ctor_fixed, strip_nil. simpl plain. simpl spans. simpl tmeta.
  change (rchars (abs sep)) with (abs_from 0 (plain sep) (spans sep)). change (rmeta (abs sep)) with (tmeta sep).
  set (pieces := match plain sep with [] => lines | _ => intersperse sep lines end).
  assert (Forall Consistent pieces) as Hp.
  { unfold pieces. destruct (plain sep); [exact Hl|]. now apply forall_intersperse. }
  assert ((match abs_from 0 (plain sep) (spans sep) with
           | [] => map abs lines | _ => intersperse (abs sep) (map abs lines) end) = map abs pieces) as E.
  { unfold pieces. destruct (plain sep); simpl; [reflexivity|]. now rewrite map_intersperse. }
  rewrite E, flat_map_abs.
  destruct (join_go_spec pieces [] [] eq_refl (Forall_nil _) Hp) as (p' & sps' & G1 & G2 & G3 & G4).
  change (zlen (@nil Z)) with 0 in G1. rewrite G1. simpl. split.
  - unfold abs, abs_chars. simpl. f_equal. exact G4.
  - now apply mk_consistent.
Qed.

Lemma zlen_rchars_abs x : zlen (rchars (abs x)) = zlen (plain x).
Proof. change (rchars (abs x)) with (abs_from 0 (plain x) (spans x)). apply zlen_abs_from. Qed.

(* ---------- one step of a history ---------- *)
(* operations whose simulation lemma is proved; the four remaining ones all go through Text.divide *)
Definition proved_op (o : op) : bool :=
  match o with
  | OSplit _ _ _ _ | ODivide _ _ | OSlice _ _ | OExpandTabs _ => false
  | _ => true
  end.

Lemma arg_consistent a : arg_ok a = true -> Consistent (arg_text FIXED a).
Proof. intros H. exact H. Qed.
Lemma args_consistent l : forallb arg_ok l = true -> Forall Consistent (map (arg_text FIXED) l).
Proof.
  intros H. rewrite Forall_map. rewrite forallb_forall in H. apply Forall_forall. intros a Ha.
  apply arg_consistent. auto.
Qed.

Ltac pair_to_sim L := let A := fresh in let B := fresh in destruct L as [A B]; simpl; split; [exact A|exact B].

Lemma sim_op o t : proved_op o = true -> Consistent t -> op_ok o (abs t) = true ->
  sim (apply FIXED o t) (r_apply o (abs t)).
Proof.
  intros Hp H Hok. destruct o; simpl in Hp; try discriminate; simpl apply; simpl r_apply.
  - apply sim_append_str; auto.
  - apply sim_append_text_obj; auto.
  - apply sim_append_text; auto.
  - apply sim_append_tokens; auto.
  - (* assemble *)
    simpl in Hok.
    replace (RText (abs t) :: map r_part_of parts) with (map rp (PText t :: map (part_of FIXED) parts)).
    + apply sim_assemble. constructor; [exact H|]. rewrite Forall_map. rewrite forallb_forall in Hok.
      apply Forall_forall. intros p Hin. specialize (Hok p Hin). destruct p; simpl; auto.
    + simpl. f_equal. rewrite map_map. apply map_ext. intros p. destruct p; reflexivity.
  - (* join, the text as one of the lines *)
    simpl in Hok. apply andb_prop in Hok. destruct Hok as [Hok Ha]. apply andb_prop in Hok. destruct Hok as [Hs Hb].
    replace (map r_arg before ++ abs t :: map r_arg after)
      with (map abs (map (arg_text FIXED) before ++ t :: map (arg_text FIXED) after)).
    + apply sim_join; [now apply arg_consistent|]. apply Forall_app. split; [now apply args_consistent|].
      constructor; [exact H|now apply args_consistent].
    + rewrite map_app. simpl. now rewrite !map_map.
  - (* join, the text as the separator *)
    simpl in Hok. replace (map r_arg lines) with (map abs (map (arg_text FIXED) lines)) by now rewrite map_map.
    apply sim_join; [exact H|now apply args_consistent].
  - apply sim_index; auto.
  - pair_to_sim (sim_pad t n c H Hok).
  - pair_to_sim (sim_pad_left t n c H Hok).
  - pair_to_sim (sim_pad_right t n c H Hok).
  - pair_to_sim (sim_align t how w c H Hok).
  - pair_to_sim (sim_truncate t w ov padb H).
  - pair_to_sim (sim_right_crop t n H).
  - apply sim_set_length; auto.
  - pair_to_sim (sim_rstrip t H).
  - apply sim_rstrip_end; auto.
  - pair_to_sim (sim_copy t H).
  - pair_to_sim (sim_blank_copy t).
  - pair_to_sim (sim_set_plain t s H).
  - pair_to_sim (sim_remove_suffix t s H).
  - apply sim_stylize; auto.
  - pair_to_sim (sim_highlight_words t ws st H).
  - pair_to_sim (sim_highlight_runs t set st H).
  - cbn [op_ok] in Hok. apply andb_prop in Hok. destruct Hok as [Ha Hl].
    assert (zlen (plain (arg_text FIXED o)) = zlen (plain t)) as Hz.
    { unfold r_arg in Hl. rewrite !zlen_rchars_abs in Hl. lia. }
    pair_to_sim (sim_copy_styles t (arg_text FIXED o) H (arg_consistent o Ha) Hz).
  - apply sim_highlighter; auto.
Qed.

Lemma step_sim o t : proved_op o = true -> Consistent t -> op_ok o (abs t) = true ->
  abs (step FIXED t o) = r_step (abs t) o /\ Consistent (step FIXED t o).
Proof.
  intros Hp H Hok. pose proof (sim_op o t Hp H Hok) as S. unfold step, r_step.
  destruct (apply FIXED o t) as [t'|e|k]; destruct (r_apply o (abs t)) as [r'|e'|k']; simpl in S;
    try contradiction; auto.
Qed.

Theorem ops_refine_proved : forall ops t,
  Consistent t -> forallb proved_op ops = true -> in_domain ops (abs t) = true ->
  abs (run FIXED ops t) = run_ref ops (abs t) /\ Consistent (run FIXED ops t).
Proof.
  induction ops as [|o ops IH]; intros t H Hp Hd; [split; [reflexivity|exact H]|].
  simpl in Hp, Hd. apply andb_prop in Hp. destruct Hp as [Hp1 Hp2]. apply andb_prop in Hd. destruct Hd as [Hd1 Hd2].
  destruct (step_sim o t Hp1 H Hd1) as [S1 S2].
  unfold run, run_ref. simpl fold_left. rewrite <- S1. apply IH; auto. rewrite S1. exact Hd2.
Qed.

(* what the invariant buys: the cached length is the length of the string, on every state reached *)
Corollary refines_run ops t :
  Consistent t -> forallb proved_op ops = true -> in_domain ops (abs t) = true ->
  plain (run FIXED ops t) = rplain (rchars (run_ref ops (abs t))) /\
  len (run FIXED ops t) = zlen (rchars (run_ref ops (abs t))).
Proof.
  intros H Hp Hd. destruct (ops_refine_proved ops t H Hp Hd) as [A C]. rewrite <- A.
  change (rchars (abs (run FIXED ops t))) with (abs_from 0 (plain (run FIXED ops t)) (spans (run FIXED ops t))).
  rewrite rplain_abs_from, zlen_abs_from. split; [reflexivity|]. now destruct (cons_parts _ C).
Qed.
