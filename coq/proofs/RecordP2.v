(* C15 proofs, part 2: export_html text, the record invariant over histories, capture, clear. *)
From RichModel Require Import Prelude Cells Segments Wire Record SpecRecord.
From RichGen Require Import RecordFacts.
From RichProofs Require Import RecordP.
From Coq Require Import ZifyBool.

Arguments split_and_crop_lines : simpl never.
Arguments cell_len : simpl never.
Arguments html_escape : simpl never.
Arguments attr_escape : simpl never.
Arguments print_Z : simpl never.
Arguments export_html : simpl never.

(* tag skeletons: what the stripper does with the literal pieces *)
Lemma L_a_open Y : strip_go HText (lit "<a href=""" ++ Y) = strip_go HQuote Y.
Proof. reflexivity. Qed.
Lemma L_a_close Y : strip_go HText (lit "</a>" ++ Y) = strip_go HText Y.
Proof. reflexivity. Qed.
Lemma L_span_style Y : strip_go HText (lit "<span style=""" ++ Y) = strip_go HQuote Y.
Proof. reflexivity. Qed.
Lemma L_span_class Y : strip_go HText (lit "<span class=""r" ++ Y) = strip_go HQuote Y.
Proof. reflexivity. Qed.
Lemma L_span_close Y : strip_go HText (lit "</span>" ++ Y) = strip_go HText Y.
Proof. reflexivity. Qed.
Lemma L_qgt Y : lit """>" ++ Y = 34 :: 62 :: Y.
Proof. reflexivity. Qed.

Lemma unescape_concat_escape (l : list str) :
  unescape (concat (map html_escape l)) = concat l.
Proof.
  induction l as [|t l IH]; [reflexivity|]. cbn [map concat]. rewrite unescape_escape, IH. reflexivity.
Qed.

Lemma strip_nil t e : (forall X, strip_go HText (t ++ X) = e ++ strip_go HText X) -> strip_go HText t = e.
Proof. intros H. rewrite <- (app_nil_r t), H. apply app_nil_r. Qed.

Section Styles.
Variable truthy : Z -> bool.
Variable esc : Z -> bool -> Z -> str -> str.
Variable html_rule : Z -> str.
Variable html_link : Z -> option str.

Notation render_seg := (render_seg truthy esc).
Notation render_buffer := (render_buffer truthy esc).
Notation check_buffer := (check_buffer truthy esc).
Notation export_styled := (export_styled truthy esc).
Notation styled_seg := (styled_seg truthy esc).
Notation step := (step truthy esc html_rule html_link).
Notation run := (run truthy esc html_rule html_link).
Notation html_seg_inline := (html_seg_inline truthy html_rule html_link).
Notation html_code_inline := (html_code_inline truthy html_rule html_link).
Notation html_seg_class := (html_seg_class truthy html_rule html_link).
Notation html_code_class := (html_code_class truthy html_rule html_link).
Notation html_code := (html_code truthy html_rule html_link).
Notation wrap_link := (wrap_link html_link).

(* ================================================================== export_html *)
Section Html.
Hypothesis rule_no_quote : forall s, no_quote (html_rule s).

Lemma strip_wrap_link s t e X :
  (forall Y, strip_go HText (t ++ Y) = e ++ strip_go HText Y) ->
  strip_go HText (wrap_link true s t ++ X) = e ++ strip_go HText X.
Proof.
  intros H. unfold wrap_link. destruct (html_link s) as [l|]; [|apply H].
  unfold href_text. rewrite <- !app_assoc. rewrite L_a_open, L_qgt.
  rewrite (strip_quote_close _ _ (attr_escape_no_quote l)). rewrite H, L_a_close. reflexivity.
Qed.

Lemma strip_seg_inline g X :
  strip_go HText (html_seg_inline true g ++ X) = html_escape (txt g) ++ strip_go HText X.
Proof.
  unfold html_seg_inline. destruct (sty g) as [s|]; [|apply strip_text_escape].
  destruct (truthy s); [|apply strip_text_escape].
  apply strip_wrap_link. intros Y. destruct (is_nil (html_rule s)); [apply strip_text_escape|].
  rewrite <- !app_assoc. rewrite L_span_style, L_qgt.
  rewrite (strip_quote_close _ _ (rule_no_quote s)). rewrite strip_text_escape, L_span_close. reflexivity.
Qed.

Lemma strip_seg_class styles g X :
  strip_go HText (fst (html_seg_class true styles g) ++ X) = html_escape (txt g) ++ strip_go HText X.
Proof.
  unfold html_seg_class. destruct (sty g) as [s|]; [|apply strip_text_escape].
  destruct (truthy s); [|apply strip_text_escape].
  destruct (is_nil (html_rule s)).
  - cbn [fst]. apply strip_wrap_link. intros Y. apply strip_text_escape.
  - destruct (class_of styles (html_rule s)) as [n st']. cbn [fst]. apply strip_wrap_link. intros Y.
    rewrite <- !app_assoc. rewrite L_span_class, L_qgt.
    rewrite (strip_quote_close _ _ (print_Z_no_quote n)). rewrite strip_text_escape, L_span_close. reflexivity.
Qed.

Lemma strip_code_inline segs : forall X,
  strip_go HText (html_code_inline true segs ++ X)
  = concat (map (fun g => html_escape (txt g)) segs) ++ strip_go HText X.
Proof.
  unfold html_code_inline. induction segs as [|g segs IH]; intros X; [reflexivity|].
  cbn [map concat]. rewrite <- !app_assoc, strip_seg_inline, IH. reflexivity.
Qed.

Lemma strip_code_class segs : forall styles X,
  strip_go HText (fst (html_code_class true styles segs) ++ X)
  = concat (map (fun g => html_escape (txt g)) segs) ++ strip_go HText X.
Proof.
  induction segs as [|g segs IH]; intros styles X; [reflexivity|].
  cbn [html_code_class]. destruct (html_seg_class true styles g) as [t st'] eqn:E1.
  destruct (html_code_class true st' segs) as [t' st''] eqn:E2. cbn [fst map concat].
  rewrite <- !app_assoc.
  replace t with (fst (html_seg_class true styles g)) by (rewrite E1; reflexivity).
  rewrite strip_seg_class.
  replace t' with (fst (html_code_class true st' segs)) by (rewrite E2; reflexivity).
  rewrite IH. reflexivity.
Qed.

(* the text of the HTML code (tags stripped, entities decoded) is the exported text: any record, any
   text (including < > & and quotes), any link *)
Theorem export_html_text_fixed inline (r : list sg) :
  html_text (html_code true true inline r) = export_plain r.
Proof.
  assert (Hs : strip_go HText (html_code true true inline r)
               = concat (map html_escape (map (@txt Z) (filter_control (simplify true r))))).
  { rewrite map_map. unfold Record.html_code, html_parts. destruct inline.
    - cbn [fst]. apply strip_nil. intros X. apply strip_code_inline.
    - destruct (html_code_class true [] (filter_control (simplify true r))) as [code styles] eqn:E. cbn [fst].
      replace code with (fst (html_code_class true [] (filter_control (simplify true r)))) by (rewrite E; reflexivity).
      apply strip_nil. intros X. apply strip_code_class. }
  unfold html_text, strip_tags. rewrite Hs, unescape_concat_escape.
  change (plain_of (simplify true r) = plain_of r). apply simplify_plain.
Qed.
End Html.

(* ================================================================== the record invariant *)
Lemma export_plain_app a b : export_plain (a ++ b) = export_plain a ++ export_plain b.
Proof. unfold export_plain, filter_control. rewrite filter_app, map_app, concat_app. reflexivity. Qed.

Lemma render_buffer_app c a b : render_buffer c (a ++ b) = render_buffer c a ++ render_buffer c b.
Proof. unfold Record.render_buffer. rewrite map_app, concat_app. reflexivity. Qed.

(* every call other than capture/export: append the call's segments, then _check_buffer *)
Definition is_output (o : op) : bool := negb (is_capture_op o) && negb (is_export o).

Lemma step_output kc he c s o : is_output o = true ->
  step kc he c s o =
  match op_out c o with
  | None => (s, mkEv [] None)
  | Some segs => let '(s', w) := check_buffer c (mkSt (buf s ++ segs) (bidx s) (rec_ s)) in (s', mkEv w None)
  end.
Proof. destruct o; cbn; intros H; try discriminate; reflexivity. Qed.

Lemma op_out_not_output c o : is_output o = false -> op_out c o = None.
Proof. destruct o; cbn; intros H; try discriminate; reflexivity. Qed.

Section Visible.
(* the hypothesis on the abstract ANSI wrapper: it is transparent to the scanner -- whatever a text
   shows when the scanner starts and ends at rest, the wrapped text shows the same and also ends at
   rest (plain text shows itself; a complete control string shows nothing) *)
Hypothesis esc_transparent : forall cs lw s t o,
  vrun VGround t = (VGround, o) -> vrun VGround (esc cs lw s t) = (VGround, o).

Lemma vrun_wf_txt g : wf_seg_b g = true -> vrun VGround (txt g) = (VGround, if ctl g then [] else txt g).
Proof.
  unfold wf_seg_b. destruct (ctl g); intros H; [apply vrun_invisible|apply vrun_plain]; exact H.
Qed.

Lemma vrun_render_seg c g : wf_seg_b g = true ->
  vrun VGround (render_seg c g) = (VGround, if ctl g then [] else txt g).
Proof.
  intros H. pose proof (vrun_wf_txt g H) as Ht. unfold Record.render_seg.
  destruct (render_control_test_first && negb (term c) && ctl g) eqn:E0.
  - apply andb_true_iff in E0. destruct E0 as [_ Ec]. rewrite Ec. reflexivity.
  - assert (Hp : vrun VGround (if negb (term c) && ctl g then [] else txt g)
                 = (VGround, if ctl g then [] else txt g)).
    { destruct (negb (term c) && ctl g) eqn:E; [|exact Ht].
      apply andb_true_iff in E. destruct E as [_ Ec]. rewrite Ec. reflexivity. }
    destruct (sty g) as [s|]; [|exact Hp].
    destruct (truthy s); [apply esc_transparent; exact Ht|exact Hp].
Qed.

Lemma vrun_render_buffer c b : forallb wf_seg_b b = true ->
  vrun VGround (render_buffer c b) = (VGround, export_plain b).
Proof.
  induction b as [|g b IH]; [reflexivity|]. cbn [forallb]. intros H.
  apply andb_true_iff in H. destruct H as [Hg Hb].
  change (render_buffer c (g :: b)) with (render_seg c g ++ render_buffer c b).
  change (export_plain (g :: b)) with (plain_of (g :: b)). rewrite plain_of_cons.
  exact (vrun_ground_app _ _ _ _ _ (vrun_render_seg c g Hg) (IH Hb)).
Qed.

Lemma vrun_styled_seg g : wf_seg_b g = true ->
  vrun VGround (styled_seg g) = (VGround, if ctl g then [] else txt g).
Proof.
  intros H. pose proof (vrun_wf_txt g H) as Ht. unfold Record.styled_seg.
  destruct (sty g) as [s|]; [|exact Ht].
  destruct (truthy s); [apply esc_transparent; exact Ht|exact Ht].
Qed.

Lemma vrun_export_styled r : forallb wf_seg_b r = true ->
  vrun VGround (export_styled r) = (VGround, export_plain r).
Proof.
  induction r as [|g r IH]; [reflexivity|]. cbn [forallb]. intros H.
  apply andb_true_iff in H. destruct H as [Hg Hr].
  change (export_styled (g :: r)) with (styled_seg g ++ export_styled r).
  change (export_plain (g :: r)) with (plain_of (g :: r)). rewrite plain_of_cons.
  exact (vrun_ground_app _ _ _ _ _ (vrun_styled_seg g Hg) (IH Hr)).
Qed.

(* acc = everything rendered since the record was last emptied *)
Definition Inv (acc : str) (s : st) : Prop :=
  vrun VGround acc = (VGround, export_plain (rec_ s)) /\
  forallb wf_seg_b (buf s) = true /\ forallb wf_seg_b (rec_ s) = true.

Definition acc_next (acc : str) (o : op) (e : event) : str :=
  if is_clearing o then []
  else acc ++ written e ++ (match o with EndCapture => ret_or_nil e | _ => [] end).

Lemma check_inv c acc b i r :
  vrun VGround acc = (VGround, export_plain r) -> forallb wf_seg_b b = true -> forallb wf_seg_b r = true ->
  let '(s', w) := check_buffer c (mkSt b i r) in
  forallb wf_seg_b (buf s') = true /\ forallb wf_seg_b (rec_ s') = true /\
  ((i =? 0) = true -> vrun VGround (acc ++ w) = (VGround, export_plain (rec_ s'))) /\
  ((i =? 0) = false -> w = [] /\ s' = mkSt b i r).
Proof.
  intros Ha Hb Hr. unfold Record.check_buffer. cbn [bidx buf rec_].
  destruct (i =? 0) eqn:E.
  - cbn [buf rec_]. split; [reflexivity|]. split; [rewrite forallb_app, Hr, Hb; reflexivity|].
    split; [|discriminate]. intros _. rewrite export_plain_app.
    exact (vrun_ground_app _ _ _ _ _ Ha (vrun_render_buffer c b Hb)).
  - cbn [buf rec_]. repeat split; try assumption. discriminate.
Qed.

Lemma step_inv kc he c s o acc :
  Inv acc s -> wf_op_b c o = true ->
  let '(s1, e) := step kc he c s o in Inv (acc_next acc o e) s1.
Proof.
  intros (Ha & Hb & Hr) Hwf. destruct (is_output o) eqn:Eo.
  - rewrite (step_output kc he c s o Eo). unfold wf_op_b in Hwf.
    assert (Hc : is_clearing o = false) by (destruct o; try reflexivity; discriminate).
    assert (Hn : forall e, acc_next acc o e = acc ++ written e).
    { intros e. unfold acc_next. rewrite Hc. destruct o; try discriminate; rewrite ?app_nil_r; reflexivity. }
    destruct (op_out c o) as [segs|].
    + assert (Hbs : forallb wf_seg_b (buf s ++ segs) = true) by (rewrite forallb_app, Hb, Hwf; reflexivity).
      pose proof (check_inv c acc (buf s ++ segs) (bidx s) (rec_ s) Ha Hbs Hr) as P.
      destruct (check_buffer c (mkSt (buf s ++ segs) (bidx s) (rec_ s))) as [s' w].
      destruct P as (P1 & P2 & P3 & P4). rewrite Hn. cbn [written].
      destruct (bidx s =? 0) eqn:E.
      * split; [apply P3; reflexivity|]. split; assumption.
      * destruct (P4 eq_refl) as [-> ->]. rewrite app_nil_r. cbn [buf rec_]. repeat split; assumption.
    + rewrite Hn. cbn [written]. rewrite app_nil_r. repeat split; assumption.
  - destruct o; try discriminate; cbn [Record.step].
    + (* BeginCapture *) unfold acc_next; cbn. rewrite app_nil_r. repeat split; assumption.
    + (* EndCapture *)
      assert (Hrb : forallb wf_seg_b (rec_ s ++ buf s) = true) by (rewrite forallb_app, Hr, Hb; reflexivity).
      assert (Ha' : vrun VGround (acc ++ render_buffer c (buf s)) = (VGround, export_plain (rec_ s ++ buf s))).
      { rewrite export_plain_app. exact (vrun_ground_app _ _ _ _ _ Ha (vrun_render_buffer c (buf s) Hb)). }
      unfold Record.check_buffer. cbn [bidx buf rec_].
      destruct (bidx s - 1 =? 0); unfold acc_next; cbn [is_clearing written ret ret_or_nil buf rec_ app];
        rewrite ?app_nil_r; repeat split; try assumption; reflexivity.
    + (* ExportText *)
      unfold acc_next. cbn [is_clearing written ret]. destruct clear; cbn [rec_ buf].
      * repeat split; try assumption; reflexivity.
      * rewrite !app_nil_r. repeat split; assumption.
    + (* ExportHtml *)
      unfold acc_next. cbn [is_clearing written ret]. destruct clear; cbn [rec_ buf].
      * repeat split; try assumption; reflexivity.
      * rewrite !app_nil_r. repeat split; assumption.
Qed.

Lemma rsc_step acc o h e es :
  rendered_since_clear acc (o :: h) (e :: es) = rendered_since_clear (acc_next acc o e) h es.
Proof. reflexivity. Qed.

Lemma run_inv kc he c : forall h s acc,
  Inv acc s -> wf_hist_b c h = true ->
  let '(s', es) := run kc he c s h in Inv (rendered_since_clear acc h es) s'.
Proof.
  induction h as [|o h IH]; intros s acc HI Hwf; [exact HI|].
  cbn [Record.run]. cbn [wf_hist_b forallb] in Hwf. apply andb_true_iff in Hwf. destruct Hwf as [Ho Hh].
  pose proof (step_inv kc he c s o acc HI Ho) as P.
  destruct (step kc he c s o) as [s1 e].
  pose proof (IH s1 (acc_next acc o e) P Hh) as Q.
  destruct (run kc he c s1 h) as [s2 es]. rewrite rsc_step. exact Q.
Qed.

Lemma Inv0 : Inv [] st0.
Proof. repeat split. Qed.

(* after ANY well-formed history: the text export, the HTML export's text and the styled export's
   visible text all equal the visible text of what was rendered since the record was last emptied *)
Theorem record_is_visible_of_rendered kc he c h :
  wf_hist_b c h = true ->
  let '(s, es) := run kc he c st0 h in
  visible (rendered_since_clear [] h es) = export_plain (rec_ s) /\
  visible (export_styled (rec_ s)) = export_plain (rec_ s).
Proof.
  intros Hwf. pose proof (run_inv kc he c h st0 [] Inv0 Hwf) as P.
  destruct (run kc he c st0 h) as [s es]. destruct P as (P1 & _ & P3). split.
  - exact (visible_vrun _ _ P1).
  - exact (visible_vrun _ _ (vrun_export_styled _ P3)).
Qed.
End Visible.

(* ================================================================== capture *)
Lemma step_shape kc he c s o :
  let '(s1, e) := step kc he c s o in
  bidx s1 = (match o with BeginCapture => bidx s + 1 | EndCapture => bidx s - 1 | _ => bidx s end) /\
  ((0 <? bidx s) || is_capture_op o || is_export o = true -> written e = []) /\
  buf s1 = (match o with
            | EndCapture => []
            | _ => if is_output o then
                     match op_out c o with
                     | Some segs => if bidx s =? 0 then [] else buf s ++ segs
                     | None => buf s
                     end
                   else buf s
            end) /\
  (is_output o = true -> bidx s = 0 ->
     written e = match op_out c o with Some segs => render_buffer c (buf s ++ segs) | None => [] end).
Proof.
  destruct (is_output o) eqn:Eo.
  - rewrite (step_output kc he c s o Eo).
    assert (Hm : (match o with BeginCapture => bidx s + 1 | EndCapture => bidx s - 1 | _ => bidx s end) = bidx s)
      by (destruct o; try reflexivity; discriminate).
    assert (Hf : is_capture_op o || is_export o = false) by (destruct o; try reflexivity; discriminate).
    assert (He : o <> EndCapture) by (intros ->; discriminate).
    rewrite Hm. destruct (op_out c o) as [segs|].
    + unfold Record.check_buffer. cbn [bidx buf rec_]. destruct (bidx s =? 0) eqn:E; cbn [bidx buf written].
      * split; [reflexivity|]. split.
        { intros H. rewrite <- orb_assoc, Hf, orb_false_r in H. lia. }
        split; [destruct o; try reflexivity; congruence|]. intros _ _. reflexivity.
      * split; [reflexivity|]. split; [reflexivity|].
        split; [destruct o; try reflexivity; congruence|]. intros _ H0. lia.
    + cbn [written]. split; [reflexivity|]. split; [reflexivity|].
      split; [destruct o; try reflexivity; congruence|]. reflexivity.
  - destruct o; try discriminate; cbn [Record.step].
    + cbn. repeat split; try reflexivity; discriminate.
    + unfold Record.check_buffer. cbn [bidx buf rec_].
      destruct (bidx s - 1 =? 0); cbn; repeat split; try reflexivity; discriminate.
    + cbn. repeat split; try reflexivity; discriminate.
    + cbn. repeat split; try reflexivity; discriminate.
Qed.

Theorem capture_silent_run kc he c : forall h s,
  let '(_, es) := run kc he c s h in capture_silent_from (bidx s) h es = true.
Proof.
  induction h as [|o h IH]; intros s; [reflexivity|]. cbn [Record.run].
  pose proof (step_shape kc he c s o) as P. destruct (step kc he c s o) as [s1 e].
  destruct P as (P1 & P2 & _). pose proof (IH s1) as Q. destruct (run kc he c s1 h) as [s2 es].
  cbn [capture_silent_from]. rewrite <- P1, Q, andb_true_r.
  destruct ((0 <? bidx s) || is_capture_op o || is_export o) eqn:E; [|reflexivity].
  rewrite (P2 eq_refl). reflexivity.
Qed.

Definition nocap (h : list op) : bool := forallb (fun o => negb (is_capture_op o)) h.
Definition outs (c : cfg) (h : list op) : list sg :=
  concat (map (fun o => match op_out c o with Some l => l | None => [] end) h).

Lemma run_app kc he c : forall a s b,
  run kc he c s (a ++ b) =
  let '(s1, e1) := run kc he c s a in let '(s2, e2) := run kc he c s1 b in (s2, e1 ++ e2).
Proof.
  induction a as [|o a IH]; intros s b; cbn [app Record.run].
  - destruct (run kc he c s b); reflexivity.
  - destruct (step kc he c s o) as [s1 e]. rewrite IH. destruct (run kc he c s1 a) as [s2 e2].
    destruct (run kc he c s2 b) as [s3 e3]. reflexivity.
Qed.

Lemma nocap_out c o : negb (is_capture_op o) = true ->
  (if is_output o then match op_out c o with Some l => l | None => [] end else []) =
  match op_out c o with Some l => l | None => [] end.
Proof. intros H. destruct (is_output o) eqn:E; [reflexivity|]. rewrite (op_out_not_output c o E). reflexivity. Qed.

Lemma run_buffered kc he c : forall blk s,
  0 < bidx s -> nocap blk = true ->
  let '(s', es) := run kc he c s blk in
  buf s' = buf s ++ outs c blk /\ bidx s' = bidx s /\ file_of es = [].
Proof.
  induction blk as [|o blk IH]; intros s Hd Hn; cbn [Record.run].
  - unfold outs. cbn. rewrite app_nil_r. repeat split.
  - cbn [nocap forallb] in Hn. apply andb_true_iff in Hn. destruct Hn as [Ho Hn].
    pose proof (step_shape kc he c s o) as P. destruct (step kc he c s o) as [s1 e].
    destruct P as (P1 & P2 & P3 & _).
    assert (B1 : bidx s1 = bidx s) by (rewrite P1; destruct o; try reflexivity; discriminate).
    assert (Hw : written e = []) by (apply P2; replace (0 <? bidx s) with true by lia; reflexivity).
    assert (Hb : buf s1 = buf s ++ match op_out c o with Some l => l | None => [] end).
    { rewrite P3. replace (bidx s =? 0) with false by lia.
      destruct o; try discriminate; cbn [is_output is_capture_op is_export negb andb];
        try (destruct (op_out c _); [reflexivity|rewrite app_nil_r; reflexivity]);
        cbn [op_out]; rewrite app_nil_r; reflexivity. }
    assert (Hd1 : 0 < bidx s1) by lia.
    pose proof (IH s1 Hd1 Hn) as Q. destruct (run kc he c s1 blk) as [s2 es].
    destruct Q as (Q1 & Q2 & Q3). unfold outs in *. cbn [map concat].
    rewrite Q1, Hb, <- app_assoc. unfold file_of in *. cbn [map concat]. rewrite Hw, Q3. repeat split. lia.
Qed.

Lemma run_flushed kc he c : forall blk s,
  bidx s = 0 -> buf s = [] -> nocap blk = true ->
  let '(s', es) := run kc he c s blk in
  buf s' = [] /\ bidx s' = 0 /\ file_of es = render_buffer c (outs c blk).
Proof.
  induction blk as [|o blk IH]; intros s Hd Hb Hn; cbn [Record.run].
  - repeat split; assumption.
  - cbn [nocap forallb] in Hn. apply andb_true_iff in Hn. destruct Hn as [Ho Hn].
    pose proof (step_shape kc he c s o) as P. destruct (step kc he c s o) as [s1 e].
    destruct P as (P1 & P2 & P3 & P4).
    assert (B1 : bidx s1 = 0) by (rewrite P1; destruct o; try lia; discriminate).
    assert (Hb1 : buf s1 = []).
    { rewrite P3, Hd, Hb. destruct o; try discriminate; cbn [is_output is_capture_op is_export negb andb];
        try reflexivity; destruct (op_out c _); reflexivity. }
    assert (Hw : written e = render_buffer c (match op_out c o with Some l => l | None => [] end)).
    { destruct (is_output o) eqn:Eo.
      - rewrite (P4 eq_refl Hd), Hb. destruct (op_out c o); reflexivity.
      - rewrite (op_out_not_output c o Eo). apply P2. destruct o; try discriminate; cbn; apply orb_true_r. }
    pose proof (IH s1 B1 Hb1 Hn) as Q. destruct (run kc he c s1 blk) as [s2 es].
    destruct Q as (Q1 & Q2 & Q3). unfold outs in *. cbn [map concat]. unfold file_of in *. cbn [map concat].
    rewrite render_buffer_app, Hw, Q3. repeat split; assumption.
Qed.

(* a capture block opened at the top level returns exactly what its calls write without the capture,
   and writes nothing *)
Theorem capture_block kc he c s blk :
  bidx s = 0 -> buf s = [] -> nocap blk = true ->
  let '(_, es_c) := run kc he c s (BeginCapture :: blk ++ [EndCapture]) in
  let '(_, es_p) := run kc he c s blk in
  capture_ok_b (ret_or_nil (last es_c (mkEv [] None))) (file_of es_p) (file_of es_c) = true.
Proof.
  intros Hd Hb Hn. cbn [Record.run Record.step]. rewrite run_app.
  set (sb := mkSt (buf s) (bidx s + 1) (rec_ s)).
  assert (Hd1 : 0 < bidx sb) by (cbn; lia).
  pose proof (run_buffered kc he c blk sb Hd1 Hn) as P.
  destruct (run kc he c sb blk) as [s1 es1]. destruct P as (P1 & P2 & P3).
  pose proof (run_flushed kc he c blk s Hd Hb Hn) as Q.
  destruct (run kc he c s blk) as [s2 es2]. destruct Q as (_ & _ & Q3).
  cbn [Record.run Record.step]. unfold Record.check_buffer. cbn [bidx buf rec_].
  assert (Hl : forall e, last (mkEv [] None :: es1 ++ [e]) (mkEv [] None) = e).
  { intros e. rewrite app_comm_cons. apply last_last. }
  assert (Hf : forall e, file_of (mkEv [] None :: es1 ++ [e]) = written e).
  { intros e. unfold file_of in *. cbn [map concat written app]. rewrite map_app, concat_app, P3. cbn. apply app_nil_r. }
  destruct (bidx s1 - 1 =? 0); rewrite Hl, Hf; cbn [written ret ret_or_nil];
    unfold capture_ok_b; rewrite Q3, P1; subst sb; cbn [buf]; rewrite Hb; cbn [app];
    rewrite str_eqb_refl; reflexivity.
Qed.

(* balanced histories end at depth 0 with an empty buffer *)
Lemma balanced_run kc he c : forall h d s,
  balanced_from d h = true -> bidx s = d -> 0 <= d -> (d = 0 -> buf s = []) ->
  let '(s', _) := run kc he c s h in bidx s' = 0 /\ buf s' = [].
Proof.
  induction h as [|o h IH]; intros d s Hbal Hd Hpos Hbuf; cbn [Record.run].
  - cbn in Hbal. apply Z.eqb_eq in Hbal. split; [lia|apply Hbuf; exact Hbal].
  - pose proof (step_shape kc he c s o) as P. destruct (step kc he c s o) as [s1 e].
    destruct P as (P1 & _ & P3 & _).
    assert (G : exists d1, balanced_from d1 h = true /\ bidx s1 = d1 /\ 0 <= d1 /\ (d1 = 0 -> buf s1 = [])).
    { destruct o; cbn [balanced_from] in Hbal;
        try (exists d; split; [exact Hbal|]; split; [lia|]; split; [exact Hpos|];
             intros H0; rewrite P3; cbn [is_output is_capture_op is_export negb andb];
             try (destruct (op_out c _); [replace (bidx s =? 0) with true by lia; reflexivity|apply Hbuf; exact H0]);
             apply Hbuf; exact H0).
      - exists (d + 1). split; [exact Hbal|]. split; [lia|]. split; [lia|]. intros; lia.
      - apply andb_true_iff in Hbal. destruct Hbal as [H1 H2]. exists (d - 1). split; [exact H2|].
        split; [lia|]. split; [lia|]. intros _. exact P3. }
    destruct G as (d1 & G1 & G2 & G3 & G4).
    pose proof (IH d1 s1 G1 G2 G3 G4) as Q. destruct (run kc he c s1 h) as [s2 es]. exact Q.
Qed.

(* ================================================================== clear flag *)
Lemma segs_eqb_refl (l : list sg) : segs_eqb l l = true.
Proof.
  induction l as [|g l IH]; [reflexivity|]. cbn [segs_eqb]. unfold seg_eqb.
  rewrite str_eqb_refl, RecordP.opt_eqb_refl, Bool.eqb_reflx, IH. reflexivity.
Qed.

Theorem clear_flag_step kc he c s o clear :
  (exists x, o = ExportText clear x) \/ (exists x, o = ExportHtml clear x) ->
  let '(s1, e) := step kc he c s o in
  clear_ok_b clear (rec_ s) (rec_ s1) = true /\ buf s1 = buf s /\ bidx s1 = bidx s /\ written e = [].
Proof.
  intros [[x ->]|[x ->]]; cbn [Record.step rec_ buf bidx written]; unfold clear_ok_b;
    destruct clear; repeat split; try reflexivity; apply segs_eqb_refl.
Qed.

End Styles.
