(* C15 proofs, part 1: the terminal-text scanner, HTML stripping/decoding, simplify. *)
From RichModel Require Import Prelude Cells Segments Wire Record SpecRecord.
From RichGen Require Import RecordFacts.
From Coq Require Import ZifyBool.

Arguments split_and_crop_lines : simpl never.
Arguments cell_len : simpl never.

(* ------------------------------------------------------------------ generic *)
Lemma str_eqb_refl s : str_eqb s s = true.
Proof. induction s as [|c s IH]; cbn; [reflexivity|]. rewrite Z.eqb_refl. exact IH. Qed.

Lemma str_eqb_eq a : forall b, str_eqb a b = true -> a = b.
Proof.
  induction a as [|x a IH]; intros [|y b] H; cbn in H; try discriminate; [reflexivity|].
  apply andb_true_iff in H. destruct H as [H1 H2]. apply Z.eqb_eq in H1. subst. f_equal. auto.
Qed.

Lemma opt_eqb_refl o : opt_eqb o o = true.
Proof. destruct o; cbn; [apply Z.eqb_refl|reflexivity]. Qed.

(* ------------------------------------------------------------------ visible text scanner *)
Lemma vrun_app s a : forall b,
  vrun s (a ++ b) = let '(s1, o1) := vrun s a in let '(s2, o2) := vrun s1 b in (s2, o1 ++ o2).
Proof.
  revert s. induction a as [|c a IH]; intros s b; cbn [vrun app].
  - destruct (vrun s b); reflexivity.
  - destruct (vstep s c) as [s1 o1]. rewrite IH.
    destruct (vrun s1 a) as [s2 o2]. destruct (vrun s2 b) as [s3 o3]. rewrite app_assoc. reflexivity.
Qed.

Lemma vrun_ground_app a b oa ob sb :
  vrun VGround a = (VGround, oa) -> vrun VGround b = (sb, ob) -> vrun VGround (a ++ b) = (sb, oa ++ ob).
Proof. intros Ha Hb. rewrite vrun_app, Ha, Hb. reflexivity. Qed.

Lemma vrun_plain t : plain_b t = true -> vrun VGround t = (VGround, t).
Proof.
  induction t as [|c t IH]; cbn [plain_b forallb vrun]; intros H; [reflexivity|].
  apply andb_true_iff in H. destruct H as [Hc Ht]. apply andb_true_iff in Hc. destruct Hc as [H1 H2].
  unfold vstep. apply negb_true_iff in H1, H2. rewrite H1, H2.
  change (plain_b t = true) in Ht. rewrite (IH Ht). reflexivity.
Qed.

Lemma plain_app a b : plain_b (a ++ b) = plain_b a && plain_b b.
Proof. apply forallb_app. Qed.

Lemma vrun_invisible t : invisible_b t = true -> vrun VGround t = (VGround, []).
Proof.
  unfold invisible_b. destruct (vrun VGround t) as [s o]. intros H.
  apply andb_true_iff in H. destruct H as [H1 H2]. destruct s; try discriminate. destruct o; try discriminate.
  reflexivity.
Qed.

Lemma visible_vrun t o : vrun VGround t = (VGround, o) -> visible t = o.
Proof. unfold visible. intros ->. reflexivity. Qed.

(* the control strings of bell / clear / show_cursor, as regenerated from /repo, are invisible *)
Lemma control_codes_invisible :
  invisible_b BELL_CODE = true /\ invisible_b CLEAR_HOME = true /\ invisible_b CLEAR_NOHOME = true /\
  invisible_b CURSOR_SHOW = true /\ invisible_b CURSOR_HIDE = true.
Proof. vm_compute. repeat split; reflexivity. Qed.

(* ------------------------------------------------------------------ html escape *)
Definition esc1 (c : Z) : str :=
  if c =? 38 then lit "&amp;" else if c =? 60 then lit "&lt;" else if c =? 62 then lit "&gt;" else [c].

Lemma replace1_app o n a b : replace1 o n (a ++ b) = replace1 o n a ++ replace1 o n b.
Proof. unfold replace1. rewrite map_app, concat_app. reflexivity. Qed.

Lemma replace1_cons o n c t : replace1 o n (c :: t) = (if c =? o then n else [c]) ++ replace1 o n t.
Proof. reflexivity. Qed.

(* today's escape chain (& then < then >) is the per-character map *)
Lemma html_escape_cons c t : html_escape (c :: t) = esc1 c ++ html_escape t.
Proof.
  unfold html_escape, replace_chain. change HTML_ESCAPE_CHAIN with
    [(38, lit "&amp;"); (60, lit "&lt;"); (62, lit "&gt;")].
  cbn [fold_left]. rewrite replace1_cons, !replace1_app. f_equal.
  unfold esc1.
  destruct (c =? 38) eqn:E1; [vm_compute; reflexivity|].
  rewrite replace1_cons. destruct (c =? 60) eqn:E2; [vm_compute; reflexivity|].
  cbn [replace1 map concat app].
  destruct (c =? 62) eqn:E3; reflexivity.
Qed.

Lemma html_escape_nil : html_escape [] = [].
Proof. reflexivity. Qed.

Lemma strip_text_esc1 c X : strip_go HText (esc1 c ++ X) = esc1 c ++ strip_go HText X.
Proof.
  unfold esc1. destruct (c =? 38) eqn:E1; [reflexivity|]. destruct (c =? 60) eqn:E2; [reflexivity|].
  destruct (c =? 62) eqn:E3; [reflexivity|]. cbn [app strip_go]. rewrite E2. reflexivity.
Qed.

Lemma strip_text_escape t : forall X, strip_go HText (html_escape t ++ X) = html_escape t ++ strip_go HText X.
Proof.
  induction t as [|c t IH]; intros X; [reflexivity|].
  rewrite html_escape_cons, <- !app_assoc, strip_text_esc1, IH. reflexivity.
Qed.

Lemma unescape_app a b : unescape (a ++ b) = fold_right unescape_step (unescape b) a.
Proof. unfold unescape. apply fold_right_app. Qed.

Lemma unescape_esc1 c u : fold_right unescape_step u (esc1 c) = c :: u.
Proof.
  unfold esc1. destruct (c =? 38) eqn:E1; [apply Z.eqb_eq in E1; subst; reflexivity|].
  destruct (c =? 60) eqn:E2; [apply Z.eqb_eq in E2; subst; reflexivity|].
  destruct (c =? 62) eqn:E3; [apply Z.eqb_eq in E3; subst; reflexivity|].
  cbn [fold_right]. unfold unescape_step. rewrite E1. reflexivity.
Qed.

Lemma unescape_escape t : forall X, unescape (html_escape t ++ X) = t ++ unescape X.
Proof.
  induction t as [|c t IH]; intros X; [reflexivity|].
  rewrite html_escape_cons, <- app_assoc, unescape_app, unescape_esc1, IH. reflexivity.
Qed.

(* ------------------------------------------------------------------ tags *)
Definition no_quote (t : str) : Prop := ~ In 34 t.

Lemma strip_quote_close q X : no_quote q -> strip_go HQuote (q ++ 34 :: 62 :: X) = strip_go HText X.
Proof.
  induction q as [|c q IH]; intros H.
  - reflexivity.
  - cbn [app strip_go]. destruct (c =? 34) eqn:E.
    + apply Z.eqb_eq in E. subst. exfalso. apply H. left. reflexivity.
    + apply IH. intros Hin. apply H. right. exact Hin.
Qed.

Lemma uint_digits_no_quote u : no_quote (uint_digits u).
Proof.
  induction u; cbn [uint_digits]; intros H; try (destruct H as [H|H]; [discriminate|exact (IHu H)]).
  exact H.
Qed.

Lemma print_Z_no_quote z : no_quote (print_Z z).
Proof.
  destruct z; cbn [print_Z].
  - intros [H|[]]. discriminate.
  - apply uint_digits_no_quote.
  - intros [H|H]; [discriminate|]. exact (uint_digits_no_quote _ H).
Qed.

Lemma replace1_quote_no_quote t : no_quote (replace1 34 (lit "&quot;") t).
Proof.
  induction t as [|c t IH]; [intros []|]. rewrite replace1_cons. intros H. apply in_app_or in H.
  destruct H as [H|H]; [|exact (IH H)].
  destruct (c =? 34) eqn:E.
  - vm_compute in H. repeat (destruct H as [H|H]; [discriminate|]). exact H.
  - destruct H as [H|[]]. subst. discriminate.
Qed.

Lemma attr_escape_no_quote l : no_quote (attr_escape l).
Proof. apply replace1_quote_no_quote. Qed.

(* ------------------------------------------------------------------ simplify (repaired) keeps the text *)
Definition plain_of (r : list sg) : str := concat (map (@txt Z) (filter_control r)).

Lemma plain_of_cons g r : plain_of (g :: r) = (if ctl g then [] else txt g) ++ plain_of r.
Proof. unfold plain_of, filter_control. cbn [filter]. destruct (ctl g); reflexivity. Qed.

Lemma simplify_go_plain : forall rest last,
  plain_of (simplify_go true last rest) = plain_of (last :: rest).
Proof.
  induction rest as [|g rest IH]; intros last; cbn [simplify_go]; [reflexivity|].
  destruct (opt_eqb (sty last) (sty g) && negb (ctl g) && (negb true || negb (ctl last))) eqn:E.
  - rewrite IH. rewrite !plain_of_cons. cbn [ctl txt].
    apply andb_true_iff in E. destruct E as [E E3]. apply andb_true_iff in E. destruct E as [E1 E2].
    cbn in E3. apply negb_true_iff in E2, E3. rewrite E2, E3. rewrite app_assoc. reflexivity.
  - rewrite plain_of_cons, IH, <- plain_of_cons. reflexivity.
Qed.

Lemma simplify_plain r : plain_of (simplify true r) = plain_of r.
Proof. destruct r as [|g r]; [reflexivity|]. apply simplify_go_plain. Qed.

Lemma filter_control_idem r : filter_control (filter_control r) = filter_control r.
Proof.
  unfold filter_control. induction r as [|g r IH]; [reflexivity|]. cbn [filter].
  destruct (ctl g) eqn:E; cbn [filter negb]; [exact IH|]. rewrite E. cbn. f_equal. exact IH.
Qed.

(* the as-is merge condition puts control text into a non-control segment (DESIGN D12) *)
Lemma simplify_asis_witness :
  plain_of (simplify false [mkSeg CLEAR_HOME None true; mkSeg [NL] None false]) = CLEAR_HOME ++ [NL].
Proof. reflexivity. Qed.
