(* C19: lemmas about the decoder model (coq/model/AnsiDecode.v): regex pins, totality. *)
From RichModel Require Import Prelude Color Style AnsiDecode.
From RichGen Require Import AnsiRegex SgrMap.

(* ------------------------------------------------------------------ the scanners were written for these patterns *)
Example re_ansi_src_ok : RE_ANSI_src = lit "(?:\x1b\[(.*?)m)|(?:\x1b\](.*?)\x1b\\)".
Proof. reflexivity. Qed.
Example re_csi_src_ok : RE_CSI_src = lit "\x1B(?:[@-Z\\-_]|\[[0-?]*[ -/]*[@-~])".
Proof. reflexivity. Qed.

(* ------------------------------------------------------------------ every SGR_STYLE_MAP entry is a valid style definition *)
Definition parses_b (def : str) : bool := match style_parse def with Ok _ => true | _ => false end.
Lemma sgr_map_parses : forallb (fun p => parses_b (snd p)) SGR_STYLE_MAP = true.
Proof. vm_compute. reflexivity. Qed.

Lemma assoc_Z_In : forall {B} (l : list (Z * B)) c v, assoc_Z c l = Some v -> In (c, v) l.
Proof.
  induction l as [|[k w] l IH]; cbn [assoc_Z]; intros c v H; [discriminate|].
  destruct (k =? c) eqn:E.
  - apply Z.eqb_eq in E. inversion H. subst. left. reflexivity.
  - right. apply IH. exact H.
Qed.

Lemma sgr_entry_parses : forall code def, assoc_Z code SGR_STYLE_MAP = Some def -> exists p, style_parse def = Ok p.
Proof.
  intros code def H. apply assoc_Z_In in H.
  pose proof (proj1 (forallb_forall _ _) sgr_map_parses _ H) as P. unfold parses_b in P. cbn [snd] in P.
  destruct (style_parse def) as [p| |]; try discriminate. exists p. reflexivity.
Qed.

(* ------------------------------------------------------------------ totality of the repaired decoder *)
Lemma apply_codes_total_n : forall n codes st, (length codes <= n)%nat -> exists st', apply_codes codes st = Ok st'.
Proof.
  induction n as [|n IH]; intros codes st Hl.
  - destruct codes; [|cbn in Hl; lia]. exists st. reflexivity.
  - destruct codes as [|code rest]; [exists st; reflexivity|].
    cbn [length] in Hl. assert (Hr : (length rest <= n)%nat) by lia.
    cbn [apply_codes].
    destruct (code =? 0); [apply IH; exact Hr|].
    destruct (assoc_Z code SGR_STYLE_MAP) as [def|] eqn:EA.
    + destruct (sgr_entry_parses _ _ EA) as [p Hp]. rewrite Hp. cbn [bind]. apply IH. exact Hr.
    + destruct ((code =? 38) || (code =? 48)); [|apply IH; exact Hr].
      destruct rest as [|ct rest1]; [exists st; reflexivity|].
      cbn [length] in Hr.
      destruct (ct =? 5).
      { destruct rest1 as [|x rest2]; [exists st; reflexivity|]. cbn [length] in Hr. apply IH. lia. }
      destruct (ct =? 2).
      { destruct rest1 as [|r [|g [|b rest2]]]; try (exists st; reflexivity).
        cbn [length] in Hr. apply IH. lia. }
      apply IH. lia.
Qed.
Lemma apply_codes_total : forall codes st, exists st', apply_codes codes st = Ok st'.
Proof. intros. eapply apply_codes_total_n. apply Nat.le_refl. Qed.

Lemma sgr_codes_total : forall parts, exists cs, sgr_codes true parts = Ok cs.
Proof.
  induction parts as [|p r [cs IH]]; [exists []; reflexivity|].
  cbn [sgr_codes]. destruct (py_isdigit p); [|exists cs; exact IH].
  destruct (py_int_digits p) as [n|]; [|exists cs; exact IH].
  rewrite IH. cbn [bind]. eexists. reflexivity.
Qed.

Lemma step_total : forall st t, exists r, step true st t = Ok r.
Proof.
  intros st [p|g|g]; cbn [step].
  - destruct p; eexists; reflexivity.
  - destruct g as [|c g]; [eexists; reflexivity|].
    destruct (sgr_codes_total (split_on 59 (c :: g))) as [cs Hc]. rewrite Hc. cbn [bind].
    destruct (apply_codes_total cs st) as [st' Hs]. rewrite Hs. cbn [bind]. eexists. reflexivity.
  - destruct g; eexists; reflexivity.
Qed.

Lemma decode_tokens_total : forall toks st, exists ps, snd (decode_tokens true toks st) = Ok ps.
Proof.
  induction toks as [|t r IH]; intros st; [exists []; reflexivity|].
  cbn [decode_tokens]. destruct (step_total st t) as [[st' p] Hs]. rewrite Hs.
  destruct (IH st') as [ps Hps]. destruct (decode_tokens true r st') as [s2 rr]. cbn [snd] in *.
  rewrite Hps. eexists. reflexivity.
Qed.

(* decoder_total: the repaired decode_line raises nothing, whatever the string and the decoder state *)
Theorem decode_line_total : forall st s, exists ps, snd (decode_line true st s) = Ok ps.
Proof. intros. unfold decode_line. apply decode_tokens_total. Qed.

Theorem decode_line_no_crash : forall st s k, snd (decode_line true st s) <> Crash k.
Proof. intros st s k H. destruct (decode_line_total st s) as [ps Hp]. rewrite Hp in H. discriminate. Qed.

Lemma decode_lines_total : forall lines st, exists pss, snd (decode_lines true st lines) = Ok pss.
Proof.
  induction lines as [|l r IH]; intros st; [exists []; reflexivity|].
  cbn [decode_lines]. destruct (decode_line_total st l) as [ps Hp].
  destruct (decode_line true st l) as [st' rr]. cbn [snd] in Hp. subst rr.
  destruct (IH st') as [pss Hpss]. destruct (decode_lines true st' r) as [s2 rr]. cbn [snd] in *.
  subst rr. eexists. reflexivity.
Qed.

Theorem decode_total : forall st text, exists pss, snd (decode true st text) = Ok pss.
Proof. intros. unfold decode. apply decode_lines_total. Qed.

(* the as-found decoder is not total: DESIGN D8 *)
Theorem decode_line_asis_refuted : snd (decode_line false style_null [27; 91; 178; 109]) = Crash K_ValueError.
Proof. vm_compute. reflexivity. Qed.
