(* C03, part 4: Segment.remove_color's dict of colourless copies is invisible in the output
   (was an assumption of the model, now a theorem). *)
From RichModel Require Import Prelude Color Style SpecColor TermSgr Ansi SpecAnsi.
From RichProofs Require Import TermSgrP AnsiP AnsiP2 AnsiP3.
From Coq Require Import ZifyBool.

(* Style.render looks at a style only through these fields *)
Lemma ansi_codes_none_ext fx a b sys :
  s_attributes a = s_attributes b -> s_set_attributes a = s_set_attributes b ->
  s_color a = s_color b -> s_bgcolor a = s_bgcolor b ->
  ansi_codes fx a None sys = ansi_codes fx b None sys.
Proof. intros. cbn [ansi_codes]. now apply make_codes_ext. Qed.

Lemma style_eqb_fields a b : style_eqb a b = true ->
  s_attributes a = s_attributes b /\ s_set_attributes a = s_set_attributes b /\ s_link a = s_link b.
Proof.
  unfold style_eqb. intros H. apply andb_true_iff in H as [H H5]. apply andb_true_iff in H as [H H4].
  apply andb_true_iff in H as [H H3]. apply Z.eqb_eq in H3, H4. split; [exact H4|]. split; [exact H3|].
  unfold opt_str_eqb in H5. destruct (s_link a), (s_link b); try discriminate; [|reflexivity].
  f_equal. exact (str_eqb_eq _ _ H5).
Qed.

(* the per-call facts: which console, and that a reused copy's slot was filled (if at all) by this
   very console *)
Definition reuse_ok (k : cfg) (reuse_memo : style -> memo) : Prop :=
  forall cs, memo_honest cs (reuse_memo cs) = true
             /\ match k_system k with Some sys => memo_for sys (reuse_memo cs) = true | None => True end.

Definition cache_ok (same : style -> style -> bool) (lid : str) (cache : list (style * (style * str))) : Prop :=
  forall s0 cs clid, In (s0, (cs, clid)) cache -> cs = style_without_color s0 /\ s_null s0 = false /\ clid = lid.

Lemma render_seg_reused k reuse_memo s0 s text lid ctl :
  reuse_ok k reuse_memo -> s_null s0 = false -> s_null s = false -> style_eqb s0 s = true ->
  render_seg k (mkASeg text (Some (style_without_color s0)) lid (reuse_memo (style_without_color s0)) ctl)
  = render_seg k (mkASeg text (Some (style_without_color s)) lid None ctl).
Proof.
  intros RO N0 N E. destruct (style_eqb_fields s0 s E) as [EA [ES EL]].
  destruct (swc_facts s0 N0) as [T0 [_ [L0 [C0 B0]]]]. destruct (swc_facts s N) as [T1 [_ [L1 [C1 B1]]]].
  unfold render_seg. cbn [a_ctl a_style a_memo a_text a_lid]. rewrite T0, T1.
  destruct (k_fix_ctl k && negb (k_terminal k) && ctl); [reflexivity|].
  unfold render_styled. destruct text as [|c t]; [reflexivity|]. destruct (k_system k) as [sys|] eqn:KS; [|reflexivity].
  destruct (RO (style_without_color s0)) as [H M]. rewrite KS in M.
  rewrite (ansi_codes_fresh (k_fix_d16 k) _ _ sys H (proj2 (orb_true_iff _ _) (or_intror M))).
  cbn [ansi_codes].
  assert (X : make_ansi_codes (style_without_color s0) sys = make_ansi_codes (style_without_color s) sys).
  { apply make_codes_ext; unfold style_without_color; rewrite N0, N; cbn; congruence. }
  rewrite X, L0, L1, EL. reflexivity.
Qed.

Theorem remove_color_dict_transparent k same reuse_memo lid segs : forall cache,
  (forall a b, same a b = true -> style_eqb a b = true) ->
  reuse_ok k reuse_memo -> cache_ok same lid cache ->
  Forall (fun g => a_lid g = lid) segs ->
  render_segs k (remove_color_cached same reuse_memo cache segs) = render_segs k (map remove_color_seg segs).
Proof.
  intros cache SE RO. revert cache. induction segs as [|g segs IH]; intros cache CO U; [reflexivity|].
  inversion U as [|? ? Ug Us]; subst.
  cbn [remove_color_cached map]. unfold remove_color_seg at 1.
  destruct (a_style g) as [s|] eqn:AS.
  - destruct (style_bool s) eqn:SB.
    + assert (N : s_null s = false) by (unfold style_bool in SB; now apply negb_true_iff in SB).
      destruct (find (fun kv => same (fst kv) s) cache) as [[s0 [cs clid]]|] eqn:F.
      * apply find_some in F as [Fin Fs]. cbn [fst] in Fs. destruct (CO _ _ _ Fin) as [-> [N0 ->]].
        cbn [render_segs]. rewrite (IH cache CO Us).
        now rewrite (render_seg_reused k reuse_memo s0 s (a_text g) (a_lid g) (a_ctl g) RO N0 N (SE _ _ Fs)).
      * cbn [render_segs]. rewrite IH; [reflexivity| |exact Us].
        intros s0 cs clid [Q|Q]; [inversion Q; subst; repeat split; assumption|exact (CO _ _ _ Q)].
    + cbn [render_segs]. now rewrite (IH cache CO Us).
  - cbn [render_segs]. now rewrite (IH cache CO Us).
Qed.

(* ------------------------------------------------------------------ NO_COLOR from the environment *)
Lemma no_color_env_convention arg e :
  no_color_convention_b arg (match e_no_color e with Some _ => true | None => false end) (no_color_of arg e) = true.
Proof. unfold no_color_convention_b, no_color_of. destruct arg as [[|]|]; [reflexivity|reflexivity|]. destruct (e_no_color e); reflexivity. Qed.

Theorem no_color_env_params ft tty cs lw e v fx fc segs :
  e_no_color e = Some v ->
  let k := cfg_of_env ft tty cs None lw e fx fc in
  k_no_color k = true
  /\ (segs_ok k segs = true -> forallb ctl_colorless segs = true ->
      exists bytes, render_buffer k segs = Ok bytes /\ no_color_params_b bytes = true).
Proof.
  intros E k. assert (N : k_no_color k = true) by (unfold k, cfg_of_env, no_color_of; cbn; now rewrite E).
  split; [exact N|]. intros OK CL. exact (no_color_params k segs N OK CL).
Qed.
