(* C02: Text.divide keeps, for every character, exactly the ordered list of styles of the spans
   covering it -- for the repaired variant (fixes/C02_divide_span_order.diff, fix_order = true),
   with no hypothesis at all on the spans. *)
From RichModel Require Import Prelude Cells Wrap.
From Coq Require Import ZifyBool Sorting.Sorted Permutation.

Fixpoint mono_from3 (a : Z) (l : list Z) : Prop :=
  match l with [] => True | b :: r => a <= b /\ mono_from3 b r end.

(* ------------------------------------------------------------------ generic list facts *)
Section Generic.
Context {A : Type}.
Variable key : A -> Z.
Definition le_key (x y : A) : Prop := key x <= key y.

Lemma sort_by_cons x l : sort_by key (x :: l) = ins_by key x (sort_by key l).
Proof. reflexivity. Qed.

Lemma ins_by_perm x l : Permutation (ins_by key x l) (x :: l).
Proof.
  induction l as [|y r IH]; cbn [ins_by].
  - reflexivity.
  - destruct (key x <=? key y).
    + reflexivity.
    + eapply perm_trans; [apply perm_skip, IH | apply perm_swap].
Qed.

Lemma sort_by_perm l : Permutation (sort_by key l) l.
Proof.
  induction l as [|x r IH].
  - constructor.
  - rewrite sort_by_cons. eapply perm_trans; [apply ins_by_perm | apply perm_skip, IH].
Qed.

Lemma ins_by_sorted x l :
  StronglySorted le_key l -> StronglySorted le_key (ins_by key x l).
Proof.
  induction l as [|y r IH]; intros H; cbn [ins_by].
  - constructor; constructor.
  - inversion H as [|? ? Hs Hf]; subst.
    destruct (key x <=? key y) eqn:E.
    + constructor; [exact H|]. constructor; [unfold le_key; lia|].
      rewrite Forall_forall in *. intros z Hz. specialize (Hf z Hz). unfold le_key in *. lia.
    + constructor; [apply IH; exact Hs|].
      rewrite Forall_forall in *. intros z Hz.
      apply (Permutation_in _ (ins_by_perm x r)) in Hz. destruct Hz as [Hz|Hz].
      * subst z. unfold le_key. lia.
      * apply Hf; exact Hz.
Qed.

Lemma sort_by_sorted l : StronglySorted le_key (sort_by key l).
Proof.
  induction l as [|x r IH].
  - constructor.
  - rewrite sort_by_cons. apply ins_by_sorted, IH.
Qed.

Lemma sort_by_in x l : In x (sort_by key l) <-> In x l.
Proof.
  split; intros H.
  - eapply Permutation_in; [apply sort_by_perm | exact H].
  - eapply Permutation_in; [apply Permutation_sym, sort_by_perm | exact H].
Qed.
End Generic.

Lemma SS_filter {A} (R : A -> A -> Prop) f l :
  StronglySorted R l -> StronglySorted R (filter f l).
Proof.
  induction 1 as [|x r Hs IH Hf]; cbn [filter].
  - constructor.
  - destruct (f x); [|exact IH]. constructor; [exact IH|].
    rewrite Forall_forall in *. intros z Hz. apply filter_In in Hz. apply Hf, Hz.
Qed.

Lemma SS_map {A B} (R : B -> B -> Prop) (g : A -> B) l :
  StronglySorted (fun x y => R (g x) (g y)) l -> StronglySorted R (map g l).
Proof.
  induction 1 as [|x r Hs IH Hf]; cbn [map].
  - constructor.
  - constructor; [exact IH|]. rewrite Forall_forall in *. intros z Hz.
    apply in_map_iff in Hz. destruct Hz as [w [Hw Hi]]. subst z. apply Hf, Hi.
Qed.

Lemma SS_app {A} (R : A -> A -> Prop) l1 l2 :
  StronglySorted R l1 -> StronglySorted R l2 ->
  (forall x y, In x l1 -> In y l2 -> R x y) -> StronglySorted R (l1 ++ l2).
Proof.
  induction 1 as [|x r Hs IH Hf]; intros H2 HR; cbn [app].
  - exact H2.
  - constructor.
    + apply IH; [exact H2|]. intros a b Ha Hb. apply HR; [right; exact Ha | exact Hb].
    + rewrite Forall_forall in *. intros z Hz. apply in_app_or in Hz. destruct Hz as [Hz|Hz].
      * apply Hf, Hz.
      * apply HR; [left; reflexivity | exact Hz].
Qed.

Definition lt_fst {B} (x y : Z * B) : Prop := fst x < fst y.

Lemma ss_lt_eq {B} : forall l1 l2 : list (Z * B),
  StronglySorted lt_fst l1 -> StronglySorted lt_fst l2 ->
  (forall x, In x l1 <-> In x l2) -> l1 = l2.
Proof.
  induction l1 as [|x r1 IH]; intros [|y r2] H1 H2 HM.
  - reflexivity.
  - exfalso. exact (proj2 (HM y) (or_introl eq_refl)).
  - exfalso. exact (proj1 (HM x) (or_introl eq_refl)).
  - inversion H1 as [|? ? S1 F1]; subst. inversion H2 as [|? ? S2 F2]; subst.
    rewrite Forall_forall in F1, F2.
    assert (Exy : x = y).
    { destruct (proj1 (HM x) (or_introl eq_refl)) as [E|I]; [auto|].
      destruct (proj2 (HM y) (or_introl eq_refl)) as [E|I']; [auto|].
      specialize (F2 _ I). specialize (F1 _ I'). unfold lt_fst in *. lia. }
    subst y. f_equal. apply IH; [exact S1 | exact S2 |].
    intros z; split; intros Hz.
    + destruct (proj1 (HM z) (or_intror Hz)) as [E|I]; [|exact I].
      subst z. specialize (F1 _ Hz). unfold lt_fst in F1. lia.
    + destruct (proj2 (HM z) (or_intror Hz)) as [E|I]; [|exact I].
      subst z. specialize (F2 _ Hz). unfold lt_fst in F2. lia.
Qed.

Lemma le_nodup_lt {B} (l : list (Z * B)) :
  StronglySorted (le_key fst) l -> NoDup (map fst l) -> StronglySorted lt_fst l.
Proof.
  induction 1 as [|x r Hs IH Hf]; intros Hn; cbn [map] in *.
  - constructor.
  - inversion Hn as [|? ? Hni Hn']; subst. constructor; [apply IH; exact Hn'|].
    rewrite Forall_forall in *. intros z Hz. specialize (Hf z Hz).
    assert (fst x <> fst z). { intros E. apply Hni. rewrite E. apply in_map, Hz. }
    unfold lt_fst, le_key in *. lia.
Qed.

Lemma lt_nodup {B} (l : list (Z * B)) : StronglySorted lt_fst l -> NoDup (map fst l).
Proof.
  induction 1 as [|x r Hs IH Hf]; cbn [map].
  - constructor.
  - constructor; [|exact IH]. intros Hi. apply in_map_iff in Hi. destruct Hi as [z [E Hz]].
    rewrite Forall_forall in Hf. specialize (Hf z Hz). unfold lt_fst in Hf. lia.
Qed.

Lemma nodup_fst_fun {B} (l : list (Z * B)) k a b :
  NoDup (map fst l) -> In (k, a) l -> In (k, b) l -> a = b.
Proof.
  induction l as [|x r IH]; intros Hn Ha Hb; cbn [map] in *.
  - destruct Ha.
  - inversion Hn as [|? ? Hni Hn']; subst. destruct Ha as [Ha|Ha], Hb as [Hb|Hb].
    + congruence.
    + exfalso. apply Hni. subst x. cbn [fst]. change k with (fst (k, b)). apply in_map, Hb.
    + exfalso. apply Hni. subst x. cbn [fst]. change k with (fst (k, a)). apply in_map, Ha.
    + apply IH; assumption.
Qed.

Lemma nodup_app_intro {A} (l1 l2 : list A) :
  NoDup l1 -> NoDup l2 -> (forall x, In x l1 -> ~ In x l2) -> NoDup (l1 ++ l2).
Proof.
  induction 1 as [|x r Hni Hn IH]; intros H2 Hd; cbn [app].
  - exact H2.
  - constructor.
    + intros Hi. apply in_app_or in Hi. destruct Hi as [Hi|Hi]; [auto|]. apply (Hd x); [left; reflexivity | exact Hi].
    + apply IH; [exact H2|]. intros z Hz. apply Hd. right; exact Hz.
Qed.

Lemma nodup_app_elim {A} (l1 l2 : list A) :
  NoDup (l1 ++ l2) -> NoDup l1 /\ NoDup l2 /\ (forall x, In x l1 -> ~ In x l2).
Proof.
  induction l1 as [|x r IH]; cbn [app]; intros H.
  - split; [constructor|]. split; [exact H|]. intros z [].
  - inversion H as [|? ? Hni Hn]; subst. destruct (IH Hn) as [H1 [H2 Hd]].
    split; [|split].
    + constructor; [|exact H1]. intros Hi. apply Hni, in_or_app. left; exact Hi.
    + exact H2.
    + intros z [Hz|Hz] Hi.
      * subst z. apply Hni, in_or_app. right; exact Hi.
      * exact (Hd z Hz Hi).
Qed.

Lemma filter_none {A} (f : A -> bool) l : (forall x, In x l -> f x = false) -> filter f l = [].
Proof.
  induction l as [|x r IH]; intros H; cbn [filter].
  - reflexivity.
  - rewrite (H x (or_introl eq_refl)). apply IH. intros z Hz. apply H. right; exact Hz.
Qed.

Lemma index_from_snd {A} (l : list A) : forall n, map snd (index_from n l) = l.
Proof. induction l as [|x r IH]; intros n; cbn [index_from map snd]; [reflexivity | rewrite IH; reflexivity]. Qed.

Lemma index_from_ge {A} (l : list A) : forall n x, In x (index_from n l) -> n <= fst x.
Proof.
  induction l as [|y r IH]; intros n x H; cbn [index_from] in H.
  - destruct H.
  - destruct H as [H|H]; [subst x; cbn [fst]; lia|]. specialize (IH _ _ H). lia.
Qed.

Lemma index_from_sorted {A} (l : list A) : forall n, StronglySorted lt_fst (index_from n l).
Proof.
  induction l as [|y r IH]; intros n; cbn [index_from].
  - constructor.
  - constructor; [apply IH|]. rewrite Forall_forall. intros z Hz.
    apply index_from_ge in Hz. unfold lt_fst. cbn [fst]. lia.
Qed.

Lemma index_from_in {A} (l : list A) x : forall n, In x l -> exists k, In (k, x) (index_from n l).
Proof.
  induction l as [|y r IH]; intros n H.
  - destruct H.
  - destruct H as [H|H].
    + subst y. exists n. left; reflexivity.
    + destruct (IH (n + 1) H) as [k Hk]. exists k. right; exact Hk.
Qed.

(* ------------------------------------------------------------------ Text.divide *)
Section DivideStyles.
Variable S : Type.
Variable seqb : S -> S -> bool.

Definition cover_styles (t : text S) (i : Z) : list S :=
  map (@sp_style S) (filter (covers S i) (spans t)).

Definition cs3 (l : list (span S)) (i : Z) : list S := map (@sp_style S) (filter (covers S i) l).

Definition kst (x : elt S) : Z := sp_start S (snd x).
Definition le_start (x y : elt S) : Prop := kst x <= kst y.

(* the line span emitted for a processed stack element, and the remainder pushed back *)
Definition lsf (a b : Z) (x : elt S) : elt S :=
  let addsp := fst (span_split S (snd x) b) in
  (fst x, (sp_start S addsp - a, sp_end S addsp - a, sp_style S addsp)).
Definition remf (b : Z) (x : elt S) : list (elt S) :=
  match snd (span_split S (snd x) b) with
  | Some r => if span_nonempty S r then [(fst x, r)] else []
  | None => []
  end.
Fixpoint pre_lt (b : Z) (stack : list (elt S)) : list (elt S) :=
  match stack with [] => [] | x :: r => if kst x <? b then x :: pre_lt b r else [] end.
Fixpoint post_lt (b : Z) (stack : list (elt S)) : list (elt S) :=
  match stack with [] => [] | x :: r => if kst x <? b then post_lt b r else stack end.

Lemma remf_shape b x : remf b x = [] \/ exists r, remf b x = [(fst x, r)].
Proof.
  unfold remf. destruct (snd (span_split S (snd x) b)) as [r|]; [|left; reflexivity].
  destruct (span_nonempty S r); [right; exists r; reflexivity | left; reflexivity].
Qed.

Lemma remf_rev b x : rev (remf b x) = remf b x.
Proof. destruct (remf_shape b x) as [E|[r E]]; rewrite E; reflexivity. Qed.

Lemma line_loop_eq a b : forall stack pushed od acc,
  fst (fst (line_loop S seqb a b stack pushed od acc))
    = rev (flat_map (remf b) (pre_lt b stack)) ++ pushed ++ post_lt b stack
  /\ snd (line_loop S seqb a b stack pushed od acc) = rev acc ++ map (lsf a b) (pre_lt b stack).
Proof.
  induction stack as [|[k sp] below IH]; intros pushed od acc; cbn [line_loop pre_lt post_lt].
  - cbn [flat_map rev map app fst snd]. rewrite !app_nil_r. split; reflexivity.
  - change (kst (k, sp)) with (sp_start S sp). destruct (sp_start S sp <? b) eqn:E.
    + cbn [flat_map map]. rewrite rev_app_distr, remf_rev.
      destruct (span_split S sp b) as [addsp rem] eqn:Es.
      assert (El : lsf a b (k, sp)
                   = (k, (sp_start S addsp - a, sp_end S addsp - a, sp_style S addsp))).
      { unfold lsf. cbn [fst snd]. rewrite Es. reflexivity. }
      assert (Er : remf b (k, sp)
                   = match rem with
                     | Some r => if span_nonempty S r then [(k, r)] else []
                     | None => [] end).
      { unfold remf. cbn [fst snd]. rewrite Es. reflexivity. }
      rewrite El, Er. clear El Er.
      destruct rem as [r|]; [destruct (span_nonempty S r) eqn:En|];
        (match goal with |- context [line_loop S seqb a b below ?p ?o ?c] =>
           destruct (IH p o c) as [H1 H2]; rewrite H1, H2 end;
         cbn [rev app]; rewrite <- !app_assoc; split; reflexivity).
    + cbn [fst snd flat_map rev map app]. rewrite app_nil_r. split; reflexivity.
Qed.

Lemma pre_post b stack : stack = pre_lt b stack ++ post_lt b stack.
Proof.
  induction stack as [|x r IH]; cbn [pre_lt post_lt]; [reflexivity|].
  destruct (kst x <? b); [cbn [app]; f_equal; exact IH | reflexivity].
Qed.

Lemma pre_lt_lt b stack : forall x, In x (pre_lt b stack) -> kst x < b.
Proof.
  induction stack as [|y r IH]; cbn [pre_lt]; intros x H; [destruct H|].
  destruct (kst y <? b) eqn:E; [|destruct H].
  destruct H as [H|H]; [subst; lia | apply IH, H].
Qed.

Lemma post_lt_ge b stack :
  StronglySorted le_start stack -> forall x, In x (post_lt b stack) -> b <= kst x.
Proof.
  induction 1 as [|y r Hs IH Hf]; cbn [post_lt]; intros x H; [destruct H|].
  destruct (kst y <? b) eqn:E; [apply IH, H|].
  destruct H as [H|H]; [subst; lia|].
  rewrite Forall_forall in Hf. specialize (Hf x H). unfold le_start in Hf. lia.
Qed.

Lemma post_lt_sorted b stack :
  StronglySorted le_start stack -> StronglySorted le_start (post_lt b stack).
Proof.
  induction 1 as [|y r Hs IH Hf]; cbn [post_lt]; [constructor|].
  destruct (kst y <? b); [exact IH | constructor; assumption].
Qed.

(* Span.split facts *)
Lemma lsf_fst a b x : fst (lsf a b x) = fst x.
Proof. reflexivity. Qed.

Lemma lsf_style a b x : sp_style S (snd (lsf a b x)) = sp_style S (snd x).
Proof.
  destruct x as [k [[s e] st]]. unfold lsf, span_split. cbn [fst snd].
  destruct (b <? s); [reflexivity|]. destruct (e <=? b); reflexivity.
Qed.

Lemma lsf_covers a b x j :
  a + j < b -> covers S j (snd (lsf a b x)) = covers S (a + j) (snd x).
Proof.
  intros Hj. destruct x as [k [[s e] st]]. unfold lsf, span_split. cbn [fst snd].
  destruct (b <? s) eqn:E1; [|destruct (e <=? b) eqn:E2];
    unfold covers, sp_start, sp_end; cbn [fst snd]; lia.
Qed.

Lemma remf_spec b x y :
  kst x < b -> In y (remf b x) ->
  fst y = fst x /\ kst y = b /\ sp_style S (snd y) = sp_style S (snd x) /\
  forall i, b <= i -> covers S i (snd y) = covers S i (snd x).
Proof.
  destruct x as [k [[s e] st]]. unfold kst, remf, span_split, sp_start. cbn [fst snd].
  intros Hk. destruct (b <? s) eqn:E1; [lia|].
  destruct (e <=? b) eqn:E2; cbn [fst snd]; [intros []|].
  unfold span_nonempty, sp_start, sp_end. cbn [fst snd].
  destruct (Z.min e b <? e) eqn:E3; [|intros []].
  intros [H|[]]. subst y. cbn [fst snd].
  split; [reflexivity|]. split; [lia|]. split; [reflexivity|].
  intros i Hi. unfold covers, sp_start, sp_end; cbn [fst snd]. lia.
Qed.

Lemma remf_nonempty b x i :
  kst x < b -> b <= i -> covers S i (snd x) = true -> exists r, remf b x = [(fst x, r)].
Proof.
  destruct x as [k [[s e] st]]. unfold kst, remf, span_split, covers, sp_start, sp_end. cbn [fst snd].
  intros Hk Hi Hc. destruct (b <? s) eqn:E1; [lia|].
  destruct (e <=? b) eqn:E2; [lia|]. cbn [fst snd].
  unfold span_nonempty, sp_start, sp_end. cbn [fst snd].
  destruct (Z.min e b <? e) eqn:E3; [|lia]. eexists; reflexivity.
Qed.

Lemma flat_remf_in b pre y :
  In y (flat_map (remf b) pre) -> exists x, In x pre /\ In y (remf b x).
Proof. intros H. apply in_flat_map in H. exact H. Qed.

Lemma flat_remf_fst b pre k :
  In k (map fst (flat_map (remf b) pre)) -> In k (map fst pre).
Proof.
  intros H. apply in_map_iff in H. destruct H as [y [Ey Hy]].
  apply in_flat_map in Hy. destruct Hy as [x [Hx Hy]].
  destruct (remf_shape b x) as [E|[r E]]; rewrite E in Hy; [destruct Hy|].
  destruct Hy as [Hy|[]]. subst y k. cbn [fst]. apply in_map, Hx.
Qed.

Lemma flat_remf_nodup b pre :
  NoDup (map fst pre) -> NoDup (map fst (flat_map (remf b) pre)).
Proof.
  induction pre as [|x r IH]; cbn [map flat_map]; intros H; [constructor|].
  inversion H as [|? ? Hni Hn]; subst. rewrite map_app.
  destruct (remf_shape b x) as [E|[q E]]; rewrite E; cbn [map app fst].
  - apply IH, Hn.
  - constructor; [|apply IH, Hn]. intros Hi. apply Hni. eapply flat_remf_fst, Hi.
Qed.

(* ------------------------------------------------------------------ the stack invariant *)
Section WithText.
Variable t : text S.
Definition orig : list (elt S) := index_from 0 (spans t).

Lemma orig_snd : map snd orig = spans t.
Proof. apply index_from_snd. Qed.
Lemma orig_sorted : StronglySorted lt_fst orig.
Proof. apply index_from_sorted. Qed.
Lemma orig_fun k sp1 sp2 : In (k, sp1) orig -> In (k, sp2) orig -> sp1 = sp2.
Proof. apply nodup_fst_fun, lt_nodup, orig_sorted. Qed.

Record Inv (a : Z) (stack : list (elt S)) : Prop := mkInv {
  inv_sorted : StronglySorted le_start stack;
  inv_nodup : NoDup (map fst stack);
  inv_I1 : forall k sp', In (k, sp') stack ->
           exists sp, In (k, sp) orig /\ sp_style S sp' = sp_style S sp /\
                      forall i, a <= i -> covers S i sp' = covers S i sp;
  inv_I2 : forall k sp i, In (k, sp) orig -> a <= i -> covers S i sp = true ->
           exists sp', In (k, sp') stack }.

(* an original span covering a position >= a has its representative on the stack *)
Lemma inv_rep a stack k sp i :
  Inv a stack -> In (k, sp) orig -> a <= i -> covers S i sp = true ->
  exists sp', In (k, sp') stack /\ sp_style S sp' = sp_style S sp /\ covers S i sp' = true.
Proof.
  intros HI Ho Hi Hc. destruct (inv_I2 _ _ HI k sp i Ho Hi Hc) as [sp' Hs].
  exists sp'. split; [exact Hs|].
  destruct (inv_I1 _ _ HI k sp' Hs) as [sp2 [Ho2 [Est Hcov]]].
  assert (sp2 = sp) by (eapply orig_fun; eassumption). subst sp2.
  split; [exact Est|]. rewrite Hcov; [exact Hc | exact Hi].
Qed.

Lemma inv_init : Inv 0 (sort_by kst (rev orig)).
Proof.
  assert (HP : Permutation (sort_by kst (rev orig)) orig).
  { eapply perm_trans; [apply sort_by_perm | apply Permutation_sym, Permutation_rev]. }
  constructor.
  - apply (sort_by_sorted kst).
  - eapply Permutation_NoDup; [apply Permutation_map, Permutation_sym, HP|].
    apply lt_nodup, orig_sorted.
  - intros k sp' H. exists sp'. split; [eapply Permutation_in; eassumption|].
    split; reflexivity.
  - intros k sp i H _ _. exists sp. eapply Permutation_in; [apply Permutation_sym, HP | exact H].
Qed.

Lemma inv_step a b stack :
  Inv a stack -> a <= b -> Inv b (rev (flat_map (remf b) (pre_lt b stack)) ++ post_lt b stack).
Proof.
  intros HI Hab.
  pose proof (pre_post b stack) as Hpp.
  pose proof (pre_lt_lt b stack) as Hpre.
  pose proof (post_lt_ge b stack (inv_sorted _ _ HI)) as Hpost.
  assert (Hnd : NoDup (map fst (pre_lt b stack ++ post_lt b stack))).
  { rewrite <- Hpp. apply (inv_nodup _ _ HI). }
  rewrite map_app in Hnd.
  destruct (nodup_app_elim _ _ Hnd) as [Hn1 [Hn2 Hdis]].
  assert (Hrem : forall y, In y (rev (flat_map (remf b) (pre_lt b stack))) ->
                 exists x, In x (pre_lt b stack) /\ In y (remf b x)).
  { intros y Hy. apply in_rev in Hy. apply in_flat_map in Hy. exact Hy. }
  constructor.
  - apply SS_app.
    + (* all pushed remainders start at b *)
      assert (Hall : forall y, In y (rev (flat_map (remf b) (pre_lt b stack))) -> kst y = b).
      { intros y Hy. destruct (Hrem y Hy) as [x [Hx Hyx]].
        apply (remf_spec b x y (Hpre x Hx) Hyx). }
      revert Hall. generalize (rev (flat_map (remf b) (pre_lt b stack))).
      induction l as [|y r IH]; intros Hall; [constructor|].
      constructor; [apply IH; intros z Hz; apply Hall; right; exact Hz|].
      rewrite Forall_forall. intros z Hz. unfold le_start.
      rewrite (Hall y (or_introl eq_refl)), (Hall z (or_intror Hz)). lia.
    + apply post_lt_sorted, (inv_sorted _ _ HI).
    + intros y z Hy Hz. destruct (Hrem y Hy) as [x [Hx Hyx]].
      destruct (remf_spec b x y (Hpre x Hx) Hyx) as [_ [Ek _]].
      specialize (Hpost z Hz). unfold le_start. lia.
  - rewrite map_app, map_rev. apply nodup_app_intro.
    + apply NoDup_rev, flat_remf_nodup, Hn1.
    + exact Hn2.
    + intros k Hk. apply in_rev in Hk. apply flat_remf_fst in Hk. apply Hdis, Hk.
  - intros k sp' H. apply in_app_or in H. destruct H as [H|H].
    + destruct (Hrem _ H) as [x [Hx Hyx]].
      destruct (remf_spec b x _ (Hpre x Hx) Hyx) as [Ef [_ [Est Hcov]]].
      cbn [fst snd] in Ef, Est, Hcov. destruct x as [k0 sp0]. cbn [fst snd] in *. subst k0.
      assert (Hin : In (k, sp0) stack) by (rewrite Hpp; apply in_or_app; left; exact Hx).
      destruct (inv_I1 _ _ HI k sp0 Hin) as [sp [Ho [Est0 Hcov0]]].
      exists sp. split; [exact Ho|]. split; [congruence|].
      intros i Hi. rewrite Hcov by exact Hi. apply Hcov0. lia.
    + assert (Hin : In (k, sp') stack) by (rewrite Hpp; apply in_or_app; right; exact H).
      destruct (inv_I1 _ _ HI k sp' Hin) as [sp [Ho [Est0 Hcov0]]].
      exists sp. split; [exact Ho|]. split; [exact Est0|].
      intros i Hi. apply Hcov0. lia.
  - intros k sp i Ho Hi Hc.
    destruct (inv_rep a stack k sp i HI Ho ltac:(lia) Hc) as [sp' [Hin [_ Hc']]].
    rewrite Hpp in Hin. apply in_app_or in Hin. destruct Hin as [Hin|Hin].
    + destruct (remf_nonempty b (k, sp') i (Hpre _ Hin) Hi Hc') as [r Er].
      exists r. apply in_or_app. left. apply -> in_rev. apply in_flat_map.
      exists (k, sp'). split; [exact Hin|]. rewrite Er. left; reflexivity.
    + exists sp'. apply in_or_app. right; exact Hin.
Qed.

(* ------------------------------------------------------------------ one line *)
Definition gk (x : elt S) : Z * S := (fst x, sp_style S (snd x)).

Lemma cs3_elt (L : list (elt S)) i :
  cs3 (map snd L) i = map snd (map gk (filter (fun x => covers S i (snd x)) L)).
Proof.
  unfold cs3. induction L as [|x r IH]; cbn [map filter]; [reflexivity|].
  destruct (covers S i (snd x)); cbn [map snd gk]; [f_equal|]; exact IH.
Qed.

Lemma SS_gk (L : list (elt S)) :
  StronglySorted lt_fst L -> StronglySorted (fun x y => lt_fst (gk x) (gk y)) L.
Proof. intros H; exact H. Qed.

Lemma line_styles a b stack j :
  Inv a stack -> 0 <= j < b - a ->
  cs3 (map snd (sort_by fst (map (lsf a b) (pre_lt b stack)))) j = cs3 (spans t) (a + j).
Proof.
  intros HI Hj. rewrite <- orig_snd. rewrite !cs3_elt. f_equal.
  pose proof (pre_post b stack) as Hpp.
  apply ss_lt_eq.
  - apply SS_map, SS_filter, SS_gk, le_nodup_lt; [apply (sort_by_sorted fst)|].
    eapply Permutation_NoDup; [apply Permutation_map, Permutation_sym, sort_by_perm|].
    rewrite map_map. rewrite (map_ext _ _ (lsf_fst a b)).
    assert (Hnd : NoDup (map fst (pre_lt b stack ++ post_lt b stack))).
    { rewrite <- Hpp. apply (inv_nodup _ _ HI). }
    rewrite map_app in Hnd. apply (nodup_app_elim _ _ Hnd).
  - apply SS_map, SS_filter, SS_gk, orig_sorted.
  - intros [k st]. rewrite !in_map_iff. split; intros [x [Ex Hx]];
      apply filter_In in Hx; destruct Hx as [Hx Hc].
    + apply sort_by_in in Hx. apply in_map_iff in Hx. destruct Hx as [[k0 sp'] [El Hy]]. subst x.
      rewrite lsf_covers in Hc by lia. cbn [snd] in Hc.
      unfold gk in Ex. rewrite lsf_fst, lsf_style in Ex. cbn [fst snd] in Ex.
      assert (Hin : In (k0, sp') stack) by (rewrite Hpp; apply in_or_app; left; exact Hy).
      destruct (inv_I1 _ _ HI k0 sp' Hin) as [sp [Ho [Est Hcov]]].
      exists (k0, sp). split.
      * unfold gk. cbn [fst snd]. rewrite <- Est. exact Ex.
      * apply filter_In. split; [exact Ho|]. cbn [snd]. rewrite <- Hcov by lia. exact Hc.
    + destruct x as [k0 sp]. cbn [snd] in Hc. unfold gk in Ex. cbn [fst snd] in Ex.
      destruct (inv_rep a stack k0 sp (a + j) HI Hx ltac:(lia) Hc) as [sp' [Hin [Est Hc']]].
      rewrite Hpp in Hin. apply in_app_or in Hin. destruct Hin as [Hin|Hin].
      * exists (lsf a b (k0, sp')). split.
        -- unfold gk. rewrite lsf_fst, lsf_style. cbn [fst snd]. rewrite Est. exact Ex.
        -- apply filter_In. split.
           ++ apply sort_by_in. apply in_map, Hin.
           ++ rewrite lsf_covers by lia. exact Hc'.
      * exfalso. pose proof (post_lt_ge b stack (inv_sorted _ _ HI) _ Hin) as Hge.
        unfold kst, covers in *. cbn [snd] in Hge. lia.
Qed.

(* ------------------------------------------------------------------ all lines *)
Fixpoint chain3 (a : Z) (rs : list (Z * Z)) : Prop :=
  match rs with
  | [] => True
  | r :: rest => fst r = a /\ a <= snd r /\ chain3 (snd r) rest
  end.

Lemma chain3_ge rs : forall a, chain3 a rs -> forall r, In r rs -> a <= fst r.
Proof.
  induction rs as [|r0 rest IH]; intros a H r Hr; [destruct Hr|].
  cbn [chain3] in H. destruct H as [E [Hle Hc]]. destruct Hr as [Hr|Hr].
  - subst r. lia.
  - specialize (IH _ Hc r Hr). lia.
Qed.

Definition P3 (r : Z * Z) (ls : list (span S)) : Prop :=
  forall j, 0 <= j < snd r - fst r -> cs3 ls j = cs3 (spans t) (fst r + j).

Lemma F2_nil (rs : list (Z * Z)) :
  (forall r, In r rs -> P3 r []) -> Forall2 P3 rs (map (fun _ => []) rs).
Proof.
  induction rs as [|r rest IH]; intros H; cbn [map]; constructor.
  - apply H. left; reflexivity.
  - apply IH. intros z Hz. apply H. right; exact Hz.
Qed.

Lemma inv_empty a i : Inv a [] -> a <= i -> cs3 (spans t) i = [].
Proof.
  intros HI Hi. unfold cs3. rewrite filter_none; [reflexivity|].
  intros sp Hsp. destruct (covers S i sp) eqn:Hc; [|reflexivity].
  destruct (index_from_in (spans t) sp 0 Hsp) as [k Hk].
  destruct (inv_I2 _ _ HI k sp i Hk Hi Hc) as [sp' []].
Qed.

Lemma divide_spans_cons fx s e rs stack od :
  fix_order fx = true -> stack <> [] ->
  divide_spans S seqb fx ((s, e) :: rs) stack od =
    map snd (sort_by fst (snd (line_loop S seqb s e stack [] od []))) ::
    divide_spans S seqb fx rs (fst (fst (line_loop S seqb s e stack [] od [])))
                 (snd (fst (line_loop S seqb s e stack [] od []))).
Proof.
  intros Hfx Hne. destruct stack as [|x0 stk]; [congruence|]. cbn [divide_spans].
  destruct (line_loop S seqb s e (x0 :: stk) [] od []) as [[st' od'] ls].
  rewrite Hfx. reflexivity.
Qed.

Lemma divide_spans_ok fx : fix_order fx = true -> forall ranges a stack od,
  chain3 a ranges -> Inv a stack ->
  Forall2 P3 ranges (divide_spans S seqb fx ranges stack od).
Proof.
  intros Hfx. induction ranges as [|[s e] rs IH]; intros a stack od Hch HI.
  - constructor.
  - destruct stack as [|x0 stk].
    + cbn [divide_spans]. apply F2_nil. intros r Hr j Hj. cbn [cs3 filter map].
      pose proof (chain3_ge _ _ Hch r Hr). symmetry. apply (inv_empty a); [exact HI | lia].
    + rewrite divide_spans_cons by (auto; discriminate).
      cbn [chain3 fst snd] in Hch. destruct Hch as [Es [Hle Hch]]. subst s.
      destruct (line_loop_eq a e (x0 :: stk) [] od []) as [H1 H2]. rewrite H1, H2.
      cbn [rev app]. constructor.
      * intros j Hj. cbn [fst snd] in *. apply line_styles; assumption.
      * apply (IH e); [exact Hch|]. apply (inv_step a e); assumption.
Qed.

End WithText.

(* ------------------------------------------------------------------ Text.divide, assembled *)
Lemma mono_chain3 l : forall a, mono_from3 a l -> chain3 a (zip_ranges (a :: l)).
Proof.
  induction l as [|b r IH]; intros a H.
  - exact Logic.I.
  - destruct H as [Hab Hr]. change (zip_ranges (a :: b :: r)) with ((a, b) :: zip_ranges (b :: r)).
    cbn [chain3 fst snd]. split; [reflexivity|]. split; [exact Hab|]. apply IH, Hr.
Qed.

Definition line_ok (t : text S) (r : Z * Z) (line : text S) : Prop :=
  plain line = zslice (plain t) (fst r) (snd r) /\ base line = base t /\
  forall j, 0 <= j < snd r - fst r -> cover_styles line j = cover_styles t (fst r + j).

Lemma assemble3 (t : text S) ranges sps :
  Forall2 (P3 t) ranges sps ->
  Forall2 (line_ok t) ranges
    (map (fun ps => mkText (fst ps) (snd ps) (base t))
         (combine (map (fun r => zslice (plain t) (fst r) (snd r)) ranges) sps)).
Proof.
  induction 1 as [|r ls rs lss HP HF IH]; cbn [map combine]; constructor; [|exact IH].
  split; [reflexivity|]. split; [reflexivity|]. exact HP.
Qed.

Lemma zslice_all (s : str) : zslice s 0 (zlen s) = s.
Proof.
  unfold zslice, zlen. rewrite Z.sub_0_r, Nat2Z.id. cbn [Z.to_nat skipn]. apply firstn_all.
Qed.

(* MAIN: repaired variant, no hypothesis on the spans and none on seqb *)
Theorem divide_styles_repaired : forall fx (t : text S) offs,
  fix_order fx = true -> mono_from3 0 (offs ++ [tlen S t]) ->
  Forall2 (fun r line =>
             plain line = zslice (plain t) (fst r) (snd r) /\ base line = base t /\
             forall j, 0 <= j < snd r - fst r -> cover_styles line j = cover_styles t (fst r + j))
          (zip_ranges (0 :: offs ++ [tlen S t])) (divide S seqb fx t offs).
Proof.
  intros fx t offs Hfx Hm. change (Forall2 (line_ok t) (zip_ranges (0 :: offs ++ [tlen S t]))
                                     (divide S seqb fx t offs)).
  destruct offs as [|o os].
  - cbn [divide app zip_ranges]. constructor; [|constructor].
    split; [|split; [reflexivity|]].
    + cbn [fst snd]. unfold tlen. symmetry. apply zslice_all.
    + intros j _. cbn [fst]. rewrite Z.add_0_l. reflexivity.
  - unfold divide. cbv beta iota zeta. apply assemble3.
    pose proof (mono_chain3 _ _ Hm) as Hch.
    destruct (spans t) as [|s0 sl] eqn:Esp.
    + apply F2_nil. intros r _ j _. unfold cs3. rewrite Esp. reflexivity.
    + rewrite <- Esp. apply (divide_spans_ok t fx Hfx _ 0); [exact Hch|]. apply inv_init.
Qed.

(* ------------------------------------------------------------------ the as-is variant (order dict
   keyed by span value), under a no-coincidence hypothesis: pairwise different styles *)
Section AsIs.
Hypothesis seqb_eq : forall a b, seqb a b = true <-> a = b.

Lemma span_eqb_eq (x y : span S) : span_eqb S seqb x y = true <-> x = y.
Proof.
  destruct x as [[s e] st], y as [[s' e'] st'].
  unfold span_eqb, sp_start, sp_end, sp_style. cbn [fst snd].
  rewrite !andb_true_iff, !Z.eqb_eq, seqb_eq. split.
  - intros [[-> ->] ->]; reflexivity.
  - intros H; injection H; intros; subst; auto.
Qed.

Definition present (d : odict S) (key : span S) : Prop := exists v, In (key, v) d.

Lemma od_get_in d key : present d key -> In (key, od_get S seqb d key) d.
Proof.
  induction d as [|[k' v'] d' IH]; intros [v Hv]; [destruct Hv|]. cbn [od_get].
  destruct (span_eqb S seqb key k') eqn:E.
  - apply span_eqb_eq in E. subst. left; reflexivity.
  - right. apply IH. destruct Hv as [Hv|Hv]; [|exists v; exact Hv].
    injection Hv; intros; subst.
    assert (span_eqb S seqb key key = true) by (apply span_eqb_eq; reflexivity). congruence.
Qed.

Lemma od_set_in d k v key w :
  In (key, w) (od_set S seqb d k v) -> (key = k /\ w = v) \/ In (key, w) d.
Proof.
  induction d as [|[k' v'] d' IH]; cbn [od_set]; intros H.
  - destruct H as [H|[]]. injection H; intros; subst; left; auto.
  - destruct (span_eqb S seqb k k') eqn:E.
    + apply span_eqb_eq in E; subst k'. destruct H as [H|H].
      * injection H; intros; subst. left; auto.
      * right; right; exact H.
    + destruct H as [H|H]; [right; left; exact H|].
      destruct (IH H) as [?|?]; [left; auto | right; right; auto].
Qed.

Lemma od_set_new d k v : In (k, v) (od_set S seqb d k v).
Proof.
  induction d as [|[k' v'] d' IH]; cbn [od_set]; [left; reflexivity|].
  destruct (span_eqb S seqb k k') eqn:E.
  - apply span_eqb_eq in E; subst; left; reflexivity.
  - right; exact IH.
Qed.

Lemma od_set_present d k v key : present d key -> present (od_set S seqb d k v) key.
Proof.
  induction d as [|[k' v'] d' IH]; intros [w Hw]; [destruct Hw|]. cbn [od_set].
  destruct (span_eqb S seqb k k') eqn:E.
  - destruct Hw as [Hw|Hw].
    + injection Hw; intros; subst. exists v. left; reflexivity.
    + exists w; right; exact Hw.
  - destruct Hw as [Hw|Hw]; [exists w; left; exact Hw|].
    destruct (IH (ex_intro _ w Hw)) as [w' Hw']. exists w'; right; exact Hw'.
Qed.

Lemma span_split_style (sp : span S) b :
  sp_style S (fst (span_split S sp b)) = sp_style S sp /\
  forall r, snd (span_split S sp b) = Some r -> sp_style S r = sp_style S sp.
Proof.
  destruct sp as [[s e] st]. unfold span_split.
  destruct (b <? s); [|destruct (e <=? b)]; cbn [fst snd]; (split; [reflexivity|]);
    intros r H; try discriminate. injection H; intros; subst; reflexivity.
Qed.

Lemma nodup_map_inj {A B} (f : A -> B) (l : list A) x y :
  NoDup (map f l) -> In x l -> In y l -> f x = f y -> x = y.
Proof.
  induction l as [|z r IH]; cbn [map]; intros Hn Hx Hy E; [destruct Hx|].
  inversion Hn as [|? ? Hni Hn']; subst. destruct Hx as [Hx|Hx], Hy as [Hy|Hy].
  - congruence.
  - exfalso. apply Hni. subst z. rewrite E. apply in_map, Hy.
  - exfalso. apply Hni. subst z. rewrite <- E. apply in_map, Hx.
  - apply IH; assumption.
Qed.

Lemma ins_by_ext {A} (k1 k2 : A -> Z) x l :
  k1 x = k2 x -> (forall y, In y l -> k1 y = k2 y) -> ins_by k1 x l = ins_by k2 x l.
Proof.
  intros Ex. induction l as [|y r IH]; intros H; cbn [ins_by]; [reflexivity|].
  rewrite Ex, (H y (or_introl eq_refl)). destruct (k2 x <=? k2 y); [reflexivity|].
  f_equal. apply IH. intros z Hz. apply H. right; exact Hz.
Qed.

Lemma sort_by_ext {A} (k1 k2 : A -> Z) l :
  (forall y, In y l -> k1 y = k2 y) -> sort_by k1 l = sort_by k2 l.
Proof.
  induction l as [|x r IH]; intros H; [reflexivity|]. rewrite !sort_by_cons.
  rewrite IH by (intros z Hz; apply H; right; exact Hz).
  apply ins_by_ext; [apply H; left; reflexivity|].
  intros z Hz. apply sort_by_in in Hz. apply H. right; exact Hz.
Qed.

Section AsIsText.
Variable t : text S.
Hypothesis Hst : NoDup (map (@sp_style S) (spans t)).

Definition O1 (d : odict S) : Prop :=
  forall key v, In (key, v) d -> exists sp, In (v, sp) (orig t) /\ sp_style S sp = sp_style S key.
Definition Tag (L : list (elt S)) : Prop :=
  forall k sp', In (k, sp') L -> exists sp, In (k, sp) (orig t) /\ sp_style S sp' = sp_style S sp.
Definition Pres (d : odict S) (L : list (elt S)) : Prop :=
  forall k sp', In (k, sp') L -> present d sp'.

Lemma style_index v k sp1 sp2 :
  In (v, sp1) (orig t) -> In (k, sp2) (orig t) -> sp_style S sp1 = sp_style S sp2 -> v = k.
Proof.
  intros H1 H2 E.
  assert (Hn : NoDup (map (fun x : elt S => sp_style S (snd x)) (orig t))).
  { pose proof Hst as Hst'. rewrite <- (orig_snd t) in Hst'. rewrite map_map in Hst'. exact Hst'. }
  pose proof (nodup_map_inj _ _ _ _ Hn H1 H2 E) as Heq. congruence.
Qed.

Lemma od_key d L k sp' : O1 d -> Tag L -> Pres d L -> In (k, sp') L -> od_get S seqb d sp' = k.
Proof.
  intros HO HT HP Hin. pose proof (od_get_in d sp' (HP _ _ Hin)) as Hg.
  destruct (HO _ _ Hg) as [sp1 [Ho1 E1]]. destruct (HT _ _ Hin) as [sp2 [Ho2 E2]].
  eapply style_index; [exact Ho1 | exact Ho2 | congruence].
Qed.

Lemma O1_set d key k :
  O1 d -> (exists sp, In (k, sp) (orig t) /\ sp_style S sp = sp_style S key) ->
  O1 (od_set S seqb d key k).
Proof.
  intros HO Hk key' v H. apply od_set_in in H. destruct H as [[-> ->]|H]; [exact Hk | apply HO, H].
Qed.

Lemma Pres_set d key v L : Pres d L -> Pres (od_set S seqb d key v) L.
Proof. intros H k sp' Hin. apply od_set_present. eapply H, Hin. Qed.

Lemma Pres_cons d k sp L : present d sp -> Pres d L -> Pres d ((k, sp) :: L).
Proof. intros Hp H k' sp' [E|Hin]; [injection E; intros; subst; exact Hp | eapply H, Hin]. Qed.

Lemma Pres_tail d x L : Pres d (x :: L) -> Pres d L.
Proof. intros H k sp' Hin. eapply H. right; exact Hin. Qed.

Lemma Tag_tail x L : Tag (x :: L) -> Tag L.
Proof. intros H k sp' Hin. eapply H. right; exact Hin. Qed.

Lemma line_loop_od a b : forall stack pushed od acc,
  O1 od -> Tag stack -> Pres od stack -> Pres od pushed -> Pres od acc ->
  O1 (snd (fst (line_loop S seqb a b stack pushed od acc))) /\
  Pres (snd (fst (line_loop S seqb a b stack pushed od acc)))
       (fst (fst (line_loop S seqb a b stack pushed od acc))) /\
  Pres (snd (fst (line_loop S seqb a b stack pushed od acc)))
       (snd (line_loop S seqb a b stack pushed od acc)).
Proof.
  induction stack as [|[k sp] below IH]; intros pushed od acc HO HT HPs HPp HPa; cbn [line_loop].
  - cbn [fst snd]. split; [exact HO|]. split; [exact HPp|].
    intros k sp' H. apply in_rev in H. eapply HPa, H.
  - destruct (sp_start S sp <? b) eqn:E.
    + assert (Hk : od_get S seqb od sp = k).
      { eapply od_key; [exact HO | exact HT | exact HPs | left; reflexivity]. }
      destruct (HT k sp (or_introl eq_refl)) as [sp0 [Ho0 Est0]].
      destruct (span_split_style sp b) as [Hs1 Hs2].
      destruct (span_split S sp b) as [addsp rem] eqn:Es. cbn [fst snd] in Hs1, Hs2.
      rewrite Hk.
      set (lsp := (sp_start S addsp - a, sp_end S addsp - a, sp_style S addsp)).
      assert (Hlsp : exists sp1, In (k, sp1) (orig t) /\ sp_style S sp1 = sp_style S lsp).
      { exists sp0. split; [exact Ho0|]. unfold lsp, sp_style at 2. cbn [snd]. congruence. }
      destruct rem as [r|]; [destruct (span_nonempty S r)|].
      * assert (HO1 : O1 (od_set S seqb od r k)).
        { apply O1_set; [exact HO|]. exists sp0. split; [exact Ho0|].
          rewrite (Hs2 r eq_refl). congruence. }
        assert (Hk1 : od_get S seqb (od_set S seqb od r k) sp = k).
        { eapply od_key; [exact HO1 | exact HT | apply Pres_set, HPs | left; reflexivity]. }
        rewrite Hk1. apply IH.
        -- apply O1_set; assumption.
        -- eapply Tag_tail, HT.
        -- apply Pres_set, Pres_set. eapply Pres_tail, HPs.
        -- apply Pres_set, Pres_cons; [exists k; apply od_set_new | apply Pres_set, HPp].
        -- apply Pres_cons; [exists k; apply od_set_new | apply Pres_set, Pres_set, HPa].
      * rewrite Hk. apply IH.
        -- apply O1_set; assumption.
        -- eapply Tag_tail, HT.
        -- apply Pres_set. eapply Pres_tail, HPs.
        -- apply Pres_set, HPp.
        -- apply Pres_cons; [exists k; apply od_set_new | apply Pres_set, HPa].
      * rewrite Hk. apply IH.
        -- apply O1_set; assumption.
        -- eapply Tag_tail, HT.
        -- apply Pres_set. eapply Pres_tail, HPs.
        -- apply Pres_set, HPp.
        -- apply Pres_cons; [exists k; apply od_set_new | apply Pres_set, HPa].
    + cbn [fst snd]. split; [exact HO|]. split.
      * intros k' sp' H. apply in_app_or in H. destruct H as [H|H]; [eapply HPp, H | eapply HPs, H].
      * intros k' sp' H. apply in_rev in H. eapply HPa, H.
Qed.

Lemma inv_tag a stack : Inv t a stack -> Tag stack.
Proof.
  intros HI k sp' H. destruct (inv_I1 _ _ _ HI k sp' H) as [sp [Ho [E _]]]. exists sp; auto.
Qed.

Lemma divide_spans_cons_asis fx s e rs stack od :
  fix_order fx = false -> stack <> [] ->
  divide_spans S seqb fx ((s, e) :: rs) stack od =
    map snd (sort_by (fun x => od_get S seqb (snd (fst (line_loop S seqb s e stack [] od []))) (snd x))
                     (snd (line_loop S seqb s e stack [] od []))) ::
    divide_spans S seqb fx rs (fst (fst (line_loop S seqb s e stack [] od [])))
                 (snd (fst (line_loop S seqb s e stack [] od []))).
Proof.
  intros Hfx Hne. destruct stack as [|x0 stk]; [congruence|]. cbn [divide_spans].
  destruct (line_loop S seqb s e (x0 :: stk) [] od []) as [[st' od'] ls].
  rewrite Hfx. reflexivity.
Qed.

Lemma divide_spans_ok_asis fx : fix_order fx = false -> forall ranges a stack od,
  chain3 a ranges -> Inv t a stack -> O1 od -> Pres od stack ->
  Forall2 (P3 t) ranges (divide_spans S seqb fx ranges stack od).
Proof.
  intros Hfx. induction ranges as [|[s e] rs IH]; intros a stack od Hch HI HO HP.
  - constructor.
  - destruct stack as [|x0 stk].
    + cbn [divide_spans]. apply F2_nil. intros r Hr j Hj. cbn [cs3 filter map].
      pose proof (chain3_ge _ _ Hch r Hr). symmetry. apply (inv_empty t a); [exact HI | lia].
    + rewrite divide_spans_cons_asis by (auto; discriminate).
      cbn [chain3 fst snd] in Hch. destruct Hch as [Es [Hle Hch]]. subst s.
      assert (Hnil : Pres od []) by (intros ? ? []).
      destruct (line_loop_od a e (x0 :: stk) [] od [] HO (inv_tag _ _ HI) HP Hnil Hnil)
        as [HO' [HPs' HPl']].
      destruct (line_loop_eq a e (x0 :: stk) [] od []) as [H1 H2].
      assert (Htl : Tag (snd (line_loop S seqb a e (x0 :: stk) [] od []))).
      { rewrite H2. cbn [rev app]. intros k sp' H. apply in_map_iff in H.
        destruct H as [[k0 sp0] [El Hin]].
        assert (Hin' : In (k0, sp0) (x0 :: stk)).
        { rewrite (pre_post e (x0 :: stk)). apply in_or_app. left; exact Hin. }
        destruct (inv_tag _ _ HI k0 sp0 Hin') as [sp [Ho Est]].
        pose proof (lsf_style a e (k0, sp0)) as Hst'. rewrite El in Hst'.
        pose proof (lsf_fst a e (k0, sp0)) as Hf'. rewrite El in Hf'. cbn [fst snd] in Hst', Hf'.
        subst k0. exists sp. split; [exact Ho | congruence]. }
      rewrite (sort_by_ext _ fst).
      2:{ intros [k sp'] Hin. cbn [fst snd]. eapply od_key; [exact HO' | exact Htl | exact HPl' | exact Hin]. }
      revert HO' HPs'. rewrite H1, H2. cbn [rev app]. intros HO' HPs'. constructor.
      * intros j Hj. cbn [fst snd] in *. apply (line_styles t a e); assumption.
      * apply (IH e); [exact Hch | apply (inv_step t a e); assumption | exact HO' | exact HPs'].
Qed.

Lemma od0_O1 : forall l d, O1 d -> (forall x, In x l -> In x (orig t)) ->
  O1 (fold_left (fun d x => od_set S seqb d (snd x) (fst x)) l d).
Proof.
  induction l as [|[k sp] r IH]; intros d HO Hl; cbn [fold_left]; [exact HO|].
  apply IH; [|intros z Hz; apply Hl; right; exact Hz]. cbn [fst snd].
  apply O1_set; [exact HO|]. exists sp. split; [apply Hl; left; reflexivity | reflexivity].
Qed.

Lemma od0_present : forall (l : list (elt S)) d key,
  present d key \/ (exists k, In (k, key) l) ->
  present (fold_left (fun d x => od_set S seqb d (snd x) (fst x)) l d) key.
Proof.
  induction l as [|[k sp] r IH]; intros d key H; cbn [fold_left].
  - destruct H as [H|[k []]]. exact H.
  - apply IH. cbn [fst snd]. destruct H as [H|[k0 [H|H]]].
    + left. apply od_set_present, H.
    + injection H; intros; subst. left. exists k0. apply od_set_new.
    + right. exists k0; exact H.
Qed.

End AsIsText.

Theorem divide_styles_asis_partial : forall fx (t : text S) offs,
  fix_order fx = false -> NoDup (map (@sp_style S) (spans t)) ->
  mono_from3 0 (offs ++ [tlen S t]) ->
  Forall2 (fun r line =>
             plain line = zslice (plain t) (fst r) (snd r) /\ base line = base t /\
             forall j, 0 <= j < snd r - fst r -> cover_styles line j = cover_styles t (fst r + j))
          (zip_ranges (0 :: offs ++ [tlen S t])) (divide S seqb fx t offs).
Proof.
  intros fx t offs Hfx Hst Hm. change (Forall2 (line_ok t) (zip_ranges (0 :: offs ++ [tlen S t]))
                                         (divide S seqb fx t offs)).
  destruct offs as [|o os].
  - cbn [divide app zip_ranges]. constructor; [|constructor].
    split; [|split; [reflexivity|]].
    + cbn [fst snd]. unfold tlen. symmetry. apply zslice_all.
    + intros j _. cbn [fst]. rewrite Z.add_0_l. reflexivity.
  - unfold divide. cbv beta iota zeta. apply assemble3.
    pose proof (mono_chain3 _ _ Hm) as Hch.
    destruct (spans t) as [|s0 sl] eqn:Esp.
    + apply F2_nil. intros r _ j _. unfold cs3. rewrite Esp. reflexivity.
    + rewrite <- Esp in *. apply (divide_spans_ok_asis t Hst fx Hfx _ 0).
      * exact Hch.
      * apply inv_init.
      * apply od0_O1; [intros ? ? []|auto].
      * intros k sp' Hin. apply od0_present. right. exists k.
        apply sort_by_in in Hin. apply in_rev in Hin. exact Hin.
Qed.

End AsIs.

End DivideStyles.
