(* C07 deepening: (1) expand-exactness of _calculate_column_widths on every path (ratio columns,
   collapse, re-measure, min_width), built on C01's table arithmetic (LayoutP2: collapse_keeps_pos
   and the stage lemmas of calc_widths_fits) plus totality: the solver does not fail. *)
From RichModel Require Import Prelude Cells Segments Ratio Table SpecTable.
From RichProofs Require Import CellsP SegmentsP RatioP TableP LayoutP2.
From Coq Require Import ZifyBool.

Lemma forall2b_length {A B} (f : A -> B -> bool) : forall a b, forall2b f a b = true -> length a = length b.
Proof.
  induction a as [|x a IH]; intros [|y b] H; try discriminate; [reflexivity|].
  cbn [forall2b] in H. apply andb_true_iff in H as [_ H]. simpl. f_equal. apply IH. exact H.
Qed.

Lemma sumZ_pos_of_ones l : l <> [] -> Forall (fun x => 1 <= x) l -> 0 < sumZ l.
Proof.
  intros Hne H. destruct l as [|x l]; [congruence|]. inversion H; subst. rewrite sumZ_cons.
  assert (0 <= sumZ l) by (apply sumZ_nonneg; eapply Forall_impl; [|eassumption]; simpl; lia). lia.
Qed.

Lemma ratio_distribute_some_ok total ratios mins :
  mins <> [] -> 0 < sumZ (zip_mask ratios mins) -> exists out, ratio_distribute total ratios (Some mins) = Ok out.
Proof.
  intros Hne Hs. unfold ratio_distribute. destruct mins as [|m ms]; [congruence|].
  replace (sumZ (zip_mask ratios (m :: ms)) <=? 0) with false by lia. eexists. reflexivity.
Qed.

Lemma assign_flex_ok : forall cols ws fixed flex,
  length ws = length cols -> length fixed = length cols -> length flex = length (filter flexible cols) ->
  exists out, assign_flex cols ws fixed flex = Ok out.
Proof.
  induction cols as [|c cs IH]; intros ws fixed flex H1 H2 H3.
  - exists ws. reflexivity.
  - destruct ws as [|w ws]; [discriminate|]. destruct fixed as [|f fs]; [discriminate|].
    cbn [assign_flex]. cbn [filter] in H3. destruct (flexible c).
    + destruct flex as [|x flex']; [discriminate|].
      destruct (IH ws fs flex') as [rest R]; [simpl in *; lia..|]. rewrite R. eexists. reflexivity.
    + destruct (IH ws fs flex) as [rest R]; [simpl in *; lia..|]. rewrite R. eexists. reflexivity.
Qed.

(* the last step of the repaired code, with any min_width: an expanding table is padded to max_width *)
Lemma finish_expand o n wf M : t_expand o = true -> wf <> [] -> Forall (fun w => 1 <= w) wf -> sumZ wf <= M ->
  exists ws,
    (if ((sumZ wf <? M) && t_expand o)
        || match o_minw o with Some m => sumZ wf <? m - extra_width o n | None => false end
     then
       let mw := match o_minw o with
                 | None => M
                 | Some m => if negb false && t_expand o then M else Z.min (m - extra_width o n) M
                 end in
       do pad <- ratio_distribute (mw - sumZ wf) wf None; Ok (zip_add wf pad)
     else Ok wf) = Ok ws /\
    length ws = length wf /\ Forall (fun w => 1 <= w) ws /\ sumZ ws = M.
Proof.
  intros Hex Hne Hpos Hfit. rewrite Hex. cbn [negb andb].
  pose proof (sumZ_pos_of_ones wf Hne Hpos) as Hs0.
  assert (Hnn : Forall (fun r => 0 <= r) wf) by (eapply Forall_impl; [|exact Hpos]; simpl; lia).
  match goal with |- context [if ?c then _ else _] => destruct c eqn:Ec end.
  - assert (Hmw : match o_minw o with None => M | Some _ => M end = M) by (destruct (o_minw o); reflexivity).
    cbv zeta. rewrite Hmw.
    destruct (ratio_distribute_sum (M - sumZ wf) wf ltac:(lia) Hnn Hs0) as [pad [P1 [P2 [P3 P4]]]].
    rewrite P1. cbn [bind]. unfold distribute_sum_b in P2. eexists. split; [reflexivity|].
    split; [unfold zip_add; rewrite map_length, combine_length; lia|].
    split; [apply zip_add_ge; [lia|assumption|assumption]|rewrite zip_add_sum by lia; lia].
  - exists wf. split; [reflexivity|]. split; [reflexivity|]. split; [exact Hpos|].
    apply orb_false_iff in Ec as [Ec _]. rewrite andb_true_r in Ec. lia.
Qed.

(* _calculate_column_widths of the repaired code: an expanding table whose columns are free to
   wrap (no width, no min_width, no no_wrap; max_width and ratio allowed) and that is given one
   cell per column is solved -- no failure -- to EXACTLY the budget, on every path. *)
Lemma combine_map_l {A B} (F : A -> B) : forall l, combine (map F l) l = map (fun x => (F x, x)) l.
Proof. induction l as [|x l IH]; [reflexivity|]. cbn [map combine]. f_equal. exact IH. Qed.

Lemma filter_map_comm {A B} (g : A -> B) (p : B -> bool) : forall l, filter p (map g l) = map g (filter (fun x => p (g x)) l).
Proof. induction l as [|x l IH]; [reflexivity|]. cbn [map filter]. destruct (p (g x)); cbn [map]; [f_equal|]; exact IH. Qed.

(* the flexible minimums of the two variants, over the same filtered columns *)
Lemma flex_min_shape (fm : bool) o M (icols : list (nat * tcol)) :
  map (fun '(r, (i, c)) => let base := opt_or (c_width c) 1 + padding_width o i in
                           if fm then Z.max base (fst r) else base)
      (filter (fun ric : (Z * Z) * (nat * tcol) => flexible (snd (snd ric)))
              (combine (map (fun '(i, c) => measure_column o i c M) icols) icols))
  = map (fun '(i, c) => let base := opt_or (c_width c) 1 + padding_width o i in
                        if fm then Z.max base (fst (measure_column o i c M)) else base)
        (filter (fun ic => flexible (snd ic)) icols).
Proof.
  rewrite combine_map_l, filter_map_comm, map_map. cbn [snd]. apply map_ext. intros [i c]. reflexivity.
Qed.

Lemma calc_widths_x_false st cm o cols M : calc_widths_x false st cm o cols M = calc_widths st cm o cols M.
Proof. unfold calc_widths_x, calc_widths. cbv zeta. rewrite (flex_min_shape false). reflexivity. Qed.

Theorem calc_widths_x_expand_exact fm o cols M :
  t_expand o = true -> cols <> [] -> Forall col_free cols -> pad_ok o -> zlen cols <= M ->
  exists ws, calc_widths_x fm false false o cols M = Ok ws /\ length ws = length cols /\
             Forall (fun w => 1 <= w) ws /\ sumZ ws = M.
Proof.
  intros Hex Hne Hfree Hp HM. unfold calc_widths_x. rewrite Hex. cbv zeta. rewrite (flex_min_shape fm).
  pose proof (indexed_forall col_free cols 0%nat Hfree) as Hifree.
  destruct (initial_widths_pos o M Hp _ Hifree) as [Hr0 Hw0]. cbv zeta in Hr0, Hw0.
  set (icols := indexed 0 cols) in *.
  set (ranges := map (fun '(i, c) => measure_column o i c M) icols) in *.
  set (ws0 := map (fun r => or1 (snd r)) ranges) in *.
  assert (Hlr : length ranges = length cols) by (unfold ranges, icols; rewrite map_length; apply indexed_length).
  assert (Hl0 : length ws0 = length cols) by (unfold ws0; rewrite map_length; exact Hlr).
  (* stage 1: the ratio columns *)
  match goal with |- exists ws, bind ?e _ = _ /\ _ =>
    assert (H1 : exists wd, e = Ok wd /\ Forall (fun w => 1 <= w) wd /\ length wd = length cols) end.
  { match goal with |- context [any_nonzero ?r] => set (ratios := r) end.
    destruct (any_nonzero ratios) eqn:Ean; [|exists ws0; repeat split; assumption].
    match goal with |- context [ratio_distribute _ ratios (Some ?m)] => set (flex_min := m) end.
    assert (Hrat : Forall (fun r => 1 <= r) ratios).
    { unfold ratios. apply Forall_forall. intros x Hx. apply in_map_iff in Hx as [c [<- Hc]].
      apply filter_In in Hc as [Hc Hfl]. rewrite Forall_forall in Hfree.
      destruct (Hfree c Hc) as [_ [_ [_ [_ [Hr _]]]]]. unfold flexible in Hfl. unfold opt_or.
      destruct (c_ratio c) as [x|]; [|discriminate]. destruct (x =? 0) eqn:Ex; lia. }
    assert (Hmin : Forall (fun m => 1 <= m) flex_min).
    { unfold flex_min. apply Forall_forall. intros x Hx. apply in_map_iff in Hx as [[i c] [<- Hc]].
      apply filter_In in Hc as [Hc _]. apply indexed_in in Hc. rewrite Forall_forall in Hfree.
      destruct (Hfree c Hc) as [Hcw _]. rewrite Hcw. cbn [opt_or]. cbv zeta.
      pose proof (padding_width_nonneg o i Hp). destruct fm; lia. }
    assert (Hlm : length flex_min = length ratios).
    { unfold flex_min, ratios. rewrite !map_length. apply filter_indexed_length. }
    assert (Hzm : zip_mask ratios flex_min = ratios).
    { apply zip_mask_id; [exact Hlm|]. eapply Forall_impl; [|exact Hmin]. cbv beta. lia. }
    assert (Hrne : ratios <> []) by (intros E; rewrite E in Ean; discriminate).
    assert (Hmne : flex_min <> []) by (intros E; rewrite E in Hlm; destruct ratios; [congruence|discriminate]).
    match goal with |- context [ratio_distribute ?t ratios (Some flex_min)] =>
      destruct (ratio_distribute_some_ok t ratios flex_min Hmne
                  ltac:(rewrite Hzm; apply sumZ_pos_of_ones; assumption)) as [fw Ed] end.
    rewrite Ed. cbn [bind].
    pose proof (ratio_distribute_min _ ratios flex_min fw
                  ltac:(rewrite Hzm; eapply Forall_impl; [|exact Hrat]; cbv beta; lia) Hlm Ed) as Hdm.
    pose proof (distribute_min_pos _ _ Hdm Hmin) as Hfw.
    pose proof (forall2b_length _ _ _ Hdm) as Hlfw.
    match goal with |- context [assign_flex cols ws0 ?fx fw] => set (fixed := fx) end.
    assert (Hlfix : length fixed = length cols).
    { unfold fixed. rewrite map_length, combine_length. lia. }
    assert (Hfix : Forall (fun z => 0 <= z) fixed).
    { apply Forall_forall. intros x Hx. apply in_map_iff in Hx as [[r c] [<- Hrc]].
      destruct (flexible c); [lia|]. apply in_combine_l in Hrc. rewrite Forall_forall in Hr0. apply Hr0. exact Hrc. }
    destruct (assign_flex_ok cols ws0 fixed fw Hl0 Hlfix) as [wd Ea].
    { rewrite <- Hlfw, Hlm. unfold ratios. rewrite map_length. reflexivity. }
    destruct (assign_flex_pos _ _ _ _ _ Ea Hw0 Hfix Hfw) as [A1 A2].
    exists wd. split; [exact Ea|]. split; [exact A1|lia]. }
  destruct H1 as [wd [E1 [Hwd Hld]]]. rewrite E1. cbn [bind]. clear E1.
  (* stage 2: collapse and re-measure *)
  match goal with |- exists ws, bind ?e _ = _ /\ _ =>
    assert (H2 : exists wf, e = Ok (wf, sumZ wf) /\ Forall (fun w => 1 <= w) wf /\ length wf = length cols /\ sumZ wf <= M) end.
  { destruct (M <? sumZ wd) eqn:Elt.
    - assert (Hwd0 : Forall (fun w => 0 <= w) wd) by (eapply Forall_impl; [|exact Hwd]; simpl; lia).
      destruct (collapse_widths_spec wd (map wrapable cols) M ltac:(rewrite map_length; lia) Hwd0) as [w1 [Ec _]].
      rewrite Ec. cbn [bind].
      pose proof Ec as Ec'. apply collapse_keeps_pos in Ec'; [| | |exact Hwd|unfold zlen in *; lia].
      + destruct Ec' as [C1 [C2 [C3 C4]]]. specialize (C4 ltac:(lia)).
        replace (M <? sumZ w1) with false by lia. cbv beta iota.
        destruct (remeasure_pos o Hp w1 icols C1 ltac:(unfold icols; rewrite indexed_length; lia) Hifree) as [R1 [R2 R3]].
        cbv zeta in R1, R2, R3. eexists. split; [reflexivity|]. split; [exact R1|]. split; lia.
      + rewrite map_length. lia.
      + apply Forall_forall. intros b Hb. apply in_map_iff in Hb as [c [<- Hc]].
        rewrite Forall_forall in Hfree. destruct (Hfree c Hc) as [Hcw [_ [Hnw _]]].
        unfold wrapable. rewrite Hcw, Hnw. reflexivity.
    - exists wd. split; [reflexivity|]. split; [exact Hwd|]. split; [exact Hld|lia]. }
  destruct H2 as [wf [E2 [Hwf [Hlf Hfit]]]]. rewrite E2. cbn [bind]. clear E2.
  (* stage 3: expand *)
  assert (Hwfne : wf <> []) by (destruct wf; [destruct cols; [congruence|discriminate]|discriminate]).
  destruct (finish_expand o (length cols) wf M Hex Hwfne Hwf Hfit) as [ws [F1 [F2 [F3 F4]]]].
  rewrite Hex in F1. exists ws. split; [exact F1|]. split; [lia|]. split; assumption.
Qed.

Corollary calc_widths_expand_exact o cols M :
  t_expand o = true -> cols <> [] -> Forall col_free cols -> pad_ok o -> zlen cols <= M ->
  exists ws, calc_widths false false o cols M = Ok ws /\ length ws = length cols /\
             Forall (fun w => 1 <= w) ws /\ sumZ ws = M.
Proof. rewrite <- calc_widths_x_false. apply calc_widths_x_expand_exact. Qed.

(* ... as the property states it: asked to expand, no column width / min_width / no_wrap, one
   cell per column available beyond the borders  =>  borders + widths = the width asked for, and
   every printed line of the body is exactly that wide *)
Theorem table_expand_exact fm o b cols avail rows :
  box_agrees o b -> t_expand o = true -> cols <> [] -> Forall col_free cols -> pad_ok o ->
  extra_width o (length cols) + zlen cols <= target_width o avail ->
  exists ws, table_widths_x fm false false o cols avail = Ok ws /\ length ws = length cols /\
    Forall (fun w => 1 <= w) ws /\
    extra_width o (length cols) + sumZ ws = target_width o avail /\
    (Forall (fun r => length (r_cells r) = length ws) rows ->
     exists lines, render_table false o b ws rows = Ok lines /\
                   expand_exact_b (target_width o avail) (map line_text lines) = true).
Proof.
  intros Hb Hex Hne Hfree Hp HW. unfold table_widths_x.
  destruct (calc_widths_x_expand_exact fm o cols (target_width o avail - extra_width o (length cols)) Hex Hne Hfree Hp ltac:(lia))
    as [ws [W1 [W2 [W3 W4]]]].
  exists ws. split; [exact W1|]. split; [exact W2|]. split; [exact W3|]. split; [lia|]. intros Hr.
  assert (Hne' : ws <> []) by (destruct ws; [destruct cols; [congruence|discriminate]|discriminate]).
  assert (Hw0 : Forall (fun w => 0 <= w) ws) by (eapply Forall_impl; [|exact W3]; simpl; intros; lia).
  destruct (table_rows_equal_width o b ws rows Hb Hne' Hw0 Hr) as [lines [L1 [L2 _]]].
  exists lines. split; [exact L1|]. rewrite W2, W4 in L2.
  replace (extra_width o (length cols) + (target_width o avail - extra_width o (length cols)))
    with (target_width o avail) in L2 by lia. exact L2.
Qed.

(* the hypothesis "no column min_width" is needed: the collapse levels a min_width column like any
   other and the re-measure then clamps it back up -- 26 cells handed out of a budget of 24 although
   10 + 1 + 1 would do (replayed on rich: Table(Column(min_width=10), "b"*12, "c"*12, box=None,
   padding=0) at width 24 prints 26 wide).  Column min_width is outside C07's quantifier. *)
Definition minw_opts : topts := mkOpts false false false false false 0 (0, 0, 0, 0) false true true None None.
Definition minw_cols : list tcol :=
  [mkCol None (Some 10) None None false (text_cells minw_opts 3 0 [(1, 1)]);
   mkCol None None None None false (text_cells minw_opts 3 1 [(12, 12)]);
   mkCol None None None None false (text_cells minw_opts 3 2 [(12, 12)])].
Lemma table_expand_exact_minw_needed :
  calc_widths false false minw_opts minw_cols 24 = Ok [10; 8; 8] /\ sumZ [10; 8; 8] <> 24.
Proof. split; [vm_compute; reflexivity|vm_compute; discriminate]. Qed.

(* ------------------------------------------------------------------ the decidable domain *)
(* Table.expand_dom_b is the guard the harness evaluates before demanding expand_exact_b of the
   implementation's output; it implies the hypotheses of table_expand_exact *)
Lemma col_free_b_ok c : col_free_b c = true -> Forall cell_fun_ok (c_cells c) -> col_free c.
Proof.
  unfold col_free_b, col_free. intros H Hc.
  destruct (c_width c); [discriminate|]. destruct (c_minw c); [discriminate|].
  destruct (c_nowrap c); [discriminate|]. cbn [negb andb] in H.
  apply andb_true_iff in H as [H1 H2].
  repeat split; try reflexivity; [destruct (c_maxw c); [lia|constructor]|destruct (c_ratio c); [lia|constructor]|exact Hc].
Qed.

Theorem table_expand_exact_dom fm o b cols avail rows :
  box_agrees o b -> expand_dom_b o cols avail = true ->
  Forall (fun c => Forall cell_fun_ok (c_cells c)) cols ->
  exists ws, table_widths_x fm false false o cols avail = Ok ws /\ length ws = length cols /\
    Forall (fun w => 1 <= w) ws /\
    extra_width o (length cols) + sumZ ws = target_width o avail /\
    (Forall (fun r => length (r_cells r) = length ws) rows ->
     exists lines, render_table false o b ws rows = Ok lines /\
                   expand_exact_b (target_width o avail) (map line_text lines) = true).
Proof.
  intros Hb Hd Hcells. unfold expand_dom_b in Hd.
  apply andb_true_iff in Hd as [Hd H6]. apply andb_true_iff in Hd as [Hd H5]. apply andb_true_iff in Hd as [Hd H4].
  apply andb_true_iff in Hd as [Hd H3]. apply andb_true_iff in Hd as [H1 H2].
  apply (table_expand_exact fm o b cols avail rows Hb H1).
  - destruct cols; [discriminate|discriminate].
  - rewrite forallb_forall in H3. apply Forall_forall. intros c Hc. apply col_free_b_ok; [apply H3; exact Hc|].
    rewrite Forall_forall in Hcells. apply Hcells. exact Hc.
  - unfold pad_ok, pad_right, pad_left in *. destruct (o_pad o) as [[[t r] bb] l]. lia.
  - unfold zlen. lia.
Qed.

(* the measurement of a padded text cell is always normalised: text tables are in the domain *)
Lemma measure_get_ok raw w :
  0 <= fst (measure_get raw w) /\ fst (measure_get raw w) <= snd (measure_get raw w) /\
  snd (measure_get raw w) <= Z.max w 0.
Proof.
  unfold measure_get. destruct (w <? 1) eqn:E; [cbn [fst snd]; lia|]. cbv zeta.
  destruct (snd (tm_with_maximum (tm_normalize raw) w) <? 1) eqn:E2; [cbn [fst snd]; lia|].
  unfold tm_normalize, tm_with_maximum in *. destruct raw as [a b]. cbn [fst snd] in *. lia.
Qed.

Lemma text_cell_measure_ok tmin tmax pad : cell_fun_ok (text_cell_measure tmin tmax pad).
Proof. intros w. unfold text_cell_measure. destruct pad; apply measure_get_ok. Qed.

Lemma text_cells_ok o n i raws : Forall cell_fun_ok (text_cells o n i raws).
Proof.
  unfold text_cells. apply Forall_forall. intros f Hf. apply in_map_iff in Hf as [[k [tmin tmax]] [<- _]].
  apply text_cell_measure_ok.
Qed.

(* observation: a ratio column is only guaranteed (width or 1) + padding cells.  When the other
   columns exceed the budget it is squeezed to ONE cell at any available width -- here [1; 19] at
   width 20 although its cell measures 2 (a double-width character) and [2; 18] would show
   everything.  Inside expand_dom_b (the width IS exact), outside cell_room (content width >= 2). *)
Definition ratio1_opts : topts := mkOpts false false false false false 0 (0, 0, 0, 0) false true true None None.
Definition ratio1_cols : list tcol :=
  [mkCol None None None (Some 1) false (text_cells ratio1_opts 2 0 [(2, 2)]);
   mkCol None None None None false (text_cells ratio1_opts 2 1 [(29, 76)])].
Lemma ratio_column_one_cell :
  table_widths false false ratio1_opts ratio1_cols 20 = Ok [1; 19] /\ expand_dom_b ratio1_opts ratio1_cols 20 = true.
Proof. split; vm_compute; reflexivity. Qed.

(* the finding and its repair, on the model: the solver as found hands the ratio column of this table
   (in the expand domain, width far above the structural minimum) fewer cells than the measured
   minimum of its cell; with the flexible minimum of fixes/C07_ratio_column_minimum.diff it gets it *)
Lemma ratio_column_minimum_asis_refuted :
  exists o cols avail ws w0 rest,
    expand_dom_b o cols avail = true /\
    table_widths_x false false false o cols avail = Ok ws /\ ws = w0 :: rest /\
    (exists c cs f fs, cols = c :: cs /\ c_cells c = f :: fs /\ w0 < fst (f avail)) /\
    (exists ws', table_widths_x true false false o cols avail = Ok ws' /\ ws' = [2; 18]).
Proof.
  exists ratio1_opts, ratio1_cols, 20, [1; 19], 1, [19].
  split; [vm_compute; reflexivity|]. split; [vm_compute; reflexivity|]. split; [reflexivity|]. split.
  - eexists _, _, _, _. split; [reflexivity|]. split; [reflexivity|]. vm_compute. reflexivity.
  - exists [2; 18]. split; [vm_compute; reflexivity|reflexivity].
Qed.
