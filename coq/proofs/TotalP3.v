(* C14: rendering and measuring renderable trees (Layout.render / Layout.measure of b-C01) never fail
   on the fragment whose nodes make no partial operation of their own: Text, Padding, Panel, Align,
   Constrain, Styled, RenderGroup, Rule, Bar, ProgressBar, objects without __rich_measure__, __rich__
   casts, nested to any depth, at EVERY width. *)
From RichModel Require Import Prelude Total SpecTotal.
From RichModel Require Import Frames Layout.

Fixpoint simple (r : R) : bool :=
  match r with
  | Txt _ _ _ _ | Rule _ _ _ | Bar _ _ _ _ | PBar _ _ _ _ _ => true
  | Pad c _ _ _ _ _ | Panel c _ | Align c _ _ _ | Constrain c _ | Styled c | NoMeasure c | Cast c => simple c
  | Group cs _ => forallb simple cs
  | Tbl _ _ | Cols _ _ | Tree _ _ _ => false
  end.

Section RInd.
  Variable P : R -> Prop.
  Hypothesis HTxt : forall s j o n, P (Txt s j o n).
  Hypothesis HPad : forall c t r b l e, P c -> P (Pad c t r b l e).
  Hypothesis HPanel : forall c o, P c -> P (Panel c o).
  Hypothesis HAlign : forall c h p w, P c -> P (Align c h p w).
  Hypothesis HConstrain : forall c w, P c -> P (Constrain c w).
  Hypothesis HStyled : forall c, P c -> P (Styled c).
  Hypothesis HGroup : forall cs fit, Forall P cs -> P (Group cs fit).
  Hypothesis HRule : forall t c h, P (Rule t c h).
  Hypothesis HBar : forall s b e w, P (Bar s b e w).
  Hypothesis HPBar : forall t c w p a, P (PBar t c w p a).
  Hypothesis HTbl : forall t rows, P (Tbl t rows).
  Hypothesis HCols : forall items o, P (Cols items o).
  Hypothesis HTree : forall lab kids ex, P (Tree lab kids ex).
  Hypothesis HNoMeasure : forall c, P c -> P (NoMeasure c).
  Hypothesis HCast : forall c, P c -> P (Cast c).

  Fixpoint R_ind_groups (r : R) : P r :=
    match r with
    | Txt s j o n => HTxt s j o n
    | Pad c t rr b l e => HPad c t rr b l e (R_ind_groups c)
    | Panel c o => HPanel c o (R_ind_groups c)
    | Align c h p w => HAlign c h p w (R_ind_groups c)
    | Constrain c w => HConstrain c w (R_ind_groups c)
    | Styled c => HStyled c (R_ind_groups c)
    | Group cs fit =>
        HGroup cs fit ((fix go (l : list R) : Forall P l :=
                          match l with
                          | [] => Forall_nil P
                          | x :: t => Forall_cons x (R_ind_groups x) (go t)
                          end) cs)
    | Rule t c h => HRule t c h
    | Bar s b e w => HBar s b e w
    | PBar t c w p a => HPBar t c w p a
    | Tbl t rows => HTbl t rows
    | Cols items o => HCols items o
    | Tree lab kids ex => HTree lab kids ex
    | NoMeasure c => HNoMeasure c (R_ind_groups c)
    | Cast c => HCast c (R_ind_groups c)
    end.
End RInd.

Lemma first_some_none l : Forall (fun x => x = None) l -> first_some l = None.
Proof.
  unfold first_some. induction 1 as [|x l Hx Hl IH]; [reflexivity|]. cbn [fold_right]. rewrite Hx. exact IH.
Qed.

Theorem fails_simple : forall r, simple r = true -> forall cf ro W, fails cf r ro W = None.
Proof.
  apply (R_ind_groups (fun r => simple r = true -> forall cf ro W, fails cf r ro W = None));
    try (intros; cbn [simple] in *; discriminate).
  - intros s j o n _ cf ro W. cbn [fails]. destruct (W <? 1); reflexivity.
  - intros c t r b l e IH Hs cf ro W. cbn [fails]. destruct (W <? 1); [reflexivity|]. apply IH. exact Hs.
  - intros c o IH Hs cf ro W. cbn [fails]. destruct (W <? 1); [reflexivity|].
    destruct (p_pad o) as [[[t rr] b] l]. apply IH. exact Hs.
  - intros c h p w IH Hs cf ro W. cbn [fails]. destruct (W <? 1); [reflexivity|].
    apply first_some_none. repeat constructor; apply IH; exact Hs.
  - intros c w IH Hs cf ro W. cbn [fails]. destruct (W <? 1); [reflexivity|]. apply IH. exact Hs.
  - intros c IH Hs cf ro W. cbn [fails]. destruct (W <? 1); [reflexivity|]. apply IH. exact Hs.
  - intros cs fit IH Hs cf ro W. cbn [fails]. destruct (W <? 1); [reflexivity|].
    apply first_some_none. cbn [simple] in Hs. rewrite forallb_forall in Hs.
    apply Forall_forall. intros x Hx. apply in_map_iff in Hx as [c [Hc Hin]]. subst x.
    rewrite Forall_forall in IH. apply IH; [exact Hin|apply Hs; exact Hin].
  - intros t c h _ cf ro W. cbn [fails]. destruct (W <? 1); reflexivity.
  - intros s b e w _ cf ro W. cbn [fails]. destruct (W <? 1); reflexivity.
  - intros t c w p a _ cf ro W. cbn [fails]. destruct (W <? 1); reflexivity.
  - intros c IH Hs cf ro W. cbn [fails]. destruct (W <? 1); [reflexivity|]. apply IH. exact Hs.
  - intros c IH Hs cf ro W. cbn [fails]. destruct (W <? 1); [reflexivity|]. apply IH. exact Hs.
Qed.

Theorem render_simple_total cf r W : simple r = true -> exists ls, Total.render cf r W = Ok ls.
Proof. intros H. unfold Total.render, Layout.render. rewrite (fails_simple r H). eexists. reflexivity. Qed.

Theorem measure_simple_total cf r W : simple r = true -> exists m, Total.measure cf r W = Ok m.
Proof. intros H. unfold Total.measure, Layout.measure. rewrite (fails_simple r H). eexists. reflexivity. Qed.

(* the remaining constructors fail exactly where the Frames / Table models of their own arithmetic fail *)
Lemma cols_fails_iff cf items o ro W : 1 <= W -> items <> [] ->
  (forall c, In c items -> fails cf c ro W = None) ->
  fails cf (Cols items o) ro W =
    res_fail (columns_grid (map (fun c => snd (mget (den cf c ro) W)) items) None
                           (snd (co_pad o)) (snd (fst (fst (co_pad o)))) (co_equal o) (co_cf o) (co_rtl o) W).
Proof.
  intros HW Hne Hall. cbn [fails]. assert (E : W <? 1 = false) by lia. rewrite E.
  destruct items as [|i0 items]; [congruence|].
  destruct (co_pad o) as [[[pt pr] pb] pl]. cbn [fst snd].
  match goal with |- context [columns_grid ?a ?b ?c ?d ?e ?f ?g ?h] => destruct (columns_grid a b c d e f g h) end; cbn [res_fail]; try reflexivity.
  apply first_some_none. apply Forall_forall. intros x Hx. apply in_map_iff in Hx as [c [Hc Hin]]. subst x.
  apply Hall. exact Hin.
Qed.

Example render_simple_nonvacuous :
  simple (Panel (Group [Txt (lit "hello world") None None None; Rule (lit "t") [9472] 1] true)
                (mkPanel 0 true false false (lit "title") 1 true None (0, 1, 0, 1) None None)) = true.
Proof. reflexivity. Qed.
