(* C20 proofs, part 1: dictionaries, the concrete stack, refinement to the specification stack. *)
From RichModel Require Import Prelude Theme SpecTheme.
From Coq Require Import Permutation.

(* ---------------------------------------------------------------- strings *)
Lemma seqb_refl : forall s, str_eqb s s = true.
Proof. induction s as [|c s IH]; simpl; [reflexivity|]. rewrite Z.eqb_refl, IH. reflexivity. Qed.

Lemma seqb_eq : forall a b, str_eqb a b = true -> a = b.
Proof.
  induction a as [|x a IH]; intros [|y b] H; simpl in H; try discriminate; [reflexivity|].
  apply andb_true_iff in H. destruct H as [H1 H2]. apply Z.eqb_eq in H1. subst. f_equal. auto.
Qed.

Lemma seqb_neq : forall a b, str_eqb a b = false -> a <> b.
Proof. intros a b H E. subst. rewrite seqb_refl in H. discriminate. Qed.

Lemma seqb_sym : forall a b, str_eqb a b = str_eqb b a.
Proof.
  intros a b. destruct (str_eqb a b) eqn:E.
  - apply seqb_eq in E. subst. symmetry. apply seqb_refl.
  - destruct (str_eqb b a) eqn:E2; [|reflexivity]. apply seqb_eq in E2. subst.
    rewrite seqb_refl in E. discriminate.
Qed.

(* ---------------------------------------------------------------- dict *)
Lemma has_key_In : forall {A} (d : list (str * A)) k, has_key d k = true <-> In k (map fst d).
Proof.
  induction d as [|[k' v] d IH]; intros k; simpl.
  - split; [discriminate|tauto].
  - rewrite orb_true_iff, IH. split.
    + intros [H|H]; [left; apply seqb_eq; exact H|right; exact H].
    + intros [H|H]; [left; subst; apply seqb_refl|right; exact H].
Qed.

Lemma has_key_false : forall {A} (d : list (str * A)) k, has_key d k = false <-> ~ In k (map fst d).
Proof.
  intros A d k. rewrite <- has_key_In. destruct (has_key d k); split; intros H.
  - discriminate.
  - exfalso. apply H. reflexivity.
  - discriminate.
  - reflexivity.
Qed.

Lemma uniq_NoDup : forall {A} (d : list (str * A)), uniq_keys d = true <-> NoDup (map fst d).
Proof.
  induction d as [|[k v] d IH]; simpl.
  - split; [constructor|reflexivity].
  - rewrite andb_true_iff, negb_true_iff, IH, has_key_false. split.
    + intros [H1 H2]. constructor; assumption.
    + intros H. inversion H; subst. split; assumption.
Qed.

Lemma has_key_dget : forall (d : dict) n, has_key d n = match dget d n with Some _ => true | None => false end.
Proof.
  induction d as [|[k v] d IH]; intros n; simpl; [reflexivity|].
  destruct (str_eqb k n); simpl; [reflexivity|apply IH].
Qed.

Lemma dget_dset : forall d k v n, dget (dset d k v) n = if str_eqb k n then Some v else dget d n.
Proof.
  induction d as [|[k' v'] d IH]; intros k v n; simpl; [reflexivity|].
  destruct (str_eqb k' k) eqn:E; simpl.
  - apply seqb_eq in E. subst k'. destruct (str_eqb k n); reflexivity.
  - rewrite IH. destruct (str_eqb k' n) eqn:E2; [|reflexivity].
    apply seqb_eq in E2. subst n. rewrite seqb_sym, E. reflexivity.
Qed.

Lemma dget_dupdate : forall e d n, uniq_keys e = true ->
  dget (dupdate d e) n = match dget e n with Some v => Some v | None => dget d n end.
Proof.
  unfold dupdate. induction e as [|[k v] e IH]; intros d n U; simpl; [reflexivity|].
  simpl in U. apply andb_true_iff in U. destruct U as [U1 U2]. apply negb_true_iff in U1.
  rewrite IH by exact U2. rewrite dget_dset.
  destruct (str_eqb k n) eqn:E; [|reflexivity].
  apply seqb_eq in E. subst n. rewrite has_key_dget in U1.
  destruct (dget e k); [discriminate|reflexivity].
Qed.

Lemma keys_dset : forall d k v,
  map fst (dset d k v) = if has_key d k then map fst d else map fst d ++ [k].
Proof.
  induction d as [|[k' v'] d IH]; intros k v; simpl; [reflexivity|].
  destruct (str_eqb k' k) eqn:E; simpl; [reflexivity|].
  rewrite IH. destruct (has_key d k); reflexivity.
Qed.

Lemma uniq_dset : forall d k v, uniq_keys d = true -> uniq_keys (dset d k v) = true.
Proof.
  intros d k v U. apply uniq_NoDup. rewrite keys_dset. apply uniq_NoDup in U.
  destruct (has_key d k) eqn:E; [exact U|].
  apply has_key_false in E.
  apply NoDup_rev in U. rewrite <- (rev_involutive (map fst d ++ [k])). apply NoDup_rev.
  rewrite rev_app_distr. simpl. constructor; [|exact U].
  rewrite <- in_rev. exact E.
Qed.

Lemma uniq_dupdate : forall e d, uniq_keys d = true -> uniq_keys (dupdate d e) = true.
Proof.
  unfold dupdate. induction e as [|[k v] e IH]; intros d U; simpl; [exact U|].
  apply IH. apply uniq_dset. exact U.
Qed.

Lemma dset_fresh : forall d k v, has_key d k = false -> dset d k v = d ++ [(k, v)].
Proof.
  induction d as [|[k' v'] d IH]; intros k v H; simpl in *; [reflexivity|].
  apply orb_false_iff in H. destruct H as [H1 H2]. rewrite H1. f_equal. apply IH. exact H2.
Qed.

Lemma dupdate_fresh : forall e acc, uniq_keys (acc ++ e) = true -> dupdate acc e = acc ++ e.
Proof.
  unfold dupdate. induction e as [|[k v] e IH]; intros acc U; simpl.
  - rewrite app_nil_r. reflexivity.
  - assert (F : has_key acc k = false).
    { apply has_key_false. apply uniq_NoDup in U. rewrite map_app in U. simpl in U.
      apply NoDup_remove_2 in U. intros H. apply U. apply in_or_app. left. exact H. }
    rewrite dset_fresh by exact F. rewrite IH; rewrite <- app_assoc; simpl; [reflexivity|exact U].
Qed.

Lemma dupdate_nil_uniq : forall e, uniq_keys e = true -> dupdate [] e = e.
Proof. intros e U. apply (dupdate_fresh e []). exact U. Qed.

(* with unique keys, dget is membership *)
Lemma dget_In : forall (d : dict) n v, uniq_keys d = true -> (dget d n = Some v <-> In (n, v) d).
Proof.
  induction d as [|[k w] d IH]; intros n v U; simpl.
  - split; [discriminate|tauto].
  - simpl in U. apply andb_true_iff in U. destruct U as [U1 U2]. apply negb_true_iff in U1.
    destruct (str_eqb k n) eqn:E.
    + apply seqb_eq in E. subst n. split.
      * intros H. injection H as H. subst. left. reflexivity.
      * intros [H|H]; [injection H as H; subst; reflexivity|].
        exfalso. apply has_key_false in U1. apply U1. apply in_map_iff. exists (k, v). split; [reflexivity|exact H].
    + rewrite IH by exact U2. split; [intros H; right; exact H|].
      intros [H|H]; [|exact H]. injection H as H1 H2. subst. rewrite seqb_refl in E. discriminate.
Qed.

Lemma dget_perm : forall (d d' : dict) n, uniq_keys d = true -> Permutation d d' -> dget d n = dget d' n.
Proof.
  intros d d' n U P.
  assert (U' : uniq_keys d' = true).
  { apply uniq_NoDup. apply uniq_NoDup in U. eapply Permutation_NoDup; [|exact U]. apply Permutation_map. exact P. }
  destruct (dget d n) as [v|] eqn:E.
  - apply (dget_In d n v U) in E. symmetry. apply (dget_In d' n v U'). eapply Permutation_in; eassumption.
  - destruct (dget d' n) as [v|] eqn:E'; [|reflexivity].
    apply (dget_In d' n v U') in E'. apply Permutation_sym in P.
    assert (In (n, v) d) by (eapply Permutation_in; eassumption).
    apply (dget_In d n v U) in H. congruence.
Qed.

(* ---------------------------------------------------------------- the concrete stack *)
(* the cached bound method points at the top entry *)
Definition ts_inv (s : tstack) : Prop := getd s = top s.

Lemma ts_inv_init : forall d, ts_inv (ts_init d).
Proof. reflexivity. Qed.
Lemma ts_inv_push : forall th i s, ts_inv (ts_push th i s).
Proof. reflexivity. Qed.
Lemma ts_inv_pop : forall s s', ts_pop s = Ok s' -> ts_inv s'.
Proof. intros s s' H. unfold ts_pop in H. destruct (below s); inversion H. reflexivity. Qed.

Lemma ts_pop_push : forall th i s, ts_inv s -> ts_pop (ts_push th i s) = Ok s.
Proof. intros th i [t b g] H. unfold ts_inv in H. simpl in H. subst. reflexivity. Qed.

Lemma ts_pop_init : forall d, ts_pop (ts_init d) = Doc E_ThemeStackError.
Proof. reflexivity. Qed.

Lemma last_cons : forall {A} (l : list A) a d, last (a :: l) d = last l a.
Proof.
  induction l as [|b l IH]; intros a d; [reflexivity|].
  change (last (a :: b :: l) d) with (last (b :: l) d). rewrite (IH b d), (IH b a). reflexivity.
Qed.

Lemma ts_base_push : forall th i s, ts_base (ts_push th i s) = ts_base s.
Proof. intros th i s. unfold ts_base, ts_push. simpl below. simpl top. apply last_cons. Qed.

Lemma ts_base_pop : forall s s', ts_pop s = Ok s' -> ts_base s' = ts_base s.
Proof.
  intros s s' H. unfold ts_pop in H. destruct (below s) as [|d r] eqn:E; inversion H.
  unfold ts_base. simpl. rewrite E. symmetry. apply last_cons.
Qed.

(* ---------------------------------------------------------------- induction over commands *)
Section CmdInd.
Variable P : cmd -> Prop.
Variable Q : list cmd -> Prop.
Hypothesis Hpush : forall th i, P (CPush th i).
Hypothesis Hpop : P CPop.
Hypothesis Huse : forall th i b, Q b -> P (CUse th i b).
Hypothesis Htry : forall b, Q b -> P (CTry b).
Hypothesis Hraise : P CRaise.
Hypothesis Hget : forall n d, P (CGet n d).
Hypothesis Hnil : Q [].
Hypothesis Hcons : forall c r, P c -> Q r -> Q (c :: r).

Fixpoint cmd_ind2 (c : cmd) : P c :=
  match c with
  | CPush th i => Hpush th i
  | CPop => Hpop
  | CUse th i b =>
      Huse th i b ((fix go (l : list cmd) : Q l :=
                      match l with [] => Hnil | c :: r => Hcons c r (cmd_ind2 c) (go r) end) b)
  | CTry b =>
      Htry b ((fix go (l : list cmd) : Q l :=
                 match l with [] => Hnil | c :: r => Hcons c r (cmd_ind2 c) (go r) end) b)
  | CRaise => Hraise
  | CGet n d => Hget n d
  end.

Lemma cmds_ind2 : forall l, Q l.
Proof. induction l as [|c r IH]; [exact Hnil|]. apply Hcons; [apply cmd_ind2|exact IH]. Qed.
End CmdInd.

(* ---------------------------------------------------------------- unfolding exec *)
Section ExecLemmas.
Variable parse : str -> option Z.
Variable M : machine.
Variable fwd : bool.

Notation exec := (exec parse M fwd).
Notation exec_list := (exec_list parse M fwd).

Lemma exec_list_nil : forall s, exec_list [] s = (s, None, []).
Proof. reflexivity. Qed.

Lemma exec_list_cons : forall c r s,
  exec_list (c :: r) s =
  let '(s1, o1, t1) := exec c s in
  match o1 with
  | Some e => (s1, Some e, t1)
  | None => let '(s2, o2, t2) := exec_list r s1 in (s2, o2, t1 ++ t2)
  end.
Proof. reflexivity. Qed.

Lemma exec_use : forall th i b s,
  exec (CUse th i b) s =
  let s1 := m_push M th (if fwd then i else true) s in
  let '(s2, o2, t2) := exec_list b s1 in
  match m_pop M s2 with
  | Ok s3 => (s3, o2, EvSt s1 :: t2 ++ [EvSt s3])
  | Doc e => (s2, Some e, EvSt s1 :: t2 ++ [EvSt s2])
  | Crash k => (s2, Some (1000 + k), EvSt s1 :: t2 ++ [EvSt s2])
  end.
Proof. reflexivity. Qed.

Lemma exec_try : forall b s,
  exec (CTry b) s = let '(s1, _, t1) := exec_list b s in (s1, None, t1).
Proof. reflexivity. Qed.

Lemma exec_list_app : forall a b s,
  exec_list (a ++ b) s =
  let '(s1, o1, t1) := exec_list a s in
  match o1 with
  | Some e => (s1, Some e, t1)
  | None => let '(s2, o2, t2) := exec_list b s1 in (s2, o2, t1 ++ t2)
  end.
Proof.
  induction a as [|c a IH]; intros b s.
  - simpl app. rewrite exec_list_nil. destruct (exec_list b s) as [[s2 o2] t2]. reflexivity.
  - simpl app. rewrite !exec_list_cons.
    destruct (exec c s) as [[s1 o1] t1]. destruct o1 as [e|]; [reflexivity|].
    rewrite IH. destruct (exec_list a s1) as [[s2 o2] t2]. destruct o2 as [e|]; [reflexivity|].
    destruct (exec_list b s2) as [[s3 o3] t3]. rewrite app_assoc. reflexivity.
Qed.
End ExecLemmas.

(* ---------------------------------------------------------------- refinement *)
(* the concrete stack that a list of frames over a base theme stands for *)
Fixpoint conc_of (base : dict) (fr : frames) : tstack :=
  match fr with
  | [] => ts_init base
  | (th, i) :: r => ts_push th i (conc_of base r)
  end.

Lemma conc_of_inv : forall base fr, ts_inv (conc_of base fr).
Proof. intros base [|[th i] r]; reflexivity. Qed.

(* the merged dictionary on top of the stack answers like the specification's frame walk *)
Lemma get_conc_of : forall base fr n, wf_frames fr = true ->
  dget (getd (conc_of base fr)) n = spec_lookup base fr n.
Proof.
  induction fr as [|[th i] r IH]; intros n W; [reflexivity|].
  simpl in W. apply andb_true_iff in W. destruct W as [W1 W2].
  simpl conc_of. unfold ts_push. simpl getd. simpl spec_lookup.
  destruct i.
  - rewrite dget_dupdate by exact W1. rewrite <- (conc_of_inv base r). rewrite IH by exact W2. reflexivity.
  - destruct (dget th n); reflexivity.
Qed.

Lemma pop_sim : forall base fr,
  ts_pop (conc_of base fr) =
  match spec_pop fr with Ok r => Ok (conc_of base r) | Doc e => Doc e | Crash k => Crash k end.
Proof.
  intros base [|[th i] r]; [reflexivity|]. simpl conc_of. rewrite ts_pop_push by apply conc_of_inv. reflexivity.
Qed.

Definition ev_map {A B} (f : A -> B) (e : event A) : event B :=
  match e with EvSt s => EvSt (f s) | EvGet r => EvGet r end.

Definition ev_wf (e : event frames) : bool :=
  match e with EvSt fr => wf_frames fr | EvGet _ => true end.

Section Refine.
Variable parse : str -> option Z.
Variable base : dict.

Notation cexec := (exec parse conc true).
Notation sexec := (exec parse (specm base) true).
Notation cexec_list := (exec_list parse conc true).
Notation sexec_list := (exec_list parse (specm base) true).

Lemma lookup1_sim : forall fr n, wf_frames fr = true ->
  lookup1 parse conc (conc_of base fr) n = lookup1 parse (specm base) fr n.
Proof. intros fr n W. unfold lookup1. simpl m_get. rewrite get_conc_of by exact W. reflexivity. Qed.

Lemma get_style_sim : forall fr name d, wf_frames fr = true ->
  get_style parse conc (conc_of base fr) name d = get_style parse (specm base) fr name d.
Proof.
  intros fr name d W. unfold get_style. destruct name as [v|n]; [reflexivity|].
  simpl m_get. rewrite get_conc_of by exact W.
  destruct (spec_lookup base fr n); [reflexivity|]. destruct (parse n); [reflexivity|].
  destruct d as [[v|dn]|]; try reflexivity. apply lookup1_sim. exact W.
Qed.

Definition sim_cmd (c : cmd) : Prop :=
  forall fr fr' o t, wf_cmd c = true -> wf_frames fr = true -> sexec c fr = (fr', o, t) ->
    cexec c (conc_of base fr) = (conc_of base fr', o, map (ev_map (conc_of base)) t)
    /\ wf_frames fr' = true /\ forallb ev_wf t = true.
Definition sim_list (l : list cmd) : Prop :=
  forall fr fr' o t, forallb wf_cmd l = true -> wf_frames fr = true -> sexec_list l fr = (fr', o, t) ->
    cexec_list l (conc_of base fr) = (conc_of base fr', o, map (ev_map (conc_of base)) t)
    /\ wf_frames fr' = true /\ forallb ev_wf t = true.

Lemma wf_frames_tail : forall f r, wf_frames (f :: r) = true -> wf_frames r = true.
Proof. intros f r H. simpl in H. apply andb_true_iff in H. tauto. Qed.

Lemma sim_all : forall c, sim_cmd c.
Proof.
  apply (cmd_ind2 sim_cmd sim_list); unfold sim_cmd, sim_list.
  - (* push *) intros th i fr fr' o t W Wf H. simpl in H. inversion H; subst. clear H.
    simpl in W. split; [reflexivity|]. simpl. rewrite W, Wf. auto.
  - (* pop *) intros fr fr' o t _ Wf H. simpl in H. simpl exec. rewrite pop_sim.
    destruct fr as [|f r]; simpl in H; inversion H; subst; clear H.
    + split; [reflexivity|]. simpl. auto.
    + simpl spec_pop. pose proof (wf_frames_tail _ _ Wf) as Wr.
      split; [reflexivity|]. simpl. rewrite Wr. auto.
  - (* use *) intros th i b IH fr fr' o t W Wf H.
    simpl in W. apply andb_true_iff in W. destruct W as [W1 W2].
    rewrite exec_use in H. rewrite exec_use. simpl m_push in *. simpl m_pop in *. cbv zeta in *.
    assert (Wf1 : wf_frames ((th, i) :: fr) = true) by (simpl; rewrite W1, Wf; reflexivity).
    destruct (sexec_list b ((th, i) :: fr)) as [[fr2 o2] t2] eqn:E.
    destruct (IH _ _ _ _ W2 Wf1 E) as [IH1 [IH2 IH3]].
    change (ts_push th i (conc_of base fr)) with (conc_of base ((th, i) :: fr)).
    rewrite IH1. rewrite pop_sim.
    destruct fr2 as [|f r2]; simpl spec_pop in *; inversion H; subst; clear H.
    + split; [|split; [reflexivity|]].
      * simpl. rewrite map_app. reflexivity.
      * simpl. rewrite forallb_app, IH3. simpl. rewrite W1, Wf. reflexivity.
    + pose proof (wf_frames_tail _ _ IH2) as Wr.
      split; [|split; [exact Wr|]].
      * simpl. rewrite map_app. reflexivity.
      * simpl. rewrite forallb_app, IH3. simpl. rewrite W1, Wf, Wr. reflexivity.
  - (* try *) intros b IH fr fr' o t W Wf H. simpl in W.
    rewrite exec_try in H. rewrite exec_try.
    destruct (sexec_list b fr) as [[fr2 o2] t2] eqn:E.
    destruct (IH _ _ _ _ W Wf E) as [IH1 [IH2 IH3]]. rewrite IH1. inversion H; subst. auto.
  - (* raise *) intros fr fr' o t _ Wf H. simpl in H. inversion H; subst. simpl. auto.
  - (* get *) intros n d fr fr' o t _ Wf H. simpl in H. simpl exec.
    rewrite get_style_sim by exact Wf. inversion H; subst. simpl. auto.
  - (* nil *) intros fr fr' o t _ Wf H. rewrite exec_list_nil in H. inversion H; subst.
    rewrite exec_list_nil. simpl. auto.
  - (* cons *) intros c r IHc IHr fr fr' o t W Wf H.
    simpl in W. apply andb_true_iff in W. destruct W as [W1 W2].
    rewrite exec_list_cons in H. rewrite exec_list_cons.
    destruct (sexec c fr) as [[fr1 o1] t1] eqn:E1.
    destruct (IHc _ _ _ _ W1 Wf E1) as [A1 [A2 A3]]. rewrite A1.
    destruct o1 as [e|].
    + inversion H; subst. auto.
    + destruct (sexec_list r fr1) as [[fr2 o2] t2] eqn:E2.
      destruct (IHr _ _ _ _ W2 A2 E2) as [B1 [B2 B3]]. rewrite B1.
      inversion H; subst. split; [|split; [exact B2|]].
      * rewrite map_app. reflexivity.
      * rewrite forallb_app, A3, B3. reflexivity.
Qed.

Lemma sim_list_all : forall l, sim_list l.
Proof.
  apply (cmds_ind2 sim_cmd sim_list); try (intros; apply sim_all).
  - (* nil *) unfold sim_list. intros fr fr' o t _ Wf H. rewrite exec_list_nil in H. inversion H; subst.
    rewrite exec_list_nil. simpl. auto.
  - (* cons *) unfold sim_cmd, sim_list. intros c r IHc IHr fr fr' o t W Wf H.
    simpl in W. apply andb_true_iff in W. destruct W as [W1 W2].
    rewrite exec_list_cons in H. rewrite exec_list_cons.
    destruct (sexec c fr) as [[fr1 o1] t1] eqn:E1.
    destruct (IHc _ _ _ _ W1 Wf E1) as [A1 [A2 A3]]. rewrite A1.
    destruct o1 as [e|].
    + inversion H; subst. auto.
    + destruct (sexec_list r fr1) as [[fr2 o2] t2] eqn:E2.
      destruct (IHr _ _ _ _ W2 A2 E2) as [B1 [B2 B3]]. rewrite B1.
      inversion H; subst. split; [|split; [exact B2|]].
      * rewrite map_app. reflexivity.
      * rewrite forallb_app, A3, B3. reflexivity.
Qed.

(* ---- the observations coincide *)
Lemma observe_ev_sim : forall probes e, ev_wf e = true ->
  observe_ev parse conc probes (ev_map (conc_of base) e) = observe_ev parse (specm base) probes e.
Proof.
  intros probes [fr|r] W; [|reflexivity]. simpl in *. f_equal. unfold snapshot.
  apply map_ext. intros n. apply lookup1_sim. exact W.
Qed.

Theorem observe_refines : forall cmds probes, forallb wf_cmd cmds = true ->
  observe parse conc true probes cmds (ts_init base) = observe parse (specm base) true probes cmds [].
Proof.
  intros cmds probes W. unfold observe.
  destruct (sexec_list cmds []) as [[fr' o] t] eqn:E.
  destruct (sim_list_all cmds [] fr' o t W eq_refl E) as [A1 [A2 A3]].
  change (ts_init base) with (conc_of base []). rewrite A1. f_equal.
  rewrite map_map. clear E A1. induction t as [|e t IH]; [reflexivity|].
  simpl in A3. apply andb_true_iff in A3. destruct A3 as [A3 A4]. simpl.
  rewrite observe_ev_sim by exact A3. f_equal. apply IH. exact A4.
Qed.

(* the final state refines too: every lookup after the history is the specification's *)
Theorem final_lookup_refines : forall cmds s o t fr o' t', forallb wf_cmd cmds = true ->
  cexec_list cmds (ts_init base) = (s, o, t) -> sexec_list cmds [] = (fr, o', t') ->
  o = o' /\ forall name d, get_style parse conc s name d = get_style parse (specm base) fr name d.
Proof.
  intros cmds s o t fr o' t' W C S.
  destruct (sim_list_all cmds [] fr o' t' W eq_refl S) as [A1 [A2 A3]].
  change (ts_init base) with (conc_of base []) in C. rewrite A1 in C. inversion C; subst.
  split; [reflexivity|]. intros name d. apply get_style_sim. exact A2.
Qed.
End Refine.

(* ---------------------------------------------------------------- reflexivity of the boolean equalities *)
Lemma res_eqb_refl : forall r, res_eqb r r = true.
Proof. intros [x|x|x]; simpl; apply Z.eqb_refl. Qed.
Lemma list_eqb_refl : forall {A} (eqb : A -> A -> bool), (forall x, eqb x x = true) -> forall l, list_eqb eqb l l = true.
Proof. intros A eqb H. induction l as [|x l IH]; simpl; [reflexivity|]. rewrite H, IH. reflexivity. Qed.
Lemma obs_eqb_refl : forall o, obs_eqb o o = true.
Proof. intros [l|r]; simpl; [apply list_eqb_refl; apply res_eqb_refl|apply res_eqb_refl]. Qed.

Lemma res_eqb_eq : forall a b, res_eqb a b = true -> a = b.
Proof. intros [x|x|x] [y|y|y] H; simpl in H; try discriminate; apply Z.eqb_eq in H; subst; reflexivity. Qed.
Lemma list_eqb_eq : forall {A} (eqb : A -> A -> bool), (forall x y, eqb x y = true -> x = y) ->
  forall a b, list_eqb eqb a b = true -> a = b.
Proof.
  intros A eqb H. induction a as [|x a IH]; intros [|y b] E; simpl in E; try discriminate; [reflexivity|].
  apply andb_true_iff in E. destruct E as [E1 E2]. f_equal; auto.
Qed.

(* lookup_spec, checker form, for a console whose ThemeContext forwards `inherit` *)
Theorem lookup_spec_fwd : forall parse base cmds probes, forallb wf_cmd cmds = true ->
  lookup_ok_b parse base cmds probes (observe parse conc true probes cmds (ts_init base)) = true.
Proof.
  intros parse base cmds probes W. unfold lookup_ok_b. rewrite observe_refines by exact W.
  destruct (observe parse (specm base) true probes cmds []) as [want wo]. simpl.
  rewrite list_eqb_refl by apply obs_eqb_refl. rewrite Z.eqb_refl. reflexivity.
Qed.
