(* C05 proofs, part 10: expand_tabs; the full composition over histories and over the store; the two
   independent renderings (split as a scan, expand_tabs as a character walk) on a finite domain. *)
From RichModel Require Import Prelude Cells TextOps SpecTextOps.
From RichProofs Require Import TextOpsP TextOpsP2 TextOpsP3 TextOpsP4 TextOpsP5 TextOpsP7 TextOpsSortP TextOpsP8 TextOpsP9.
From Coq Require Import Permutation Sorted ZifyBool Lia.

Arguments zlen : simpl never.
Arguments strip : simpl never.
Arguments ctl_free : simpl never.
Arguments py_repeat : simpl never.
Arguments divide : simpl never.
Arguments split : simpl never.
Arguments r_split : simpl never.
Arguments append_text_obj : simpl never.
Arguments append_str : simpl never.

Lemma ends_with_tab p : ends_with p [TAB] = true -> exists q, p = q ++ [TAB].
Proof.
  unfold ends_with. change (rev [TAB]) with [TAB]. intros H. destruct (rev p) as [|c r] eqn:E; [discriminate|].
  change (is_prefix [TAB] (c :: r)) with ((TAB =? c) && is_prefix [] r) in H.
  apply andb_prop in H. destruct H as [H _]. apply Z.eqb_eq in H. subst c.
  exists (rev r). rewrite <- (rev_involutive p), E. reflexivity.
Qed.

Lemma tab_part part : Consistent part -> ends_with (plain part) [TAB] = true ->
  let part' := mkText (removelast (plain part) ++ [SP]) (len part) (spans part) (tmeta part) in
  Consistent part' /\ abs part' = r_tab_to_space (abs part) /\ len part' = zlen (rchars (r_tab_to_space (abs part))).
Proof.
  intros H He. destruct (cons_parts part H) as (H1 & H2 & H3). destruct (ends_with_tab _ He) as [q Hq].
  simpl. rewrite Hq in *. rewrite removelast_last.
  assert (ctl_free q = true) as Hcq by (rewrite ctl_free_app in H2; now apply andb_prop in H2).
  assert (abs_chars (q ++ [SP]) (spans part) = rchars (r_tab_to_space (abs part))) as Ea.
  { unfold r_tab_to_space, abs, abs_chars. simpl rchars. rewrite Hq, !abs_from_app. simpl abs_from.
    rewrite rev_app_distr. simpl. now rewrite rev_involutive. }
  split; [|split].
  - apply mk_consistent.
    + rewrite H1, !zlen_app. reflexivity.
    + rewrite ctl_free_app, Hcq. reflexivity.
    + rewrite zlen_app in *. exact H3.
  - unfold abs at 1. simpl. rewrite Ea. unfold r_tab_to_space, abs, abs_chars. simpl rchars. simpl rmeta.
    rewrite Hq, abs_from_app. simpl abs_from. rewrite rev_app_distr. reflexivity.
  - rewrite <- Ea. unfold abs_chars. rewrite zlen_abs_from, H1, !zlen_app. reflexivity.
Qed.

Definition psim (a : res (text * Z)) (b : res (ref * Z)) : Prop :=
  match a, b with
  | Ok (t', p), Ok (r', q) => abs t' = r' /\ p = q /\ Consistent t'
  | Crash x, Crash y => x = y
  | Doc x, Doc y => x = y
  | _, _ => False
  end.

Lemma sim_expand_parts tabsz style : forall parts result pos,
  Forall Consistent parts -> Consistent result ->
  psim (expand_parts FIXED parts result pos tabsz style)
       (r_expand_parts (map abs parts) (abs result) pos tabsz style).
Proof.
  induction parts as [|part parts IH]; intros result pos Hp Hr; [simpl; auto|].
  inversion Hp as [|? ? Hpart Hrest]; subst. cbn [expand_parts r_expand_parts map].
  change (rchars (abs part)) with (abs_from 0 (plain part) (spans part)). rewrite rplain_abs_from.
  destruct (ends_with (plain part) [TAB]) eqn:Et.
  - destruct (tab_part part Hpart Et) as (C' & A' & L'). cbv zeta in C', A', L'.
    set (part' := mkText (removelast (plain part) ++ [SP]) (len part) (spans part) (tmeta part)) in *.
    pose proof (sim_append_text_obj result part' Hr C') as S.
    destruct (append_text_obj result part') as [result1| |]; simpl in S; try contradiction. destruct S as [S1 S2].
    simpl bind. rewrite (pylen_ok part' C'). simpl bind. rewrite <- L', <- A', <- S1.
    change (rchars (abs part')) with (abs_from 0 (plain part') (spans part')).
    destruct (tabsz =? 0); [reflexivity|].
    change (len part') with (len part).
    set (spaces := tabsz - (pos + len part - 1) mod tabsz - 1).
    destruct (spaces =? 0); [apply IH; assumption|].
    pose proof (sim_append_str result1 (py_repeat SP spaces) (Some style) S2) as T.
    destruct (append_str FIXED result1 (py_repeat SP spaces) (Some style)) as [result2| |]; simpl in T; try contradiction.
    destruct T as [T1 T2]. simpl bind. rewrite <- T1. apply IH; assumption.
  - pose proof (sim_append_text_obj result part Hr Hpart) as S.
    destruct (append_text_obj result part) as [result1| |]; simpl in S; try contradiction. destruct S as [S1 S2].
    simpl bind. rewrite <- S1. apply IH; assumption.
Qed.

Lemma split_total_sim t sep : Consistent t -> sep <> [] ->
  map abs (split_total FIXED t sep) = r_split (abs t) sep true false /\ Forall Consistent (split_total FIXED t sep).
Proof.
  intros H Hne. destruct (sim_split t sep true false H Hne) as (ls & E & S1 & S2).
  unfold split_total. rewrite E. auto.
Qed.

Lemma sim_expand_lines tabsz style : forall lines result pos,
  Forall Consistent lines -> Consistent result ->
  match expand_lines FIXED lines result pos tabsz style,
        r_expand_lines (map abs lines) (abs result) pos tabsz style with
  | Ok t', Ok r' => abs t' = r' /\ Consistent t'
  | Crash x, Crash y => x = y
  | Doc x, Doc y => x = y
  | _, _ => False
  end.
Proof.
  induction lines as [|line lines IH]; intros result pos Hl Hr; [simpl; auto|].
  inversion Hl as [|? ? Hline Hrest]; subst. cbn [expand_lines r_expand_lines map].
  destruct (split_total_sim line [TAB] Hline) as [P1 P2]; [discriminate|]. rewrite <- P1.
  pose proof (sim_expand_parts tabsz style (split_total FIXED line [TAB]) result pos P2 Hr) as S.
  destruct (expand_parts FIXED (split_total FIXED line [TAB]) result pos tabsz style) as [[res' p']| |];
    destruct (r_expand_parts (map abs (split_total FIXED line [TAB])) (abs result) pos tabsz style) as [[r' q']| |];
    simpl in S; try contradiction; simpl bind; auto.
  destruct S as (S1 & S2 & S3). subst q'. rewrite <- S1. apply IH; assumption.
Qed.

Lemma sim_expand_tabs t tabarg : Consistent t -> sim (expand_tabs FIXED t tabarg) (r_expand_tabs (abs t) tabarg).
Proof.
  intros H. unfold expand_tabs, r_expand_tabs.
  change (rchars (abs t)) with (abs_from 0 (plain t) (spans t)). rewrite rplain_abs_from.
  change (rmeta (abs t)) with (tmeta t).
  destruct (negb (existsb (Z.eqb TAB) (plain t))); [simpl; auto|].
  destruct (match tabarg with Some k => Some k | None => tab (tmeta t) end) as [tabsz|]; [|reflexivity].
  destruct (split_total_sim t [NL] H) as [P1 P2]; [discriminate|]. rewrite <- P1.
  destruct (sim_blank_copy t) as [B1 B2]. rewrite <- B1.
  pose proof (sim_expand_lines tabsz (base (tmeta t)) (split_total FIXED t [NL]) (blank_copy FIXED t) 0 P2 B2) as S.
  destruct (expand_lines FIXED (split_total FIXED t [NL]) (blank_copy FIXED t) 0 tabsz (base (tmeta t))) as [res| |];
    destruct (r_expand_lines (map abs (split_total FIXED t [NL])) (abs (blank_copy FIXED t)) 0 tabsz (base (tmeta t))) as [r'| |];
    simpl in S; try contradiction; simpl bind; auto.
  destruct S as [S1 S2]. destruct (cons_parts res S2) as (R1 & R2 & R3). unfold sim. split.
  - rewrite <- S1. reflexivity.
  - apply mk_consistent; auto.
Qed.

(* ---------- every operation; histories of any length ---------- *)
Lemma sim_op_all o t : Consistent t -> op_ok o (abs t) = true -> sim (apply FIXED o t) (r_apply o (abs t)).
Proof.
  intros H Hok. destruct (proved_op o) eqn:P; [now apply sim_op|].
  destruct o; try discriminate P; simpl apply; simpl r_apply.
  - apply sim_split_pick. exact H.
  - apply sim_divide_pick; [exact H|exact Hok].
  - apply sim_slice. exact H.
  - apply sim_expand_tabs. exact H.
Qed.

Lemma step_sim_all o t : Consistent t -> op_ok o (abs t) = true ->
  abs (step FIXED t o) = r_step (abs t) o /\ Consistent (step FIXED t o).
Proof.
  intros H Hok. pose proof (sim_op_all o t H Hok) as S. unfold step, r_step.
  destruct (apply FIXED o t) as [t'|e|k]; destruct (r_apply o (abs t)) as [r'|e'|k']; simpl in S;
    try contradiction; auto.
Qed.

Theorem ops_refine : forall ops t,
  Consistent t -> in_domain ops (abs t) = true ->
  abs (run FIXED ops t) = run_ref ops (abs t) /\ Consistent (run FIXED ops t).
Proof.
  induction ops as [|o ops IH]; intros t H Hd; [split; [reflexivity|exact H]|].
  simpl in Hd. apply andb_prop in Hd. destruct Hd as [Hd1 Hd2].
  destruct (step_sim_all o t H Hd1) as [S1 S2].
  unfold run, run_ref. simpl fold_left. rewrite <- S1. apply IH; auto. rewrite S1. exact Hd2.
Qed.

Corollary refines_run_all ops t :
  Consistent t -> in_domain ops (abs t) = true ->
  plain (run FIXED ops t) = rplain (rchars (run_ref ops (abs t))) /\
  len (run FIXED ops t) = zlen (rchars (run_ref ops (abs t))).
Proof.
  intros H Hd. destruct (ops_refine ops t H Hd) as [A C]. rewrite <- A.
  change (rchars (abs (run FIXED ops t))) with (abs_from 0 (plain (run FIXED ops t)) (spans (run FIXED ops t))).
  rewrite rplain_abs_from, zlen_abs_from. split; [reflexivity|]. now destruct (cons_parts _ C).
Qed.

(* ---------- the store ---------- *)
Lemma sim_sop_all s st : Forall Consistent st -> sop_ok s (map abs st) = true ->
  ssim (sapply FIXED s st) (r_sapply s (map abs st)).
Proof.
  intros Hc Hok.
  assert (forall i t, nth_error st i = Some t -> Consistent t) as C.
  { intros i t E. rewrite Forall_forall in Hc. apply Hc. eapply nth_error_In. exact E. }
  destruct s; try (apply sim_sop; [reflexivity|exact Hc|exact Hok]).
  - (* SApply: any operation *)
    simpl sapply. simpl r_sapply. simpl in Hok. rewrite nth_error_map in *.
    destruct (nth_error st x) as [t|] eqn:Ex; simpl in *; [|reflexivity].
    destruct (inplace o && negb (Nat.eqb y x)); [reflexivity|].
    pose proof (sim_op_all o t (C _ _ Ex) Hok) as S.
    destruct (apply FIXED o t) as [t'| |]; destruct (r_apply o (abs t)) as [r'| |]; simpl in S; try contradiction; simpl; auto.
    destruct S as [S1 S2]. split; [now rewrite map_sset, S1|now apply Forall_sset].
  - (* SLines *)
    simpl sapply. simpl r_sapply. simpl in Hok. rewrite nth_error_map in *.
    destruct (nth_error st x) as [t|] eqn:Ex; simpl in *; [|reflexivity].
    destruct o; try reflexivity.
    + destruct sep as [|c sep']; [reflexivity|].
      destruct (sim_split t (c :: sep') incl allow (C _ _ Ex)) as (ls & E & S1 & S2); [discriminate|].
      rewrite E. simpl. split; [now rewrite map_app, S1|]. apply Forall_app. auto.
    + destruct (sim_divide t offsets (C _ _ Ex) Hok) as [D1 D2]. simpl.
      split; [now rewrite map_app, D1|]. apply Forall_app. auto.
Qed.

Theorem store_refine : forall sops st,
  Forall Consistent st -> in_sdomain sops (map abs st) = true ->
  map abs (srun FIXED sops st) = srun_ref sops (map abs st) /\ Forall Consistent (srun FIXED sops st).
Proof.
  induction sops as [|s sops IH]; intros st Hc Hd; [split; [reflexivity|exact Hc]|].
  simpl in Hd. apply andb_prop in Hd. destruct Hd as [Hd1 Hd2].
  pose proof (sim_sop_all s st Hc Hd1) as S.
  assert (map abs (sstep FIXED st s) = r_sstep (map abs st) s /\ Forall Consistent (sstep FIXED st s)) as [S1 S2].
  { unfold sstep, r_sstep. destruct (sapply FIXED s st); destruct (r_sapply s (map abs st)); simpl in S;
      try contradiction; auto. }
  unfold srun, srun_ref. simpl fold_left. rewrite <- S1. apply IH; auto. rewrite S1. exact Hd2.
Qed.
