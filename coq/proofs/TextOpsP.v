(* C05 proofs, part 1: the abstraction function and its algebra (cover / abs_from), the invariant. *)
From RichModel Require Import Prelude Cells TextOps SpecTextOps.
From RichGen Require Import ControlCodes.
From Coq Require Import ZifyBool Lia.

Arguments zlen : simpl never.
Arguments py_repeat : simpl never.

Lemma zlen_nil {A} : zlen (@nil A) = 0. Proof. reflexivity. Qed.
Lemma zlen_cons {A} (x : A) l : zlen (x :: l) = zlen l + 1.
Proof. unfold zlen. simpl length. lia. Qed.
Lemma zlen_app {A} (a b : list A) : zlen (a ++ b) = zlen a + zlen b.
Proof. unfold zlen. rewrite app_length. lia. Qed.
Lemma zlen_nonneg {A} (l : list A) : 0 <= zlen l.
Proof. unfold zlen. lia. Qed.
Lemma zlen_map {A B} (f : A -> B) l : zlen (map f l) = zlen l.
Proof. unfold zlen. now rewrite map_length. Qed.
Lemma zlen_zero {A} (l : list A) : zlen l = 0 -> l = [].
Proof. destruct l; [reflexivity|]. rewrite zlen_cons. pose proof (zlen_nonneg l). lia. Qed.
Lemma zlen_repeat {A} (c : A) n : zlen (py_repeat c n) = Z.max 0 n.
Proof. unfold zlen, py_repeat. rewrite repeat_length. lia. Qed.

Lemma str_eqb_refl s : str_eqb s s = true.
Proof. induction s; simpl; [reflexivity|]. rewrite Z.eqb_refl. exact IHs. Qed.
Lemma str_eqb_eq a b : str_eqb a b = true -> a = b.
Proof.
  revert b. induction a as [|x a IH]; destruct b as [|y b]; simpl; try discriminate; [reflexivity|].
  intros H. apply andb_prop in H. destruct H as [H1 H2]. apply Z.eqb_eq in H1. subst. f_equal. auto.
Qed.
Lemma str_eqb_neq_len a b : zlen a <> zlen b -> str_eqb a b = false.
Proof.
  intros H. destruct (str_eqb a b) eqn:E; [|reflexivity]. apply str_eqb_eq in E. subst. contradiction.
Qed.

(* ---------- the invariant as a proposition ---------- *)
Definition Within (n : Z) (sps : list span) : Prop :=
  Forall (fun sp => 0 <= sp_start sp /\ sp_start sp <= sp_end sp /\ sp_end sp <= n) sps.

Lemma within_b n sps : forallb (span_within n) sps = true <-> Within n sps.
Proof.
  unfold Within. rewrite forallb_forall, Forall_forall. unfold span_within.
  split; intros H x Hx; specialize (H x Hx); lia.
Qed.

Lemma consistent_iff t :
  Consistent t <-> len t = zlen (plain t) /\ ctl_free (plain t) = true /\ Within (len t) (spans t).
Proof.
  unfold Consistent, consistent_b. rewrite !andb_true_iff, within_b, Z.eqb_eq. tauto.
Qed.

Lemma within_mono n m sps : Within n sps -> n <= m -> Within m sps.
Proof. unfold Within. intros H Hm. eapply Forall_impl; [|exact H]. simpl. intros; lia. Qed.
Lemma within_app n a b : Within n (a ++ b) <-> Within n a /\ Within n b.
Proof. unfold Within. apply Forall_app. Qed.

Lemma strip_ctl_free s : ctl_free s = true -> strip s = s.
Proof.
  unfold strip, ctl_free. induction s as [|c s IH]; simpl; [reflexivity|].
  intros H. apply andb_prop in H. destruct H as [H1 H2]. rewrite H1. f_equal. auto.
Qed.
Lemma ctl_free_strip s : ctl_free (strip s) = true.
Proof.
  unfold strip, ctl_free. induction s as [|c s IH]; simpl; [reflexivity|].
  destruct (negb (is_ctl c)) eqn:E; simpl; [rewrite E|]; exact IH.
Qed.
Lemma ctl_free_app a b : ctl_free (a ++ b) = ctl_free a && ctl_free b.
Proof. unfold ctl_free. apply forallb_app. Qed.
Lemma strip_app a b : strip (a ++ b) = strip a ++ strip b.
Proof. unfold strip. apply filter_app. Qed.
Lemma ctl_free_repeat c n : pad_char_ok c = true -> ctl_free (py_repeat c n) = true.
Proof.
  unfold pad_char_ok, ctl_free, py_repeat. intros H. induction (Z.to_nat n); simpl; [reflexivity|].
  rewrite H. exact IHn0.
Qed.
Lemma ctl_free_firstn k s : ctl_free s = true -> ctl_free (firstn k s) = true.
Proof.
  unfold ctl_free. revert k. induction s as [|c s IH]; intros [|k]; simpl; auto.
  intros H. apply andb_prop in H. destruct H as [H1 H2]. rewrite H1. simpl. auto.
Qed.
Lemma ctl_free_skipn k s : ctl_free s = true -> ctl_free (skipn k s) = true.
Proof.
  unfold ctl_free. revert k. induction s as [|c s IH]; intros [|k]; simpl; auto.
  intros H. apply andb_prop in H. destruct H as [H1 H2]. auto.
Qed.

(* ---------- cover ---------- *)
Lemma cover_app a b i : cover (a ++ b) i = cover a i ++ cover b i.
Proof. unfold cover. now rewrite filter_app, map_app. Qed.

Lemma cover_none sps i : (forall sp, In sp sps -> covers i sp = false) -> cover sps i = [].
Proof.
  unfold cover. induction sps as [|sp sps IH]; simpl; [reflexivity|]. intros H.
  rewrite (H sp (or_introl eq_refl)). apply IH. intros x Hx. apply H. now right.
Qed.

Lemma cover_nil_ge sps n i : Within n sps -> n <= i -> cover sps i = [].
Proof.
  intros H Hi. apply cover_none. intros sp Hsp. unfold Within in H. rewrite Forall_forall in H.
  specialize (H sp Hsp). unfold covers. lia.
Qed.

Lemma cover_nil_lt sps n i : Forall (fun sp => n <= sp_start sp) sps -> i < n -> cover sps i = [].
Proof.
  intros H Hi. apply cover_none. intros sp Hsp. rewrite Forall_forall in H.
  specialize (H sp Hsp). unfold covers. lia.
Qed.

Lemma covers_move sp n i : covers (i + n) (span_move sp n) = covers i sp.
Proof. destruct sp as [[s e] st]. unfold covers, span_move, sp_start, sp_end. simpl. lia. Qed.
Lemma style_move sp n : sp_style (span_move sp n) = sp_style sp.
Proof. destruct sp as [[s e] st]. reflexivity. Qed.

Lemma cover_shift sps n i : cover (shift_spans sps n) (i + n) = cover sps i.
Proof.
  unfold cover, shift_spans. induction sps as [|sp sps IH]; simpl; [reflexivity|].
  rewrite covers_move. destruct (covers i sp); simpl; [rewrite style_move|]; now rewrite IH.
Qed.

Lemma cover_cons sp sps i :
  cover (sp :: sps) i = if covers i sp then sp_style sp :: cover sps i else cover sps i.
Proof. unfold cover. simpl. destruct (covers i sp); reflexivity. Qed.
Lemma trim_cons sp sps m :
  trim_list (sp :: sps) m =
  if sp_start sp <? m
  then (if sp_end sp <? m then sp else (sp_start sp, Z.min m (sp_end sp), sp_style sp)) :: trim_list sps m
  else trim_list sps m.
Proof. unfold trim_list. simpl. destruct (sp_start sp <? m); reflexivity. Qed.

Lemma cover_trim sps m i : i < m -> cover (trim_list sps m) i = cover sps i.
Proof.
  intros Hi. induction sps as [|sp sps IH]; [reflexivity|].
  rewrite trim_cons, (cover_cons sp). destruct sp as [[s e] st]. unfold sp_start, sp_end, sp_style. simpl.
  destruct (s <? m) eqn:Es.
  - rewrite cover_cons, IH. destruct (e <? m) eqn:Ee; unfold covers, sp_start, sp_end, sp_style; simpl.
    + reflexivity.
    + replace ((s <=? i) && (i <? Z.min m e)) with ((s <=? i) && (i <? e)) by lia. reflexivity.
  - rewrite IH. unfold covers, sp_start, sp_end; simpl.
    replace ((s <=? i) && (i <? e)) with false by lia. reflexivity.
Qed.

Lemma within_shift n k sps : Within n sps -> 0 <= k -> Within (n + k) (shift_spans sps k).
Proof.
  unfold Within, shift_spans. intros H Hk. rewrite Forall_map. eapply Forall_impl; [|exact H].
  intros [[s e] st]. unfold span_move, sp_start, sp_end. simpl. lia.
Qed.
Lemma shift_ge n k sps : Within n sps -> Forall (fun sp => k <= sp_start sp) (shift_spans sps k).
Proof.
  unfold Within, shift_spans. intros H. rewrite Forall_map. eapply Forall_impl; [|exact H].
  intros [[s e] st]. unfold span_move, sp_start, sp_end. simpl. lia.
Qed.

Lemma within_trim n m sps : Within n sps -> 0 <= m -> Within m (trim_list sps m).
Proof.
  unfold Within, trim_list. intros H Hm. rewrite Forall_map, Forall_forall. intros sp Hsp.
  apply filter_In in Hsp. destruct Hsp as [Hin Hlt]. rewrite Forall_forall in H. specialize (H sp Hin).
  destruct sp as [[s e] st]. unfold sp_start, sp_end, sp_style in *. simpl in *.
  destruct (e <? m) eqn:E; unfold sp_start, sp_end; simpl; lia.
Qed.

(* ---------- abs_from ---------- *)
Lemma abs_from_app i p q sps :
  abs_from i (p ++ q) sps = abs_from i p sps ++ abs_from (i + zlen p) q sps.
Proof.
  revert i. induction p as [|c p IH]; intros i; simpl.
  - rewrite zlen_nil. now replace (i + 0) with i by lia.
  - rewrite IH, zlen_cons. now replace (i + 1 + zlen p) with (i + (zlen p + 1)) by lia.
Qed.

Lemma abs_from_ext i p sps sps' :
  (forall j, i <= j < i + zlen p -> cover sps j = cover sps' j) -> abs_from i p sps = abs_from i p sps'.
Proof.
  revert i. induction p as [|c p IH]; intros i H; simpl; [reflexivity|].
  rewrite zlen_cons in H. pose proof (zlen_nonneg p). rewrite (H i) by lia. f_equal. apply IH. intros j Hj. apply H. lia.
Qed.

Lemma abs_from_styled i p sps l :
  (forall j, i <= j < i + zlen p -> cover sps j = l) -> abs_from i p sps = styled p l.
Proof.
  revert i. induction p as [|c p IH]; intros i H; simpl; [reflexivity|].
  rewrite zlen_cons in H. pose proof (zlen_nonneg p). rewrite (H i) by lia. f_equal. apply IH. intros j Hj. apply H. lia.
Qed.

Lemma abs_from_shift i n p sps : abs_from (i + n) p (shift_spans sps n) = abs_from i p sps.
Proof.
  revert i. induction p as [|c p IH]; intros i; simpl; [reflexivity|].
  rewrite cover_shift. f_equal. replace (i + n + 1) with (i + 1 + n) by lia. apply IH.
Qed.

Lemma abs_from_cons_under i p sp sps :
  (forall j, i <= j < i + zlen p -> covers j sp = true) ->
  abs_from i p (sp :: sps) = under (sp_style sp) (abs_from i p sps).
Proof.
  revert i. induction p as [|c p IH]; intros i H; simpl; [reflexivity|].
  rewrite zlen_cons in H. pose proof (zlen_nonneg p). unfold cover at 1. simpl. rewrite (H i) by lia. simpl.
  f_equal. apply IH. intros j Hj. apply H. lia.
Qed.

Lemma rplain_abs_from i p sps : rplain (abs_from i p sps) = p.
Proof. unfold rplain. revert i. induction p as [|c p IH]; intros i; simpl; [reflexivity|]. now rewrite IH. Qed.
Lemma zlen_abs_from i p sps : zlen (abs_from i p sps) = zlen p.
Proof. rewrite <- (rplain_abs_from i p sps) at 2. unfold rplain. now rewrite zlen_map. Qed.
Lemma length_abs_from i p sps : length (abs_from i p sps) = length p.
Proof. revert i. induction p as [|c p IH]; intros i; simpl; [reflexivity|]. now rewrite IH. Qed.

Lemma abs_from_firstn k i p sps : abs_from i (firstn k p) sps = firstn k (abs_from i p sps).
Proof.
  revert i k. induction p as [|c p IH]; intros i [|k]; simpl; try reflexivity. now rewrite IH.
Qed.
Lemma abs_from_skipn k i p sps : abs_from (i + Z.of_nat k) (skipn k p) sps = skipn k (abs_from i p sps).
Proof.
  revert i k. induction p as [|c p IH]; intros i [|k]; simpl skipn.
  - reflexivity. - reflexivity.
  - change (Z.of_nat 0) with 0. rewrite Z.add_0_r. reflexivity.
  - cbn [abs_from skipn]. rewrite <- IH. f_equal. lia.
Qed.

Lemma abs_nil_spans i p : abs_from i p [] = bare p.
Proof. apply abs_from_styled. reflexivity. Qed.

Lemma styled_app a b l : styled (a ++ b) l = styled a l ++ styled b l.
Proof. unfold styled. apply map_app. Qed.
Lemma under_app b x y : under b (x ++ y) = under b x ++ under b y.
Proof. unfold under. apply map_app. Qed.

(* characters replaced, styles kept at their positions *)
Lemma restyle_abs i new old sps :
  Within (i + zlen old) sps ->
  r_restyle new (abs_from i old sps) = abs_from i new sps.
Proof.
  revert i old. induction new as [|c new IH]; intros i old H; simpl; [reflexivity|].
  destruct old as [|o old]; simpl.
  - rewrite zlen_nil in H. rewrite (cover_nil_ge sps (i + 0) i H) by lia. f_equal.
    specialize (IH (i + 1) [] ). simpl in IH. apply IH. rewrite zlen_nil. eapply within_mono; [exact H|lia].
  - f_equal. apply IH. rewrite zlen_cons in H. eapply within_mono; [exact H|lia].
Qed.

Lemma r_add_from_abs i p sps new : r_add_from i (abs_from i p sps) new = abs_from i p (sps ++ new).
Proof.
  revert i. induction p as [|c p IH]; intros i; simpl; [reflexivity|]. rewrite cover_app, IH. reflexivity.
Qed.

Lemma r_zip_abs i p sps q sps' : zlen q = zlen p ->
  r_zip_styles (abs_from i p sps) (abs_from i q sps') = abs_from i p (sps ++ sps').
Proof.
  revert i q. induction p as [|c p IH]; intros i q H.
  - simpl. destruct q; reflexivity.
  - destruct q as [|d q]; [rewrite zlen_nil, zlen_cons in H; pose proof (zlen_nonneg p); lia|].
    simpl. rewrite cover_app. f_equal. apply IH. rewrite !zlen_cons in H. lia.
Qed.
