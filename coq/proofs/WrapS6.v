(* C02 (c) at the level of Text.wrap: composition of the per-pass facts. *)
From RichModel Require Import Prelude Cells SpecCells Wrap SpecWrap.
From RichGen Require Import UnicodeSpace WrapFacts.
From RichProofs Require Import CellsP WrapP WrapP2 WrapP4 WrapP5 WrapS0 WrapS1 WrapS2 WrapS3 WrapS4 WrapS5.
From Coq Require Import ZifyBool.

Lemma is_space_ELL : is_space ELLIPSIS = false.
Proof. vm_compute. reflexivity. Qed.

Section S6.
Variable S : Type.
Variable seqb : S -> S -> bool.
Variable null : S.
Variable add : S -> S -> S.
Variable fx : fixes.
Hypothesis Hfo : fix_order fx = true.
Hypothesis Hfp : fix_pad fx = true.
Hypothesis seqb_eq : forall a b, seqb a b = true <-> a = b.
Arguments plain {S}.
Arguments spans {S}.
Arguments base {S}.
Notation styled := (styled S seqb null).
Notation sns := (sns S seqb null).

(* what one output line may be, relative to the styled non-whitespace characters s of its source piece:
   PROVENANCE: the output characters are, in order, a prefix of the source characters (each with its
   own entry, i.e. code point and normalised styles unchanged), optionally followed by one new
   character, the ellipsis; everything else that was inserted is whitespace. *)
Definition Rell (o s : list (schar S)) : Prop :=
  Prefix o s \/ exists p e, Prefix p s /\ o = p ++ [e] /\ fst e = 8230.
Definition fits (w : Z) (l : text S) : Prop := cell_len (rstrip (plain l)) <= w.
Definition LineRel (w ov : Z) (l out : text S) : Prop :=
  (ov = OV_IGNORE -> sns out = sns l) /\
  (ov <> OV_ELLIPSIS -> Prefix (sns out) (sns l)) /\
  Rell (sns out) (sns l) /\
  (ov <> OV_ELLIPSIS -> fits w l -> sns out = sns l).

Lemma sc_ns_firstn_prefix (L : list (schar S)) k : Prefix (sc_ns S (firstn k L)) (sc_ns S L).
Proof.
  rewrite <- (firstn_skipn k L) at 2. rewrite sc_ns_app. apply prefix_intro.
Qed.

Lemma sc_ns_firstn_all (L : list (schar S)) k : (length L <= k)%nat -> sc_ns S (firstn k L) = sc_ns S L.
Proof. intros H. rewrite firstn_all2 by exact H. reflexivity. Qed.

Lemma LineRel_eq w ov (l out : text S) : sns out = sns l -> LineRel w ov l out.
Proof.
  intros H. unfold LineRel, Rell. rewrite H. repeat split; try reflexivity; intros; try apply Prefix_refl.
  left. apply Prefix_refl.
Qed.

(* truncate *)
Lemma truncate_rel w ov pad (t : text S) : 1 <= w -> LineRel w ov t (truncate S w ov pad t).
Proof.
  intros Hw. destruct (truncate_styled S seqb null w ov pad t Hw) as [k [tail [Hst [Hws [Hell [Hall Hfit]]]]]].
  assert (Hsns : sns (truncate S w ov pad t) = sc_ns S (firstn k (styled t)) ++ sc_ns S tail).
  { unfold WrapS0.sns. rewrite Hst. apply sc_ns_app. }
  unfold LineRel. split; [|split; [|split]].
  - intros Hov. rewrite Hsns. rewrite (sc_ns_ws S tail) by (apply Hws; unfold OV_IGNORE, OV_ELLIPSIS in *; lia).
    rewrite app_nil_r. apply sc_ns_firstn_all. rewrite styled_length. apply Hall. right. exact Hov.
  - intros Hov. rewrite Hsns, (sc_ns_ws S tail (Hws Hov)), app_nil_r. apply sc_ns_firstn_prefix.
  - unfold Rell. destruct (Z.eq_dec ov OV_ELLIPSIS) as [He|Hne].
    + destruct (Hell He) as [Hw'|[ws1 [e [Et [Hw1 Hfe]]]]].
      * left. rewrite Hsns, (sc_ns_ws S tail Hw'), app_nil_r. apply sc_ns_firstn_prefix.
      * right. exists (sc_ns S (firstn k (styled t))), e. split; [apply sc_ns_firstn_prefix|]. split.
        -- rewrite Hsns, Et, sc_ns_app, (sc_ns_ws S ws1 Hw1). cbn [app]. f_equal.
           unfold sc_ns. cbn [filter]. rewrite Hfe, is_space_ELL. reflexivity.
        -- rewrite Hfe. reflexivity.
    + left. rewrite Hsns, (sc_ns_ws S tail (Hws Hne)), app_nil_r. apply sc_ns_firstn_prefix.
  - intros Hov Hf. rewrite Hsns, (sc_ns_ws S tail (Hws Hov)), app_nil_r.
    apply sc_ns_firstn_ge. apply Hfit; assumption.
Qed.

(* passes that only add or remove whitespace *)
Lemma rstrip_end_sns w (l : text S) : sns (rstrip_end S w l) = sns l.
Proof.
  destruct (rstrip_end_styled S seqb null w l) as [k [Hk Hs]].
  unfold WrapS0.sns at 1. rewrite Hs. apply sc_ns_firstn_ge. exact Hk.
Qed.

Lemma text_rstrip_sns (l : text S) : sns (text_rstrip S l) = sns l.
Proof.
  unfold WrapS0.sns at 1. rewrite (text_rstrip_styled S seqb null l). apply sc_ns_firstn_ge. lia.
Qed.

Lemma pad_left_sns (t : text S) n : sns (pad_left S fx t n) = sns t.
Proof.
  destruct (pad_left_styled S seqb null fx t n Hfp) as [pre [Hw Hs]].
  unfold WrapS0.sns. rewrite Hs, sc_ns_app, (sc_ns_ws S pre Hw). reflexivity.
Qed.

Lemma pad_right_sns (t : text S) n : sns (pad_right S t n) = sns t.
Proof.
  destruct (pad_right_styled S seqb null t n) as [suf [Hw Hs]].
  unfold WrapS0.sns. rewrite Hs, sc_ns_app, (sc_ns_ws S suf Hw). apply app_nil_r.
Qed.

Lemma LineRel_pre w ov (l x out : text S) :
  sns x = sns l -> (fits w l -> fits w x) -> LineRel w ov x out -> LineRel w ov l out.
Proof.
  intros Hs Hf [H1 [H2 [H3 H4]]]. unfold LineRel. rewrite <- Hs. repeat split; auto.
Qed.

Lemma LineRel_post w ov (l out out' : text S) : sns out' = sns out -> LineRel w ov l out -> LineRel w ov l out'.
Proof. intros Hs H. unfold LineRel in *. rewrite Hs. exact H. Qed.

(* after left/center/right justification the line fits, so the final truncate of wrap is the identity *)
Lemma just1_fits w j ov (l : text S) :
  1 <= w -> ov <> OV_IGNORE -> (j = J_LEFT \/ j = J_CENTER \/ j = J_RIGHT) ->
  cell_len (plain (just1 S fx w j ov l)) <= w.
Proof.
  intros Hw Hov Hj. unfold just1.
  destruct (j =? J_LEFT) eqn:E1; [apply truncate_fits; assumption|].
  pose proof (truncate_fits S w ov false (text_rstrip S l) Hw Hov) as Hf.
  set (l1 := truncate S w ov false (text_rstrip S l)) in *.
  set (c := cell_len (plain l1)) in *.
  pose proof (cell_len_nonneg (plain l1)) as Hc0. fold c in Hc0.
  destruct (j =? J_CENTER) eqn:E2.
  - cbv zeta. rewrite pad_right_plain, pad_left_plain. rewrite !cell_len_app.
    assert (H2 : 0 <= (w - c) / 2 <= w - c).
    { split; [apply Z.div_pos; lia|]. apply Z.div_le_upper_bound; lia. }
    rewrite cell_len_py_repeat by lia.
    rewrite cell_len_py_repeat by (fold c; lia). fold c. lia.
  - destruct (j =? J_RIGHT) eqn:E3.
    + cbv zeta. rewrite pad_left_plain, cell_len_app, cell_len_py_repeat by (fold c; lia). fold c. lia.
    + unfold J_LEFT, J_CENTER, J_RIGHT in *. lia.
Qed.

(* one piece through rstrip_end, left/center/right/default justification and the final truncate *)
Lemma post_rel w j ov (l : text S) : 1 <= w -> j <> J_FULL ->
  LineRel w ov l (truncate S w ov false (just1 S fx w j ov (rstrip_end S w l))).
Proof.
  intros Hw Hj.
  set (x := rstrip_end S w l).
  assert (Hx : sns x = sns l) by apply rstrip_end_sns.
  assert (Hxf : fits w l -> fits w x) by (unfold fits, x; rewrite rstrip_end_rstrip; auto).
  apply (LineRel_pre w ov l x _ Hx Hxf).
  destruct (Z.eq_dec ov OV_IGNORE) as [Hig|Hov].
  { (* ignore: nothing is truncated, pads only add whitespace *)
    apply LineRel_eq. subst ov.
    assert (Ht : forall pad y, truncate S w OV_IGNORE pad y = y) by reflexivity.
    rewrite Ht. unfold just1. rewrite !Ht.
    destruct (j =? J_LEFT); [reflexivity|].
    destruct (j =? J_CENTER); [cbv zeta; rewrite pad_right_sns, pad_left_sns; apply text_rstrip_sns|].
    destruct (j =? J_RIGHT); [cbv zeta; rewrite pad_left_sns; apply text_rstrip_sns|reflexivity]. }
  destruct (Z.eq_dec j J_LEFT) as [Hl|Hnl]; [|destruct (Z.eq_dec j J_CENTER) as [Hc|Hnc];
    [|destruct (Z.eq_dec j J_RIGHT) as [Hr|Hnr]]].
  - rewrite truncate_id by (apply just1_fits; auto).
    unfold just1. replace (j =? J_LEFT) with true by lia. apply truncate_rel. exact Hw.
  - rewrite truncate_id by (apply just1_fits; auto).
    unfold just1. replace (j =? J_LEFT) with false by (unfold J_LEFT, J_CENTER in *; lia).
    replace (j =? J_CENTER) with true by lia. cbv zeta.
    eapply LineRel_post; [rewrite pad_right_sns, pad_left_sns; reflexivity|].
    apply (LineRel_pre w ov x (text_rstrip S x) _ (text_rstrip_sns x)).
    + unfold fits. rewrite text_rstrip_plain, rstrip_idem. auto.
    + apply truncate_rel. exact Hw.
  - rewrite truncate_id by (apply just1_fits; auto).
    unfold just1. replace (j =? J_LEFT) with false by (unfold J_LEFT, J_RIGHT in *; lia).
    replace (j =? J_CENTER) with false by (unfold J_CENTER, J_RIGHT in *; lia).
    replace (j =? J_RIGHT) with true by lia. cbv zeta.
    eapply LineRel_post; [rewrite pad_left_sns; reflexivity|].
    apply (LineRel_pre w ov x (text_rstrip S x) _ (text_rstrip_sns x)).
    + unfold fits. rewrite text_rstrip_plain, rstrip_idem. auto.
    + apply truncate_rel. exact Hw.
  - unfold just1. replace (j =? J_LEFT) with false by lia. replace (j =? J_CENTER) with false by lia.
    replace (j =? J_RIGHT) with false by lia. apply truncate_rel. exact Hw.
Qed.

(* justify = "full": the two per-piece functions *)
Lemma post_full_rel w ov (l : text S) : 1 <= w ->
  LineRel w ov l (truncate S w ov false (justify_full_line S seqb null add fx w (rstrip_end S w l))) /\
  LineRel w ov l (truncate S w ov false (rstrip_end S w l)).
Proof.
  intros Hw.
  set (x := rstrip_end S w l).
  assert (Hx : sns x = sns l) by apply rstrip_end_sns.
  assert (Hxf : fits w l -> fits w x) by (unfold fits, x; rewrite rstrip_end_rstrip; auto).
  split.
  - apply (LineRel_pre w ov l (justify_full_line S seqb null add fx w x)).
    + rewrite (justify_full_sns S seqb null add fx Hfo seqb_eq w x). exact Hx.
    + intros Hf. unfold fits. apply justify_full_fits; [exact Hw|apply Hxf, Hf].
    + apply truncate_rel. exact Hw.
  - apply (LineRel_pre w ov l x _ Hx Hxf). apply truncate_rel. exact Hw.
Qed.

(* ------------------------------------------------------------------ one source line *)
Lemma Forall2_map_l {A B} (R : B -> A -> Prop) (g : A -> B) (ls : list A) :
  (forall l, In l ls -> R (g l) l) -> Forall2 R (map g ls) ls.
Proof.
  induction ls as [|l ls IH]; intros H; [constructor|]. cbn [map]. constructor.
  - apply H. left. reflexivity.
  - apply IH. intros x Hx. apply H. right. exact Hx.
Qed.

Lemma Forall2_mbl {A B} (R : B -> A -> Prop) (h : A -> B) (f r : A -> A) : forall ls,
  (forall l, In l ls -> R (h (f (r l))) l /\ R (h (r l)) l) ->
  Forall2 R (map h (map_but_last f (map r ls))) ls.
Proof.
  induction ls as [|x ls IH]; intros H; [constructor|].
  destruct ls as [|y ls].
  - cbn. constructor; [apply H; left; reflexivity|constructor].
  - change (map r (x :: y :: ls)) with (r x :: map r (y :: ls)).
    change (map r (y :: ls)) with (r y :: map r ls).
    change (map_but_last f (r x :: r y :: map r ls)) with (f (r x) :: map_but_last f (r y :: map r ls)).
    cbn [map]. constructor; [apply H; left; reflexivity|].
    apply IH. intros l Hl. apply H. right. exact Hl.
Qed.

Definition pieces_of_line (w ov ts : Z) (nw : bool) (line : text S) : list (text S) :=
  let line' := if existsb (fun c => c =? TAB) (plain line) then expand_tabs S seqb fx line ts else line in
  if nw then [line'] else divide S seqb fx line' (divide_line (plain line') w (ov =? OV_FOLD)).

Lemma wrap_line_rel w j ov ts nw (line : text S) :
  2 <= w -> ~ In NL (plain line) ->
  let ps := pieces_of_line w ov ts nw line in
  concat (map sns ps) = sns line /\
  Forall2 (fun o l => LineRel w ov l o) (wrap_line S seqb null add fx w j ov ts nw line) ps /\
  (nw = false -> ov = OV_FOLD -> Forall (fits w) ps).
Proof.
  intros Hw Hnl. unfold pieces_of_line, wrap_line.
  set (line' := if existsb (fun c => c =? TAB) (plain line) then expand_tabs S seqb fx line ts else line).
  assert (Hl' : sns line' = sns line).
  { unfold line'. destruct (existsb (fun c => c =? TAB) (plain line)); [|reflexivity].
    apply (expand_tabs_sns S seqb null fx Hfo seqb_eq). exact Hnl. }
  set (ps := if nw then [line'] else divide S seqb fx line' (divide_line (plain line') w (ov =? OV_FOLD))).
  cbv zeta. split; [|split].
  - rewrite <- Hl'. unfold ps. destruct nw; [cbn; apply app_nil_r|].
    apply (divide_sns S seqb null fx Hfo). apply mono_from_mono2.
    apply (divide_line_sorted (plain line') w (ov =? OV_FOLD)). lia.
  - destruct (Z.eq_dec j J_FULL) as [Hj|Hj].
    + subst j. unfold justify_lines. cbn [Z.eqb J_FULL J_LEFT J_CENTER J_RIGHT Pos.eqb].
      apply (Forall2_mbl (fun o l => LineRel w ov l o)).
      intros l _. apply post_full_rel. lia.
    + rewrite justify_lines_map by exact Hj. rewrite !map_map.
      apply (Forall2_map_l (fun o l => LineRel w ov l o)). intros l _. apply post_rel; [lia|exact Hj].
  - intros Hnw Hov. subst nw ov. unfold ps. replace (OV_FOLD =? OV_FOLD) with true by reflexivity.
    pose proof (divide_line_lines_fit (plain line') w Hw) as Hfit.
    rewrite line_pieces_is_pieces_of in Hfit. rewrite <- (divide_plain S seqb fx line') in Hfit.
    rewrite Forall_forall in *. intros l Hl. unfold fits. apply Hfit. apply in_map. exact Hl.
Qed.

(* ------------------------------------------------------------------ the whole text *)
Lemma wrap_rel (t : text S) w j ov ts nw : 2 <= w ->
  exists ps, concat (map sns ps) = sns t /\
    Forall2 (fun o l => LineRel w ov l o) (wrap S seqb null add fx t w j ov ts nw) ps /\
    (nw = false -> ov = OV_FOLD -> Forall (fits w) ps).
Proof.
  intros Hw. unfold wrap. set (nw' := nw || (ov =? OV_IGNORE)).
  pose proof (split_sns S seqb null fx Hfo t NL false true (or_intror eq_refl)) as Hs.
  assert (Hnl : forall l, In l (split S seqb fx t NL false true) -> ~ In NL (plain l)).
  { intros l Hl. apply (split_lines_nosep S seqb fx Hfo t NL true l Hl). }
  set (L := split S seqb fx t NL false true) in *. clearbody L.
  exists (concat (map (pieces_of_line w ov ts nw') L)).
  rewrite <- Hs. clear Hs. induction L as [|l L IH]; [cbn; repeat split; constructor|].
  destruct IH as [H1 [H2 H3]]; [intros x Hx; apply Hnl; right; exact Hx|].
  destruct (wrap_line_rel w j ov ts nw' l Hw (Hnl l (or_introl eq_refl))) as [G1 [G2 G3]].
  cbn [map concat]. split; [|split].
  - rewrite map_app, concat_app, G1, H1. reflexivity.
  - apply Forall2_app; assumption.
  - intros Hn Hov. apply Forall_app. split.
    + apply G3; [|exact Hov]. unfold nw'. subst nw ov. reflexivity.
    + apply H3; assumption.
Qed.

Definition kept_mode (ov : Z) (nw : bool) : Z := if (ov =? OV_FOLD) && nw then OV_CROP else ov.

(* THE THEOREM: statement (c) for Text.wrap, every overflow mode, every justify mode, no_wrap or not.
   With no_wrap a fold line is cropped (tests/test_text.py::test_no_wrap_no_crop), hence kept_mode. *)
Theorem wrap_styles_all : forall (t : text S) w j ov ts nw,
  2 <= w -> 0 <= ov <= 3 ->
  styles_kept_b S seqb (kept_mode ov nw) (styled t)
    (map styled (wrap S seqb null add fx t w j ov ts nw)) = true.
Proof.
  intros t w j ov ts nw Hw Hov.
  destruct (wrap_rel t w j ov ts nw Hw) as [ps [Hc [HF Hfit]]].
  set (outs := wrap S seqb null add fx t w j ov ts nw) in *. clearbody outs.
  assert (Heq : Forall2 (fun o l => sns o = sns l) outs ps -> concat (map (sc_ns S) (map styled outs)) = sc_ns S (styled t)).
  { intros H. rewrite map_map. change (sc_ns S (styled t)) with (sns t). rewrite <- Hc.
    clear -H. induction H as [|o l outs ps Hol _ IH]; [reflexivity|]. cbn [map concat]. rewrite IH.
    change (sc_ns S (styled o)) with (sns o). rewrite Hol. reflexivity. }
  assert (Hcrop : ov <> OV_ELLIPSIS -> Forall2 Prefix (map (sc_ns S) (map styled outs)) (map sns ps)).
  { intros Hne. clear -HF Hne. induction HF as [|o l outs ps Hol _ IH]; [constructor|].
    cbn [map]. constructor; [|exact IH]. destruct Hol as [_ [H2 _]]. apply H2. exact Hne. }
  unfold kept_mode.
  destruct (Z.eq_dec ov OV_IGNORE) as [E3|N3].
  { subst ov. cbn [Z.eqb OV_IGNORE OV_FOLD andb]. apply (styles_kept_eq S seqb seqb_eq); [right; reflexivity|].
    apply Heq. clear -HF. induction HF as [|o l outs ps Hol _ IH]; constructor; [|exact IH].
    destruct Hol as [H1 _]. apply H1. reflexivity. }
  destruct (Z.eq_dec ov OV_FOLD) as [E0|N0].
  { subst ov. replace (OV_FOLD =? OV_FOLD) with true by reflexivity. destruct nw; cbn [andb].
    - apply (styles_kept_crop S seqb seqb_eq _ _ (map sns ps)); [symmetry; exact Hc|].
      apply Hcrop. unfold OV_FOLD, OV_ELLIPSIS. lia.
    - apply (styles_kept_eq S seqb seqb_eq); [left; reflexivity|].
      apply Heq. specialize (Hfit eq_refl eq_refl). clear -HF Hfit.
      induction HF as [|o l outs ps Hol _ IH]; constructor.
      + destruct Hol as [_ [_ [_ H4]]]. apply H4; [unfold OV_FOLD, OV_ELLIPSIS; lia|]. inversion Hfit; assumption.
      + apply IH. inversion Hfit; assumption. }
  replace ((ov =? OV_FOLD) && nw) with false by (unfold OV_FOLD in *; lia).
  destruct (Z.eq_dec ov OV_CROP) as [E1|N1].
  { subst ov. apply (styles_kept_crop S seqb seqb_eq _ _ (map sns ps)); [symmetry; exact Hc|].
    apply Hcrop. unfold OV_CROP, OV_ELLIPSIS. lia. }
  assert (E2 : ov = OV_ELLIPSIS) by (unfold OV_FOLD, OV_CROP, OV_ELLIPSIS, OV_IGNORE in *; lia).
  subst ov. apply (styles_kept_ellipsis S seqb seqb_eq _ _ (map sns ps)); [symmetry; exact Hc|].
  clear -HF. induction HF as [|o l outs ps Hol _ IH]; [constructor|].
  cbn [map]. constructor; [|exact IH]. destruct Hol as [_ [_ [H3 _]]]. exact H3.
Qed.
End S6.
