(* C10 proofs, part 3: the screen invariant over whole histories (no faults), by induction over
   the operation list with draw_step as the inductive step. *)
From RichModel Require Import Prelude Cells TermGrid Live SpecLive.
From RichGen Require Import LiveCodes.
From RichProofs Require Import TermGridP LiveP.
From Coq Require Import ZifyBool.

Definition Hn (c : cfg) : nat := Z.to_nat (c_H c).
Definition T (c : cfg) (s : st) : term := interp (Hn c) init (out s).
Definition P_rows (s : st) : list row := map row_of (g_printed s).
Definition R_rows (s : st) : list row := if g_live s then region_rows (g_shown s) else [[]].
Definition shape_ok (s : st) : Prop :=
  if g_live s then exists w, shape s = Some (w, zlen (g_shown s)) else shape s = None.
Definition nofault (c : cfg) : Prop := c_frender c = None /\ c_fbuild c = None.

Lemma region_len : forall fl, Z.to_nat (zlen fl - 1) = (length (region_rows fl) - 1)%nat.
Proof. intros [|f fl]; unfold zlen, region_rows; cbn [length]; [reflexivity|]. rewrite map_length. cbn [length]. lia. Qed.

Lemma frame_lines_shape : forall c s, exists w, snd (frame_lines c s) = (w, zlen (fst (frame_lines c s))).
Proof.
  intros c s. unfold frame_lines. destruct (c_progress c).
  - set (rows := progress_rows (c_prog_crop c) (c_H c) (lr s)).
    unfold progress_lines. destruct (grow_shape (c_W c) (shape s) (table_width rows) (zlen rows)) as [w h] eqn:E.
    cbn [fst snd]. exists w. f_equal. unfold zlen. rewrite app_length, map_length, repeat_length.
    assert (zlen rows <= h).
    { unfold grow_shape in E. destruct (shape s) as [[w2 h2]|]; injection E as <- <-; lia. }
    unfold zlen in *. lia.
  - cbn [fst snd]. eexists. reflexivity.
Qed.

Lemma cp_draw : forall c s ls,
  nofault c -> (0 < hooks s)%nat -> shape_ok s ->
  live_at (T c s) (P_rows s) (R_rows s) ->
  lines_ok ls = true -> lines_ok (fst (frame_lines c s)) = true ->
  let r := console_print c s ls in
  snd r = false
  /\ live_at0 (T c (fst r)) (P_rows (fst r)) (R_rows (fst r)) /\ vis (T c (fst r)) = vis (T c s)
  /\ ((length (fst (frame_lines c s)) <= Hn c)%nat -> (length (R_rows (fst r)) - 1 <= vr (T c (fst r)))%nat)
  /\ shape_ok (fst r) /\ g_live (fst r) = true /\ same_flags s (fst r)
  /\ g_shown (fst r) = fst (frame_lines c s) /\ g_printed (fst r) = g_printed s ++ ls.
Proof.
  intros c s ls [Nf1 Nf2] Hh Hsh Hlive Hls Hfl. cbv zeta. unfold console_print.
  apply Nat.ltb_lt in Hh. rewrite Hh, Nf1. cbn [fault].
  pose proof (frame_lines_shape c s) as [w Hw].
  destruct (frame_lines c s) as [fl sh] eqn:EF. cbn [fst snd] in *.
  unfold T, P_rows, R_rows. cbn [drew bump_render out g_printed g_shown g_live started hooks redir shape].
  rewrite interp_app, map_app.
  assert (Hpc : position_cursor (shape s) = erase_str (length (R_rows s) - 1) \/
                (position_cursor (shape s) = [] /\ R_rows s = [[]])).
  { unfold shape_ok, R_rows in *. destruct (g_live s).
    - destruct Hsh as [w0 E]. rewrite E, pc_is_erase, region_len. now left.
    - rewrite Hsh. right. split; reflexivity. }
  pose proof (draw_step (Hn c) (T c s) (P_rows s) (R_rows s) _ ls fl Hlive Hpc Hls Hfl) as D.
  cbv zeta in D. destruct D as (D1 & D2 & D3).
  split; [reflexivity|]. split; [exact D1|]. split; [exact D2|]. split; [exact D3|].
  split; [unfold shape_ok; cbn; exists w; now rewrite Hw|].
  split; [reflexivity|]. split; [repeat split|]. split; reflexivity.
Qed.

Lemma cp_plain : forall c s ls,
  hooks s = 0%nat -> g_live s = false -> live_at (T c s) (P_rows s) [[]] -> lines_ok ls = true ->
  let r := console_print c s ls in
  snd r = false /\ live_at (T c (fst r)) (P_rows (fst r)) [[]] /\ vis (T c (fst r)) = vis (T c s)
  /\ same_flags s (fst r) /\ shape (fst r) = shape s /\ g_live (fst r) = false
  /\ g_printed (fst r) = g_printed s ++ ls.
Proof.
  intros c s ls Hh Hg Hlive Hls. cbv zeta. unfold console_print. rewrite Hh. cbn [Nat.ltb Nat.leb fst snd].
  unfold T, P_rows. cbn [printed_plain out g_printed g_live shape].
  rewrite interp_app, map_app.
  pose proof (draw_step (Hn c) (T c s) (P_rows s) [[]] [] ls [] Hlive (or_intror (conj eq_refl eq_refl)) Hls eq_refl) as D.
  cbv zeta in D. cbn [app join_nl region_rows] in D. rewrite app_nil_r in D. destruct D as (D1 & D2 & D3).
  split; [reflexivity|]. split; [split; [exact D1|apply D3; cbn; lia]|].
  split; [exact D2|]. split; [repeat split|]. split; [reflexivity|]. split; [assumption|reflexivity].
Qed.

(* ---------- terminal-level helpers for start/stop ---------- *)
Lemma live_at_cursor : forall H t P R (b : bool),
  live_at t P R ->
  let t' := interp H t (if b then cursor_on else cursor_off) in
  live_at t' P R /\ vis t' = b /\ vr t' = vr t.
Proof.
  intros H t P R b ((Hps & Hbl & Hg & Hne & Hcol) & Hvr). destruct t as [ab cr be co v vi p].
  cbn [ps] in Hps. subst p. cbv zeta.
  destruct b; [rewrite cursor_on_is, interp_vis_on|rewrite cursor_off_is, interp_vis_off];
    (split; [split; [repeat split; assumption|assumption]|split; reflexivity]).
Qed.

Lemma lf_rest : forall H t P R, live_at0 t P R ->
  let t' := interp H t [10] in
  live_at t' (P ++ R) [[]] /\ vis t' = vis t /\ vr t' = lf_vr H (vr t).
Proof.
  intros H t P R (Hps & Hbl & Hg & Hne & Hcol). destruct t as [ab cr be co v vi p].
  cbn [ps below above crow col] in *. subst p. cbv zeta.
  rewrite (interp_cons _ _ 10 []), interp_nil, step_lf by reflexivity.
  unfold do_lf, down1. cbn [above crow below col vr vis ps].
  split; [|split; reflexivity]. split; [|cbn; lia].
  unfold live_at0. cbn [ps below above crow col].
  split; [reflexivity|]. split; [now apply blanks_tl|]. split; [|split; [discriminate|reflexivity]].
  cbn [rev]. rewrite Hg, (blanks_hd be Hbl). reflexivity.
Qed.

Lemma restore_rest : forall H t P R, live_at t (P ++ R) [[]] -> (length R <= vr t)%nat ->
  let t' := interp H t ([13] ++ concat (repeat [27; 91; 49; 65; 27; 91; 50; 75] (length R))) in
  live_at t' P [[]] /\ vis t' = vis t.
Proof.
  intros H t P R ((Hps & Hbl & Hg & Hne & Hcol) & _) Hv. destruct t as [ab cr be co v vi p].
  cbn [ps below above crow col vr] in *. subst p. cbv zeta.
  apply app_inj_tail in Hg. destruct Hg as [Hab Hcr]. subst cr.
  assert (Eab : ab = rev R ++ rev P).
  { rewrite <- (rev_involutive ab), Hab, rev_app_distr. reflexivity. }
  rewrite interp_app, (interp_cons _ _ 13 []), interp_nil, step_cr by reflexivity.
  unfold do_cr. cbn [above crow below vr vis ps]. subst ab.
  replace v with (length R + (v - length R))%nat by lia.
  rewrite interp_units by apply rev_length.
  split; [|reflexivity]. split; [|cbn; lia].
  unfold live_at0. cbn [ps below above crow col].
  split; [reflexivity|]. split; [apply blanks_app; [apply blanks_repeat|assumption]|].
  split; [now rewrite rev_involutive|split; [discriminate|reflexivity]].
Qed.

(* ---------- the invariant ---------- *)
Record SInv (c : cfg) (s : st) : Prop := mkSInv {
  si_live : live_at (T c s) (P_rows s) (R_rows s);
  si_vis : vis (T c s) = negb (started s);
  si_hooks : hooks s = (if started s then 1 else 0)%nat;
  si_shape : started s = true -> shape_ok s;
  si_glive : g_live s = true -> started s = true
}.

Lemma SInv_ext : forall c s s',
  out s' = out s -> g_printed s' = g_printed s -> g_shown s' = g_shown s -> g_live s' = g_live s ->
  started s' = started s -> hooks s' = hooks s -> shape s' = shape s -> SInv c s -> SInv c s'.
Proof.
  intros c s s' E1 E2 E3 E4 E5 E6 E7 [A B C D E].
  unfold T, P_rows, R_rows, shape_ok in *.
  constructor; unfold T, P_rows, R_rows, shape_ok; rewrite ?E1, ?E2, ?E3, ?E4, ?E5, ?E6, ?E7; assumption.
Qed.

Lemma SInv_init : forall c f0, SInv c (st0 c f0).
Proof.
  intros c f0. constructor; unfold T, P_rows, R_rows, shape_ok; cbn; try reflexivity; try discriminate.
  split; [|cbn; lia]. repeat split; try discriminate. constructor.
Qed.

Definition pre_refresh (c : cfg) (s : st) : st := if c_progress c then set_lr s (cur s) else s.
Definition fits (c : cfg) (s : st) (cap : nat) : bool :=
  lines_ok (fst (frame_lines c s)) && (length (fst (frame_lines c s)) <=? cap)%nat.

(* a print / log / refresh while the display is started *)
Lemma cp_started : forall c s ls, nofault c -> SInv c s -> started s = true ->
  lines_ok ls = true -> fits c s (Hn c) = true ->
  let r := console_print c s ls in
  snd r = false /\ SInv c (fst r) /\ started (fst r) = true.
Proof.
  intros c s ls Nf [A B C D E] Hs Hls Hf. apply andb_prop in Hf. destruct Hf as [Hf1 Hf2].
  apply Nat.leb_le in Hf2. rewrite Hs in C.
  pose proof (cp_draw c s ls Nf ltac:(lia) (D Hs) A Hls Hf1) as R. cbv zeta in R.
  destruct R as (R1 & R2 & R3 & R4 & R5 & R6 & (F1 & F2 & F3) & R7 & R8).
  cbv zeta. split; [assumption|]. split; [|congruence].
  constructor.
  - split; [assumption|now apply R4].
  - rewrite R3, B. now rewrite F1.
  - rewrite F1, F2, Hs. assumption.
  - intros _. assumption.
  - intros _. congruence.
Qed.

Lemma cp_idle : forall c s ls, SInv c s -> started s = false -> lines_ok ls = true ->
  let r := console_print c s ls in
  snd r = false /\ SInv c (fst r) /\ started (fst r) = false /\ shape (fst r) = shape s.
Proof.
  intros c s ls [A B C D E] Hs Hls. rewrite Hs in C.
  assert (Hg : g_live s = false) by (destruct (g_live s); [specialize (E eq_refl); congruence|reflexivity]).
  unfold R_rows in A. rewrite Hg in A.
  pose proof (cp_plain c s ls C Hg A Hls) as R. cbv zeta in R.
  destruct R as (R1 & R2 & R3 & (F1 & F2 & F3) & R4 & R5 & R6).
  cbv zeta. split; [assumption|]. split; [|split; congruence].
  constructor.
  - unfold R_rows. rewrite R5. assumption.
  - rewrite R3, B, F1. reflexivity.
  - rewrite F1, F2, Hs. assumption.
  - intros X. congruence.
  - intros X. congruence.
Qed.

Lemma refresh_draw : forall c s,
  nofault c -> (0 < hooks s)%nat -> shape_ok s ->
  live_at (T c s) (P_rows s) (R_rows s) ->
  lines_ok (fst (frame_lines c (pre_refresh c s))) = true ->
  let r := refresh c s in
  snd r = false
  /\ live_at0 (T c (fst r)) (P_rows (fst r)) (R_rows (fst r)) /\ vis (T c (fst r)) = vis (T c s)
  /\ ((length (fst (frame_lines c (pre_refresh c s))) <= Hn c)%nat -> (length (R_rows (fst r)) - 1 <= vr (T c (fst r)))%nat)
  /\ shape_ok (fst r) /\ g_live (fst r) = true /\ same_flags s (fst r)
  /\ g_shown (fst r) = fst (frame_lines c (pre_refresh c s)) /\ g_printed (fst r) = g_printed s.
Proof.
  intros c s Nf Hh Hsh Hlive Hfl. cbv zeta. unfold refresh, pre_refresh in *.
  destruct (c_progress c) eqn:Ep.
  - destruct Nf as [Nf1 Nf2]. rewrite Nf2. cbn [fault].
    pose proof (cp_draw c (set_lr (bump_build s) (cur (bump_build s))) [] (conj Nf1 Nf2) Hh Hsh Hlive eq_refl) as R.
    assert (EF : frame_lines c (set_lr (bump_build s) (cur (bump_build s))) = frame_lines c (set_lr s (cur s))).
    { unfold frame_lines. rewrite Ep. reflexivity. }
    rewrite EF in R. specialize (R Hfl). cbv zeta in R. rewrite app_nil_r in R. exact R.
  - pose proof (cp_draw c s [] Nf Hh Hsh Hlive eq_refl Hfl) as R. cbv zeta in R.
    rewrite app_nil_r in R. exact R.
Qed.

Lemma refresh_started : forall c s, nofault c -> SInv c s -> started s = true ->
  fits c (pre_refresh c s) (Hn c) = true ->
  let r := refresh c s in snd r = false /\ SInv c (fst r) /\ started (fst r) = true.
Proof.
  intros c s Nf [A B C D E] Hs Hf. apply andb_prop in Hf. destruct Hf as [Hf1 Hf2].
  apply Nat.leb_le in Hf2. rewrite Hs in C.
  pose proof (refresh_draw c s Nf ltac:(lia) (D Hs) A Hf1) as R. cbv zeta in R.
  destruct R as (R1 & R2 & R3 & R4 & R5 & R6 & (F1 & F2 & F3) & R7 & R8).
  cbv zeta. split; [assumption|]. split; [|congruence].
  constructor.
  - split; [assumption|now apply R4].
  - rewrite R3, B. now rewrite F1.
  - rewrite F1, F2, Hs. assumption.
  - intros _. assumption.
  - intros _. congruence.
Qed.

Lemma refresh_idle : forall c s, nofault c -> SInv c s -> started s = false ->
  let r := refresh c s in
  snd r = false /\ SInv c (fst r) /\ started (fst r) = false /\ shape (fst r) = shape s.
Proof.
  intros c s [Nf1 Nf2] Hi Hs. cbv zeta. unfold refresh. destruct (c_progress c).
  - rewrite Nf2. cbn [fault].
    apply (cp_idle c (set_lr (bump_build s) (cur (bump_build s))) []); [|assumption|reflexivity].
    apply (SInv_ext c s); try reflexivity. assumption.
  - now apply cp_idle.
Qed.

(* ---------- which histories the theorem is about ---------- *)
Definition stop_s1 (c : cfg) (s : st) : st :=
  let s0 := set_flags s false (hooks s) (redir s) in
  if c_progress c then s0
  else if c_vis_unless_transient c && c_transient c then s0 else set_ovf s0 OVisible.

Definition is_none {A} (o : option A) : bool := match o with None => true | Some _ => false end.

(* every frame that is actually drawn is text and not taller than the page (for a transient
   display the last one must leave room for the final newline); start() only on a display that has
   not been stopped before; no raising renderable *)
Definition op_ok (c : cfg) (s : st) (o : op) : bool :=
  match o with
  | Print ls => lines_ok ls && (negb (started s) || fits c s (Hn c))
  | Log ls => lines_ok (log_lines (c_W c) ls) && (negb (started s) || fits c s (Hn c))
  | PrintRaise => false
  | Update f r => if r then negb (started s) || fits c (pre_refresh c (set_cur s f)) (Hn c) else true
  | Refresh => negb (started s) || fits c (pre_refresh c s) (Hn c)
  | Start => started s || (is_none (shape s) && (negb (c_progress c) || fits c (pre_refresh c s) (Hn c)))
  | Stop => negb (started s) ||
            (let fl := fst (frame_lines c (pre_refresh c (stop_s1 c s))) in
             lines_ok fl && (if c_transient c then (S (length fl) <=? Hn c)%nat else true))
  end.

Fixpoint ops_ok (c : cfg) (s : st) (ops : list op) : bool :=
  match ops with
  | [] => true
  | o :: r => op_ok c s o && ops_ok c (fst (step c s o)) r
  end.

Lemma kept_true : forall fl, map row_of (kept_rows true fl) = region_rows fl.
Proof. intros [|f fl]; reflexivity. Qed.

Lemma start_inv : forall c s, nofault c -> SInv c s -> op_ok c s Start = true ->
  snd (start c s) = false /\ SInv c (fst (start c s)).
Proof.
  intros c s Nf Hi Hok. unfold start. cbn [op_ok] in Hok. destruct (started s) eqn:Es.
  - split; [reflexivity|assumption].
  - cbn [orb] in Hok. apply andb_prop in Hok. destruct Hok as [Hn0 Hf].
    destruct Hi as [A B C D E]. rewrite Es in C.
    assert (Hg : g_live s = false) by (destruct (g_live s); [specialize (E eq_refl); congruence|reflexivity]).
    assert (Hsh : shape s = None) by (destruct (shape s); [discriminate|reflexivity]).
    set (s1 := emit (set_flags s true (S (hooks s)) true) cursor_off).
    pose proof (live_at_cursor (Hn c) (T c s) (P_rows s) (R_rows s) false A) as K. cbv zeta in K.
    destruct K as (K1 & K2 & K3).
    assert (I1 : SInv c s1).
    { constructor; unfold T, P_rows, R_rows, shape_ok; subst s1;
        cbn [emit set_flags out g_printed g_shown g_live started hooks shape].
      - rewrite interp_app. exact K1.
      - rewrite interp_app. exact K2.
      - rewrite C. reflexivity.
      - intros _. rewrite Hg. assumption.
      - intros _. reflexivity. }
    destruct (c_progress c) eqn:Ep.
    + cbn [negb orb] in Hf.
      assert (Hf' : fits c (pre_refresh c s1) (Hn c) = true).
      { unfold fits, pre_refresh, frame_lines in *. rewrite Ep in *. exact Hf. }
      pose proof (refresh_started c s1 Nf I1 eq_refl Hf') as R. cbv zeta in R.
      destruct (refresh c s1) as [s2 raised]. cbn [fst snd] in R. destruct R as (R1 & R2 & R3).
      subst raised. cbn [andb fst snd]. split; [reflexivity|assumption].
    + cbn [fst snd]. split; [reflexivity|assumption].
Qed.

Lemma to_nat_zlen : forall {A} (l : list A), Z.to_nat (zlen l) = length l.
Proof. intros. unfold zlen. apply Nat2Z.id. Qed.

Lemma lf_room : forall H v n, (S n <= H)%nat -> (n - 1 <= v)%nat -> (n <= lf_vr H v)%nat.
Proof. intros H v n A B. unfold lf_vr. destruct (S v <? H)%nat eqn:E; lia. Qed.

Lemma region_len' : forall fl, (length (region_rows fl) - 1 = length fl - 1)%nat.
Proof. intros [|f fl]; unfold region_rows; [reflexivity|]. now rewrite map_length. Qed.

Lemma stop_unfold : forall c s, started s = true ->
  stop c s =
  let '(sr, raised) := refresh c (stop_s1 c s) in
  let s2 := after_refresh c s sr raised in
  let s3 := if raised then s2 else emit s2 [NL] in
  let s4 := emit (set_flags s3 false (pred (hooks s3)) false) cursor_on in
  if raised then (s4, true)
  else if c_transient c then (forget c (settle (emit s4 (restore_cursor (shape s4))) false), false)
  else (forget c (settle s4 true), false).
Proof. intros c s Hs. unfold stop, stop_s1. rewrite Hs. reflexivity. Qed.

Lemma SInv_forget : forall c s, started s = false -> SInv c s -> SInv c (forget c s).
Proof.
  intros c s Hs [A B C D E]. unfold forget. destruct (c_resets_shape c); [|constructor; assumption].
  constructor; unfold T, P_rows, R_rows, shape_ok in *; cbn [forget_shape out g_printed g_shown g_live started hooks shape];
    try assumption.
  intros X. congruence.
Qed.

Lemma stop_inv : forall c s, nofault c -> SInv c s -> op_ok c s Stop = true ->
  snd (stop c s) = false /\ SInv c (fst (stop c s)).
Proof.
  intros c s Nf Hi Hok. cbn [op_ok] in Hok. destruct (started s) eqn:Es.
  2:{ unfold stop. rewrite Es. split; [reflexivity|assumption]. }
  cbn [negb orb] in Hok. apply andb_prop in Hok. destruct Hok as [Hl Hcap].
  rewrite (stop_unfold c s Es).
  destruct Hi as [A B C D E]. rewrite Es in C. specialize (D Es).
  set (s1 := stop_s1 c s) in *.
  assert (X : out s1 = out s /\ g_printed s1 = g_printed s /\ g_shown s1 = g_shown s /\ g_live s1 = g_live s
              /\ hooks s1 = hooks s /\ shape s1 = shape s).
  { subst s1. unfold stop_s1. destruct (c_progress c); [repeat split|].
    destruct (c_vis_unless_transient c && c_transient c); repeat split. }
  destruct X as (X1 & X2 & X3 & X4 & X5 & X6).
  assert (A1 : live_at (T c s1) (P_rows s1) (R_rows s1)).
  { unfold T, P_rows, R_rows. rewrite X1, X2, X3, X4. exact A. }
  assert (D1 : shape_ok s1) by (unfold shape_ok; rewrite X3, X4, X6; exact D).
  pose proof (refresh_draw c s1 Nf ltac:(lia) D1 A1 Hl) as R. cbv zeta in R.
  destruct (refresh c s1) as [sr raised]. cbn [fst snd] in R.
  destruct R as (R1 & R2 & R3 & R4 & R5 & R6 & (F1 & F2 & F3) & R7 & R8). subst raised.
  (* the inner finally only touches vertical_overflow *)
  set (s2 := after_refresh c s sr false).
  assert (Y : out s2 = out sr /\ g_printed s2 = g_printed sr /\ g_shown s2 = g_shown sr /\ g_live s2 = g_live sr
              /\ hooks s2 = hooks sr /\ shape s2 = shape sr).
  { subst s2. unfold after_refresh. destruct (restores c false); repeat split. }
  destruct Y as (Y1 & Y2 & Y3 & Y4 & Y5 & Y6).
  unfold T, P_rows, R_rows, shape_ok in R2, R3, R4, R5.
  rewrite <- Y1, <- Y2, <- Y4, <- Y3 in R2. rewrite <- Y1 in R3. rewrite <- Y1, <- Y4, <- Y3 in R4.
  rewrite <- Y4, <- Y3, <- Y6 in R5.
  rewrite <- Y4 in R6. rewrite <- Y3 in R7. rewrite <- Y2 in R8. rewrite <- Y5 in F2.
  fold (T c s2) in R2, R3, R4. fold (P_rows s2) in R2. fold (R_rows s2) in R2, R4. fold (shape_ok s2) in R5.
  fold (T c s1) in R3.
  set (fl := fst (frame_lines c (pre_refresh c s1))) in *.
  assert (HR2 : R_rows s2 = region_rows fl) by (unfold R_rows; now rewrite R6, R7).
  (* console.line() *)
  pose proof (lf_rest (Hn c) (T c s2) (P_rows s2) (R_rows s2) R2) as L. cbv zeta in L.
  destruct L as (L1 & L2 & L3).
  (* show_cursor(True) *)
  pose proof (live_at_cursor (Hn c) _ _ _ true L1) as K. cbv zeta in K. destruct K as (K1 & K2 & K3).
  assert (Hvis0 : vis (T c s) = false) by (rewrite B, Es; reflexivity).
  destruct (c_transient c) eqn:Et; cbn [fst snd]; (split; [reflexivity|]).
  - (* transient: restore_cursor *)
    apply Nat.leb_le in Hcap.
    assert (Hsh2 : exists w, shape s2 = Some (w, zlen fl)).
    { unfold shape_ok in R5. rewrite R6, R7 in R5. exact R5. }
    destruct Hsh2 as [w Hsh2].
    assert (Hvr : (length fl <= lf_vr (Hn c) (vr (T c s2)))%nat).
    { apply lf_room; [exact Hcap|]. rewrite <- region_len'. rewrite <- HR2. apply R4.
      apply Nat.le_trans with (S (length fl)); [apply Nat.le_succ_diag_r|exact Hcap]. }
    apply SInv_forget; [reflexivity|].
    constructor; unfold T, P_rows, R_rows, shape_ok;
      cbn [settle emit set_flags out g_printed g_shown g_live started hooks shape];
      try (intros; discriminate); try reflexivity.
    + rewrite Hsh2, rc_is. rewrite to_nat_zlen, R7.
      rewrite !interp_app. fold (T c s2).
      destruct fl as [|f0 fl0] eqn:Efl.
      * cbn [kept_rows length repeat concat]. rewrite map_app.
        pose proof (restore_rest (Hn c) _ (P_rows s2 ++ R_rows s2) [] ltac:(rewrite app_nil_r; exact K1) (Nat.le_0_l _)) as Q.
        cbv zeta in Q. cbn [length repeat concat] in Q. destruct Q as (Q1 & _).
        rewrite HR2, interp_app in Q1. exact Q1.
      * cbn [kept_rows]. rewrite app_nil_r.
        pose proof (restore_rest (Hn c) _ (P_rows s2) (R_rows s2) K1) as Q.
        rewrite HR2 in Q. unfold region_rows in Q. rewrite map_length in Q.
        specialize (Q ltac:(rewrite K3, L3; exact Hvr)). cbv zeta in Q. destruct Q as (Q1 & _).
        rewrite interp_app in Q1. exact Q1.
    + rewrite Hsh2, rc_is. rewrite to_nat_zlen.
      rewrite !interp_app. fold (T c s2). unfold NL.
      destruct fl as [|f0 fl0] eqn:Efl.
      * pose proof (restore_rest (Hn c) _ (P_rows s2 ++ R_rows s2) [] ltac:(rewrite app_nil_r; exact K1) (Nat.le_0_l _)) as Q.
        cbv zeta in Q. cbn [length repeat concat] in Q. destruct Q as (_ & Q2). cbn [length repeat concat].
        rewrite interp_app in Q2. rewrite Q2. exact K2.
      * pose proof (restore_rest (Hn c) _ (P_rows s2) (R_rows s2) K1) as Q.
        rewrite HR2 in Q. unfold region_rows in Q. rewrite map_length in Q.
        specialize (Q ltac:(rewrite K3, L3; exact Hvr)). cbv zeta in Q. destruct Q as (_ & Q2).
        rewrite interp_app in Q2. rewrite Q2. exact K2.
    + rewrite F2, X5, C. reflexivity.
  - (* the frame stays: it becomes printed output *)
    apply SInv_forget; [reflexivity|].
    constructor; unfold T, P_rows, R_rows, shape_ok;
      cbn [settle emit set_flags out g_printed g_shown g_live started hooks shape];
      try (intros; discriminate); try reflexivity.
    + rewrite !interp_app. fold (T c s2). rewrite map_app, R7, kept_true, <- HR2. exact K1.
    + rewrite !interp_app. fold (T c s2). exact K2.
    + rewrite F2, X5, C. reflexivity.
Qed.

Lemma step_inv : forall c s o, nofault c -> SInv c s -> op_ok c s o = true ->
  snd (step c s o) = false /\ SInv c (fst (step c s o)).
Proof.
  intros c s o Nf Hi Hok. destruct o; cbn [step op_ok] in *.
  - apply andb_prop in Hok. destruct Hok as [Hl Hf]. destruct (started s) eqn:Es; cbn [negb orb] in Hf.
    + pose proof (cp_started c s ls Nf Hi Es Hl Hf) as R. cbv zeta in R. tauto.
    + pose proof (cp_idle c s ls Hi Es Hl) as R. cbv zeta in R. tauto.
  - apply andb_prop in Hok. destruct Hok as [Hl Hf]. destruct (started s) eqn:Es; cbn [negb orb] in Hf.
    + pose proof (cp_started c s _ Nf Hi Es Hl Hf) as R. cbv zeta in R. tauto.
    + pose proof (cp_idle c s _ Hi Es Hl) as R. cbv zeta in R. tauto.
  - discriminate.
  - assert (I1 : SInv c (set_cur s f)) by (apply (SInv_ext c s); try reflexivity; assumption).
    destruct r; [|split; [reflexivity|assumption]].
    destruct (started s) eqn:Es; cbn [negb orb] in Hok.
    + pose proof (refresh_started c (set_cur s f) Nf I1 Es Hok) as R. cbv zeta in R. tauto.
    + pose proof (refresh_idle c (set_cur s f) Nf I1 Es) as R. cbv zeta in R. tauto.
  - destruct (started s) eqn:Es; cbn [negb orb] in Hok.
    + pose proof (refresh_started c s Nf Hi Es Hok) as R. cbv zeta in R. tauto.
    + pose proof (refresh_idle c s Nf Hi Es) as R. cbv zeta in R. tauto.
  - now apply start_inv.
  - now apply stop_inv.
Qed.

Lemma run_inv : forall c ops s, nofault c -> SInv c s -> ops_ok c s ops = true ->
  snd (run_ops c s ops) = false /\ SInv c (fst (run_ops c s ops)).
Proof.
  intros c ops. induction ops as [|o r IH]; intros s Nf Hi Hok.
  - split; [reflexivity|assumption].
  - cbn [ops_ok] in Hok. apply andb_prop in Hok. destruct Hok as [H1 H2].
    pose proof (step_inv c s o Nf Hi H1) as [S1 S2]. cbn [run_ops].
    destruct (step c s o) as [s1 raised]. cbn [fst snd] in *. subst raised. now apply IH.
Qed.

(* ---------- from the invariant to the spec checkers ---------- *)
Lemma norm_region : forall P shown be, blanks be ->
  norm_grid ((P ++ region_rows shown) ++ be) = norm_grid (P ++ map row_of shown).
Proof.
  intros P shown be Hb. rewrite norm_grid_app_blanks by assumption. destruct shown as [|f fl].
  - cbn [region_rows map]. rewrite app_nil_r. apply norm_grid_app_blanks. repeat constructor.
  - reflexivity.
Qed.

Lemma region_cursor : forall (n : nat) (shown : list str) (a : nat),
  (a + 1 = n + length (region_rows shown))%nat -> (a =? n + pred (Nat.max 1 (length shown)))%nat = true.
Proof.
  intros n shown a E. apply Nat.eqb_eq. destruct shown as [|f fl]; unfold region_rows in E; cbn [length] in *.
  - lia.
  - rewrite map_length in E. cbn [length] in *. lia.
Qed.

Lemma grid_of_live : forall t P R, live_at0 t P R ->
  grid t = (P ++ R) ++ below t /\ (cursor_row t + 1 = length P + length R)%nat.
Proof.
  intros t P R (_ & _ & Hg & _ & _). unfold grid, cursor_row. split.
  - rewrite <- Hg, <- app_assoc. reflexivity.
  - apply (f_equal (@length row)) in Hg. rewrite !app_length, rev_length in Hg. cbn [length] in Hg. exact Hg.
Qed.

Lemma view_of_inv : forall c s, SInv c s ->
  view_ok_b (Hn c) (g_live s) (g_printed s) (g_shown s) (out s) = true
  /\ cursor_vis_ok_b (Hn c) (started s) (out s) = true.
Proof.
  intros c s [[A Avr] B _ _ _]. split.
  - pose proof (grid_of_live _ _ _ A) as [G1 G2]. destruct A as (Hps & Hbl & Hg & Hne & Hcol).
    unfold view_ok_b, R_rows, P_rows in *. destruct (g_live s).
    + unfold screen_ok_b, same_screen. fold (T c s). rewrite G1, map_app, norm_region by assumption.
      rewrite grid_eqb_refl. rewrite map_length in G2. rewrite (region_cursor _ _ _ G2).
      unfold is_ground. rewrite Hps. reflexivity.
    + unfold rest_ok_b, same_screen. fold (T c s). rewrite G1.
      rewrite norm_grid_app_blanks by assumption.
      rewrite norm_grid_app_blanks by (repeat constructor). rewrite grid_eqb_refl.
      rewrite map_length in G2. cbn [length] in G2.
      replace (cursor_row (T c s)) with (length (g_printed s)) by (clear - G2; lia).
      rewrite Nat.eqb_refl, (Hcol eq_refl). unfold is_ground. rewrite Hps. reflexivity.
  - unfold cursor_vis_ok_b. fold (T c s). rewrite B. apply Bool.eqb_reflx.
Qed.

(* the whole-history theorems *)
Theorem screen_invariant : forall c f0 ops, nofault c -> ops_ok c (st0 c f0) ops = true ->
  let s := fst (run_ops c (st0 c f0) ops) in
  snd (run_ops c (st0 c f0) ops) = false
  /\ view_ok_b (Hn c) (g_live s) (g_printed s) (g_shown s) (out s) = true
  /\ cursor_vis_ok_b (Hn c) (started s) (out s) = true.
Proof.
  intros c f0 ops Nf Hok. cbv zeta.
  pose proof (run_inv c ops (st0 c f0) Nf (SInv_init c f0) Hok) as [R1 R2].
  split; [assumption|]. now apply view_of_inv.
Qed.

(* after stop(): started = false forces the rest view and a visible cursor *)
Theorem after_stop : forall c f0 ops, nofault c -> ops_ok c (st0 c f0) ops = true ->
  let s := fst (run_ops c (st0 c f0) ops) in
  started s = false ->
  after_stop_ok_b (Hn c) (g_printed s) [] (out s) = true.
Proof.
  intros c f0 ops Nf Hok. cbv zeta. intros Hs.
  pose proof (run_inv c ops (st0 c f0) Nf (SInv_init c f0) Hok) as [_ R2].
  pose proof (view_of_inv c _ R2) as [V1 V2]. destruct R2 as [_ _ _ _ E].
  set (s := fst (run_ops c (st0 c f0) ops)) in *.
  assert (Hg : g_live s = false) by (destruct (g_live s); [specialize (E eq_refl); congruence|reflexivity]).
  unfold view_ok_b in V1. rewrite Hg in V1. unfold cursor_vis_ok_b in V2. rewrite Hs in V2.
  apply Bool.eqb_prop in V2. unfold after_stop_ok_b. rewrite app_nil_r, V1, V2. reflexivity.
Qed.

(* crop / ellipsis always produce a drawable frame: "overflow handled" satisfies the side condition *)
Lemma fit_live_len : forall o W H ls, o <> OVisible -> 1 <= H ->
  (length (fit_live o W H ls) <= Z.to_nat H)%nat.
Proof.
  intros o W H ls Ho HH. unfold fit_live. destruct (H <? zlen ls) eqn:E.
  - destruct o; [| |congruence].
    + rewrite firstn_length. lia.
    + rewrite app_length, firstn_length. cbn [length]. lia.
  - unfold zlen in E. lia.
Qed.

Example ops_ok_nonvacuous :
  (* frames that grow, shrink, become empty and exceed the page; ellipsis; prints and a log *)
  let c := mkCfg false false OEllipsis 12 3 None None true false false false false false false false false in
  ops_ok c (st0 c (w_lines 2))
    [Print (w_lines 1); Start; Refresh; Print (w_lines 4); Update (w_lines 7) true; Log (w_lines 1);
     Update [] false; Print (w_lines 1); Update (w_lines 1) true; Start; Stop; Print (w_lines 1)] = true.
Proof. vm_compute. reflexivity. Qed.

Example ops_ok_nonvacuous_progress :
  let c := mkCfg true true OEllipsis 12 4 None None true false false false false false false false false in
  ops_ok c (st0 c (w_lines 2))
    [Start; Print (w_lines 5); Update (w_lines 3) true; Update [] true; Log (w_lines 1); Stop] = true.
Proof. vm_compute. reflexivity. Qed.
