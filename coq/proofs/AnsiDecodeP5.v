(* C19 round trip, part 4: one rendered run, then a line of runs. *)
From RichModel Require Import Prelude Color Style AnsiDecode FileProxy SpecDecode.
From RichGen Require Import AnsiRegex SgrMap StyleTables.
From RichProofs Require Import AnsiDecodeP FileProxyP AnsiDecodeP2 AnsiDecodeP3 AnsiDecodeP4.

Definition vdt (s acc : str) (st : style) : style * res (list vchar) := vd (tok s acc) st.

Lemma vdt_nil acc st : ok_text acc -> vdt [] acc st = (st, Ok (flush_chars st acc)).
Proof.
  intros H. unfold vdt. rewrite tok_nil. rewrite <- (app_nil_r (plain_tok acc)). rewrite vd_plain_tok by exact H.
  unfold vd, pre. cbn. rewrite app_nil_r. reflexivity.
Qed.
Lemma vdt_plain p s acc st : ok_text p -> vdt (p ++ s) acc st = vdt s (rev p ++ acc) st.
Proof. intros H. unfold vdt. rewrite tok_plain by (apply ok_text_lacks; exact H). reflexivity. Qed.
Lemma vdt_sgr g s acc st codes st' : ok_text acc -> lacks 109 g -> lacks 10 g -> g <> [] ->
  sgr_codes true (split_on 59 g) = Ok codes -> apply_codes codes st = Ok st' ->
  vdt (27 :: 91 :: g ++ 109 :: s) acc st = pre (flush_chars st acc) (vdt s [] st').
Proof.
  intros Ha H1 H2 Hg Hc Hs. unfold vdt. rewrite tok_sgr by assumption. rewrite vd_plain_tok by exact Ha.
  rewrite (vd_sgr g _ st codes st' Hg Hc Hs). reflexivity.
Qed.
Lemma vdt_osc g s acc st : ok_text acc -> lacks 27 g -> lacks 10 g -> g <> [] ->
  vdt (27 :: 93 :: g ++ 27 :: 92 :: s) acc st = pre (flush_chars st acc) (vdt s [] (apply_osc g st)).
Proof.
  intros Ha H1 H2 Hg. unfold vdt. rewrite tok_osc by assumption. rewrite vd_plain_tok by exact Ha.
  rewrite (vd_osc g _ st Hg). reflexivity.
Qed.

(* ESC [ 0 m *)
Lemma vdt_reset s acc st : ok_text acc ->
  vdt (27 :: 91 :: 48 :: 109 :: s) acc st = pre (flush_chars st acc) (vdt s [] style_null).
Proof.
  intros Ha. apply (vdt_sgr [48] s acc st [0] style_null Ha); try reflexivity. discriminate.
Qed.

(* ------------------------------------------------------------------ the parameter string *)
Definition ATTRS (s : style) : str := str_join [59] (map str_of_Z (style_nums s)).

Lemma no_char_lacks c s : no_char c s = true -> lacks c s.
Proof.
  unfold no_char, mem_Z, lacks. induction s as [|x s IH]; [reflexivity|]. cbn [existsb forallb]. intros H.
  apply negb_true_iff, orb_false_iff in H. destruct H as [H1 H2]. rewrite Z.eqb_sym, H1. cbn [negb andb].
  apply IH. rewrite H2. reflexivity.
Qed.
Lemma lacks_app c a b : lacks c a -> lacks c b -> lacks c (a ++ b).
Proof. unfold lacks. intros. rewrite forallb_app. apply andb_true_iff. auto. Qed.

Lemma join_lacks c (l : list str) : (59 =? c) = false -> Forall (lacks c) l -> lacks c (str_join [59] l).
Proof.
  intros Hc H. induction H as [|x l Hx _ IH]; [reflexivity|]. destruct l as [|y l]; [exact Hx|].
  cbn [str_join]. apply lacks_app; [exact Hx|]. apply lacks_app; [|exact IH].
  unfold lacks. cbn [forallb]. rewrite Hc. reflexivity.
Qed.

Lemma nums_lacks ks c : nums_ok ks -> (c = 109 \/ c = 10) -> Forall (lacks c) (map str_of_Z ks).
Proof.
  intros H Hc. induction H as [|k ks Hk _ IH]; [constructor|]. cbn [map]. constructor; [|exact IH].
  pose proof (num_ok_range k Hk) as N. unfold num_ok in N.
  apply andb_true_iff in N; destruct N as [N _]. apply andb_true_iff in N; destruct N as [N _].
  apply andb_true_iff in N; destruct N as [N N10]. apply andb_true_iff in N; destruct N as [N N109].
  destruct Hc as [-> | ->]; apply no_char_lacks; assumption.
Qed.

Lemma attrs_facts s : wf_style s -> style_nums s <> [] ->
  ATTRS s <> [] /\ lacks 109 (ATTRS s) /\ lacks 10 (ATTRS s)
  /\ sgr_codes true (split_on 59 (ATTRS s)) = Ok (style_nums s).
Proof.
  intros W Hne. destruct (sgr_list_nums s W) as [_ N]. unfold ATTRS.
  split; [|split; [|split]].
  - destruct (style_nums s) as [|k ks]; [contradiction|]. inversion N as [|? ? Hk _]. subst.
    pose proof (num_ok_range k Hk) as NK. unfold num_ok in NK. apply andb_true_iff in NK. destruct NK as [_ NK].
    cbn [map str_join]. destruct (str_of_Z k) eqn:E; [discriminate|]. destruct (map str_of_Z ks); discriminate.
  - apply join_lacks; [reflexivity|]. apply nums_lacks; auto.
  - apply join_lacks; [reflexivity|]. apply nums_lacks; auto.
  - apply sgr_codes_joined; assumption.
Qed.

(* a style whose parameter list is empty shows nothing but, perhaps, its link *)
Lemma nums_nil_vis s : wf_style s -> style_nums s = [] ->
  Z.land (s_attributes s) (s_set_attributes s) = 0 /\ s_color s = None /\ s_bgcolor s = None.
Proof.
  intros [Hw [Hc Hb]] E. unfold style_nums in E. apply app_eq_nil in E. destruct E as [E1 E2].
  apply app_eq_nil in E2. destruct E2 as [E2 E3].
  split; [|split].
  - destruct (attr_ok_facts _ Hw) as [_ [_ HF]]. unfold attr_nums in E1. apply map_eq_nil in E1.
    rewrite E1 in HF. cbn [fold_left] in HF. symmetry. exact HF.
  - destruct (s_color s) as [c|]; [|reflexivity]. exfalso. cbn [opt_color_nums opt_wf] in *.
    destruct (color_codes_nums c true Hc) as [_ N]. unfold color_nums in E2. unfold wf_color_b in Hc.
    destruct (c_type c), (c_number c), (c_triplet c); discriminate.
  - destruct (s_bgcolor s) as [c|]; [|reflexivity]. exfalso. cbn [opt_color_nums opt_wf] in *.
    unfold color_nums in E3. unfold wf_color_b in Hb.
    destruct (c_type c), (c_number c), (c_triplet c); discriminate.
Qed.

Lemma flush_clean st lk acc : clean st lk -> flush_chars st acc = map (fun c => (c, mkVis 0 None None lk)) (rev acc).
Proof.
  intros [Hn V]. unfold flush_chars. rewrite (cur_vis_of_view st None None 0 lk Hn V) by lia. reflexivity.
Qed.

Definition vis_lk (s : style) (lk : option str) : vis :=
  mkVis (Z.land (s_attributes s) (s_set_attributes s)) (option_map ckey_of (s_color s))
        (option_map ckey_of (s_bgcolor s)) lk.

Lemma sgr_wrap_ne attrs text : attrs <> [] ->
  sgr_wrap attrs text = [27; 91] ++ attrs ++ [109] ++ text ++ [27; 91; 48; 109].
Proof. destruct attrs; [contradiction|reflexivity]. Qed.

(* CSI attrs m text CSI 0 m, decoded from a clean state that may carry a link *)
Lemma sgr_wrap_cons s text rest acc st lk : wf_style s -> style_nums s <> [] -> ok_text text -> ok_text acc ->
  clean st lk ->
  vdt (sgr_wrap (ATTRS s) text ++ rest) acc st
  = pre (flush_chars st acc ++ map (fun c => (c, vis_lk s lk)) text) (vdt rest [] style_null).
Proof.
  intros W Hne Ht Ha [Hn V]. destruct (attrs_facts s W Hne) as [A0 [A1 [A2 A3]]].
  destruct (apply_style_nums s st lk W Hn V) as [st1 [E1 [N1 V1]]].
  rewrite (sgr_wrap_ne _ text A0).
  replace (([27; 91] ++ ATTRS s ++ [109] ++ text ++ [27; 91; 48; 109]) ++ rest)
    with (27 :: 91 :: ATTRS s ++ 109 :: (text ++ 27 :: 91 :: 48 :: 109 :: rest))
    by (repeat (cbn [app]; rewrite <- ?app_assoc); reflexivity).
  rewrite (vdt_sgr (ATTRS s) _ acc st (style_nums s) st1 Ha A1 A2 A0 A3 E1).
  rewrite vdt_plain by exact Ht. rewrite app_nil_r.
  rewrite vdt_reset by (apply ok_text_rev; exact Ht). rewrite pre_pre. f_equal. f_equal.
  unfold flush_chars. rewrite rev_involutive.
  destruct W as [Hw _]. rewrite (cur_vis_of_view st1 _ _ _ lk N1 V1 Hw). reflexivity.
Qed.

Lemma sgr_wrap_nil s text rest acc st : style_nums s = [] -> ok_text text ->
  vdt (sgr_wrap (ATTRS s) text ++ rest) acc st = vdt rest (rev text ++ acc) st.
Proof. intros E Ht. unfold ATTRS. rewrite E. cbn [map str_join sgr_wrap]. apply vdt_plain. exact Ht. Qed.

(* ------------------------------------------------------------------ one run *)
Definition link_ok (o : option str) : Prop :=
  match o with Some l => lacks 27 l /\ lacks 10 l | None => True end.
Definition lid_ok (lid : str) : Prop := lacks 27 lid /\ lacks 10 lid /\ lacks 59 lid.
(* what the theorem asks of a run: clean text; a fresh (un-memoised) well-formed style whose null flag
   is consistent with its fields; a link without ESC or newline *)
Definition run_ok (r : run) : Prop :=
  ok_text (fst r) /\
  match snd r with
  | None => True
  | Some s => wf_style s /\ s_ansi s = None /\ null_ok s /\ link_ok (s_link s)
  end.

Lemma partition_semi_spec a b : lacks 59 a -> partition_semi (a ++ 59 :: b) = Some (a, b).
Proof.
  induction a as [|c a IH]; intros H; cbn [app partition_semi]; [reflexivity|].
  apply lacks_cons in H. destruct H as [H1 H2]. rewrite H1, (IH H2). reflexivity.
Qed.

Lemma null_vis s : null_ok s -> s_null s = true -> vis_of s = vis_none.
Proof.
  intros H E. destruct (H E) as [A1 [A2 [A3 [A4 A5]]]]. unfold vis_of. rewrite A1, A2, A3, A4, A5. reflexivity.
Qed.

Lemma vis_of_lk s lk : wf_style s -> (if str_truthy (s_link s) then s_link s else None) = lk -> vis_of s = vis_lk s lk.
Proof.
  intros [Hw _] E. unfold vis_of, vis_lk. rewrite E. f_equal.
  unfold ATTR_MASK. change 8191 with (Z.ones 13). rewrite Z.land_ones by lia. apply Z.mod_small. lia.
Qed.

Definition none_chars (acc : str) : list vchar := map (fun c => (c, vis_none)) (rev acc).

Lemma run_vd lid r e : lid_ok lid -> run_ok r -> encode_run lid r = Ok e ->
  forall st acc rest, clean st None -> ok_text acc ->
  exists st' acc' X, clean st' None /\ ok_text acc'
    /\ vdt (e ++ rest) acc st = pre X (vdt rest acc' st')
    /\ X ++ none_chars acc' = none_chars acc ++ vchars [r].
Proof.
  intros [L1 [L2 L3]] [Ht Hs] He st acc rest Hc Ha. destruct r as [text o]. cbn [fst snd] in *.
  assert (PLAIN : map (fun c => (c, vis_opt o)) text = map (fun c => (c, vis_none)) text -> e = text ->
     exists st' acc' X, clean st' None /\ ok_text acc'
       /\ vdt (e ++ rest) acc st = pre X (vdt rest acc' st')
       /\ X ++ none_chars acc' = none_chars acc ++ vchars [(text, o)]).
  { intros Hv ->. exists st, (rev text ++ acc), []. split; [exact Hc|]. split; [apply ok_text_app; [apply ok_text_rev|]; assumption|].
    split; [rewrite pre_nil; apply vdt_plain; exact Ht|].
    unfold none_chars. cbn [app vchars flat_map fst snd]. rewrite Hv, rev_app_distr, rev_involutive, map_app, app_nil_r. reflexivity. }
  unfold encode_run in He. cbn [fst snd] in He.
  destruct o as [s|]; [|apply PLAIN; [reflexivity|inversion He; reflexivity]].
  destruct Hs as [W [HA [HN HL]]].
  unfold style_bool in He. destruct (s_null s) eqn:EN; cbn [negb] in He.
  { apply PLAIN; [cbn [vis_opt]; rewrite (null_vis s HN EN); reflexivity|inversion He; reflexivity]. }
  destruct text as [|c0 t0] eqn:ET.
  { apply PLAIN; [reflexivity|cbn in He; inversion He; reflexivity]. }
  rewrite <- ET in *. assert (TNE : text <> []) by (rewrite ET; discriminate).
  unfold style_render in He. rewrite ET in He. rewrite <- ET in He.
  unfold make_ansi_codes_memo in He. rewrite HA in He. unfold make_ansi_codes in He.
  destruct (sgr_list_nums s W) as [SL _]. rewrite SL in He. cbn [bind] in He. fold (ATTRS s) in He.
  destruct (s_link s) as [[|l0 l]|] eqn:EL.
  - (* link = "" *)
    inversion He as [He']. clear He.
    destruct (style_nums s) as [|k ks] eqn:ENUM.
    + destruct (nums_nil_vis s W ENUM) as [Z0 [C0 B0]].
      rewrite sgr_wrap_nil by assumption.
      exists st, (rev text ++ acc), []. split; [exact Hc|]. split; [apply ok_text_app; [apply ok_text_rev|]; assumption|].
      split; [rewrite pre_nil; reflexivity|].
      unfold none_chars. cbn [app vchars flat_map fst snd vis_opt].
      rewrite (vis_of_lk s None W) by (rewrite EL; reflexivity). unfold vis_lk. rewrite Z0, C0, B0.
      rewrite rev_app_distr, rev_involutive, map_app, app_nil_r. reflexivity.
    + rewrite (sgr_wrap_cons s text rest acc st None W) by (try assumption; rewrite ENUM; discriminate).
      exists style_null, [], (flush_chars st acc ++ map (fun c => (c, vis_lk s None)) text).
      split; [exact clean_null|]. split; [reflexivity|]. split; [reflexivity|].
      unfold none_chars at 1. cbn [rev map]. rewrite app_nil_r. rewrite (flush_clean st None acc Hc).
      unfold none_chars. cbn [vchars flat_map fst snd vis_opt]. rewrite app_nil_r.
      rewrite (vis_of_lk s None W) by (rewrite EL; reflexivity). reflexivity.
  - (* a real link *)
    inversion He as [He']. clear He. destruct HL as [HL1 HL2].
    set (link := l0 :: l) in *.
    set (g := [56; 59; 105; 100; 61] ++ lid ++ [59] ++ link).
    assert (G1 : lacks 27 g) by (unfold g; repeat apply lacks_app; try assumption; reflexivity).
    assert (G2 : lacks 10 g) by (unfold g; repeat apply lacks_app; try assumption; reflexivity).
    assert (GO : apply_osc g st = dec_update_link st (Some link)).
    { unfold g. cbn [app apply_osc].
      replace (105 :: 100 :: 61 :: lid ++ 59 :: link) with ((105 :: 100 :: 61 :: lid) ++ 59 :: link) by reflexivity.
      rewrite partition_semi_spec by (apply (lacks_app 59 [105; 100; 61] lid); [reflexivity|exact L3]).
      reflexivity. }
    pose proof (clean_update_link st None (Some link) Hc) as C1. cbn iota in C1. fold link in C1.
    assert (CLOSE : forall st2, clean st2 (Some link) \/ st2 = style_null ->
              forall acc2 rest2, ok_text acc2 ->
              vdt (27 :: 93 :: 56 :: 59 :: 59 :: 27 :: 92 :: rest2) acc2 st2
              = pre (flush_chars st2 acc2) (vdt rest2 [] (dec_update_link st2 None))).
    { intros st2 _ acc2 rest2 Hacc2. apply (vdt_osc [56; 59; 59] rest2 acc2 st2 Hacc2); try reflexivity. discriminate. }
    unfold link_wrap, ESC.
    replace (([27; 93; 56; 59; 105; 100; 61] ++ lid ++ [59] ++ link ++ [27; 92] ++ sgr_wrap (ATTRS s) text ++ [27; 93; 56; 59; 59; 27; 92]) ++ rest)
      with (27 :: 93 :: g ++ 27 :: 92 :: (sgr_wrap (ATTRS s) text ++ (27 :: 93 :: 56 :: 59 :: 59 :: 27 :: 92 :: rest)))
      by (unfold g; repeat (cbn [app]; rewrite <- ?app_assoc); reflexivity).
    rewrite (vdt_osc g _ acc st Ha G1 G2) by (unfold g; discriminate). rewrite GO.
    destruct (style_nums s) as [|k ks] eqn:ENUM.
    + destruct (nums_nil_vis s W ENUM) as [Z0 [C0 B0]].
      rewrite sgr_wrap_nil by assumption. rewrite app_nil_r.
      rewrite (CLOSE _ (or_introl C1)) by (apply ok_text_rev; exact Ht). rewrite pre_pre.
      exists (dec_update_link (dec_update_link st (Some link)) None), [], (flush_chars st acc ++ flush_chars (dec_update_link st (Some link)) (rev text)).
      split; [apply (clean_update_link _ (Some link) None C1)|]. split; [reflexivity|]. split; [reflexivity|].
      unfold none_chars at 1. cbn [rev map]. rewrite app_nil_r. rewrite (flush_clean st None acc Hc).
      rewrite (flush_clean _ (Some link) (rev text) C1). rewrite rev_involutive.
      unfold none_chars. cbn [vchars flat_map fst snd vis_opt]. rewrite app_nil_r.
      rewrite (vis_of_lk s (Some link) W) by (rewrite EL; reflexivity). unfold vis_lk. rewrite Z0, C0, B0. reflexivity.
    + rewrite (sgr_wrap_cons s text _ [] _ (Some link) W) by (try assumption; try reflexivity; rewrite ENUM; discriminate).
      rewrite (CLOSE style_null (or_intror eq_refl)) by reflexivity. rewrite !pre_pre.
      exists (dec_update_link style_null None), [], ((flush_chars st acc ++ flush_chars (dec_update_link st (Some link)) [] ++ map (fun c => (c, vis_lk s (Some link))) text) ++ flush_chars style_null []).
      split; [apply (clean_update_link _ None None clean_null)|]. split; [reflexivity|]. split; [reflexivity|].
      unfold none_chars at 1. unfold flush_chars at 2 3. cbn [rev map]. rewrite !app_nil_r. cbn [app].
      rewrite (flush_clean st None acc Hc).
      unfold none_chars. cbn [vchars flat_map fst snd vis_opt]. rewrite app_nil_r.
      rewrite (vis_of_lk s (Some link) W) by (rewrite EL; reflexivity). reflexivity.
  - (* no link *)
    inversion He as [He']. clear He.
    destruct (style_nums s) as [|k ks] eqn:ENUM.
    + destruct (nums_nil_vis s W ENUM) as [Z0 [C0 B0]].
      rewrite sgr_wrap_nil by assumption.
      exists st, (rev text ++ acc), []. split; [exact Hc|]. split; [apply ok_text_app; [apply ok_text_rev|]; assumption|].
      split; [rewrite pre_nil; reflexivity|].
      unfold none_chars. cbn [app vchars flat_map fst snd vis_opt].
      rewrite (vis_of_lk s None W) by (rewrite EL; reflexivity). unfold vis_lk. rewrite Z0, C0, B0.
      rewrite rev_app_distr, rev_involutive, map_app, app_nil_r. reflexivity.
    + rewrite (sgr_wrap_cons s text rest acc st None W) by (try assumption; rewrite ENUM; discriminate).
      exists style_null, [], (flush_chars st acc ++ map (fun c => (c, vis_lk s None)) text).
      split; [exact clean_null|]. split; [reflexivity|]. split; [reflexivity|].
      unfold none_chars at 1. cbn [rev map]. rewrite app_nil_r. rewrite (flush_clean st None acc Hc).
      unfold none_chars. cbn [vchars flat_map fst snd vis_opt]. rewrite app_nil_r.
      rewrite (vis_of_lk s None W) by (rewrite EL; reflexivity). reflexivity.
Qed.
