(* C02, statement (c) at the level of Text.wrap -- Text.divide seen through `styled`:
     B1 divide_styled : dividing cuts the list of styled characters at the same offsets;
     B3 divide_base   : every produced line keeps the base style;
     B2 divide_within : no span of a produced line reaches outside the line (clipping), so that
                        joining neighbouring pieces again cannot leak a style from one into the other.
   Repaired variant (fix_order = true), no hypothesis on the spans. *)
From RichModel Require Import Prelude Cells SpecCells Wrap SpecWrap.
From RichProofs Require Import CellsP WrapP2 WrapP3 WrapS0.
From Coq Require Import ZifyBool.

(* ------------------------------------------------------------------ generic list facts *)
Lemma mono2_mono3 : forall l a, mono2 a l -> mono_from3 a l.
Proof.
  induction l as [|b l IH]; intros a H; [exact Logic.I|].
  destruct H as [H1 H2]. split; [exact H1 | apply IH, H2].
Qed.

Lemma index_from_skipn {A} : forall k (l : list A) n,
  skipn k (index_from n l) = index_from (n + Z.of_nat k) (skipn k l).
Proof.
  induction k as [|k IH]; intros l n.
  - cbn [skipn]. f_equal. lia.
  - destruct l as [|x l]; [reflexivity|]. cbn [index_from skipn]. rewrite IH. f_equal. lia.
Qed.

Lemma index_from_firstn {A} : forall k (l : list A) n,
  firstn k (index_from n l) = index_from n (firstn k l).
Proof.
  induction k as [|k IH]; intros l n; [reflexivity|].
  destruct l as [|x l]; [reflexivity|]. cbn [index_from firstn]. rewrite IH. reflexivity.
Qed.

Lemma index_from_gslice {A} (l : list A) a b : 0 <= a ->
  gslice (index_from 0 l) a b = index_from a (gslice l a b).
Proof.
  intros Ha. unfold gslice. rewrite index_from_skipn, index_from_firstn. f_equal. lia.
Qed.

Lemma map_index_shift {A B} (f g : Z * A -> B) (a : Z) : forall (l : list A) n,
  (forall j c, n <= j < n + zlen l -> f (j, c) = g (a + j, c)) ->
  map f (index_from n l) = map g (index_from (a + n) l).
Proof.
  induction l as [|x l IH]; intros n H; [reflexivity|].
  cbn [index_from map]. f_equal.
  - apply H. unfold zlen. cbn [length]. lia.
  - replace (a + n + 1) with (a + (n + 1)) by lia. apply IH.
    intros j c Hj. apply H. unfold zlen in *. cbn [length]. lia.
Qed.

Lemma gslice_zlen_le {A} (l : list A) a b : zlen (gslice l a b) <= Z.max 0 (b - a).
Proof.
  unfold gslice, zlen. pose proof (firstn_le_length (Z.to_nat (b - a)) (skipn (Z.to_nat a) l)). lia.
Qed.

Lemma gslice_zlen {A} (l : list A) a b : 0 <= a <= b -> b <= zlen l -> zlen (gslice l a b) = b - a.
Proof.
  intros H1 H2. unfold gslice, zlen in *. rewrite firstn_length, skipn_length. lia.
Qed.

Lemma Forall2_map_eq {A B C} (R : A -> B -> Prop) (f : B -> C) (g : A -> C) : forall l1 l2,
  Forall2 R l1 l2 -> (forall x y, In x l1 -> R x y -> f y = g x) -> map f l2 = map g l1.
Proof.
  induction 1 as [|x y l1 l2 HR HF IH]; intros H; [reflexivity|].
  cbn [map]. f_equal.
  - apply H; [left; reflexivity | exact HR].
  - apply IH. intros x' y' Hx. apply H. right; exact Hx.
Qed.

(* the ranges of a monotone list of offsets lie inside [a, z] *)
Lemma zip_ranges_bounds : forall l a z, mono2 a (l ++ [z]) ->
  forall r, In r (zip_ranges (a :: l ++ [z])) -> a <= fst r /\ fst r <= snd r /\ snd r <= z.
Proof.
  induction l as [|b l IH]; intros a z H r Hr.
  - cbn in Hr. destruct Hr as [Hr|[]]. subst r. cbn in *. lia.
  - cbn [app] in *. destruct H as [H1 H2].
    change (zip_ranges (a :: b :: l ++ [z])) with ((a, b) :: zip_ranges (b :: l ++ [z])) in Hr.
    pose proof (mono2_le_last l b z H2) as Hz.
    destruct Hr as [Hr|Hr].
    + subst r. cbn [fst snd]. lia.
    + specialize (IH b z H2 r Hr). lia.
Qed.

Section S1.
Variable S : Type.
Variable seqb : S -> S -> bool.
Variable null : S.
Variable fx : fixes.
Hypothesis Hfx : fix_order fx = true.
Arguments plain {S}.
Arguments spans {S}.
Arguments base {S}.

Lemma cover_bridge (t : text S) i : cover S t i = cover_styles S t i.
Proof. reflexivity. Qed.

(* ------------------------------------------------------------------ B1 *)
Lemma styled_slice (t line : text S) a b :
  0 <= a ->
  plain line = zslice (plain t) a b -> base line = base t ->
  (forall j, 0 <= j < b - a -> cover S line j = cover S t (a + j)) ->
  styled S seqb null line = gslice (styled S seqb null t) a b.
Proof.
  intros Ha Hp Hb Hc. unfold styled. rewrite gslice_map. rewrite Hp, zslice_is_gslice.
  unfold str in *. rewrite index_from_gslice by exact Ha.
  replace a with (a + 0) at 2 by lia.
  apply map_index_shift. intros j c Hj.
  pose proof (gslice_zlen_le (plain t) a b) as Hl. unfold str in *.
  cbn [fst snd]. f_equal. f_equal. rewrite !eff_cover. rewrite Hb. f_equal. apply Hc. lia.
Qed.

Theorem divide_styled : forall (t : text S) offs, mono2 0 (offs ++ [tlen S t]) ->
  map (styled S seqb null) (divide S seqb fx t offs) = gpieces (styled S seqb null t) offs (tlen S t).
Proof.
  intros t offs Hm. unfold gpieces.
  pose proof (divide_styles_repaired S seqb fx t offs Hfx (mono2_mono3 _ _ Hm)) as HF.
  eapply Forall2_map_eq; [exact HF|].
  intros r line Hr [Hp [Hb Hc]].
  destruct (zip_ranges_bounds offs 0 (tlen S t) Hm r Hr) as [H0 _].
  apply styled_slice; assumption.
Qed.

(* ------------------------------------------------------------------ B3 *)
Lemma divide_base : forall (t : text S) offs l, mono2 0 (offs ++ [tlen S t]) ->
  In l (divide S seqb fx t offs) -> base l = base t.
Proof.
  intros t offs l _ Hl. unfold divide in Hl. destruct offs as [|o os].
  - destruct Hl as [Hl|[]]. subst l. reflexivity.
  - apply in_map_iff in Hl. destruct Hl as [ps [E _]]. subst l. reflexivity.
Qed.

(* ------------------------------------------------------------------ B2: clipping *)
(* the line span emitted for a processed stack element covers only what the element covers, and
   nothing from the end of the range on *)
Lemma lsf_covers_imp a b (x : elt S) j :
  kst S x < b -> covers S j (snd (lsf S a b x)) = true ->
  covers S (a + j) (snd x) = true /\ a + j < b.
Proof.
  destruct x as [k [[s e] st]]. unfold kst, lsf, span_split, covers, sp_start, sp_end. cbn [fst snd].
  intros Hk. destruct (b <? s) eqn:E1; [lia|]. destruct (e <=? b) eqn:E2; cbn [fst snd]; lia.
Qed.

Definition QR (r : Z * Z) (ls : list (span S)) : Prop :=
  forall sp j, In sp ls -> covers S j sp = true -> j < snd r - fst r.
Definition QL (r : Z * Z) (ls : list (span S)) : Prop :=
  forall sp j, In sp ls -> covers S j sp = true -> 0 <= j.
(* no element of the stack covers a position before a *)
Definition Lst (a : Z) (stack : list (elt S)) : Prop :=
  forall x i, In x stack -> covers S i (snd x) = true -> a <= i.

Lemma F2_nil_gen (P : Z * Z -> list (span S) -> Prop) rs :
  (forall r, P r []) -> Forall2 P rs (map (fun _ => []) rs).
Proof. intros H. induction rs as [|r rs IH]; cbn [map]; constructor; [apply H | exact IH]. Qed.

Lemma line_in a b stack od sp :
  In sp (map snd (sort_by fst (snd (line_loop S seqb a b stack [] od [])))) ->
  exists x, In x (pre_lt S b stack) /\ sp = snd (lsf S a b x).
Proof.
  destruct (line_loop_eq S seqb a b stack [] od []) as [_ H2]. rewrite H2. cbn [rev app].
  intros H. apply in_map_iff in H. destruct H as [y [Ey Hy]]. apply sort_by_in in Hy.
  apply in_map_iff in Hy. destruct Hy as [x [Ex Hx]]. exists x. split; [exact Hx|]. subst. reflexivity.
Qed.

Lemma ds_R : forall ranges stack od, Forall2 QR ranges (divide_spans S seqb fx ranges stack od).
Proof.
  induction ranges as [|[a b] rs IH]; intros stack od; [constructor|].
  destruct stack as [|x0 stk].
  - cbn [divide_spans]. apply F2_nil_gen. intros r sp j [].
  - rewrite divide_spans_cons by (auto; discriminate). constructor; [|apply IH].
    intros sp j Hin Hc. destruct (line_in _ _ _ _ _ Hin) as [x [Hx E]]. subst sp.
    cbn [fst snd]. pose proof (pre_lt_lt S b _ x Hx) as Hk.
    destruct (lsf_covers_imp a b x j Hk Hc). lia.
Qed.

Lemma Lst_step (t : text S) a b stack : Inv S t a stack ->
  Lst b (rev (flat_map (remf S b) (pre_lt S b stack)) ++ post_lt S b stack).
Proof.
  intros HI x i Hx Hc. apply in_app_or in Hx. destruct Hx as [Hx|Hx].
  - apply in_rev in Hx. apply in_flat_map in Hx. destruct Hx as [y [Hy Hxy]].
    destruct (remf_spec S b y x (pre_lt_lt S b stack y Hy) Hxy) as [_ [Ek _]].
    unfold kst, covers in *. lia.
  - pose proof (post_lt_ge S b stack (inv_sorted _ _ _ _ HI) x Hx). unfold kst, covers in *. lia.
Qed.

Lemma ds_L (t : text S) : forall ranges a stack od,
  chain3 a ranges -> Inv S t a stack -> Lst a stack ->
  Forall2 QL ranges (divide_spans S seqb fx ranges stack od).
Proof.
  induction ranges as [|[s e] rs IH]; intros a stack od Hch HI HL; [constructor|].
  destruct stack as [|x0 stk].
  - cbn [divide_spans]. apply F2_nil_gen. intros r sp j [].
  - rewrite divide_spans_cons by (auto; discriminate).
    cbn [chain3 fst snd] in Hch. destruct Hch as [Es [Hle Hch]]. subst s.
    constructor.
    + intros sp j Hin Hc. destruct (line_in _ _ _ _ _ Hin) as [x [Hx E]]. subst sp.
      destruct (lsf_covers_imp a e x j (pre_lt_lt S e _ x Hx) Hc) as [Hc' _].
      assert (Hin' : In x (x0 :: stk)).
      { rewrite (pre_post S e (x0 :: stk)). apply in_or_app. left; exact Hx. }
      specialize (HL x (a + j) Hin' Hc'). lia.
    + destruct (line_loop_eq S seqb a e (x0 :: stk) [] od []) as [H1 _]. rewrite H1. cbn [app].
      apply (IH e); [exact Hch | apply (inv_step S t a e); assumption | apply (Lst_step t a); exact HI].
Qed.

(* from the second line on, whatever the stack was *)
Lemma ds_L_tail (t : text S) a b rs stack od :
  a <= b -> chain3 b rs -> Inv S t a stack ->
  Forall2 QL rs (tl (divide_spans S seqb fx ((a, b) :: rs) stack od)).
Proof.
  intros Hab Hch HI. destruct stack as [|x0 stk].
  - cbn [divide_spans map tl]. apply F2_nil_gen. intros r sp j [].
  - rewrite divide_spans_cons by (auto; discriminate). cbn [tl].
    destruct (line_loop_eq S seqb a b (x0 :: stk) [] od []) as [H1 _]. rewrite H1. cbn [app].
    apply (ds_L t rs b); [exact Hch | apply (inv_step S t a b); assumption | apply (Lst_step t a); exact HI].
Qed.

(* the span lists Text.divide attaches to the pieces *)
Definition sps_of (t : text S) (ranges : list (Z * Z)) : list (list (span S)) :=
  match spans t with
  | [] => map (fun _ => []) ranges
  | _ => divide_spans S seqb fx ranges
           (sort_by (fun x => sp_start S (snd x)) (rev (index_from 0 (spans t))))
           (fold_left (fun d x => od_set S seqb d (snd x) (fst x)) (index_from 0 (spans t)) [])
  end.

Lemma divide_sps (t : text S) o os :
  divide S seqb fx t (o :: os) =
  map (fun ps => mkText (fst ps) (snd ps) (base t))
      (combine (map (fun r => zslice (plain t) (fst r) (snd r)) (zip_ranges (0 :: (o :: os) ++ [tlen S t])))
               (sps_of t (zip_ranges (0 :: (o :: os) ++ [tlen S t])))).
Proof. reflexivity. Qed.

Lemma sps_R (t : text S) ranges : Forall2 QR ranges (sps_of t ranges).
Proof.
  unfold sps_of. destruct (spans t); [apply F2_nil_gen; intros r sp j [] | apply ds_R].
Qed.

Lemma sps_L_tail (t : text S) o rs : 0 <= o -> chain3 o rs ->
  Forall2 QL rs (tl (sps_of t ((0, o) :: rs))).
Proof.
  intros Ho Hch. unfold sps_of. destruct (spans t) as [|s0 sl] eqn:Esp.
  - cbn [map tl]. apply F2_nil_gen. intros r sp j [].
  - rewrite <- Esp. apply (ds_L_tail t 0 o); [exact Ho | exact Hch | apply inv_init].
Qed.

Lemma cover_nil (t : text S) i sp : cover S t i = [] -> In sp (spans t) -> covers S i sp = false.
Proof.
  unfold cover. intros H Hin. destruct (covers S i sp) eqn:E; [|reflexivity].
  assert (Hf : In sp (filter (covers S i) (spans t))) by (apply filter_In; split; assumption).
  apply (in_map (@sp_style S)) in Hf. rewrite H in Hf. destruct Hf.
Qed.

Lemma sps_L (t : text S) ranges : lwithin S t -> chain3 0 ranges -> Forall2 QL ranges (sps_of t ranges).
Proof.
  intros Hl Hch. unfold sps_of. destruct (spans t) as [|s0 sl] eqn:Esp.
  - apply F2_nil_gen. intros r sp j [].
  - rewrite <- Esp. apply (ds_L t ranges 0); [exact Hch | apply inv_init |].
    intros x i Hx Hc. apply sort_by_in in Hx. apply in_rev in Hx.
    assert (Hsp : In (snd x) (spans t)).
    { rewrite <- (index_from_snd (spans t) 0). apply in_map. exact Hx. }
    destruct (Z_lt_le_dec i 0) as [Hi|Hi]; [|exact Hi].
    rewrite (cover_nil t i (snd x) (Hl i Hi) Hsp) in Hc. discriminate.
Qed.

Lemma assembleF (t : text S) (P : Z * Z -> list (span S) -> Prop) : forall ranges sps,
  Forall2 P ranges sps ->
  Forall (fun line => exists r, In r ranges /\ plain line = zslice (plain t) (fst r) (snd r) /\
                                P r (spans line))
    (map (fun ps => mkText (fst ps) (snd ps) (base t))
         (combine (map (fun r => zslice (plain t) (fst r) (snd r)) ranges) sps)).
Proof.
  induction 1 as [|r ls rs lss HP HF IH]; cbn [map combine]; constructor.
  - exists r. cbn [plain spans fst snd]. split; [left; reflexivity|]. split; [reflexivity | exact HP].
  - eapply Forall_impl; [|exact IH]. intros line [r' [H1 H2]]. exists r'. split; [right; exact H1 | exact H2].
Qed.

Lemma tl_assemble {A B C D} (f : B * C -> D) (g : A -> B) (ranges : list A) (sps : list C) :
  tl (map f (combine (map g ranges) sps)) = map f (combine (map g (tl ranges)) (tl sps)).
Proof.
  destruct ranges as [|r rs]; [reflexivity|]. destruct sps as [|x sps]; [|reflexivity].
  cbn [map combine tl]. destruct rs; reflexivity.
Qed.

Lemma line_rwithin (t line : text S) r :
  0 <= fst r <= snd r -> snd r <= tlen S t ->
  plain line = zslice (plain t) (fst r) (snd r) -> QR r (spans line) -> rwithin S line.
Proof.
  intros H1 H2 Hp HQ j Hj. unfold cover. rewrite filter_none; [reflexivity|].
  intros sp Hsp. destruct (covers S j sp) eqn:Hc; [|reflexivity]. exfalso.
  specialize (HQ sp j Hsp Hc). unfold tlen in Hj. rewrite Hp, zslice_is_gslice in Hj.
  unfold tlen in H2. unfold str in *. rewrite gslice_zlen in Hj by assumption. lia.
Qed.

Lemma line_lwithin (line : text S) r : QL r (spans line) -> lwithin S line.
Proof.
  intros HQ j Hj. unfold cover. rewrite filter_none; [reflexivity|].
  intros sp Hsp. destruct (covers S j sp) eqn:Hc; [|reflexivity]. exfalso.
  specialize (HQ sp j Hsp Hc). lia.
Qed.

Theorem divide_within : forall (t : text S) offs, offs <> [] -> mono2 0 (offs ++ [tlen S t]) ->
  Forall (rwithin S) (divide S seqb fx t offs) /\
  Forall (lwithin S) (tl (divide S seqb fx t offs)) /\
  (lwithin S t -> Forall (lwithin S) (divide S seqb fx t offs)).
Proof.
  intros t offs Hne Hm. destruct offs as [|o os]; [congruence|].
  pose proof (mono_chain3 _ _ (mono2_mono3 _ _ Hm)) as Hch.
  pose proof (zip_ranges_bounds _ _ _ Hm) as Hb.
  rewrite divide_sps.
  split; [|split].
  - eapply Forall_impl; [|apply assembleF, sps_R].
    intros line [r [Hr [Hp HQ]]]. destruct (Hb r Hr) as [B1 [B2 B3]].
    apply (line_rwithin t line r); try assumption. lia.
  - rewrite tl_assemble.
    change (zip_ranges (0 :: (o :: os) ++ [tlen S t]))
      with ((0, o) :: zip_ranges (o :: os ++ [tlen S t])) in *.
    cbn [chain3 fst snd] in Hch. destruct Hch as [_ [Ho Hch]].
    eapply Forall_impl; [|apply assembleF, sps_L_tail; assumption].
    intros line [r [_ [_ HQ]]]. apply (line_lwithin line r HQ).
  - intros Hl. eapply Forall_impl; [|apply assembleF, sps_L; assumption].
    intros line [r [_ [_ HQ]]]. apply (line_lwithin line r HQ).
Qed.

End S1.
