(* Lemmas about the terminal oracle TermGrid: how text lines, line feeds and the CSI sequences
   rich emits act on the zipper. *)
From RichModel Require Import Prelude Cells TermGrid SpecLive.
From Coq Require Import ZifyBool.

Arguments do_cuu : simpl never.
Arguments do_el : simpl never.
Arguments do_lf : simpl never.
Arguments do_ed2 : simpl never.
Arguments goto_vrow : simpl never.
Arguments put : simpl never.
Arguments is_text : simpl never.

Lemma interp_app : forall H t a b, interp H t (a ++ b) = interp H (interp H t a) b.
Proof. intros. unfold interp. apply fold_left_app. Qed.

Lemma interp_nil : forall H t, interp H t [] = t.
Proof. reflexivity. Qed.

Lemma interp_cons : forall H t c s, interp H t (c :: s) = interp H (step H t c) s.
Proof. reflexivity. Qed.

(* ---------- graphic characters ---------- *)
Lemma step_text : forall H t c, ps t = PGround -> is_text c = true -> step H t c = put t c.
Proof. intros H t c Hp Hc. unfold step, ground_step. rewrite Hp, Hc. reflexivity. Qed.

Lemma set_cells_end : forall r vs, set_cells r (length r) vs = r ++ vs.
Proof.
  intros r vs. unfold set_cells. rewrite Nat.sub_diag. cbn [repeat]. rewrite app_nil_r.
  rewrite firstn_all. rewrite skipn_all2 by lia. now rewrite app_nil_r.
Qed.

Definition at_end (t : term) : Prop := col t = length (crow t).

Lemma put_end : forall t c, at_end t ->
  put t c = mkTerm (above t) (crow t ++ cells_of c) (below t) (col t + length (cells_of c)) (vr t) (vis t) (ps t).
Proof.
  intros t c He. unfold put. destruct (cells_of c) eqn:E.
  - rewrite app_nil_r, Nat.add_0_r. destruct t; reflexivity.
  - rewrite He. rewrite set_cells_end. reflexivity.
Qed.

Lemma interp_text : forall H l t, ps t = PGround -> at_end t -> text_ok l = true ->
  interp H t l = mkTerm (above t) (crow t ++ row_of l) (below t) (col t + length (row_of l)) (vr t) (vis t) PGround.
Proof.
  intros H l. induction l as [|c l IH]; intros t Hp He Hl.
  - cbn. unfold row_of. cbn. rewrite app_nil_r, Nat.add_0_r. destruct t; cbn in *; subst; reflexivity.
  - unfold text_ok in Hl. cbn [forallb] in Hl. apply andb_prop in Hl. destruct Hl as [Hc Hl].
    rewrite interp_cons, step_text by assumption. rewrite put_end by assumption.
    rewrite IH; cbn [above crow below col vr vis ps]; try assumption.
    + unfold row_of. cbn [map concat]. rewrite !app_assoc, app_length. f_equal. lia.
    + unfold at_end. cbn. rewrite app_length. unfold at_end in He. lia.
Qed.

(* ---------- controls in the ground state ---------- *)
Lemma step_lf : forall H t, ps t = PGround -> step H t 10 = do_lf H t.
Proof. intros H t Hp. unfold step, ground_step. rewrite Hp. reflexivity. Qed.

Lemma step_cr : forall H t, ps t = PGround -> step H t 13 = do_cr t.
Proof. intros H t Hp. unfold step, ground_step. rewrite Hp. reflexivity. Qed.

Lemma interp_el2 : forall H ab cr be co v vi,
  interp H (mkTerm ab cr be co v vi PGround) [27; 91; 50; 75] = mkTerm ab [] be co v vi PGround.
Proof. intros. reflexivity. Qed.

Lemma do_cuu_1 : forall t, do_cuu 1 t = up1 t.
Proof.
  intros t. unfold do_cuu. destruct (vr t) eqn:E.
  - cbn. unfold up1. rewrite E. destruct (above t); reflexivity.
  - reflexivity.
Qed.

Lemma interp_cuu1 : forall H ab cr be co v vi,
  interp H (mkTerm ab cr be co v vi PGround) [27; 91; 49; 65] = up1 (mkTerm ab cr be co v vi PGround).
Proof. intros. rewrite <- do_cuu_1. reflexivity. Qed.

Lemma interp_vis_on : forall H ab cr be co v vi,
  interp H (mkTerm ab cr be co v vi PGround) [27; 91; 63; 50; 53; 104] = mkTerm ab cr be co v true PGround.
Proof. intros. reflexivity. Qed.

Lemma interp_vis_off : forall H ab cr be co v vi,
  interp H (mkTerm ab cr be co v vi PGround) [27; 91; 63; 50; 53; 108] = mkTerm ab cr be co v false PGround.
Proof. intros. reflexivity. Qed.

(* ---------- the erase unit  ESC[1A ESC[2K ---------- *)
Lemma interp_unit : forall H a ab cr be co v vi,
  interp H (mkTerm (a :: ab) cr be co (S v) vi PGround) [27; 91; 49; 65; 27; 91; 50; 75]
  = mkTerm ab [] (cr :: be) co v vi PGround.
Proof.
  intros. change [27; 91; 49; 65; 27; 91; 50; 75] with ([27; 91; 49; 65] ++ [27; 91; 50; 75]).
  rewrite interp_app, interp_cuu1. unfold up1. cbn [above vr crow below col vis ps]. apply interp_el2.
Qed.

Lemma repeat_shift : forall {A} (x : A) n l, repeat x n ++ x :: l = x :: repeat x n ++ l.
Proof. intros A x n l. induction n; cbn; [reflexivity|]. now rewrite IHn. Qed.

Lemma interp_units : forall H n pre ab be co v vi, length pre = n ->
  interp H (mkTerm (pre ++ ab) [] be co (n + v) vi PGround)
         (concat (repeat [27; 91; 49; 65; 27; 91; 50; 75] n))
  = mkTerm ab [] (repeat [] n ++ be) co v vi PGround.
Proof.
  intros H n. induction n as [|n IH]; intros pre ab be co v vi Hl.
  - destruct pre; [reflexivity|discriminate].
  - destruct pre as [|a pre]; [discriminate|]. cbn [repeat concat]. rewrite interp_app.
    cbn [app Nat.add]. rewrite interp_unit. rewrite IH by (cbn in Hl; lia).
    now rewrite repeat_shift.
Qed.

(* position_cursor for a frame of n+1 rows (or of no row: n = 0), as a string *)
Definition erase_str (n : nat) : str :=
  [13; 27; 91; 50; 75] ++ concat (repeat [27; 91; 49; 65; 27; 91; 50; 75] n).

Lemma interp_erase : forall H n pre ab cr be co v vi, length pre = n ->
  interp H (mkTerm (pre ++ ab) cr be co (n + v) vi PGround) (erase_str n)
  = mkTerm ab [] (repeat [] n ++ be) 0 v vi PGround.
Proof.
  intros. unfold erase_str. rewrite interp_app.
  change [13; 27; 91; 50; 75] with ([13] ++ [27; 91; 50; 75]). rewrite interp_app.
  rewrite (interp_cons H _ 13 []), interp_nil. rewrite step_cr by reflexivity. unfold do_cr. cbn [above crow below vr vis ps].
  rewrite interp_el2. now apply interp_units.
Qed.

(* ---------- lines ---------- *)
Definition lf_vr (H v : nat) : nat := if (S v <? H)%nat then S v else v.
Definition blanks (l : list row) : Prop := Forall (fun r => r = []) l.

Lemma blanks_hd : forall be, blanks be -> hd [] be = [].
Proof. intros be Hb. destruct be; [reflexivity|]. now inversion Hb. Qed.
Lemma blanks_tl : forall be, blanks be -> blanks (tl be).
Proof. intros be Hb. destruct be; [constructor|]. now inversion Hb. Qed.
Lemma blanks_skipn : forall n be, blanks be -> blanks (skipn n be).
Proof.
  induction n; intros be Hb; [assumption|]. destruct be; [constructor|]. cbn. apply IHn. now inversion Hb.
Qed.
Lemma blanks_repeat : forall n, blanks (repeat [] n).
Proof. induction n; constructor; auto. Qed.
Lemma blanks_app : forall a b, blanks a -> blanks b -> blanks (a ++ b).
Proof. intros. now apply Forall_app. Qed.

Lemma interp_line : forall H l ab be v vi, text_ok l = true ->
  interp H (mkTerm ab [] be 0 v vi PGround) (l ++ [10])
  = mkTerm (row_of l :: ab) (hd [] be) (tl be) 0 (lf_vr H v) vi PGround.
Proof.
  intros H l ab be v vi Hl. rewrite interp_app.
  rewrite (interp_text H l (mkTerm ab [] be 0 v vi PGround) eq_refl eq_refl Hl).
  cbn [above crow below col vr vis app]. rewrite (interp_cons H _ 10 []), interp_nil.
  rewrite step_lf by reflexivity. reflexivity.
Qed.

Lemma iter_S : forall {A} n (f : A -> A) x, iter (S n) f x = iter n f (f x).
Proof. reflexivity. Qed.

Lemma iter_lf_ge : forall H n v, (Nat.min (H - 1) (v + n) <= iter n (lf_vr H) v)%nat.
Proof.
  intros H n. induction n as [|n IH]; intros v.
  - cbn. lia.
  - rewrite iter_S. specialize (IH (lf_vr H v)). unfold lf_vr in *. destruct (S v <? H)%nat eqn:E; lia.
Qed.

Lemma iter_lf_fit : forall H n v, (n < H)%nat -> (n <= iter n (lf_vr H) v)%nat.
Proof. intros H n v Hn. pose proof (iter_lf_ge H n v). lia. Qed.

(* ---------- what a screen shows ---------- *)
Lemma strip_empty_blanks : forall b, blanks b -> strip_empty b = [].
Proof.
  induction b as [|r b IH]; intros Hb; [reflexivity|]. inversion Hb; subst. cbn. now rewrite IH.
Qed.

Lemma strip_empty_app_blanks : forall g b, blanks b -> strip_empty (g ++ b) = strip_empty g.
Proof.
  induction g as [|r g IH]; intros b Hb; cbn.
  - now apply strip_empty_blanks.
  - now rewrite IH.
Qed.

Lemma map_strip_blanks : forall b, blanks b -> map strip_sp b = b.
Proof. induction b; intros Hb; [reflexivity|]. inversion Hb; subst. cbn. now rewrite IHb. Qed.

Lemma norm_grid_app_blanks : forall g b, blanks b -> norm_grid (g ++ b) = norm_grid g.
Proof.
  intros g b Hb. unfold norm_grid. rewrite map_app, (map_strip_blanks b Hb).
  now apply strip_empty_app_blanks.
Qed.

Lemma row_eqb_refl : forall r, row_eqb r r = true.
Proof. induction r; cbn; [reflexivity|]. rewrite Z.eqb_refl. assumption. Qed.
Lemma grid_eqb_refl : forall g, grid_eqb g g = true.
Proof. induction g; cbn; [reflexivity|]. rewrite row_eqb_refl. assumption. Qed.
