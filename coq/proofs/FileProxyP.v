(* C19: the FileProxy state machine refines its string-level specification (SpecDecode.spec_run),
   nothing is lost, and where the writes are cut does not matter. *)
From RichModel Require Import Prelude Color Style AnsiDecode FileProxy SpecDecode.
From RichProofs Require Import AnsiDecodeP.

(* ------------------------------------------------------------------ reflexivity of the checkers *)
Lemma str_eqb_refl : forall s, str_eqb s s = true.
Proof. induction s as [|c s IH]; [reflexivity|]. cbn [str_eqb]. rewrite Z.eqb_refl, IH. reflexivity. Qed.
Lemma str_eqb_eq : forall a b, str_eqb a b = true -> a = b.
Proof.
  induction a as [|x a IH]; destruct b as [|y b]; cbn [str_eqb]; intros H; try discriminate; [reflexivity|].
  apply andb_true_iff in H. destruct H as [H1 H2]. apply Z.eqb_eq in H1. rewrite (IH _ H2), H1. reflexivity.
Qed.
Lemma optZ_eqb_refl : forall o, optZ_eqb o o = true.
Proof. destruct o; cbn; [apply Z.eqb_refl|reflexivity]. Qed.
Lemma ckey_eqb_refl : forall k, ckey_eqb k k = true.
Proof.
  intros [[t n] p]. unfold ckey_eqb. rewrite Z.eqb_refl, optZ_eqb_refl.
  destruct p as [[[r g] b]|]; [rewrite !Z.eqb_refl|]; reflexivity.
Qed.
Lemma opt_ckey_eqb_refl : forall o, opt_ckey_eqb o o = true.
Proof. destruct o; cbn; [apply ckey_eqb_refl|reflexivity]. Qed.
Lemma opt_str_eqb_refl : forall o, opt_str_eqb o o = true.
Proof. destruct o; cbn; [apply str_eqb_refl|reflexivity]. Qed.
Lemma vis_eqb_refl : forall v, vis_eqb v v = true.
Proof. intros v. unfold vis_eqb. rewrite Z.eqb_refl, !opt_ckey_eqb_refl, opt_str_eqb_refl. reflexivity. Qed.
Lemma vchars_eqb_refl : forall l, vchars_eqb l l = true.
Proof. induction l as [|[c v] l IH]; [reflexivity|]. cbn [vchars_eqb]. rewrite Z.eqb_refl, vis_eqb_refl, IH. reflexivity. Qed.
Lemma lines_eqb_refl : forall l, lines_eqb l l = true.
Proof. induction l as [|x l IH]; [reflexivity|]. cbn [lines_eqb]. rewrite vchars_eqb_refl, IH. reflexivity. Qed.

(* ------------------------------------------------------------------ split_nl *)
Lemma split_nl_join : forall s cur,
  flat_map (fun l => l ++ [10]) (fst (split_nl s cur)) ++ snd (split_nl s cur) = rev cur ++ s.
Proof.
  induction s as [|c r IH]; intros cur; cbn [split_nl].
  - cbn. rewrite app_nil_r. reflexivity.
  - destruct (c =? 10) eqn:E.
    + apply Z.eqb_eq in E. subst c. specialize (IH []). destruct (split_nl r []) as [ls rest].
      cbn [fst snd flat_map] in *. cbn [rev app] in IH. rewrite <- !app_assoc. rewrite IH. reflexivity.
    + rewrite IH. cbn [rev]. rewrite <- app_assoc. reflexivity.
Qed.

Lemma split_nl_rest_no_nl : forall s cur, ~ In 10 cur -> ~ In 10 (snd (split_nl s cur)).
Proof.
  induction s as [|c r IH]; intros cur H; cbn [split_nl].
  - cbn [snd]. intros HI. apply in_rev in HI. exact (H HI).
  - destruct (c =? 10) eqn:E.
    + specialize (IH [] (fun x => x)). destruct (split_nl r []) as [ls rest]. exact IH.
    + apply IH. intros [HI|HI]; [apply Z.eqb_neq in E; exact (E HI)|exact (H HI)].
Qed.

(* a prefix without newline can be moved into the accumulator *)
Lemma split_nl_prefix : forall p s cur, ~ In 10 p -> split_nl (p ++ s) cur = split_nl s (rev p ++ cur).
Proof.
  induction p as [|c p IH]; intros s cur H; [reflexivity|].
  cbn [app split_nl]. destruct (c =? 10) eqn:E.
  - apply Z.eqb_eq in E. exfalso. apply H. left. exact E.
  - rewrite IH by (intros HI; apply H; right; exact HI). cbn [rev]. rewrite <- app_assoc. reflexivity.
Qed.

Lemma split_nl_app : forall a b cur,
  split_nl (a ++ b) cur =
  let '(l1, r1) := split_nl a cur in let '(l2, r2) := split_nl b (rev r1) in (l1 ++ l2, r2).
Proof.
  induction a as [|c a IH]; intros b cur; cbn [app split_nl].
  - rewrite rev_involutive. destruct (split_nl b cur). reflexivity.
  - destruct (c =? 10).
    + rewrite IH. destruct (split_nl a []) as [l1 r1]. destruct (split_nl b (rev r1)) as [l2 r2]. reflexivity.
    + apply IH.
Qed.

(* ------------------------------------------------------------------ the while loop of write *)
Definition chunks_ok (buffer : list str) : Prop := Forall (fun c => c <> []) buffer.

Lemma concat_app_one : forall (b : list str) x, concat (b ++ [x]) = concat b ++ x.
Proof. intros. rewrite concat_app. cbn. rewrite app_nil_r. reflexivity. Qed.

Lemma write_loop_spec : forall text cur buffer lines,
  chunks_ok buffer ->
  exists buf',
    write_loop text cur buffer lines
      = (buf', rev lines ++ fst (split_nl text (cur ++ rev (concat buffer))))
    /\ concat buf' = snd (split_nl text (cur ++ rev (concat buffer)))
    /\ chunks_ok buf'.
Proof.
  induction text as [|c r IH]; intros cur buffer lines Hc; cbn [write_loop split_nl].
  - cbn [fst snd]. rewrite app_nil_r, rev_app_distr, rev_involutive.
    destruct cur as [|x cur].
    + exists buffer. cbn. rewrite app_nil_r. auto.
    + exists (buffer ++ [rev (x :: cur)]). rewrite concat_app_one. repeat split; auto.
      apply Forall_app. split; [exact Hc|]. constructor; [|constructor].
      cbn [rev]. intros H. apply app_eq_nil in H. destruct H as [_ H]. discriminate.
  - destruct (c =? 10).
    + destruct (IH [] [] ((concat buffer ++ rev cur) :: lines) (Forall_nil _)) as [buf' [H1 [H2 H3]]].
      cbn [concat rev app] in H1, H2. exists buf'. rewrite H1.
      destruct (split_nl r []) as [ls rest]. cbn [fst snd] in *.
      rewrite rev_app_distr, rev_involutive. cbn [rev]. rewrite <- app_assoc. cbn [app]. auto.
    + destruct (IH (c :: cur) buffer lines Hc) as [buf' [H1 [H2 H3]]].
      exists buf'. cbn [app] in H1, H2. auto.
Qed.

(* ------------------------------------------------------------------ refinement *)
Record R (st : pstate) (sst : sstate) : Prop := mkR {
  R_pend : pending st = sp_pend sst;
  R_style : p_style st = sp_style sst;
  R_chunks : chunks_ok (p_buffer st);
  R_no_nl : ~ In 10 (sp_pend sst) }.

Lemma R_init : R p_init s_init.
Proof. constructor; cbn; auto. constructor. Qed.

Lemma chunks_pending_nil : forall b, chunks_ok b -> concat b = [] -> b = [].
Proof.
  intros [|x b] H E; [reflexivity|]. inversion H as [|? ? Hx _]. subst.
  cbn in E. apply app_eq_nil in E. destruct E as [E _]. contradiction.
Qed.

(* one expected call / one observed call, with the same decoded lines *)
Definition same_call (exp : list (list (list piece))) (outs : list out) : Prop :=
  (exp = [] /\ outs = []) \/
  (exists pss raw nl, exp = [pss] /\ outs = [OEvent (mkEvent raw nl (PText pss) kw_off)]).

Lemma same_call_ok : forall exp outs, same_call exp outs -> events_ok_b exp outs = true /\ length exp = length outs.
Proof.
  intros exp outs [[-> ->]|[pss [raw [nl [-> ->]]]]]; [split; reflexivity|].
  split; [|reflexivity]. cbn [events_ok_b event_ok_b ev_kw ev_obj]. rewrite lines_eqb_refl. reflexivity.
Qed.

Lemma step_refines : forall st sst o,
  R st sst ->
  let '(st', outs) := proxy_step true facts_fixed st o in
  let '(sst', exp) := spec_step sst o in
  R st' sst' /\ same_call exp outs /\ concat (map out_raw outs) ++ pending st' = pending st ++ match o with Write s => s | Flush => [] end.
Proof.
  intros st sst o [Hp Hs Hc Hn]. destruct o as [text|]; cbn [proxy_step spec_step].
  - unfold proxy_write.
    destruct (write_loop_spec text [] (p_buffer st) [] Hc) as [buf' [H1 [H2 H3]]].
    rewrite H1. cbn [rev app] in *. fold (pending st) in *. rewrite Hp in *.
    rewrite (split_nl_prefix (sp_pend sst) text [] Hn). rewrite app_nil_r.
    pose proof (split_nl_join text (rev (sp_pend sst))) as HJ. rewrite rev_involutive in HJ.
    pose proof (split_nl_rest_no_nl text (rev (sp_pend sst))) as HN.
    destruct (split_nl text (rev (sp_pend sst))) as [ls rest]. cbn [fst snd] in *.
    assert (HN' : ~ In 10 rest) by (apply HN; intros HI; apply in_rev in HI; exact (Hn HI)).
    destruct ls as [|l ls].
    + split; [constructor; cbn; auto|]. split; [left; auto|]. cbn. unfold pending. cbn. rewrite H2. exact HJ.
    + cbn [f_write_decodes facts_fixed f_write_kw]. rewrite Hs.
      destruct (decode_lines_total (l :: ls) (sp_style sst)) as [pss Hpss].
      destruct (decode_lines true (sp_style sst) (l :: ls)) as [sty rr]. cbn [snd] in Hpss. subst rr.
      cbn [res_out]. split; [constructor; cbn; auto|]. split.
      * right. exists pss, (l :: ls), true. auto.
      * cbn [map concat out_raw ev_nl ev_raw]. rewrite app_nil_r. unfold pending at 1. cbn [p_buffer]. rewrite H2. exact HJ.
  - unfold proxy_flush. destruct (p_buffer st) as [|b buf] eqn:EB.
    + assert (HE : sp_pend sst = []) by (rewrite <- Hp; unfold pending; rewrite EB; reflexivity).
      rewrite HE. split; [constructor; auto; rewrite EB; constructor|]. split; [left; auto|].
      cbn. rewrite app_nil_r. reflexivity.
    + cbn [f_flush_decodes facts_fixed f_flush_kw].
      assert (HE : sp_pend sst = concat (b :: buf)) by (rewrite <- Hp; unfold pending; rewrite EB; reflexivity).
      assert (HNE : concat (b :: buf) <> []).
      { intros E. pose proof (chunks_pending_nil _ Hc E). discriminate. }
      rewrite HE. destruct (concat (b :: buf)) as [|x p] eqn:EC; [contradiction|].
      rewrite Hs. destruct (decode_line_total (sp_style sst) (x :: p)) as [ps Hps].
      destruct (decode_line true (sp_style sst) (x :: p)) as [sty rr]. cbn [snd] in Hps. subst rr.
      cbn [res_out]. split; [constructor; cbn; auto; constructor|]. split.
      * right. exists [ps], [x :: p], false. auto.
      * cbn [map concat out_raw ev_nl ev_raw]. unfold pending. cbn [p_buffer concat]. rewrite EB, EC.
        rewrite !app_nil_r. reflexivity.
Qed.

Lemma events_ok_app : forall e1 o1 e2 o2, length e1 = length o1 ->
  events_ok_b (e1 ++ e2) (o1 ++ o2) = events_ok_b e1 o1 && events_ok_b e2 o2.
Proof.
  induction e1 as [|x e1 IH]; destruct o1 as [|o o1]; cbn [length]; intros e2 o2 H; try discriminate.
  - reflexivity.
  - cbn [app events_ok_b]. rewrite IH by lia. rewrite andb_assoc. reflexivity.
Qed.

Lemma run_refines : forall h st sst,
  R st sst ->
  let '(st', outs) := proxy_run true facts_fixed st h in
  let '(sst', exp) := spec_run sst h in
  R st' sst' /\ events_ok_b exp outs = true /\ length exp = length outs
  /\ concat (map out_raw outs) ++ pending st' = pending st ++ writes h.
Proof.
  induction h as [|o h IH]; intros st sst HR; cbn [proxy_run spec_run].
  - split; [exact HR|]. split; [reflexivity|]. split; [reflexivity|].
    cbn [map concat writes flat_map app]. symmetry. apply app_nil_r.
  - pose proof (step_refines st sst o HR) as HS.
    destruct (proxy_step true facts_fixed st o) as [st1 o1]. destruct (spec_step sst o) as [sst1 e1].
    destruct HS as [HR1 [HC HK]]. specialize (IH st1 sst1 HR1).
    destruct (proxy_run true facts_fixed st1 h) as [st2 o2]. destruct (spec_run sst1 h) as [sst2 e2].
    destruct IH as [HR2 [HE [HL HK2]]]. destruct (same_call_ok _ _ HC) as [HE1 HL1].
    split; [exact HR2|]. split; [rewrite events_ok_app by exact HL1; rewrite HE1, HE; reflexivity|].
    split; [rewrite !app_length; lia|].
    rewrite map_app, concat_app, <- app_assoc, HK2, app_assoc, HK. cbn [writes flat_map].
    rewrite <- app_assoc. destruct o; reflexivity.
Qed.

(* the repaired FileProxy satisfies the property checker on every history *)
Theorem proxy_ok : forall h,
  let '(st, outs) := proxy_run true facts_fixed p_init h in proxy_ok_b h outs (pending st) = true.
Proof.
  intros h. pose proof (run_refines h p_init s_init R_init) as H. unfold proxy_ok_b.
  destruct (proxy_run true facts_fixed p_init h) as [st outs]. destruct (spec_run s_init h) as [sst exp].
  destruct H as [[Hp _ _ _] [HE _]]. rewrite HE, Hp, str_eqb_refl. reflexivity.
Qed.

(* nothing is lost, nothing is invented: what was printed (line by line, "\n" included; a flushed
   partial line without) followed by what is still pending is exactly what was written *)
Theorem proxy_conservation : forall h,
  let '(st, outs) := proxy_run true facts_fixed p_init h in
  concat (map out_raw outs) ++ pending st = writes h.
Proof.
  intros h. pose proof (run_refines h p_init s_init R_init) as H.
  destruct (proxy_run true facts_fixed p_init h) as [st outs]. destruct (spec_run s_init h) as [sst exp].
  destruct H as [_ [_ [_ HK]]]. exact HK.
Qed.

(* no exception escapes a write or a flush *)
Theorem proxy_no_crash : forall h,
  Forall (fun o => match o with OEvent _ => True | OCrash _ _ => False end)
         (snd (proxy_run true facts_fixed p_init h)).
Proof.
  intros h. pose proof (run_refines h p_init s_init R_init) as H.
  destruct (proxy_run true facts_fixed p_init h) as [st outs]. destruct (spec_run s_init h) as [sst exp].
  destruct H as [_ [HE [HL _]]]. cbn [snd]. clear - HE HL. revert outs HE HL.
  induction exp as [|x exp IH]; destruct outs as [|o outs]; cbn [length events_ok_b]; intros HE HL; try discriminate.
  - constructor.
  - apply andb_true_iff in HE. destruct HE as [H1 H2]. constructor; [|apply IH; [exact H2|lia]].
    destruct o; [exact Logic.I|discriminate].
Qed.

(* ------------------------------------------------------------------ where the chunks are cut does not matter *)
Definition no_flush (h : list op) : Prop := Forall (fun o => match o with Write _ => True | Flush => False end) h.

Lemma decode_lines_app : forall l1 l2 st,
  decode_lines true st (l1 ++ l2) =
  match decode_lines true st l1 with
  | (s1, Ok p1) => match decode_lines true s1 l2 with
                   | (s2, Ok p2) => (s2, Ok (p1 ++ p2))
                   | (s2, Doc e) => (s2, Doc e)
                   | (s2, Crash k) => (s2, Crash k)
                   end
  | x => x
  end.
Proof.
  induction l1 as [|l l1 IH]; intros l2 st.
  - cbn [app decode_lines]. destruct (decode_lines true st l2) as [s2 [p2| |]]; reflexivity.
  - cbn [app decode_lines]. destruct (decode_line true st l) as [st' [ps| |]]; try reflexivity.
    rewrite IH. destruct (decode_lines true st' l1) as [s1 [p1| |]]; try reflexivity.
    destruct (decode_lines true s1 l2) as [s2 [p2| |]]; reflexivity.
Qed.

(* without flushes the specification prints exactly the complete lines of the whole stream, decoded
   by ONE decoder run over them in order, and keeps the unterminated tail -- whatever the cuts *)
Lemma spec_run_no_flush : forall h pend sty,
  no_flush h -> ~ In 10 pend ->
  let '(sst, exp) := spec_run (mkS pend sty) h in
  let '(lines, rest) := split_nl (pend ++ writes h) [] in
  sp_pend sst = rest /\
  decode_lines true sty lines = (sp_style sst, Ok (concat exp)).
Proof.
  induction h as [|o h IH]; intros pend sty Hf Hn; cbn [spec_run].
  - cbn [writes flat_map]. rewrite (split_nl_prefix pend [] [] Hn). cbn [split_nl]. rewrite app_nil_r, rev_involutive.
    cbn. auto.
  - inversion Hf as [|? ? Ho Hf']. subst. destruct o as [text|]; [|contradiction].
    cbn [spec_step sp_pend sp_style]. change (writes (Write text :: h)) with (text ++ writes h).
    rewrite app_assoc. rewrite (split_nl_app (pend ++ text) (writes h) []).
    pose proof (split_nl_rest_no_nl (pend ++ text) [] (fun x => x)) as HN.
    destruct (split_nl (pend ++ text) []) as [l1 r1]. cbn [snd] in HN.
    assert (E2 : split_nl (writes h) (rev r1) = split_nl (r1 ++ writes h) []).
    { rewrite (split_nl_prefix r1 (writes h) [] HN). rewrite app_nil_r. reflexivity. }
    rewrite E2.
    destruct l1 as [|l l1].
    + specialize (IH r1 sty Hf' HN). destruct (spec_run (mkS r1 sty) h) as [sst exp].
      destruct (split_nl (r1 ++ writes h) []) as [l2 r2]. cbn [app]. exact IH.
    + destruct (decode_lines_total (l :: l1) sty) as [pss Hpss].
      destruct (decode_lines true sty (l :: l1)) as [sty1 rr] eqn:ED. cbn [snd] in Hpss. subst rr.
      specialize (IH r1 sty1 Hf' HN). destruct (spec_run (mkS r1 sty1) h) as [sst exp].
      destruct (split_nl (r1 ++ writes h) []) as [l2 r2]. destruct IH as [IH1 IH2].
      split; [exact IH1|]. rewrite decode_lines_app, ED, IH2. cbn [app concat]. reflexivity.
Qed.

Theorem spec_cut_independent : forall h1 h2,
  no_flush h1 -> no_flush h2 -> writes h1 = writes h2 ->
  let '(s1, e1) := spec_run s_init h1 in
  let '(s2, e2) := spec_run s_init h2 in
  concat e1 = concat e2 /\ sp_pend s1 = sp_pend s2 /\ sp_style s1 = sp_style s2.
Proof.
  intros h1 h2 F1 F2 E.
  pose proof (spec_run_no_flush h1 [] style_null F1 (fun x => x)) as H1.
  pose proof (spec_run_no_flush h2 [] style_null F2 (fun x => x)) as H2.
  unfold s_init. destruct (spec_run (mkS [] style_null) h1) as [s1 e1].
  destruct (spec_run (mkS [] style_null) h2) as [s2 e2]. cbn [app] in *. rewrite E in H1.
  destruct (split_nl (writes h2) []) as [lines rest]. destruct H1 as [A1 B1]. destruct H2 as [A2 B2].
  rewrite B1 in B2. inversion B2. repeat split; congruence.
Qed.

(* ------------------------------------------------------------------ flush *)
(* the repaired flush prints the pending partial line, ANSI-decoded with the running decoder state and
   with markup / emoji / highlighting off, and leaves nothing pending *)
Theorem flush_emits_pending : forall st,
  chunks_ok (p_buffer st) -> pending st <> [] ->
  exists sty ps,
    decode_line true (p_style st) (pending st) = (sty, Ok ps) /\
    proxy_flush true facts_fixed st
      = (mkP [] sty, [OEvent (mkEvent [pending st] false (PText [ps]) kw_off)]).
Proof.
  intros st Hc Hne. unfold proxy_flush, pending in *. destruct (p_buffer st) as [|b buf] eqn:EB; [contradiction|].
  cbn [f_flush_decodes facts_fixed f_flush_kw].
  destruct (decode_line_total (p_style st) (concat (b :: buf))) as [ps Hps].
  destruct (decode_line true (p_style st) (concat (b :: buf))) as [sty rr]. cbn [snd] in Hps. subst rr.
  exists sty, ps. split; reflexivity.
Qed.

(* ------------------------------------------------------------------ rich 9.10.0 as found *)
(* D13: flush hands the raw pending string to console.print with the console's defaults (markup,
   emoji and highlighting enabled, no ANSI decoding) *)
Theorem flush_asis_refuted :
  let h := [Write (lit "[b]x"); Flush] in
  let '(st, outs) := proxy_run true facts_asis p_init h in
  outs = [OEvent (mkEvent [lit "[b]x"] false (PStr (lit "[b]x")) [None; None; None])]
  /\ proxy_ok_b h outs (pending st) = false.
Proof. vm_compute. split; reflexivity. Qed.

(* D8 through the proxy: a line whose SGR parameter is a digit that int() rejects is lost *)
Theorem write_asis_d8_refuted :
  let h := [Write [27; 91; 178; 109; 120; 10]] in
  let '(st, outs) := proxy_run false facts_fixed p_init h in
  outs = [OCrash false K_ValueError] /\ pending st = [] /\ proxy_ok_b h outs (pending st) = false.
Proof. vm_compute. repeat split; reflexivity. Qed.
