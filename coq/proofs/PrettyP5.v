(* C16 proofs, part 5: for list / tuple / dict / set / frozenset over leaves the one-line form is
   Python's repr(). *)
From Coq Require Import ZifyBool.
From RichModel Require Import Prelude Wire Cells Pretty SpecPretty.
From RichProofs Require Import CellsP PrettyP PrettyP2 PrettyP3.

Lemma gomap_none {A B} (g : A -> B) l : forall i, gomap None (fun x _ => g x) l i = map g l.
Proof. induction l as [|x r IH]; intros i; [reflexivity|]. cbn [gomap limit_reached map]. now rewrite IH. Qed.

Lemma tstr_join_sep items : tstr (join_sep items) = join_str (lit ", ") (map tstr items).
Proof.
  induction items as [|x [|y r] IH]; [reflexivity|cbn [join_sep map join_str]; reflexivity|].
  change (join_sep (x :: y :: r)) with (x ++ TSep :: join_sep (y :: r)).
  change (map tstr (x :: y :: r)) with (tstr x :: tstr y :: map tstr r).
  change (join_str (lit ", ") (tstr x :: tstr y :: map tstr r))
    with (tstr x ++ lit ", " ++ join_str (lit ", ") (tstr y :: map tstr r)).
  rewrite tstr_app. change (TSep :: join_sep (y :: r)) with ([TSep] ++ join_sep (y :: r)).
  rewrite tstr_app, IH. reflexivity.
Qed.

Lemma all_some_map {A B} (f : A -> option B) l rs :
  all_some (map f l) = Some rs -> Forall2 (fun x r => f x = Some r) l rs.
Proof.
  revert rs. induction l as [|x l IH]; intros rs H; cbn [map all_some] in H.
  - inversion H. constructor.
  - destruct (f x) eqn:E; [|discriminate]. destruct (all_some (map f l)) eqn:E2; [|discriminate].
    inversion H; subst. constructor; [exact E|apply IH; reflexivity].
Qed.

Lemma F2_map_eq {A} (f : A -> str) (g : A -> option str) l rs :
  Forall (fun x => forall r, g x = Some r -> f x = r) l ->
  Forall2 (fun x r => g x = Some r) l rs -> map f l = rs.
Proof.
  intros HF H2. induction H2 as [|x r l rs Hx _ IH]; [reflexivity|].
  inversion HF; subst. cbn [map]. f_equal; [auto|auto].
Qed.

Lemma canon_seq_none k a x r ms :
  canon None ms (Seq k a (x :: r))
  = TOpen (fst (fst (braces_spec_s k a))) :: body (is_tup k) (map (canon None ms) (x :: r))
      ++ [TClose (snd (fst (braces_spec_s k a)))].
Proof.
  change (canon None ms (Seq k a (x :: r)))
    with (TOpen (fst (fst (braces_spec_s k a)))
            :: body (is_tup k) (gomap None (fun y _ => canon None ms y) (x :: r) 0 ++ marker None (zlen (x :: r)))
            ++ [TClose (snd (fst (braces_spec_s k a)))]).
  rewrite gomap_none. cbn [marker]. now rewrite app_nil_r.
Qed.

Lemma canon_map_none k a x r ms :
  canon None ms (Map k a (x :: r))
  = TOpen (fst (fst (braces_spec_m k a)))
      :: body false (map (fun kv => keytoks (to_repr ms (fst kv)) ++ canon None ms (snd kv)) (x :: r))
      ++ [TClose (snd (fst (braces_spec_m k a)))].
Proof.
  change (canon None ms (Map k a (x :: r)))
    with (TOpen (fst (fst (braces_spec_m k a)))
            :: body false (gomap None (fun y _ => keytoks (to_repr ms (fst y)) ++ canon None ms (snd y)) (x :: r) 0
                             ++ marker None (zlen (x :: r)))
            ++ [TClose (snd (fst (braces_spec_m k a)))]).
  rewrite gomap_none. cbn [marker]. now rewrite app_nil_r.
Qed.

Lemma tstr_cons_open o rest c : tstr (TOpen o :: rest ++ [TClose c]) = o ++ tstr rest ++ c.
Proof.
  change (TOpen o :: rest ++ [TClose c]) with ([TOpen o] ++ rest ++ [TClose c]).
  rewrite !tstr_app. unfold tstr at 1 3. cbn [map concat tok_str]. now rewrite !app_nil_r.
Qed.

Lemma canon_str_tstr ml ms v : canon_str ml ms v = tstr (canon ml ms v).
Proof. reflexivity. Qed.

(* ---------- what pretty prints on one line, for EVERY container kind (no abbreviation) ---------- *)
Definition items_text (tup : bool) (rs : list str) : str :=
  match rs with
  | [x] => if tup then x ++ lit "," else x
  | _ => join_str (lit ", ") rs
  end.

Lemma tstr_body tup items : tstr (body tup items) = items_text tup (map tstr items).
Proof.
  rewrite body_eq. destruct items as [|x [|y r]]; cbn [single andb map items_text].
  - now rewrite andb_false_r.
  - destruct tup; cbn [andb]; [|reflexivity]. rewrite tstr_app. unfold tstr at 2. cbn. reflexivity.
  - rewrite andb_false_r. apply (tstr_join_sep (x :: y :: r)).
Qed.

Theorem canon_str_seq k a x r ms :
  canon_str None ms (Seq k a (x :: r))
  = fst (fst (braces_spec_s k a)) ++ items_text (is_tup k) (map (canon_str None ms) (x :: r))
      ++ snd (fst (braces_spec_s k a)).
Proof.
  rewrite canon_str_tstr, canon_seq_none, tstr_cons_open, tstr_body, map_map. reflexivity.
Qed.

Theorem canon_str_seq_empty k a ms : canon_str None ms (Seq k a []) = snd (braces_spec_s k a).
Proof. unfold canon_str. cbn. now rewrite app_nil_r. Qed.

Theorem canon_str_map k a x r ms :
  canon_str None ms (Map k a (x :: r))
  = fst (fst (braces_spec_m k a))
      ++ items_text false (map (fun kv => tstr (keytoks (to_repr ms (fst kv))) ++ canon_str None ms (snd kv)) (x :: r))
      ++ snd (fst (braces_spec_m k a)).
Proof.
  rewrite canon_str_tstr, canon_map_none, tstr_cons_open, tstr_body, map_map.
  f_equal. f_equal. f_equal. apply map_ext. intros kv. now rewrite tstr_app.
Qed.

Theorem canon_str_map_empty k a ms : canon_str None ms (Map k a []) = snd (braces_spec_m k a).
Proof. unfold canon_str. cbn. now rewrite app_nil_r. Qed.

Lemma some_inj {A} (a b : A) : Some a = Some b -> a = b.
Proof. congruence. Qed.

(* ---------- ... and where Python's repr() is the same text ---------- *)
Theorem canon_is_repr v : forall r, keys_nonempty v = true -> py_repr v = Some r -> canon_str None None v = r.
Proof.
  induction v as [d| |k a xs IH|k a kvs IH] using V_ind'; intros r Hok H.
  - cbn in H. inversion H. unfold canon_str. cbn. now rewrite app_nil_r.
  - discriminate.
  - cbn [py_repr] in H. destruct (all_some (map py_repr xs)) as [rs|] eqn:E; [|discriminate].
    apply all_some_map in E. cbn [keys_nonempty] in Hok.
    assert (Hm : map (canon_str None None) xs = rs).
    { apply (F2_map_eq _ py_repr); [|exact E].
      rewrite Forall_forall in IH |- *. rewrite forallb_forall in Hok. intros x Hx r0. apply IH; auto. }
    destruct xs as [|x xs'].
    + cbn [map] in Hm. subst rs. rewrite canon_str_seq_empty.
      destruct k; cbn in H |- *; try discriminate; inversion H; reflexivity.
    + rewrite canon_str_seq, Hm. cbn [map] in Hm.
      destruct rs as [|r0 [|r1 rs']]; [discriminate| |];
        destruct k; cbn [is_tup items_text braces_spec_s fst snd] in *; try discriminate;
        apply some_inj in H; rewrite <- H; first [reflexivity | rewrite <- !app_assoc; reflexivity].
  - cbn [py_repr] in H. destruct (all_some _) as [rs|] eqn:E; [|discriminate].
    apply all_some_map in E. cbn [keys_nonempty] in Hok.
    assert (Hm : map (fun kv => tstr (keytoks (to_repr None (fst kv))) ++ canon_str None None (snd kv)) kvs = rs).
    { apply (F2_map_eq _ (fun kv => match py_repr (snd kv) with
                                    | Some r => Some (fst (fst kv) ++ lit ": " ++ r)
                                    | None => None end)); [|exact E].
      rewrite Forall_forall in IH |- *. rewrite forallb_forall in Hok. intros kv Hkv r0 Hr0.
      destruct (py_repr (snd kv)) as [rv|] eqn:Ev; [|discriminate]. inversion Hr0; subst r0.
      specialize (Hok kv Hkv). apply andb_true_iff in Hok. destruct Hok as [Hk Hv].
      change (to_repr None (fst kv)) with (fst (fst kv)). rewrite keytoks_str, Hk.
      rewrite <- app_assoc. f_equal. change (lit ": " ++ canon_str None None (snd kv)) with (58 :: 32 :: canon_str None None (snd kv)).
      f_equal. f_equal. apply (IH kv Hkv rv Hv Ev). }
    destruct kvs as [|kv kvs'].
    + cbn [map] in Hm. subst rs. rewrite canon_str_map_empty.
      destruct k; cbn in H |- *; try discriminate; inversion H; reflexivity.
    + rewrite canon_str_map, Hm. cbn [map] in Hm.
      destruct rs as [|r0 [|r1 rs']]; [discriminate| |];
        destruct k; cbn [items_text braces_spec_m fst snd] in *; try discriminate;
        apply some_inj in H; rewrite <- H; first [reflexivity | rewrite <- !app_assoc; reflexivity].
Qed.
