(* C02, statement (c): what each trimming / padding pass of Text.wrap does to `styled t`
   (the list of (code point, normalised styles) per position):
     - surviving characters keep their entry EXACTLY,
     - removed characters are a suffix,
     - inserted characters are whitespace, or the one ellipsis that ends a truncated line. *)
From RichModel Require Import Prelude Cells SpecCells Wrap SpecWrap.
From RichGen Require Import UnicodeSpace WrapFacts.
From RichProofs Require Import CellsP WrapP2 WrapS0.
From Coq Require Import ZifyBool.

(* ------------------------------------------------------------------ entries of an indexed string *)
(* position i of the string s (numbered from n) carries (character, g i) *)
Definition ent {B} (g : Z -> B) (n : Z) (s : list Z) : list (Z * B) :=
  map (fun ic => (snd ic, g (fst ic))) (index_from n s).

Lemma index_from_app {A} (a b : list A) : forall n,
  index_from n (a ++ b) = index_from n a ++ index_from (n + zlen a) b.
Proof.
  induction a as [|x a IH]; intros n.
  - cbn [app index_from]. unfold zlen. cbn [length]. rewrite Z.add_0_r. reflexivity.
  - cbn [app index_from]. rewrite IH.
    replace (n + zlen (x :: a)) with (n + 1 + zlen a) by (unfold zlen; cbn [length]; lia).
    reflexivity.
Qed.

Lemma ent_app {B} (g : Z -> B) a b n : ent g n (a ++ b) = ent g n a ++ ent g (n + zlen a) b.
Proof. unfold ent. rewrite index_from_app, map_app. reflexivity. Qed.

Lemma ent_ext {B} (g g' : Z -> B) : forall s n,
  (forall i, n <= i < n + zlen s -> g i = g' i) -> ent g n s = ent g' n s.
Proof.
  induction s as [|c s IH]; intros n H; [reflexivity|].
  unfold ent in *. cbn [index_from map fst snd]. f_equal.
  - rewrite H; [reflexivity|]. unfold zlen. cbn [length]. lia.
  - apply IH. intros i Hi. apply H. unfold zlen in *. cbn [length]. lia.
Qed.

Lemma ent_firstn {B} (g : Z -> B) : forall k s n, firstn k (ent g n s) = ent g n (firstn k s).
Proof.
  induction k as [|k IH]; intros s n; [reflexivity|].
  destruct s as [|c s]; [reflexivity|].
  unfold ent in *. cbn [index_from map firstn]. f_equal. apply IH.
Qed.

Lemma ent_fst {B} (g : Z -> B) : forall s n, map fst (ent g n s) = s.
Proof.
  induction s as [|c s IH]; intros n; [reflexivity|].
  unfold ent in *. cbn [index_from map fst snd]. f_equal. apply IH.
Qed.

Lemma ent_shift {B} (g : Z -> B) d : forall s n, ent g (n + d) s = ent (fun i => g (i + d)) n s.
Proof.
  induction s as [|c s IH]; intros n; [reflexivity|].
  unfold ent in *. cbn [index_from map fst snd]. f_equal.
  replace (n + d + 1) with (n + 1 + d) by lia. apply IH.
Qed.

Lemma forallb_space_repeat n : forallb is_space (repeat SP n) = true.
Proof. induction n as [|n IH]; [reflexivity|]. cbn [repeat forallb]. rewrite is_space_SP, IH. reflexivity. Qed.

Lemma forallb_space_py_repeat n : forallb is_space (py_repeat SP n) = true.
Proof. unfold py_repeat. apply forallb_space_repeat. Qed.

(* ------------------------------------------------------------------ set_cell_size, crop case *)
Lemma pop_loop_le : forall r ex, (length (fst (pop_loop r ex)) <= length r)%nat.
Proof.
  induction r as [|x r IH]; intros ex.
  - cbn [pop_loop]. destruct (0 <? ex); cbn; lia.
  - cbn [pop_loop]. destruct (0 <? ex).
    + specialize (IH (ex - x)). cbn [length]. lia.
    + cbn [fst length]. lia.
Qed.

(* the cropped string is a prefix of s, possibly followed by one space; the prefix contains
   everything up to the last non-whitespace character when the stripped string fits *)
Lemma set_cell_size_shape (s : list Z) n : n < cell_len s ->
  exists k, (k <= length s)%nat /\
    (set_cell_size s n = firstn k s \/ set_cell_size s n = firstn k s ++ [SP]) /\
    (cell_len (rstrip s) <= n -> (length (rstrip s) <= k)%nat).
Proof.
  intros Hn. unfold set_cell_size.
  destruct (cell_len s =? n) eqn:E1; [lia|].
  destruct (cell_len s <? n) eqn:E2; [lia|].
  pose proof (pop_loop_le (rev (map char_size s)) (cell_len s - n)) as Hle.
  rewrite rev_length, map_length in Hle.
  assert (Hkeep : cell_len (rstrip s) <= n ->
            (length (rstrip s) <= length (fst (pop_loop (rev (map char_size s)) (cell_len s - n))))%nat).
  { intros Hr. destruct (rstrip_split s) as [tail [H1 H2]]. set (r0 := rstrip s) in *.
    assert (Hcs : cell_len s = cell_len r0 + cell_len tail) by (rewrite H1 at 1; apply cell_len_app).
    pose proof (pop_loop_keeps (rev (map char_size s)) (cell_len s - n) (length tail)) as Hk.
    assert (Hlen : length s = (length r0 + length tail)%nat) by (rewrite H1 at 1; apply app_length).
    assert (Hfirst : firstn (length tail) (rev (map char_size s)) = rev (map char_size tail)).
    { rewrite H1 at 1. rewrite map_app, rev_app_distr.
      rewrite firstn_app. rewrite rev_length, map_length, Nat.sub_diag. cbn [firstn].
      rewrite app_nil_r. apply firstn_all2. rewrite rev_length, map_length. lia. }
    rewrite Hfirst, sumZ_rev in Hk. rewrite rev_length, map_length in Hk.
    change (sumZ (map char_size tail)) with (cell_len tail) in Hk.
    specialize (Hk ltac:(lia) ltac:(lia)). lia. }
  destruct (pop_loop (rev (map char_size s)) (cell_len s - n)) as [kept ex] eqn:Ep.
  cbn [fst] in *. exists (length kept). split; [exact Hle|]. split; [|exact Hkeep].
  destruct (ex =? -1); [right|left]; reflexivity.
Qed.

Section S2.
Variable S : Type.
Variable seqb : S -> S -> bool.
Variable null : S.
Variable fx : fixes.

Notation sty := (styled S seqb null).

Lemma styled_ent (t : text S) :
  sty t = ent (fun i => norm S seqb null (base t :: cover S t i)) 0 (plain t).
Proof. reflexivity. Qed.

Lemma ws_chars_fst (l : list (schar S)) : forallb is_space (map fst l) = true -> ws_chars S l.
Proof.
  unfold ws_chars. induction l as [|x l IH]; [reflexivity|]. cbn [map forallb]. intros H.
  apply andb_true_iff in H as [H1 H2]. rewrite H1. cbn [andb]. apply IH. exact H2.
Qed.

(* the general step: a text whose plain string is a prefix of the old one followed by new characters,
   with the same base style and the same covering styles on the prefix, has the old entries on the
   prefix *)
Lemma styled_prefix (t t' : text S) k (extra : list Z) :
  plain t' = firstn k (plain t) ++ extra -> base t' = base t ->
  (forall i, 0 <= i < Z.of_nat k -> cover S t' i = cover S t i) ->
  exists tail, sty t' = firstn k (sty t) ++ tail /\ map fst tail = extra.
Proof.
  intros Hp Hb Hc.
  exists (ent (fun i => norm S seqb null (base t' :: cover S t' i)) (zlen (firstn k (plain t))) extra).
  split; [|apply ent_fst].
  rewrite (styled_ent t'), (styled_ent t). rewrite Hp. rewrite ent_app. rewrite Z.add_0_l. f_equal.
  eapply eq_trans; [|symmetry; apply ent_firstn].
  apply ent_ext. intros i Hi. rewrite Hb, Hc; [reflexivity|].
  unfold zlen in Hi. rewrite firstn_length in Hi. lia.
Qed.

(* ------------------------------------------------------------------ covering styles under the span edits *)
Lemma cover_trim mx i : forall l : list (span S), i < mx ->
  map (@sp_style S) (filter (covers S i) (trim_spans S mx l)) = map (@sp_style S) (filter (covers S i) l).
Proof.
  intros l Hi. unfold trim_spans. induction l as [|sp l IH]; [reflexivity|].
  cbn [filter]. destruct (sp_start S sp <? mx) eqn:E1.
  - cbn [map filter]. destruct (sp_end S sp <? mx) eqn:E2.
    + destruct (covers S i sp); cbn [map]; rewrite IH; reflexivity.
    + assert (Hcv : covers S i (sp_start S sp, Z.min mx (sp_end S sp), sp_style S sp) = covers S i sp).
      { unfold covers, sp_start, sp_end in *. cbn [fst snd]. lia. }
      rewrite Hcv. destruct (covers S i sp); cbn [map]; rewrite IH; reflexivity.
  - assert (Hcv : covers S i sp = false) by (unfold covers; lia). rewrite Hcv. exact IH.
Qed.

Lemma cover_shift d i : forall l : list (span S),
  map (@sp_style S) (filter (covers S i) (shift_spans S d l)) = map (@sp_style S) (filter (covers S (i - d)) l).
Proof.
  induction l as [|sp l IH]; [reflexivity|].
  unfold shift_spans in *. cbn [map filter].
  assert (Hcv : covers S i (sp_start S sp + d, sp_end S sp + d, sp_style S sp) = covers S (i - d) sp).
  { unfold covers, sp_start, sp_end. cbn [fst snd]. lia. }
  rewrite Hcv. destruct (covers S (i - d) sp); cbn [map]; rewrite IH; reflexivity.
Qed.

Lemma set_plain_cover (t : text S) (s : list Z) i : i < zlen s -> cover S (set_plain S t s) i = cover S t i.
Proof.
  intros Hi. unfold set_plain. destruct (str_eqb s (plain t)); [reflexivity|].
  destruct (zlen s <? tlen S t); [|reflexivity].
  unfold cover. cbn [spans]. apply cover_trim. exact Hi.
Qed.

Lemma set_plain_styled (t : text S) k (extra : list Z) : (k <= length (plain t))%nat ->
  exists tail, sty (set_plain S t (firstn k (plain t) ++ extra)) = firstn k (sty t) ++ tail /\ map fst tail = extra.
Proof.
  intros Hk. apply styled_prefix.
  - apply set_plain_plain.
  - apply set_plain_base.
  - intros i Hi. apply set_plain_cover. unfold zlen. rewrite app_length, firstn_length. lia.
Qed.

(* ------------------------------------------------------------------ helper: right_crop / _trim_spans *)
Lemma styled_firstn_trim : forall (t : text S) mx, 0 <= mx ->
  sty (mkText (firstn (Z.to_nat mx) (plain t)) (trim_spans S mx (spans t)) (base t))
  = firstn (Z.to_nat mx) (sty t).
Proof.
  intros t mx Hmx.
  destruct (styled_prefix t (mkText (firstn (Z.to_nat mx) (plain t)) (trim_spans S mx (spans t)) (base t))
              (Z.to_nat mx) []) as [tail [H1 H2]].
  - cbn [plain]. symmetry. apply app_nil_r.
  - reflexivity.
  - intros i Hi. unfold cover. cbn [spans]. apply cover_trim. lia.
  - destruct tail; [|discriminate]. rewrite app_nil_r in H1. exact H1.
Qed.

Lemma styled_firstn_all (t : text S) : firstn (length (plain t)) (sty t) = sty t.
Proof. rewrite <- (styled_length S seqb null t). apply firstn_all. Qed.

(* ------------------------------------------------------------------ C1 rstrip_end *)
Lemma rstrip_end_styled w (l : text S) :
  exists k, (length (rstrip (plain l)) <= k)%nat /\ sty (rstrip_end S w l) = firstn k (sty l).
Proof.
  unfold rstrip_end.
  pose proof (rstrip_length_le (plain l)) as Hle.
  assert (Hid : exists k, (length (rstrip (plain l)) <= k)%nat /\ sty l = firstn k (sty l)).
  { exists (length (plain l)). split; [exact Hle|symmetry; apply styled_firstn_all]. }
  destruct (w <? tlen S l) eqn:E0; [|exact Hid].
  destruct (0 <? zlen (plain l) - zlen (rstrip (plain l))) eqn:E; [|exact Hid].
  unfold right_crop. eexists. split; [|apply styled_firstn_trim].
  - unfold tlen, zlen in *. lia.
  - unfold tlen, zlen in *. lia.
Qed.

(* ------------------------------------------------------------------ C2 Text.rstrip *)
Lemma rstrip_is_firstn (s : list Z) : rstrip s = firstn (length (rstrip s)) s.
Proof.
  destruct (rstrip_split s) as [tail [H1 H2]]. set (r := rstrip s) in *.
  rewrite H1 at 1. rewrite firstn_app, Nat.sub_diag, firstn_all. cbn [firstn]. symmetry. apply app_nil_r.
Qed.

Lemma text_rstrip_styled (l : text S) :
  sty (text_rstrip S l) = firstn (length (rstrip (plain l))) (sty l).
Proof.
  unfold text_rstrip.
  destruct (set_plain_styled l (length (rstrip (plain l))) [] (rstrip_length_le (plain l))) as [tail [H1 H2]].
  destruct tail; [|discriminate]. rewrite !app_nil_r in H1.
  rewrite <- rstrip_is_firstn in H1. exact H1.
Qed.

(* ------------------------------------------------------------------ C3 truncate *)
Lemma truncate_styled w ov pad (t : text S) : 1 <= w ->
  exists k tail,
    sty (truncate S w ov pad t) = firstn k (sty t) ++ tail /\
    (ov <> OV_ELLIPSIS -> ws_chars S tail) /\
    (ov = OV_ELLIPSIS -> ws_chars S tail \/ exists ws1 e, tail = ws1 ++ [e] /\ ws_chars S ws1 /\ fst e = ELLIPSIS) /\
    (cell_len (plain t) <= w \/ ov = OV_IGNORE -> (length (plain t) <= k)%nat) /\
    (ov <> OV_ELLIPSIS -> cell_len (rstrip (plain t)) <= w -> (length (rstrip (plain t)) <= k)%nat).
Proof.
  intros Hw.
  assert (Hid : exists k tail,
    sty t = firstn k (sty t) ++ tail /\
    (ov <> OV_ELLIPSIS -> ws_chars S tail) /\
    (ov = OV_ELLIPSIS -> ws_chars S tail \/ exists ws1 e, tail = ws1 ++ [e] /\ ws_chars S ws1 /\ fst e = ELLIPSIS) /\
    (cell_len (plain t) <= w \/ ov = OV_IGNORE -> (length (plain t) <= k)%nat) /\
    (ov <> OV_ELLIPSIS -> cell_len (rstrip (plain t)) <= w -> (length (rstrip (plain t)) <= k)%nat)).
  { exists (length (plain t)), []. split; [rewrite app_nil_r; symmetry; apply styled_firstn_all|].
    split; [intros _; reflexivity|]. split; [intros _; left; reflexivity|].
    split; [intros _; lia|]. intros _ _. apply rstrip_length_le. }
  unfold truncate. destruct (ov =? OV_IGNORE) eqn:E0; [exact Hid|].
  destruct (w <? cell_len (plain t)) eqn:E1.
  - replace (pad && (cell_len (plain t) <? w)) with false by (destruct pad; cbn; lia).
    destruct (ov =? OV_ELLIPSIS) eqn:E2.
    + destruct (set_cell_size_shape (plain t) (w - 1) ltac:(lia)) as [k [Hk [Hs _]]].
      assert (He : exists extra, set_cell_size (plain t) (w - 1) ++ [ELLIPSIS] = firstn k (plain t) ++ extra /\
                     (extra = [ELLIPSIS] \/ extra = [SP; ELLIPSIS])).
      { destruct Hs as [Hs|Hs]; rewrite Hs.
        - exists [ELLIPSIS]. split; [reflexivity|left; reflexivity].
        - exists [SP; ELLIPSIS]. split; [rewrite <- app_assoc; reflexivity|right; reflexivity]. }
      destruct He as [extra [He Hx]]. rewrite He.
      destruct (set_plain_styled t k extra Hk) as [tail [H1 H2]].
      exists k, tail. split; [exact H1|].
      split; [intros Hne; exfalso; lia|].
      split.
      { intros _. right. destruct Hx as [Hx|Hx]; subst extra.
        - destruct tail as [|e [|e2 tl]]; try discriminate. cbn [map] in H2.
          exists [], e. split; [reflexivity|]. split; [reflexivity|]. congruence.
        - destruct tail as [|a [|e [|e2 tl]]]; try discriminate. cbn [map] in H2.
          exists [a], e. split; [reflexivity|]. split; [|congruence].
          unfold ws_chars. cbn [forallb]. replace (fst a) with SP by congruence.
          rewrite is_space_SP. reflexivity. }
      split; [intros [Hc|Hc]; exfalso; lia|]. intros Hne; exfalso; lia.
    + destruct (set_cell_size_shape (plain t) w ltac:(lia)) as [k [Hk [Hs Hr]]].
      assert (He : exists extra, set_cell_size (plain t) w = firstn k (plain t) ++ extra /\
                     forallb is_space extra = true).
      { destruct Hs as [Hs|Hs]; rewrite Hs.
        - exists []. split; [symmetry; apply app_nil_r|reflexivity].
        - exists [SP]. split; [reflexivity|]. cbn [forallb]. rewrite is_space_SP. reflexivity. }
      destruct He as [extra [He Hx]]. rewrite He.
      destruct (set_plain_styled t k extra Hk) as [tail [H1 H2]].
      exists k, tail. split; [exact H1|].
      assert (Hws : ws_chars S tail) by (apply ws_chars_fst; rewrite H2; exact Hx).
      split; [intros _; exact Hws|].
      split; [intros _; left; exact Hws|].
      split; [intros [Hc|Hc]; exfalso; lia|]. intros _ Hfit. apply Hr. exact Hfit.
  - destruct (pad && (cell_len (plain t) <? w)) eqn:E3; [|exact Hid].
    destruct (styled_prefix t (mkText (plain t ++ py_repeat SP (w - cell_len (plain t))) (spans t) (base t))
                (length (plain t)) (py_repeat SP (w - cell_len (plain t)))) as [tail [H1 H2]].
    + cbn [plain]. rewrite firstn_all. reflexivity.
    + reflexivity.
    + intros i _. reflexivity.
    + exists (length (plain t)), tail. split; [exact H1|].
      assert (Hws : ws_chars S tail) by (apply ws_chars_fst; rewrite H2; apply forallb_space_py_repeat).
      split; [intros _; exact Hws|].
      split; [intros _; left; exact Hws|].
      split; [intros _; lia|]. intros _ _. apply rstrip_length_le.
Qed.

(* C3' *)
Lemma truncate_id w ov (t : text S) : cell_len (plain t) <= w -> truncate S w ov false t = t.
Proof.
  intros H. unfold truncate. destruct (ov =? OV_IGNORE); [reflexivity|].
  destruct (w <? cell_len (plain t)) eqn:E; [lia|]. reflexivity.
Qed.

(* ------------------------------------------------------------------ C4 pad_left (repaired) *)
Lemma pad_left_styled (t : text S) n : fix_pad fx = true ->
  exists pre, ws_chars S pre /\ sty (pad_left S fx t n) = pre ++ sty t.
Proof.
  intros Hfx. unfold pad_left. rewrite Hfx.
  destruct (0 <? n) eqn:E; [|exists []; split; reflexivity].
  set (t' := set_plain S t (py_repeat SP n ++ plain t)).
  set (r := mkText (plain t') (shift_spans S n (spans t')) (base t')).
  assert (Hp : plain r = py_repeat SP n ++ plain t) by (apply set_plain_plain).
  assert (Hb : base r = base t) by (apply set_plain_base).
  assert (Hn : zlen (py_repeat SP n) = n).
  { unfold zlen, py_repeat. rewrite repeat_length. lia. }
  exists (ent (fun i => norm S seqb null (base r :: cover S r i)) 0 (py_repeat SP n)).
  split.
  - apply ws_chars_fst. rewrite ent_fst. apply forallb_space_py_repeat.
  - rewrite (styled_ent r), (styled_ent t). rewrite Hp, ent_app. f_equal.
    rewrite Hn. rewrite ent_shift. apply ent_ext. intros i Hi.
    rewrite Hb. f_equal. f_equal.
    unfold cover at 1. unfold r. cbn [spans]. rewrite cover_shift.
    replace (i + n - n) with i by lia.
    apply (set_plain_cover t (py_repeat SP n ++ plain t) i).
    unfold zlen in *. rewrite app_length. lia.
Qed.

(* ------------------------------------------------------------------ C5 pad_right *)
Lemma pad_right_styled (t : text S) n :
  exists suf, ws_chars S suf /\ sty (pad_right S t n) = sty t ++ suf.
Proof.
  unfold pad_right. destruct (negb (n =? 0)) eqn:E.
  - destruct (set_plain_styled t (length (plain t)) (py_repeat SP n) (le_n _)) as [tail [H1 H2]].
    rewrite firstn_all in H1. rewrite styled_firstn_all in H1.
    exists tail. split; [|exact H1]. apply ws_chars_fst. rewrite H2. apply forallb_space_py_repeat.
  - exists []. split; [reflexivity|]. symmetry. apply app_nil_r.
Qed.

End S2.
