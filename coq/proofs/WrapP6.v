(* C02 proofs, part 6: property (d) of SpecWrap lifted to the OUTPUT of Text.wrap.
   A word of a (tab-expanded) source line lies on two different output lines only if it is wider
   than the width: breaks_only_long_b holds of Text.wrap with overflow = fold, every justify mode,
   every tab size, both model variants, all widths >= 2.
   From WrapP.divide_line_breaks_only_long (offsets) + WrapP.divide_line_shape (pieces) +
   the per-pass nonspace facts of WrapP2/WrapP4/WrapP5. *)
From RichModel Require Import Prelude Cells SpecCells Wrap SpecWrap.
From RichGen Require Import UnicodeSpace WrapFacts.
From RichProofs Require Import CellsP WrapP WrapP2 WrapP4 WrapP5.
From Coq Require Import ZifyBool.

(* ------------------------------------------------------------------ small list facts *)
Lemma firstn_skipn_exact {A} : forall (a b : list A) n, length a = n ->
  firstn n (a ++ b) = a /\ skipn n (a ++ b) = b.
Proof.
  induction a as [|x a IH]; intros b n <-.
  - cbn [length app]. split; reflexivity.
  - cbn [length app firstn skipn]. destruct (IH b (length a) eq_refl) as [H1 H2].
    rewrite H1, H2. split; reflexivity.
Qed.

Definition all_ns (b : str) : Prop := Forall (fun c => is_space c = false) b.

Lemma take_word_ns : forall s, all_ns (take_word s).
Proof.
  induction s as [|c s IH]; [constructor|].
  cbn [take_word]. destruct (is_space c) eqn:E; [constructor|]. constructor; assumption.
Qed.

Lemma nonspace_ns : forall b, all_ns b -> nonspace b = b.
Proof.
  induction b as [|c b IH]; intros H; [reflexivity|].
  inversion H as [|? ? Hc Hb]; subst. unfold nonspace in *. cbn [filter]. rewrite Hc. cbn [negb].
  f_equal. apply IH. exact Hb.
Qed.

Lemma nonspace_sp : forall a, all_sp a -> nonspace a = [].
Proof. intros a H. apply nonspace_all_space. apply all_sp_forallb. exact H. Qed.

Lemma rstrip_ns : forall b, all_ns b -> rstrip b = b.
Proof.
  intros b H. unfold rstrip. destruct (rev b) as [|c r] eqn:E.
  - cbn [drop_space rev]. rewrite <- (rev_involutive b), E. reflexivity.
  - assert (Hc : is_space c = false).
    { unfold all_ns in H. rewrite Forall_forall in H. apply H. apply in_rev. rewrite E. left. reflexivity. }
    cbn [drop_space]. rewrite Hc, <- E. apply rev_involutive.
Qed.

Lemma all_ns_has_ns c b : all_ns (c :: b) -> has_ns (c :: b).
Proof. intros H. inversion H; subst. exists c. split; [left; reflexivity|assumption]. Qed.

Lemma take_word_nil_drop s : take_word (drop_space s) = [] -> drop_space s = [].
Proof.
  intros H. destruct (drop_space_head s) as [E|[c [r [E Hc]]]]; [exact E|].
  rewrite E in H. cbn [take_word] in H. rewrite Hc in H. discriminate.
Qed.

Lemma drop_space_fix_take s : drop_space s = s -> take_space s = [].
Proof.
  intros H. pose proof (take_drop_space s) as E. rewrite H in E.
  apply (app_inv_tail s (take_space s) []). cbn [app]. symmetry. exact E.
Qed.

(* a word match, decomposed *)
Lemma decomp_rest rest :
  rest = take_space rest ++ take_word (drop_space rest) ++
         take_space (drop_word (drop_space rest)) ++ drop_space (drop_word (drop_space rest)).
Proof.
  rewrite <- (take_drop_space (drop_word (drop_space rest))).
  rewrite <- (take_drop_word (drop_space rest)). apply take_drop_space.
Qed.

(* ------------------------------------------------------------------ sum of the n's of src_words *)
Definition sumn (ws : list (Z * nat)) : nat := fold_right (fun x a => (snd x + a)%nat) 0%nat ws.

Lemma src_words_go_drop f rest : src_words_go f rest = src_words_go f (drop_space rest).
Proof. destruct f; [reflexivity|]. cbn [src_words_go]. rewrite drop_space_idem. reflexivity. Qed.

Lemma sumn_go : forall f rest, (length rest < f)%nat ->
  sumn (src_words_go f rest) = length (nonspace rest).
Proof.
  induction f as [|f IH]; intros rest Hl; [lia|].
  cbn [src_words_go].
  pose proof (decomp_rest rest) as Hd.
  pose proof (take_word_ns (drop_space rest)) as Hns.
  destruct (take_word (drop_space rest)) as [|b0 b] eqn:Eb.
  - apply take_word_nil_drop in Eb.
    assert (E : nonspace rest = []).
    { rewrite (take_drop_space rest), Eb, app_nil_r. apply nonspace_sp. apply take_space_all. }
    rewrite E. reflexivity.
  - assert (E : nonspace rest = (b0 :: b) ++ nonspace (drop_word (drop_space rest))).
    { rewrite Hd at 1. rewrite !nonspace_app.
      rewrite (nonspace_sp _ (take_space_all rest)).
      rewrite (nonspace_sp _ (take_space_all (drop_word (drop_space rest)))).
      rewrite (nonspace_ns _ Hns). cbn [app]. f_equal. f_equal.
      pose proof (take_drop_space (drop_word (drop_space rest))) as E2.
      rewrite E2 at 2. rewrite nonspace_app, (nonspace_sp _ (take_space_all _)). reflexivity. }
    rewrite E. cbn [sumn fold_right snd]. fold (sumn (src_words_go f (drop_word (drop_space rest)))).
    rewrite IH.
    + rewrite app_length. reflexivity.
    + apply (f_equal (@length Z)) in Hd. rewrite !app_length in Hd. cbn [length] in Hd.
      pose proof (take_drop_space (drop_word (drop_space rest))) as E2.
      apply (f_equal (@length Z)) in E2. rewrite app_length in E2. lia.
Qed.

Lemma sumn_src_words s : sumn (src_words s) = length (nonspace s).
Proof.
  unfold src_words.
  pose proof (decomp_rest s) as Hd.
  pose proof (take_word_ns (drop_space s)) as Hns.
  destruct (take_word (drop_space s)) as [|b0 b] eqn:Eb.
  - apply take_word_nil_drop in Eb.
    assert (E : nonspace s = []).
    { rewrite (take_drop_space s), Eb, app_nil_r. apply nonspace_sp. apply take_space_all. }
    rewrite E. reflexivity.
  - assert (E : nonspace s = (b0 :: b) ++ nonspace (drop_word (drop_space s))).
    { rewrite Hd at 1. rewrite !nonspace_app.
      rewrite (nonspace_sp _ (take_space_all s)).
      rewrite (nonspace_sp _ (take_space_all (drop_word (drop_space s)))).
      rewrite (nonspace_ns _ Hns). cbn [app]. f_equal. f_equal.
      pose proof (take_drop_space (drop_word (drop_space s))) as E2.
      rewrite E2 at 2. rewrite nonspace_app, (nonspace_sp _ (take_space_all _)). reflexivity. }
    rewrite E. cbn [sumn fold_right snd]. fold (sumn (src_words_go (length s) (drop_word (drop_space s)))).
    rewrite sumn_go.
    + rewrite app_length. reflexivity.
    + apply (f_equal (@length Z)) in Hd. rewrite !app_length in Hd. cbn [length] in Hd.
      pose proof (take_drop_space (drop_word (drop_space s))) as E2.
      apply (f_equal (@length Z)) in E2. rewrite app_length in E2. lia.
Qed.

(* ------------------------------------------------------------------ line_ids *)
Lemma line_ids_app : forall A B k, line_ids k (A ++ B) = line_ids k A ++ line_ids (k + zlen A) B.
Proof.
  induction A as [|a A IH]; intros B k.
  - cbn [app line_ids]. change (zlen (@nil str)) with 0. rewrite Z.add_0_r. reflexivity.
  - cbn [app line_ids]. rewrite IH, <- app_assoc. do 3 f_equal. rewrite zlen_cons. lia.
Qed.

Lemma line_ids_length : forall L k, length (line_ids k L) = length (nonspace (concat L)).
Proof.
  induction L as [|l L IH]; intros k; [reflexivity|].
  cbn [line_ids concat]. rewrite nonspace_app, !app_length, map_length, IH. reflexivity.
Qed.

Lemma line_ids_map_ext {A} (f g : A -> str) : forall L k,
  (forall x, In x L -> nonspace (f x) = nonspace (g x)) ->
  line_ids k (map f L) = line_ids k (map g L).
Proof.
  induction L as [|x L IH]; intros k H; [reflexivity|].
  cbn [map line_ids]. rewrite (H x (or_introl eq_refl)). f_equal.
  apply IH. intros y Hy. apply H. right. exact Hy.
Qed.

(* ------------------------------------------------------------------ breaks_go over several source lines *)
Lemma breaks_go_app w : forall ws1 ws2 ids1 ids2,
  length ids1 = sumn ws1 -> breaks_go w ws1 ids1 = true -> breaks_go w ws2 ids2 = true ->
  breaks_go w (ws1 ++ ws2) (ids1 ++ ids2) = true.
Proof.
  induction ws1 as [|[c n] ws1 IH]; intros ws2 ids1 ids2 Hl H1 H2.
  - cbn [sumn fold_right] in Hl. destruct ids1; [|discriminate]. exact H2.
  - cbn [sumn fold_right snd] in Hl. fold (sumn ws1) in Hl.
    cbn [app breaks_go] in *.
    destruct (length ids1 <? n)%nat eqn:E1; [discriminate|].
    apply Nat.ltb_ge in E1.
    assert (E2 : (length (ids1 ++ ids2) <? n)%nat = false).
    { apply Nat.ltb_ge. rewrite app_length. lia. }
    rewrite E2. apply andb_true_iff in H1 as [Ha Hb].
    rewrite firstn_app, skipn_app.
    replace (n - length ids1)%nat with 0%nat by lia. cbn [firstn skipn]. rewrite app_nil_r, Ha.
    cbn [andb]. apply IH; [|exact Hb|exact H2].
    rewrite skipn_length. lia.
Qed.

(* ------------------------------------------------------------------ ids by position *)
(* number of offsets at or before position p = index of the line the character at p lies on *)
Fixpoint cnt (p : Z) (offs : list Z) : Z :=
  match offs with [] => 0 | o :: r => (if o <=? p then 1 else 0) + cnt p r end.

Fixpoint pids (k pos : Z) (offs : list Z) (s : str) : list Z :=
  match s with
  | [] => []
  | c :: r => if is_space c then pids k (pos + 1) offs r else (k + cnt pos offs) :: pids k (pos + 1) offs r
  end.

Lemma pids_app k offs : forall a pos b,
  pids k pos offs (a ++ b) = pids k pos offs a ++ pids k (pos + zlen a) offs b.
Proof.
  induction a as [|c a IH]; intros pos b.
  - cbn [app pids]. change (zlen (@nil Z)) with 0. rewrite Z.add_0_r. reflexivity.
  - cbn [app pids]. rewrite IH.
    replace (pos + zlen (c :: a)) with (pos + 1 + zlen a) by (rewrite zlen_cons; lia).
    destruct (is_space c); reflexivity.
Qed.

Lemma pids_sp k offs : forall a pos, all_sp a -> pids k pos offs a = [].
Proof.
  induction a as [|c a IH]; intros pos H; [reflexivity|].
  cbn [pids]. rewrite (H c (or_introl eq_refl)). apply IH. intros x Hx. apply H. right. exact Hx.
Qed.

Lemma pids_ns_length k offs : forall b pos, all_ns b -> length (pids k pos offs b) = length b.
Proof.
  induction b as [|c b IH]; intros pos H; [reflexivity|].
  inversion H as [|? ? Hc Hb]; subst. cbn [pids]. rewrite Hc. cbn [length]. f_equal. apply IH. exact Hb.
Qed.

Lemma cnt_low p : forall offs, (forall o, In o offs -> p < o) -> cnt p offs = 0.
Proof.
  induction offs as [|o r IH]; intros H; [reflexivity|].
  cbn [cnt]. rewrite IH by (intros x Hx; apply H; right; exact Hx).
  pose proof (H o (or_introl eq_refl)). destruct (o <=? p) eqn:E; lia.
Qed.

Lemma pids_low k offs : forall s pos, (forall o, In o offs -> pos + zlen s <= o) ->
  pids k pos offs s = map (fun _ => k) (nonspace s).
Proof.
  induction s as [|c s IH]; intros pos H; [reflexivity|].
  rewrite zlen_cons in H. pose proof (zlen_nonneg s) as Hz.
  cbn [pids]. unfold nonspace. cbn [filter]. fold (nonspace s).
  rewrite (IH (pos + 1)) by (intros o Ho; specialize (H o Ho); lia).
  destruct (is_space c); cbn [negb map]; [reflexivity|].
  rewrite cnt_low by (intros o Ho; specialize (H o Ho); lia).
  rewrite Z.add_0_r. reflexivity.
Qed.

Lemma pids_shift offs o : forall s k pos, o <= pos ->
  pids k pos (o :: offs) s = pids (k + 1) pos offs s.
Proof.
  induction s as [|c s IH]; intros k pos H; [reflexivity|].
  cbn [pids cnt]. rewrite IH by lia.
  destruct (is_space c); [reflexivity|]. f_equal. destruct (o <=? pos) eqn:E; lia.
Qed.

(* the ids of the pieces cut at the cumulative lengths *)
Lemma line_ids_pids : forall done a k last,
  line_ids k (done ++ [last]) = pids k a (cums a done) (concat done ++ last).
Proof.
  induction done as [|d done IH]; intros a k last.
  - cbn [app line_ids cums concat]. rewrite app_nil_r. symmetry. apply pids_low. intros o [].
  - cbn [app line_ids cums concat]. rewrite <- app_assoc, pids_app. f_equal.
    + symmetry. apply pids_low. intros o [<-|Ho]; [lia|]. apply cums_bounds in Ho. lia.
    + rewrite pids_shift by lia. apply IH.
Qed.

Lemma cnt_const p0 p e : forall offs, p0 <= p -> p < e ->
  (forall o, In o offs -> ~ (p0 < o < e)) -> cnt p offs = cnt p0 offs.
Proof.
  induction offs as [|o r IH]; intros H1 H2 H; [reflexivity|].
  cbn [cnt]. rewrite IH by (try assumption; intros x Hx; apply H; right; exact Hx).
  pose proof (H o (or_introl eq_refl)). destruct (o <=? p) eqn:E; destruct (o <=? p0) eqn:E0; lia.
Qed.

Lemma pids_const k offs p0 e : forall b pos, all_ns b -> p0 <= pos -> pos + zlen b <= e ->
  (forall o, In o offs -> ~ (p0 < o < e)) ->
  pids k pos offs b = map (fun _ => k + cnt p0 offs) b.
Proof.
  induction b as [|c b IH]; intros pos Hns H1 H2 H; [reflexivity|].
  inversion Hns as [|? ? Hc Hb]; subst. rewrite zlen_cons in H2. pose proof (zlen_nonneg b).
  cbn [pids map]. rewrite Hc. rewrite (cnt_const p0 pos e) by (try assumption; lia).
  f_equal. apply IH; try assumption; lia.
Qed.

Lemma all_same_const {A} (v : Z) : forall (b : list A), all_same (map (fun _ => v) b) = true.
Proof.
  intros [|x b]; [reflexivity|]. cbn [map all_same]. apply forallb_forall.
  intros y Hy. apply in_map_iff in Hy as [z [<- _]]. lia.
Qed.

(* ------------------------------------------------------------------ one word *)
Lemma word_step w k offs (lead b ts rest' : str) pos C ws :
  all_sp lead -> all_ns b -> all_sp ts ->
  (forall o, In o offs -> pos < o < pos + zlen (lead ++ b ++ ts) -> w < C) ->
  breaks_go w ws (pids k (pos + zlen (lead ++ b ++ ts)) offs rest') = true ->
  breaks_go w ((C, length b) :: ws) (pids k pos offs (lead ++ b ++ ts ++ rest')) = true.
Proof.
  intros Hl Hb Ht Hw Hrest.
  rewrite pids_app, (pids_sp _ _ lead) by exact Hl. cbn [app].
  rewrite pids_app, pids_app, (pids_sp _ _ ts) by exact Ht. cbn [app].
  replace (pos + zlen lead + zlen b + zlen ts) with (pos + zlen (lead ++ b ++ ts))
    by (rewrite !zlen_app; lia).
  pose proof (pids_ns_length k offs b (pos + zlen lead) Hb) as Hlen.
  cbn [breaks_go].
  destruct (firstn_skipn_exact (pids k (pos + zlen lead) offs b)
              (pids k (pos + zlen (lead ++ b ++ ts)) offs rest') (length b) Hlen) as [F1 F2].
  rewrite F1, F2, Hrest, andb_true_r.
  assert (E : (length (pids k (pos + zlen lead) offs b ++
                       pids k (pos + zlen (lead ++ b ++ ts)) offs rest') <? length b)%nat = false).
  { apply Nat.ltb_ge. rewrite app_length. lia. }
  rewrite E.
  set (e := pos + zlen (lead ++ b ++ ts)) in *.
  destruct (existsb (fun o => (pos <? o) && (o <? e)) offs) eqn:Ex.
  - apply existsb_exists in Ex as [o [Ho Hr]]. specialize (Hw o Ho ltac:(lia)).
    apply orb_true_iff. right. lia.
  - apply orb_true_iff. left.
    rewrite (pids_const k offs pos e).
    + apply all_same_const.
    + exact Hb.
    + pose proof (zlen_nonneg lead). lia.
    + unfold e. rewrite !zlen_app. pose proof (zlen_nonneg ts). lia.
    + intros o Ho Hr.
      assert (Hex : existsb (fun o => (pos <? o) && (o <? e)) offs = true).
      { apply existsb_exists. exists o. split; [exact Ho|lia]. }
      congruence.
Qed.

(* ------------------------------------------------------------------ one source line *)
Section Line.
Variable w k : Z.
Variable offs : list Z.

Definition just (o : Z) (x : Z * Z * str) : Prop :=
  o = fst (fst x) \/ (fst (fst x) < o < snd (fst x) /\ w < cell_len (rstrip (snd x))).
(* every offset is behind us or justified by one of the remaining words *)
Definition Q (pos : Z) (l : list (Z * Z * str)) : Prop :=
  forall o, In o offs -> o <= pos \/ exists x, In x l /\ just o x.

Lemma word_case f2 rest pos b0 b' :
  take_word (drop_space rest) = b0 :: b' -> (length rest < Datatypes.S f2)%nat ->
  Q pos (words_go (Datatypes.S f2) rest pos) ->
  let b := b0 :: b' in
  let r2 := drop_word (drop_space rest) in
  let lead := take_space rest in
  let ts := take_space r2 in
  let rest' := drop_space r2 in
  let e := pos + zlen (lead ++ b ++ ts) in
  rest = lead ++ b ++ ts ++ rest' /\ (length rest' < length rest)%nat /\
  (forall o, In o offs -> pos < o < e -> w < cell_len (lead ++ b)) /\
  Q e (words_go f2 rest' e).
Proof.
  intros Eb Hf HQ b r2 lead ts rest' e.
  pose proof (decomp_rest rest) as Hd. rewrite Eb in Hd. fold b r2 lead ts rest' in Hd.
  pose proof (take_word_ns (drop_space rest)) as Hns. rewrite Eb in Hns. fold b in Hns.
  assert (Hlen : (length rest' < length rest)%nat).
  { apply (f_equal (@length Z)) in Hd. rewrite !app_length in Hd. unfold b in Hd. cbn [length] in Hd. lia. }
  cbn [words_go] in HQ. unfold match_word in HQ. rewrite Eb in HQ.
  fold b r2 lead ts rest' in HQ. cbv zeta in HQ.
  change (pos + zlen (lead ++ b ++ ts)) with e in HQ.
  assert (Hchain : words_chain e (words_go f2 rest' e)).
  { destruct (words_go_spec f2 rest' e ltac:(lia)) as [tl [_ [_ [Hc _]]]]. exact Hc. }
  assert (Hrs : rstrip (lead ++ b ++ ts) = lead ++ b).
  { rewrite app_assoc, rstrip_app_all by apply take_space_all.
    rewrite rstrip_app_ns by (apply all_ns_has_ns; exact Hns).
    rewrite rstrip_ns by exact Hns. reflexivity. }
  assert (Hpe : pos <= e).
  { unfold e. pose proof (zlen_nonneg (lead ++ b ++ ts)). lia. }
  split; [exact Hd|]. split; [exact Hlen|]. split.
  - intros o Ho Hr. destruct (HQ o Ho) as [Hle|[x [[<-|Hx] Hj]]]; [lia| |].
    + destruct Hj as [Hj|[_ Hj]]; cbn [fst snd] in Hj; [lia|]. rewrite Hrs in Hj. exact Hj.
    + destruct (words_chain_ends _ _ _ Hchain Hx) as [_ [_ Hst]].
      destruct Hj as [Hj|[Hj _]]; lia.
  - intros o Ho. destruct (HQ o Ho) as [Hle|[x [[<-|Hx] Hj]]]; [left; lia| |].
    + left. destruct Hj as [Hj|[Hj _]]; cbn [fst snd] in Hj; lia.
    + right. exists x. split; assumption.
Qed.

Lemma core_go : forall f1 f2 rest pos,
  (length rest < f1)%nat -> (length rest < f2)%nat -> drop_space rest = rest ->
  Q pos (words_go f2 rest pos) ->
  breaks_go w (src_words_go f1 rest) (pids k pos offs rest) = true.
Proof.
  induction f1 as [|f1 IH]; intros f2 rest pos H1 H2 Hnl HQ; [lia|].
  destruct f2 as [|f2]; [lia|].
  cbn [src_words_go]. rewrite Hnl.
  destruct (take_word rest) as [|b0 b'] eqn:Eb; [reflexivity|].
  assert (Eb' : take_word (drop_space rest) = b0 :: b') by (rewrite Hnl; exact Eb).
  destruct (word_case f2 rest pos b0 b' Eb' H2 HQ) as [Hd [Hlen [Hw HQ']]].
  rewrite Hnl in Hd, Hlen, Hw, HQ'. rewrite (drop_space_fix_take _ Hnl) in Hd, Hw, HQ'.
  pose proof (take_word_ns rest) as Hns. rewrite Eb in Hns.
  rewrite src_words_go_drop.
  replace (pids k pos offs rest)
    with (pids k pos offs ([] ++ (b0 :: b') ++ take_space (drop_word rest) ++ drop_space (drop_word rest)))
    by (f_equal; symmetry; exact Hd).
  apply (word_step w k offs [] (b0 :: b') (take_space (drop_word rest)) (drop_space (drop_word rest)) pos
           (cell_len (b0 :: b'))).
  - apply all_sp_nil.
  - exact Hns.
  - apply take_space_all.
  - exact Hw.
  - apply (IH f2).
    + lia.
    + lia.
    + apply drop_space_idem.
    + exact HQ'.
Qed.

Lemma core_line s :
  Q 0 (words s) -> breaks_go w (src_words s) (pids k 0 offs s) = true.
Proof.
  intros HQ. unfold src_words. unfold words in HQ.
  destruct (take_word (drop_space s)) as [|b0 b'] eqn:Eb; [reflexivity|].
  destruct (word_case (length s) s 0 b0 b' Eb ltac:(lia) HQ) as [Hd [Hlen [Hw HQ']]].
  pose proof (take_word_ns (drop_space s)) as Hns. rewrite Eb in Hns.
  rewrite src_words_go_drop.
  replace (pids k 0 offs s)
    with (pids k 0 offs (take_space s ++ (b0 :: b') ++ take_space (drop_word (drop_space s))
                          ++ drop_space (drop_word (drop_space s))))
    by (f_equal; symmetry; exact Hd).
  apply (word_step w k offs).
  - apply take_space_all.
  - exact Hns.
  - apply take_space_all.
  - exact Hw.
  - apply (core_go (length s) (length s)).
    + exact Hlen.
    + exact Hlen.
    + apply drop_space_idem.
    + exact HQ'.
Qed.
End Line.

(* step (3): one source line, any string; ids of the pieces cut by divide_line *)
Theorem line_breaks_only_long s w k : 2 <= w ->
  breaks_go w (src_words s) (line_ids k (line_pieces s (divide_line s w true))) = true.
Proof.
  intros Hw.
  destruct (divide_line_shape s w true) as [done [cur [tail [Hs [_ [Hd _]]]]]].
  assert (E : line_pieces s (divide_line s w true) = done ++ [cur ++ tail]).
  { rewrite Hd. rewrite Hs at 1. apply line_pieces_cums. }
  rewrite E. pose proof (line_ids_pids done 0 k (cur ++ tail)) as Hp. unfold str in *.
  rewrite Hp, <- Hs, <- Hd.
  apply core_line. intros o Ho. right.
  destruct (divide_line_breaks_only_long s w o Hw Ho) as [st [e [wd [Hin Hj]]]].
  exists (st, e, wd). split; [exact Hin|exact Hj].
Qed.

(* the pieces of a line carry as many ids as the line has non-whitespace characters *)
Lemma line_ids_pieces_length s w k : 1 <= w ->
  length (line_ids k (line_pieces s (divide_line s w true))) = sumn (src_words s).
Proof.
  intros Hw. rewrite line_ids_length, sumn_src_words.
  rewrite line_pieces_concat by (apply divide_line_sorted; exact Hw). reflexivity.
Qed.

(* ------------------------------------------------------------------ the output of Text.wrap *)
Section D.
Variable S : Type.
Variable seqb : S -> S -> bool.
Variable null : S.
Variable add : S -> S -> S.
Variable fx : fixes.
Arguments plain {S}.

Lemma line_ids_mbl (f h : text S -> text S) : forall L k,
  (forall x, In x L -> nonspace (plain (h (f x))) = nonspace (plain x) /\
                       nonspace (plain (h x)) = nonspace (plain x)) ->
  line_ids k (map plain (map h (map_but_last f L))) = line_ids k (map plain L).
Proof.
  induction L as [|x L IH]; intros k H; [reflexivity|].
  destruct L as [|y L].
  - cbn [map_but_last map line_ids]. rewrite (proj2 (H x (or_introl eq_refl))). reflexivity.
  - change (map_but_last f (x :: y :: L)) with (f x :: map_but_last f (y :: L)).
    cbn [map line_ids]. rewrite (proj1 (H x (or_introl eq_refl))). f_equal.
    apply (IH (k + 1)). intros z Hz. apply H. right. exact Hz.
Qed.

Definition expand1 (ts : Z) (line : text S) : text S :=
  if existsb (fun c => c =? TAB) (plain line) then expand_tabs S seqb fx line ts else line.

(* the output lines of one source line carry the ids of the pieces of the expanded line *)
Lemma wrap_line_ids w j ts (line : text S) k : 2 <= w ->
  line_ids k (map plain (wrap_line S seqb null add fx w j OV_FOLD ts false line)) =
  line_ids k (line_pieces (plain (expand1 ts line)) (divide_line (plain (expand1 ts line)) w true)).
Proof.
  intros Hw. unfold wrap_line. fold (expand1 ts line).
  set (line' := expand1 ts line). clearbody line'.
  replace (OV_FOLD =? OV_FOLD) with true by reflexivity.
  set (offs := divide_line (plain line') w true).
  pose proof (divide_line_lines_fit (plain line') w Hw) as Hfit. fold offs in Hfit.
  rewrite line_pieces_is_pieces_of in Hfit. rewrite <- (divide_plain S seqb fx line' offs) in Hfit.
  rewrite line_pieces_is_pieces_of, <- (divide_plain S seqb fx line' offs).
  rewrite Forall_forall in Hfit.
  destruct (Z.eq_dec j J_FULL) as [->|Hj].
  - unfold justify_lines. cbn [Z.eqb J_FULL J_LEFT J_CENTER J_RIGHT Pos.eqb].
    assert (Hov : OV_FOLD <> OV_ELLIPSIS) by (unfold OV_FOLD, OV_ELLIPSIS; lia).
    rewrite line_ids_mbl.
    + rewrite map_map. apply line_ids_map_ext. intros l _. apply rstrip_end_nonspace.
    + intros x Hx. apply in_map_iff in Hx as [l [<- Hl]].
      assert (Hf : cell_len (rstrip (plain (rstrip_end S w l))) <= w).
      { rewrite rstrip_end_rstrip. apply Hfit. apply in_map. exact Hl. }
      split.
      * rewrite truncate_keeps; [apply justify_full_nonspace|lia|exact Hov|].
        apply justify_full_fits; [lia|exact Hf].
      * apply truncate_keeps; [lia|exact Hov|exact Hf].
  - rewrite justify_lines_map by exact Hj. rewrite !map_map.
    apply line_ids_map_ext. intros l Hl.
    change (nonspace (plain (post1 S fx w j l)) = nonspace (plain l)).
    apply post1_keeps; [lia|]. apply Hfit. apply in_map. exact Hl.
Qed.

Theorem wrap_breaks_only_long : forall (t : text S) w j ts, 2 <= w ->
  breaks_only_long_b w (map plain (expanded_lines S seqb fx t ts))
                       (map plain (wrap S seqb null add fx t w j OV_FOLD ts false)) = true.
Proof.
  intros t w j ts Hw. unfold breaks_only_long_b, wrap, expanded_lines.
  replace (false || (OV_FOLD =? OV_IGNORE)) with false by reflexivity.
  fold (expand1 ts).
  set (lines := split S seqb fx t NL false true). clearbody lines.
  generalize 0 as k.
  induction lines as [|l lines IH]; intros k; [reflexivity|].
  cbn [map concat]. rewrite map_app, line_ids_app.
  apply breaks_go_app.
  - rewrite wrap_line_ids by exact Hw. apply line_ids_pieces_length. lia.
  - rewrite wrap_line_ids by exact Hw. apply line_breaks_only_long. exact Hw.
  - apply IH.
Qed.
End D.
