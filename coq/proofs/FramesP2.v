(* C08, part 2: Padding, Panel, Align, Constrain, Styled -- exact rectangles around intact content. *)
From RichModel Require Import Prelude Cells Segments SpecCells Frames SpecFrames.
From RichGen Require Import FrameBoxes.
From RichProofs Require Import CellsP SegmentsP SegmentsP2 FramesP.
From Coq Require Import ZifyBool.

(* ---------------------------------------------------------------- lines, flat form *)
Lemma fl_len_app a b : fl_len (a ++ b) = fl_len a + fl_len b.
Proof. unfold fl_len. rewrite map_app. apply sumZ_app. Qed.

Lemma fl_len_map_style (s : str) (st : option Z) : fl_len (map (fun c => (c, st)) s) = cell_len s.
Proof. unfold fl_len, cell_len. rewrite map_map. reflexivity. Qed.

Lemma fl_len_flat (l : line) : fl_len (flat l) = line_len l.
Proof.
  induction l as [|g l IH]; [reflexivity|].
  rewrite flat_cons, fl_len_app, IH, line_len_cons. unfold seg_len.
  destruct (ctl g); [reflexivity|]. rewrite fl_len_map_style. reflexivity.
Qed.

Definition spfl (k : Z) (st : option Z) : fl := map (fun c => (c, st)) (spaces k).

Lemma flat_space_seg k st : flat [mkSeg (spaces k) st false] = spfl k st.
Proof. rewrite flat_single. reflexivity. Qed.

Lemma spfl_spaces k st : forallb (fun cs : Z * option Z => fst cs =? SP) (spfl k st) = true.
Proof.
  apply forallb_forall. intros x Hx. apply in_map_iff in Hx as [c [<- Hc]].
  apply repeat_spec in Hc. subst. reflexivity.
Qed.

Lemma fl_chars_spfl k st : fl_chars (spfl k st) = spaces k.
Proof. unfold fl_chars, spfl. rewrite map_map. cbn [fst]. apply map_id. Qed.

(* ---------------------------------------------------------------- the row checker *)
Lemma strip_chars_app (L X : fl) : strip_chars (fl_chars L) (L ++ X) = Some X.
Proof.
  induction L as [|a L IH]; [reflexivity|]. cbn [fl_chars map app strip_chars].
  rewrite Z.eqb_refl. exact IH.
Qed.

Lemma strip_exact_app (A X : fl) : strip_exact A (A ++ X) = Some X.
Proof.
  induction A as [|a A IH]; [reflexivity|]. cbn [app strip_exact]. rewrite cs_eqb_refl. exact IH.
Qed.

Lemma firstn_len_app {A} (a b : list A) n : length a = n -> firstn n (a ++ b) = a.
Proof. intros <-. rewrite firstn_app, Nat.sub_diag, firstn_all. cbn. apply app_nil_r. Qed.

Lemma skipn_len_app {A} (a b : list A) n : length a = n -> skipn n (a ++ b) = b.
Proof. intros <-. rewrite skipn_app, Nat.sub_diag, skipn_all. reflexivity. Qed.

Lemma row_ok_intro (L child M R : fl) :
  forallb (fun cs : Z * option Z => fst cs =? SP) M = true ->
  row_ok_b (fl_chars L) (fl_chars R) child (L ++ child ++ M ++ R) = true.
Proof.
  intros HM. unfold row_ok_b. rewrite strip_chars_app, strip_exact_app.
  assert (E : (length (M ++ R) - length (fl_chars R))%nat = length M).
  { unfold fl_chars. rewrite app_length, map_length. lia. }
  rewrite E, firstn_len_app, skipn_len_app by reflexivity.
  rewrite HM, str_eqb_refl. unfold fl_chars at 1. rewrite map_length, app_length.
  replace (length R <=? length M + length R)%nat with true by (symmetry; apply Nat.leb_le; lia).
  reflexivity.
Qed.

Lemma all2_length {X Y} (f : X -> Y -> bool) : forall la lb, all2 f la lb = true -> length la = length lb.
Proof.
  induction la as [|a la IH]; intros [|b lb] H; cbn in *; try discriminate; [reflexivity|].
  apply andb_true_iff in H as [_ H]. f_equal. apply IH. exact H.
Qed.

Lemma all2_map_same {X A B} (f : A -> B -> bool) (g : X -> A) (h : X -> B) (l : list X) :
  (forall x, In x l -> f (g x) (h x) = true) -> all2 f (map g l) (map h l) = true.
Proof.
  induction l as [|x l IH]; intros H; [reflexivity|]. cbn [map all2].
  rewrite H by (left; reflexivity). apply IH. intros y Hy. apply H. right. exact Hy.
Qed.

(* assembling the rectangle checker *)
Lemma frame_ok_intro expect_w (tops rows bots child_lines : list fl) lstr rstr w nt nb :
  length tops = nt -> length bots = nb ->
  Forall (fun l => fl_len l = w) (tops ++ rows ++ bots) ->
  match expect_w with Some W => w = W | None => True end ->
  all2 (row_ok_b lstr rstr) child_lines rows = true ->
  frame_ok_b expect_w nt nb lstr rstr None None child_lines
             (tops ++ rows ++ bots) = true.
Proof.
  intros <- <- HF HW HR. pose proof (all2_length _ _ _ HR) as HL.
  unfold frame_ok_b. cbn [rows_text_b]. rewrite !andb_true_r.
  set (lines := tops ++ rows ++ bots) in *.
  assert (Hw0 : match lines with [] => True | l :: _ => fl_len l = w end).
  { destruct lines; [exact Logic.I|]. inversion HF. assumption. }
  apply andb_true_iff. split; [apply andb_true_iff; split; [apply andb_true_iff; split|]|].
  - apply forallb_forall. intros x Hx. rewrite Forall_forall in HF. specialize (HF x Hx).
    destruct lines as [|l0 ls]; [destruct Hx|]. lia.
  - destruct expect_w as [W|]; [|reflexivity]. destruct lines as [|l0 ls]; [reflexivity|]. lia.
  - apply Nat.eqb_eq. unfold lines. rewrite !app_length. lia.
  - unfold lines. rewrite skipn_len_app by reflexivity. rewrite firstn_len_app by lia. exact HR.
Qed.

(* ---------------------------------------------------------------- adjust_line_length facts *)
Lemma adjust_len_true (l : line) n ps : 0 <= n -> line_len (adjust_line_length l n ps true) = n.
Proof.
  intros Hn. pose proof (adjust_line_length_spec l n ps true Hn) as H. unfold adjust_ok_b in H.
  apply andb_true_iff in H as [H _]. apply andb_true_iff in H as [H _]. cbn [orb] in H. lia.
Qed.

Lemma adjust_len_false (l : line) n ps : 0 <= n -> line_len (adjust_line_length l n ps false) <= n.
Proof.
  intros Hn. pose proof (adjust_line_length_spec l n ps false Hn) as H. unfold adjust_ok_b in H.
  apply andb_true_iff in H as [H _]. apply andb_true_iff in H as [H _]. cbn [orb] in H.
  destruct (n <=? line_len l) eqn:E; lia.
Qed.

Definition padseg (l : line) n (ps : option Z) : line :=
  if line_len l <? n then [mkSeg (spaces (n - line_len l)) ps false] else [].

Lemma adjust_true_false (l : line) n ps :
  adjust_line_length l n ps true = adjust_line_length l n ps false ++ padseg l n ps.
Proof.
  unfold adjust_line_length, padseg. destruct (line_len l <? n); [reflexivity|].
  destruct (n <? line_len l); symmetry; apply app_nil_r.
Qed.

Lemma adjust_fits (l : line) n ps : line_len l <= n -> adjust_line_length l n ps true = l ++ padseg l n ps.
Proof.
  intros H. unfold adjust_line_length, padseg. destruct (line_len l <? n) eqn:E; [reflexivity|].
  destruct (n <? line_len l) eqn:E2; [lia|]. symmetry. apply app_nil_r.
Qed.

Lemma flat_padseg l n ps : exists k, flat (padseg l n ps) = spfl k ps.
Proof.
  unfold padseg. destruct (line_len l <? n).
  - eexists. apply flat_space_seg.
  - exists 0. reflexivity.
Qed.

(* split_and_crop_lines = adjust_line_length mapped over split_lines *)
Lemma sac_eq_map (segs : list segZ) n ps pad :
  split_and_crop_lines false segs n ps pad false =
  map (fun l => adjust_line_length l n ps pad) (split_lines segs).
Proof.
  unfold split_and_crop_lines, split_lines.
  destruct (sac_go_rel n ps pad false segs [] []) as [Dfin [last [H1 H2]]]. cbn [map] in H2.
  rewrite H1, H2. rewrite map_rev. f_equal.
  unfold G, A. destruct last; cbn [opt_cons option_map map]; reflexivity.
Qed.

Lemma set_shape_go_map (lines : list line) w st : forall k, (k <= length lines)%nat ->
  set_shape_go Z lines w k st = map (fun l => adjust_line_length l w st true) lines.
Proof.
  induction lines as [|l lines IH]; intros k Hk; cbn [set_shape_go map].
  - cbn in Hk. replace k with 0%nat by lia. reflexivity.
  - f_equal. apply IH. cbn in Hk. lia.
Qed.

Lemma set_shape_none (lines : list line) w st :
  set_shape lines w None st = map (fun l => adjust_line_length l w st true) lines.
Proof. unfold set_shape. apply set_shape_go_map. apply le_n. Qed.

Lemma render_lines_eq c w st pad :
  render_lines c w st pad =
  map (fun l => adjust_line_length l w None pad)
      (split_lines (match st with Some s => apply_style s (render_at c w) | None => render_at c w end)).
Proof. unfold render_lines. apply sac_eq_map. Qed.

Lemma render_lines_false_len c w st l : 0 <= w -> In l (render_lines c w st false) -> line_len l <= w.
Proof.
  intros Hw H. rewrite render_lines_eq in H. apply in_map_iff in H as [x [<- _]].
  apply adjust_len_false. exact Hw.
Qed.

Lemma measurement_get_nonneg c w : 0 <= snd (measurement_get c w).
Proof.
  unfold measurement_get. destruct (w <? 1); [cbn; lia|].
  destruct (snd (m_with_maximum w (m_normalize (cmeasure c w))) <? 1); [cbn; lia|].
  unfold m_normalize at 1. destruct (m_with_maximum w (m_normalize (cmeasure c w))) as [a b]. cbn [snd]. lia.
Qed.

(* ---------------------------------------------------------------- Padding *)
Lemma Forall_app_intro {A} (P : A -> Prop) a b : Forall P a -> Forall P b -> Forall P (a ++ b).
Proof. intros. apply Forall_app. split; assumption. Qed.

Lemma line_len_opt_space k st : 0 <= k ->
  line_len (if k =? 0 then @nil segZ else [mkSeg (spaces k) st false]) = k.
Proof.
  intros H. destruct (k =? 0) eqn:E; [cbn; lia|]. rewrite line_len_single. unfold seg_len. cbn [ctl txt].
  apply cell_len_spacesZ. exact H.
Qed.

Lemma flat_opt_space k st : flat (if k =? 0 then @nil segZ else [mkSeg (spaces k) st false]) = spfl k st.
Proof.
  destruct (k =? 0) eqn:E; [|apply flat_space_seg]. assert (k = 0) by lia. subst. reflexivity.
Qed.

Lemma map_repeat {A B} (f : A -> B) x n : map f (repeat x n) = repeat (f x) n.
Proof. induction n; cbn; [reflexivity|]. f_equal. exact IHn. Qed.

(* Padding draws an exact rectangle: `width` cells in every line (= W when expanding), t blank lines,
   the child's lines (as rendered alone at the inner width, in the padding's style) unchanged and in
   order between l and r spaces, b blank lines. *)
Theorem padding_rect : forall c t r b l st expand W,
  0 <= l -> 0 <= r -> l + r <= W ->
  let width := padding_width c r l expand W in
  frame_ok_b (if expand then Some W else None) (Z.to_nat t) (Z.to_nat b) (spaces l) (spaces r) None None
             (map flat (render_lines c (width - l - r) (Some st) false))
             (map flat (padding_lines c t r b l st expand W)) = true.
Proof.
  intros c t r b l st expand W Hl Hr HW width.
  assert (Hwid : l + r <= width).
  { unfold width, padding_width. destruct expand; [lia|]. pose proof (measurement_get_nonneg c W). lia. }
  unfold padding_lines. fold width. set (cw := width - l - r). assert (Hcw : 0 <= cw) by (unfold cw; lia).
  set (CL := render_lines c cw (Some st) false).
  rewrite set_shape_none, !map_app, !map_map.
  set (blank := [mkSeg (spaces width) st false]).
  set (left := if l =? 0 then [] else [mkSeg (spaces l) st false]).
  set (right := if r =? 0 then [] else [mkSeg (spaces r) st false]).
  rewrite !map_repeat.
  rewrite <- (fl_chars_spfl l st), <- (fl_chars_spfl r st).
  apply frame_ok_intro with (w := width); [apply repeat_length|apply repeat_length| | |].
  - assert (Hb : fl_len (flat blank) = width).
    { rewrite fl_len_flat. unfold blank. rewrite line_len_single. unfold seg_len. cbn [ctl txt].
      apply cell_len_spacesZ. lia. }
    apply Forall_app_intro; [apply Forall_repeat; exact Hb|].
    apply Forall_app_intro; [|apply Forall_repeat; exact Hb].
    apply Forall_forall. intros x Hx. apply in_map_iff in Hx as [cl [<- Hcl]].
    rewrite fl_len_flat, !line_len_app, adjust_len_true by exact Hcw.
    unfold left, right. rewrite !line_len_opt_space by assumption. unfold cw. lia.
  - destruct expand; [reflexivity|exact Logic.I].
  - rewrite <- (map_map (fun x => x) flat) at 1. rewrite map_id. fold CL.
    apply all2_map_same. intros cl Hcl.
    pose proof (render_lines_false_len c cw (Some st) cl Hcw Hcl) as Hlen.
    rewrite adjust_fits by exact Hlen. rewrite !flat_app.
    destruct (flat_padseg cl cw st) as [k ->].
    unfold left, right. rewrite !flat_opt_space. rewrite <- app_assoc.
    apply row_ok_intro. apply spfl_spaces.
Qed.

(* ---------------------------------------------------------------- Panel *)
Lemma boxes_w1 : forallb (forallb (forallb (fun c => char_size c =? 1))) BOXES = true.
Proof. vm_compute. reflexivity. Qed.

Lemma nth_P {A} (P : A -> Prop) (l : list A) d n : Forall P l -> P d -> P (nth n l d).
Proof.
  intros HF Hd. destruct (nth_in_or_default n l d) as [H|H]; [|rewrite H; exact Hd].
  rewrite Forall_forall in HF. apply HF. exact H.
Qed.

Lemma box_char_w1 b ln col : w1 (box_char b ln col).
Proof.
  unfold box_char. pose proof boxes_w1 as H.
  assert (HB : Forall (Forall (Forall w1)) BOXES).
  { apply Forall_forall. intros x Hx. rewrite forallb_forall in H. specialize (H x Hx).
    apply Forall_forall. intros y Hy. rewrite forallb_forall in H. specialize (H y Hy).
    apply Forall_forall. intros z Hz. rewrite forallb_forall in H. specialize (H z Hz). unfold w1. lia. }
  apply nth_P; [|vm_compute; reflexivity].
  apply nth_P; [|constructor].
  unfold nthZ. destruct (b <? 0); [constructor|]. apply nth_P; [exact HB|constructor].
Qed.

Lemma cell_len_py_repeat ch k : w1 ch -> 0 <= k -> cell_len (py_repeat ch k) = k.
Proof.
  intros Hc Hk. rewrite cell_len_w1 by (apply Forall_repeat; exact Hc). apply zlen_py_repeat. exact Hk.
Qed.

Lemma text_align_len s how w ch : w1 ch -> 0 <= w -> cell_len (text_align s how w ch) = w.
Proof.
  intros Hc Hw. unfold text_align. pose proof (truncate_fold_le s w Hw) as Ht.
  set (s' := truncate_fold s w) in *. set (ex := w - cell_len s').
  destruct (ex =? 0) eqn:E0; [lia|].
  assert (Hex : 0 < ex) by lia.
  destruct (how =? 0); [rewrite cell_len_app, cell_len_py_repeat by (assumption || lia); lia|].
  destruct (how =? 1).
  - assert (0 <= ex / 2 <= ex) by (split; [apply Z.div_pos; lia|apply Z.div_le_upper_bound; lia]).
    rewrite !cell_len_app, !cell_len_py_repeat by (assumption || lia). lia.
  - rewrite cell_len_app, cell_len_py_repeat by (assumption || lia). lia.
Qed.

Lemma box_edge_len (a bch z : Z) k : w1 a -> w1 bch -> w1 z -> 0 <= k ->
  cell_len (a :: py_repeat bch k ++ [z]) = k + 2.
Proof.
  intros Ha Hb Hz Hk. rewrite cell_len_cons, cell_len_app, cell_len_py_repeat by assumption.
  rewrite Ha. change (cell_len [z]) with (char_size z + 0). rewrite Hz. lia.
Qed.

Lemma line_len_seg1 (s : str) (st : option Z) : line_len [mkSeg s st false] = cell_len s.
Proof. rewrite line_len_single. reflexivity. Qed.

(* Panel without padding (the padded case composes with padding_rect, see panel_inner):
   every line is exactly child_width + 2 cells; one top row, the child's lines (as rendered alone at
   child_width in the panel's style) unchanged and in order between the two border characters,
   one bottom row.  With a title the structural minimum is child_width >= 2. *)
Theorem panel_rect : forall c o W cW,
  p_pad o = (0, 0, 0, 0) ->
  let cwid := panel_child_width c o W in
  0 <= cwid ->
  (p_title o <> [] -> 2 <= cwid /\ cwid - 2 <= cW) ->
  let box := box_substitute (p_box o) (p_legacy o) (p_safe o) (p_ascii o) in
  frame_ok_b (Some (cwid + 2)) 1 1 [box_char box 3 0] [box_char box 3 3] None None
             (map flat (render_lines c cwid (Some (p_style o)) false))
             (map flat (panel_lines false c o W cW)) = true.
Proof.
  intros c o W cW Hpad cwid Hc Ht box.
  unfold panel_lines. fold cwid. fold box.
  assert (Hin : panel_inner c o = c) by (unfold panel_inner; rewrite Hpad; reflexivity).
  rewrite Hin. replace (cwid + 2 - 2) with cwid by lia. replace (cwid + 2 - 4) with (cwid - 2) by lia.
  set (bs := p_border o).
  set (top := match p_title o with [] => _ | _ => _ end).
  rewrite !render_lines_eq.
  set (S := split_lines (apply_style (p_style o) (render_at c cwid))).
  cbn [map]. rewrite map_app. cbn [map]. rewrite !map_map.
  change (flat top :: ?x ++ [?y]) with ([flat top] ++ x ++ [y]).
  apply frame_ok_intro with (w := cwid + 2); [reflexivity|reflexivity| | |].
  - apply Forall_app_intro; [|apply Forall_app_intro].
    + constructor; [|constructor]. rewrite fl_len_flat. unfold top.
      destruct (p_title o) as [|t0 title] eqn:ET.
      * rewrite line_len_seg1. unfold box_top. apply box_edge_len; try apply box_char_w1. exact Hc.
      * destruct Ht as [Ht1 Ht2]; [discriminate|].
        change (line_len [?a; ?b; ?d]) with (seg_len a + (seg_len b + (seg_len d + 0))).
        unfold seg_len. cbn [ctl txt]. unfold text_line.
        rewrite truncate_fold_id; rewrite text_align_len by (apply box_char_w1 || lia); [|lia].
        rewrite !cell_len_cons. change (cell_len []) with 0.
        rewrite !(box_char_w1 box). lia.
    + apply Forall_forall. intros x Hx. apply in_map_iff in Hx as [ln [<- _]].
      rewrite fl_len_flat, line_len_cons, line_len_app, adjust_len_true, line_len_seg1 by exact Hc.
      unfold seg_len. cbn [ctl txt]. rewrite !cell_len_cons. change (cell_len []) with 0.
      rewrite !(box_char_w1 box). lia.
    + constructor; [|constructor]. rewrite fl_len_flat, line_len_seg1. unfold box_bottom.
      apply box_edge_len; try apply box_char_w1. exact Hc.
  - reflexivity.
  - apply all2_map_same. intros x _.
    rewrite adjust_true_false.
    rewrite flat_cons. cbn [ctl txt sty map]. rewrite !flat_app. destruct (flat_padseg x cwid None) as [k ->].
    rewrite flat_single. cbn [ctl txt sty map]. rewrite <- app_assoc.
    apply (row_ok_intro [(box_char box 3 0, bs)] _ _ [(box_char box 3 3, bs)]). apply spfl_spaces.
Qed.

(* expanding panels without a requested width are exactly as wide as the space they are given *)
Lemma panel_expand_width c o W : p_expand o = true -> p_width o = None -> panel_child_width c o W + 2 = W.
Proof.
  intros He Hw. unfold panel_child_width. rewrite He, Hw. destruct (p_title o); lia.
Qed.

(* rich 9.10.0 as found: the title goes through Text.wrap; zero-width characters in the title make the
   top row one cell shorter than the body (W = 20, Panel.fit("x", title="a" + 20 combining marks)) *)
Definition zw_child : child :=
  mkChild (fun _ => (1, 1)) (fun _ => [mkSeg [120] None false; mkSeg [NL] None false]).
Definition zw_panel : panel_opts :=
  mkPanel BOX_ROUNDED_INDEX true false false (97 :: repeat 769 20) 1 false None (0, 0, 0, 0) None None.

Theorem panel_asis_refuted :
  frame_ok_b None 1 1 [9474] [9474] None None
             (map flat (render_lines zw_child (panel_child_width zw_child zw_panel 20) (Some None) false))
             (map flat (panel_lines true zw_child zw_panel 20 20)) = false
  /\ frame_ok_b None 1 1 [9474] [9474] None None
             (map flat (render_lines zw_child (panel_child_width zw_child zw_panel 20) (Some None) false))
             (map flat (panel_lines false zw_child zw_panel 20 20)) = true.
Proof. split; vm_compute; reflexivity. Qed.

(* ---------------------------------------------------------------- Align *)
Definition restyle (s : style) (cs : Z * option Z) : Z * option Z := (fst cs, sadd s (snd cs)).

Lemma flat_apply_style s (l : line) : flat (apply_style s l) = map (restyle s) (flat l).
Proof.
  induction l as [|g l IH]; [reflexivity|].
  cbn [apply_style map]. rewrite !flat_cons. cbn [ctl txt sty]. rewrite map_app.
  fold (apply_style s l). rewrite IH. destruct (ctl g); [reflexivity|].
  rewrite map_map. reflexivity.
Qed.

Lemma fl_chars_map_restyle s (x : fl) : fl_chars (map (restyle s) x) = fl_chars x.
Proof. unfold fl_chars. rewrite map_map. reflexivity. Qed.

Lemma fl_len_map_restyle s (x : fl) : fl_len (map (restyle s) x) = fl_len x.
Proof. unfold fl_len. rewrite map_map. reflexivity. Qed.

Lemma spaces_map_restyle s (M : fl) :
  forallb (fun cs : Z * option Z => fst cs =? SP) M = true ->
  forallb (fun cs : Z * option Z => fst cs =? SP) (map (restyle s) M) = true.
Proof.
  intros H. apply forallb_forall. intros x Hx. apply in_map_iff in Hx as [y [<- Hy]].
  rewrite forallb_forall in H. apply (H y Hy).
Qed.

(* optional overlay of Align.style *)
Definition overlay (ast : option style) (l : line) : line :=
  match ast with Some s => apply_style s l | None => l end.

Lemma row_ok_overlay ast (L child M R : line) :
  forallb (fun cs : Z * option Z => fst cs =? SP) (flat M) = true ->
  row_ok_b (fl_chars (flat L)) (fl_chars (flat R)) (flat (overlay ast child))
           (flat (overlay ast (L ++ child ++ M ++ R))) = true.
Proof.
  intros HM. destruct ast as [s|]; cbn [overlay].
  - rewrite !flat_apply_style, !flat_app, !map_app.
    rewrite <- (fl_chars_map_restyle s (flat L)), <- (fl_chars_map_restyle s (flat R)).
    apply row_ok_intro. apply spaces_map_restyle. exact HM.
  - rewrite !flat_app. apply row_ok_intro. exact HM.
Qed.

Lemma fl_len_overlay ast (l : line) : fl_len (flat (overlay ast l)) = line_len l.
Proof.
  destruct ast as [s|]; cbn [overlay]; [rewrite flat_apply_style, fl_len_map_restyle|]; apply fl_len_flat.
Qed.

Definition align_left (how excess : Z) : Z :=
  if excess <=? 0 then 0 else if how =? 0 then 0 else if how =? 1 then excess / 2 else excess.
Definition align_right (how : Z) (pad : bool) (excess : Z) : Z :=
  if excess <=? 0 then 0
  else if how =? 0 then (if pad then excess else 0)
  else if how =? 1 then (if pad then excess - excess / 2 else 0) else 0.

Lemma get_shape_max (lines : list line) l : In l lines -> line_len l <= fst (get_shape lines).
Proof.
  unfold get_shape. cbn [fst]. induction lines as [|x lines IH]; intros H; [destruct H|].
  cbn [map fold_right]. destruct H as [->|H]; [lia|]. specialize (IH H). lia.
Qed.

Lemma get_shape_nonneg (lines : list line) : 0 <= fst (get_shape lines).
Proof. unfold get_shape. cbn [fst]. induction lines; cbn [map fold_right]; lia. Qed.

Lemma line_len_spaces_seg k (st : option Z) : 0 <= k -> line_len [mkSeg (spaces k) st false] = k.
Proof. intros H. rewrite line_len_seg1. apply cell_len_spacesZ. exact H. Qed.

Lemma flat_spaces_seg_chars k (st : option Z) : fl_chars (flat [mkSeg (spaces k) st false]) = spaces k.
Proof. rewrite flat_space_seg. apply fl_chars_spfl. Qed.

(* Align: the child's block (its own lines at the inner width, made rectangular to its widest line w)
   sits between exactly `left` and `right` spaces: left 0 / excess//2 / excess, right the remainder when
   padding.  Every line is left + w + right cells wide; the child's lines are unchanged and in order. *)
Theorem align_rect : forall c how pad awidth ast W cW, 1 <= W ->
  let inner := Z.min (match awidth with None => snd (measurement_get c cW)
                                     | Some aw => Z.min (snd (measurement_get c cW)) aw end) W in
  let CL := split_lines (render_at c inner) in
  let w := fst (get_shape CL) in
  let left := align_left how (W - w) in
  let right := align_right how pad (W - w) in
  frame_ok_b (Some (left + w + right)) 0 0 (spaces left) (spaces right) None None
             (map (fun l => flat (overlay ast l)) CL)
             (map flat (align_lines c how pad awidth ast W cW)) = true.
Proof.
  intros c how pad awidth ast W cW HW inner CL w left right.
  unfold align_lines. unfold constrain_render. destruct (W <? 1) eqn:EW; [lia|].
  fold inner. fold CL.
  pose proof (get_shape_nonneg CL) as Hw0. fold w in Hw0.
  assert (EG : get_shape CL = (w, zlen CL)) by reflexivity.
  rewrite EG. set (h := zlen CL).
  assert (ES : set_shape CL w (Some h) None = map (fun l => adjust_line_length l w None true) CL).
  { unfold set_shape. apply set_shape_go_map. unfold h, zlen. rewrite Nat2Z.id. apply le_n. }
  rewrite ES.
  set (st := match ast with Some s => s | None => None end).
  set (ex := W - w) in *.
  (* every output line is  overlay (L ++ adj cl ++ R)  for fixed L, R *)
  set (L := if left =? 0 then @nil segZ else [mkSeg (spaces left) st false]).
  set (R := if right =? 0 then @nil segZ else [mkSeg (spaces right) st false]).
  assert (Hl : 0 <= left /\ 0 <= right).
  { unfold left, right, align_left, align_right. fold ex. destruct (ex <=? 0) eqn:E; [lia|].
    assert (0 <= ex / 2 <= ex) by (split; [apply Z.div_pos; lia|apply Z.div_le_upper_bound; lia]).
    destruct (how =? 0), (how =? 1), pad; lia. }
  assert (Eout :
      (if ex <=? 0 then map (fun l => adjust_line_length l w None true) CL
       else if how =? 0
            then map (fun ln => if pad then ln ++ [mkSeg (spaces ex) st false] else ln)
                     (map (fun l => adjust_line_length l w None true) CL)
            else if how =? 1
                 then map (fun ln => (if ex / 2 =? 0 then [] else [mkSeg (spaces (ex / 2)) st false]) ++ ln ++
                                     (if pad then [mkSeg (spaces (ex - ex / 2)) st false] else []))
                          (map (fun l => adjust_line_length l w None true) CL)
                 else map (fun ln => mkSeg (spaces ex) st false :: ln)
                          (map (fun l => adjust_line_length l w None true) CL))
    = map (fun cl => L ++ adjust_line_length cl w None true ++ R) CL).
  { assert (G : forall f : line -> line,
              (forall cl, f (adjust_line_length cl w None true) = L ++ adjust_line_length cl w None true ++ R) ->
              map f (map (fun l => adjust_line_length l w None true) CL)
              = map (fun cl => L ++ adjust_line_length cl w None true ++ R) CL).
    { intros f Hf. rewrite map_map. apply map_ext; intros cl; rewrite Hf; reflexivity. }
    destruct (ex <=? 0) eqn:E0.
    - rewrite <- (map_id (map (fun l => adjust_line_length l w None true) CL)) at 1.
      apply G. intros cl. unfold L, R, left, right, align_left, align_right. rewrite E0.
      cbn. symmetry. apply app_nil_r.
    - assert (Hex : 0 < ex) by lia.
      destruct (how =? 0) eqn:H0.
      + apply G. intros cl. unfold L, R, left, right, align_left, align_right. rewrite E0, H0. destruct pad.
        * replace (ex =? 0) with false by lia. reflexivity.
        * cbn. symmetry. apply app_nil_r.
      + destruct (how =? 1) eqn:H1.
        * apply G. intros cl. unfold L, R, left, right, align_left, align_right. rewrite E0, H0, H1.
          destruct pad.
          -- assert (ex - ex / 2 <> 0).
             { assert (ex / 2 < ex) by (apply Z.div_lt_upper_bound; lia). lia. }
             replace (ex - ex / 2 =? 0) with false by lia. reflexivity.
          -- cbn [Z.eqb]. reflexivity.
        * apply G. intros cl. unfold L, R, left, right, align_left, align_right. rewrite E0, H0, H1.
          replace (ex =? 0) with false by lia. cbn. rewrite app_nil_r. reflexivity. }
  rewrite Eout.
  match goal with |- context [map flat ?M] =>
    replace M with (map (fun cl => overlay ast (L ++ adjust_line_length cl w None true ++ R)) CL)
      by (destruct ast; [rewrite map_map|]; reflexivity) end.
  rewrite map_map.
  replace (spaces left) with (fl_chars (flat L)) by (unfold L; rewrite flat_opt_space; apply fl_chars_spfl).
  replace (spaces right) with (fl_chars (flat R)) by (unfold R; rewrite flat_opt_space; apply fl_chars_spfl).
  pose proof (frame_ok_intro (Some (left + w + right)) [] 
               (map (fun x => flat (overlay ast (L ++ adjust_line_length x w None true ++ R))) CL) []
               (map (fun l => flat (overlay ast l)) CL) (fl_chars (flat L)) (fl_chars (flat R))
               (left + w + right) 0%nat 0%nat eq_refl eq_refl) as F.
  cbn [app] in F. rewrite app_nil_r in F. apply F; clear F.
  - apply Forall_forall. intros x Hx. apply in_map_iff in Hx as [cl [<- Hcl]].
    rewrite fl_len_overlay, !line_len_app, adjust_len_true by exact Hw0.
    unfold L, R. rewrite !line_len_opt_space by lia. lia.
  - reflexivity.
  - apply all2_map_same. intros cl Hcl.
    pose proof (get_shape_max CL cl Hcl) as Hlen. rewrite EG in Hlen. cbn [fst] in Hlen.
    rewrite adjust_fits by exact Hlen. rewrite <- app_assoc.
    apply row_ok_overlay. destruct (flat_padseg cl w None) as [k ->]. apply spfl_spaces.
Qed.

(* ---------------------------------------------------------------- Constrain, Styled: transparent *)
Theorem constrain_styled_transparent : forall c cw st W, 1 <= W ->
  constrain_render c cw W = render_at c (match cw with None => W | Some x => Z.min x W end)
  /\ map (@txt Z) (styled_render c st W) = map (@txt Z) (render_at c W)
  /\ map (@ctl Z) (styled_render c st W) = map (@ctl Z) (render_at c W)
  /\ same_chars_b (map flat (split_lines (render_at c W))) (map flat (split_lines (styled_render c st W))) = true.
Proof.
  intros c cw st W HW. unfold constrain_render, styled_render. destruct (W <? 1) eqn:E; [lia|].
  split; [destruct cw; reflexivity|].
  assert (T : map (@txt Z) (apply_style st (render_at c W)) = map (@txt Z) (render_at c W))
    by (unfold apply_style; rewrite map_map; reflexivity).
  assert (C : map (@ctl Z) (apply_style st (render_at c W)) = map (@ctl Z) (render_at c W))
    by (unfold apply_style; rewrite map_map; reflexivity).
  split; [exact T|split; [exact C|]].
  (* line by line the characters are the same: compare through a style-erasing projection *)
  set (segs := render_at c W).
  assert (G : forall (l : list segZ) line D,
     map (map (fun g => (txt g, ctl g))) (split_lines_go Z (apply_style st l) (apply_style st line) (map (apply_style st) D))
     = map (map (fun g => (txt g, ctl g))) (split_lines_go Z l line D)).
  { assert (ST : forall fuel text s1 s2 (line1 line2 : list segZ) D1 D2,
        map (fun g => (txt g, ctl g)) line1 = map (fun g => (txt g, ctl g)) line2 ->
        map (map (fun g => (txt g, ctl g))) D1 = map (map (fun g => (txt g, ctl g))) D2 ->
        let r1 := split_text Z fuel text s1 line1 D1 in
        let r2 := split_text Z fuel text s2 line2 D2 in
        map (fun g => (txt g, ctl g)) (fst r1) = map (fun g => (txt g, ctl g)) (fst r2) /\
        map (map (fun g => (txt g, ctl g))) (snd r1) = map (map (fun g => (txt g, ctl g))) (snd r2)).
    { induction fuel as [|f IH]; intros text s1 s2 line1 line2 D1 D2 H1 H2; cbn zeta; [split; assumption|].
      cbn [split_text]. destruct text as [|c0 text]; [split; assumption|].
      destruct (partition_nl (c0 :: text)) as [[a nl] b].
      assert (H1' : map (fun g => (txt g, ctl g)) (match a with [] => line1 | _ => mkSeg a s1 false :: line1 end)
                  = map (fun g => (txt g, ctl g)) (match a with [] => line2 | _ => mkSeg a s2 false :: line2 end)).
      { destruct a; [exact H1|]. cbn [map txt ctl]. f_equal. exact H1. }
      destruct nl.
      - apply IH; [reflexivity|]. cbn [map]. f_equal; [|exact H2]. rewrite !map_rev. f_equal. exact H1'.
      - apply IH; assumption. }
    assert (GO : forall (l : list segZ) line1 line2 D1 D2,
        map (fun g => (txt g, ctl g)) line1 = map (fun g => (txt g, ctl g)) line2 ->
        map (map (fun g => (txt g, ctl g))) D1 = map (map (fun g => (txt g, ctl g))) D2 ->
        map (map (fun g => (txt g, ctl g))) (split_lines_go Z (apply_style st l) line1 D1)
        = map (map (fun g => (txt g, ctl g))) (split_lines_go Z l line2 D2)).
    { induction l as [|g l IH]; intros line1 line2 D1 D2 H1 H2.
      - cbn [apply_style map split_lines_go]. rewrite !map_rev. f_equal.
        destruct line1, line2; try discriminate; [exact H2|].
        cbn [map]. f_equal; [|exact H2]. rewrite !map_rev. f_equal. exact H1.
      - cbn [apply_style map split_lines_go]. cbn [txt ctl sty]. fold (apply_style st l).
        destruct (has_nl (txt g) && negb (ctl g)).
        + pose proof (ST (S (length (txt g))) (txt g) (if ctl g then None else sadd st (sty g)) (sty g)
                         line1 line2 D1 D2 H1 H2) as [P1 P2]. cbn zeta in P1, P2.
          destruct (split_text Z (S (length (txt g))) (txt g) (if ctl g then None else sadd st (sty g)) line1 D1).
          destruct (split_text Z (S (length (txt g))) (txt g) (sty g) line2 D2).
          apply IH; assumption.
        + apply IH; [|exact H2]. cbn [map txt ctl]. f_equal. exact H1. }
    intros l line D. apply GO.
    - unfold apply_style. rewrite map_map. reflexivity.
    - rewrite map_map. apply map_ext. intros x. unfold apply_style. rewrite map_map. reflexivity. }
  specialize (G segs [] []). change (apply_style st []) with (@nil segZ) in G. cbn [map] in G.
  (* from equal (text, control) projections to equal characters *)
  assert (FC : forall l1 l2 : list segZ,
     map (fun g => (txt g, ctl g)) l1 = map (fun g => (txt g, ctl g)) l2 -> fl_chars (flat l1) = fl_chars (flat l2)).
  { induction l1 as [|g1 l1 IH]; intros [|g2 l2] H; try discriminate; [reflexivity|].
    cbn [map] in H. inversion H as [[Ht Hc Hr]]. rewrite !flat_cons. unfold fl_chars in *. rewrite !map_app.
    rewrite (IH l2 Hr), Hc, Ht. destruct (ctl g2); [reflexivity|]. rewrite !map_map. reflexivity. }
  assert (LN : forall A B : list (list segZ),
     map (map (fun g => (txt g, ctl g))) A = map (map (fun g => (txt g, ctl g))) B ->
     all2 (fun x y : fl => str_eqb (fl_chars x) (fl_chars y)) (map flat B) (map flat A) = true).
  { induction A as [|a A IH]; intros [|b B] H; cbn [map] in H; try discriminate; [reflexivity|].
    inversion H as [[Ha Hr]]. cbn [map all2].
    rewrite (FC b a (eq_sym Ha)), str_eqb_refl. cbn [andb]. apply IH. exact Hr. }
  unfold same_chars_b, split_lines. apply LN. exact G.
Qed.
