(* C11, part 3: the live display under interleaving (DESIGN D17).  As rich is, a user print
   builds its erase sequence under the live lock, releases it, and renders + writes later; the
   refresh thread can change the frame in between.  Witness schedule (refuted), the same schedule
   on the repaired variant, and exhaustive exploration of ALL schedules of small programs for the
   repaired variant. *)
From RichModel Require Import Prelude Conc SpecConc.
Open Scope list_scope.

(* thread 0: live.update(2 rows, refresh=True); console.print(x)
   thread 1: live.update(3 rows, refresh=True) *)
Definition race_progs : list (list op) := [[Update 1 2%nat true; Print 7]; [Update 2 3%nat true]].
(* thread 0 runs 32 instructions (its update+refresh, then the print up to and including the
   release of the live lock in Live.process_renderables), thread 1 runs to completion, thread 0
   finishes *)
Definition race_sched : list tid := repeat 0%nat 32 ++ repeat 1%nat 100 ++ repeat 0%nat 100.
Definition race_init (rep : bool) := init_state true None (0, 1%nat) (progs_of race_progs).

Lemma live_race_asis :
  let st := run false race_sched (race_init false) in
  finished st 2 = true
  /\ file (sh st) = [(0%nat, [Frame 1 2]); (1%nat, [Erase 2; Frame 2 3]); (0%nat, [Erase 2; Txt 0%nat 7; Frame 2 3])]
  /\ screen_of (file (sh st)) = [RFrame 2 0; RTxt 0%nat 7; RFrame 2 0; RFrame 2 1; RFrame 2 2]
  /\ screen_ok_b (file (sh st)) = false.
Proof. vm_compute. repeat (split; [reflexivity|]). reflexivity. Qed.

Lemma live_race_repaired :
  (* thread 1 is blocked on the live lock while thread 0 prints: its choices are skipped, so the
     schedule gets a tail in which it runs *)
  let st := run true (race_sched ++ repeat 1%nat 100) (race_init true) in
  finished st 2 = true /\ screen_ok_b (file (sh st)) = true.
Proof. vm_compute. split; reflexivity. Qed.

(* the same interleaving expressed at visible-event granularity (what tools/sched_console replays
   on the real code: corpus/C11_known/live_print_race.json) *)
Lemma live_race_asis_vis :
  screen_of (file (sh (run_vis false (race_init false) 2 (repeat 0%nat 19 ++ repeat 1%nat 40 ++ repeat 0%nat 40))))
  = [RFrame 2 0; RTxt 0%nat 7; RFrame 2 0; RFrame 2 1; RFrame 2 2].
Proof. vm_compute. reflexivity. Qed.

(* ---- explore = all schedules *)
Lemma explore_step fuel rep n ok st t st' :
  explore (S fuel) rep n ok st = true -> (t < n)%nat -> step rep st t = Some st' ->
  explore fuel rep n ok st' = true.
Proof.
  intros He Ht Hs. cbn [explore] in He.
  assert (Hin : In t (runnable rep st n)).
  { unfold runnable. apply filter_In. split; [apply in_seq; lia | rewrite Hs; auto]. }
  destruct (runnable rep st n) as [|a l] eqn:Er; [destruct Hin|].
  rewrite forallb_forall in He. specialize (He t Hin). rewrite Hs in He. exact He.
Qed.

Lemma explore_sound rep n ok sched : forall fuel st,
  explore fuel rep n ok st = true -> Forall (fun t => (t < n)%nat) sched ->
  runnable rep (run rep sched st) n = [] ->
  finished (run rep sched st) n = true /\ ok (run rep sched st) = true.
Proof.
  induction sched as [|t r IH]; intros fuel st He Hf Hr; cbn [run] in *.
  - destruct fuel; [discriminate|]. cbn [explore] in He. rewrite Hr in He.
    apply andb_prop in He. exact He.
  - inversion Hf; subst. destruct (step rep st t) as [st'|] eqn:Es.
    + destruct fuel; [discriminate|]. eapply IH; eauto. eapply explore_step; eauto.
    + eapply IH; eauto.
Qed.

Definition small_live_programs : list (list (list op)) := [
  race_progs;
  [[Print 1]; [Tick]];
  [[Print 1]; [Update 2 3%nat true]];
  [[Print 1; Print 2]; [Update 2 3%nat true]];
  [[Update 1 2%nat true; Print 7]; [Refresh]]
].

Lemma small_live_repaired_explored :
  forallb (fun progs => explore 400 true (length progs) (fun st => screen_ok_b (file (sh st)))
                          (init_state true None (0, 1%nat) (progs_of progs)))
          small_live_programs = true.
Proof. vm_compute. reflexivity. Qed.

(* every schedule (any list of thread ids, any length) of each of these programs, run on the
   repaired variant until nothing can run: all threads have finished and the screen is right *)
Theorem live_screen_repaired_small progs sched :
  In progs small_live_programs ->
  Forall (fun t => (t < length progs)%nat) sched ->
  let st := run true sched (init_state true None (0, 1%nat) (progs_of progs)) in
  runnable true st (length progs) = [] ->
  finished st (length progs) = true /\ screen_ok_b (file (sh st)) = true.
Proof.
  intros Hin Hf st Hr. pose proof small_live_repaired_explored as H.
  rewrite forallb_forall in H. specialize (H progs Hin).
  exact (explore_sound true (length progs) (fun st => screen_ok_b (file (sh st))) sched 400 _ H Hf Hr).
Qed.
