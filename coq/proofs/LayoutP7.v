(* C01: render_fits by structural induction over renderable trees. *)
From RichModel Require Import Prelude Cells Segments Ratio Frames Layout SpecLayout.
From RichModel Require Table Wrap SpecTable.
From RichProofs Require Import CellsP SegmentsP RatioP TableP FramesP FramesP2 LayoutP LayoutP2 LayoutP8 LayoutP9 LayoutP10 LayoutP3 LayoutP4 LayoutP5 LayoutP6.
From Coq Require Import ZifyBool.

Definition ro_ok (ro : ropts) : Prop := ro_overflow ro <> Some Wrap.OV_IGNORE.

(* rendered at W', bounded by W: W' <= W and W at or above the structural minimum.  The width actually
   handed down (W') may be anything: Align renders its child at the child's measured maximum, Constrain at
   its own width -- both may be below the child's structural minimum *)
Definition Pfit (cf : cfg) (r : R) : Prop :=
  forall ro W' W, wrappable r = true -> ro_ok ro -> W' <= W -> W <= cW cf -> smin r <= W ->
    sfits W (render_at (den cf r ro) W') /\ (ends_nl r = true -> nlterm (render_at (den cf r ro) W')).

Lemma render_at_small (c : child) w : w < 1 -> render_at c w = [].
Proof. intros H. unfold render_at. destruct (w <? 1) eqn:E; [reflexivity|lia]. Qed.
Lemma render_at_big (c : child) w : 1 <= w -> render_at c w = crender c w.
Proof. intros H. unfold render_at. destruct (w <? 1) eqn:E; [lia|reflexivity]. Qed.

Ltac small W' :=
  destruct (Z_lt_le_dec W' 1) as [Hsmall|Hb];
  [rewrite (render_at_small _ _ Hsmall); split; [apply sfits_nil|intros _; apply nlterm_nil]|rewrite (render_at_big _ _ Hb)].

(* ---------------------------------------------------------------- groups *)
Lemma group_fits W' W (cs : list child) (e : list bool) :
  length e = length cs ->
  Forall (fun c => sfits W (render_at c W')) cs ->
  Forall2 (fun c b => b = true -> nlterm (render_at c W')) cs e ->
  all_but_last (fun b : bool => b) e = true ->
  sfits W (flat_map (fun c => render_at c W') cs)
  /\ (last e true = true -> nlterm (flat_map (fun c => render_at c W') cs)).
Proof.
  revert e. induction cs as [|c cs IH]; intros e Hl Hf Hn Hab.
  - cbn. split; [apply sfits_nil|intros _; apply nlterm_nil].
  - destruct e as [|b e]; [discriminate|]. inversion Hf as [|? ? F1 F2]; subst. inversion Hn as [|? ? ? ? N1 N2]; subst.
    cbn [flat_map]. destruct cs as [|c2 cs].
    + destruct e; [|discriminate]. cbn [flat_map]. rewrite app_nil_r. split; [exact F1|]. cbn [last]. exact N1.
    + destruct e as [|b2 e]; [discriminate|].
      cbn [all_but_last] in Hab. apply andb_true_iff in Hab as [Hb Hab]. subst b.
      destruct (IH (b2 :: e) ltac:(cbn in *; lia) F2 N2 Hab) as [I1 I2].
      split.
      * apply sfits_app; [apply N1; reflexivity|exact F1|exact I1].
      * intros Hlast. apply nlterm_app; [apply N1; reflexivity|apply I2; exact Hlast].
Qed.

Lemma all_but_last_map {A} (f : A -> bool) (l : list A) :
  all_but_last (fun b : bool => b) (map f l) = all_but_last f l.
Proof. induction l as [|x l IH]; [reflexivity|]. destruct l as [|y l]; [reflexivity|]. cbn [map all_but_last] in *. rewrite IH. reflexivity. Qed.

Lemma sum_indexed_ge {A} (f : nat * A -> Z) : forall (l : list A) k,
  (forall x, 1 <= f x) -> zlen l <= sumZ (map f (Table.indexed k l)).
Proof.
  induction l as [|x l IH]; intros k H; cbn [Table.indexed map]; unfold zlen in *; cbn [length sumZ fold_right].
  - lia.
  - specialize (IH (S k) H). specialize (H (k, x)). unfold sumZ in IH. lia.
Qed.

Lemma txt_min_pos s : 1 <= txt_min s.
Proof. unfold txt_min. destruct (has_wide s); lia. Qed.

Lemma smin_tbl_ge t rows : nonneg4 (Table.o_pad (tb_o t)) = true ->
  Table.extra_width (tb_o t) (length (tb_cols t)) + zlen (tb_cols t) <= smin (Tbl t rows).
Proof.
  intros Hp. cbn [smin]. apply Zplus_le_compat_l. apply sum_indexed_ge. intros [j c].
  assert (0 <= Table.padding_width (tb_o t) j).
  { apply padding_width_nonneg. unfold pad_ok, nonneg4 in *. destruct (Table.o_pad (tb_o t)) as [[[a b] c0] d]. lia. }
  pose proof (txt_min_pos (cs_header c ++ cs_footer c)). lia.
Qed.

Lemma wrappable_tbl_ok t rows : wrappable (Tbl t rows) = true -> tbl_ok t = true.
Proof.
  cbn [wrappable]. intros H. unfold tbl_ok.
  repeat (apply andb_true_iff in H as [H ?]).
  repeat (apply andb_true_iff; split); assumption.
Qed.

Lemma group_fits' W' W (g : R -> child) (cs : list R) :
  Forall (fun c => sfits W (render_at (g c) W') /\ (ends_nl c = true -> nlterm (render_at (g c) W'))) cs ->
  all_but_last ends_nl cs = true ->
  sfits W (flat_map (fun c => render_at c W') (map g cs))
  /\ (last (map ends_nl cs) true = true -> nlterm (flat_map (fun c => render_at c W') (map g cs))).
Proof.
  induction cs as [|c cs IH]; intros Hf Hab.
  - cbn. split; [apply sfits_nil|intros _; apply nlterm_nil].
  - inversion Hf as [|? ? [F1 N1] F2]; subst. cbn [map flat_map]. destruct cs as [|c2 cs].
    + cbn [map flat_map last]. rewrite app_nil_r. split; [exact F1|exact N1].
    + cbn [all_but_last] in Hab. apply andb_true_iff in Hab as [Hb Hab].
      destruct (IH F2 Hab) as [I1 I2]. split.
      * apply sfits_app; [apply N1; exact Hb|exact F1|exact I1].
      * intros Hlast. apply nlterm_app; [apply N1; exact Hb|apply I2; exact Hlast].
Qed.

(* ---------------------------------------------------------------- Columns: the column count *)
Lemma set_nth_length : forall l i v, length (set_nth l i v) = Nat.max (length l) (S i).
Proof.
  induction l as [|x l IH]; intros i v.
  - induction i as [|i IHi]; cbn [set_nth length]; [reflexivity|rewrite IHi; cbn; lia].
  - destruct i as [|i]; cbn [set_nth length]; [lia|rewrite IH; lia].
Qed.

Lemma width_pass_range ws cc wpad maxw : 0 < cc -> forall items col widths cc',
  0 <= col < cc -> zlen widths <= cc ->
  width_pass items ws cc wpad maxw col widths = Some cc' -> 0 <= cc' <= cc - 1.
Proof.
  intros Hcc. induction items as [|i items IH]; intros col widths cc' Hcol Hlen H; [discriminate|].
  cbn [width_pass] in H.
  set (w2 := set_nth widths (Z.to_nat col) (Z.max (nthZ widths col 0) (if i =? -1 then 0 else nthZ ws i 0))) in *.
  assert (Hl2 : 1 <= zlen w2 <= cc).
  { unfold zlen, w2 in *. rewrite set_nth_length. lia. }
  destruct (maxw <? sumZ w2 + wpad * (zlen w2 - 1)) eqn:E.
  - injection H as <-. lia.
  - eapply IH; [|exact (proj2 Hl2)|exact H]. apply Z.mod_pos_bound. lia.
Qed.

Lemma width_loop_range n ws wpad maxw cf : forall fuel cc r, 0 <= cc ->
  width_loop fuel n ws cc wpad maxw cf = Ok r -> 0 <= r <= cc.
Proof.
  induction fuel as [|f IH]; intros cc r Hcc H; [discriminate|]. cbn [width_loop] in H.
  destruct (cc <=? 1) eqn:E; [injection H as <-; lia|].
  destruct (iter_items n cc cf) as [items|e|k]; cbn [bind] in H; try discriminate.
  destruct (width_pass items ws cc wpad maxw 0 []) as [cc'|] eqn:Ep.
  - pose proof (width_pass_range ws cc wpad maxw ltac:(lia) items 0 [] cc' ltac:(lia) ltac:(unfold zlen; cbn; lia) Ep) as Hr.
    specialize (IH cc' r ltac:(lia) H). lia.
  - injection H as <-. lia.
Qed.

Lemma columns_grid_cc ws pl pr eq cf rtl W cc grid : ws <> [] ->
  columns_grid ws None pl pr eq cf rtl W = Ok (cc, grid) -> 1 <= cc <= zlen ws.
Proof.
  intros Hne H. unfold columns_grid in H.
  destruct (zlen ws =? 0) eqn:E0; [destruct ws; [congruence|unfold zlen in E0; cbn in E0; lia]|].
  match type of H with context [width_loop ?f ?n ?w ?c ?p ?m ?b] => destruct (width_loop f n w c p m b) as [c0|e|k] eqn:Ew end;
    cbn [bind] in H; try discriminate.
  apply width_loop_range in Ew; [|unfold zlen; lia].
  unfold iter_items in H. destruct (c0 =? 0) eqn:Ec; [cbn [bind] in H; discriminate|].
  match type of H with context [bind ?x _] => destruct x as [its|e|k] end; cbn [bind] in H; try discriminate.
  injection H as <- _. lia.
Qed.

(* ---------------------------------------------------------------- the induction *)
Lemma ov_ok ov ro : opt_ok ov = true -> ro_ok ro -> or_else ov (ro_overflow ro) Wrap.OV_FOLD <> Wrap.OV_IGNORE.
Proof.
  unfold opt_ok, ro_ok, or_else. intros H1 H2. destruct ov as [x|]; [lia|].
  destruct (ro_overflow ro) as [y|]; [intros ->; apply H2; reflexivity|discriminate].
Qed.

Lemma panel_floor_le c o :
  (match p_title o with [] => 2 | _ => 4 end) <= smin (Panel c o).
Proof.
  cbn [smin]. destruct (p_pad o) as [[[a rr] b] l]. destruct (p_title o) as [|x tl]; [lia|].
  pose proof (txt_min_pos (x :: tl)). lia.
Qed.

Theorem den_fits cf : forall r, Pfit cf r.
Proof.
  apply R_ind2; unfold Pfit.
  - (* Txt *)
    intros s j ov nw ro W' W Hw Hro Hle HcW Hs. cbn [den]. small W'. cbn [text_child crender].
    cbn [wrappable] in Hw. apply andb_true_iff in Hw as [Hov _].
    split; [|intros _; apply text_stream_nlterm].
    eapply sfits_mono; [exact Hle|]. apply text_stream_fits; [exact Hb|apply ov_ok; assumption].
  - (* Pad *)
    intros c t rr b l ex _ ro W' W Hw Hro Hle HcW Hs. cbn [den]. small W'. cbn [padding_child crender].
    cbn [wrappable] in Hw. repeat (apply andb_true_iff in Hw as [Hw ?]).
    split; [|intros _; apply nlterm_stream_of].
    eapply sfits_mono; [exact Hle|]. apply padding_sfits; lia.
  - (* Panel *)
    intros c o _ ro W' W Hw Hro Hle HcW Hs. cbn [den]. small W'. cbn [panel_child crender].
    cbn [wrappable] in Hw. apply andb_true_iff in Hw as [Hw _]. apply andb_true_iff in Hw as [Hp _].
    split; [|intros _; apply nlterm_stream_of].
    apply panel_sfits_any; [exact Hle|lia|exact Hp|]. pose proof (panel_floor_le c o). lia.
  - (* Align *)
    intros c how pad w IH ro W' W Hw Hro Hle HcW Hs. cbn [den]. small W'. cbn [align_child crender].
    cbn [wrappable smin] in *.
    split; [|intros _; apply nlterm_stream_of].
    apply align_sfits2; [exact Hb|exact Hle|]. cbv zeta.
    refine (proj1 (IH ro _ W Hw Hro _ HcW Hs)). lia.
  - (* Constrain *)
    intros c w IH ro W' W Hw Hro Hle HcW Hs. cbn [den]. small W'. cbn [constrain_child crender].
    rewrite constrain_render_eq by exact Hb.
    cbn [wrappable smin ends_nl] in *.
    apply IH; try assumption. destruct w; lia.
  - (* Styled *)
    intros c IH ro W' W Hw Hro Hle HcW Hs. cbn [den]. small W'. cbn [styled_child crender].
    cbn [wrappable smin ends_nl] in *.
    destruct (IH ro W' W Hw Hro Hle HcW Hs) as [I1 I2].
    split; [apply styled_sfits; exact I1|intros He; apply styled_nlterm; apply I2; exact He].
  - (* Group *)
    intros cs fit IH ro W' W Hw Hro Hle HcW Hs. cbn [den]. small W'. cbn [group_child crender].
    cbn [wrappable] in Hw. apply andb_true_iff in Hw as [Hwc Hab]. cbn [ends_nl].
    apply group_fits'; [|exact Hab].
    rewrite Forall_forall in IH |- *. intros c Hc.
    rewrite forallb_forall in Hwc.
    assert (Hsc : smin c <= smin (Group cs fit)) by (cbn [smin]; apply maxl_ge, in_map; exact Hc).
    apply (IH c Hc ro W' W (Hwc c Hc) Hro Hle HcW). lia.
  - (* Rule *)
    intros title chars how ro W' W Hw Hro Hle HcW Hs. cbn [den]. small W'. cbn [rule_child crender].
    cbn [wrappable] in Hw. split; [|intros _; apply nlterm_str_lines_stream].
    eapply sfits_mono; [exact Hle|]. apply rule_sfits; lia.
  - (* Bar *)
    intros size b e w ro W' W Hw Hro Hle HcW Hs. cbn [den]. small W'. cbn [bar_child crender].
    cbn [wrappable] in Hw. apply andb_true_iff in Hw as [_ Hw]. split; [|intros _; apply bar_nlterm].
    eapply sfits_mono; [exact Hle|]. apply bar_sfits; [lia|destruct w; [lia|exact Logic.I]].
  - (* PBar *)
    intros total completed w pulse t ro W' W Hw Hro Hle HcW Hs. cbn [den]. small W'.
    cbn [wrappable] in Hw. split; [|cbn [ends_nl]; discriminate].
    eapply sfits_mono; [exact Hle|]. apply pbar_sfits; [lia|destruct w; [lia|exact Logic.I]].
  - (* Tbl *)
    intros t rows _ ro W' W Hw Hro Hle HcW Hs. cbn [den]. small W'. cbn [table_child crender].
    pose proof (wrappable_tbl_ok t rows Hw) as Hok.
    assert (Hp : nonneg4 (Table.o_pad (tb_o t)) = true).
    { unfold tbl_ok in Hok. repeat (apply andb_true_iff in Hok as [Hok ?]). exact Hok. }
    pose proof (smin_tbl_ge t rows Hp) as Hge.
    destruct (table_stream_fits cf t (map (map (fun c : R => den cf c)) rows) ro W' Hok Hro) as [T1 T2].
    split; [eapply sfits_mono; [|exact T1]; lia|intros _; exact T2].
  - (* Cols *)
    intros items o _ ro W' W Hw Hro Hle HcW Hs. cbn [den]. small W'. cbn [columns_child crender].
    cbn [wrappable] in Hw. apply andb_true_iff in Hw as [Hp _].
    unfold columns_stream. destruct (map (fun c : R => den cf c) items) as [|it its] eqn:Eits;
      [split; [apply sfits_nil|intros _; apply nlterm_nil]|].
    destruct (co_pad o) as [[[pt pr] pb] pl] eqn:Epad.
    match goal with |- context [columns_grid ?ws None pl pr ?a ?b ?c W'] =>
      destruct (columns_grid ws None pl pr a b c W') as [[cc grid]|e|k] eqn:Eg end;
      [|split; [apply sfits_nil|intros _; apply nlterm_nil]|split; [apply sfits_nil|intros _; apply nlterm_nil]].
    apply columns_grid_cc in Eg; [|discriminate].
    assert (Hn : zlen (map (fun it0 : ropts -> child => snd (mget (it0 ro) W')) (it :: its)) = zlen items).
    { unfold zlen. rewrite map_length, <- Eits, map_length. reflexivity. }
    rewrite Hn in Eg.
    assert (Hsm : zlen items <= smin (Cols items o)) by (cbn [smin]; lia).
    set (t := mkTblSpec (grid_opts o) None (co_title o) [] (repeat default_col (Z.to_nat cc)) []).
    rewrite render_at_big by exact Hb. cbn [table_child crender].
    assert (Hlen : zlen (tb_cols t) = cc) by (unfold zlen, t; cbn [tb_cols]; rewrite repeat_length; lia).
    assert (Hok : tbl_ok t = true).
    { unfold tbl_ok, t. cbn [tb_o tb_cols tb_boxc tb_box grid_opts Table.o_pad Table.o_width Table.o_minw Table.o_box].
      rewrite Epad. rewrite Hp. cbn [andb Bool.eqb].
      destruct (Z.to_nat cc) as [|k] eqn:Ek; [lia|]. cbn [repeat]. cbn [andb].
      apply forallb_forall. intros x Hx. destruct Hx as [<-|Hx]; [reflexivity|apply repeat_spec in Hx; subst; reflexivity]. }
    assert (Hex : Table.extra_width (tb_o t) (length (tb_cols t)) = 0) by reflexivity.
    match goal with |- context [table_stream t (table_cols cf t ?rr) ro W'] =>
      destruct (table_stream_fits cf t rr ro W' Hok Hro) as [T1 T2] end.
    rewrite Hex in T1.
    split; [eapply sfits_mono; [|exact T1]; lia|intros _; exact T2].
  - (* Tree *)
    intros lab kids ex _ _ ro W' W Hw Hro Hle HcW Hs. cbn [den]. small W'.
    match goal with |- context [crender (tree_child ?t) W'] => destruct (tree_sfits t W') as [T1 T2] end.
    split; [eapply sfits_mono; [exact Hle|exact T1]|intros _; exact T2].
  - (* NoMeasure *)
    intros c IH ro W' W Hw Hro Hle HcW Hs. cbn [den]. rewrite render_at_nomeasure.
    cbn [wrappable smin ends_nl] in *. apply IH; assumption.
  - (* Cast *)
    intros c IH ro W' W Hw Hro Hle HcW Hs. cbn [den].
    cbn [wrappable smin ends_nl] in *. apply andb_true_iff in Hw as [_ Hw]. apply IH; assumption.
Qed.

(* ---------------------------------------------------------------- C01 *)
Lemma ro0_ok : ro_ok ro0.
Proof. unfold ro_ok, ro0. cbn. discriminate. Qed.

Theorem render_fits : forall cf r W lines,
  wrappable r = true -> smin r <= W -> W <= cW cf ->
  render cf r ro0 W = Ok lines -> fits_b W (map line_text lines) = true.
Proof.
  intros cf r W lines Hw Hs HcW H. unfold render in H. destruct (fails cf r ro0 W); [discriminate|].
  injection H as <-. apply fits_b_lines.
  exact (proj1 (den_fits cf r ro0 W W Hw ro0_ok ltac:(lia) HcW Hs)).
Qed.

(* ---------------------------------------------------------------- C09: measure_sound is render_fits at
   the reported maximum and at the reported minimum *)
Theorem measure_sound : forall cf r avail mn mx Lmx Lmn,
  wrappable r = true -> mx <= cW cf ->
  measure cf r avail = Ok (mn, mx) ->
  render cf r ro0 mx = Ok Lmx -> render cf r ro0 mn = Ok Lmn ->
  meas_sound_b (smin r) (mn, mx) (map line_text Lmx) (map line_text Lmn) = true.
Proof.
  intros cf r avail mn mx Lmx Lmn Hw HcW Hm Hx Hn.
  assert (Hle : mn <= mx).
  { unfold measure in Hm. destruct (fails cf r ro0 avail); [discriminate|]. injection Hm as Hm.
    pose proof (mget_nonneg (den cf r ro0) avail) as [_ B]. rewrite Hm in B. exact B. }
  unfold meas_sound_b. cbn [fst snd]. apply andb_true_iff. split.
  - destruct (smin r <=? mx) eqn:E; [|reflexivity]. eapply render_fits; [exact Hw|lia|exact HcW|exact Hx].
  - destruct (smin r <=? mn) eqn:E; [|reflexivity]. eapply render_fits; [exact Hw|lia|exact (Z.le_trans _ _ _ Hle HcW)|exact Hn].
Qed.
