(* C06, part 2: hashing over construction routes (DESIGN D4), the str() memo and update_link,
   documented spellings. *)
From RichModel Require Import Prelude Color Style SpecStyle.
From RichGen Require Import StyleTables.
From RichProofs Require Import StyleP.
From Coq Require Import ZifyBool.

(* ------------------------------------------------------------------ construction routes *)
(* every way the property names of obtaining a style: parsed, keywords, +, copy, update_link,
   without_color, from_color, null (and str(), which fills a memo of the object) *)
Inductive Reach (fix_def : bool) : style -> Prop :=
| R_null : Reach fix_def style_null
| R_parse d s : style_parse d = Ok s -> Reach fix_def s
| R_kw c b fl l s : style_kw c b fl l = Ok s -> Reach fix_def s
| R_from_color c b : Reach fix_def (style_from_color c b)
| R_add a b : Reach fix_def a -> Reach fix_def b -> Reach fix_def (style_add a b)
| R_copy a : Reach fix_def a -> Reach fix_def (style_copy a)
| R_update_link a l : Reach fix_def a -> Reach fix_def (style_update_link fix_def a l)
| R_without_color a : Reach fix_def a -> Reach fix_def (style_without_color a)
| R_str a : Reach fix_def a -> Reach fix_def (style_set_def a).

(* ------------------------------------------------------------------ repaired: hash from the fields *)
Theorem eq_hash_all a b : style_eqb a b = true -> hash_key true a = hash_key true b.
Proof.
  intros H. apply style_eqb_fields in H as (H1 & H2 & H3 & H4 & H5).
  unfold hash_key, fields_key. rewrite H1, H2, H3, H4, H5. reflexivity.
Qed.

Lemma hkey_eqb_refl k : hkey_eqb k k = true.
Proof.
  destruct k as [c b a s l]. unfold hkey_eqb; cbn.
  rewrite !opt_color_eqb_refl, opt_str_eqb_refl.
  assert (forall o, optZ_eqb' o o = true) as E by (intros [z|]; cbn; [apply Z.eqb_refl|reflexivity]).
  rewrite !E. reflexivity.
Qed.

(* the statement of the property, over the routes it names *)
Theorem eq_hash fd a b : Reach fd a -> Reach fd b -> style_eqb a b = true ->
  eq_hash_b (style_eqb a b) (hkey_eqb (hash_key true a) (hash_key true b)) = true.
Proof.
  intros _ _ H. rewrite H, (eq_hash_all a b H), hkey_eqb_refl. reflexivity.
Qed.

(* ------------------------------------------------------------------ as found: refuted, four ways *)
Definition red : color := mkColor (lit "red") CT_STANDARD (Some 1) None.
Definition kw_bold : style := style_make None None [Some true] None.
Definition kw_red : style := style_make (Some red) None [] None.
Definition kw_bold_red : style := style_make (Some red) None [Some true] None.
Definition kw_bold_link : style := style_make None None [Some true] (Some (lit "x")).

Lemma reach_make fd c b fl l : Reach fd (style_make c b fl l).
Proof. apply (R_kw fd (option_map CA_obj c) (option_map CA_obj b) fl l). destruct c, b; reflexivity. Qed.

(* parse("bold red") == Style(bold=True) + Style(color="red"), different hash keys *)
Lemma hash_asis_add :
  style_parse (lit "bold red") = Ok kw_bold_red
  /\ style_eqb kw_bold_red (style_add kw_bold kw_red) = true
  /\ hkey_eqb (hash_key false kw_bold_red) (hash_key false (style_add kw_bold kw_red)) = false.
Proof. vm_compute. repeat split. Qed.
Lemma hash_asis_from_color :
  style_eqb kw_red (style_from_color (Some red) None) = true
  /\ hkey_eqb (hash_key false kw_red) (hash_key false (style_from_color (Some red) None)) = false.
Proof. vm_compute. repeat split. Qed.
Lemma hash_asis_update_link fd :
  style_eqb kw_bold_link (style_update_link fd kw_bold (Some (lit "x"))) = true
  /\ hkey_eqb (hash_key false kw_bold_link) (hash_key false (style_update_link fd kw_bold (Some (lit "x")))) = false.
Proof. destruct fd; vm_compute; repeat split. Qed.
Lemma hash_asis_without_color :
  style_eqb kw_bold (style_without_color kw_bold_red) = true
  /\ hkey_eqb (hash_key false kw_bold) (hash_key false (style_without_color kw_bold_red)) = false.
Proof. vm_compute. repeat split. Qed.

Lemma hkey_eqb_false_neq a b : hkey_eqb a b = false -> a <> b.
Proof. intros H ->. rewrite hkey_eqb_refl in H. discriminate. Qed.

Theorem eq_hash_asis_refuted fd :
  exists a b, Reach fd a /\ Reach fd b /\ style_eqb a b = true /\ hash_key false a <> hash_key false b.
Proof.
  exists kw_bold_red, (style_add kw_bold kw_red).
  destruct hash_asis_add as (P & E & H).
  split; [exact (R_parse fd _ _ P)|]. split; [apply R_add; apply reach_make|].
  split; [exact E|exact (hkey_eqb_false_neq _ _ H)].
Qed.

(* what IS consistent as found: styles built by __init__ (keywords, parse, null) and their copies
   carry the hash of their fields *)
Lemma hash_ok_make c b fl l : s_hash (style_make c b fl l) = fields_key (style_make c b fl l).
Proof. reflexivity. Qed.
Lemma hash_ok_kw c b fl l s : style_kw c b fl l = Ok s -> s_hash s = fields_key s.
Proof.
  unfold style_kw. destruct (resolve_color c) as [c'| |]; cbn; try discriminate.
  destruct (resolve_color b) as [b'| |]; cbn; try discriminate. intros [= <-]. reflexivity.
Qed.
Lemma hash_ok_parse d s : style_parse d = Ok s -> s_hash s = fields_key s.
Proof.
  unfold style_parse. destruct (_ || _); [intros [= <-]; reflexivity|].
  destruct (parse_words _ _ _) as [st| |]; cbn; try discriminate. apply hash_ok_kw.
Qed.
Theorem eq_hash_asis_init_routes a b :
  s_hash a = fields_key a -> s_hash b = fields_key b -> style_eqb a b = true ->
  hash_key false a = hash_key false b.
Proof. intros Ha Hb H. unfold hash_key. rewrite Ha, Hb. exact (eq_hash_all a b H). Qed.

(* ------------------------------------------------------------------ the str() memo *)
Lemma def_ok_iff s : def_ok_b s = true -> style_str s = style_str_fresh s.
Proof.
  unfold def_ok_b, style_str. destruct (s_def s) as [d|]; [|reflexivity]. apply str_eqb_eq.
Qed.

Lemma def_ok_make c b fl l : def_ok_b (style_make c b fl l) = true.
Proof. reflexivity. Qed.
Lemma def_ok_kw c b fl l s : style_kw c b fl l = Ok s -> def_ok_b s = true.
Proof.
  unfold style_kw. destruct (resolve_color c) as [c'| |]; cbn; try discriminate.
  destruct (resolve_color b) as [b'| |]; cbn; try discriminate. intros [= <-]. reflexivity.
Qed.
Lemma def_ok_parse d s : style_parse d = Ok s -> def_ok_b s = true.
Proof.
  unfold style_parse. destruct (_ || _); [intros [= <-]; reflexivity|].
  destruct (parse_words _ _ _) as [st| |]; cbn; try discriminate. apply def_ok_kw.
Qed.

(* the words of the definition depend on the five fields only *)
Lemma str_fresh_fields a b :
  s_color a = s_color b -> s_bgcolor a = s_bgcolor b -> s_set_attributes a = s_set_attributes b ->
  s_attributes a = s_attributes b -> s_link a = s_link b -> style_str_fresh a = style_str_fresh b.
Proof.
  intros H1 H2 H3 H4 H5. unfold style_str_fresh, style_str_words, str_group, attr_word_str.
  rewrite H1, H2, H3, H4, H5. reflexivity.
Qed.

(* repaired update_link: on every route the memo, when filled, is the fresh string *)
Theorem def_ok_reach s : Reach true s -> def_ok_b s = true.
Proof.
  induction 1 as [|d s P|c b fl l s P|c b|a b Ha IHa Hb IHb|a Ha IH|a l Ha IH|a Ha IH|a Ha IH].
  - reflexivity.
  - exact (def_ok_parse d s P).
  - exact (def_ok_kw c b fl l s P).
  - reflexivity.
  - unfold style_add. destruct (s_null b); [exact IHa|]. destruct (s_null a); [exact IHb|reflexivity].
  - unfold style_copy. destruct (s_null a); [reflexivity|].
    unfold def_ok_b in *. cbn [s_def]. destruct (s_def a) as [d|]; [|reflexivity].
    rewrite (str_eqb_eq _ _ IH). erewrite str_fresh_fields; [apply str_eqb_refl|..]; reflexivity.
  - reflexivity.
  - unfold style_without_color. destruct (s_null a); reflexivity.
  - unfold def_ok_b, style_set_def. cbn [s_def]. rewrite (def_ok_iff a IH).
    erewrite str_fresh_fields; [apply str_eqb_refl|..]; reflexivity.
Qed.

Theorem str_is_fresh s : Reach true s -> style_str s = style_str_fresh s.
Proof. intros H. apply def_ok_iff, def_ok_reach, H. Qed.

(* as found: str(Style(bold=True)); .update_link("x") keeps the old text *)
Definition stale_witness : style := style_update_link false (style_set_def kw_bold) (Some (lit "x")).
Theorem str_memo_asis_refuted :
  Reach false stale_witness
  /\ style_str stale_witness = lit "bold"
  /\ style_str_fresh stale_witness = lit "bold link x"
  /\ wf_style_b stale_witness = true
  /\ roundtrip_b stale_witness (style_parse (style_str stale_witness)) = false.
Proof.
  split; [apply R_update_link, R_str, reach_make|]. vm_compute. repeat split.
Qed.

(* ------------------------------------------------------------------ documented spellings *)
Theorem spelling_table :
  Forall (fun p => spelling_b (style_parse (fst p)) (snd p) = true) documented_spellings.
Proof.
  apply Forall_forall. apply forallb_forall.
  vm_compute. reflexivity.
Qed.

Lemma documented_spellings_count : (400 <=? length documented_spellings)%nat = true.
Proof. vm_compute. reflexivity. Qed.

(* ------------------------------------------------------------------ routes with interleaved hash() calls *)
(* The repaired `_hash` is a lazily filled memo, so "was hash() already called on this intermediate
   style" is part of a route.  HReach = the routes of the property over objects-with-memo, with
   hash() (ho_touch) and str() (ho_str) allowed after every step. *)
Inductive HReach (fix_def : bool) : hobj -> Prop :=
| HR_null : HReach fix_def ho_null
| HR_parse d s : style_parse d = Ok s -> HReach fix_def (ho_init s)
| HR_kw c b fl l s : style_kw c b fl l = Ok s -> HReach fix_def (ho_init s)
| HR_from_color c b : HReach fix_def (ho_from_color c b)
| HR_add a b : HReach fix_def a -> HReach fix_def b -> HReach fix_def (ho_add a b)
| HR_copy a : HReach fix_def a -> HReach fix_def (ho_copy a)
| HR_update_link a l : HReach fix_def a -> HReach fix_def (ho_update_link fix_def a l)
| HR_without_color a : HReach fix_def a -> HReach fix_def (ho_without_color a)
| HR_background a : HReach fix_def a -> HReach fix_def (ho_init (style_background_style (ho_style a)))
| HR_str a : HReach fix_def a -> HReach fix_def (ho_str a)
| HR_hash a : HReach fix_def a -> HReach fix_def (ho_touch a).

(* the memo is empty or holds the key of the CURRENT fields: never stale *)
Definition memo_ok (o : hobj) : Prop :=
  ho_memo o = None \/ ho_memo o = Some (fields_key (ho_style o)).

Lemma memo_ok_hash o : memo_ok o -> ho_hash o = fields_key (ho_style o).
Proof. unfold memo_ok, ho_hash. intros [-> | ->]; reflexivity. Qed.

Theorem memo_ok_reach fd o : HReach fd o -> memo_ok o.
Proof.
  induction 1 as [|d s P|c b fl l s P|c b|a b Ha IHa Hb IHb|a Ha IH|a l Ha IH|a Ha IH|a Ha IH|a Ha IH|a Ha IH].
  - right. reflexivity.
  - right. reflexivity.
  - right. reflexivity.
  - left. reflexivity.
  - unfold ho_add. destruct (s_null (ho_style b)); [exact IHa|].
    destruct (s_null (ho_style a)); [exact IHb|left; reflexivity].
  - unfold ho_copy. destruct (s_null (ho_style a)) eqn:N; [right; reflexivity|].
    destruct IH as [E|E]; [left; exact E|right]. cbn [ho_memo ho_style]. rewrite E.
    unfold style_copy. rewrite N. reflexivity.
  - left. reflexivity.
  - unfold ho_without_color. destruct (s_null (ho_style a)); [right; reflexivity|left; reflexivity].
  - right. reflexivity.
  - destruct IH as [E|E]; [left; exact E|right]. cbn [ho_str ho_memo ho_style]. rewrite E. reflexivity.
  - right. cbn [ho_touch ho_memo ho_style]. rewrite (memo_ok_hash a IH). reflexivity.
Qed.

(* equal styles hash equally on every pair of routes, whatever hash()/str() calls were interleaved *)
Theorem eq_hash_routes fd a b : HReach fd a -> HReach fd b ->
  style_eqb (ho_style a) (ho_style b) = true -> ho_hash a = ho_hash b.
Proof.
  intros Ha Hb E. rewrite (memo_ok_hash a (memo_ok_reach fd a Ha)), (memo_ok_hash b (memo_ok_reach fd b Hb)).
  exact (eq_hash_all _ _ E).
Qed.

Theorem eq_hash_routes_b fd a b : HReach fd a -> HReach fd b ->
  eq_hash_b (style_eqb (ho_style a) (ho_style b)) (hkey_eqb (ho_hash a) (ho_hash b)) = true.
Proof.
  intros Ha Hb. unfold eq_hash_b. destruct (style_eqb _ _) eqn:E; [|reflexivity].
  rewrite (eq_hash_routes fd a b Ha Hb E), hkey_eqb_refl. reflexivity.
Qed.

(* the model can express a stale memo: a without_color that keeps the memo when there is no
   FOREGROUND colour (forgetting that the background is stripped too) -- the seeded mutation
   C06-m1 -- breaks the invariant and the property *)
Definition ho_without_color_m1 (a : hobj) : hobj :=
  if s_null (ho_style a) then ho_null
  else mkHObj (style_without_color (ho_style a))
              (match s_color (ho_style a) with None => ho_memo a | Some _ => None end).
Definition blue : color := mkColor (lit "blue") CT_STANDARD (Some 4) None.
Definition kw_bold_on_blue : style := style_make None (Some blue) [Some true] None.
Theorem stale_memo_m1_refuted fd :
  HReach fd (ho_init kw_bold_on_blue) /\ HReach fd (ho_init kw_bold)
  /\ style_eqb (ho_style (ho_without_color_m1 (ho_init kw_bold_on_blue))) (ho_style (ho_init kw_bold)) = true
  /\ hkey_eqb (ho_hash (ho_without_color_m1 (ho_init kw_bold_on_blue))) (ho_hash (ho_init kw_bold)) = false
  /\ hkey_eqb (ho_hash (ho_without_color (ho_init kw_bold_on_blue))) (ho_hash (ho_init kw_bold)) = true.
Proof.
  split; [apply (HR_kw fd None (Some (CA_obj blue)) [Some true] None); reflexivity|].
  split; [apply (HR_kw fd None None [Some true] None); reflexivity|].
  vm_compute. auto.
Qed.

(* the style component of the memo model is the plain model *)
Lemma ho_add_style a b : ho_style (ho_add a b) = style_add (ho_style a) (ho_style b).
Proof. unfold ho_add, style_add. destruct (s_null (ho_style b)), (s_null (ho_style a)); reflexivity. Qed.
Lemma ho_copy_style a : ho_style (ho_copy a) = style_copy (ho_style a).
Proof. unfold ho_copy, style_copy. destruct (s_null (ho_style a)); reflexivity. Qed.
Lemma ho_without_color_style a : ho_style (ho_without_color a) = style_without_color (ho_style a).
Proof. unfold ho_without_color, style_without_color. destruct (s_null (ho_style a)); reflexivity. Qed.
