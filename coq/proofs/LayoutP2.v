(* Table width solving (C01/C07/C09): the water-filling collapse keeps every column at least one
   cell wide when there is room for one cell per column, and the solved widths of a table of
   unconstrained columns fit the available width. *)
From RichModel Require Import Prelude Cells Segments Ratio Table SpecTable.
From RichProofs Require Import CellsP RatioP TableP.
From Coq Require Import ZifyBool.

(* ------------------------------------------------------------------ small list facts *)
Lemma Forall_true_forallb : forall al, Forall (fun b => b = true) al -> forallb (fun a : bool => a) al = true.
Proof. induction 1 as [|a al Ha _ IH]; [reflexivity|]. simpl. rewrite Ha, IH. reflexivity. Qed.

Lemma forallb_existsb_id : forall al : list bool, al <> [] -> forallb (fun a => a) al = true ->
  existsb (fun b => b) al = true.
Proof. destruct al as [|a al]; [congruence|]. simpl. intros _ H. apply andb_true_iff in H as [-> _]. reflexivity. Qed.

Lemma sumZ_all_eq : forall ws L, Forall (fun w => w = L) ws -> sumZ ws = zlen ws * L.
Proof.
  induction 1 as [|w ws Hw _ IH]; [reflexivity|].
  rewrite sumZ_cons, IH, Hw. unfold zlen. cbn [length]. lia.
Qed.

Lemma sumZ_all_one : forall rs, Forall (fun r => r = 1) rs -> sumZ rs = zlen rs.
Proof. intros rs H. rewrite (sumZ_all_eq rs 1 H). lia. Qed.

(* ------------------------------------------------------------------ round_div under a cap *)
(* q = round(rem / tr) with rem <= tr * K: q <= K, and what is left fits the remaining tr - 1 slots *)
Lemma round_div_cap rem tr K : 1 <= tr -> 0 <= rem -> 0 <= K -> rem <= tr * K ->
  let q := round_div (1 * rem) tr in
  0 <= q <= rem /\ q <= K /\ rem - q <= (tr - 1) * K.
Proof.
  intros Ht Hrem HK Hcap q.
  pose proof (round_div_share 1 rem tr ltac:(lia) ltac:(lia) Hrem) as Hs. fold q in Hs.
  pose proof (round_div_bounds (1 * rem) tr ltac:(lia)) as Hb. fold q in Hb.
  replace (1 * rem) with rem in Hb by lia.
  split; [exact Hs|]. split.
  - destruct (Z_lt_le_dec K q) as [Hq|Hq]; [exfalso|exact Hq].
    assert (tr * (2 * (K + 1)) <= tr * (2 * q)) by (apply Z.mul_le_mono_nonneg_l; lia). lia.
  - destruct (Z_lt_le_dec ((tr - 1) * K) (rem - q)) as [Hq|Hq]; [exfalso|exact Hq].
    assert (H1 : (tr - 1) * rem <= (tr - 1) * (tr * K)) by (apply Z.mul_le_mono_nonneg_l; lia).
    assert (H2 : tr * ((tr - 1) * K + 1) <= tr * (rem - q)) by (apply Z.mul_le_mono_nonneg_l; lia).
    lia.
Qed.

(* every ratio 1 (all columns at the maximum), rem <= tr * K: every amount is at most K *)
Lemma amounts_allone : forall ratios maxs rem tr K,
  length maxs = length ratios -> Forall (fun r => r = 1) ratios -> tr = sumZ ratios ->
  0 <= rem -> 0 <= K -> rem <= tr * K ->
  Forall (fun m => rem <= m \/ K <= m) maxs ->
  Forall (fun a => 0 <= a <= K) (amounts ratios maxs rem tr).
Proof.
  induction ratios as [|r rs IH]; intros [|m ms] rem tr K Hlen Hr Htr Hrem HK Hcap Hm; try discriminate.
  - constructor.
  - inversion Hr as [|? ? Hr1 Hrs]; inversion Hm as [|? ? Hm0 Hms]; subst.
    rewrite sumZ_cons in *.
    assert (Hs : 0 <= sumZ rs) by (rewrite (sumZ_all_one rs Hrs); unfold zlen; lia).
    cbn [amounts]. replace (negb (1 =? 0) && (0 <? 1 + sumZ rs)) with true by lia.
    destruct (round_div_cap rem (1 + sumZ rs) K ltac:(lia) Hrem HK Hcap) as [Q1 [Q2 Q3]].
    cbv zeta in Q1, Q2, Q3.
    set (q := round_div (1 * rem) (1 + sumZ rs)) in *.
    assert (Hd : Z.min m q = q) by lia. rewrite Hd.
    constructor; [lia|].
    apply IH; try assumption; try lia.
    + simpl in Hlen; lia.
    + eapply Forall_impl; [|exact Hms]. cbv beta. lia.
Qed.

Lemma zsub_all_eq_pos : forall ws al L, Forall (fun w => w = L) ws -> Forall (fun a => 0 <= a <= L - 1) al ->
  Forall (fun w => 1 <= w) (zsub ws al).
Proof.
  induction ws as [|w ws IH]; intros [|a al] L Hw Ha; cbn [zsub]; try constructor.
  - inversion Hw; inversion Ha; subst. lia.
  - inversion Hw; inversion Ha; subst. eapply IH; eassumption.
Qed.

(* some column is below the maximum: the maximal ones are lowered to the second maximum at most *)
Lemma zsub_max_pos : forall ws wr ms al Mx S,
  length wr = length ws -> amt_ok (max_ratios ws wr Mx) ms al ->
  Forall (fun m => m <= Mx - S) ms -> Forall (fun w => 1 <= w) ws -> 1 <= S ->
  Forall (fun w => 1 <= w) (zsub ws al).
Proof.
  induction ws as [|w ws IH]; intros [|a wr] ms al Mx S Hl Ha Hm Hw HS; try discriminate.
  - inversion Ha; subst. constructor.
  - unfold max_ratios, zipw in Ha. cbn [combine map] in Ha.
    inversion Ha as [|r m x rs ms' al' Hx Hr0 Hrest]; subst.
    inversion Hm; subst. inversion Hw; subst. cbn [zsub]. constructor.
    + destruct ((w =? Mx) && a) eqn:E; [lia|]. rewrite Hr0 by reflexivity. lia.
    + apply (IH wr ms' al' Mx S); [simpl in Hl; lia|exact Hrest|assumption|assumption|exact HS].
Qed.

(* the second maximum is 0 and every column is wrapable and >= 1: all columns are at the maximum *)
Lemma second_zero_all_max : forall ws al Mx, length al = length ws -> forallb (fun a : bool => a) al = true ->
  Forall (fun w => 1 <= w) ws -> Forall (fun y => y <= 0) (second_cands ws al Mx) ->
  Forall (fun w => w = Mx) ws /\ Forall (fun r => r = 1) (max_ratios ws al Mx).
Proof.
  induction ws as [|w ws IH]; intros [|a al] Mx Hl Ha Hw Hc; try discriminate.
  - split; constructor.
  - simpl in Ha. apply andb_true_iff in Ha as [-> Ha]. inversion Hw; subst.
    unfold second_cands, max_ratios, zipw in *. cbn [combine map] in *. inversion Hc; subst.
    destruct (IH al Mx ltac:(simpl in Hl; lia) Ha ltac:(assumption) ltac:(assumption)) as [I1 I2].
    destruct (w =? Mx) eqn:E.
    + split; constructor; try assumption; [lia|reflexivity].
    + exfalso. cbn [andb negb] in *. lia.
Qed.

(* ------------------------------------------------------------------ one pass keeps 1 <= w *)
Lemma collapse_step_pos ws al excess ws' :
  length al = length ws -> forallb (fun a : bool => a) al = true ->
  Forall (fun w => 1 <= w) ws -> 0 < excess -> excess <= sumZ ws - zlen ws ->
  collapse_step ws al excess = Ok (Some ws') -> Forall (fun w => 1 <= w) ws'.
Proof.
  intros Hl Ha Hw Hex Hroom. unfold collapse_step.
  rewrite (sel_all_wrapable ws al Hl Ha).
  destruct (max_list ws) as [Mx|] eqn:HM; [|discriminate].
  destruct (max_list_spec _ _ HM) as [HMin HMle].
  assert (HM1 : 1 <= Mx) by (rewrite Forall_forall in Hw; apply Hw; exact HMin).
  assert (Hw0 : Forall (fun w => 0 <= w) ws) by (eapply Forall_impl; [|exact Hw]; simpl; lia).
  assert (HMle' : Forall (fun y => y <= Mx) (sel_wrapable ws al)) by (rewrite (sel_all_wrapable ws al Hl Ha); exact HMle).
  destruct (second_cands_facts ws al Mx Hl Hw0 HMle' ltac:(lia)) as [Hc Hcl].
  destruct (max_list (second_cands ws al Mx)) as [S|] eqn:HS; [|discriminate].
  destruct (max_list_spec _ _ HS) as [HSin HSle].
  rewrite Forall_forall in Hc. destruct (Hc S HSin) as [HS0 HS1].
  destruct (max_ratios_facts ws al Mx Hl) as [R1 [R2 R3]].
  destruct (negb (any_nonzero (max_ratios ws al Mx)) || (Mx - S =? 0)) eqn:Ec; [discriminate|].
  apply orb_false_iff in Ec as [_ Ed].
  intros H. injection H as <-.
  set (mr := Z.min excess (Mx - S)).
  assert (Hmr : 1 <= mr <= Mx - S) by (unfold mr; lia).
  set (maxs := repeat mr (length ws)).
  assert (Hml : length maxs = length (max_ratios ws al Mx)) by (unfold maxs; rewrite repeat_length; lia).
  assert (Hmall : forall P : Z -> Prop, P mr -> Forall P maxs).
  { intros P HP. apply Forall_forall. intros x Hx. apply repeat_spec in Hx. subst. exact HP. }
  unfold ratio_reduce. rewrite zip_mask_id; [|exact Hml|apply Hmall; lia].
  destruct (sumZ (max_ratios ws al Mx) =? 0) eqn:Ez; [exact Hw|].
  rewrite reduce_loop_amounts.
  destruct (Z_lt_le_dec S 1) as [HSz|HSp].
  - (* all columns equal *)
    assert (S = 0) by lia. subst S.
    destruct (second_zero_all_max ws al Mx Hl Ha Hw HSle) as [Hall Hone].
    apply (zsub_all_eq_pos ws _ Mx Hall).
    apply amounts_allone; try assumption; try reflexivity; try lia.
    + rewrite (sumZ_all_one _ Hone). unfold zlen. rewrite R2.
      rewrite (sumZ_all_eq ws Mx Hall) in Hroom. unfold zlen in *. lia.
    + apply Hmall. unfold mr. lia.
  - destruct (amounts_bound (max_ratios ws al Mx) maxs excess _ Hml eq_refl R1 ltac:(apply Hmall; lia) ltac:(lia)) as [A1 _].
    cbv zeta in A1.
    apply (zsub_max_pos ws al maxs _ Mx S Hl A1); [apply Hmall; lia|exact Hw|exact HSp].
Qed.

(* ------------------------------------------------------------------ the loop *)
Lemma collapse_loop_pos M al : forall fuel ws out,
  length al = length ws -> forallb (fun a : bool => a) al = true -> existsb (fun b => b) al = true ->
  Forall (fun w => 1 <= w) ws -> zlen ws <= M ->
  collapse_loop fuel ws al M = Ok out -> Forall (fun w => 1 <= w) out.
Proof.
  induction fuel as [|f IH]; intros ws out Hl Ha He Hw HM; [discriminate|].
  cbn [collapse_loop].
  destruct (negb (sumZ ws =? 0) && (0 <? sumZ ws - M)) eqn:E.
  - assert (Hw0 : Forall (fun w => 0 <= w) ws) by (eapply Forall_impl; [|exact Hw]; simpl; lia).
    destruct (collapse_step_spec ws al (sumZ ws - M) Hl Hw0 He ltac:(lia)) as [[H1 _]|[ws' [H1 [H2 _]]]].
    + rewrite H1. intros H. injection H as <-. exact Hw.
    + rewrite H1. destruct (step_ok_facts _ _ _ H2) as [F1 [F2 _]].
      pose proof (collapse_step_pos ws al (sumZ ws - M) ws' Hl Ha Hw ltac:(lia) ltac:(lia) H1) as Hp.
      apply IH; try assumption; [lia|unfold zlen in *; lia].
  - intros H. injection H as <-. exact Hw.
Qed.

(* GOAL 1 *)
Lemma collapse_keeps_pos : forall widths wrapable M out,
  length wrapable = length widths -> Forall (fun b => b = true) wrapable ->
  Forall (fun w => 1 <= w) widths -> zlen widths <= M ->
  collapse_widths widths wrapable M = Ok out ->
  Forall (fun w => 1 <= w) out /\ length out = length widths /\
  sumZ out <= Z.max M (sumZ widths) /\ (M < sumZ widths -> sumZ out = M).
Proof.
  intros ws al M out Hl Hall Hw HM Hc.
  pose proof (Forall_true_forallb al Hall) as Ha.
  assert (Hw0 : Forall (fun w => 0 <= w) ws) by (eapply Forall_impl; [|exact Hw]; simpl; lia).
  destruct (collapse_widths_spec ws al M Hl Hw0) as [out' [O1 [O2 O3]]].
  rewrite Hc in O1. injection O1 as <-.
  destruct (step_ok_facts _ _ _ O3) as [F1 [F2 [F3 [F4 [F5 F6]]]]].
  split; [|split; [exact F1|split; [lia|]]].
  - unfold collapse_widths, collapse_widths_fuel in Hc.
    destruct (existsb (fun b => b) al) eqn:He.
    + eapply collapse_loop_pos; eassumption.
    + injection Hc as <-. exact Hw.
  - intros Hlt. unfold collapse_ok_b in O2. rewrite Ha in O2.
    apply andb_true_iff in O2 as [_ O2].
    replace (0 <=? M) with true in O2 by (unfold zlen in *; lia).
    replace (M <? sumZ ws) with true in O2 by lia.
    cbn [andb] in O2. lia.
Qed.

(* ================================================================== GOAL 2: the solved widths fit *)
Definition cell_fun_ok (f : Z -> Z * Z) : Prop :=
  forall w, 0 <= fst (f w) /\ fst (f w) <= snd (f w) /\ snd (f w) <= Z.max w 0.

Definition col_free (c : tcol) : Prop :=
  c_width c = None /\ c_minw c = None /\ c_nowrap c = false /\
  (match c_maxw c with Some w => 1 <= w | None => True end) /\
  (match c_ratio c with Some x => 1 <= x | None => True end) /\ Forall cell_fun_ok (c_cells c).

Definition pad_ok (o : topts) : Prop := let '(t, r, b, l) := o_pad o in 0 <= r /\ 0 <= l.

Lemma padding_width_nonneg o i : pad_ok o -> 0 <= padding_width o i.
Proof.
  unfold pad_ok, padding_width, pad_left, pad_right. destruct (o_pad o) as [[[t r] b] l]. intros [Hr Hl].
  destruct (o_collapse o && (0 <? i)%nat); lia.
Qed.

Lemma max_or_nonneg l d : Forall (fun x => 0 <= x) l -> 0 <= d -> 0 <= max_or l d.
Proof.
  intros Hl Hd. unfold max_or. destruct (max_list l) as [m|] eqn:E; [|exact Hd].
  destruct (max_list_spec _ _ E) as [Hin _]. rewrite Forall_forall in Hl. apply Hl. exact Hin.
Qed.

Lemma or1_pos x : 0 <= x -> 1 <= or1 x.
Proof. intros H. unfold or1. destruct (x =? 0) eqn:E; lia. Qed.

Lemma or1_le x W : 0 <= x <= W -> 1 <= W -> or1 x <= W.
Proof. intros H HW. unfold or1. destruct (x =? 0) eqn:E; lia. Qed.

(* a free column measured at any width: the maximum is in [0, width] (0 at widths below 1) *)
Lemma measure_column_snd o i c W : pad_ok o -> col_free c ->
  0 <= snd (measure_column o i c W) /\ (1 <= W -> snd (measure_column o i c W) <= W).
Proof.
  intros Hp [Hcw [Hmn [_ [Hmx [_ Hcells]]]]]. pose proof (padding_width_nonneg o i Hp) as Hpw.
  unfold measure_column. destruct (W <? 1) eqn:EW; [cbn [snd]; lia|].
  rewrite Hcw, Hmn.
  set (X := max_or (map snd (map (fun f : Z -> Z * Z => f W) (c_cells c))) W).
  assert (HX : 0 <= X).
  { apply max_or_nonneg; [|lia]. apply Forall_forall. intros x Hx.
    apply in_map_iff in Hx as [p [<- Hp']]. apply in_map_iff in Hp' as [f [<- Hf]].
    rewrite Forall_forall in Hcells. destruct (Hcells f Hf W) as [H1 [H2 _]]. lia. }
  unfold tm_clamp, tm_with_maximum. destruct (c_maxw c) as [mw|]; cbn [fst snd]; lia.
Qed.

Lemma indexed_length {A} : forall (l : list A) k, length (indexed k l) = length l.
Proof. induction l as [|x l IH]; intros k; simpl; [reflexivity|f_equal; apply IH]. Qed.

Lemma indexed_forall {A} (P : A -> Prop) : forall (l : list A) k, Forall P l ->
  Forall (fun ic => P (snd ic)) (indexed k l).
Proof. induction l as [|x l IH]; intros k H; simpl; [constructor|]. inversion H; subst. constructor; [assumption|apply IH; assumption]. Qed.

Lemma filter_indexed_length {A} (f : A -> bool) : forall (l : list A) k,
  length (filter (fun ic => f (snd ic)) (indexed k l)) = length (filter f l).
Proof.
  induction l as [|x l IH]; intros k; simpl; [reflexivity|].
  destruct (f x); simpl; [f_equal|]; apply IH.
Qed.

(* the starting widths *)
Lemma initial_widths_pos o M : pad_ok o -> forall icols, Forall (fun ic => col_free (snd ic)) icols ->
  let ranges := map (fun '(i, c) => measure_column o i c M) icols in
  Forall (fun r => 0 <= snd r) ranges /\ Forall (fun w => 1 <= w) (map (fun r => or1 (snd r)) ranges).
Proof.
  intros Hp. induction 1 as [|[i c] icols Hc _ IH]; cbn [map]; [split; constructor|].
  cbv zeta in IH. destruct IH as [I1 I2]. cbn [snd] in Hc.
  destruct (measure_column_snd o i c M Hp Hc) as [H1 _].
  split; constructor; try assumption. apply or1_pos. exact H1.
Qed.

(* the re-measure after the collapse: every width stays in [1, what it was] *)
Lemma remeasure_pos o : pad_ok o -> forall w1 icols,
  Forall (fun w => 1 <= w) w1 -> length w1 = length icols -> Forall (fun ic => col_free (snd ic)) icols ->
  let w3 := map (fun '(w, (i, c)) => or1 (snd (measure_column o i c w))) (combine w1 icols) in
  Forall (fun w => 1 <= w) w3 /\ sumZ w3 <= sumZ w1 /\ length w3 = length w1.
Proof.
  intros Hp. induction w1 as [|w w1 IH]; intros [|[i c] icols] Hw Hl Hc; try discriminate.
  - cbn. repeat split; [constructor|lia].
  - inversion Hw; inversion Hc; subst. cbn [combine map].
    destruct (IH icols ltac:(assumption) ltac:(simpl in Hl; lia) ltac:(assumption)) as [I1 [I2 I3]].
    cbv zeta in I1, I2, I3. cbn [snd] in *.
    destruct (measure_column_snd o i c w Hp ltac:(assumption)) as [Ms1 Ms2]. specialize (Ms2 ltac:(assumption)).
    pose proof (or1_pos _ Ms1). pose proof (or1_le _ w (conj Ms1 Ms2) ltac:(assumption)).
    rewrite !sumZ_cons. repeat split; [constructor; assumption|lia|simpl; f_equal; exact I3].
Qed.

Lemma assign_flex_pos : forall cols ws fixed flex out,
  assign_flex cols ws fixed flex = Ok out ->
  Forall (fun w => 1 <= w) ws -> Forall (fun f => 0 <= f) fixed -> Forall (fun x => 1 <= x) flex ->
  Forall (fun w => 1 <= w) out /\ length out = length ws.
Proof.
  induction cols as [|c cs IH]; intros ws fixed flex out H Hw Hf Hx.
  - cbn [assign_flex] in H. injection H as <-. split; [exact Hw|reflexivity].
  - destruct ws as [|w ws]; [cbn [assign_flex] in H; injection H as <-; split; [constructor|reflexivity]|].
    destruct fixed as [|f fs]; [cbn [assign_flex] in H; injection H as <-; split; [exact Hw|reflexivity]|].
    inversion Hw; inversion Hf; subst. cbn [assign_flex] in H.
    destruct (flexible c).
    + destruct flex as [|x flex']; [discriminate|]. inversion Hx; subst.
      destruct (assign_flex cs ws fs flex') as [rest| |] eqn:E; cbn [bind] in H; try discriminate.
      injection H as <-. destruct (IH _ _ _ _ E) as [I1 I2]; try assumption.
      split; [constructor; [lia|exact I1]|simpl; f_equal; exact I2].
    + destruct (assign_flex cs ws fs flex) as [rest| |] eqn:E; cbn [bind] in H; try discriminate.
      injection H as <-. destruct (IH _ _ _ _ E) as [I1 I2]; try assumption.
      split; [constructor; [assumption|exact I1]|simpl; f_equal; exact I2].
Qed.

Lemma distribute_min_pos : forall mins out, distribute_min_b mins out = true ->
  Forall (fun m => 1 <= m) mins -> Forall (fun x => 1 <= x) out.
Proof.
  unfold distribute_min_b. induction mins as [|m ms IH]; intros [|x out] H Hm; try discriminate; [constructor|].
  cbn [forall2b] in H. apply andb_true_iff in H as [H1 H2]. inversion Hm; subst.
  constructor; [lia|apply IH; assumption].
Qed.

Lemma indexed_in {A} : forall (l : list A) k i x, In (i, x) (indexed k l) -> In x l.
Proof.
  induction l as [|y l IH]; intros k i x H; simpl in *; [contradiction|].
  destruct H as [H|H]; [left; congruence|right; eapply IH; exact H].
Qed.

(* the last step: pad up to max_width when expanding *)
Lemma finish_fits o wf M ws : wf <> [] -> Forall (fun w => 1 <= w) wf -> sumZ wf <= M ->
  (if (sumZ wf <? M) && t_expand o
   then do pad <- ratio_distribute (M - sumZ wf) wf None; Ok (zip_add wf pad)
   else Ok wf) = Ok ws ->
  length ws = length wf /\ Forall (fun w => 1 <= w) ws /\ sumZ ws <= M /\ (t_expand o = true -> sumZ ws = M).
Proof.
  intros Hne Hpos Hfit.
  assert (Hs0 : 0 < sumZ wf).
  { destruct wf as [|w wf]; [congruence|]. inversion Hpos; subst.
    rewrite sumZ_cons. assert (0 <= sumZ wf) by (apply sumZ_nonneg; eapply Forall_impl; [|eassumption]; simpl; lia). lia. }
  assert (Hnn : Forall (fun r => 0 <= r) wf) by (eapply Forall_impl; [|exact Hpos]; simpl; lia).
  destruct ((sumZ wf <? M) && t_expand o) eqn:Ec.
  - destruct (ratio_distribute_sum (M - sumZ wf) wf ltac:(lia) Hnn Hs0) as [pad [P1 [P2 [P3 P4]]]].
    rewrite P1. cbn [bind]. unfold distribute_sum_b in P2. intros H. injection H as <-.
    split; [unfold zip_add; rewrite map_length, combine_length; lia|].
    split; [apply zip_add_ge; [lia|assumption|assumption]|].
    rewrite zip_add_sum by lia. lia.
  - intros H. injection H as <-. repeat split; try assumption. intros Hex. rewrite Hex in Ec. lia.
Qed.

Theorem calc_widths_fits : forall o cols M ws,
  o_width o = None -> o_minw o = None -> cols <> [] -> Forall col_free cols ->
  (let '(t, r, b, l) := o_pad o in 0 <= r /\ 0 <= l) ->
  zlen cols <= M -> calc_widths false false o cols M = Ok ws ->
  length ws = length cols /\ Forall (fun w => 1 <= w) ws /\ sumZ ws <= M /\ (t_expand o = true -> sumZ ws = M).
Proof.
  intros o cols M ws _ Hmw Hne Hfree Hp HM. fold (pad_ok o) in Hp.
  unfold calc_widths. rewrite Hmw. cbv zeta.
  pose proof (indexed_forall col_free cols 0%nat Hfree) as Hifree.
  destruct (initial_widths_pos o M Hp _ Hifree) as [Hr0 Hw0]. cbv zeta in Hr0, Hw0.
  set (icols := indexed 0 cols) in *.
  set (ranges := map (fun '(i, c) => measure_column o i c M) icols) in *.
  set (ws0 := map (fun r => or1 (snd r)) ranges) in *.
  assert (Hl0 : length ws0 = length cols).
  { unfold ws0, ranges, icols. rewrite !map_length. apply indexed_length. }
  (* stage 1: the ratio columns *)
  match goal with |- bind ?e _ = _ -> _ => destruct e as [wd|e1|k1] eqn:E1 end; cbn [bind]; try discriminate.
  assert (H1 : Forall (fun w => 1 <= w) wd /\ length wd = length cols).
  { destruct (t_expand o); [|injection E1 as <-; split; assumption].
    destruct (any_nonzero _) in E1; [|injection E1 as <-; split; assumption].
    match type of E1 with bind ?e _ = _ => destruct e as [fw| |] eqn:Ed end; cbn [bind] in E1; try discriminate.
    match type of Ed with ratio_distribute _ ?r (Some ?m) = _ => set (ratios := r) in *; set (flex_min := m) in * end.
    assert (Hrat : Forall (fun r => 1 <= r) ratios).
    { unfold ratios. apply Forall_forall. intros x Hx. apply in_map_iff in Hx as [c [<- Hc]].
      apply filter_In in Hc as [Hc Hfl]. rewrite Forall_forall in Hfree.
      destruct (Hfree c Hc) as [_ [_ [_ [_ [Hr _]]]]]. unfold flexible in Hfl. unfold opt_or.
      destruct (c_ratio c) as [x|]; [|discriminate]. destruct (x =? 0) eqn:Ex; lia. }
    assert (Hmin : Forall (fun m => 1 <= m) flex_min).
    { unfold flex_min. apply Forall_forall. intros x Hx. apply in_map_iff in Hx as [[i c] [<- Hc]].
      apply filter_In in Hc as [Hc _]. apply indexed_in in Hc. rewrite Forall_forall in Hfree.
      destruct (Hfree c Hc) as [Hcw _]. rewrite Hcw. cbn [opt_or].
      pose proof (padding_width_nonneg o i Hp). lia. }
    assert (Hlm : length flex_min = length ratios).
    { unfold flex_min, ratios. rewrite !map_length. apply filter_indexed_length. }
    assert (Hzm : zip_mask ratios flex_min = ratios).
    { apply zip_mask_id; [exact Hlm|]. eapply Forall_impl; [|exact Hmin]. cbv beta. lia. }
    pose proof (ratio_distribute_min _ ratios flex_min fw
                  ltac:(rewrite Hzm; eapply Forall_impl; [|exact Hrat]; cbv beta; lia) Hlm Ed) as Hdm.
    pose proof (distribute_min_pos _ _ Hdm Hmin) as Hfw.
    match type of E1 with assign_flex _ _ ?fx _ = _ => assert (Hfix : Forall (fun z => 0 <= z) fx) end.
    { apply Forall_forall. intros x Hx. apply in_map_iff in Hx as [[r c] [<- Hrc]].
      destruct (flexible c); [lia|]. apply in_combine_l in Hrc. rewrite Forall_forall in Hr0. apply Hr0. exact Hrc. }
    destruct (assign_flex_pos _ _ _ _ _ E1 Hw0 Hfix Hfw) as [A1 A2]. split; [exact A1|lia]. }
  clear E1. destruct H1 as [Hwd Hld].
  (* stage 2: collapse and re-measure *)
  match goal with |- bind ?e _ = _ -> _ => destruct e as [[wf twf]|e2|k2] eqn:E2 end; cbn [bind]; try discriminate.
  assert (H2 : Forall (fun w => 1 <= w) wf /\ length wf = length cols /\ twf = sumZ wf /\ twf <= M).
  { destruct (M <? sumZ wd) eqn:Elt.
    - match type of E2 with bind ?e _ = _ => destruct e as [w1| |] eqn:Ec end; cbn [bind] in E2; try discriminate.
      apply collapse_keeps_pos in Ec; [| | |exact Hwd|unfold zlen in *; lia].
      + destruct Ec as [C1 [C2 [C3 C4]]]. specialize (C4 ltac:(lia)).
        replace (M <? sumZ w1) with false in E2 by lia. cbv beta iota in E2.
        injection E2 as <- <-.
        destruct (remeasure_pos o Hp w1 icols C1 ltac:(unfold icols; rewrite indexed_length; lia) Hifree) as [R1 [R2 R3]].
        cbv zeta in R1, R2, R3. repeat split; [exact R1|lia|lia].
      + rewrite map_length. lia.
      + apply Forall_forall. intros b Hb. apply in_map_iff in Hb as [c [<- Hc]].
        rewrite Forall_forall in Hfree. destruct (Hfree c Hc) as [Hcw [_ [Hnw _]]].
        unfold wrapable. rewrite Hcw, Hnw. reflexivity.
    - injection E2 as <- <-. repeat split; [exact Hwd|exact Hld|lia]. }
  clear E2. destruct H2 as [Hwf [Hlf [-> Hfit]]].
  (* stage 3: expand *)
  rewrite orb_false_r. intros Hfin.
  destruct (finish_fits o wf M ws ltac:(destruct wf; [destruct cols; [congruence|discriminate]|discriminate]) Hwf Hfit Hfin)
    as [F1 F2].
  split; [lia|exact F2].
Qed.
