(* C19 round trip, part 6: the encoding of clean runs contains no str.splitlines boundary (in
   particular no CR), the splitlines step of AnsiDecoder.decode, several lines. *)
From RichModel Require Import Prelude Color Style AnsiDecode FileProxy SpecDecode.
From RichGen Require Import AnsiRegex SgrMap StyleTables.
From RichProofs Require Import AnsiDecodeP FileProxyP AnsiDecodeP2 AnsiDecodeP3 AnsiDecodeP4 AnsiDecodeP5 AnsiDecodeP6.

(* not LF, not CR, none of the other str.splitlines boundaries *)
Definition nb (c : Z) : bool := negb (c =? 10) && negb (c =? 13) && negb (is_line_boundary c).
Definition nb_str (s : str) : Prop := forallb nb s = true.

Lemma nb_app a b : nb_str a -> nb_str b -> nb_str (a ++ b).
Proof. unfold nb_str. intros. rewrite forallb_app. apply andb_true_iff. auto. Qed.

Lemma nb_lacks13 s : nb_str s -> lacks 13 s.
Proof.
  unfold nb_str, lacks. induction s as [|c s IH]; [reflexivity|]. cbn [forallb]. intros H.
  apply andb_true_iff in H. destruct H as [H1 H2]. unfold nb in H1.
  apply andb_true_iff in H1. destruct H1 as [H1 _]. apply andb_true_iff in H1. destruct H1 as [_ H1].
  rewrite H1, (IH H2). reflexivity.
Qed.

(* ------------------------------------------------------------------ the encoding is boundary-free *)
Lemma digits_nb_sweep : forallb (fun k => forallb nb (str_of_Z k)) (map Z.of_nat (seq 0 256)) = true.
Proof. vm_compute. reflexivity. Qed.

Lemma join_nb (l : list str) : Forall nb_str l -> nb_str (str_join [59] l).
Proof.
  intros H. induction H as [|x l Hx _ IH]; [reflexivity|]. destruct l as [|y l]; [exact Hx|].
  cbn [str_join]. apply nb_app; [exact Hx|]. apply nb_app; [reflexivity|exact IH].
Qed.

Lemma attrs_nb s : wf_style s -> nb_str (ATTRS s).
Proof.
  intros W. destruct (sgr_list_nums s W) as [_ N]. unfold ATTRS. apply join_nb.
  induction N as [|k ks Hk _ IH]; [constructor|]. cbn [map]. constructor; [|exact IH].
  exact (forall_range _ 256 digits_nb_sweep k Hk).
Qed.

Lemma sgr_wrap_nb attrs text : nb_str attrs -> nb_str text -> nb_str (sgr_wrap attrs text).
Proof.
  intros Ha Ht. unfold sgr_wrap, ESC. destruct attrs as [|a attrs]; [exact Ht|].
  repeat apply nb_app; try assumption; reflexivity.
Qed.
Lemma link_wrap_nb lid link r : nb_str lid -> nb_str link -> nb_str r -> nb_str (link_wrap lid link r).
Proof. intros. unfold link_wrap, ESC. repeat apply nb_app; try assumption; reflexivity. Qed.

(* Style.render in truecolor, for a fresh well-formed style and non-empty text *)
Lemma style_render_form s text lid : wf_style s -> s_ansi s = None -> text <> [] ->
  style_render s text (Some CS_TRUECOLOR) false lid
  = Ok (match s_link s with
        | Some (l0 :: l) => link_wrap lid (l0 :: l) (sgr_wrap (ATTRS s) text)
        | _ => sgr_wrap (ATTRS s) text
        end).
Proof.
  intros W HA Hne. unfold style_render. destruct text as [|c t]; [contradiction|].
  unfold make_ansi_codes_memo. rewrite HA. unfold make_ansi_codes.
  rewrite (proj1 (sgr_list_nums s W)). cbn [bind]. fold (ATTRS s).
  destruct (s_link s) as [[|l0 l]|]; reflexivity.
Qed.

Definition link_nb (o : option str) : Prop := match o with Some l => nb_str l | None => True end.
(* run_ok plus: neither the text nor the link contains a line boundary *)
Definition run_ok2 (r : run) : Prop :=
  run_ok r /\ nb_str (fst r) /\ match snd r with Some s => link_nb (s_link s) | None => True end.
Definition lid_ok2 (lid : str) : Prop := lid_ok lid /\ nb_str lid.

Lemma encode_run_nb lid r e : lid_ok2 lid -> run_ok2 r -> encode_run lid r = Ok e -> nb_str e.
Proof.
  intros [_ Hlid] [[_ Hs] [Ht Hl]] He. destruct r as [text o]. cbn [fst snd] in *. unfold encode_run in He. cbn [fst snd] in He.
  destruct o as [s|]; [|inversion He; subst; exact Ht].
  destruct (style_bool s); [|inversion He; subst; exact Ht].
  destruct Hs as [W [HA _]].
  destruct text as [|c t] eqn:ET; [cbn in He; inversion He; reflexivity|]. rewrite <- ET in *.
  rewrite (style_render_form s text lid W HA) in He by (rewrite ET; discriminate). inversion He. subst e.
  pose proof (sgr_wrap_nb _ _ (attrs_nb s W) Ht) as HW.
  destruct (s_link s) as [[|l0 l]|]; try exact HW. apply link_wrap_nb; assumption.
Qed.

Lemma encode_line_nb lid : lid_ok2 lid -> forall runs e, Forall run_ok2 runs -> encode_line lid runs = Ok e -> nb_str e.
Proof.
  intros HL runs. induction runs as [|r rs IH]; intros e HF He.
  - cbn in He. inversion He. reflexivity.
  - inversion HF as [|? ? Hr HF']. subst. cbn [encode_line] in He.
    destruct (encode_run lid r) as [a| |] eqn:Ea; try discriminate. cbn [bind] in He.
    destruct (encode_line lid rs) as [b| |] eqn:Eb; try discriminate. cbn [bind] in He. inversion He. subst e.
    apply nb_app; [exact (encode_run_nb lid r a HL Hr Ea)|exact (IH b HF' eq_refl)].
Qed.

(* ------------------------------------------------------------------ str.splitlines on a boundary-free line + LF *)
Lemma splitlines_line : forall l cur rest, nb_str l ->
  splitlines_go (l ++ 10 :: rest) cur = (rev cur ++ l) :: splitlines_go rest [].
Proof.
  induction l as [|c l IH]; intros cur rest H.
  - cbn [app splitlines_go]. change (10 =? 13) with false. change (10 =? 10) with true. cbn [orb]. cbv iota.
    rewrite app_nil_r. reflexivity.
  - unfold nb_str in H. cbn [forallb] in H. apply andb_true_iff in H. destruct H as [H1 H2].
    unfold nb in H1. apply andb_true_iff in H1. destruct H1 as [H1 H1c]. apply andb_true_iff in H1. destruct H1 as [H1a H1b].
    apply negb_true_iff in H1a, H1b, H1c.
    cbn [app splitlines_go]. rewrite H1b, H1a, H1c. cbn [orb]. rewrite (IH (c :: cur) rest H2).
    cbn [rev]. rewrite <- app_assoc. reflexivity.
Qed.

(* AnsiDecoder.decode: the first line of the stream is decoded first and the decoder state it leaves is
   the state the rest of the stream is decoded with -- for ANY first line free of line boundaries,
   whatever escape sequences it opens or leaves open *)
Theorem decode_threads fx st l rest : nb_str l ->
  decode fx st (l ++ 10 :: rest) = decode_lines fx st (l :: splitlines rest).
Proof. intros H. unfold decode, splitlines. rewrite (splitlines_line l [] rest H). reflexivity. Qed.

(* ------------------------------------------------------------------ several lines *)
Theorem decode_encode_lines lid : lid_ok2 lid -> forall t e st,
  Forall (Forall run_ok2) t -> encode_lines lid t = Ok e -> clean st None ->
  exists st' d, decode true st e = (st', Ok d)
    /\ Forall2 (fun runs ps => vchars ps = vchars runs) t d /\ clean st' None.
Proof.
  intros HL t. induction t as [|runs t IH]; intros e st HF He Hc.
  - cbn in He. inversion He. subst e. exists st, []. split; [reflexivity|]. split; [constructor|exact Hc].
  - inversion HF as [|? ? Hr HF']. subst. cbn [encode_lines] in He.
    destruct (encode_line lid runs) as [a| |] eqn:Ea; try discriminate. cbn [bind] in He.
    destruct (encode_lines lid t) as [b| |] eqn:Eb; try discriminate. cbn [bind] in He. inversion He. subst e.
    pose proof (encode_line_nb lid HL runs a Hr Ea) as Na.
    assert (Hr1 : Forall run_ok runs) by (eapply Forall_impl; [|exact Hr]; intros r [H _]; exact H).
    destruct (decode_encode_line lid runs a st (proj1 HL) Hr1 Ea (nb_lacks13 a Na) Hc) as [st1 [ps [D1 [V1 C1]]]].
    destruct (IH b st1 HF' eq_refl C1) as [st2 [d [D2 [F2 C2]]]].
    exists st2, (ps :: d). split; [|split; [constructor; assumption|exact C2]].
    cbn [app]. rewrite (decode_threads true st a b Na). cbn [decode_lines]. rewrite D1.
    fold (decode true st1 b). rewrite D2. reflexivity.
Qed.

Lemma roundtrip_of_Forall2 t d : Forall2 (fun runs ps => vchars ps = vchars runs) t d -> roundtrip_b t d = true.
Proof.
  intros H. unfold roundtrip_b. induction H as [|runs ps t d E _ IH]; [reflexivity|].
  cbn [map lines_eqb]. rewrite E, vchars_eqb_refl. exact IH.
Qed.
