(* C02 proofs, part 5: Lines.justify(justify="full") on one line: no non-whitespace character is lost
   and the right-stripped result still fits. *)
From RichModel Require Import Prelude Cells SpecCells Wrap SpecWrap.
From RichGen Require Import UnicodeSpace WrapFacts.
From RichProofs Require Import CellsP WrapP2.
From Coq Require Import ZifyBool.

(* ------------------------------------------------------------------ generic list facts *)
Lemma filter_app_one {A} (P : A -> bool) l x : P x = true -> filter P (l ++ [x]) = filter P l ++ [x].
Proof. intros H. rewrite filter_app. cbn [filter]. rewrite H. reflexivity. Qed.

Lemma map_filter_comm {A B} (g : A -> B) (P : B -> bool) : forall l,
  map g (filter (fun x => P (g x)) l) = filter P (map g l).
Proof.
  induction l as [|x l IH]; [reflexivity|]. cbn [filter map].
  destruct (P (g x)); cbn [map]; rewrite IH; reflexivity.
Qed.

(* ------------------------------------------------------------------ the pieces of split(sep), structurally *)
Definition offs2 (sep : Z) (s : str) (i : Z) : list Z :=
  concat (map (fun p => [p; p + 1]) (sep_positions sep s i)).

Lemma offs2_shift sep : forall s i, offs2 sep s (i + 1) = map (fun z => z + 1) (offs2 sep s i).
Proof.
  unfold offs2. induction s as [|c s IH]; intros i; [reflexivity|].
  cbn [sep_positions]. destruct (c =? sep).
  - cbn [map concat app]. f_equal. f_equal. apply IH.
  - apply IH.
Qed.

Lemma offs2_nonneg sep : forall s i, 0 <= i -> Forall (fun z => 0 <= z) (offs2 sep s i).
Proof.
  unfold offs2. induction s as [|c s IH]; intros i Hi; [constructor|].
  cbn [sep_positions]. destruct (c =? sep).
  - cbn [map concat app]. constructor; [lia|]. constructor; [lia|]. apply IH. lia.
  - apply IH. lia.
Qed.

Definition zsl (s : str) (r : Z * Z) : str := zslice s (fst r) (snd r).

Lemma zslice_shift c s a b : 0 <= a -> zslice (c :: s) (a + 1) (b + 1) = zslice s a b.
Proof.
  intros Ha. unfold zslice. replace (b + 1 - (a + 1)) with (b - a) by lia.
  replace (Z.to_nat (a + 1)) with (Datatypes.S (Z.to_nat a)) by lia. reflexivity.
Qed.

Lemma zslice_cons0 c s b : 0 <= b -> zslice (c :: s) 0 (b + 1) = c :: zslice s 0 b.
Proof.
  intros Hb. unfold zslice. rewrite !Z.sub_0_r. cbn [Z.to_nat skipn].
  replace (Z.to_nat (b + 1)) with (Datatypes.S (Z.to_nat b)) by lia. reflexivity.
Qed.

Lemma zranges_shift c s : forall l, Forall (fun z => 0 <= z) l ->
  map (zsl (c :: s)) (zip_ranges (map (fun z => z + 1) l)) = map (zsl s) (zip_ranges l).
Proof.
  induction l as [|a l IH]; intros H; [reflexivity|].
  destruct l as [|b l]; [reflexivity|].
  inversion H as [|? ? Ha Hl]; subst.
  change (zip_ranges (a :: b :: l)) with ((a, b) :: zip_ranges (b :: l)).
  change (map (fun z => z + 1) (a :: b :: l)) with (a + 1 :: map (fun z => z + 1) (b :: l)).
  change (map (fun z => z + 1) (b :: l)) with (b + 1 :: map (fun z => z + 1) l) at 1.
  change (zip_ranges (a + 1 :: b + 1 :: map (fun z => z + 1) l))
    with ((a + 1, b + 1) :: zip_ranges (map (fun z => z + 1) (b :: l))).
  rewrite (map_cons (zsl (c :: s))), (map_cons (zsl s)). rewrite IH by exact Hl. f_equal.
  unfold zsl. cbn [fst snd]. apply zslice_shift. exact Ha.
Qed.

Lemma pieces_of_zsl s offs : pieces_of s offs = map (zsl s) (zip_ranges (0 :: offs ++ [zlen s])).
Proof. reflexivity. Qed.

Lemma zlen_cons {A} (c : A) s : zlen (c :: s) = zlen s + 1.
Proof. unfold zlen. cbn [length]. lia. Qed.

Lemma pieces_cons_other c s offs : Forall (fun z => 0 <= z) offs ->
  pieces_of (c :: s) (map (fun z => z + 1) offs) =
  match pieces_of s offs with hd :: tl => (c :: hd) :: tl | [] => [] end.
Proof.
  intros H. rewrite !pieces_of_zsl. rewrite zlen_cons.
  change [zlen s + 1] with (map (fun z => z + 1) [zlen s]). rewrite <- map_app.
  assert (Hl : Forall (fun z => 0 <= z) (offs ++ [zlen s])).
  { apply Forall_app. split; [exact H|]. constructor; [unfold zlen; lia|constructor]. }
  destruct (offs ++ [zlen s]) as [|x rest] eqn:E.
  { apply app_eq_nil in E as [_ E]. discriminate. }
  change (zip_ranges (0 :: x :: rest)) with ((0, x) :: zip_ranges (x :: rest)).
  change (map (fun z => z + 1) (x :: rest)) with (x + 1 :: map (fun z => z + 1) rest).
  change (zip_ranges (0 :: x + 1 :: map (fun z => z + 1) rest))
    with ((0, x + 1) :: zip_ranges (map (fun z => z + 1) (x :: rest))).
  rewrite (map_cons (zsl (c :: s))), (map_cons (zsl s)). rewrite zranges_shift by exact Hl. f_equal.
  unfold zsl. cbn [fst snd]. apply zslice_cons0. inversion Hl; assumption.
Qed.

Lemma pieces_cons_sep c s offs : Forall (fun z => 0 <= z) offs ->
  pieces_of (c :: s) (0 :: 1 :: map (fun z => z + 1) offs) = [] :: [c] :: pieces_of s offs.
Proof.
  intros H. rewrite !pieces_of_zsl. rewrite zlen_cons.
  change [zlen s + 1] with (map (fun z => z + 1) [zlen s]).
  cbn [app]. rewrite <- map_app.
  assert (Hl : Forall (fun z => 0 <= z) (0 :: offs ++ [zlen s])).
  { constructor; [lia|]. apply Forall_app. split; [exact H|]. constructor; [unfold zlen; lia|constructor]. }
  set (l := offs ++ [zlen s]) in *.
  change (zip_ranges (0 :: 0 :: 1 :: map (fun z => z + 1) l))
    with ((0, 0) :: (0, 1) :: zip_ranges (map (fun z => z + 1) (0 :: l))).
  rewrite !(map_cons (zsl (c :: s))). rewrite zranges_shift by exact Hl. reflexivity.
Qed.

Fixpoint pcs (sep : Z) (s : str) : list str :=
  match s with
  | [] => [[]]
  | c :: r => if c =? sep then [] :: [c] :: pcs sep r
              else match pcs sep r with hd :: tl => (c :: hd) :: tl | [] => [] end
  end.

Lemma offs2_cons sep c s i :
  offs2 sep (c :: s) i = if c =? sep then i :: i + 1 :: offs2 sep s (i + 1) else offs2 sep s (i + 1).
Proof. unfold offs2. cbn [sep_positions]. destruct (c =? sep); reflexivity. Qed.

Lemma pieces_pcs sep : forall s, pieces_of s (offs2 sep s 0) = pcs sep s.
Proof.
  induction s as [|c s IH]; [reflexivity|].
  rewrite offs2_cons. cbn [pcs]. rewrite offs2_shift.
  pose proof (offs2_nonneg sep s 0 ltac:(lia)) as Hnn.
  destruct (c =? sep).
  - change (0 + 1) with 1. rewrite pieces_cons_sep by exact Hnn. rewrite IH. reflexivity.
  - rewrite pieces_cons_other by exact Hnn. rewrite IH. reflexivity.
Qed.

Definition not_sep (sep : Z) (l : str) : bool := negb (str_eqb l [sep]).

Lemma not_sep_notin sep l : ~ In sep l -> not_sep sep l = true.
Proof.
  intros H. unfold not_sep. destruct l as [|a l]; [reflexivity|].
  assert (a <> sep) by (intros ->; apply H; left; reflexivity).
  cbn [str_eqb]. replace (a =? sep) with false by lia. reflexivity.
Qed.

Lemma not_sep_sep sep : not_sep sep [sep] = false.
Proof. unfold not_sep. cbn [str_eqb]. rewrite Z.eqb_refl. reflexivity. Qed.

Lemma pcs_struct sep : forall s, exists hd tl,
  pcs sep s = hd :: tl /\ ~ In sep hd /\ s = hd ++ concat (map (cons sep) (filter (not_sep sep) tl)).
Proof.
  induction s as [|c s IH].
  - exists [], []. split; [reflexivity|]. split; [intros []|reflexivity].
  - destruct IH as [hd [tl [H1 [H2 H3]]]]. cbn [pcs]. destruct (c =? sep) eqn:E.
    + assert (c = sep) by lia. subst c.
      exists [], ([sep] :: pcs sep s). split; [reflexivity|]. split; [intros []|].
      rewrite H1. cbn [filter]. rewrite not_sep_sep, (not_sep_notin sep hd H2).
      cbn [map concat app]. f_equal. exact H3.
    + rewrite H1. exists (c :: hd), tl. split; [reflexivity|]. split.
      * intros [Hc|Hc]; [lia|exact (H2 Hc)].
      * cbn [app]. f_equal. exact H3.
Qed.

(* ------------------------------------------------------------------ spread / bump *)
Lemma bump_length {A} (f : A -> A) : forall n l, length (bump f n l) = length l.
Proof.
  induction n as [|n IH]; intros [|x l]; try reflexivity. cbn [bump length]. rewrite IH. reflexivity.
Qed.

Lemma bump_Forall {A} (f : A -> A) (P : A -> Prop) : (forall x, P x -> P (f x)) ->
  forall n l, Forall P l -> Forall P (bump f n l).
Proof.
  intros Hf. induction n as [|n IH]; intros [|x l] H; try exact H; inversion H; subst; cbn [bump].
  - constructor; [apply Hf; assumption|assumption].
  - constructor; [assumption|apply IH; assumption].
Qed.

Lemma sumZ_cons x l : sumZ (x :: l) = x + sumZ l.
Proof. reflexivity. Qed.

Lemma bump_sum : forall n l, (n < length l)%nat -> sumZ (bump (fun x => x + 1) n l) = sumZ l + 1.
Proof.
  induction n as [|n IH]; intros [|x l] H; cbn [length] in H; try lia; cbn [bump]; rewrite !sumZ_cons.
  - lia.
  - rewrite IH by lia. lia.
Qed.

Lemma spread_facts : forall it sp idx, sp <> [] -> Forall (fun z => 0 <= z) sp ->
  length (spread it sp idx) = length sp /\ Forall (fun z => 0 <= z) (spread it sp idx) /\ sumZ (spread it sp idx) = sumZ sp + Z.of_nat it.
Proof.
  induction it as [|it IH]; intros sp idx Hne Hf.
  - cbn [spread]. split; [reflexivity|]. split; [exact Hf|]. lia.
  - cbn [spread].
    assert (Hlen : (0 < length sp)%nat) by (destruct sp; [congruence|cbn [length]; lia]).
    set (sp' := bump (fun x => x + 1) (length sp - idx - 1) sp).
    assert (Hl' : length sp' = length sp) by apply bump_length.
    assert (Hne' : sp' <> []) by (intros Hn; rewrite Hn in Hl'; cbn [length] in Hl'; lia).
    assert (Hf' : Forall (fun z => 0 <= z) sp') by (apply bump_Forall; [intros; lia|exact Hf]).
    assert (Hs' : sumZ sp' = sumZ sp + 1) by (apply bump_sum; lia).
    destruct (IH sp' (Nat.modulo (idx + 1) (length sp)) Hne' Hf') as [A1 [A2 A3]].
    split; [lia|]. split; [exact A2|]. lia.
Qed.

(* ------------------------------------------------------------------ the string built by full_tokens *)
Fixpoint ftp (ws : list str) (spaces : list Z) : str :=
  match ws with
  | [] => []
  | w :: rest =>
      match spaces, rest with
      | n :: spaces', _ :: _ => w ++ py_repeat SP n ++ ftp rest spaces'
      | _, _ => w ++ ftp rest spaces
      end
  end.

Lemma ftp_cell_len : forall ws spaces, Forall (fun z => 0 <= z) spaces ->
  length ws = Datatypes.S (length spaces) ->
  cell_len (ftp ws spaces) = sumZ (map cell_len ws) + sumZ spaces.
Proof.
  induction ws as [|w rest IH]; intros spaces Hf Hl; [discriminate|].
  cbn [ftp]. destruct spaces as [|n sp'].
  - destruct rest; [|discriminate]. cbn [ftp map]. rewrite app_nil_r, !sumZ_cons. unfold sumZ. cbn. lia.
  - destruct rest as [|y rest]; [discriminate|]. inversion Hf; subst.
    rewrite !cell_len_app, cell_len_py_repeat by assumption.
    rewrite IH by (try assumption; cbn [length] in *; lia).
    cbn [map]. rewrite !sumZ_cons. lia.
Qed.

Lemma ftp_ones : forall r x, ftp (x :: r) (repeat 1 (length r)) = x ++ concat (map (cons SP) r).
Proof.
  induction r as [|y r IH]; intros x; [reflexivity|].
  cbn [length repeat].
  change (ftp (x :: y :: r) (1 :: repeat 1 (length r)))
    with (x ++ py_repeat SP 1 ++ ftp (y :: r) (repeat 1 (length r))).
  rewrite IH. cbn [map concat]. reflexivity.
Qed.

Section Full.
Variable S : Type.
Variable seqb : S -> S -> bool.
Variable null : S.
Variable add : S -> S -> S.
Variable fx : fixes.
Arguments plain {S}.

(* ------------------------------------------------------------------ join *)
Lemma join_fold_plain : forall (tokens : list (text S)) (acc : text S),
  plain (fold_left (fun acc tk =>
               let n := tlen S acc in
               mkText (plain acc ++ plain tk)
                      (spans acc ++ (n, n + tlen S tk, base tk) :: shift_spans S n (spans tk)) null)
            tokens acc) = plain acc ++ concat (map plain tokens).
Proof.
  induction tokens as [|tk tokens IH]; intros acc.
  - cbn. symmetry. apply app_nil_r.
  - cbn [fold_left map concat]. rewrite IH. cbn [plain]. rewrite app_assoc. reflexivity.
Qed.

Lemma join_empty_plain (tokens : list (text S)) :
  plain (join_empty S null tokens) = concat (map plain tokens).
Proof. unfold join_empty. rewrite join_fold_plain. reflexivity. Qed.

(* ------------------------------------------------------------------ full_tokens *)
Lemma full_tokens_nonspace (line : text S) : forall ws spaces,
  nonspace (concat (map plain (full_tokens S seqb add line ws spaces))) = nonspace (concat (map plain ws)).
Proof.
  induction ws as [|w rest IH]; intros spaces; [reflexivity|].
  cbn [full_tokens]. destruct spaces as [|n spaces'].
  - cbn [map concat]. rewrite !nonspace_app, IH. reflexivity.
  - destruct rest as [|nxt rest'].
    + cbn [map concat]. rewrite !nonspace_app, IH. reflexivity.
    + cbn [map concat plain]. rewrite !nonspace_app, nonspace_py_repeat, IH.
      cbn [map concat app]. rewrite nonspace_app. reflexivity.
Qed.

(* ------------------------------------------------------------------ split(" ") keeps non-whitespace *)
Lemma split_nb_keeps (t : text S) sep :
  is_space sep = true ->
  nonspace (concat (map plain (split S seqb fx t sep false false))) = nonspace (plain t).
Proof.
  intros Hs. unfold split.
  pose proof (sep_positions_mono sep (fun p => [p; p + 1]) (fun p => or_introl eq_refl) (plain t) 0) as Hm.
  destruct (sep_positions sep (plain t) 0) as [|p ps] eqn:E; [cbn [map concat]; rewrite app_nil_r; reflexivity|].
  cbn [negb andb]. cbn [Z.add] in Hm.
  set (offs := concat (map (fun p => [p; p + 1]) (p :: ps))) in *.
  pose proof (divide_plain S seqb fx t offs) as Hd.
  pose proof (pieces_concat (plain t) offs Hm) as Hc.
  destruct (ends_with (plain t) sep) eqn:Ee.
  - assert (Hl : last offs 0 = zlen (plain t)).
    { pose proof (sep_positions_last sep (plain t) 0 0 Ee) as Hp. rewrite E in Hp.
      unfold offs. clear - Hp. revert p Hp. induction ps as [|q ps IH]; intros p Hp.
      - cbn in *. lia.
      - change (last (p :: q :: ps) 0) with (last (q :: ps) 0) in Hp.
        specialize (IH q Hp). cbn [map concat app] in *. exact IH. }
    unfold pieces_of in Hd, Hc. rewrite zip_ranges_last, map_app in Hd, Hc.
    cbn [map fst snd] in Hd, Hc. rewrite Hl, zslice_empty' in Hd, Hc.
    destruct (exists_last (l := divide S seqb fx t offs)) as [D0 [x Hx]].
    { intros Hn. rewrite Hn in Hd. cbn [map] in Hd. symmetry in Hd. apply app_eq_nil in Hd as [_ Hd]. discriminate. }
    rewrite Hx in *. rewrite map_app in Hd. cbn [map] in Hd.
    apply app_inj_tail in Hd as [Hd0 Hpx].
    rewrite filter_app_one by (rewrite Hpx; reflexivity).
    rewrite removelast_app_one. rewrite filter_sep_nonspace by exact Hs.
    rewrite Hd0. rewrite concat_app in Hc. cbn [concat] in Hc. rewrite !app_nil_r in Hc.
    rewrite Hc. reflexivity.
  - rewrite filter_sep_nonspace by exact Hs. rewrite Hd, Hc. reflexivity.
Qed.

(* A: no non-whitespace character is lost by full justification of one line *)
Theorem justify_full_nonspace : forall w (line : text S),
  nonspace (plain (justify_full_line S seqb null add fx w line)) = nonspace (plain line).
Proof.
  intros w line. unfold justify_full_line. cbv zeta.
  rewrite join_empty_plain, full_tokens_nonspace. apply split_nb_keeps. apply is_space_SP.
Qed.

(* ------------------------------------------------------------------ B *)
Lemma full_tokens_ftp (line : text S) : forall ws spaces,
  concat (map plain (full_tokens S seqb add line ws spaces)) = ftp (map plain ws) spaces.
Proof.
  induction ws as [|w rest IH]; intros spaces; [reflexivity|].
  cbn [full_tokens]. destruct spaces as [|n spaces'].
  - cbn [map concat ftp]. rewrite IH. reflexivity.
  - destruct rest as [|nxt rest'].
    + cbn [map concat ftp]. reflexivity.
    + change (map plain (w :: nxt :: rest')) with (plain w :: plain nxt :: map plain rest').
      cbn [ftp]. cbn [map concat plain]. rewrite IH. reflexivity.
Qed.

(* the words of split(sep), re-joined with sep, give the text back, up to one trailing sep *)
Lemma split_recon (t : text S) sep : exists x r,
  map plain (split S seqb fx t sep false false) = x :: r /\
  (plain t = x ++ concat (map (cons sep) r) \/ plain t = (x ++ concat (map (cons sep) r)) ++ [sep]).
Proof.
  unfold split.
  destruct (sep_positions sep (plain t) 0) as [|p ps] eqn:E.
  { exists (plain t), []. split; [reflexivity|]. left. cbn. symmetry. apply app_nil_r. }
  cbn [negb andb]. rewrite <- E. fold (offs2 sep (plain t) 0).
  set (offs := offs2 sep (plain t) 0).
  pose proof (divide_plain S seqb fx t offs) as Hd. unfold offs in Hd at 2. rewrite pieces_pcs in Hd.
  destruct (pcs_struct sep (plain t)) as [hd [tl [H1 [H2 H3]]]].
  assert (Hfil : forall D : list (text S),
            map plain (filter (fun l => negb (str_eqb (plain l) [sep])) D) = filter (not_sep sep) (map plain D)).
  { intros D. apply (map_filter_comm plain (not_sep sep)). }
  destruct (ends_with (plain t) sep) eqn:Ee.
  - assert (Hl : last offs 0 = zlen (plain t)).
    { pose proof (sep_positions_last sep (plain t) 0 0 Ee) as Hp. unfold offs, offs2. rewrite E in *.
      clear - Hp. revert p Hp. induction ps as [|q ps IH]; intros p Hp.
      - cbn in *. lia.
      - change (last (p :: q :: ps) 0) with (last (q :: ps) 0) in Hp.
        specialize (IH q Hp). cbn [map concat app] in *. exact IH. }
    pose proof (divide_plain S seqb fx t offs) as Hd2.
    unfold pieces_of in Hd2. rewrite zip_ranges_last, map_app in Hd2.
    cbn [map fst snd] in Hd2. rewrite Hl, zslice_empty' in Hd2.
    destruct (exists_last (l := divide S seqb fx t offs)) as [D0 [x0 Hx]].
    { intros Hn. rewrite Hn in Hd2. cbn [map] in Hd2. symmetry in Hd2. apply app_eq_nil in Hd2 as [_ Hd2]. discriminate. }
    rewrite Hx in *. rewrite map_app in Hd2. cbn [map] in Hd2.
    apply app_inj_tail in Hd2 as [_ Hpx].
    rewrite filter_app_one by (rewrite Hpx; reflexivity).
    rewrite removelast_app_one.
    pose proof (Hfil (D0 ++ [x0])) as Hf. rewrite Hd, H1 in Hf.
    rewrite filter_app_one in Hf by (rewrite Hpx; reflexivity).
    rewrite map_app in Hf. cbn [map] in Hf. rewrite Hpx in Hf.
    cbn [filter] in Hf. rewrite (not_sep_notin sep hd H2) in Hf.
    destruct (map plain (filter (fun l => negb (str_eqb (plain l) [sep])) D0)) as [|x r0] eqn:EF.
    + cbn [app] in Hf. injection Hf as Hh Ht. exfalso.
      rewrite <- Hh, <- Ht in H3. cbn in H3. rewrite H3 in Ee. discriminate.
    + cbn [app] in Hf. injection Hf as Hh Ht. subst x. exists hd, r0. split; [reflexivity|]. right.
      rewrite H3 at 1. rewrite <- Ht, map_app, concat_app. cbn [map concat].
      rewrite app_nil_r, app_assoc. reflexivity.
  - exists hd, (filter (not_sep sep) tl). split; [|left; exact H3].
    rewrite Hfil, Hd, H1. cbn [filter]. rewrite (not_sep_notin sep hd H2). reflexivity.
Qed.

Lemma rstrip_app_sp a : rstrip (a ++ [SP]) = rstrip a.
Proof. apply rstrip_app_space. cbn [forallb]. rewrite is_space_SP. reflexivity. Qed.

(* B: the justified line still fits once right-stripped *)
Theorem justify_full_fits : forall w (line : text S),
  1 <= w -> cell_len (rstrip (plain line)) <= w ->
  cell_len (rstrip (plain (justify_full_line S seqb null add fx w line))) <= w.
Proof.
  intros w line Hw Hfit. unfold justify_full_line. cbv zeta.
  rewrite join_empty_plain, full_tokens_ftp.
  destruct (split_recon line SP) as [x [r [Hws Hrec]]].
  set (ws := split S seqb fx line SP false false) in *.
  assert (Hlen : length ws = Datatypes.S (length r)).
  { rewrite <- (map_length plain ws), Hws. reflexivity. }
  assert (Hrs : rstrip (x ++ concat (map (cons SP) r)) = rstrip (plain line)).
  { destruct Hrec as [Hrec|Hrec]; rewrite Hrec; [reflexivity|]. symmetry. apply rstrip_app_sp. }
  rewrite Hlen. replace (Datatypes.S (length r) - 1)%nat with (length r) by lia.
  rewrite Hws.
  destruct r as [|y r].
  - cbn [length repeat ftp]. rewrite app_nil_r. cbn [map concat] in Hrs. rewrite app_nil_r in Hrs.
    rewrite Hrs. exact Hfit.
  - set (n := length (y :: r)) in *.
    assert (Hrep : repeat 1 n <> []) by (unfold n; cbn [length repeat]; discriminate).
    assert (Hm : forall (L X : list Z), L <> [] -> match L with [] => L | _ :: _ => X end = X)
      by (intros [|? ?] ? ?; [congruence|reflexivity]).
    rewrite Hm by exact Hrep. clear Hm.
    set (words_size := sumZ (map (fun w0 : text S => cell_len (plain w0)) ws)).
    destruct (Z.to_nat (w - (words_size + Z.of_nat n))) as [|it] eqn:Eit.
    + cbn [spread]. unfold n. rewrite ftp_ones, Hrs. exact Hfit.
    + eapply Z.le_trans; [apply cell_len_rstrip_le|].
      assert (Hf1 : Forall (fun z => 0 <= z) (repeat 1 n)).
      { apply Forall_forall. intros z Hz. apply repeat_spec in Hz. lia. }
      destruct (spread_facts (Datatypes.S it) (repeat 1 n) 0 Hrep Hf1) as [A1 [A2 A3]].
      rewrite ftp_cell_len; [|exact A2|rewrite A1, repeat_length; unfold n; reflexivity].
      rewrite A3.
      assert (Hs1 : sumZ (repeat 1 n) = Z.of_nat n).
      { clear. induction n as [|n IH]; [reflexivity|]. cbn [repeat]. rewrite sumZ_cons, IH. lia. }
      assert (Hwsz : sumZ (map cell_len (x :: y :: r)) = words_size).
      { unfold words_size. rewrite <- Hws, map_map. reflexivity. }
      rewrite Hwsz, Hs1. lia.
Qed.

End Full.
