(* C08, part 4: padded panels -- Console.render_lines re-splits the Padding's newline-terminated stream
   into the same lines, so Panel(Padding(child)) is an exact rectangle around the child's own lines. *)
From RichModel Require Import Prelude Cells Segments SpecCells Frames SpecFrames.
From RichGen Require Import FrameBoxes.
From RichProofs Require Import CellsP SegmentsP SegmentsP2 FramesP FramesP2.
From Coq Require Import ZifyBool.

(* ---------------------------------------------------------------- newline-free segments *)
Definition nlfree (g : segZ) : Prop := has_nl (txt g) && negb (ctl g) = false.
Definition nls (s : option Z) : segZ := mkSeg [NL] s false.
Definition stream_s (s : option Z) (ls : list line) : list segZ := flat_map (fun l => l ++ [nls s]) ls.

Lemma stream_of_eq ls : stream_of ls = stream_s None ls.
Proof. reflexivity. Qed.

Lemma slg_nlfree (l : list segZ) : Forall nlfree l -> forall rest line D,
  split_lines_go Z (l ++ rest) line D = split_lines_go Z rest (rev l ++ line) D.
Proof.
  induction 1 as [|g l Hg _ IH]; intros rest line D; [reflexivity|].
  cbn [app split_lines_go]. unfold nlfree in Hg. rewrite Hg. rewrite IH. cbn [rev]. rewrite <- app_assoc. reflexivity.
Qed.

Lemma slg_nls s rest line D :
  split_lines_go Z (nls s :: rest) line D = split_lines_go Z rest [] (rev line :: D).
Proof. reflexivity. Qed.

(* the round trip: split_lines of newline-terminated, newline-free lines gives the lines back *)
Lemma split_stream s : forall ls D, Forall (Forall nlfree) ls ->
  split_lines_go Z (stream_s s ls) [] D = rev D ++ ls.
Proof.
  induction ls as [|l ls IH]; intros D H.
  - cbn. rewrite app_nil_r. reflexivity.
  - inversion H as [|? ? Hl Hls]; subst. unfold stream_s. cbn [flat_map]. fold (stream_s s ls).
    rewrite <- app_assoc. rewrite slg_nlfree by exact Hl. cbn [app]. rewrite slg_nls.
    rewrite app_nil_r, rev_involutive. rewrite IH by exact Hls. cbn [rev]. rewrite <- app_assoc. reflexivity.
Qed.

Theorem split_lines_stream s ls : Forall (Forall nlfree) ls -> split_lines (stream_s s ls) = ls.
Proof. intros H. unfold split_lines. rewrite split_stream by exact H. reflexivity. Qed.

(* ---- newline-freeness of everything a frame emits *)
Lemma has_nl_app a b : has_nl (a ++ b) = has_nl a || has_nl b.
Proof. unfold has_nl. apply existsb_app. Qed.

Lemma has_nl_repeat_sp n : has_nl (repeat SP n) = false.
Proof. induction n; [reflexivity|]. cbn. exact IHn. Qed.

Lemma has_nl_firstn k s : has_nl s = false -> has_nl (firstn k s) = false.
Proof.
  revert s. induction k; intros s H; [reflexivity|]. destruct s as [|c s]; [reflexivity|].
  cbn in *. apply orb_false_iff in H as [H1 H2]. rewrite H1. cbn. apply IHk. exact H2.
Qed.

Lemma has_nl_set_cell_size s n : has_nl s = false -> has_nl (set_cell_size s n) = false.
Proof.
  intros H. unfold set_cell_size. destruct (cell_len s =? n); [exact H|].
  destruct (cell_len s <? n).
  - rewrite has_nl_app, H. apply has_nl_repeat_sp.
  - destruct (pop_loop (rev (map char_size s)) (cell_len s - n)) as [kept excess].
    destruct (excess =? -1); [rewrite has_nl_app|]; rewrite has_nl_firstn by exact H; reflexivity.
Qed.

Lemma nlfree_spaces k st : nlfree (mkSeg (spaces k) st false).
Proof. unfold nlfree. cbn [txt ctl]. unfold spaces, py_repeat. rewrite has_nl_repeat_sp. reflexivity. Qed.

Lemma partition_nl_free s : has_nl (fst (fst (partition_nl s))) = false.
Proof.
  induction s as [|c s IH]; [reflexivity|]. cbn [partition_nl]. destruct (c =? NL) eqn:E; [reflexivity|].
  destruct (partition_nl s) as [[a nl] b]. cbn [fst] in *. cbn. rewrite E. exact IH.
Qed.

Lemma split_text_nlfree : forall fuel text st (line : list segZ) D,
  Forall nlfree line -> Forall (Forall nlfree) D ->
  Forall nlfree (fst (split_text Z fuel text st line D)) /\
  Forall (Forall nlfree) (snd (split_text Z fuel text st line D)).
Proof.
  induction fuel as [|f IH]; intros text st line D Hl HD; [split; assumption|].
  cbn [split_text]. destruct text as [|c0 text]; [split; assumption|].
  pose proof (partition_nl_free (c0 :: text)) as HP.
  destruct (partition_nl (c0 :: text)) as [[a nl] b]. cbn [fst] in HP.
  assert (Hl' : Forall nlfree (match a with [] => line | _ => mkSeg a st false :: line end)).
  { destruct a; [exact Hl|]. constructor; [|exact Hl]. unfold nlfree. cbn [txt ctl]. rewrite HP. reflexivity. }
  destruct nl.
  - apply IH; [constructor|]. constructor; [|exact HD]. apply Forall_rev. exact Hl'.
  - apply IH; assumption.
Qed.

Lemma split_lines_go_nlfree : forall (segs : list segZ) line D,
  Forall nlfree line -> Forall (Forall nlfree) D ->
  Forall (Forall nlfree) (split_lines_go Z segs line D).
Proof.
  induction segs as [|g segs IH]; intros line D Hl HD.
  - cbn [split_lines_go]. apply Forall_rev. destruct line; [exact HD|].
    constructor; [apply Forall_rev; exact Hl|exact HD].
  - cbn [split_lines_go]. destruct (has_nl (txt g) && negb (ctl g)) eqn:E.
    + pose proof (split_text_nlfree (S (length (txt g))) (txt g) (sty g) line D Hl HD) as [P1 P2].
      destruct (split_text Z (S (length (txt g))) (txt g) (sty g) line D). apply IH; assumption.
    + apply IH; [constructor; [exact E|exact Hl]|exact HD].
Qed.

Lemma split_lines_nlfree (segs : list segZ) : Forall (Forall nlfree) (split_lines segs).
Proof. apply split_lines_go_nlfree; constructor. Qed.

Lemma crop_go_nlfree : forall (l : list segZ) n cur, Forall nlfree l -> Forall nlfree (crop_go l n cur).
Proof.
  induction l as [|g l IH]; intros n cur H; [constructor|]. inversion H as [|? ? Hg Hl]; subst.
  cbn [crop_go]. destruct ((cur + seg_len g <? n) || ctl g) eqn:E.
  - constructor; [exact Hg|apply IH; exact Hl].
  - constructor; [|constructor]. apply orb_false_iff in E as [_ Ec].
    unfold nlfree in *. cbn [txt ctl]. rewrite Ec in Hg. cbn [negb] in Hg. rewrite andb_true_r in Hg.
    rewrite has_nl_set_cell_size by exact Hg. reflexivity.
Qed.

Lemma adjust_nlfree (l : list segZ) n ps pad : Forall nlfree l -> Forall nlfree (adjust_line_length l n ps pad).
Proof.
  intros H. unfold adjust_line_length. destruct (line_len l <? n).
  - destruct pad; [|exact H]. apply Forall_app. split; [exact H|]. constructor; [|constructor].
    apply (nlfree_spaces (n - line_len l) ps).
  - destruct (n <? line_len l); [apply crop_go_nlfree|]; exact H.
Qed.

Lemma apply_style_nlfree st (l : list segZ) : Forall nlfree l -> Forall nlfree (apply_style st l).
Proof.
  intros H. unfold apply_style. apply Forall_forall. intros x Hx. apply in_map_iff in Hx as [g [<- Hg]].
  rewrite Forall_forall in H. exact (H g Hg).
Qed.

Lemma render_lines_nlfree c w st pad : Forall (Forall nlfree) (render_lines c w st pad).
Proof.
  rewrite render_lines_eq. apply Forall_forall. intros x Hx. apply in_map_iff in Hx as [l [<- Hl]].
  apply adjust_nlfree. pose proof (split_lines_nlfree
    (match st with Some s => apply_style s (render_at c w) | None => render_at c w end)) as H.
  rewrite Forall_forall in H. exact (H l Hl).
Qed.

Lemma padding_lines_nlfree c t r b l st expand W : Forall (Forall nlfree) (padding_lines c t r b l st expand W).
Proof.
  unfold padding_lines. set (width := padding_width c r l expand W).
  assert (Hb : Forall nlfree [mkSeg (spaces width) st false]) by (constructor; [apply nlfree_spaces|constructor]).
  assert (Ho : forall k, Forall nlfree (if k =? 0 then [] else [mkSeg (spaces k) st false])).
  { intros k. destruct (k =? 0); [constructor|]. constructor; [apply nlfree_spaces|constructor]. }
  apply Forall_app. split; [apply Forall_repeat; exact Hb|].
  apply Forall_app. split; [|apply Forall_repeat; exact Hb].
  apply Forall_forall. intros x Hx. apply in_map_iff in Hx as [ln [<- Hln]].
  apply Forall_app. split; [apply Ho|]. apply Forall_app. split; [|apply Ho].
  rewrite set_shape_none in Hln. apply in_map_iff in Hln as [cl [<- Hcl]].
  apply adjust_nlfree. pose proof (render_lines_nlfree c (width - l - r) (Some st) false) as H.
  rewrite Forall_forall in H. exact (H cl Hcl).
Qed.

(* ---------------------------------------------------------------- the panel around a padding *)
Lemma apply_style_app st (a b : list segZ) : apply_style st (a ++ b) = apply_style st a ++ apply_style st b.
Proof. unfold apply_style. apply map_app. Qed.

Lemma apply_style_stream st ls : apply_style st (stream_s None ls) = stream_s st (map (apply_style st) ls).
Proof.
  induction ls as [|l ls IH]; [reflexivity|]. unfold stream_s in *. cbn [flat_map map].
  rewrite !apply_style_app, IH. reflexivity.
Qed.

Lemma line_len_apply_style st (l : list segZ) : line_len (apply_style st l) = line_len l.
Proof. unfold line_len, apply_style. rewrite map_map. reflexivity. Qed.

Lemma adjust_exact (l : line) n ps pad : line_len l = n -> adjust_line_length l n ps pad = l.
Proof.
  intros H. unfold adjust_line_length. destruct (line_len l <? n) eqn:E1; [lia|].
  destruct (n <? line_len l) eqn:E2; [lia|reflexivity].
Qed.

(* the lines Panel gets back from render_lines(Padding(child), child_width, style) *)
Lemma panel_padded_inner c t r b l st cwid : 1 <= cwid -> 0 <= l -> 0 <= r -> l + r <= cwid ->
  render_lines (padding_child c t r b l None true) cwid (Some st) true =
  map (apply_style st) (padding_lines c t r b l None true cwid).
Proof.
  intros Hc Hl Hr Hlr. rewrite render_lines_eq. unfold render_at. destruct (cwid <? 1) eqn:E; [lia|].
  cbn [padding_child crender]. rewrite stream_of_eq, apply_style_stream.
  set (PL := padding_lines c t r b l None true cwid).
  assert (NF : Forall (Forall nlfree) (map (apply_style st) PL)).
  { apply Forall_forall. intros x Hx. apply in_map_iff in Hx as [y [<- Hy]]. apply apply_style_nlfree.
    pose proof (padding_lines_nlfree c t r b l None true cwid) as H. rewrite Forall_forall in H. exact (H y Hy). }
  rewrite split_lines_stream by exact NF. rewrite map_map.
  apply map_ext_in. intros row Hrow. apply adjust_exact. rewrite line_len_apply_style.
  (* every padding row is exactly cwid wide *)
  unfold PL, padding_lines in Hrow. cbn [padding_width] in Hrow. unfold padding_width in Hrow.
  set (cw := cwid - l - r) in *. assert (Hcw : 0 <= cw) by (unfold cw; lia).
  apply in_app_or in Hrow as [Hrow|Hrow]; [|apply in_app_or in Hrow as [Hrow|Hrow]].
  - apply repeat_spec in Hrow. subst row. apply line_len_spaces_seg. lia.
  - apply in_map_iff in Hrow as [ln [<- Hln]]. rewrite set_shape_none in Hln.
    apply in_map_iff in Hln as [cl [<- _]].
    rewrite !line_len_app, adjust_len_true, !line_len_opt_space by assumption. unfold cw. lia.
  - apply repeat_spec in Hrow. subst row. apply line_len_spaces_seg. lia.
Qed.

Lemma panel_top_len c o W cW :
  let cwid := panel_child_width c o W in
  let box := box_substitute (p_box o) (p_legacy o) (p_safe o) (p_ascii o) in
  0 <= cwid -> (p_title o <> [] -> 2 <= cwid /\ cwid - 2 <= cW) ->
  line_len (match p_title o with
            | [] => [mkSeg (box_top box cwid) (p_border o) false]
            | _ => [mkSeg [box_char box 0 0; box_char box 0 1] (p_border o) false;
                    mkSeg (text_line false (text_align (panel_title (p_title o)) (p_title_align o) (cwid - 2)
                                                       (box_char box 0 1)) cW) (p_border o) false;
                    mkSeg [box_char box 0 1; box_char box 0 3] (p_border o) false]
            end) = cwid + 2.
Proof.
  intros cwid box Hc Ht. destruct (p_title o) as [|t0 title] eqn:ET.
  - rewrite line_len_seg1. unfold box_top. apply box_edge_len; try apply box_char_w1. exact Hc.
  - destruct Ht as [Ht1 Ht2]; [discriminate|].
    change (line_len [?a; ?b; ?d]) with (seg_len a + (seg_len b + (seg_len d + 0))).
    unfold seg_len. cbn [ctl txt]. unfold text_line.
    rewrite truncate_fold_id; rewrite text_align_len by (apply box_char_w1 || lia); [|lia].
    rewrite !cell_len_cons. change (cell_len []) with 0.
    rewrite !(box_char_w1 box). lia.
Qed.

Lemma flat_apply_spaces st k s0 : flat (apply_style st [mkSeg (spaces k) s0 false]) = map (restyle st) (spfl k s0).
Proof. rewrite flat_apply_style, flat_space_seg. reflexivity. Qed.

(* Padded panel (the default padding (0,1) included): every line child_width + 2 cells; the top border and
   t padding rows, then the child's own lines (rendered alone at child_width - l - r, then overlaid with the
   panel's style) unchanged and in order between  border . l spaces  and  r spaces . border,  then b
   padding rows and the bottom border. *)
Theorem panel_padded_rect : forall c o W cW t r b l,
  p_pad o = (t, r, b, l) -> ((t =? 0) && (r =? 0) && (b =? 0) && (l =? 0) = false) ->
  let cwid := panel_child_width c o W in
  1 <= cwid -> 0 <= l -> 0 <= r -> l + r <= cwid ->
  (p_title o <> [] -> 2 <= cwid /\ cwid - 2 <= cW) ->
  let box := box_substitute (p_box o) (p_legacy o) (p_safe o) (p_ascii o) in
  frame_ok_b (Some (cwid + 2)) (1 + Z.to_nat t) (Z.to_nat b + 1)
             (box_char box 3 0 :: spaces l) (spaces r ++ [box_char box 3 3]) None None
             (map (fun cl => flat (apply_style (p_style o) cl)) (render_lines c (cwid - l - r) (Some None) false))
             (map flat (panel_lines false c o W cW)) = true.
Proof.
  intros c o W cW t r b l Hpad Hnz cwid Hc Hl Hr Hlr Ht box.
  pose proof (panel_top_len c o W cW ltac:(fold cwid; lia) Ht) as Htop. fold cwid box in Htop.
  unfold panel_lines. fold cwid. fold box.
  assert (Hin : panel_inner c o = padding_child c t r b l None true).
  { unfold panel_inner. rewrite Hpad, Hnz. reflexivity. }
  rewrite Hin. replace (cwid + 2 - 2) with cwid by lia. replace (cwid + 2 - 4) with (cwid - 2) by lia.
  set (bs := p_border o) in *. set (st := p_style o).
  set (top := match p_title o with [] => _ | _ => _ end) in *.
  rewrite panel_padded_inner by assumption.
  unfold padding_lines. cbn [padding_width]. unfold padding_width.
  set (cw := cwid - l - r). assert (Hcw : 0 <= cw) by (unfold cw; lia).
  set (CL := render_lines c cw (Some None) false).
  rewrite set_shape_none.
  set (blank := [mkSeg (spaces cwid) None false]).
  set (left := if l =? 0 then [] else [mkSeg (spaces l) None false]).
  set (right := if r =? 0 then [] else [mkSeg (spaces r) None false]).
  set (ML := mkSeg [box_char box 3 0] bs false). set (MR := mkSeg [box_char box 3 3] bs false).
  set (wrap := fun ln : line => ML :: ln ++ [MR]).
  rewrite !map_app, !map_repeat, !map_map.
  cbn [map]. rewrite !map_app, !map_repeat, !map_map. cbn [map].
  match goal with
  | |- frame_ok_b _ _ _ _ _ _ _ _ (flat top :: (repeat ?X _ ++ ?R ++ repeat _ _) ++ [?B]) = true =>
      set (fb := X); set (rows := R);
      replace (flat top :: (repeat fb (Z.to_nat t) ++ rows ++ repeat fb (Z.to_nat b)) ++ [B])
        with ((flat top :: repeat fb (Z.to_nat t)) ++ rows ++ (repeat fb (Z.to_nat b) ++ [B]))
        by (cbn [app]; rewrite <- !app_assoc; reflexivity)
  end.
  assert (Hwrap : forall ln, line_len ln = cwid -> fl_len (flat (wrap ln)) = cwid + 2).
  { intros ln H. rewrite fl_len_flat. unfold wrap, ML, MR. rewrite line_len_cons, line_len_app, H, line_len_seg1.
    unfold seg_len. cbn [ctl txt]. rewrite !cell_len_cons. change (cell_len []) with 0.
    rewrite !(box_char_w1 box). lia. }
  assert (Hfb : fl_len fb = cwid + 2).
  { apply Hwrap. rewrite line_len_apply_style. apply line_len_spaces_seg. lia. }
  apply (frame_ok_intro (Some (cwid + 2)) (flat top :: repeat fb (Z.to_nat t)) rows
           (repeat fb (Z.to_nat b) ++ [flat [mkSeg (box_bottom box cwid) bs false]])
           _ _ _ (cwid + 2)).
  - cbn [length]. rewrite repeat_length. reflexivity.
  - rewrite app_length, repeat_length. reflexivity.
  - apply Forall_app_intro; [|apply Forall_app_intro; [|apply Forall_app_intro]].
    + constructor; [rewrite fl_len_flat; exact Htop|apply Forall_repeat; exact Hfb].
    + apply Forall_forall. intros x Hx. apply in_map_iff in Hx as [cl [<- _]]. apply Hwrap.
      rewrite line_len_apply_style, !line_len_app, adjust_len_true by exact Hcw.
      unfold left, right. rewrite !line_len_opt_space by assumption. unfold cw. lia.
    + apply Forall_repeat; exact Hfb.
    + constructor; [|constructor]. rewrite fl_len_flat, line_len_seg1. unfold box_bottom.
      apply box_edge_len; try apply box_char_w1. lia.
  - reflexivity.
  - unfold rows. apply all2_map_same. intros cl Hcl.
    pose proof (render_lines_false_len c cw (Some None) cl Hcw Hcl) as Hlen.
    rewrite adjust_fits by exact Hlen. unfold wrap.
    rewrite flat_cons. cbn [ctl txt sty map]. rewrite flat_app, flat_single. cbn [ctl txt sty map].
    rewrite !apply_style_app, !flat_app, !flat_apply_style.
    destruct (flat_padseg cl cw None) as [k ->]. unfold left, right. rewrite !flat_opt_space.
    set (rs := restyle st).
    replace (box_char box 3 0 :: spaces l) with (fl_chars ((box_char box 3 0, bs) :: map rs (spfl l None))).
    2:{ cbn [fl_chars map fst]. f_equal. fold (fl_chars (map rs (spfl l None))). unfold rs.
        rewrite fl_chars_map_restyle. apply fl_chars_spfl. }
    replace (spaces r ++ [box_char box 3 3]) with (fl_chars (map rs (spfl r None) ++ [(box_char box 3 3, bs)])).
    2:{ unfold fl_chars at 1. rewrite map_app. fold (fl_chars (map rs (spfl r None))). unfold rs.
        rewrite fl_chars_map_restyle, fl_chars_spfl. reflexivity. }
    match goal with |- row_ok_b _ _ _ ?row = true =>
      replace row with (((box_char box 3 0, bs) :: map rs (spfl l None)) ++ map rs (flat cl) ++ map rs (spfl k None)
                        ++ (map rs (spfl r None) ++ [(box_char box 3 3, bs)]))
        by (cbn [app]; rewrite <- ?app_assoc; reflexivity) end.
    apply row_ok_intro. unfold rs. apply spaces_map_restyle. apply spfl_spaces.
Qed.
