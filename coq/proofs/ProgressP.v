(* C12, sequential part: proofs about the model of Task / Progress (model/Progress.v) stated
   against the spec-level checkers of model/SpecProgress.v. *)
From RichModel Require Import Prelude Progress SpecProgress.
From RichGen Require Import ProgressLock.
From Coq Require Import QArith Qround Qabs Qminmax Lqa Lia.
Open Scope Q_scope.

Ltac splits := repeat match goal with |- _ /\ _ => split end.

(* ------------------------------------------------------------------ percentage *)
(* the hand model of Task.speed was written for exactly one skipped sample *)
Lemma speed_skip_one : SPEED_SKIP = 1%Z.
Proof. reflexivity. Qed.

Lemma pct_consts : PCT_WHEN_NO_TOTAL = 0%Z /\ PCT_FACTOR = 100%Z /\ PCT_HI = 100%Z /\ PCT_LO = 0%Z.
Proof. vm_compute. auto. Qed.

Lemma Qabs_zero_le x y : x == y -> Qle_bool (Qabs (x - y)) 0 = true.
Proof.
  intros H. apply Qle_bool_iff. assert (E : x - y == 0) by (rewrite H; ring).
  rewrite E. apply Qle_refl.
Qed.

Lemma clamp_eq x : Qmin 100 (Qmax 0 x) ==
  (if Qle_bool x 0 then 0 else if Qle_bool 100 x then 100 else x).
Proof.
  destruct (Qle_bool x 0) eqn:E0.
  - apply Qle_bool_iff in E0. rewrite (Q.max_l 0 x E0). apply Q.min_r. lra.
  - assert (H0 : 0 < x). { apply Qnot_le_lt. intros H. apply Qle_bool_iff in H. congruence. }
    rewrite (Q.max_r 0 x) by lra.
    destruct (Qle_bool 100 x) eqn:E1.
    + apply Qle_bool_iff in E1. apply Q.min_l. exact E1.
    + assert (H1 : x < 100). { apply Qnot_le_lt. intros H. apply Qle_bool_iff in H. congruence. }
      apply Q.min_r. lra.
Qed.

Theorem percentage_clamped : forall t, pct_ok_b 0 (t_completed t) (t_total t) (percentage t) = true.
Proof.
  intros t. unfold pct_ok_b, percentage. destruct pct_consts as (-> & -> & -> & ->).
  destruct (Qeq_bool (t_total t) 0).
  - reflexivity.
  - apply Qabs_zero_le. unfold clamp_pct, qZ. apply clamp_eq.
Qed.

Corollary percentage_range t : 0 <= percentage t <= 100.
Proof.
  unfold percentage. destruct pct_consts as (-> & -> & -> & ->). unfold qZ.
  destruct (Qeq_bool (t_total t) 0); [split; discriminate|].
  split.
  - apply Q.min_glb; [discriminate|apply Q.le_max_l].
  - apply Q.le_min_l.
Qed.

(* ------------------------------------------------------------------ field bookkeeping *)
Lemma fc_id t now : t_id (finish_check t now) = t_id t.
Proof. unfold finish_check. destruct (_ && _); reflexivity. Qed.
Lemma fc_total t now : t_total (finish_check t now) = t_total t.
Proof. unfold finish_check. destruct (_ && _); reflexivity. Qed.
Lemma fc_completed t now : t_completed (finish_check t now) = t_completed t.
Proof. unfold finish_check. destruct (_ && _); reflexivity. Qed.
Lemma fc_start t now : t_start (finish_check t now) = t_start t.
Proof. unfold finish_check. destruct (_ && _); reflexivity. Qed.
Lemma fc_samples t now : t_samples (finish_check t now) = t_samples t.
Proof. unfold finish_check. destruct (_ && _); reflexivity. Qed.

Lemma fc_finished t now :
  started t = true -> Qle_bool (t_total t) (t_completed t) = true -> finished (finish_check t now) = true.
Proof.
  intros Hs Hc. unfold finish_check. rewrite Hc. simpl. destruct (finished t) eqn:F; simpl; [exact F|].
  unfold finished, elapsed. simpl. unfold started in Hs. destruct (t_start t); [|discriminate].
  destruct (t_stop t); reflexivity.
Qed.
Lemma fc_latch t now f : t_fin t = Some f -> t_fin (finish_check t now) = Some f.
Proof. intros H. unfold finish_check, finished. rewrite H. simpl. rewrite andb_false_r. exact H. Qed.
(* when it does not finish a started task, completed < total *)
Lemma fc_unfinished t now :
  started t = true -> finished (finish_check t now) = false -> Qle_bool (t_total t) (t_completed t) = false.
Proof.
  intros Hs Hf. destruct (Qle_bool (t_total t) (t_completed t)) eqn:E; [|reflexivity].
  rewrite (fc_finished t now Hs E) in Hf. discriminate.
Qed.

(* the effect of an operation on its target task *)
Definition effect (period : Q) (o : op) (t1 t2 : Q) (t : task) : task :=
  match o with
  | AddTask _ _ _ _ => t
  | StartTask _ => do_start t t1
  | StopTask _ => do_stop t t1
  | Update _ total completed advance visible => do_update period t total completed advance visible t1 t2
  | Reset _ start total completed visible => do_reset t start total completed visible t1
  | Advance _ amt => do_advance period t amt t1 t2
  | Remove _ => t
  end.

Lemma effect_id per o t1 t2 t : t_id (effect per o t1 t2 t) = t_id t.
Proof.
  destruct o; simpl; auto.
  - unfold do_start. destruct (t_start t); reflexivity.
  - unfold do_stop. destruct (t_start t); reflexivity.
  - unfold do_update. rewrite fc_id. simpl.
    destruct total, advance, completed, visible; reflexivity.
  - unfold do_reset. destruct total, visible; reflexivity.
  - unfold do_advance. rewrite fc_id. reflexivity.
Qed.

(* ------------------------------------------------------------------ task lists *)
Lemma upd_missing id f l : find_task id l = None -> upd_task id f l = l.
Proof.
  induction l as [|t l IH]; simpl; auto. destruct (t_id t =? id)%Z; [discriminate|].
  intros H. rewrite IH; auto.
Qed.
Lemma find_upd_same id f l : (forall t, t_id (f t) = t_id t) ->
  find_task id (upd_task id f l) = option_map f (find_task id l).
Proof.
  intros Hf. induction l as [|t l IH]; simpl; auto.
  destruct (t_id t =? id)%Z eqn:E; simpl.
  - rewrite Hf, E. reflexivity.
  - rewrite E. exact IH.
Qed.
Lemma find_upd_other id id' f l : (forall t, t_id (f t) = t_id t) -> id' <> id ->
  find_task id' (upd_task id f l) = find_task id' l.
Proof.
  intros Hf Hne. induction l as [|t l IH]; simpl; auto.
  destruct (t_id t =? id)%Z eqn:E; simpl.
  - rewrite Hf. apply Z.eqb_eq in E. destruct (t_id t =? id')%Z eqn:E'; [apply Z.eqb_eq in E'; congruence|reflexivity].
  - destruct (t_id t =? id')%Z; auto.
Qed.
Lemma find_app id l x : find_task id (l ++ [x]) =
  match find_task id l with Some t => Some t | None => if (t_id x =? id)%Z then Some x else None end.
Proof. induction l as [|t l IH]; simpl; auto. destruct (t_id t =? id)%Z; auto. Qed.
Lemma find_del_other id id' l : id' <> id -> find_task id' (del_task id l) = find_task id' l.
Proof.
  intros Hne. induction l as [|t l IH]; simpl; auto.
  destruct (t_id t =? id)%Z eqn:E; simpl.
  - apply Z.eqb_eq in E. destruct (t_id t =? id')%Z eqn:E'; [apply Z.eqb_eq in E'; congruence|reflexivity].
  - destruct (t_id t =? id')%Z; auto.
Qed.
Lemma find_id id l t : find_task id l = Some t -> t_id t = id.
Proof.
  induction l as [|x l IH]; simpl; [discriminate|]. destruct (t_id x =? id)%Z eqn:E; auto.
  intros H. inversion H; subst. apply Z.eqb_eq. exact E.
Qed.

(* step_total, operation by operation *)
Lemma step_tasks p o t1 t2 :
  p_tasks (step_total p o t1 t2) =
  match o with
  | AddTask start total completed visible =>
      p_tasks p ++ [new_task (p_next p) start total completed visible t1]
  | Remove id => del_task id (p_tasks p)
  | _ => match target o with
         | Some id => upd_task id (effect (p_period p) o t1 t2) (p_tasks p)
         | None => p_tasks p
         end
  end.
Proof.
  assert (Hdel : forall id l, find_task id l = None -> del_task id l = l).
  { intros id l. induction l as [|t l IH]; simpl; auto. destruct (t_id t =? id)%Z; [discriminate|].
    intros H. rewrite IH; auto. }
  unfold step_total, step, on_task. destruct o; simpl; auto;
    try (destruct (find_task id (p_tasks p)) eqn:F; simpl; auto; rewrite upd_missing; auto).
  destruct (find_task id (p_tasks p)) eqn:F; simpl; auto. rewrite Hdel; auto.
Qed.
Lemma step_next p o t1 t2 :
  p_next (step_total p o t1 t2) = match o with AddTask _ _ _ _ => (p_next p + 1)%Z | _ => p_next p end.
Proof.
  unfold step_total, step, on_task. destruct o; simpl; auto; destruct (find_task id (p_tasks p)); reflexivity.
Qed.
Lemma step_period p o t1 t2 : p_period (step_total p o t1 t2) = p_period p.
Proof.
  unfold step_total, step, on_task. destruct o; simpl; auto; destruct (find_task id (p_tasks p)); reflexivity.
Qed.

(* ------------------------------------------------------------------ finished: reported and latched *)
Lemma effect_finish per o t1 t2 t id : advances o id = true ->
  let t' := effect per o t1 t2 t in
  finish_ok_b (started t') (t_completed t') (t_total t') (finished t') = true.
Proof.
  intros Ha t'. unfold finish_ok_b. destruct (started t' && Qle_bool (t_total t') (t_completed t')) eqn:E; [|reflexivity].
  apply andb_true_iff in E as [Hs Hc]. subst t'.
  destruct o; simpl in Ha; try discriminate; simpl in *.
  - unfold do_update in *. unfold started in Hs. rewrite fc_start in Hs. rewrite fc_total, fc_completed in Hc.
    apply fc_finished; assumption.
  - unfold do_advance in *. unfold started in Hs. rewrite fc_start in Hs. rewrite fc_total, fc_completed in Hc.
    apply fc_finished; assumption.
Qed.

Theorem finish_reported : forall p o t1 t2 id t',
  advances o id = true -> find_task id (p_tasks (step_total p o t1 t2)) = Some t' ->
  finish_ok_b (started t') (t_completed t') (t_total t') (finished t') = true.
Proof.
  intros p o t1 t2 id t' Ha Hf. rewrite step_tasks in Hf.
  destruct o; simpl in Ha; try discriminate; simpl in Hf; apply Z.eqb_eq in Ha; subst id0;
    (rewrite find_upd_same in Hf by (intros; apply effect_id with (o := _));
     destruct (find_task id (p_tasks p)) as [t|]; [|discriminate]; simpl in Hf; inversion Hf; subst).
  - apply (effect_finish (p_period p) (Update id total completed advance visible) t1 t2 t id). simpl. apply Z.eqb_refl.
  - apply (effect_finish (p_period p) (Advance id amt) t1 t2 t id). simpl. apply Z.eqb_refl.
Qed.

Definition keeps_fin (o : op) : bool :=
  match o with Update _ (Some _) _ _ _ => false | Reset _ _ _ _ _ => false | _ => true end.

Lemma effect_latch per o t1 t2 t f : keeps_fin o = true -> t_fin t = Some f ->
  t_fin (effect per o t1 t2 t) = Some f.
Proof.
  intros Hr Hf. destruct o; simpl in *; auto.
  - unfold do_start. destruct (t_start t); auto.
  - unfold do_stop. destruct (t_start t); auto.
  - destruct total; [discriminate|]. unfold do_update. apply fc_latch.
    destruct advance, completed, visible; exact Hf.
  - discriminate.
  - unfold do_advance. apply fc_latch. exact Hf.
Qed.

Definition not_removing (o : op) (id : Z) : Prop := match o with Remove id' => id' <> id | _ => True end.

Theorem finish_time_latched : forall p o t1 t2 id t f,
  find_task id (p_tasks p) = Some t -> t_fin t = Some f ->
  resets o id = false -> not_removing o id ->
  exists t', find_task id (p_tasks (step_total p o t1 t2)) = Some t' /\ t_fin t' = Some f.
Proof.
  intros p o t1 t2 id t f Hfind Hfin Hr Hnr. rewrite step_tasks.
  assert (Hgen : forall id0, target o = Some id0 -> keeps_fin o = true \/ id0 <> id ->
            exists t', find_task id (upd_task id0 (effect (p_period p) o t1 t2) (p_tasks p)) = Some t' /\ t_fin t' = Some f).
  { intros id0 _ [Hk|Hne].
    - destruct (Z.eq_dec id0 id) as [->|Hne].
      + rewrite find_upd_same by (intros; apply effect_id). rewrite Hfind. simpl. eexists; split; eauto.
        apply effect_latch; auto.
      + rewrite find_upd_other by (auto; intros; apply effect_id). eauto.
    - rewrite find_upd_other by (auto; intros; apply effect_id). eauto. }
  destruct o; simpl in *.
  - rewrite find_app, Hfind. eauto.
  - apply Hgen; auto.
  - apply Hgen; auto.
  - apply Hgen; auto. destruct total; auto. right. intros ->. rewrite Z.eqb_refl in Hr. discriminate.
  - apply Hgen; auto. right. intros ->. rewrite Z.eqb_refl in Hr. discriminate.
  - apply Hgen; auto.
  - rewrite find_del_other by auto. eauto.
Qed.

(* ... hence over any stretch of history that neither changes the task's total, nor resets nor removes it *)
Fixpoint quiet (id : Z) (h : list hop) : Prop :=
  match h with
  | [] => True
  | (o, _, _) :: r => resets o id = false /\ not_removing o id /\ quiet id r
  end.

Theorem finished_latches : forall h p id t f,
  find_task id (p_tasks p) = Some t -> t_fin t = Some f -> quiet id h ->
  exists t', find_task id (p_tasks (run p h)) = Some t' /\ t_fin t' = Some f.
Proof.
  induction h as [|[[o t1] t2] h IH]; intros p id t f Hfind Hfin Hq; simpl in *.
  - eauto.
  - destruct Hq as (Hr & Hn & Hq).
    destruct (finish_time_latched p o t1 t2 id t f Hfind Hfin Hr Hn) as (t' & Hf' & Hfin').
    apply (IH _ id t' f Hf' Hfin' Hq).
Qed.

(* ------------------------------------------------------------------ completed = last set + advances since *)
Definition acc_rel (t : task) (r : ref) : Prop :=
  t_id t = r_id r /\ t_completed t == r_base r + sumQ (r_advs r).

Lemma F2_upd id f g ts rs : Forall2 acc_rel ts rs ->
  (forall t r, acc_rel t r -> acc_rel (f t) (g r)) ->
  Forall2 acc_rel (upd_task id f ts) (ref_upd id g rs).
Proof.
  intros H Hfg. induction H as [|t r ts rs [Hid Hc] H IH]; simpl; [constructor|].
  rewrite <- Hid. destruct (t_id t =? id)%Z; constructor; auto; try (apply Hfg); split; auto.
Qed.
Lemma F2_upd_left id f ts rs : Forall2 acc_rel ts rs ->
  (forall t r, acc_rel t r -> acc_rel (f t) r) -> Forall2 acc_rel (upd_task id f ts) rs.
Proof.
  intros H Hfg. induction H as [|t r ts rs Hr H IH]; simpl; [constructor|].
  destruct (t_id t =? id)%Z; constructor; auto.
Qed.
Lemma F2_del id ts rs : Forall2 acc_rel ts rs -> Forall2 acc_rel (del_task id ts) (ref_del id rs).
Proof.
  intros H. induction H as [|t r ts rs [Hid Hc] H IH]; simpl; [constructor|].
  rewrite <- Hid. destruct (t_id t =? id)%Z; auto. constructor; auto; split; auto.
Qed.

Lemma adv_completed per t amt t1 t2 : t_completed (do_advance per t amt t1 t2) = t_completed t + amt.
Proof. unfold do_advance. rewrite fc_completed. reflexivity. Qed.
Lemma upd_completed per t total completed advance visible t1 t2 :
  t_completed (do_update per t total completed advance visible t1 t2) =
  match completed with
  | Some c => c
  | None => match advance with Some a => t_completed t + a | None => t_completed t end
  end.
Proof. unfold do_update. rewrite fc_completed. simpl. destruct total, advance, completed, visible; reflexivity. Qed.

Definition ops_of (h : list hop) : list op := map (fun x => fst (fst x)) h.

Lemma acc_step p c o t1 t2 :
  Forall2 acc_rel (p_tasks p) (c_refs c) -> p_next p = c_next c ->
  Forall2 acc_rel (p_tasks (step_total p o t1 t2)) (c_refs (ref_step c o)) /\
  p_next (step_total p o t1 t2) = c_next (ref_step c o).
Proof.
  intros H Hn. rewrite step_tasks, step_next.
  assert (IDG : forall t r g, t_id t = r_id r -> t_id (effect (p_period p) o t1 t2 t) = r_id (g r) ->
                t_id (effect (p_period p) o t1 t2 t) = r_id (g r)) by auto.
  destruct o; simpl.
  - split; [|lia]. apply Forall2_app; auto. constructor; [|constructor].
    split; simpl.
    + unfold new_task. destruct start; simpl; [unfold do_start; simpl|]; congruence.
    + unfold new_task. destruct start; simpl; ring.
  - split; auto. apply F2_upd_left; auto. intros t r [Hid Hc]. split; [rewrite <- Hid; apply effect_id|simpl].
    unfold do_start. destruct (t_start t); exact Hc.
  - split; auto. apply F2_upd_left; auto. intros t r [Hid Hc]. split; [rewrite <- Hid; apply effect_id|simpl].
    unfold do_stop. destruct (t_start t); exact Hc.
  - destruct completed as [v|]; [|destruct advance as [a|]]; simpl; split; auto.
    + apply F2_upd; auto. intros t r [Hid Hc]. split; [simpl r_id; rewrite <- Hid; apply effect_id|simpl].
      rewrite upd_completed. ring.
    + apply F2_upd; auto. intros t r [Hid Hc]. split; [simpl r_id; rewrite <- Hid; apply effect_id|simpl].
      rewrite upd_completed. rewrite Hc. ring.
    + apply F2_upd_left; auto. intros t r [Hid Hc]. split; [rewrite <- Hid; apply effect_id|simpl].
      rewrite upd_completed. exact Hc.
  - split; auto. apply F2_upd; auto. intros t r [Hid Hc]. split; [simpl r_id; rewrite <- Hid; apply effect_id|simpl].
    unfold do_reset. destruct total, visible; simpl; ring.
  - split; auto. apply F2_upd; auto. intros t r [Hid Hc]. split; [simpl r_id; rewrite <- Hid; apply effect_id|simpl].
    rewrite adv_completed. rewrite Hc. ring.
  - split; auto. apply F2_del; auto.
Qed.

Lemma acc_run h : forall p c,
  Forall2 acc_rel (p_tasks p) (c_refs c) -> p_next p = c_next c ->
  Forall2 acc_rel (p_tasks (run p h)) (c_refs (fold_left ref_step (ops_of h) c)).
Proof.
  induction h as [|[[o t1] t2] h IH]; intros p c H Hn; simpl; auto.
  destruct (acc_step p c o t1 t2 H Hn) as [H' Hn']. apply IH; auto.
Qed.

Theorem completed_is_set_plus_advances : forall per h,
  Forall2 (fun t r => t_id t = r_id r /\ completed_ok_b (r_base r) (r_advs r) (t_completed t) = true)
          (p_tasks (run (empty_progress per) h))
          (c_refs (fold_left ref_step (ops_of h) (mkC [] 0%Z true))).
Proof.
  intros per h.
  assert (H : Forall2 acc_rel (p_tasks (run (empty_progress per) h))
                (c_refs (fold_left ref_step (ops_of h) (mkC [] 0%Z true)))).
  { apply acc_run; simpl; [constructor|reflexivity]. }
  induction H as [|t r ts rs [Hid Hc] H IH]; constructor; auto.
  split; auto. unfold completed_ok_b. apply Qeq_bool_iff. exact Hc.
Qed.

(* ------------------------------------------------------------------ speed and time_remaining *)
Fixpoint sortedQ (l : list sample) : Prop :=
  match l with
  | [] => True
  | s :: r => Forall (fun s' => s_ts s <= s_ts s') r /\ sortedQ r
  end.
Definition good (now : Q) (t : task) : Prop :=
  sortedQ (t_samples t) /\ Forall (fun s => s_ts s <= now /\ 0 <= s_delta s) (t_samples t).

Lemma Forall_skipn {A} (P : A -> Prop) n l : Forall P l -> Forall P (skipn n l).
Proof. revert l. induction n; intros l H; simpl; auto. destruct l; auto. inversion H; auto. Qed.
Lemma sorted_skipn n l : sortedQ l -> sortedQ (skipn n l).
Proof. revert l. induction n; intros l H; simpl; auto. destruct l; auto. destruct H. auto. Qed.
Lemma drop_old_suffix cut l : exists n, drop_old cut l = skipn n l.
Proof.
  induction l as [|s l [n IH]]; simpl.
  - exists 0%nat. reflexivity.
  - destruct (Qltb (s_ts s) cut); [exists (S n); exact IH|exists 0%nat; reflexivity].
Qed.
Lemma trim_suffix per now l : exists n, trim per now l = skipn n l.
Proof.
  unfold trim, drop_cap. destruct (drop_old_suffix (now - per) l) as [n ->].
  generalize (length (skipn n l) - Z.to_nat MAX_SAMPLES)%nat. intros a.
  exists (n + a)%nat. revert l. induction n; intros l; simpl; auto. destruct l; simpl; auto.
  destruct a; reflexivity.
Qed.

Lemma sorted_snoc l x : sortedQ l -> Forall (fun s => s_ts s <= s_ts x) l -> sortedQ (l ++ [x]).
Proof.
  induction l as [|s l IH]; simpl; intros Hs Hf.
  - split; auto.
  - destruct Hs as [H1 H2]. inversion Hf; subst. split; auto.
    apply Forall_app. split; auto.
Qed.

Lemma good_weaken now now' t : now <= now' -> good now t -> good now' t.
Proof.
  intros Hle [Hs Hf]. split; auto. eapply Forall_impl; [|exact Hf]. intros s [H1 H2]. split; auto. lra.
Qed.

Lemma good_append cond per now t1 l uc :
  sortedQ l -> Forall (fun s => s_ts s <= now /\ 0 <= s_delta s) l -> now <= t1 ->
  (cond = false -> 0 <= uc) ->
  let l' := append_sample cond (trim per t1 l) t1 uc in
  sortedQ l' /\ Forall (fun s => s_ts s <= t1 /\ 0 <= s_delta s) l'.
Proof.
  intros Hs Hf Hle Huc. destruct (trim_suffix per t1 l) as [n Hn]. simpl. rewrite Hn.
  assert (Hs' : sortedQ (skipn n l)) by (apply sorted_skipn; auto).
  assert (Hf' : Forall (fun s => s_ts s <= t1 /\ 0 <= s_delta s) (skipn n l)).
  { apply Forall_skipn. eapply Forall_impl; [|exact Hf]. intros s [H1 H2]. split; auto. lra. }
  unfold append_sample. destruct cond; simpl.
  - destruct (Qltb 0 uc) eqn:E; simpl; auto.
    assert (0 <= uc). { unfold Qltb in E. apply negb_true_iff in E.
      destruct (Qlt_le_dec 0 uc) as [H|H]; [lra|]. apply Qle_bool_iff in H. congruence. }
    split.
    + apply sorted_snoc; auto. simpl. eapply Forall_impl; [|exact Hf']. intros s [H1 _]. exact H1.
    + apply Forall_app. split; auto. constructor; auto. simpl. split; [lra|auto].
  - split.
    + apply sorted_snoc; auto. simpl. eapply Forall_impl; [|exact Hf']. intros s [H1 _]. exact H1.
    + apply Forall_app. split; auto. constructor; auto. simpl. split; [lra|auto].
Qed.

Definition nonneg_op (o : op) : bool := match o with Advance _ a => Qle_bool 0 a | _ => true end.

Lemma good_effect per o t1 t2 now t :
  good now t -> now <= t1 -> nonneg_op o = true -> good t1 (effect per o t1 t2 t).
Proof.
  intros [Hs Hf] Hle Hnn. destruct o; simpl in *.
  - apply good_weaken with now; [auto|split; auto].
  - unfold do_start. destruct (t_start t); apply good_weaken with now; auto; split; auto.
  - unfold do_stop. destruct (t_start t); apply good_weaken with now; auto; split; auto.
  - unfold do_update, good. rewrite fc_samples. simpl.
    assert (Hc : update_append_conditional = true) by reflexivity. rewrite Hc.
    destruct total as [x|].
    + replace (t_samples _) with (@nil sample) by (destruct advance, completed, visible; reflexivity).
      apply (good_append true per now t1 [] _); simpl; auto. discriminate.
    + replace (t_samples (match visible with Some v => _ | None => _ end)) with (t_samples t)
        by (destruct advance, completed, visible; reflexivity).
      apply (good_append true per now t1 (t_samples t) _); auto. discriminate.
  - unfold do_reset, good. destruct total, visible; simpl; auto.
  - unfold do_advance, good. rewrite fc_samples. simpl.
    apply (good_append advance_append_conditional per now t1 (t_samples t) _); auto.
    intros _. apply Qle_bool_iff in Hnn. lra.
  - apply good_weaken with now; [auto|split; auto].
Qed.

Lemma sumQ_nonneg l : Forall (fun x => 0 <= x) l -> 0 <= sumQ l.
Proof. induction 1; simpl; [lra|]. lra. Qed.

Lemma last_ge s0 rest : Forall (fun s' => s_ts s0 <= s_ts s') rest -> s_ts s0 <= s_ts (last rest s0).
Proof.
  intros H. induction H as [|x l Hx H IH]; simpl; [lra|].
  destruct l; auto.
Qed.

Lemma good_speed now t : good now t -> speed_ok_b (speed t) = true.
Proof.
  intros [Hs Hf]. unfold speed. destruct (t_start t); [|reflexivity].
  destruct (t_samples t) as [|s0 rest]; [reflexivity|].
  destruct (Qeq_bool _ 0) eqn:E; [reflexivity|]. simpl. apply Qle_bool_iff.
  destruct Hs as [H0 _]. pose proof (last_ge s0 rest H0) as Hl.
  assert (Hne : ~ s_ts (last rest s0) - s_ts s0 == 0) by (apply Qeq_bool_neq; exact E).
  assert (Hpos : 0 < s_ts (last rest s0) - s_ts s0).
  { destruct (Qlt_le_dec 0 (s_ts (last rest s0) - s_ts s0)); auto. exfalso. apply Hne. lra. }
  apply Qle_shift_div_l; auto. rewrite Qmult_0_l.
  change (skipn (Z.to_nat SPEED_SKIP) (s0 :: rest)) with rest.
  apply sumQ_nonneg. inversion Hf as [|? ? _ Hrest]; subst. clear - Hrest.
  induction Hrest as [|x l [_ Hx] _ IH]; simpl; constructor; auto.
Qed.

(* the invariant along a history with a monotone clock and non-negative advances *)
Definition all_good (now : Q) (p : progress) : Prop := Forall (good now) (p_tasks p).

Lemma Forall_upd (P : task -> Prop) id f l : Forall P l -> (forall t, P t -> P (f t)) -> Forall P (upd_task id f l).
Proof. induction 1; simpl; intros; [constructor|]. destruct (t_id x =? id)%Z; constructor; auto. Qed.
Lemma Forall_del (P : task -> Prop) id l : Forall P l -> Forall P (del_task id l).
Proof. induction 1; simpl; [constructor|]. destruct (t_id x =? id)%Z; auto. Qed.

Lemma all_good_step now p o t1 t2 :
  all_good now p -> now <= t1 -> nonneg_op o = true -> all_good t1 (step_total p o t1 t2).
Proof.
  intros H Hle Hnn. unfold all_good in *. rewrite step_tasks.
  assert (Hw : Forall (good t1) (p_tasks p)).
  { eapply Forall_impl; [|exact H]. intros t. apply good_weaken. exact Hle. }
  assert (Hu : forall id, Forall (good t1) (upd_task id (effect (p_period p) o t1 t2) (p_tasks p))).
  { intros id. clear Hw. induction H as [|x l Hx Hl IH]; simpl; [constructor|].
    destruct (t_id x =? id)%Z; constructor; auto.
    - apply good_effect with now; auto.
    - eapply Forall_impl; [|exact Hl]. intros t. apply good_weaken. exact Hle.
    - apply good_weaken with now; auto. }
  destruct o; simpl; auto.
  - apply Forall_app. split; auto. constructor; [|constructor].
    unfold new_task. destruct start; [unfold do_start; simpl|]; split; simpl; auto.
  - apply Forall_del. exact Hw.
Qed.

Fixpoint mono_hist (now : Q) (h : list hop) : Prop :=
  match h with
  | [] => True
  | (_, t1, t2) :: r => now <= t1 /\ t1 <= t2 /\ mono_hist t2 r
  end.
Definition nonneg_hist (h : list hop) : bool := forallb (fun x => nonneg_op (fst (fst x))) h.

Lemma all_good_run h : forall now p, all_good now p -> mono_hist now h -> nonneg_hist h = true ->
  exists now', all_good now' (run p h).
Proof.
  induction h as [|[[o t1] t2] h IH]; intros now p G Hm Hn; simpl in *.
  - eauto.
  - destruct Hm as (H1 & H2 & Hm). apply andb_true_iff in Hn as [Hn1 Hn2].
    apply (IH t2); auto. unfold all_good. eapply Forall_impl; [|apply (all_good_step now p o t1 t2 G H1 Hn1)].
    intros t. apply good_weaken. exact H2.
Qed.

Theorem speed_nonneg : forall per h t0,
  mono_hist t0 h -> nonneg_hist h = true ->
  Forall (fun t => speed_ok_b (speed t) = true) (p_tasks (run (empty_progress per) h)).
Proof.
  intros per h t0 Hm Hn.
  destruct (all_good_run h t0 (empty_progress per) (Forall_nil _) Hm Hn) as [now' G].
  eapply Forall_impl; [|exact G]. intros t. apply good_speed.
Qed.

(* time_remaining right after an advance / update of a started task *)
Lemma tr_after per o t1 t2 now t id :
  good now t -> now <= t1 -> nonneg_op o = true -> advances o id = true ->
  let t' := effect per o t1 t2 t in
  started t' = true -> tr_ok_b (time_remaining t') = true.
Proof.
  intros G Hle Hnn Ha t' Hst.
  pose proof (good_effect per o t1 t2 now t G Hle Hnn) as G'. fold t' in G'.
  pose proof (good_speed t1 t' G') as Hsp.
  unfold time_remaining. destruct (finished t') eqn:F; [reflexivity|].
  assert (Hlt : t_completed t' < t_total t').
  { assert (E : Qle_bool (t_total t') (t_completed t') = false).
    { subst t'. destruct o; simpl in Ha; try discriminate; simpl in *.
      - unfold do_update in *. unfold started in Hst. rewrite fc_start in Hst.
        rewrite fc_total, fc_completed. apply fc_unfinished with t2; auto.
      - unfold do_advance in *. unfold started in Hst. rewrite fc_start in Hst.
        rewrite fc_total, fc_completed. apply fc_unfinished with t2; auto. }
    apply Qnot_le_lt. intros H. apply Qle_bool_iff in H. congruence. }
  destruct (speed t') as [sp|]; [|reflexivity]. simpl in Hsp. apply Qle_bool_iff in Hsp.
  destruct (Qeq_bool sp 0) eqn:E0; [reflexivity|]. simpl.
  assert (Hsp0 : 0 < sp).
  { destruct (Qlt_le_dec 0 sp); auto. exfalso. apply Qeq_bool_neq in E0. apply E0. lra. }
  apply Z.leb_le.
  assert (H0 : 0 <= remaining t' / sp).
  { apply Qle_shift_div_l; auto. rewrite Qmult_0_l. unfold remaining. lra. }
  pose proof (Qceiling_resp_le 0 (remaining t' / sp) H0) as Hc. simpl in Hc. exact Hc.
Qed.

Theorem time_remaining_nonneg : forall per h t0 o t1 t2 id t',
  mono_hist t0 (h ++ [(o, t1, t2)]) -> nonneg_hist (h ++ [(o, t1, t2)]) = true ->
  advances o id = true ->
  find_task id (p_tasks (run (empty_progress per) (h ++ [(o, t1, t2)]))) = Some t' ->
  started t' = true -> tr_ok_b (time_remaining t') = true.
Proof.
  intros per h t0 o t1 t2 id t' Hm Hn Ha Hf Hst.
  unfold run in Hf. rewrite fold_left_app in Hf. simpl in Hf. fold (run (empty_progress per) h) in Hf.
  set (p := run (empty_progress per) h) in *.
  assert (Hsplit : exists now, all_good now p /\ now <= t1).
  { clear Hf Hst. unfold nonneg_hist in Hn. rewrite forallb_app in Hn. apply andb_true_iff in Hn as [Hn _].
    subst p. generalize (empty_progress per) (Forall_nil (good t0) : all_good t0 (empty_progress per)).
    revert t0 Hm. induction h as [|[[o' a] b] h IH]; intros t0 Hm p0 G; simpl in *.
    - exists t0. tauto.
    - destruct Hm as (H1 & H2 & Hm). apply andb_true_iff in Hn as [Hn1 Hn2].
      apply (IH Hn2 b Hm). unfold all_good. eapply Forall_impl; [|apply (all_good_step t0 p0 o' a b G H1 Hn1)].
      intros t. apply good_weaken. exact H2. }
  destruct Hsplit as (now & G & Hle).
  assert (Hnn : nonneg_op o = true).
  { unfold nonneg_hist in Hn. rewrite forallb_app in Hn. apply andb_true_iff in Hn as [_ Hn]. simpl in Hn.
    rewrite andb_true_r in Hn. exact Hn. }
  rewrite step_tasks in Hf.
  assert (Htid : target o = Some id).
  { destruct o; simpl in Ha; try discriminate; apply Z.eqb_eq in Ha; subst; reflexivity. }
  assert (Hf2 : find_task id (upd_task id (effect (p_period p) o t1 t2) (p_tasks p)) = Some t').
  { destruct o; simpl in Ha; try discriminate; simpl in Htid; inversion Htid; subst; exact Hf. }
  rewrite find_upd_same in Hf2 by (intros; apply effect_id).
  destruct (find_task id (p_tasks p)) as [t|] eqn:Ft; [|discriminate]. simpl in Hf2. inversion Hf2; subst t'.
  assert (Gt : good now t).
  { unfold all_good in G. rewrite Forall_forall in G. apply G.
    clear - Ft. induction (p_tasks p) as [|x l IH]; simpl in *; [discriminate|].
    destruct (t_id x =? id)%Z; [inversion Ft; auto|auto]. }
  apply (tr_after (p_period p) o t1 t2 now t id Gt Hle Hnn Ha Hst).
Qed.

(* ------------------------------------------------------------------ track() *)
Lemma ops_with_clock os : forall clk, ops_of (with_clock os clk) = os.
Proof.
  induction os as [|o os IH]; intros clk; simpl; auto.
  destruct clk as [|a [|b clk]]; simpl; unfold ops_of in *; simpl; rewrite IH; reflexivity.
Qed.

Lemma yields_app {A} (a b : list (tev A)) : yields (a ++ b) = yields a ++ yields b.
Proof. unfold yields. apply flat_map_app. Qed.
Lemma calls_app {A} (a b : list (tev A)) : calls (a ++ b) = calls a ++ calls b.
Proof. unfold calls. apply flat_map_app. Qed.
Lemma yields_map_yield {A} (xs : list A) : yields (map Yield xs) = xs.
Proof. induction xs; simpl; auto. unfold yields in *. simpl. rewrite IHxs. reflexivity. Qed.
Lemma calls_map_yield {A} (xs : list A) : calls (map Yield xs) = [].
Proof. induction xs; simpl; auto. Qed.

Lemma setup_shape {A} tid next total : exists id o,
  @track_setup A tid next total = (id, [Do o]) /\ id = match tid with Some i => i | None => next end.
Proof. destruct tid; simpl; eauto. Qed.

Theorem track_direct_yields : forall {A} tid next total (xs : list A),
  yields (track_direct tid next total xs) = xs.
Proof.
  intros A tid next total xs. unfold track_direct.
  destruct (setup_shape (A := A) tid next total) as (id & o & -> & _).
  rewrite yields_app. simpl.
  induction xs; simpl; auto. unfold yields in *. simpl. rewrite IHxs. reflexivity.
Qed.

Lemma find_step_target p o a b id t :
  find_task id (p_tasks p) = Some t -> target o = Some id -> not_removing o id ->
  find_task id (p_tasks (step_total p o a b)) = Some (effect (p_period p) o a b t).
Proof.
  intros Hf Ht Hn. rewrite step_tasks. destruct o; simpl in Ht; inversion Ht; subst; simpl in Hn;
    try (simpl; rewrite find_upd_same by (intros; apply effect_id); rewrite Hf; reflexivity).
  exfalso. apply Hn. reflexivity.
Qed.

Definition is_adv (id : Z) (o : op) : Prop := exists a, o = Advance id a.

Lemma run_advs id : forall h p t, find_task id (p_tasks p) = Some t -> Forall (is_adv id) (ops_of h) ->
  exists t', find_task id (p_tasks (run p h)) = Some t' /\
             t_completed t' == t_completed t + sumQ (map (fun o => match o with Advance _ a => a | _ => 0 end) (ops_of h)).
Proof.
  induction h as [|[[o a] b] h IH]; intros p t Hf Ha; simpl in *.
  - exists t. split; auto. ring.
  - inversion Ha as [|? ? [amt ->] Ha']; subst.
    pose proof (find_step_target p (Advance id amt) a b id t Hf eq_refl Logic.I) as Hf'.
    destruct (IH _ _ Hf' Ha') as (t' & Hf2 & Hc). exists t'. split; auto.
    rewrite Hc. simpl. rewrite adv_completed. ring.
Qed.

Lemma sumQ_ones {A} (xs : list A) : sumQ (map (fun _ => 1) xs) == qZ (zlen xs).
Proof.
  unfold zlen, qZ. induction xs; simpl length; [reflexivity|].
  rewrite Nat2Z.inj_succ. unfold Z.succ. rewrite inject_Z_plus. simpl. rewrite IHxs. ring.
Qed.

(* direct path on a fresh task: completed = number of elements, whatever the clock readings *)
Theorem track_direct_fresh : forall p0 total (xs : list Z) clk,
  find_task (p_next p0) (p_tasks p0) = None ->
  let evs := track_direct None (p_next p0) total xs in
  exists t, find_task (p_next p0) (p_tasks (run p0 (with_clock (calls evs) clk))) = Some t /\
            track_ok_b xs (yields evs) (t_completed t) = true.
Proof.
  intros p0 total xs clk Hfresh evs.
  assert (Hy : yields evs = xs) by apply track_direct_yields.
  assert (Hc : calls evs = AddTask true total 0 true :: map (fun _ => Advance (p_next p0) 1) xs).
  { subst evs. unfold track_direct. simpl. f_equal. clear. induction xs; simpl; auto. f_equal. exact IHxs. }
  rewrite Hc, Hy. simpl with_clock.
  assert (Hrun : forall a b h, Forall (is_adv (p_next p0)) (ops_of h) ->
            map (fun o => match o with Advance _ x => x | _ => 0 end) (ops_of h) = map (fun _ => 1) xs ->
            exists t, find_task (p_next p0) (p_tasks (run p0 ((AddTask true total 0 true, a, b) :: h))) = Some t /\
                      track_ok_b xs xs (t_completed t) = true).
  { intros a b h Hadv Hmap. simpl.
    assert (Hf : find_task (p_next p0) (p_tasks (step_total p0 (AddTask true total 0 true) a b))
                 = Some (new_task (p_next p0) true total 0 true a)).
    { rewrite step_tasks. rewrite find_app, Hfresh. simpl. rewrite Z.eqb_refl. reflexivity. }
    destruct (run_advs (p_next p0) h _ _ Hf Hadv) as (t & Hft & Hct). exists t. split; auto.
    unfold track_ok_b. apply andb_true_iff. split.
    - clear. induction xs; simpl; auto. rewrite Z.eqb_refl. exact IHxs.
    - apply Qeq_bool_iff. rewrite Hct, Hmap. simpl. rewrite sumQ_ones. ring. }
  assert (Hadv : forall clk', Forall (is_adv (p_next p0)) (ops_of (with_clock (map (fun _ => Advance (p_next p0) 1) xs) clk'))).
  { intros clk'. rewrite ops_with_clock. clear. induction xs; simpl; constructor; auto. exists 1. reflexivity. }
  assert (Hmap : forall clk', map (fun o => match o with Advance _ x => x | _ => 0 end)
                   (ops_of (with_clock (map (fun _ => Advance (p_next p0) 1) xs) clk')) = map (fun _ => 1) xs).
  { intros clk'. rewrite ops_with_clock. rewrite map_map. reflexivity. }
  destruct clk as [|a [|b clk]]; apply Hrun; auto.
Qed.

(* _TrackThread path: shape of the calls for any wake-up schedule *)
Lemma go_shape {A} id : forall sched (xs : list A) counter last pending, exists advs N,
  calls (track_thread_go id xs sched counter last pending) = advs ++ [Update id None (Some (qZ N)) None None] /\
  Forall (is_adv id) advs /\
  N = (counter + (if pending then 1 else 0) + zlen xs)%Z /\
  yields (track_thread_go id xs sched counter last pending) = xs.
Proof.
  induction sched as [|[|] sch IH]; intros xs counter last pending; simpl.
  - exists [], ((if pending then (counter + 1)%Z else counter) + zlen xs)%Z.
    rewrite calls_app, calls_map_yield, yields_app, yields_map_yield. simpl.
    splits; auto. + destruct pending; lia. + apply app_nil_r.
  - destruct xs as [|x r].
    + exists [], (if pending then (counter + 1)%Z else counter). simpl. splits; auto. unfold zlen. simpl. destruct pending; lia.
    + destruct (IH r (if pending then (counter + 1)%Z else counter) last true) as (advs & N & Hc & Ha & HN & Hy).
      exists advs, N. simpl. splits; auto.
      * unfold zlen in *. simpl length. rewrite Nat2Z.inj_succ. destruct pending; lia.
      * unfold yields in *. simpl. rewrite Hy. reflexivity.
  - destruct (last =? counter)%Z.
    + apply IH.
    + destruct (IH xs counter counter pending) as (advs & N & Hc & Ha & HN & Hy).
      exists (Advance id (qZ (counter - last)) :: advs), N. simpl. rewrite Hc. splits; auto.
      constructor; auto. eexists; reflexivity.
Qed.

Theorem track_thread_yields : forall {A} tid next total (xs : list A) sched,
  yields (track_thread tid next total xs sched) = xs.
Proof.
  intros A tid next total xs sched. unfold track_thread.
  destruct (setup_shape (A := A) tid next total) as (id & o & -> & _).
  rewrite yields_app. simpl. destruct (go_shape id sched xs 0%Z 0%Z false) as (_ & _ & _ & _ & _ & Hy). exact Hy.
Qed.

(* ... and on a fresh task the count ends at the number of elements, for every schedule and clock *)
Theorem track_thread_fresh : forall p0 total (xs : list Z) sched clk,
  find_task (p_next p0) (p_tasks p0) = None ->
  let evs := track_thread None (p_next p0) total xs sched in
  exists t, find_task (p_next p0) (p_tasks (run p0 (with_clock (calls evs) clk))) = Some t /\
            track_ok_b xs (yields evs) (t_completed t) = true.
Proof.
  intros p0 total xs sched clk Hfresh evs.
  assert (Hy : yields evs = xs) by apply track_thread_yields.
  destruct (go_shape (p_next p0) sched xs 0%Z 0%Z false) as (advs & N & Hc & Ha & HN & _).
  assert (Hcalls : calls evs = AddTask true total 0 true :: advs ++ [Update (p_next p0) None (Some (qZ N)) None None]).
  { subst evs. unfold track_thread. cbv [track_setup]. cbv beta iota. rewrite calls_app, Hc. reflexivity. }
  rewrite Hy.
  remember (with_clock (calls evs) clk) as h eqn:Eh.
  assert (Hops : ops_of h = AddTask true total 0 true :: advs ++ [Update (p_next p0) None (Some (qZ N)) None None]).
  { subst h. rewrite ops_with_clock. exact Hcalls. }
  clear Eh Hcalls Hc.
  destruct h as [|[[o0 a0] b0] h]; [discriminate|]. unfold ops_of in Hops. simpl in Hops.
  inversion Hops as [[Ho0 Hrest]]. subst o0.
  apply map_eq_app in Hrest as (h1 & h2 & -> & Hh1 & Hh2).
  destruct h2 as [|[[ou au] bu] [|? ?]]; simpl in Hh2; try discriminate. inversion Hh2; subst ou.
  simpl. unfold run. rewrite fold_left_app. simpl.
  fold (run (step_total p0 (AddTask true total 0 true) a0 b0) h1).
  assert (Hf : find_task (p_next p0) (p_tasks (step_total p0 (AddTask true total 0 true) a0 b0))
               = Some (new_task (p_next p0) true total 0 true a0)).
  { rewrite step_tasks. rewrite find_app, Hfresh. simpl. rewrite Z.eqb_refl. reflexivity. }
  assert (Ha1 : Forall (is_adv (p_next p0)) (ops_of h1)) by (unfold ops_of; rewrite Hh1; exact Ha).
  destruct (run_advs (p_next p0) h1 _ _ Hf Ha1) as (t1 & Hft1 & _).
  set (p1 := run (step_total p0 (AddTask true total 0 true) a0 b0) h1) in *.
  pose proof (find_step_target p1 (Update (p_next p0) None (Some (qZ N)) None None) au bu (p_next p0) t1 Hft1 eq_refl Logic.I) as Hfin.
  eexists. split; [exact Hfin|].
  unfold track_ok_b. apply andb_true_iff. split.
  - clear. induction xs; simpl; auto. rewrite Z.eqb_refl. exact IHxs.
  - apply Qeq_bool_iff. simpl. rewrite upd_completed. rewrite HN. simpl. reflexivity.
Qed.

(* ------------------------------------------------------------------ an abandoned track() loop *)
Lemma fresh_advances : forall p0 total (ys : list Z) clk,
  find_task (p_next p0) (p_tasks p0) = None ->
  exists t, find_task (p_next p0)
              (p_tasks (run p0 (with_clock (AddTask true total 0 true :: map (fun _ => Advance (p_next p0) 1) ys) clk))) = Some t /\
            t_completed t == qZ (zlen ys).
Proof.
  intros p0 total ys clk Hfresh.
  remember (with_clock (AddTask true total 0 true :: map (fun _ => Advance (p_next p0) 1) ys) clk) as h eqn:Eh.
  assert (Hops : ops_of h = AddTask true total 0 true :: map (fun _ => Advance (p_next p0) 1) ys)
    by (subst h; apply ops_with_clock).
  clear Eh. destruct h as [|[[o0 a0] b0] h]; [discriminate|]. unfold ops_of in Hops. simpl in Hops.
  injection Hops as -> Hrest. simpl.
  assert (Hf : find_task (p_next p0) (p_tasks (step_total p0 (AddTask true total 0 true) a0 b0))
               = Some (new_task (p_next p0) true total 0 true a0)).
  { rewrite step_tasks. rewrite find_app, Hfresh. simpl. rewrite Z.eqb_refl. reflexivity. }
  assert (Ha : Forall (is_adv (p_next p0)) (ops_of h)).
  { unfold ops_of. rewrite Hrest. clear. induction ys; simpl; constructor; auto. exists 1. reflexivity. }
  destruct (run_advs (p_next p0) h _ _ Hf Ha) as (t & Hft & Hct). exists t. split; auto.
  rewrite Hct. unfold ops_of. rewrite Hrest, map_map. simpl. rewrite sumQ_ones. ring.
Qed.

Theorem track_direct_abandoned_count : forall p0 total (xs : list Z) k clk,
  find_task (p_next p0) (p_tasks p0) = None -> (1 <= k <= length xs)%nat ->
  let evs := track_direct_abandoned None (p_next p0) total xs k in
  yields evs = firstn k xs /\
  exists t, find_task (p_next p0) (p_tasks (run p0 (with_clock (calls evs) clk))) = Some t /\
            t_completed t == qZ (Z.of_nat k - 1).
Proof.
  intros p0 total xs k clk Hfresh Hk evs. subst evs. unfold track_direct_abandoned. simpl track_setup. cbv beta iota.
  destruct (skipn (k - 1) xs) as [|x rest] eqn:Es.
  { exfalso. assert (length (skipn (k - 1) xs) = (length xs - (k - 1))%nat) by apply skipn_length.
    rewrite Es in H. simpl in H. lia. }
  assert (Hfk : firstn k xs = firstn (k - 1) xs ++ [x]).
  { rewrite <- (firstn_skipn (k - 1) xs) at 1. rewrite Es.
    replace k with ((k - 1) + 1)%nat at 1 by lia.
    assert (Hl : length (firstn (k - 1) xs) = (k - 1)%nat) by (apply firstn_length_le; lia).
    rewrite <- Hl at 1. rewrite firstn_app_2. reflexivity. }
  split.
  - rewrite !yields_app. simpl. rewrite Hfk. f_equal.
    clear. induction (firstn (k - 1) xs); simpl; auto. unfold yields in *. simpl. rewrite IHl. reflexivity.
  - rewrite !calls_app. simpl. rewrite app_nil_r.
    assert (Hc : calls (flat_map (fun x0 : Z => [Yield x0; Do (Advance (p_next p0) 1)]) (firstn (k - 1) xs))
                 = map (fun _ => Advance (p_next p0) 1) (firstn (k - 1) xs)).
    { clear. induction (firstn (k - 1) xs); simpl; auto. f_equal. exact IHl. }
    rewrite Hc.
    destruct (fresh_advances p0 total (firstn (k - 1) xs) clk Hfresh) as (t & Hft & Hct).
    exists t. split; auto. rewrite Hct. unfold zlen. rewrite firstn_length_le by lia.
    unfold qZ. rewrite Nat2Z.inj_sub by lia. reflexivity.
Qed.
