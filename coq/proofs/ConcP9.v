(* C11, part 9: deadlock freedom with Thread.join().  A thread blocked in join() waits for the
   joined thread; the joined thread may wait for a lock; so the waits-for graph has join edges.
   Static facts used: join() is only executed with no lock held (head_ok, from the compiled
   programs; on the /repo side: the is_join rule of ConcP.gev_g inside well_locked), and the
   joined threads are refresh threads, which never join anybody. *)
From RichModel Require Import Prelude Conc SpecConc.
From RichProofs Require Import ConcP4 ConcP6.
From Coq Require Import ZifyBool.
Open Scope list_scope.

Fixpoint joins (p : list instr) : list tid :=
  match p with
  | [] => []
  | IJoin t :: r | IStopA t :: r => t :: joins r
  | _ :: r => joins r
  end.
Definition rthread (p : list instr) : Prop := joins p = [] /\ In ILoop p.

Lemma joins_app a b : joins (a ++ b) = joins a ++ joins b.
Proof. induction a as [|x a IH]; cbn; auto. destruct x; cbn; rewrite ?IH; auto. Qed.

Lemma joins_print_rest rep h c : joins (print_rest rep h c) = [].
Proof. destruct rep, h, c; reflexivity. Qed.

Lemma joins_step rep t s ts r i s' ts' :
  exec rep t s (set_prog ts r) i = Some (s', ts') -> incl (joins (prog ts')) (joins (i :: r)).
Proof.
  intros He.
  destruct (exec_prog_cases _ _ _ _ _ _ _ _ He)
    as [[H _]|[[Hi H]|[[c [h [Hi H]]]|[[Hi H]|[[Hi H]|[[Hi H]|[[Hi H]|[[rt [Hi H]]|[rt [Hi H]]]]]]]]]];
    rewrite H; subst; rewrite ?joins_app, ?joins_print_rest; cbn [joins flush_seq start_rest stop_rest tick_seq refresh_seq
      print_seq check_seq stopa_rest app]; try apply incl_refl.
  - destruct i; cbn [joins]; try apply incl_refl; apply incl_tl, incl_refl.
  - apply incl_tl, incl_refl.
Qed.

Lemma fin_mono rep t s ts i s' ts' x :
  exec rep t s ts i = Some (s', ts') -> existsb (Nat.eqb x) (fin s) = true -> existsb (Nat.eqb x) (fin s') = true.
Proof.
  intros He Hx. destruct i; cbn [exec] in He;
    repeat match type of He with context [match ?c with _ => _ end] => destruct c end;
    inversion He; subst; try (destruct l); cbn; rewrite ?Hx, ?Bool.orb_true_r; auto.
Qed.

Lemma rthread_step rep t s ts r i s' ts' :
  rthread (i :: r) -> exec rep t s (set_prog ts r) i = Some (s', ts') ->
  rthread (prog ts') \/ existsb (Nat.eqb t) (fin s') = true.
Proof.
  intros [Hj Hl] He. pose proof (joins_step _ _ _ _ _ _ _ _ He) as Inc. rewrite Hj in Inc.
  assert (Nj : joins (prog ts') = []) by (destruct (joins (prog ts')) as [|x l]; auto; destruct (Inc x (or_introl eq_refl))).
  destruct Hl as [Hl|Hl].
  { subst i. cbn [exec] in He. destruct (done s) eqn:Ed; inversion He; subst; clear He.
    - right. cbn. rewrite Nat.eqb_refl. reflexivity.
    - left. split; [exact Nj|]. cbn [prog set_prog tick_seq app]. cbn; auto. }
  left. split; [exact Nj|].
  destruct (exec_prog_cases _ _ _ _ _ _ _ _ He)
    as [[H Hs]|[[Hi H]|[[c [h [Hi H]]]|[[Hi H]|[[Hi H]|[[Hi H]|[[Hi H]|[[rt [Hi H]]|[rt [Hi H]]]]]]]]]];
    rewrite H; try exact Hl; try (apply in_or_app; right; exact Hl).
  right. exact Hl.
Qed.

Definition JInv (st : state) : Prop :=
  forall t t', In t' (joins (prog (th st t))) ->
    existsb (Nat.eqb t') (fin (sh st)) = true \/ rthread (prog (th st t')).

Lemma step_jinv rep st u st' : JInv st -> step rep st u = Some st' -> JInv st'.
Proof.
  intros J Hs. unfold step in Hs.
  destruct (prog (th st u)) as [|i r] eqn:Ep; [discriminate|].
  destruct (exec rep u (sh st) (set_prog (th st u) r) i) as [[s' ts']|] eqn:Ee; [|discriminate].
  inversion Hs; subst; clear Hs.
  intros t t' Hin. cbn [sh th] in *.
  assert (Old : existsb (Nat.eqb t') (fin (sh st)) = true \/ rthread (prog (th st t'))).
  { apply (J t). unfold upd in Hin. destruct (Nat.eqb t u) eqn:E; auto.
    apply Nat.eqb_eq in E. subst t. rewrite Ep. apply (joins_step _ _ _ _ _ _ _ _ Ee). exact Hin. }
  destruct Old as [F|Rt].
  - left. eapply fin_mono; eauto.
  - unfold upd. destruct (Nat.eqb t' u) eqn:E; [|right; exact Rt].
    apply Nat.eqb_eq in E. subst t'. rewrite Ep in Rt.
    destruct (rthread_step _ _ _ _ _ _ _ _ Rt Ee); auto.
Qed.

Lemma run_jinv rep sched : forall st, JInv st -> JInv (run rep sched st).
Proof.
  induction sched as [|t r IH]; intros st I; cbn [run]; auto.
  destruct (step rep st t) eqn:E; auto. apply IH. eapply step_jinv; eauto.
Qed.

(* the programs: whoever is joined runs a refresh loop and joins nobody *)
Definition join_targets_ok (progs : tid -> list op) : Prop :=
  forall t t', In t' (joins (compile (progs t))) -> rthread (compile (progs t')).

(* a thread that owns a lock is not about to join *)
Lemma owner_not_joining st l u n t' r :
  Inv st -> getl (sh st) l = Some (u, n) -> prog (th st u) <> IJoin t' :: r.
Proof.
  intros [Ip Ic Ig] Ho Hp. pose proof (owner_held _ _ _ _ Ip Ho) as Hh. rewrite Ic, Hp in Hh.
  specialize (Ig u). rewrite Hp in Ig. destruct (good_head _ Ig) as [_ [_ H]]. specialize (H l). lia.
Qed.

Lemma steps_or_joins rep st t :
  Inv2 st -> prog (th st t) <> [] -> ~ blocked st t ->
  step rep st t <> None \/ (exists t' r, prog (th st t) = IJoin t' :: r /\ existsb (Nat.eqb t') (fin (sh st)) = false).
Proof.
  intros I2 Hp Hb. destruct (prog (th st t)) as [|i r] eqn:E; [congruence|].
  destruct (not_blocked_steps rep st t i r (j_inv _ I2) E Hb) as [S|[[Hi Hh]|[t' [Hi Hf]]]]; auto.
  - subst i. pose proof (pop_render_hook_safe st t r I2 E). lia.
  - subst i. right. eauto.
Qed.

(* MAIN: locks AND joins -- whenever some thread has not finished, some thread can step *)
Theorem deadlock_free_full rep live sh0 r0 progs sched t0 :
  join_targets_ok progs ->
  let st := run rep sched (init_state live sh0 r0 progs) in
  prog (th st t0) <> [] -> exists t, step rep st t <> None.
Proof.
  intros JT st H0.
  assert (I2 : Inv2 st) by (apply run_inv2, init_inv2).
  assert (J : JInv st) by (apply run_jinv; intros t t' Hin; right; apply (JT t); exact Hin).
  pose proof (j_inv _ I2) as I.
  assert (Owner : forall l u n, getl (sh st) l = Some (u, n) ->
                  (forall l', rank l < rank l' -> getl (sh st) l' = None) -> exists t, step rep st t <> None).
  { intros l u n Ho Hfree. destruct (owner_not_blocked st l u n I Ho Hfree) as [Hp Hb].
    exists u. destruct (steps_or_joins rep st u I2 Hp Hb) as [S|[t' [r [E _]]]]; auto.
    exfalso. eapply owner_not_joining; eauto. }
  destruct (getl (sh st) LRecord) as [[u n]|] eqn:ER.
  { apply (Owner LRecord u n ER). intros l' Hl. destruct l'; cbn in Hl; lia. }
  destruct (getl (sh st) LConsole) as [[u n]|] eqn:EC.
  { apply (Owner LConsole u n EC). intros l' Hl. destruct l'; cbn in Hl; try lia. exact ER. }
  destruct (getl (sh st) LLive) as [[u n]|] eqn:EL.
  { apply (Owner LLive u n EL). intros l' Hl. destruct l'; cbn in Hl; try lia; auto. }
  (* no lock is held at all: nobody is blocked on a lock *)
  assert (NB : forall t, ~ blocked st t).
  { intros t [l [r [u [n [_ [Hg _]]]]]]. destruct l; congruence. }
  destruct (steps_or_joins rep st t0 I2 H0 (NB t0)) as [S|[t' [r [E Hf]]]]; [exists t0; exact S|].
  (* t0 waits in join() for t', which has not finished: t' is a refresh thread and can step *)
  destruct (J t0 t') as [F|[Nj Hl]]; [rewrite E; cbn; auto | congruence |].
  assert (Hp : prog (th st t') <> []) by (intro X; rewrite X in Hl; destruct Hl).
  exists t'. destruct (steps_or_joins rep st t' I2 Hp (NB t')) as [S|[t'' [r' [E' _]]]]; auto.
  rewrite E' in Nj. discriminate Nj.
Qed.

(* why the rule "join only with no lock held" is needed (seeded mutation C11-r2m1: Live.stop()
   joining the refresh thread inside `with self._lock`): thread 1 has passed `done.wait()` and is
   about to take the live lock for its tick; thread 0 takes the lock, sets done, and joins. *)
Definition join_under_lock_state : state :=
  mkSt (init_shared true None (0, 1%nat))
       (fun t => match t with
                 | 0%nat => init_t [IAcq LLive; ISetDone; IJoin 1%nat; IRel LLive]
                 | 1%nat => init_t [ILoop]
                 | _ => init_t []
                 end).
Example join_under_lock_deadlocks :
  let st := run false [1; 0; 0; 0; 1; 0; 1]%nat join_under_lock_state in
  runnable false st 2 = [] /\ finished st 2 = false
  /\ prog (th st 0%nat) = [IJoin 1%nat; IRel LLive] /\ lkL (sh st) = Some (0%nat, 1%nat).
Proof. vm_compute. repeat (split; [reflexivity|]). reflexivity. Qed.
(* the same interleaving with the join after the release (rich as it is) terminates *)
Example join_after_release_finishes :
  let st0 := mkSt (init_shared true None (0, 1%nat))
                  (fun t => match t with
                            | 0%nat => init_t (compile [StopAuto 1%nat])
                            | 1%nat => init_t (compile [RefreshLoop])
                            | _ => init_t [] end) in
  let st := run false ([1; 0; 0; 0; 1] ++ repeat 0 80 ++ repeat 1 80 ++ repeat 0 5)%nat st0 in
  finished st 2 = true /\ fin (sh st) = [1%nat].
Proof. vm_compute. split; reflexivity. Qed.
