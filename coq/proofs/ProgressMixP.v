(* C12: event-granular interleaving of advance / update / reset calls (model Progress.Mix over the
   finer event lists regenerated from rich/progress.py).  For EVERY triple of event lists satisfying
   the static discipline wfx_b, every schedule of any number of threads:
     - at every step, task.completed = (last written set value) + (sum of the += writes since), i.e.
       eval_log of the writes in execution order -- no += is ever lost or applied to a stale read;
     - at every quiescent point the writes are exactly those of the calls in lock-acquisition order. *)
From RichModel Require Import Prelude Progress SpecProgress.
From RichGen Require Import ProgressLock.
From Coq Require Import ZifyBool Lia.
Import Mix.
Open Scope Z_scope.

Ltac splits := repeat match goal with |- _ /\ _ => split end.

Lemma eval_log_snoc c0 l w :
  eval_log c0 (l ++ [w]) = match w with WSet v => v | WAdd a => eval_log c0 l + a end.
Proof. unfold eval_log. rewrite fold_left_app. simpl. destruct w; reflexivity. Qed.

Lemma mix_nth_set_eq {A} (l : list A) : forall i x y, nth_error l i = Some y -> nth_error (set_nth i x l) i = Some x.
Proof. induction l; intros [|i] x y H; simpl in *; try discriminate; auto. eapply IHl; eauto. Qed.
Lemma mix_nth_set_neq {A} (l : list A) : forall i j x, i <> j -> nth_error (set_nth i x l) j = nth_error l j.
Proof. induction l; intros [|i] [|j] x H; simpl; auto; try congruence. Qed.

(* after the release only thread-local events remain: no writes *)
Lemma wfx2_no_writes o : forall l v, wfx_from 2 v l = true -> flat_map (writes_ev o) l = [].
Proof.
  induction l as [|e l IH]; intros v H; simpl; auto.
  destruct e; simpl in H; try discriminate; simpl; eapply IH; eauto.
Qed.

Ltac mfin :=
  splits; auto; try tauto; try congruence; try (intros; discriminate);
  try (let j := fresh in let Hj := fresh in let H := fresh in
       intros j Hj; split; intros H; [try (injection H as H); congruence | congruence]);
  try (let H := fresh in split; intros H; discriminate);
  try (intros; congruence);
  try (rewrite eval_log_snoc; lia).

Section MIX.
Variables evA evU evR : list xev.
Hypothesis HwA : wfx_b evA = true.
Hypothesis HwU : wfx_b evU = true.
Hypothesis HwR : wfx_b evR = true.
Variable c0 : Z.

Notation exec := (Mix.exec).
Notation prog_of := (Mix.prog_of evA evU evR).
Notation writes_of := (Mix.writes_of evA evU evR).
Notation sstep := (Mix.sstep evA evU evR).
Notation srun := (Mix.srun evA evU evR).

Lemma prog_wf o : wfx_b (prog_of o) = true.
Proof. destruct o; assumption. Qed.

Definition pend (s : shared) (th : thread) : Prop :=
  match g_phase th with
  | O => flat_map (writes_ev (cur th)) (pc th) = writes_of (cur th)
  | S O => wlog s ++ flat_map (writes_ev (cur th)) (pc th) = concat (map writes_of (hist s))
  | _ => flat_map (writes_ev (cur th)) (pc th) = []
  end.

Record tix (s : shared) (j : nat) (th : thread) : Prop := {
  x_wf : wfx_from (g_phase th) (g_valid th) (pc th) = true;
  x_lock : g_phase th = 1%nat <-> lock s = Some j;
  x_valid : g_valid th = true -> g_phase th = 1%nat /\ r_c th = completed s;
  x_pend : pend s th
}.

Definition minv (st : state) : Prop :=
  completed (fst st) = eval_log c0 (wlog (fst st)) /\
  (lock (fst st) = None -> wlog (fst st) = concat (map writes_of (hist (fst st)))) /\
  forall j th, nth_error (snd st) j = Some th -> tix (fst st) j th.

(* one event of thread i *)
Lemma exec_mix i s tc e rest s' th' :
  pc tc = e :: rest ->
  wfx_from (g_phase tc) (g_valid tc) (e :: rest) = true ->
  (g_phase tc = 1%nat <-> lock s = Some i) ->
  (g_valid tc = true -> g_phase tc = 1%nat /\ r_c tc = completed s) ->
  completed s = eval_log c0 (wlog s) ->
  exec i s tc e = Some (s', th') ->
  (pc th' = rest /\ cur th' = cur tc /\ todo th' = todo tc) /\
  wfx_from (g_phase th') (g_valid th') rest = true /\
  (g_phase th' = 1%nat <-> lock s' = Some i) /\
  (g_valid th' = true -> g_phase th' = 1%nat /\ r_c th' = completed s') /\
  completed s' = eval_log c0 (wlog s') /\
  (forall j, j <> i -> (lock s' = Some j <-> lock s = Some j)) /\
  (completed s' <> completed s -> g_phase tc = 1%nat) /\
  wlog s' = wlog s ++ writes_ev (cur tc) e /\
  hist s' = hist s ++ (match e with XAcq => [cur tc] | _ => [] end) /\
  g_phase th' = (match e with XAcq => 1%nat | XRel => 2%nat | _ => g_phase tc end) /\
  (writes_ev (cur tc) e <> [] -> g_phase tc = 1%nat) /\
  (e = XAcq -> lock s = None /\ g_phase tc = 0%nat) /\
  (e = XRel -> g_phase tc = 1%nat) /\
  (g_phase tc <> 1%nat -> e <> XAcq -> s' = s).
Proof.
  intros Hpc Hwf Hl Hv Hc He.
  assert (Hnil : forall l : list wr, l ++ [] = l) by (intros; apply app_nil_r).
  destruct e; simpl in He, Hwf.
  - (* XClock *) injection He as <- <-. simpl. rewrite Hpc. simpl. rewrite ?app_nil_r. mfin.
  - (* XAcq *) apply andb_true_iff in Hwf as [Hp Hwf]. apply Nat.eqb_eq in Hp.
    destruct (lock s) eqn:El; [discriminate|]. injection He as <- <-. simpl. rewrite Hpc. simpl. rewrite ?app_nil_r.
    mfin.
  - (* XRel *) apply andb_true_iff in Hwf as [Hp Hwf]. apply Nat.eqb_eq in Hp.
    injection He as <- <-. simpl. rewrite Hpc. simpl. rewrite ?app_nil_r.
    assert (Hli : lock s = Some i) by (apply Hl; exact Hp). mfin.
  - (* XRdC *) apply andb_true_iff in Hwf as [Hp Hwf]. apply Nat.eqb_eq in Hp.
    injection He as <- <-. simpl. rewrite Hpc. simpl. rewrite ?app_nil_r. mfin.
  - (* XAddC *) apply andb_true_iff in Hwf as [Hp Hwf]. apply andb_true_iff in Hp as [Hp Hval]. apply Nat.eqb_eq in Hp.
    destruct (Hv Hval) as [_ Hrc].
    destruct (guard_ok g (cur tc)) eqn:Eg; [destruct (arg_adv (cur tc)) as [a|] eqn:Ea|];
      injection He as <- <-; simpl; rewrite Hpc; simpl; rewrite ?Eg, ?Ea, ?app_nil_r; mfin.
  - (* XSetC *) apply andb_true_iff in Hwf as [Hp Hwf]. apply Nat.eqb_eq in Hp.
    destruct (guard_ok g (cur tc)) eqn:Eg; [destruct (arg_comp (cur tc)) as [c|] eqn:Ea|];
      injection He as <- <-; simpl; rewrite Hpc; simpl; rewrite ?Eg, ?Ea, ?app_nil_r; mfin.
  - (* XOther *) apply andb_true_iff in Hwf as [Hp Hwf]. apply Nat.eqb_eq in Hp.
    injection He as <- <-. simpl. rewrite Hpc. simpl. rewrite ?app_nil_r. mfin.
  - (* XLocal *) injection He as <- <-. simpl. rewrite Hpc. simpl. rewrite ?app_nil_r. mfin.
Qed.

Definition quiet_log (s : shared) : Prop := lock s = None -> wlog s = concat (map writes_of (hist s)).

Lemma exec_pend i s tc e rest s' th' :
  pc tc = e :: rest ->
  wfx_from (g_phase tc) (g_valid tc) (e :: rest) = true ->
  (g_phase tc = 1%nat <-> lock s = Some i) ->
  pend s tc -> quiet_log s ->
  exec i s tc e = Some (s', th') ->
  pend s' th' /\ quiet_log s'.
Proof.
  intros Hpc Hwf Hl Hp Hq He. unfold pend, quiet_log in *. rewrite Hpc in Hp.
  destruct e; simpl in He, Hwf.
  - injection He as <- <-. simpl. rewrite ?Hpc. simpl. split; auto; try (destruct (g_phase tc) as [|[|?]]; exact Hp).
  - apply andb_true_iff in Hwf as [Hph Hwf]. apply Nat.eqb_eq in Hph. rewrite Hph in Hp. simpl in Hp.
    destruct (lock s) eqn:El; [discriminate|]. injection He as <- <-. simpl. rewrite ?Hpc. simpl. split; [|intros H; discriminate].
    rewrite map_app, concat_app. simpl. rewrite app_nil_r. rewrite (Hq eq_refl), Hp. reflexivity.
  - apply andb_true_iff in Hwf as [Hph Hwf]. apply Nat.eqb_eq in Hph. rewrite Hph in Hp. simpl in Hp.
    injection He as <- <-. simpl. rewrite ?Hpc. simpl. pose proof (wfx2_no_writes (cur tc) rest false Hwf) as Hn.
    split; [exact Hn|]. intros _. rewrite Hn, app_nil_r in Hp. exact Hp.
  - apply andb_true_iff in Hwf as [Hph Hwf]. apply Nat.eqb_eq in Hph. rewrite Hph in Hp. simpl in Hp.
    injection He as <- <-. simpl. rewrite ?Hpc. simpl. rewrite Hph. split; auto.
  - apply andb_true_iff in Hwf as [Hph Hwf]. apply andb_true_iff in Hph as [Hph _]. apply Nat.eqb_eq in Hph.
    rewrite Hph in Hp. simpl in Hp.
    assert (Hli : lock s = Some i) by (apply Hl; exact Hph).
    destruct (guard_ok g (cur tc)) eqn:Eg; [destruct (arg_adv (cur tc)) as [a|] eqn:Ea|];
      injection He as <- <-; simpl; rewrite ?Hpc; simpl; rewrite Hph; (split; [|try (intros H; congruence); auto]);
      rewrite <- ?app_assoc; exact Hp.
  - apply andb_true_iff in Hwf as [Hph Hwf]. apply Nat.eqb_eq in Hph. rewrite Hph in Hp. simpl in Hp.
    assert (Hli : lock s = Some i) by (apply Hl; exact Hph).
    destruct (guard_ok g (cur tc)) eqn:Eg; [destruct (arg_comp (cur tc)) as [c|] eqn:Ea|];
      injection He as <- <-; simpl; rewrite ?Hpc; simpl; rewrite Hph; (split; [|try (intros H; congruence); auto]);
      rewrite <- ?app_assoc; exact Hp.
  - apply andb_true_iff in Hwf as [Hph Hwf]. apply Nat.eqb_eq in Hph. rewrite Hph in Hp. simpl in Hp.
    injection He as <- <-. simpl. rewrite ?Hpc. simpl. rewrite Hph. split; auto.
  - injection He as <- <-. simpl. rewrite ?Hpc. simpl. split; auto; try (destruct (g_phase tc) as [|[|?]]; exact Hp).
Qed.

Lemma minv_exec s ths i th tc e rest s' th' :
  minv (s, ths) -> nth_error ths i = Some th -> tix s i tc -> pc tc = e :: rest ->
  exec i s tc e = Some (s', th') ->
  minv (s', set_nth i th' ths).
Proof.
  intros (Hc & Hq & Ht) Hi [Xw Xl Xv Xp] Hpc He. cbn [fst snd] in *. rewrite Hpc in Xw.
  destruct (exec_mix i s tc e rest s' th' Hpc Xw Xl Xv Hc He)
    as ((Hp' & Hcur & Htd) & Hw' & Hl' & Hv' & Hc' & Hoth & Hchg & Hlog & Hhist & Hph & Hwr & Hacq & Hrel & Hsame).
  destruct (exec_pend i s tc e rest s' th' Hpc Xw Xl Xp Hq He) as [Hpend' Hq'].
  unfold minv. cbn [fst snd]. splits; auto.
  intros j thj Hj. destruct (Nat.eq_dec i j) as [Heq|Hne].
  - subst j. rewrite (mix_nth_set_eq ths i th' th Hi) in Hj. injection Hj as Hj. subst thj.
    constructor; auto. rewrite Hp'. exact Hw'.
  - rewrite (mix_nth_set_neq ths i j th' Hne) in Hj. destruct (Ht j thj Hj) as [Jw Jl Jv Jp].
    constructor; auto.
    + rewrite Jl. symmetry. apply Hoth. congruence.
    + intros Hval. destruct (Jv Hval) as [J1 J2]. split; auto. rewrite J2.
      destruct (Z.eq_dec (completed s') (completed s)) as [->|Hd]; [reflexivity|].
      exfalso. apply Hchg in Hd. apply Xl in Hd. apply Jl in J1. congruence.
    + unfold pend in *. destruct (g_phase thj) as [|[|?]] eqn:Ej; auto.
      (* thread j holds the lock: thread i's event left the shared state alone *)
      assert (Hlj : lock s = Some j) by (apply Jl; reflexivity).
      assert (Hs : s' = s).
      { apply Hsame.
        - intros H. apply Xl in H. congruence.
        - intros ->. destruct (Hacq eq_refl) as [H _]. congruence. }
      rewrite Hs. exact Jp.
Qed.

Lemma minv_replace s ths i th tc :
  minv (s, ths) -> nth_error ths i = Some th -> tix s i tc -> minv (s, set_nth i tc ths).
Proof.
  intros (Hc & Hq & Ht) Hi Htc. unfold minv. cbn [fst snd] in *. splits; auto.
  intros j thj Hj. destruct (Nat.eq_dec i j) as [Heq|Hne].
  - subst j. rewrite (mix_nth_set_eq ths i tc th Hi) in Hj. injection Hj as Hj. subst thj. exact Htc.
  - rewrite (mix_nth_set_neq ths i j tc Hne) in Hj. exact (Ht j thj Hj).
Qed.

Lemma minv_step st i : minv st -> minv (sstep st i).
Proof.
  destruct st as [s ths]. intros M. unfold Mix.sstep.
  destruct (nth_error ths i) as [th|] eqn:Hi; [|exact M].
  pose proof (proj2 (proj2 M) i th Hi) as Hti. cbn [fst snd] in Hti.
  destruct (Mix.step1 evA evU evR i s th) as [s' th'] eqn:Es. unfold Mix.step1 in Es.
  destruct (pc th) as [|e rest] eqn:Hpc.
  - destruct (todo th) as [|o rest'] eqn:Htd.
    + injection Es as <- <-. eapply minv_replace; eauto.
    + set (th0 := mkThread (prog_of o) o rest' 0 0%nat false) in *.
      destruct Hti as [Xw Xl Xv Xp]. rewrite Hpc in Xw. simpl in Xw. apply Nat.eqb_eq in Xw.
      assert (Ht0 : tix s i th0).
      { constructor; simpl.
        - exact (prog_wf o).
        - split; [discriminate|]. intros H. apply Xl in H. congruence.
        - discriminate.
        - unfold pend. simpl. reflexivity. }
      pose proof (prog_wf o) as Hpw. unfold wfx_b in Hpw.
      destruct (prog_of o) as [|e rest] eqn:Ep; [simpl in Hpw; discriminate|].
      destruct (exec i s th0 e) as [[s1 t1]|] eqn:He; injection Es as <- <-.
      * eapply minv_exec; eauto. reflexivity.
      * eapply minv_replace; eauto.
  - destruct (exec i s th e) as [[s1 t1]|] eqn:He; injection Es as <- <-.
    + eapply minv_exec; eauto.
    + eapply minv_replace; eauto.
Qed.

Lemma minv_run sched : forall st, minv st -> minv (srun st sched).
Proof. induction sched; intros st M; simpl; auto. apply IHsched. apply minv_step. exact M. Qed.

Lemma minv_init progs : minv (init_state c0 progs).
Proof.
  unfold minv, init_state. cbn [fst snd]. splits; simpl; auto.
  intros j th Hj. apply nth_error_In in Hj. apply in_map_iff in Hj as (p & <- & _).
  constructor; simpl; auto.
  - split; discriminate.
  - discriminate.
  - unfold pend. simpl. reflexivity.
Qed.

(* at EVERY step of every schedule: completed is the fold of the writes performed so far *)
Theorem mixed_completed_every_step progs sched :
  let s := fst (srun (init_state c0 progs) sched) in
  completed s = eval_log c0 (wlog s).
Proof. intros s. exact (proj1 (minv_run sched _ (minv_init progs))). Qed.

(* at every quiescent point: the writes are those of the calls in lock-acquisition order *)
Theorem mixed_quiescent progs sched :
  let s := fst (srun (init_state c0 progs) sched) in
  lock s = None -> completed s = eval_log c0 (concat (map writes_of (hist s))).
Proof.
  intros s Hq. destruct (minv_run sched _ (minv_init progs)) as (Hc & Hql & _). fold s in Hc, Hql.
  rewrite <- (Hql Hq). exact Hc.
Qed.
End MIX.

(* ------------------------------------------------------------------ "last set value + advances since" *)
Definition log_ref (c0 : Z) (l : list wr) : Z * list Z :=
  fold_left (fun '(b, advs) w => match w with WSet v => (v, []) | WAdd a => (b, a :: advs) end) l (c0, []).
Lemma eval_log_is_last_set_plus_advances c0 l :
  eval_log c0 l = fst (log_ref c0 l) + sumZ (snd (log_ref c0 l)).
Proof.
  unfold eval_log, log_ref.
  assert (H : forall l c b advs, c = b + sumZ advs ->
            fold_left (fun c w => match w with WSet v => v | WAdd a => c + a end) l c =
            fst (fold_left (fun '(b, advs) w => match w with WSet v => (v, []) | WAdd a => (b, a :: advs) end) l (b, advs)) +
            sumZ (snd (fold_left (fun '(b, advs) w => match w with WSet v => (v, []) | WAdd a => (b, a :: advs) end) l (b, advs)))).
  { induction l0 as [|w l0 IH]; intros c b advs Hc; simpl; auto.
    destruct w; apply IH; simpl; lia. }
  apply H. simpl. lia.
Qed.

(* ------------------------------------------------------------------ the lists regenerated from rich/progress.py *)
Lemma xevents_wf :
  wfx_b advance_xevents = true /\ wfx_b update_xevents = true /\ wfx_b reset_xevents = true.
Proof. vm_compute. repeat split; reflexivity. Qed.

(* what each call writes to task.completed is what the property's reading of the call says *)
Lemma xevents_writes o :
  Mix.writes_of advance_xevents update_xevents reset_xevents o = spec_writes o.
Proof. destruct o as [a|tot comp adv|c]; [|destruct tot, comp, adv|]; reflexivity. Qed.

Theorem mixed_no_lost_update : forall c0 progs sched,
  let s := fst (Mix.srun advance_xevents update_xevents reset_xevents (init_state c0 progs) sched) in
  completed s = eval_log c0 (wlog s) /\
  (lock s = None -> completed s = eval_log c0 (concat (map spec_writes (hist s)))).
Proof.
  intros c0 progs sched s. destruct xevents_wf as (A & U & R). split.
  - exact (mixed_completed_every_step _ _ _ A U R c0 progs sched).
  - intros Hq. pose proof (mixed_quiescent _ _ _ A U R c0 progs sched Hq) as H. fold s in H.
    rewrite H. f_equal. f_equal. apply map_ext. exact xevents_writes.
Qed.

Example mixed_nonvacuous :
  let s := fst (Mix.srun advance_xevents update_xevents reset_xevents
                  (init_state 5 [[MAdv 1; MUpd None None (Some 2)]; [MUpd None (Some 10) (Some 7); MAdv 3]])
                  (concat (repeat [0; 1]%nat 120))) in
  lock s = None /\ List.length (hist s) = 4%nat /\ completed s = eval_log 5 (wlog s).
Proof. vm_compute. repeat split; reflexivity. Qed.
